(* C05 - property theorems only (proofs: C05_Proofs, C05_ProofsCodec, C05_ProofsText). *)
From HV Require Import Prelude Tracts BpText C05_Model C05_Check C05_Proofs C05_ProofsCodec C05_ProofsText.

(* _find_blocks returns, for every position, the index i of the first end >= it
   (ends[i] >= p, every earlier end < p); it raises iff some position has no such end *)
Theorem C05_find_blocks_spec :
  forall ends ps,
  match find_blocks ends ps with
  | Ok idx =>
      Forall2 (fun p i => exists e, nth_error ends i = Some e /\ p <= e /\
                          forall j e', (j < i)%nat -> nth_error ends j = Some e' -> e' < p) ps idx
  | Err k => k = E_Value /\ exists p, In p ps /\ forall e, In e ends -> e < p
  end.
Proof. exact find_blocks_spec. Qed.
Print Assumptions C05_find_blocks_spec.

(* ... which on an ascending array means: iff some position is beyond the last end *)
Theorem C05_find_blocks_error_iff_beyond_last :
  forall ends ps l, ascending ends = true -> last_opt ends = Some l ->
  ((exists k, find_blocks ends ps = Err k) <-> exists p, In p ps /\ l < p).
Proof. exact find_blocks_error_iff_beyond_last. Qed.
Print Assumptions C05_find_blocks_error_iff_beyond_last.

(* the chromosome-wise searchsorted + scatter of population_array is, cell by cell, the
   label of the first block on the variant's chromosome whose end is >= its position *)
Theorem C05_strand_row_cellwise :
  forall blocks vs,
  strand_row blocks vs =
  mapM (fun v => match label_at blocks (vchrom v) (vpos v) with Some l => Ok l | None => Err E_Value end) vs.
Proof. exact strand_row_cellwise. Qed.
Print Assumptions C05_strand_row_cellwise.

(* row k of the answer belongs to the k-th *requested* sample and cell (k, v, t) is the
   covering block's label on strand t; an unknown sample, an uncovered position or an absent
   chromosome is an error, never an answer *)
Theorem C05_population_array_spec :
  forall d vs req, NoDup req ->
  match population_array d vs (Some req) with
  | Ok arr =>
      Forall2 (fun s row => exists sb, zassoc s d = Some sb /\
        Forall2 (fun v c => label_at (fst sb) (vchrom v) (vpos v) = Some (fst c) /\
                            label_at (snd sb) (vchrom v) (vpos v) = Some (snd c)) vs row) req arr
  | Err k =>
      (k = E_Key /\ exists s, In s req /\ zassoc s d = None) \/
      (k = E_Value /\ exists s sb, In s req /\ zassoc s d = Some sb /\
         exists v, In v vs /\ (label_at (fst sb) (vchrom v) (vpos v) = None \/
                               label_at (snd sb) (vchrom v) (vpos v) = None))
  end.
Proof. exact population_array_spec. Qed.
Print Assumptions C05_population_array_spec.

Theorem C05_population_array_all_spec :
  forall d vs,
  match population_array d vs None with
  | Ok arr => Forall2 (fun nsb row => cells_ok (snd nsb) vs row) d arr
  | Err k => k = E_Value /\ exists nsb, In nsb d /\ uncovered_cell (snd nsb) vs
  end.
Proof. exact population_array_all_spec. Qed.
Print Assumptions C05_population_array_all_spec.

(* decoding restores the data, for every order of distinct given labels *)
Theorem C05_encode_recode_id :
  forall d given,
  (match given with Some g => NoDup g | None => True end) ->
  (forall nsb, In nsb d -> fst (snd nsb) <> [] /\ snd (snd nsb) <> []) ->
  exists st', encode given (mkbp d None) = Ok st' /\ recode st' = Ok (mkbp d None).
Proof. exact encode_recode_id. Qed.
Print Assumptions C05_encode_recode_id.

Theorem C05_encode_recode_example :
  let d := [(0, ([mkseg 7 1 10122 3], [mkseg 8 1 10115 0; mkseg 7 1 10116 1; mkseg 9 1 10120 2; mkseg 7 1 10122 3]))] in
  exists st', encode (Some [9; 8; 7]) (mkbp d None) = Ok st' /\
              blabels st' = Some [(9, 0); (8, 1); (7, 2)] /\ recode st' = Ok (mkbp d None).
Proof. exact encode_recode_example. Qed.
Print Assumptions C05_encode_recode_example.

(* encoded queries return the codes of the same labels, and the same errors *)
Theorem C05_encoded_lookup_commutes :
  forall d given st' vs req,
  encode given (mkbp d None) = Ok st' ->
  exists labels, blabels st' = Some labels /\
    (forall p, In p (pops_of d) -> zassoc p labels <> None) /\
    bdata st' = map_table (code_of labels) d /\
    population_array (bdata st') vs req =
      rmap (map (map (pair_map (code_of labels)))) (population_array d vs req).
Proof. exact encoded_lookup_commutes. Qed.
Print Assumptions C05_encoded_lookup_commutes.

(* reading what write() wrote gives the data back: samples, order, labels, chromosomes,
   positions, cM values - for sample names with arbitrary underscores *)
Theorem C05_bp_roundtrip :
  forall (parse_int parse_flt : str -> res Z) (fmt_int fmt_flt : Z -> str) (d : ctable),
  Forall (wf_sample parse_int parse_flt fmt_int fmt_flt) d -> NoDup (map fst d) ->
  bp_read parse_int parse_flt None (bp_write fmt_int fmt_flt d) = Ok d.
Proof. exact bp_roundtrip. Qed.
Print Assumptions C05_bp_roundtrip.

Theorem C05_bp_roundtrip_example :
  let d : ctable := [([97; 95; 98], ([mkcb [89] [49] 10 7; mkcb [67] [49] 20 8], [mkcb [67] [49] 20 8]));
                     ([], ([], [mkcb [] [] 0 0]))] in
  Forall (wf_sample toy_parse toy_parse toy_fmt toy_fmt) d /\ NoDup (map fst d) /\
  bp_read toy_parse toy_parse None (bp_write toy_fmt toy_fmt d) = Ok d.
Proof. exact bp_roundtrip_example. Qed.
Print Assumptions C05_bp_roundtrip_example.

(* soundness of the boolean checkers evaluated on the implementation's output *)
Theorem C05_holds_find_sound :
  forall ends ps obs,
  holds_find (mkf ends ps obs) = true -> ascending ends = true ->
  match obs with
  | Ok idx => Forall2 (fun p i => exists e, nthZ ends i = Some e /\ p <= e /\
                         forall e', In e' (firstn (Z.to_nat i) ends) -> e' < p) ps idx
  | Err _ => exists p, In p ps /\ forall e, In e ends -> e < p
  end.
Proof. exact holds_find_sound. Qed.
Print Assumptions C05_holds_find_sound.

Theorem C05_holds_lookup_sound :
  forall d vs req obs,
  holds_lookup_gen d vs (Some req) obs = true -> nodupb req = true -> nodupb (map fst d) = true ->
  match obs with
  | Ok arr => Forall2 (fun s row => exists sb, zassoc s d = Some sb /\ cells_ok sb vs row) req arr
  | Err _ => exists s, In s req /\ (zassoc s d = None \/ exists sb, zassoc s d = Some sb /\ uncovered_cell sb vs)
  end.
Proof. exact holds_lookup_sound. Qed.
Print Assumptions C05_holds_lookup_sound.

Theorem C05_holds_write_sound :
  forall k, holds_write k = true -> write_domain (w_tbl k) = true -> w_reread k = Ok (w_tbl k).
Proof. exact holds_write_sound. Qed.
Print Assumptions C05_holds_write_sound.

Theorem C05_holds_codec_sound :
  forall k, holds_codec k = true -> codec_domain k = true -> e_rec k = Ok (e_tbl k).
Proof. exact holds_codec_sound. Qed.
Print Assumptions C05_holds_codec_sound.

(* read(samples) of a written file: exactly the requested samples that exist, in file order *)
Theorem C05_bp_roundtrip_subset :
  forall (parse_int parse_flt : str -> res Z) (fmt_int fmt_flt : Z -> str) (samples : option (list str)) (d : ctable),
  Forall (wf_sample parse_int parse_flt fmt_int fmt_flt) d -> NoDup (map fst d) ->
  bp_read parse_int parse_flt samples (bp_write fmt_int fmt_flt d) =
  Ok (filter (fun sb => selected samples (fst sb)) d).
Proof. exact bp_roundtrip_subset. Qed.
Print Assumptions C05_bp_roundtrip_subset.

(* a comment line (first token starts with '#') changes nothing, wherever it stands *)
Theorem C05_comments_ignored :
  forall (parse_int parse_flt : str -> res Z) (samples : option (list str))
         (ls1 : list (list str)) (c : str) (rest : list str) (ls2 : list (list str)),
  first_char_is c_hash c = true ->
  bp_read parse_int parse_flt samples (ls1 ++ (c :: rest) :: ls2) = bp_read parse_int parse_flt samples (ls1 ++ ls2).
Proof. exact comments_ignored. Qed.
Print Assumptions C05_comments_ignored.
