(* C06 - boolean checkers evaluated by the correspondence run on what the
   implementation returned.  [agree] compares with the model of C06_Model;
   [holds] is the property text as finite checks of the observed output:
     comments    inserted '#' lines that are not header declarations change nothing
     version     unsupported major / newer minor  <->  reported
     missing     expected-but-undeclared extras are reported
     binding     every record's fields are the columns the header assigns by name
     round trip  write -> read gives the same records up to the declared format,
                 write -> read -> write is byte-identical *)
From HV Require Import Prelude C06_Model.

(* ---- equalities --------------------------------------------------------- *)

Definition optZ_eqb := opt_eqb Z.eqb.
Definition tok_eqb (a b : tok) : bool :=
  (t_id a =? t_id b) && optZ_eqb (t_int a) (t_int b) && optZ_eqb (t_flt a) (t_flt b).
Definition val_eqb (a b : val) : bool :=
  match a, b with
  | VStr x, VStr y => x =? y
  | VInt x, VInt y => x =? y
  | VFlt x, VFlt y => x =? y
  | _, _ => false
  end.
Definition vals_eqb := list_eqb val_eqb.
Definition zs_eqb (a b : Z * str) : bool := (fst a =? fst b) && str_eqb (snd a) (snd b).
Definition event_eqb (a b : event) : bool :=
  match a, b with
  | EvUnsupported x, EvUnsupported y => str_eqb x y
  | EvOutdated x, EvOutdated y => str_eqb x y
  | EvPatch, EvPatch => true
  | EvMissing x, EvMissing y => list_eqb zs_eqb x y
  | EvBadLine x, EvBadLine y => x =? y
  | _, _ => false
  end.
Definition events_eqb := list_eqb event_eqb.
Definition line_eqb (a b : line) : bool :=
  match a, b with
  | LHash x, LHash y => str_eqb x y
  | LRec k s t, LRec k' s' t' => (k =? k') && (s =? s') && list_eqb tok_eqb t t'
  | LBlank, LBlank => true
  | _, _ => false
  end.
Definition obj_eqb (a b : obj) : bool :=
  (o_kind a =? o_kind b) && vals_eqb (o_vals a) (o_vals b) && list_eqb vals_eqb (o_vars a) (o_vars b).
Definition entry_eqb (a b : Z * obj) : bool := (fst a =? fst b) && obj_eqb (snd a) (snd b).
Definition data_eqb := list_eqb entry_eqb.
Definition zl_eqb (a b : Z * list str) : bool := (fst a =? fst b) && list_eqb str_eqb (snd a) (snd b).

Definition rout := (list (Z * obj) * list event)%type.
Definition rout_eqb (a b : rout) : bool := data_eqb (fst a) (fst b) && events_eqb (snd a) (snd b).

(* ---- what the header of a file says (direct reading of the format) ------- *)

(* a '#' line that is not a header declaration: neither of the two shapes, or
   the metadata shape with a name that is not version / orderH / orderV / orderR *)
Definition pure_comment (s : str) : bool :=
  match nth_error s 0 with
  | Some c0 =>
    (c0 =? cHASH) &&
    match classify s with
    | ShComment => true
    | ShDecl _ => false
    | ShMeta =>
        match split_on cTAB (skipn 2 s) with
        | name :: _ =>
            negb (str_eqb name s_version)
            && match order_letter name with None => true | Some _ => false end
        | [] => true
        end
    end
  | None => false
  end.

Definition version_values (ls : list str) : list str :=
  flat_map (fun s =>
    match classify s with
    | ShMeta =>
        match split_on cTAB (skipn 2 s) with
        | name :: v :: _ => if str_eqb name s_version then [v] else []
        | _ => []
        end
    | _ => []
    end) ls.

Definition decl_names (ls : list str) (t : Z) : list str :=
  flat_map (fun s =>
    match classify s with
    | ShDecl t' =>
        if t' =? t then
          match split_on cTAB (skipn 3 s) with
          | name :: _ :: _ :: _ => [name]
          | _ => []
          end
        else []
    | _ => []
    end) ls.

Definition last_order (ls : list str) (t : Z) : option (list str) :=
  fold_left (fun acc s =>
    match classify s with
    | ShMeta =>
        match split_on cTAB (skipn 2 s) with
        | name :: vals =>
            match order_letter name with
            | Some t' => if t' =? t then Some vals else acc
            | None => acc
            end
        | [] => acc
        end
    | _ => acc
    end) ls None.

Definition columns (ls : list str) (t : Z) : list str :=
  match last_order ls t with Some o => o | None => decl_names ls t end.

Definition missing_spec (c : cfg) (ls : list str) : list (Z * str) :=
  flat_map (fun t => map (fun n => (t, n))
                         (filter (fun n => negb (mem_str n (decl_names ls t))) (dedup_str (extras_order (cls_of c t)))))
           type_letters.

Definition ev_unsup_in (v : str) (logs : list event) : bool :=
  existsb (fun e => match e with EvUnsupported w => str_eqb w v | _ => false end) logs.

(* soft mode: every version string whose major differs or whose minor is newer
   has its unsupported-version warning (the converse - nothing else is reported -
   is a theorem about the model, the property text does not demand it) *)
Definition holds_version_soft (cur : str) (vals : list str) (logs : list event) : bool :=
  match parse3 cur with
  | None => true
  | Some e =>
      forallb (fun v => match parse3 v with
                        | None => true
                        | Some o => negb (unsupported o e) || ev_unsup_in v logs
                        end) vals
  end.

Definition some_unsupported (cur : str) (vals : list str) : bool :=
  match parse3 cur with
  | None => false
  | Some e => existsb (fun v => match parse3 v with Some o => unsupported o e | None => false end) vals
  end.

Definition subset_zs (a b : list (Z * str)) : bool :=
  forallb (fun x => existsb (zs_eqb x) b) a.

Definition holds_missing_soft (c : cfg) (ls : list str) (logs : list event) : bool :=
  let m := missing_spec c ls in
  match m with
  | [] => true
  | _ => existsb (fun ev => match ev with EvMissing m' => subset_zs m m' | _ => false end) logs
  end.

(* ---- relation header: check_header called on header lines ---------------- *)

Record hout := mkhout {
  ho_version : option str; ho_order : list (Z * list str);
  ho_extras : list (Z * list str); ho_logs : list event }.

Definition hout_eqb (a b : hout) : bool :=
  opt_eqb str_eqb (ho_version a) (ho_version b)
  && list_eqb zl_eqb (ho_order a) (ho_order b)
  && list_eqb zl_eqb (ho_extras a) (ho_extras b)
  && events_eqb (ho_logs a) (ho_logs b).

Record hcase := mkh {
  h_cfg : cfg; h_cv : bool; h_softly : bool;
  h_lines : list (str * bool);   (* line, true = inserted comment line *)
  h_obs : res hout;              (* check_header on all the lines *)
  h_obs_base : res hout          (* check_header without the inserted lines *)
}.

Definition hout_of (r : res hstate) : res hout :=
  match r with
  | Ok st => Ok (mkhout (hs_version st) (hs_order st) (hs_extras st) (hs_logs st))
  | Err k => Err k
  end.

Definition model_header (k : hcase) : res hout * res hout :=
  (hout_of (check_header false (h_cfg k) (h_cv k) (h_softly k) (map fst (h_lines k))),
   hout_of (check_header false (h_cfg k) (h_cv k) (h_softly k)
                         (map fst (filter (fun x => negb (snd x)) (h_lines k))))).

Definition is_err {A} (r : res A) : bool := match r with Err _ => true | Ok _ => false end.

Definition holds_header (k : hcase) : bool :=
  let all := map fst (h_lines k) in
  let vals := if h_cv k then version_values all else [] in
  let cur := cfg_version (h_cfg k) in
  (* comments *)
  (if forallb (fun x => negb (snd x) || pure_comment (fst x)) (h_lines k)
   then res_eqb hout_eqb (h_obs k) (h_obs_base k) else true)
  &&
  match h_obs k with
  | Ok o =>
      if h_softly k
      then holds_version_soft cur vals (ho_logs o) && holds_missing_soft (h_cfg k) all (ho_logs o)
      else negb (some_unsupported cur vals)
           && match missing_spec (h_cfg k) all with [] => true | _ => false end
  | Err e =>
      (if e =? ErrVersionReported then some_unsupported cur vals else true)
      && (if e =? ErrMissingReported
          then match missing_spec (h_cfg k) all with [] => false | _ => true end else true)
  end.

Definition check_header_rel (k : hcase) : bool * bool :=
  let '(m, mb) := model_header k in
  (res_eqb hout_eqb m (h_obs k) && res_eqb hout_eqb mb (h_obs_base k), holds_header k).

(* ---- relation read: Haplotypes.read on a generated file ------------------- *)

Record rcase := mkr {
  r_cfg : cfg; r_sel : option (list Z);
  r_lines : list (line * bool);   (* true = inserted comment line *)
  r_obs : res rout;               (* data (dict order) and warnings, or the exception *)
  r_obs_base : res rout           (* the same without the inserted lines *)
}.

Definition model_read (k : rcase) : res rout * res rout :=
  (read (r_cfg k) (r_sel k) (map fst (r_lines k)),
   read (r_cfg k) (r_sel k) (map fst (filter (fun x => negb (snd x)) (r_lines k)))).

Fixpoint header_of (ls : list line) : list str :=
  match ls with
  | LHash s :: r => s :: header_of r
  | _ => []
  end.

Fixpoint nodup_str (l : list str) : bool :=
  match l with [] => true | x :: r => negb (mem_str x r) && nodup_str r end.
Fixpoint nodup_z (l : list Z) : bool :=
  match l with [] => true | x :: r => negb (existsb (Z.eqb x) r) && nodup_z r end.

Fixpoint index_of (k : str) (l : list str) : option nat :=
  match l with
  | [] => None
  | x :: r => if str_eqb x k then Some O else option_map S (index_of k r)
  end.

(* the header assigns every requested extra of line type t one column *)
Definition wf_columns (c : cfg) (t : Z) (cols : list str) : bool :=
  nodup_str cols
  && forallb (fun n => negb (mem_str n (map fst (mand_of t)))) cols
  && nodup_str (map fst (c_fields (cls_of c t)))
  && forallb (fun nt => mem_str (fst nt) cols && negb (mem_str (fst nt) (map fst (mand_of t))))
             (c_fields (cls_of c t)).

(* the attribute values of a record, read off its columns by name: a mandatory
   attribute from its fixed column, an extra from column 4 + (position of its
   name in the header's column list), converted by the class's declared type *)
Definition col_of (t : Z) (cols : list str) (n : str) : option nat :=
  match index_of n (map fst (mand_of t)) with
  | Some j => Some j
  | None => option_map (fun k => (4 + k)%nat) (index_of n cols)
  end.

Fixpoint getv (k : str) (d : tdict) : option ftype :=
  match d with
  | [] => None
  | (n, v) :: r => if str_eqb n k then v else getv k r
  end.

Definition column_value (c : cfg) (t : Z) (cols : list str) (toks : list tok) (n : str) : res val :=
  match col_of t cols n, getv n (base_types c t) with
  | Some j, Some ty =>
      match nth_error toks j with
      | Some tk => conv ty tk
      | None => Err ErrIndex
      end
  | _, _ => Err ErrKey
  end.

Definition expected_vals (c : cfg) (t : Z) (cols : list str) (toks : list tok) : res (list val) :=
  mapM (column_value c t cols toks) (attr_names c t).

Definition hr_line (l : line) : bool :=
  match l with LRec k _ _ => (k =? cH) || (k =? cR) | _ => false end.
Definition line_id (l : line) : option Z :=
  match l with LRec _ _ toks => option_map t_id (nth_error toks 3) | _ => None end.

Fixpoint all_some {A} (l : list (option A)) : option (list A) :=
  match l with
  | [] => Some []
  | Some a :: r => option_map (cons a) (all_some r)
  | None :: _ => None
  end.

Definition expected_data (c : cfg) (sel : option (list Z)) (ls : list line) : option (res (list (Z * obj))) :=
  let hdr := header_of ls in
  let colsH := columns hdr cH in let colsV := columns hdr cV in let colsR := columns hdr cR in
  if wf_columns c cH colsH && wf_columns c cV colsV && wf_columns c cR colsR then
    match all_some (map line_id (filter hr_line ls)) with
    | None => None
    | Some ids =>
      if nodup_z ids
         && forallb (fun l => match l with
                              | LRec k _ (hap :: _) => negb (k =? cV) || existsb (Z.eqb (t_id hap)) ids
                              | LRec k _ [] => negb (k =? cV)
                              | _ => true end) ls
      then
        Some (mapM (fun l =>
            match l with
            | LRec k _ toks =>
                bind (expected_vals c k (if k =? cH then colsH else colsR) toks) (fun vals =>
                bind (mapM (fun l' => match l' with
                                      | LRec _ _ (_ :: rest) => expected_vals c cV colsV rest
                                      | _ => Err ErrIndex end)
                           (filter (fun l' => match l', nth_error toks 3 with
                                              | LRec k' _ (hap :: _), Some idt => (k' =? cV) && (t_id hap =? t_id idt)
                                              | _, _ => false end) ls)) (fun vars =>
                Ok (match nth_error toks 3 with Some idt => t_id idt | None => 0 end, mkobj k vals vars)))
            | _ => Err ErrIndex
            end)
          (filter (fun l => hr_line l && match line_id l with Some i => selected sel i | None => false end) ls))
      else None
    end
  else None.

Definition holds_read (k : rcase) : bool :=
  let all := map fst (r_lines k) in
  let hdr := header_of all in
  (if forallb (fun x => negb (snd x) || match fst x with LHash s => pure_comment s | _ => false end) (r_lines k)
   then res_eqb rout_eqb (r_obs k) (r_obs_base k) else true)
  &&
  match r_obs k with
  | Err _ => true
  | Ok (d, logs) =>
      holds_version_soft (cfg_version (r_cfg k)) (version_values hdr) logs
      && holds_missing_soft (r_cfg k) hdr logs
      && match expected_data (r_cfg k) (r_sel k) all with
         | Some (Ok e) => data_eqb e d
         | Some (Err _) => false   (* a column the header binds cannot be converted, yet the read succeeded *)
         | None => true
         end
  end.

Definition check_read_rel (k : rcase) : bool * bool :=
  let '(m, mb) := model_read k in
  (res_eqb rout_eqb m (r_obs k) && res_eqb rout_eqb mb (r_obs_base k), holds_read k).

(* ---- relation roundtrip: write, read back, write again -------------------- *)

Record wcase := mkw {
  w_cfg : cfg;                    (* the writer's classes *)
  w_rcfg : cfg;                   (* the reader's classes (a sub-selection of the extras, or the same) *)
  w_same : bool;                  (* reader's classes = writer's classes *)
  w_data : list wentry;
  w_bytes1 : res (list line);     (* the file written *)
  w_read : res rout;              (* read back with the reader's classes *)
  w_data2 : list wentry;          (* what was read, values formatted by their declared formats *)
  w_bytes2 : res (list line)      (* written again from what was read *)
}.

Definition lines_eqb := list_eqb line_eqb.

Definition strip_obj (o : wobj) : obj :=
  mkobj (w_kind o) (map fv_val (w_vals o)) (map (map fv_val) (w_vars o)).
Definition strip_data (d : list wentry) : list (Z * obj) :=
  map (fun e => (t_id (we_ktok e), strip_obj (we_obj e))) d.

Definition model_roundtrip (k : wcase) : res (list line) * res rout * res (list line) :=
  let b1 := to_str (w_cfg k) (w_data k) in
  (b1,
   match b1 with Ok l => read (w_rcfg k) None l | Err e => Err e end,
   to_str (w_rcfg k) (w_data2 k)).

(* precondition of the round-trip clause: a proper collection *)
Definition wf_cls (c : cls) : bool :=
  nodup_str (map fst (c_fields c)) && nodup_str (extras_order c)
  && forallb (fun n => mem_str n (map fst (c_fields c))) (extras_order c)
  && forallb (fun nt => mem_str (fst nt) (extras_order c)) (c_fields c)
  && forallb (fun n => negb (mem_str n [s_chrom; s_start; s_end; s_id; s_allele])) (extras_order c).
Definition wf_cfg (c : cfg) : bool := wf_cls (cfgH c) && wf_cls (cfgV c) && wf_cls (cfgR c).

Definition wf_obj (c : cfg) (e : wentry) : bool :=
  let o := we_obj e in
  ((w_kind o =? cH) || ((w_kind o =? cR) && match w_vars o with [] => true | _ => false end))
  && (length (w_vals o) =? length (attr_names c (w_kind o)))%nat
  && forallb (fun v => (length v =? length (attr_names c cV))%nat) (w_vars o)
  && match nth_error (w_vals o) 3 with
     | Some v => tok_eqb (fv_tok v) (we_ktok e)
                 && match fv_val v with VStr i => i =? t_id (we_ktok e) | _ => false end
     | None => false
     end.

Definition wf_data (c : cfg) (d : list wentry) : bool :=
  forallb (wf_obj c) d && nodup_z (map (fun e => t_id (we_ktok e)) d).

(* reader's extras: a sub-selection of the writer's, same type and format *)
Definition sub_cls (r w : cls) : bool :=
  forallb (fun nt => existsb (fun nt' => str_eqb (fst nt) (fst nt')
              && match snd nt, snd nt' with TStr, TStr | TInt, TInt | TFlt, TFlt => true | _, _ => false end)
              (c_fields w)) (c_fields r)
  && forallb (fun x => existsb (fun x' => str_eqb (x_name x) (x_name x') && str_eqb (x_fmt x) (x_fmt x'))
              (c_extras w)) (c_extras r).
Definition sub_cfg (r w : cfg) : bool :=
  sub_cls (cfgH r) (cfgH w) && sub_cls (cfgV r) (cfgV w) && sub_cls (cfgR r) (cfgR w)
  && str_eqb (cfg_version r) (cfg_version w).

(* same field values up to the declared format: mandatory fields exactly,
   every extra the reader asked for has the same formatted text *)
Definition same_fields (wc rc : cfg) (t : Z) (orig back : list fval) : bool :=
  let wn := attr_names wc t in let rn := attr_names rc t in
  forallb (fun n =>
      match fkw_get n wn orig, fkw_get n rn back with
      | Some a, Some b => tok_eqb (fv_tok a) (fv_tok b)
                          && (negb (mem_str n (map fst (mand_of t))) || val_eqb (fv_val a) (fv_val b))
      | _, _ => false
      end) rn
  && (length back =? length rn)%nat.

Fixpoint same_vars (wc rc : cfg) (a b : list (list fval)) : bool :=
  match a, b with
  | [], [] => true
  | x :: r, y :: s => same_fields wc rc cV x y && same_vars wc rc r s
  | _, _ => false
  end.

Fixpoint same_data (wc rc : cfg) (a b : list wentry) : bool :=
  match a, b with
  | [], [] => true
  | x :: r, y :: s =>
      tok_eqb (we_ktok x) (we_ktok y)
      && (w_kind (we_obj x) =? w_kind (we_obj y))
      && same_fields wc rc (w_kind (we_obj x)) (w_vals (we_obj x)) (w_vals (we_obj y))
      && same_vars wc rc (w_vars (we_obj x)) (w_vars (we_obj y))
      && same_data wc rc r s
  | _, _ => false
  end.

(* ---- boolean form of the preconditions of the whole-file round-trip theorem
   (C06_hap_roundtrip): no tab in the names of extra fields and in the version; every
   written text converts back to the value it was formatted from *)
Definition has_tab (s : str) : bool := existsb (Z.eqb cTAB) s.

Definition clean_cfgb (c : cfg) : bool :=
  negb (has_tab (cfg_version c))
  && forallb (fun t => forallb (fun x => negb (has_tab (x_name x))) (c_extras (cls_of c t))) type_letters.


Definition codec_okb (c : cfg) (t : Z) (vals : list fval) : bool :=
  forallb (fun n =>
    match fkw_get n (attr_names c t) vals, getv n (base_types c t) with
    | Some x, Some ty => res_eqb val_eqb (conv ty (fv_tok x)) (Ok (fv_val x))
    | _, _ => true
    end) (attr_names c t).

Definition codec_datab (c : cfg) (d : list wentry) : bool :=
  forallb (fun e => codec_okb c (w_kind (we_obj e)) (w_vals (we_obj e))
                    && forallb (codec_okb c cV) (w_vars (we_obj e))) d.


(* the round-trip precondition as one boolean *)
Definition rt_pre (c : cfg) (d : list wentry) : bool :=
  wf_cfg c && clean_cfgb c && wf_data c d && codec_datab c d.


Definition val_in (wc : cfg) (t : Z) (vals : list fval) (n : str) : val :=
  match fkw_get n (attr_names wc t) vals with Some x => fv_val x | None => VInt 0 end.

(* the reader's attributes, each with the value written under its name *)
Definition proj (wc rc : cfg) (t : Z) (vals : list fval) : list val :=
  map (val_in wc t vals) (attr_names rc t).


Definition strip_obj2 (wc rc : cfg) (o : wobj) : obj :=
  mkobj (w_kind o) (proj wc rc (w_kind o) (w_vals o)) (map (proj wc rc cV) (w_vars o)).
Definition strip_data2 (wc rc : cfg) (d : list wentry) : list (Z * obj) :=
  map (fun e => (t_id (we_ktok e), strip_obj2 wc rc (we_obj e))) d.


(* boolean form of the preconditions of C06_hap_roundtrip_subreader: the reader's classes
   ask for a sub-selection of the writer's extras; every written text of a field the reader
   asks for converts, under the reader's type, to the value it was formatted from *)
Definition codec_ok2b (wc rc : cfg) (t : Z) (vals : list fval) : bool :=
  forallb (fun n =>
    match fkw_get n (attr_names wc t) vals, getv n (base_types rc t) with
    | Some x, Some ty => res_eqb val_eqb (conv ty (fv_tok x)) (Ok (fv_val x))
    | _, _ => true
    end) (attr_names wc t).

Definition codec_data2b (wc rc : cfg) (d : list wentry) : bool :=
  forallb (fun e => codec_ok2b wc rc (w_kind (we_obj e)) (w_vals (we_obj e))
                    && forallb (codec_ok2b wc rc cV) (w_vars (we_obj e))) d.

Definition rt_pre2 (wc rc : cfg) (d : list wentry) : bool :=
  wf_cfg wc && wf_cfg rc && sub_cfg rc wc && clean_cfgb wc && wf_data wc d && codec_data2b wc rc d.

Definition holds_roundtrip (k : wcase) : bool :=
  if wf_cfg (w_cfg k) && wf_cfg (w_rcfg k) && sub_cfg (w_rcfg k) (w_cfg k) && wf_data (w_cfg k) (w_data k)
  then
    match w_bytes1 k, w_read k with
    | Ok b1, Ok (d2, logs) =>
        data_eqb d2 (strip_data (w_data2 k))        (* the harness's formatted copy is what was read *)
        && same_data (w_cfg k) (w_rcfg k) (w_data k) (w_data2 k)
        && (if w_same k then res_eqb lines_eqb (w_bytes2 k) (Ok b1) else true)
        (* where the declared formats are exact for the values written, the values read are those values *)
        && (if w_same k && rt_pre (w_cfg k) (w_data k)
            then data_eqb (strip_data (w_data2 k)) (strip_data (w_data k)) else true)
        (* the same for a reader asking for fewer extras: each requested attribute has the value written
           under its name, the unrequested columns are skipped *)
        && (if rt_pre2 (w_cfg k) (w_rcfg k) (w_data k)
            then data_eqb (strip_data (w_data2 k)) (strip_data2 (w_cfg k) (w_rcfg k) (w_data k)) else true)
    | _, _ => false
    end
  else true.

Definition check_roundtrip_rel (k : wcase) : bool * bool :=
  let '(b1, rd, b2) := model_roundtrip k in
  (res_eqb lines_eqb b1 (w_bytes1 k) && res_eqb rout_eqb rd (w_read k)
   && match w_read k with
      | Ok (d2, _) => res_eqb lines_eqb b2 (w_bytes2 k) && data_eqb d2 (strip_data (w_data2 k))
      | Err _ => true   (* nothing was read: there is no second write to compare *)
      end,
   holds_roundtrip k).

(* ---- short names used by the generated case shards ------------------------ *)
Definition tn (i : Z) : tok := mktok i None None.
Definition ti (i z f : Z) : tok := mktok i (Some z) (Some f).
Definition tf (i f : Z) : tok := mktok i None (Some f).
Definition fv := mkfv.
Definition Hs := LHash.
Definition Rc := LRec.
