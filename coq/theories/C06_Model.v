(* C06 - executable model of the .hap reader/writer of haptools/data/haplotypes.py:
   Haplotypes.check_header / check_version / _get_field_types,
   Haplotype/Repeat/Variant.from_hap_spec / to_hap_spec,
   Haplotypes.__iter__ (plain-text branch) / read / to_str / write.
   No proofs here.

   Representation
   * a '#' line is the list of its code points ([str]) because the code tests
     individual characters of it;
   * every other line is (first character, second character, line[2:].split('\t'))
     with each field a token [tok]: an interned identity (string equality) plus
     what Python's int() and float() make of the field (None = ValueError).  The
     field codecs are thereby inputs: theorems quantify over all of them.
   * values of fields are [val]: interned strings, integers, interned floats. *)
From HV Require Import Prelude.

Definition str := list Z.
Definition str_eqb : str -> str -> bool := list_eqb Z.eqb.

Definition ErrValue : Z := 1.
Definition ErrIndex : Z := 2.
Definition ErrKey : Z := 3.
Definition ErrType : Z := 4.
(* ValueError raised through err_msgr (softly = False), told apart by message *)
Definition ErrVersionReported : Z := 101.
Definition ErrMissingReported : Z := 102.

Definition cTAB : Z := 9.
Definition cDOT : Z := 46.
Definition cHASH : Z := 35.
Definition cH : Z := 72.
Definition cR : Z := 82.
Definition cV : Z := 86.

Definition s_chrom : str := [99; 104; 114; 111; 109].
Definition s_start : str := [115; 116; 97; 114; 116].
Definition s_end : str := [101; 110; 100].
Definition s_id : str := [105; 100].
Definition s_allele : str := [97; 108; 108; 101; 108; 101].
Definition s_version : str := [118; 101; 114; 115; 105; 111; 110].
Definition s_order : str := [111; 114; 100; 101; 114].

(* ---- strings ------------------------------------------------------------ *)

(* Python s.split(sep) for a one-character separator *)
Fixpoint split_on (sep : Z) (s : str) : list str :=
  match s with
  | [] => [[]]
  | c :: r =>
      if c =? sep then [] :: split_on sep r
      else match split_on sep r with
           | [] => [[c]]
           | w :: ws => (c :: w) :: ws
           end
  end.

Fixpoint join_on (sep : Z) (l : list str) : str :=
  match l with
  | [] => []
  | [w] => w
  | w :: r => w ++ sep :: join_on sep r
  end.

Fixpoint str_ltb (a b : str) : bool :=
  match a, b with
  | [], [] => false
  | [], _ :: _ => true
  | _ :: _, [] => false
  | x :: r, y :: s => if x <? y then true else if y <? x then false else str_ltb r s
  end.

Fixpoint mem_str (k : str) (l : list str) : bool :=
  match l with [] => false | x :: r => str_eqb x k || mem_str k r end.

(* Python int() on an ASCII string: surrounding white space, an optional sign,
   digits with single underscores between digits *)
Definition is_ws (c : Z) : bool := (c =? 32) || ((9 <=? c) && (c <=? 13)).
Definition is_digit (c : Z) : bool := (48 <=? c) && (c <=? 57).
Fixpoint lstrip (s : str) : str :=
  match s with c :: r => if is_ws c then lstrip r else s | [] => [] end.
Definition strip (s : str) : str := rev (lstrip (rev (lstrip s))).
Fixpoint digits_acc (s : str) (acc : Z) (prev_digit : bool) : option Z :=
  match s with
  | [] => if prev_digit then Some acc else None
  | c :: r =>
      if is_digit c then digits_acc r (acc * 10 + (c - 48)) true
      else if (c =? 95) && prev_digit then
        match r with
        | d :: _ => if is_digit d then digits_acc r acc false else None
        | [] => None
        end
      else None
  end.
Definition py_int (s : str) : option Z :=
  match strip s with
  | [] => None
  | c :: r =>
      if c =? 43 then digits_acc r 0 false
      else if c =? 45 then option_map Z.opp (digits_acc r 0 false)
      else digits_acc (c :: r) 0 false
  end.

(* ---- tokens, values, lines ---------------------------------------------- *)

Record tok := mktok { t_id : Z; t_int : option Z; t_flt : option Z }.

Inductive ftype := TStr | TInt | TFlt.
Inductive val := VStr (s : Z) | VInt (z : Z) | VFlt (f : Z).

(* the class attribute `types[name]` applied to a field of a line *)
Definition conv (ty : ftype) (t : tok) : res val :=
  match ty with
  | TStr => Ok (VStr (t_id t))
  | TInt => match t_int t with Some z => Ok (VInt z) | None => Err ErrValue end
  | TFlt => match t_flt t with Some f => Ok (VFlt f) | None => Err ErrValue end
  end.

Inductive line :=
| LHash (s : str)                         (* first character is '#'; all code points *)
| LRec (k : Z) (sep : Z) (toks : list tok) (* line[0], line[1] (-1 if absent), line[2:].split('\t') *)
| LBlank.                                 (* empty line *)

(* ---- the reader's classes ----------------------------------------------- *)

Record xdecl := mkx { x_name : str; x_fmt : str; x_desc : str }.
(* a Haplotype/Variant/Repeat subclass: extra dataclass fields in definition
   order (= get_type_hints order) and the _extras tuple *)
Record cls := mkcls { c_fields : list (str * ftype); c_extras : list xdecl }.
Record cfg := mkcfg { cfgH : cls; cfgV : cls; cfgR : cls; cfg_version : str }.

Definition cls_of (c : cfg) (t : Z) : cls :=
  if t =? cH then cfgH c else if t =? cV then cfgV c else cfgR c.
Definition extras_order (c : cls) : list str := map x_name (c_extras c).

Definition is_type_letter (c : Z) : bool := (c =? cH) || (c =? cV) || (c =? cR).
Definition type_letters : list Z := [cH; cV; cR].   (* dict order of Haplotypes.types *)

(* ---- check_version ------------------------------------------------------- *)

Inductive event :=
| EvUnsupported (v : str)   (* warning/raise: unsupported major or newer minor *)
| EvOutdated (v : str)      (* warning: older minor *)
| EvPatch                   (* warning: older patch *)
| EvMissing (names : list (Z * str))  (* expected extra fields not declared: (line type, name) *)
| EvBadLine (c : Z).        (* warning: unsupported line type *)

Definition parse3 (v : str) : option (Z * Z * Z) :=
  match split_on cDOT v with
  | [a; b; c] =>
      match py_int a, py_int b, py_int c with
      | Some x, Some y, Some z => Some (x, y, z)
      | _, _, _ => None
      end
  | _ => None
  end.

Definition unsupported (o e : Z * Z * Z) : bool :=
  let '(oM, om, _) := o in let '(eM, em, _) := e in negb (oM =? eM) || (em <? om).

(* check_version(version, err_msgr): the events logged, or the exception *)
Definition check_version (softly : bool) (cur v : str) : res (list event) :=
  match parse3 v with
  | None => Err ErrValue
  | Some o =>
    match parse3 cur with
    | None => Err ErrValue
    | Some e =>
        if unsupported o e then
          if softly then Ok [EvUnsupported v] else Err ErrVersionReported
        else if snd (fst o) <? snd (fst e) then Ok [EvOutdated v]
        else if snd o <? snd e then Ok [EvPatch]
        else Ok []
    end
  end.

(* ---- check_header -------------------------------------------------------- *)

Inductive shape := ShDecl (t : Z) | ShMeta | ShComment.

(* the character tests of check_header after the fix: a line too short to have
   the tested character is a comment *)
Definition classify (s : str) : shape :=
  match nth_error s 1, nth_error s 2 with
  | Some c1, Some c2 =>
      if (c2 =? cTAB) && is_type_letter c1 then ShDecl c1
      else if c1 =? cTAB then ShMeta else ShComment
  | Some c1, None => if c1 =? cTAB then ShMeta else ShComment
  | None, _ => ShComment
  end.

(* pinned tree: line[2] is evaluated first, IndexError on lines shorter than 3 *)
Definition classify_mode (legacy : bool) (s : str) : res shape :=
  if legacy && (Nat.ltb (length s) 3) then Err ErrIndex else Ok (classify s).

(* insertion-ordered dict with Z keys *)
Fixpoint zdict_set {A} (k : Z) (v : A) (d : list (Z * A)) : list (Z * A) :=
  match d with
  | [] => [(k, v)]
  | (k', v') :: r => if k' =? k then (k, v) :: r else (k', v') :: zdict_set k v r
  end.
Fixpoint zdict_get {A} (k : Z) (d : list (Z * A)) : option A :=
  match d with
  | [] => None
  | (k', v') :: r => if k' =? k then Some v' else zdict_get k r
  end.

Record hstate := mkhs {
  hs_version : option str;            (* metas["version"] *)
  hs_order : list (Z * list str);     (* metas["order"], insertion order *)
  hs_extras : list (Z * list str);    (* extras: line type -> declared names, in file order *)
  hs_logs : list event
}.

Definition hs_init : hstate :=
  mkhs None [] [(cH, []); (cV, []); (cR, [])] [].

Definition order_letter (name : str) : option Z :=
  match name with
  | [o; r; d; e; r'; t] =>
      if str_eqb [o; r; d; e; r'] s_order && is_type_letter t then Some t else None
  | _ => None
  end.

Definition decl_step (st : hstate) (t : Z) (s : str) : hstate :=
  match split_on cTAB (skipn 3 s) with
  | name :: _ :: _ :: _ =>
      let old := match zdict_get t (hs_extras st) with Some l => l | None => [] end in
      mkhs (hs_version st) (hs_order st) (zdict_set t (old ++ [name]) (hs_extras st)) (hs_logs st)
  | _ => st   (* "looks like an extra field declaration, but failed to parse": ignored *)
  end.

Definition meta_step (cv softly : bool) (cur : str) (st : hstate) (s : str) : res hstate :=
  match split_on cTAB (skipn 2 s) with
  | [] => Ok st
  | name :: vals =>
      if cv && str_eqb name s_version then
        match vals with
        | [] => Err ErrIndex
        | v :: _ =>
            bind (if str_eqb v cur then Ok [] else check_version softly cur v)
                 (fun evs => Ok (mkhs (Some v) (hs_order st) (hs_extras st) (hs_logs st ++ evs)))
        end
      else
        match order_letter name with
        | Some t => Ok (mkhs (hs_version st) (zdict_set t vals (hs_order st)) (hs_extras st) (hs_logs st))
        | None => Ok st
        end
  end.

Definition hdr_step (legacy cv softly : bool) (cur : str) (st : hstate) (s : str) : res hstate :=
  bind (classify_mode legacy s) (fun sh =>
    match sh with
    | ShDecl t => Ok (decl_step st t s)
    | ShMeta => meta_step cv softly cur st s
    | ShComment => Ok st
    end).

Fixpoint hdr_fold (legacy cv softly : bool) (cur : str) (st : hstate) (ls : list str) : res hstate :=
  match ls with
  | [] => Ok st
  | s :: r => bind (hdr_step legacy cv softly cur st s) (fun st' => hdr_fold legacy cv softly cur st' r)
  end.

Fixpoint dedup_str (l : list str) : list str :=
  match l with
  | [] => []
  | x :: r => x :: filter (fun y => negb (str_eqb y x)) (dedup_str r)
  end.

(* expected extras (names of the class's _extras) that no declaration line named *)
Definition missing_of (c : cfg) (extras : list (Z * list str)) : list (Z * str) :=
  flat_map (fun t =>
      let declared := match zdict_get t extras with Some l => l | None => [] end in
      map (fun n => (t, n))
          (filter (fun n => negb (mem_str n declared)) (dedup_str (extras_order (cls_of c t)))))
    type_letters.

Definition check_header (legacy : bool) (c : cfg) (cv softly : bool) (ls : list str) : res hstate :=
  bind (hdr_fold legacy cv softly (cfg_version c) hs_init ls) (fun st =>
    match missing_of c (hs_extras st) with
    | [] => Ok st
    | m => if softly
           then Ok (mkhs (hs_version st) (hs_order st) (hs_extras st) (hs_logs st ++ [EvMissing m]))
           else Err ErrMissingReported
    end).

(* ---- _get_field_types ---------------------------------------------------- *)

Definition tdict := list (str * option ftype).

Fixpoint dict_pop (k : str) (d : tdict) : option (option ftype * tdict) :=
  match d with
  | [] => None
  | (n, v) :: r =>
      if str_eqb n k then Some (v, r)
      else match dict_pop k r with
           | Some (v', r') => Some (v', (n, v) :: r')
           | None => None
           end
  end.

(* types[extra] = types.pop(extra)   /   except KeyError: types[extra] = None *)
Definition reorder_step (d : tdict) (k : str) : tdict :=
  match dict_pop k d with
  | Some (v, d') => d' ++ [(k, v)]
  | None => d ++ [(k, None)]
  end.

Definition mandH : tdict :=
  [(s_chrom, Some TStr); (s_start, Some TInt); (s_end, Some TInt); (s_id, Some TStr)].
Definition mandV : tdict :=
  [(s_start, Some TInt); (s_end, Some TInt); (s_id, Some TStr); (s_allele, Some TStr)].
Definition mand_of (t : Z) : tdict := if t =? cV then mandV else mandH.

Definition base_types (c : cfg) (t : Z) : tdict :=
  mand_of t ++ map (fun nt => (fst nt, Some (snd nt))) (c_fields (cls_of c t)).

Definition field_types (base : tdict) (names : list str) : tdict :=
  fold_left reorder_step names base.

Definition types_for (c : cfg) (st : hstate) (t : Z) : tdict :=
  let names := match zdict_get t (hs_order st) with
               | Some o => o
               | None => match zdict_get t (hs_extras st) with Some l => l | None => [] end
               end in
  field_types (base_types c t) names.

(* ---- from_hap_spec -------------------------------------------------------- *)

Fixpoint parse_fields (ts : tdict) (idx : nat) (toks : list tok) : res (list (str * val)) :=
  match ts with
  | [] => Ok []
  | (_, None) :: r => parse_fields r (S idx) toks
  | (n, Some ty) :: r =>
      match nth_error toks idx with
      | None => Err ErrIndex
      | Some t =>
          bind (conv ty t) (fun v =>
          bind (parse_fields r (S idx) toks) (fun l => Ok ((n, v) :: l)))
      end
  end.

Fixpoint kw_get (k : str) (kw : list (str * val)) : option val :=
  match kw with
  | [] => None
  | (n, v) :: r => if str_eqb n k then Some v else kw_get k r
  end.

(* cls(fields as keywords): the object's attribute values in class order *)
Fixpoint build (names : list str) (kw : list (str * val)) : res (list val) :=
  match names with
  | [] => Ok []
  | n :: r =>
      match kw_get n kw with
      | None => Err ErrType
      | Some v => bind (build r kw) (fun l => Ok (v :: l))
      end
  end.

Definition attr_names (c : cfg) (t : Z) : list str := map fst (base_types c t).

Definition from_spec (c : cfg) (t : Z) (ts : tdict) (toks : list tok) : res (list val) :=
  bind (parse_fields ts 0 toks) (fun kw => build (attr_names c t) kw).

(* ---- __iter__ (plain branch) and read ------------------------------------- *)

Record obj := mkobj { o_kind : Z; o_vals : list val; o_vars : list (list val) }.

Definition id_of (vals : list val) : option Z :=
  match nth_error vals 3 with Some (VStr i) => Some i | _ => None end.  (* H/R: attribute id *)

Definition selected (sel : option (list Z)) (i : Z) : bool :=
  match sel with None => true | Some l => existsb (Z.eqb i) l end.

Record rstate := mkrs {
  rs_data : list (Z * obj);
  rs_vars : list (Z * list (list val));
  rs_logs : list event
}.

Definition rec_step (c : cfg) (sel : option (list Z)) (tyH tyV tyR : tdict)
    (st : rstate) (k : Z) (toks : list tok) : res rstate :=
  if (k =? cH) || (k =? cR) then
    bind (from_spec c k (if k =? cH then tyH else tyR) toks) (fun vals =>
      match id_of vals with
      | None => Err ErrType
      | Some i =>
          if selected sel i
          then Ok (mkrs (zdict_set i (mkobj k vals []) (rs_data st)) (rs_vars st) (rs_logs st))
          else Ok st
      end)
  else if k =? cV then
    match toks with
    | [] => Err ErrIndex
    | hap :: rest =>
        bind (from_spec c cV tyV rest) (fun vals =>
          if selected sel (t_id hap)
          then let old := match zdict_get (t_id hap) (rs_vars st) with Some l => l | None => [] end in
               Ok (mkrs (rs_data st) (zdict_set (t_id hap) (old ++ [vals]) (rs_vars st)) (rs_logs st))
          else Ok st)
    end
  else Ok (mkrs (rs_data st) (rs_vars st) (rs_logs st ++ [EvBadLine k])).

(* after the header: '#' lines are ignored *)
Fixpoint body (c : cfg) (sel : option (list Z)) (tyH tyV tyR : tdict) (st : rstate) (ls : list line)
  : res rstate :=
  match ls with
  | [] => Ok st
  | LBlank :: _ => Err ErrIndex
  | LHash _ :: r => body c sel tyH tyV tyR st r
  | LRec k _ toks :: r =>
      bind (rec_step c sel tyH tyV tyR st k toks) (fun st' => body c sel tyH tyV tyR st' r)
  end.

(* for hap in var_haps: self.data[hap].variants = tuple(var_haps[hap]) *)
Fixpoint attach (data : list (Z * obj)) (vars : list (Z * list (list val))) : res (list (Z * obj)) :=
  match vars with
  | [] => Ok data
  | (h, vs) :: r =>
      match zdict_get h data with
      | None => Err ErrKey
      | Some o => attach (zdict_set h (mkobj (o_kind o) (o_vals o) vs) data) r
      end
  end.

Definition start_body (legacy : bool) (c : cfg) (sel : option (list Z)) (hdr : list str) (ls : list line)
  : res rstate :=
  bind (check_header legacy c true true hdr) (fun hs =>
    body c sel (types_for c hs cH) (types_for c hs cV) (types_for c hs cR)
         (mkrs [] [] (hs_logs hs)) ls).

(* header lines accumulate until the first line that does not start with '#'.
   [norec_checked]: a file without any record line still has its header
   checked (false = pinned tree: such a file is never checked at all) *)
Fixpoint read_lines (legacy norec_checked : bool) (c : cfg) (sel : option (list Z)) (hdr : list str)
    (ls : list line) : res rstate :=
  match ls with
  | [] => if norec_checked then start_body legacy c sel hdr [] else Ok (mkrs [] [] [])
  | LBlank :: _ => Err ErrIndex
  | LHash s :: r => read_lines legacy norec_checked c sel (hdr ++ [s]) r
  | LRec _ _ _ :: _ => start_body legacy c sel hdr ls
  end.

Definition read_mode (legacy norec_checked : bool) (c : cfg) (sel : option (list Z)) (ls : list line)
  : res (list (Z * obj) * list event) :=
  bind (read_lines legacy norec_checked c sel [] ls) (fun st =>
  bind (attach (rs_data st) (rs_vars st)) (fun d => Ok (d, rs_logs st))).

(* ---- to_hap_spec / to_str -------------------------------------------------- *)

(* a field value together with the text Python's format() gives it under the
   field's declared format (codec = input) *)
Record fval := mkfv { fv_val : val; fv_tok : tok }.
Record wobj := mkwobj { w_kind : Z; w_vals : list fval; w_vars : list (list fval) }.
Record wentry := mkwe { we_key : str; we_ktok : tok; we_obj : wobj }.

Fixpoint fkw_get (k : str) (names : list str) (vals : list fval) : option fval :=
  match names, vals with
  | n :: ns, v :: vs => if str_eqb n k then Some v else fkw_get k ns vs
  | _, _ => None
  end.

(* self._fmt.format(attributes as keywords): mandatory fields, then _extras order *)
Fixpoint fmt_fields (want names : list str) (vals : list fval) : res (list tok) :=
  match want with
  | [] => Ok []
  | n :: r =>
      match fkw_get n names vals with
      | None => Err ErrKey
      | Some v => bind (fmt_fields r names vals) (fun l => Ok (fv_tok v :: l))
      end
  end.

Definition spec_line (c : cfg) (t : Z) (pre : list tok) (vals : list fval) : res line :=
  bind (fmt_fields (map fst (mand_of t) ++ extras_order (cls_of c t)) (attr_names c t) vals)
       (fun toks => Ok (LRec t cTAB (pre ++ toks))).

Fixpoint insert_str (x : str) (l : list str) : list str :=
  match l with
  | [] => [x]
  | y :: r => if str_ltb y x then y :: insert_str x r else x :: l
  end.
Definition sort_str (l : list str) : list str := fold_right insert_str [] l.

Definition order_lines (c : cfg) : list line :=
  flat_map (fun t =>
      match extras_order (cls_of c t) with
      | [] => []
      | names => [LHash ([cHASH; cTAB] ++ s_order ++ [t; cTAB] ++ join_on cTAB names)]
      end) type_letters.

Definition decl_line (t : Z) (x : xdecl) : str :=
  [cHASH; t; cTAB] ++ join_on cTAB [x_name x; x_fmt x; x_desc x].

Definition decl_lines (c : cfg) : list line :=
  flat_map (fun t => map LHash (sort_str (dedup_str (map (decl_line t) (c_extras (cls_of c t))))))
           type_letters.

Fixpoint mapM {A B} (f : A -> res B) (l : list A) : res (list B) :=
  match l with
  | [] => Ok []
  | a :: r => bind (f a) (fun b => bind (mapM f r) (fun bs => Ok (b :: bs)))
  end.

Fixpoint insert_key (x : wentry) (l : list wentry) : list wentry :=
  match l with
  | [] => [x]
  | y :: r => if str_ltb (we_key y) (we_key x) then y :: insert_key x r else x :: l
  end.
Definition sort_keys (l : list wentry) : list wentry := fold_right insert_key [] l.

Definition to_str (c : cfg) (data : list wentry) : res (list line) :=
  bind (mapM (fun e => spec_line c (w_kind (we_obj e)) [] (w_vals (we_obj e))) data) (fun recs =>
  bind (mapM (fun e => mapM (fun v => spec_line c cV [we_ktok e] v) (w_vars (we_obj e)))
             (sort_keys (filter (fun e => w_kind (we_obj e) =? cH) data))) (fun vars =>
  Ok (order_lines c
      ++ [LHash ([cHASH; cTAB] ++ s_version ++ [cTAB] ++ cfg_version c)]
      ++ decl_lines c ++ recs ++ concat vars))).

(* ---- the tree's current behaviour ------------------------------------------ *)

(* after fixes/C06_short_comment.patch and fixes/C06_norecords_header.patch *)
Definition check_header_fixed := check_header false.
Definition read (c : cfg) (sel : option (list Z)) (ls : list line) := read_mode false true c sel ls.
(* the pinned tree *)
Definition read_legacy (c : cfg) (sel : option (list Z)) (ls : list line) := read_mode true false c sel ls.
