(* C06 - lemmas and proofs, part 1: check_header / check_version / comments. *)
From HV Require Import Prelude C06_Model C06_Check.

(* ---- the pinned tree's defects, as refuted statements ---------------------- *)

Definition cfg0 : cfg := mkcfg (mkcls [] []) (mkcls [] []) (mkcls [] []) [48; 46; 50; 46; 48].

(* defect 7: a bare '#' (or '# ', '#H') line made check_header raise IndexError *)
Example legacy_short_comment_refuted :
  check_header true cfg0 true true [[35]] = Err ErrIndex
  /\ check_header true cfg0 true true [[35; 32]] = Err ErrIndex
  /\ check_header true cfg0 true true [[35; 72]] = Err ErrIndex
  /\ pure_comment [35] = true /\ pure_comment [35; 32] = true /\ pure_comment [35; 72] = true
  /\ check_header true cfg0 true true [] <> Err ErrIndex.
Proof. vm_compute. repeat split; try reflexivity. discriminate. Qed.

(* a file with a version line of an unsupported major version and no record
   line was read without any report *)
Example legacy_norecords_unreported_refuted :
  let file := [LHash [35; 9; 118; 101; 114; 115; 105; 111; 110; 9; 49; 46; 48; 46; 48]] in
  read_legacy cfg0 None file = Ok ([], [])
  /\ read cfg0 None file = Ok ([], [EvUnsupported [49; 46; 48; 46; 48]]).
Proof. vm_compute. split; reflexivity. Qed.

(* ---- basic facts ------------------------------------------------------------ *)

Lemma str_eqb_eq (a b : str) : str_eqb a b = true <-> a = b.
Proof. unfold str_eqb. apply list_eqb_spec. intros x y. apply Z.eqb_eq. Qed.

Lemma str_eqb_refl (a : str) : str_eqb a a = true.
Proof. apply str_eqb_eq. reflexivity. Qed.

Lemma str_eqb_neq (a b : str) : str_eqb a b = false <-> a <> b.
Proof.
  split.
  - intros H E. apply str_eqb_eq in E. congruence.
  - intros H. destruct (str_eqb a b) eqn:E; [apply str_eqb_eq in E; contradiction|reflexivity].
Qed.

Lemma bind_ok {A B} (x : res A) (f : A -> res B) b :
  bind x f = Ok b -> exists a, x = Ok a /\ f a = Ok b.
Proof. destruct x as [a|k]; cbn; intros H; [exists a; auto|discriminate]. Qed.

(* ---- comment lines do not change check_header -------------------------------- *)

Lemma pure_comment_step legacy_off cv softly cur st s :
  legacy_off = false ->
  pure_comment s = true -> hdr_step legacy_off cv softly cur st s = Ok st.
Proof.
  intros -> H. unfold pure_comment in H.
  destruct (nth_error s 0) as [c0|]; [|discriminate].
  apply andb_true_iff in H. destruct H as [_ H].
  unfold hdr_step, classify_mode. cbn [andb bind].
  destruct (classify s) eqn:C.
  - discriminate.
  - unfold meta_step. destruct (split_on cTAB (skipn 2 s)) as [|name vals]; [reflexivity|].
    apply andb_true_iff in H. destruct H as [H1 H2].
    apply negb_true_iff in H1. rewrite H1, andb_false_r.
    destruct (order_letter name); [discriminate|reflexivity].
  - reflexivity.
Qed.

Lemma hdr_fold_app legacy cv softly cur a : forall st b,
  hdr_fold legacy cv softly cur st (a ++ b)
  = bind (hdr_fold legacy cv softly cur st a) (fun st' => hdr_fold legacy cv softly cur st' b).
Proof.
  induction a as [|x a IH]; intros st b; cbn [app hdr_fold bind]; [reflexivity|].
  destruct (hdr_step legacy cv softly cur st x) as [st'|k]; cbn [bind]; [apply IH|reflexivity].
Qed.

Lemma hdr_fold_insert cv softly cur s a b st :
  pure_comment s = true ->
  hdr_fold false cv softly cur st (a ++ s :: b) = hdr_fold false cv softly cur st (a ++ b).
Proof.
  intros H. rewrite !hdr_fold_app.
  destruct (hdr_fold false cv softly cur st a) as [st'|k]; cbn [bind]; [|reflexivity].
  cbn [hdr_fold]. rewrite (pure_comment_step false cv softly cur st' s eq_refl H). reflexivity.
Qed.

Lemma check_header_comment c cv softly s a b :
  pure_comment s = true ->
  check_header false c cv softly (a ++ s :: b) = check_header false c cv softly (a ++ b).
Proof. intros H. unfold check_header. rewrite (hdr_fold_insert cv softly _ s a b _ H). reflexivity. Qed.

(* any number of inserted comment lines, anywhere *)
Lemma check_header_comments c cv softly (ls : list (str * bool)) :
  forallb (fun x => negb (snd x) || pure_comment (fst x)) ls = true ->
  forall pre,
  check_header false c cv softly (pre ++ map fst ls)
  = check_header false c cv softly (pre ++ map fst (filter (fun x => negb (snd x)) ls)).
Proof.
  induction ls as [|[s m] ls IH]; intros H pre; [reflexivity|].
  cbn [forallb fst snd] in H. apply andb_true_iff in H. destruct H as [H1 H2].
  cbn [map filter fst snd]. destruct m; cbn [negb orb] in *.
  - rewrite (check_header_comment c cv softly s pre _ H1). apply IH; assumption.
  - cbn [map fst]. change (pre ++ s :: map fst ls) with (pre ++ [s] ++ map fst ls).
    change (pre ++ s :: map fst (filter (fun x => negb (snd x)) ls))
      with (pre ++ [s] ++ map fst (filter (fun x => negb (snd x)) ls)).
    rewrite !app_assoc. apply IH; assumption.
Qed.

(* ---- comment lines do not change read ----------------------------------------- *)

Lemma start_body_hdr_insert c sel s a b ls :
  pure_comment s = true ->
  start_body false c sel (a ++ s :: b) ls = start_body false c sel (a ++ b) ls.
Proof. intros H. unfold start_body. rewrite (check_header_comment c true true s a b H). reflexivity. Qed.

Lemma read_lines_hdr_insert nc c sel s :
  pure_comment s = true ->
  forall ls a b,
  read_lines false nc c sel (a ++ s :: b) ls = read_lines false nc c sel (a ++ b) ls.
Proof.
  intros H. induction ls as [|l ls IH]; intros a b.
  - cbn [read_lines]. destruct nc; [apply start_body_hdr_insert; assumption|reflexivity].
  - destruct l as [x|k sep toks|]; cbn [read_lines].
    + rewrite <- !app_assoc. cbn [app]. apply IH.
    + apply start_body_hdr_insert; assumption.
    + reflexivity.
Qed.

Lemma body_insert c sel tH tV tR s l2 : forall l1 st,
  body c sel tH tV tR st (l1 ++ LHash s :: l2) = body c sel tH tV tR st (l1 ++ l2).
Proof.
  induction l1 as [|l l1 IH]; intros st; cbn [app body]; [reflexivity|].
  destruct l as [x|k sep toks|]; cbn [body].
  - apply IH.
  - destruct (rec_step c sel tH tV tR st k toks) as [st'|e]; cbn [bind]; [apply IH|reflexivity].
  - reflexivity.
Qed.

Lemma read_lines_insert nc c sel s l2 :
  pure_comment s = true ->
  forall l1 hdr,
  read_lines false nc c sel hdr (l1 ++ LHash s :: l2) = read_lines false nc c sel hdr (l1 ++ l2).
Proof.
  intros H. induction l1 as [|l l1 IH]; intros hdr.
  - cbn [app read_lines].
    rewrite (read_lines_hdr_insert nc c sel s H l2 hdr []). rewrite app_nil_r. reflexivity.
  - destruct l as [x|k sep toks|]; cbn [app read_lines].
    + apply IH.
    + unfold start_body. destruct (check_header false c true true hdr) as [hs|e]; cbn [bind]; [|reflexivity].
      apply (body_insert c sel _ _ _ s l2 (LRec k sep toks :: l1)).
    + reflexivity.
Qed.

Lemma comments_ignored c sel s l1 l2 :
  pure_comment s = true ->
  read c sel (l1 ++ LHash s :: l2) = read c sel (l1 ++ l2).
Proof. intros H. unfold read, read_mode. rewrite (read_lines_insert true c sel s l2 H l1 []). reflexivity. Qed.

Lemma comments_ignored_many c sel (ls : list (line * bool)) :
  forallb (fun x => negb (snd x) || match fst x with LHash s => pure_comment s | _ => false end) ls = true ->
  forall pre,
  read c sel (pre ++ map fst ls) = read c sel (pre ++ map fst (filter (fun x => negb (snd x)) ls)).
Proof.
  induction ls as [|[l m] ls IH]; intros H pre; [reflexivity|].
  cbn [forallb fst snd] in H. apply andb_true_iff in H. destruct H as [H1 H2].
  cbn [map filter fst snd]. destruct m; cbn [negb orb] in *.
  - destruct l as [s| |]; try discriminate.
    rewrite (comments_ignored c sel s pre _ H1). apply IH; assumption.
  - cbn [map fst]. change (pre ++ l :: map fst ls) with (pre ++ [l] ++ map fst ls).
    change (pre ++ l :: map fst (filter (fun x => negb (snd x)) ls))
      with (pre ++ [l] ++ map fst (filter (fun x => negb (snd x)) ls)).
    rewrite !app_assoc. apply IH; assumption.
Qed.

(* the four shapes the property names are comments, whatever their text, unless
   the text makes them one of the two header shapes *)
Lemma bare_hash_pure : pure_comment [cHASH] = true.
Proof. reflexivity. Qed.
Lemma hash_space_pure rest : pure_comment (cHASH :: 32 :: rest) = true.
Proof.
  unfold pure_comment. cbn [nth_error]. rewrite Z.eqb_refl. cbn [andb].
  unfold classify. cbn [nth_error]. destruct rest as [|c2 r]; cbn.
  - reflexivity.
  - destruct (c2 =? cTAB); reflexivity.
Qed.
Lemma hash_text_pure c1 rest :
  c1 <> cTAB -> is_type_letter c1 = false -> pure_comment (cHASH :: c1 :: rest) = true.
Proof.
  intros H1 H2. unfold pure_comment. cbn [nth_error]. rewrite Z.eqb_refl. cbn [andb].
  unfold classify. cbn [nth_error]. apply Z.eqb_neq in H1. rewrite H1, H2.
  destruct rest as [|c2 r]; cbn; [reflexivity|]. rewrite andb_false_r. reflexivity.
Qed.
Lemma hash_tab_text_pure name rest :
  ~ In cTAB name -> name <> s_version -> order_letter name = None ->
  pure_comment (cHASH :: cTAB :: name ++ match rest with [] => [] | _ => cTAB :: rest end) = true.
Proof.
  intros Hn Hv Ho. unfold pure_comment. cbn [nth_error]. rewrite Z.eqb_refl. cbn [andb].
  assert (C : classify (cHASH :: cTAB :: name ++ match rest with [] => [] | _ => cTAB :: rest end) = ShMeta).
  { unfold classify. cbn [nth_error].
    destruct (name ++ match rest with [] => [] | _ => cTAB :: rest end) as [|c2 r]; cbn; [reflexivity|].
    rewrite andb_false_r. reflexivity. }
  rewrite C. cbn [skipn].
  assert (S : forall tl, exists ws, split_on cTAB (name ++ match tl with [] => [] | _ => cTAB :: tl end) = name :: ws).
  { clear -Hn. induction name as [|x name IH]; intros tl.
    - destruct tl; cbn; [exists []; reflexivity|]. eexists. reflexivity.
    - cbn [app split_on]. assert (x <> cTAB) by (intro; subst; apply Hn; left; reflexivity).
      apply Z.eqb_neq in H. rewrite H.
      destruct (IH (fun I => Hn (or_intror I)) tl) as [ws E]. rewrite E. eexists. reflexivity. }
  destruct (S rest) as [ws E]. rewrite E.
  apply str_eqb_neq in Hv. rewrite Hv, Ho. reflexivity.
Qed.

(* ---- check_version -------------------------------------------------------------- *)

Definition reported (v : str) (r : res (list event)) : Prop :=
  r = Ok [EvUnsupported v] \/ r = Err ErrVersionReported.

Lemma version_decision softly cur v oM om op eM em ep :
  parse3 v = Some (oM, om, op) -> parse3 cur = Some (eM, em, ep) ->
  (reported v (check_version softly cur v) <-> (oM <> eM \/ om > em)).
Proof.
  intros Hv Hc. unfold check_version, reported. rewrite Hv, Hc. unfold unsupported. cbn [fst snd].
  destruct (negb (oM =? eM) || (em <? om)) eqn:U.
  - split; intros _.
    + apply orb_true_iff in U. destruct U as [U|U].
      * left. apply negb_true_iff, Z.eqb_neq in U. exact U.
      * right. apply Z.ltb_lt in U. lia.
    + destruct softly; [left|right]; reflexivity.
  - apply orb_false_iff in U. destruct U as [U1 U2].
    apply negb_false_iff, Z.eqb_eq in U1. apply Z.ltb_ge in U2.
    split.
    + intros [H|H]; destruct (om <? em); try discriminate; destruct (op <? ep); discriminate.
    + intros [H|H]; [contradiction|lia].
Qed.

(* a supported version only ever produces warnings (older minor, older patch) or nothing *)
Lemma version_supported_quiet softly cur v oM om op eM em ep :
  parse3 v = Some (oM, om, op) -> parse3 cur = Some (eM, em, ep) ->
  oM = eM -> om <= em ->
  check_version softly cur v =
    Ok (if om <? em then [EvOutdated v] else if op <? ep then [EvPatch] else []).
Proof.
  intros Hv Hc -> Hle. unfold check_version. rewrite Hv, Hc. unfold unsupported. cbn [fst snd].
  rewrite Z.eqb_refl. cbn [negb orb].
  assert (em <? om = false) as -> by (apply Z.ltb_ge; lia).
  destruct (om <? em); [reflexivity|]. destruct (op <? ep); reflexivity.
Qed.

Lemma version_unparsable softly cur v : parse3 v = None -> check_version softly cur v = Err ErrValue.
Proof. intros H. unfold check_version. rewrite H. reflexivity. Qed.

Example version_examples :
  let cur := [48; 46; 50; 46; 48] in     (* "0.2.0" *)
  check_version true cur [49; 46; 48; 46; 48] = Ok [EvUnsupported [49; 46; 48; 46; 48]]   (* 1.0.0 *)
  /\ check_version true cur [48; 46; 51; 46; 48] = Ok [EvUnsupported [48; 46; 51; 46; 48]] (* 0.3.0 *)
  /\ check_version true cur [48; 46; 49; 46; 48] = Ok [EvOutdated [48; 46; 49; 46; 48]]    (* 0.1.0 *)
  /\ check_version true cur [48; 46; 50; 46; 49] = Ok []                                   (* 0.2.1 *)
  /\ check_version false cur [49; 46; 48; 46; 48] = Err ErrVersionReported
  /\ check_version true cur [48; 46; 50] = Err ErrValue.                                   (* 0.2 *)
Proof. vm_compute. repeat split. Qed.
