(* C06 - lemmas and proofs, part 10:
   (1) the text layer under the token abstraction of C06_Model: a record line is
       k, TAB, the field texts joined by TAB; a file is its lines each followed by
       a newline; the reader splits on newlines (universal newlines: CR and CR LF
       count as newlines) and on tabs.  For texts without tab / newline / carriage
       return ([clean_text]) splitting inverts joining; without that precondition
       it does not (refuted examples): such collections are outside the round trip.
   (2) version strings that Python's int() cannot parse are never accepted silently.
   (3) what the boolean checker of the roundtrip relation means. *)
From HV Require Import Prelude C06_Model C06_Check C06_Proofs C06_Proofs2 C06_Proofs3 C06_Proofs4 C06_Proofs5
  C06_Proofs6 C06_Proofs7 C06_Proofs8 C06_Proofs9.

(* ---- (1) text layer ------------------------------------------------------------------ *)

Definition cNL : Z := 10.
Definition cCR : Z := 13.

Definition clean_text (w : str) : Prop := ~ In cTAB w /\ ~ In cNL w /\ ~ In cCR w.

Definition rec_text (k : Z) (fields : list str) : str := k :: cTAB :: join_on cTAB fields.
Definition file_text (ls : list str) : str := flat_map (fun l => l ++ [cNL]) ls.

(* text-mode reading: "\r\n" and "\r" become "\n" *)
Fixpoint univ_nl (s : str) : str :=
  match s with
  | [] => []
  | c :: r =>
      if c =? cCR then
        match r with
        | d :: r' => if d =? cNL then cNL :: univ_nl r' else cNL :: univ_nl r
        | [] => [cNL]
        end
      else c :: univ_nl r
  end.

(* for line in file: the text after the last newline is a line only if it is not empty *)
Fixpoint drop_last_empty (l : list str) : list str :=
  match l with
  | [] => []
  | x :: r => match x, r with [], [] => [] | _, _ => x :: drop_last_empty r end
  end.

Definition file_lines (s : str) : list str := drop_last_empty (split_on cNL (univ_nl s)).
(* line[0], line[2:].split("\t") *)
Definition line_fields (s : str) : list str := split_on cTAB (skipn 2 s).

Lemma univ_nl_clean s : ~ In cCR s -> univ_nl s = s.
Proof.
  induction s as [|c r IH]; intros H; [reflexivity|].
  assert (c <> cCR) as NE by (intros ->; apply H; left; reflexivity).
  change (univ_nl (c :: r)) with
    (if c =? cCR then match r with d :: r' => if d =? cNL then cNL :: univ_nl r' else cNL :: univ_nl r | [] => [cNL] end
     else c :: univ_nl r).
  apply Z.eqb_neq in NE. rewrite NE, IH; [reflexivity|]. intros X. apply H. right. exact X.
Qed.

Lemma drop_last_empty_app ls : drop_last_empty (ls ++ [[]]) = ls.
Proof.
  induction ls as [|x ls IH]; [reflexivity|]. cbn [app drop_last_empty]. rewrite IH.
  destruct x; [|reflexivity]. destruct ls; reflexivity.
Qed.

Lemma split_file_text ls :
  (forall l, In l ls -> ~ In cNL l) -> split_on cNL (file_text ls) = ls ++ [[]].
Proof.
  induction ls as [|l ls IH]; intros H; [reflexivity|].
  cbn [file_text flat_map app]. fold (file_text ls). rewrite <- app_assoc. cbn [app].
  rewrite split_on_app by (apply H; left; reflexivity).
  rewrite IH; [reflexivity|]. intros x Hx. apply H. right. exact Hx.
Qed.

Lemma in_file_text c ls : In c (file_text ls) -> c = cNL \/ exists l, In l ls /\ In c l.
Proof.
  unfold file_text. rewrite in_flat_map. intros [l [Hl Hc]]. apply in_app_or in Hc.
  destruct Hc as [Hc|[Hc|[]]]; [right; exists l; auto|left; symmetry; exact Hc].
Qed.

(* the lines of a written file are the lines written *)
Theorem file_lines_text ls :
  (forall l, In l ls -> ~ In cNL l /\ ~ In cCR l) -> file_lines (file_text ls) = ls.
Proof.
  intros H. unfold file_lines. rewrite univ_nl_clean.
  - rewrite split_file_text; [apply drop_last_empty_app|]. intros l Hl. apply (proj1 (H l Hl)).
  - intros X. apply in_file_text in X. destruct X as [X|[l [Hl Hc]]]; [discriminate|].
    apply (proj2 (H l Hl) Hc).
Qed.

(* the fields of a written record line are the field texts *)
Theorem line_fields_text k fields :
  fields <> [] -> (forall w, In w fields -> ~ In cTAB w) -> line_fields (rec_text k fields) = fields.
Proof. intros NE H. unfold line_fields, rec_text. cbn [skipn]. apply split_join; assumption. Qed.

Lemma in_join sep c : forall ws, In c (join_on sep ws) -> c = sep \/ exists w, In w ws /\ In c w.
Proof.
  induction ws as [|w ws IH]; [contradiction|]. destruct ws as [|w2 ws].
  - cbn [join_on]. intros H. right. exists w. split; [left; reflexivity|exact H].
  - change (join_on sep (w :: w2 :: ws)) with (w ++ sep :: join_on sep (w2 :: ws)).
    intros H. apply in_app_or in H. destruct H as [H|[H|H]].
    + right. exists w. split; [left; reflexivity|exact H].
    + left. symmetry. exact H.
    + destruct (IH H) as [E|[x [Hx Hc]]]; [left; exact E|right; exists x; split; [right; exact Hx|exact Hc]].
Qed.

(* whole files: record lines given by their kind and clean field texts, after any
   header lines without newline characters *)
Theorem text_layer_roundtrip (hdr : list str) (recs : list (Z * list str)) :
  (forall h, In h hdr -> ~ In cNL h /\ ~ In cCR h) ->
  (forall k fs, In (k, fs) recs -> k <> cNL /\ k <> cCR /\ fs <> [] /\ forall w, In w fs -> clean_text w) ->
  let lines := hdr ++ map (fun kf => rec_text (fst kf) (snd kf)) recs in
  file_lines (file_text lines) = lines
  /\ forall k fs, In (k, fs) recs -> line_fields (rec_text k fs) = fs.
Proof.
  intros Hh Hr lines. split.
  - apply file_lines_text. intros l Hl. unfold lines in Hl. apply in_app_or in Hl. destruct Hl as [Hl|Hl]; [apply Hh; exact Hl|].
    apply in_map_iff in Hl. destruct Hl as [[k fs] [E I]]. cbn [fst snd] in E. subst l.
    destruct (Hr k fs I) as [K1 [K2 [NE CT]]].
    assert (G : forall c, c <> cTAB -> In c (rec_text k fs) -> c = k \/ exists w, In w fs /\ In c w).
    { intros c NT X. unfold rec_text in X. destruct X as [X|[X|X]]; [left; symmetry; exact X|congruence|].
      destruct (in_join cTAB c fs X) as [E|E]; [contradiction|right; exact E]. }
    split; intros X; (apply G in X; [|discriminate]); destruct X as [X|[w [Hw Hc]]];
      try (symmetry in X; contradiction).
    + apply (proj1 (proj2 (CT w Hw)) Hc).
    + apply (proj2 (proj2 (CT w Hw)) Hc).
  - intros k fs I. destruct (Hr k fs I) as [_ [_ [NE CT]]].
    apply line_fields_text; [exact NE|]. intros w Hw. apply (proj1 (CT w Hw)).
Qed.

Example text_layer_example :
  let hdr := [[35; 9; 118; 101; 114; 115; 105; 111; 110; 9; 48; 46; 50; 46; 48]] in
  let recs := [(cH, [[49]; [49; 48]; [50; 48]; [104; 32; 49]]); (cV, [[104; 32; 49]; [49; 48]; [49; 49]; [118]; [65]])] in
  let lines := hdr ++ map (fun kf => rec_text (fst kf) (snd kf)) recs in
  file_lines (file_text lines) = lines
  /\ map line_fields (skipn 1 lines) = map snd recs.
Proof. vm_compute. split; reflexivity. Qed.

(* without the precondition: an id "a<TAB>b" becomes two fields, "a<LF>b" and "a<CR>b"
   two lines - the file no longer says what the collection holds *)
Example unclean_text_refuted :
  let tab := [[49]; [49; 48]; [50; 48]; [97; 9; 98]] in
  let nl := rec_text cH [[49]; [49; 48]; [50; 48]; [97; 10; 98]] in
  let cr := rec_text cH [[49]; [49; 48]; [50; 48]; [97; 13; 98]] in
  line_fields (rec_text cH tab) = [[49]; [49; 48]; [50; 48]; [97]; [98]]
  /\ line_fields (rec_text cH tab) <> tab
  /\ length (file_lines (file_text [nl])) = 2%nat
  /\ length (file_lines (file_text [cr])) = 2%nat.
Proof. vm_compute. repeat split; discriminate. Qed.

(* ---- (2) unparsable version strings ------------------------------------------------------ *)

Lemma hdr_fold_version_unparsable softly cur v : forall hs st,
  In v (version_values hs) -> parse3 v = None -> v <> cur ->
  is_err (hdr_fold false true softly cur st hs) = true.
Proof.
  induction hs as [|s hs IH]; intros st I P NE; [contradiction|].
  rewrite (version_values_cons s hs) in I. cbn [hdr_fold].
  apply in_app_or in I. destruct I as [I|I].
  - unfold version_values in I. cbn [flat_map] in I. rewrite app_nil_r in I.
    unfold hdr_step, classify_mode. cbn [andb bind].
    destruct (classify s); try contradiction.
    unfold meta_step. destruct (split_on cTAB (skipn 2 s)) as [|name [|v' rest]]; try contradiction.
    destruct (str_eqb name s_version) eqn:EN; [|contradiction]. destruct I as [->|[]].
    cbn [andb]. apply str_eqb_neq in NE. rewrite NE. rewrite (version_unparsable softly cur v P). reflexivity.
  - destruct (hdr_step false true softly cur st s) as [st1|k]; cbn [bind]; [|reflexivity].
    apply IH; assumption.
Qed.

(* a header naming a version that is not of the form int.int.int (and is not literally
   the tool's version) is never accepted: check_header raises in both modes *)
Theorem header_version_unparsable c softly hs v :
  In v (version_values hs) -> parse3 v = None -> v <> cfg_version c ->
  is_err (check_header false c true softly hs) = true.
Proof.
  intros I P NE. unfold check_header.
  pose proof (hdr_fold_version_unparsable softly (cfg_version c) v hs hs_init I P NE) as H.
  destruct (hdr_fold false true softly (cfg_version c) hs_init hs); [discriminate|reflexivity].
Qed.

Theorem read_version_unparsable c sel ls v :
  In v (version_values (header_of ls)) -> parse3 v = None -> v <> cfg_version c ->
  is_err (read c sel ls) = true.
Proof.
  intros I P NE. destruct (read c sel ls) as [[d logs]|k] eqn:R; [|reflexivity]. exfalso.
  unfold read, read_mode in R. apply bind_ok in R. destruct R as [st [R _]].
  destruct (read_lines_logs c sel ls [] st R) as [hs [evs [A _]]]. cbn [app] in A.
  pose proof (header_version_unparsable c true (header_of ls) v I P NE) as X. rewrite A in X. discriminate.
Qed.

Example version_unparsable_examples :
  parse3 [48; 46; 50] = None                          (* "0.2" *)
  /\ parse3 [118; 48; 46; 50; 46; 48] = None          (* "v0.2.0" *)
  /\ parse3 [48; 46; 50; 46; 120] = None              (* "0.2.x" *)
  /\ parse3 [] = None
  /\ parse3 [32; 48; 46; 48; 50; 46; 49; 95; 48] = Some (0, 2, 10).   (* " 0.02.1_0": what int() accepts *)
Proof. vm_compute. repeat split. Qed.

(* ---- (3) the checker of the roundtrip relation ----------------------------------------------- *)

Lemma tok_eqb_eq a b : tok_eqb a b = true -> a = b.
Proof.
  unfold tok_eqb. intros H. apply andb_true_iff in H. destruct H as [H H3].
  apply andb_true_iff in H. destruct H as [H1 H2]. apply Z.eqb_eq in H1.
  apply (opt_eqb_spec Z.eqb Z.eqb_eq) in H2. apply (opt_eqb_spec Z.eqb Z.eqb_eq) in H3.
  destruct a, b. cbn in *. subst. reflexivity.
Qed.

Lemma list_eqb_sound {A} (e : A -> A -> bool) :
  (forall a b, e a b = true -> a = b) -> forall l1 l2, list_eqb e l1 l2 = true -> l1 = l2.
Proof.
  intros He l1. induction l1 as [|a r IH]; intros [|b s] H; cbn in H; try discriminate; [reflexivity|].
  apply andb_true_iff in H. destruct H as [H1 H2]. rewrite (He _ _ H1), (IH _ H2). reflexivity.
Qed.

Lemma line_eqb_eq a b : line_eqb a b = true -> a = b.
Proof.
  destruct a, b; cbn; intros H; try discriminate.
  - apply str_eqb_eq in H. subst. reflexivity.
  - apply andb_true_iff in H. destruct H as [H H3]. apply andb_true_iff in H. destruct H as [H1 H2].
    apply Z.eqb_eq in H1. apply Z.eqb_eq in H2. apply (list_eqb_sound tok_eqb tok_eqb_eq) in H3. subst. reflexivity.
  - reflexivity.
Qed.

Lemma lines_eqb_eq a b : lines_eqb a b = true -> a = b.
Proof. apply list_eqb_sound. exact line_eqb_eq. Qed.

Lemma vals_eqb_eq a b : vals_eqb a b = true -> a = b.
Proof. apply list_eqb_sound. exact val_eqb_eq. Qed.

Lemma obj_eqb_eq a b : obj_eqb a b = true -> a = b.
Proof.
  unfold obj_eqb. intros H. apply andb_true_iff in H. destruct H as [H H3]. apply andb_true_iff in H. destruct H as [H1 H2].
  apply Z.eqb_eq in H1. apply vals_eqb_eq in H2. apply (list_eqb_sound vals_eqb vals_eqb_eq) in H3.
  destruct a, b. cbn in *. subst. reflexivity.
Qed.

Lemma data_eqb_eq a b : data_eqb a b = true -> a = b.
Proof.
  apply list_eqb_sound. intros [k o] [k' o'] H. unfold entry_eqb in H. cbn [fst snd] in H.
  apply andb_true_iff in H. destruct H as [H1 H2]. apply Z.eqb_eq in H1. apply obj_eqb_eq in H2. subst. reflexivity.
Qed.

(* holds_roundtrip = true on a well-formed case means: the file was written and read
   back; what was read is the collection the harness formatted again (w_data2); it has
   the written keys in the written order, the same kinds, mandatory values, formatted
   texts of the requested extras and variants in order (same_data); with the writer's
   classes the second file is the first, and - when every written text converts back to
   its value - the values read are the values written *)
Theorem holds_roundtrip_sound k :
  holds_roundtrip k = true ->
  wf_cfg (w_cfg k) = true -> wf_cfg (w_rcfg k) = true -> sub_cfg (w_rcfg k) (w_cfg k) = true ->
  wf_data (w_cfg k) (w_data k) = true ->
  exists b1 logs,
    w_bytes1 k = Ok b1
    /\ w_read k = Ok (strip_data (w_data2 k), logs)
    /\ same_data (w_cfg k) (w_rcfg k) (w_data k) (w_data2 k) = true
    /\ (w_same k = true -> w_bytes2 k = Ok b1)
    /\ (w_same k = true -> rt_pre (w_cfg k) (w_data k) = true ->
        strip_data (w_data2 k) = strip_data (w_data k))
    /\ (rt_pre2 (w_cfg k) (w_rcfg k) (w_data k) = true ->
        strip_data (w_data2 k) = strip_data2 (w_cfg k) (w_rcfg k) (w_data k)).
Proof.
  unfold holds_roundtrip. intros H A B C D. rewrite A, B, C, D in H. cbn [andb] in H.
  destruct (w_bytes1 k) as [b1|]; [|discriminate]. destruct (w_read k) as [[d2 logs]|]; [|discriminate].
  apply andb_true_iff in H. destruct H as [H H5].
  apply andb_true_iff in H. destruct H as [H H4].
  apply andb_true_iff in H. destruct H as [H H3].
  apply andb_true_iff in H. destruct H as [H1 H2].
  apply data_eqb_eq in H1. subst d2. exists b1, logs.
  split; [reflexivity|]. split; [reflexivity|]. split; [exact H2|]. split; [|split].
  - intros S. rewrite S in H3. destruct (w_bytes2 k) as [b2|]; cbn [res_eqb] in H3; [|discriminate].
    apply lines_eqb_eq in H3. subst. reflexivity.
  - intros S P. rewrite S, P in H4. cbn [andb] in H4. apply data_eqb_eq in H4. exact H4.
  - intros P. rewrite P in H5. apply data_eqb_eq in H5. exact H5.
Qed.
