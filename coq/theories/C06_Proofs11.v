(* C06 - lemmas and proofs, part 11: the whole-file round trip when the reader's
   classes ask for fewer extra fields than the writer's declare (any sub-selection,
   in any order): the unrequested columns are skipped, every requested attribute
   gets the value written under its name, records / variants / order as written,
   no warning. *)
From Coq Require Import Permutation.
From HV Require Import Prelude C06_Model C06_Check C06_Proofs C06_Proofs2 C06_Proofs3 C06_Proofs4 C06_Proofs5
  C06_Proofs6 C06_Proofs7 C06_Proofs8 C06_Proofs9.

(* ---- the emitted header read by other classes ------------------------------------------ *)

Definition names_sub (rc wc : cfg) : Prop :=
  forall t n, is_type_letter t = true ->
    In n (extras_order (cls_of rc t)) -> In n (extras_order (cls_of wc t)).

Theorem emitted_header_ok2 wc rc softly :
  clean_cfg wc -> cfg_version rc = cfg_version wc -> names_sub rc wc ->
  exists st, check_header false rc true softly (hdr_strs wc) = Ok st
    /\ hs_logs st = []
    /\ forall t, is_type_letter t = true ->
         types_for rc st t = field_types (base_types rc t) (extras_order (cls_of wc t)).
Proof.
  intros CL SV SN. destruct (hdr_fold_emitted wc softly CL) as [st [F L]].
  assert (CH : check_header false rc true softly (hdr_strs wc) = Ok st).
  { unfold check_header. rewrite SV, F. cbn [bind].
    destruct (hdr_fold_spec true softly _ (hdr_strs wc) hs_init st F) as [E _].
    rewrite (missing_of_spec rc st (hdr_strs wc)).
    - assert (M : missing_spec rc (hdr_strs wc) = []).
      { unfold missing_spec, type_letters. cbn [flat_map].
        assert (G : forall t, is_type_letter t = true ->
                  filter (fun n => negb (mem_str n (decl_names (hdr_strs wc) t))) (dedup_str (extras_order (cls_of rc t))) = []).
        { intros t T. apply filter_nil. intros n Hn. apply (proj1 (dedup_str_In n _)) in Hn.
          cbv beta. apply negb_false_iff. apply mem_str_In.
          apply (emitted_declares wc t n CL T (SN t n T Hn)). }
        rewrite (G cH eq_refl), (G cV eq_refl), (G cR eq_refl). reflexivity. }
      rewrite M. reflexivity.
    - intros t. rewrite (E t), ext_init. reflexivity. }
  exists st. split; [exact CH|]. split; [exact L|].
  intros t T. rewrite (types_follow_header rc true softly _ st t CH), (columns_emitted wc t CL T). reflexivity.
Qed.

(* ---- one record line ------------------------------------------------------------------------ *)

Definition codec_ok2 (wc rc : cfg) (t : Z) (vals : list fval) : Prop :=
  forall n x ty, fkw_get n (attr_names wc t) vals = Some x -> getv n (base_types rc t) = Some ty ->
    conv ty (fv_tok x) = Ok (fv_val x).

Definition has_type (e : str * option ftype) : bool := match snd e with Some _ => true | None => false end.

Lemma parse_fields_partial (val_of : str -> val) : forall ts idx toks,
  (forall k n ty, nth_error ts k = Some (n, Some ty) ->
     exists t, nth_error toks (idx + k) = Some t /\ conv ty t = Ok (val_of n)) ->
  parse_fields ts idx toks = Ok (map (fun e => (fst e, val_of (fst e))) (filter has_type ts)).
Proof.
  induction ts as [|[n0 o0] ts IH]; intros idx toks H; [reflexivity|].
  assert (IH' : parse_fields ts (S idx) toks = Ok (map (fun e => (fst e, val_of (fst e))) (filter has_type ts))).
  { apply IH. intros k n ty Hk. destruct (H (S k) n ty Hk) as [t [A B]].
    exists t. replace (S idx + k)%nat with (idx + S k)%nat by lia. auto. }
  cbn [parse_fields filter]. unfold has_type at 1. cbn [snd]. destruct o0 as [ty0|].
  - destruct (H 0%nat n0 ty0 eq_refl) as [t [T C]]. rewrite Nat.add_0_r in T.
    rewrite T, C. cbn [bind]. rewrite IH'. reflexivity.
  - exact IH'.
Qed.

Theorem line_roundtrip2 wc rc t (vals : list fval) toks :
  wf_cls (cls_of wc t) = true -> wf_cls (cls_of rc t) = true ->
  (forall n, In n (extras_order (cls_of rc t)) -> In n (extras_order (cls_of wc t))) ->
  codec_ok2 wc rc t vals ->
  fmt_fields (map fst (mand_of t) ++ extras_order (cls_of wc t)) (attr_names wc t) vals = Ok toks ->
  from_spec rc t (field_types (base_types rc t) (extras_order (cls_of wc t))) toks = Ok (proj wc rc t vals).
Proof.
  intros WFw WFr SN Codec HF.
  unfold wf_cls in WFw, WFr.
  apply andb_true_iff in WFw. destruct WFw as [WFw V5].
  apply andb_true_iff in WFw. destruct WFw as [WFw _].
  apply andb_true_iff in WFw. destruct WFw as [WFw _].
  apply andb_true_iff in WFw. destruct WFw as [_ V2].
  apply andb_true_iff in WFr. destruct WFr as [WFr _].
  apply andb_true_iff in WFr. destruct WFr as [WFr W4].
  apply andb_true_iff in WFr. destruct WFr as [WFr _].
  apply andb_true_iff in WFr. destruct WFr as [W1 _].
  apply nodup_str_NoDup in W1. apply nodup_str_NoDup in V2.
  rewrite forallb_forall in W4, V5.
  set (cols := extras_order (cls_of wc t)) in *.
  set (flds := fields_dict rc t).
  assert (Kf : keys flds = map fst (c_fields (cls_of rc t))) by apply keys_fields_dict.
  assert (NDf : NoDup (keys flds)) by (rewrite Kf; exact W1).
  assert (Hm : forall n, In n cols -> ~ In n (keys (mand_of t))).
  { intros n Hn X. specialize (V5 n Hn). apply negb_true_iff, mem_str_notIn in V5. apply V5.
    unfold mand_of in X. destruct (t =? cV); cbn in X; cbn; tauto. }
  assert (Hfc : forall n, In n (keys flds) -> In n cols).
  { intros n Hn. rewrite Kf in Hn. apply in_map_iff in Hn. destruct Hn as [[m ty] [E Hn]]. cbn [fst] in E. subst m.
    apply SN. apply mem_str_In. apply (W4 _ Hn). }
  change (base_types rc t) with (mand_of t ++ flds) in *.
  rewrite (field_types_wf (mand_of t) flds cols NDf V2 Hm Hfc).
  set (ts := mand_of t ++ moved flds cols).
  assert (Kts : keys ts = map fst (mand_of t) ++ cols).
  { unfold ts, keys. rewrite map_app. fold (keys (moved flds cols)). rewrite keys_moved. reflexivity. }
  set (val_of := val_in wc t vals).
  assert (HP : parse_fields ts 0 toks = Ok (map (fun e => (fst e, val_of (fst e))) (filter has_type ts))).
  { apply parse_fields_partial. intros k n ty Hk. rewrite Nat.add_0_l.
    pose proof (nth_keys ts k n _ Hk) as Hkn. rewrite Kts in Hkn.
    destruct (fmt_fields_at _ _ _ _ HF k n Hkn) as [x [G T]].
    assert (Hg : getv n (mand_of t ++ flds) = Some ty).
    { unfold ts in Hk. destruct (Nat.ltb k 4) eqn:K4.
      - apply Nat.ltb_lt in K4. rewrite nth_error_app1 in Hk by (rewrite mand_length; exact K4).
        rewrite getv_app_l by (apply nth_error_In in Hk; unfold keys; apply in_map_iff; exists (n, Some ty); auto).
        apply (getv_at (mand_of t) (mand_nodup t) k n (Some ty) Hk).
      - apply Nat.ltb_ge in K4. rewrite nth_error_app2 in Hk by (rewrite mand_length; exact K4).
        unfold moved in Hk. rewrite nth_error_map in Hk.
        destruct (nth_error cols (k - length (mand_of t))) as [m|] eqn:Hc; [|discriminate].
        cbn [option_map] in Hk. inversion Hk; subst m. apply nth_error_In in Hc.
        rewrite getv_app_r by (apply Hm; exact Hc). congruence. }
    exists (fv_tok x). split; [exact T|]. unfold val_of, val_in. rewrite G. apply (Codec n x ty G Hg). }
  unfold from_spec. rewrite HP. cbn [bind].
  unfold proj. fold val_of. apply build_all.
  intros n Hn. apply (kw_get_map val_of n (filter has_type ts)).
  unfold attr_names in Hn. change (base_types rc t) with (mand_of t ++ flds) in Hn. rewrite map_app in Hn.
  fold (keys (mand_of t)) (keys flds) in Hn. apply in_app_or in Hn.
  unfold keys. apply in_map_iff. destruct Hn as [Hn|Hn].
  - unfold keys in Hn. apply in_map_iff in Hn. destruct Hn as [[m o] [E I]]. cbn [fst] in E. subst m.
    destruct (In_nth_error _ _ I) as [j Hj]. destruct (mand_some t j n o Hj) as [ty ->].
    exists (n, Some ty). split; [reflexivity|]. apply filter_In. split; [|reflexivity].
    unfold ts. apply in_or_app. left. exact I.
  - destruct (getv_fields_dict rc t n Hn) as [ty Hty]. fold flds in Hty.
    exists (n, Some ty). split; [reflexivity|]. apply filter_In. split; [|reflexivity].
    unfold ts. apply in_or_app. right. unfold moved. apply in_map_iff. exists n. rewrite Hty.
    split; [reflexivity|apply Hfc; exact Hn].
Qed.

(* ---- the file ---------------------------------------------------------------------------------- *)

Definition codec_data2 (wc rc : cfg) (d : list wentry) : Prop :=
  forall e, In e d ->
    codec_ok2 wc rc (w_kind (we_obj e)) (w_vals (we_obj e))
    /\ forall v, In v (w_vars (we_obj e)) -> codec_ok2 wc rc cV v.

Definition ty2 (wc rc : cfg) (t : Z) : tdict := field_types (base_types rc t) (extras_order (cls_of wc t)).
Definition obj02 (wc rc : cfg) (e : wentry) : Z * obj :=
  (eid e, mkobj (w_kind (we_obj e)) (proj wc rc (w_kind (we_obj e)) (w_vals (we_obj e))) []).

Lemma proj_id wc rc k vals x i :
  (k = cH \/ k = cR) -> nth_error vals 3 = Some x -> fv_val x = VStr i ->
  id_of (proj wc rc k vals) = Some i.
Proof.
  intros K N X. unfold id_of, proj. rewrite nth_error_map.
  assert (A : forall c, nth_error (attr_names c k) 3 = Some s_id).
  { intros c. unfold attr_names, base_types, mand_of. destruct K as [-> | ->]; reflexivity. }
  rewrite A. cbn [option_map]. unfold val_in.
  assert (G : fkw_get s_id (attr_names wc k) vals = Some x).
  { unfold attr_names, base_types, mand_of.
    destruct vals as [|v0 [|v1 [|v2 [|v3 rest]]]]; try discriminate. cbn [nth_error] in N. inversion N; subst v3.
    destruct K as [-> | ->]; reflexivity. }
  rewrite G, X. reflexivity.
Qed.

Section File.
  Variables wc rc : cfg.
  Hypothesis WFw : wf_cfg wc = true.
  Hypothesis WFr : wf_cfg rc = true.
  Hypothesis SN : names_sub rc wc.

  Lemma rec_step_hr2 st e toks :
    entry_ok wc e -> codec_ok2 wc rc (w_kind (we_obj e)) (w_vals (we_obj e)) ->
    fmt_fields (map fst (mand_of (w_kind (we_obj e))) ++ extras_order (cls_of wc (w_kind (we_obj e))))
               (attr_names wc (w_kind (we_obj e))) (w_vals (we_obj e)) = Ok toks ->
    ~ In (eid e) (map fst (rs_data st)) ->
    rec_step rc None (ty2 wc rc cH) (ty2 wc rc cV) (ty2 wc rc cR) st (w_kind (we_obj e)) toks
    = Ok (mkrs (rs_data st ++ [obj02 wc rc e]) (rs_vars st) (rs_logs st)).
  Proof.
    intros [K [L [_ [x [N X]]]]] CO HF Fresh.
    set (k := w_kind (we_obj e)) in *.
    assert (KK : (k =? cH) || (k =? cR) = true) by (destruct K as [K|[K _]]; rewrite K; reflexivity).
    assert (KT : is_type_letter k = true) by (destruct K as [K|[K _]]; rewrite K; reflexivity).
    assert (K2 : k = cH \/ k = cR) by tauto.
    unfold rec_step. rewrite KK.
    assert (TY : (if k =? cH then ty2 wc rc cH else ty2 wc rc cR) = ty2 wc rc k).
    { destruct K as [K|[K _]]; rewrite K; reflexivity. }
    rewrite TY. unfold ty2.
    rewrite (line_roundtrip2 wc rc k (w_vals (we_obj e)) toks (wf_cfg_cls wc k WFw) (wf_cfg_cls rc k WFr)
               (fun n => SN k n KT) CO HF).
    cbn [bind]. rewrite (proj_id wc rc k _ x (eid e) K2 N X). cbn [selected].
    rewrite (zdict_set_fresh _ _ _ Fresh). reflexivity.
  Qed.

  Lemma body_recs2 : forall d recs st,
    (forall e, In e d -> entry_ok wc e) -> codec_data2 wc rc d ->
    NoDup (map eid d) -> (forall e, In e d -> ~ In (eid e) (map fst (rs_data st))) ->
    mapM (fun e => spec_line wc (w_kind (we_obj e)) [] (w_vals (we_obj e))) d = Ok recs ->
    body rc None (ty2 wc rc cH) (ty2 wc rc cV) (ty2 wc rc cR) st recs
    = Ok (mkrs (rs_data st ++ map (obj02 wc rc) d) (rs_vars st) (rs_logs st)).
  Proof.
    induction d as [|e d IH]; intros recs st EO CO ND Fresh HM.
    - cbn [mapM] in HM. inversion HM. cbn [body map]. rewrite app_nil_r. destruct st; reflexivity.
    - apply mapM_cons_inv in HM. destruct HM as [ln [r [E1 [E2 ->]]]].
      destruct (EO e (or_introl eq_refl)) as [K [L Rest]].
      destruct (spec_line_ok wc (w_kind (we_obj e)) [] (w_vals (we_obj e)) (wf_cfg_cls wc _ WFw) L) as [toks [HF SL]].
      rewrite SL in E1. inversion E1; subst ln; clear E1. cbn [app body].
      rewrite (rec_step_hr2 st e toks (EO e (or_introl eq_refl)) (proj1 (CO e (or_introl eq_refl))) HF
                 (Fresh e (or_introl eq_refl))).
      cbn [bind]. inversion ND as [|y l Hn ND']; subst.
      rewrite (IH r _ (fun x Hx => EO x (or_intror Hx)) (fun x Hx => CO x (or_intror Hx)) ND').
      + cbn [rs_data rs_vars rs_logs map]. rewrite <- app_assoc. reflexivity.
      + intros x Hx. cbn [rs_data]. rewrite map_app. cbn [map fst obj02]. intros I.
        apply in_app_or in I. destruct I as [I|I].
        * apply (Fresh x (or_intror Hx) I).
        * destruct I as [I|[]]. apply Hn. rewrite I. apply in_map. exact Hx.
      + exact E2.
  Qed.

  Lemma body_vars_one2 e a : forall vs lines acc st,
    (forall v, In v vs -> length v = length (attr_names wc cV) /\ codec_ok2 wc rc cV v) ->
    ~ In (eid e) (map fst a) -> rs_vars st = vset a (eid e) acc ->
    mapM (fun v => spec_line wc cV [we_ktok e] v) vs = Ok lines ->
    body rc None (ty2 wc rc cH) (ty2 wc rc cV) (ty2 wc rc cR) st lines
    = Ok (mkrs (rs_data st) (vset a (eid e) (acc ++ map (proj wc rc cV) vs)) (rs_logs st)).
  Proof.
    induction vs as [|v vs IH]; intros lines acc st H Fresh RV HM.
    - cbn [mapM] in HM. inversion HM. cbn [body map]. rewrite app_nil_r, <- RV. destruct st; reflexivity.
    - apply mapM_cons_inv in HM. destruct HM as [ln [r [E1 [E2 ->]]]].
      destruct (H v (or_introl eq_refl)) as [L CO].
      destruct (spec_line_ok wc cV [we_ktok e] v (wf_cfg_cls wc cV WFw) L) as [toks [HF SL]].
      rewrite SL in E1. inversion E1; subst ln; clear E1. cbn [app body].
      unfold rec_step at 1. cbn -[ty2 from_spec zdict_set zdict_get].
      change (from_spec rc 86 (ty2 wc rc 86) toks) with (from_spec rc cV (ty2 wc rc cV) toks).
      unfold ty2 at 1.
      rewrite (line_roundtrip2 wc rc cV v toks (wf_cfg_cls wc cV WFw) (wf_cfg_cls rc cV WFr)
                 (fun n => SN cV n eq_refl) CO HF). cbn [bind].
      fold (eid e). rewrite RV, (vset_get a (eid e) acc Fresh), (vset_set a (eid e) acc _ Fresh).
      rewrite (IH r (acc ++ [proj wc rc cV v])
                 (mkrs (rs_data st) (vset a (eid e) (acc ++ [proj wc rc cV v])) (rs_logs st))
                 (fun x Hx => H x (or_intror Hx)) Fresh eq_refl E2).
      cbn [rs_data rs_logs map]. rewrite <- app_assoc. reflexivity.
  Qed.

  Definition vars_of2 (l : list wentry) : list (Z * list (list val)) :=
    flat_map (fun e => match w_vars (we_obj e) with
                       | [] => []
                       | vs => [(eid e, map (proj wc rc cV) vs)]
                       end) l.

  Lemma vars_of2_keys l h : In h (map fst (vars_of2 l)) -> In h (map eid l).
  Proof.
    induction l as [|e l IH]; cbn [vars_of2 flat_map map]; [tauto|]. fold (vars_of2 l).
    rewrite map_app, in_app_iff. intros [H|H]; [left|right; apply IH; exact H].
    destruct (w_vars (we_obj e)); [contradiction|]. destruct H as [H|[]]. exact H.
  Qed.

  Lemma vars_of2_NoDup l : NoDup (map eid l) -> NoDup (map fst (vars_of2 l)).
  Proof.
    induction l as [|e l IH]; cbn [vars_of2 flat_map map]; intros ND; [constructor|]. fold (vars_of2 l).
    inversion ND as [|y l' Hn ND']; subst.
    destruct (w_vars (we_obj e)); cbn [app map fst]; [apply IH; exact ND'|].
    constructor; [|apply IH; exact ND']. intros X. apply Hn. apply vars_of2_keys. exact X.
  Qed.

  Lemma vset_vars_of2 a e :
    vset a (eid e) (map (proj wc rc cV) (w_vars (we_obj e))) = a ++ vars_of2 [e].
  Proof.
    unfold vset, vars_of2. cbn [flat_map]. rewrite app_nil_r.
    destruct (w_vars (we_obj e)); cbn [map]; [rewrite app_nil_r|]; reflexivity.
  Qed.

  Lemma vars_of2_cons e l : vars_of2 (e :: l) = vars_of2 [e] ++ vars_of2 l.
  Proof. unfold vars_of2. cbn [flat_map]. rewrite app_nil_r. reflexivity. Qed.

  Lemma body_vars2 : forall l vlines st,
    (forall e, In e l -> entry_ok wc e) -> codec_data2 wc rc l ->
    NoDup (map eid l) -> (forall e, In e l -> ~ In (eid e) (map fst (rs_vars st))) ->
    mapM (fun e => mapM (fun v => spec_line wc cV [we_ktok e] v) (w_vars (we_obj e))) l = Ok vlines ->
    body rc None (ty2 wc rc cH) (ty2 wc rc cV) (ty2 wc rc cR) st (concat vlines)
    = Ok (mkrs (rs_data st) (rs_vars st ++ vars_of2 l) (rs_logs st)).
  Proof.
    induction l as [|e l IH]; intros vlines st EO CO ND Fresh HM.
    - cbn [mapM] in HM. inversion HM. cbn [concat body vars_of2 flat_map]. rewrite app_nil_r. destruct st; reflexivity.
    - apply mapM_cons_inv in HM. destruct HM as [ls [r [E1 [E2 ->]]]].
      cbn [concat]. rewrite body_app.
      destruct (EO e (or_introl eq_refl)) as [_ [_ [LV _]]].
      rewrite (body_vars_one2 e (rs_vars st) (w_vars (we_obj e)) ls [] st).
      + cbn [bind app]. inversion ND as [|y l' Hn ND']; subst.
        rewrite (IH r _ (fun x Hx => EO x (or_intror Hx)) (fun x Hx => CO x (or_intror Hx)) ND').
        * cbn [rs_data rs_vars rs_logs]. rewrite vset_vars_of2, <- app_assoc, <- vars_of2_cons. reflexivity.
        * intros x Hx. cbn [rs_vars]. rewrite vset_vars_of2, map_app, in_app_iff. intros [I|I].
          -- apply (Fresh x (or_intror Hx) I).
          -- apply vars_of2_keys in I. cbn [map] in I. destruct I as [I|[]]. apply Hn. rewrite I. apply in_map. exact Hx.
        * exact E2.
      + intros v Hv. split; [apply LV; exact Hv|apply (proj2 (CO e (or_introl eq_refl))); exact Hv].
      + apply Fresh. left. reflexivity.
      + reflexivity.
      + exact E1.
  Qed.

  Lemma vars_of2_get l e :
    NoDup (map eid l) -> In e l ->
    zdict_get (eid e) (vars_of2 l)
    = match w_vars (we_obj e) with [] => None | vs => Some (map (proj wc rc cV) vs) end.
  Proof.
    induction l as [|x l IH]; intros ND I; [contradiction|].
    inversion ND as [|y l' Hn ND']; subst. cbn [vars_of2 flat_map]. fold (vars_of2 l).
    destruct I as [->|I].
    - destruct (w_vars (we_obj e)) eqn:W; cbn [app zdict_get].
      + apply zdict_get_none. intros X. apply Hn. apply vars_of2_keys. exact X.
      + rewrite Z.eqb_refl. reflexivity.
    - assert (NE : eid x <> eid e) by (intros X; apply Hn; rewrite X; apply in_map; exact I).
      destruct (w_vars (we_obj x)); cbn [app zdict_get]; [apply IH; assumption|].
      apply Z.eqb_neq in NE. rewrite NE. apply IH; assumption.
  Qed.

  Theorem hap_roundtrip_subreader d :
    clean_cfg wc -> cfg_version rc = cfg_version wc ->
    wf_data wc d = true -> codec_data2 wc rc d ->
    exists lines, to_str wc d = Ok lines /\ read rc None lines = Ok (strip_data2 wc rc d, []).
  Proof.
    intros CL SV WD CO. destruct (wf_data_ok wc d WD) as [EO ND].
    set (sH := sort_keys (filter isH d)).
    assert (PH : Permutation sH (filter isH d)) by apply sort_keys_perm.
    assert (InH : forall e, In e sH <-> In e d /\ isH e = true).
    { intros e. rewrite <- filter_In. split; apply Permutation_in; [exact PH|apply Permutation_sym; exact PH]. }
    assert (NDf : NoDup (map eid (filter isH d))).
    { clear -ND. induction d as [|x d IH]; cbn [filter map]; [constructor|].
      cbn [map] in ND. inversion ND as [|y l Hn ND']; subst.
      destruct (isH x); [|apply IH; exact ND']. cbn [map]. constructor; [|apply IH; exact ND'].
      intros X. apply Hn. apply in_map_iff in X. destruct X as [z [E I]]. apply filter_In in I.
      apply in_map_iff. exists z. tauto. }
    assert (NDs : NoDup (map eid sH)).
    { apply (Permutation_NoDup (l := map eid (filter isH d))); [|exact NDf].
      apply Permutation_map. apply Permutation_sym. exact PH. }
    destruct (mapM_ok (fun e => spec_line wc (w_kind (we_obj e)) [] (w_vals (we_obj e))) d) as [recs ER].
    { intros e He. destruct (EO e He) as [_ [L _]].
      destruct (spec_line_ok wc _ [] _ (wf_cfg_cls wc _ WFw) L) as [toks [_ S]]. eexists. exact S. }
    destruct (mapM_ok (fun e => mapM (fun v => spec_line wc cV [we_ktok e] v) (w_vars (we_obj e))) sH) as [vlines EV].
    { intros e He. apply mapM_ok. intros v Hv. apply InH in He. destruct (EO e (proj1 He)) as [_ [_ [LV _]]].
      destruct (spec_line_ok wc cV [we_ktok e] v (wf_cfg_cls wc cV WFw) (LV v Hv)) as [toks [_ S]]. eexists. exact S. }
    exists (map LHash (hdr_strs wc) ++ recs ++ concat vlines). split.
    { unfold to_str. rewrite ER. cbn [bind]. fold isH. fold sH. rewrite EV. cbn [bind].
      rewrite <- hdr_lines_strs. rewrite <- !app_assoc. reflexivity. }
    destruct (emitted_header_ok2 wc rc true CL SV SN) as [hs [CH [LG TY]]].
    unfold read, read_mode. rewrite read_lines_hashes. cbn [app].
    rewrite read_lines_recs.
    2:{ apply Forall_app. split.
        - apply (mapM_spec_line_recs wc (fun e => w_kind (we_obj e)) (fun _ => []) (fun e => w_vals (we_obj e)) _ _ ER).
        - apply (mapM_mapM_spec_line_recs wc _ _ EV). }
    unfold start_body. rewrite CH. cbn [bind].
    rewrite (TY cH eq_refl), (TY cV eq_refl), (TY cR eq_refl), LG.
    fold (ty2 wc rc cH) (ty2 wc rc cV) (ty2 wc rc cR).
    rewrite body_app.
    rewrite (body_recs2 d recs (mkrs [] [] []) EO CO ND (fun e _ X => X) ER). cbn [bind rs_data rs_vars rs_logs app].
    rewrite (body_vars2 sH vlines).
    - cbn [bind rs_data rs_vars rs_logs app].
      rewrite attach_spec.
      + cbn [bind]. f_equal. f_equal. unfold strip_data2. rewrite map_map. apply map_ext_in. intros e He.
        unfold upd, obj02. cbn [fst snd o_kind o_vals]. fold (eid e). f_equal. unfold strip_obj2.
        destruct (isH e) eqn:HE.
        * rewrite (vars_of2_get sH e NDs (proj2 (InH e) (conj He HE))).
          destruct (w_vars (we_obj e)); reflexivity.
        * destruct (EO e He) as [[K|[K W]] _]; [unfold isH in HE; rewrite K in HE; discriminate|].
          rewrite W. cbn [map]. rewrite zdict_get_none; [reflexivity|].
          intros X. apply vars_of2_keys in X. apply in_map_iff in X. destruct X as [e' [E I]].
          apply InH in I. destruct I as [I HE'].
          assert (e' = e) by (apply (NoDup_map_inj eid d e' e ND I He E)). subst e'. congruence.
      + apply vars_of2_NoDup. exact NDs.
      + rewrite map_map. cbn [obj02 fst]. exact ND.
      + intros h Hh. apply vars_of2_keys in Hh. rewrite map_map. cbn [obj02 fst].
        apply in_map_iff in Hh. destruct Hh as [e [E I]]. apply InH in I. apply in_map_iff. exists e. tauto.
    - intros e He. apply EO. apply InH in He. tauto.
    - intros e He. apply CO. apply InH in He. tauto.
    - exact NDs.
    - intros e He X. exact X.
    - exact EV.
  Qed.
End File.

(* ---- from the boolean side conditions of the roundtrip relation ------------------------------------ *)

Lemma sub_cfg_names rc wc : sub_cfg rc wc = true -> names_sub rc wc /\ cfg_version rc = cfg_version wc.
Proof.
  unfold sub_cfg. intros H. apply andb_true_iff in H. destruct H as [H HV].
  apply andb_true_iff in H. destruct H as [H HR]. apply andb_true_iff in H. destruct H as [HH HVv].
  split; [|apply str_eqb_eq; exact HV].
  assert (G : forall r w, sub_cls r w = true -> forall n, In n (extras_order r) -> In n (extras_order w)).
  { intros r w S n Hn. unfold sub_cls in S. apply andb_true_iff in S. destruct S as [_ S].
    rewrite forallb_forall in S. unfold extras_order in *. apply in_map_iff in Hn. destruct Hn as [x [E I]].
    specialize (S x I). apply existsb_exists in S. destruct S as [x' [I' S]].
    apply andb_true_iff in S. destruct S as [S _]. apply str_eqb_eq in S.
    apply in_map_iff. exists x'. split; [congruence|exact I']. }
  intros t n T. destruct (type_letter_cases t T) as [ -> | [ -> | -> ] ]; cbn [cls_of Z.eqb cH cV cR Pos.eqb];
    [apply (G _ _ HH)|apply (G _ _ HVv)|apply (G _ _ HR)].
Qed.

Lemma codec_ok2b_sound wc rc t vals : codec_ok2b wc rc t vals = true -> codec_ok2 wc rc t vals.
Proof.
  unfold codec_ok2b, codec_ok2. intros H n x ty G T. rewrite forallb_forall in H.
  specialize (H n (fkw_get_In n _ _ _ G)). rewrite G, T in H.
  destruct (conv ty (fv_tok x)) as [v|k]; cbn [res_eqb] in H; [|discriminate].
  apply val_eqb_eq in H. subst. reflexivity.
Qed.

Lemma codec_data2b_sound wc rc d : codec_data2b wc rc d = true -> codec_data2 wc rc d.
Proof.
  unfold codec_data2b, codec_data2. intros H e He. rewrite forallb_forall in H. specialize (H e He).
  apply andb_true_iff in H. destruct H as [H1 H2]. split; [apply codec_ok2b_sound; exact H1|].
  intros v Hv. rewrite forallb_forall in H2. apply codec_ok2b_sound. apply H2. exact Hv.
Qed.

Theorem hap_roundtrip_subreader_b wc rc d :
  rt_pre2 wc rc d = true ->
  exists lines, to_str wc d = Ok lines /\ read rc None lines = Ok (strip_data2 wc rc d, []).
Proof.
  unfold rt_pre2. intros H.
  apply andb_true_iff in H. destruct H as [H H6].
  apply andb_true_iff in H. destruct H as [H H5].
  apply andb_true_iff in H. destruct H as [H H4].
  apply andb_true_iff in H. destruct H as [H H3].
  apply andb_true_iff in H. destruct H as [H1 H2].
  destruct (sub_cfg_names rc wc H3) as [SN SV].
  apply (hap_roundtrip_subreader wc rc H1 H2 SN d (clean_cfgb_sound wc H4) SV H5 (codec_data2b_sound wc rc d H6)).
Qed.

(* an unrequested extra does not disturb the others: writer with (anc, beta) on H, the
   reader asks for beta only *)
Definition ex_rcfg : cfg :=
  let beta := [98; 101; 116; 97] in
  mkcfg (mkcls [(beta, TFlt)] [mkx beta [46; 50; 102] [98]]) (mkcls [] []) (mkcls [] []) [48; 46; 50; 46; 48].

Example subreader_example :
  rt_pre2 ex_cfg ex_rcfg ex_data = true
  /\ exists lines, to_str ex_cfg ex_data = Ok lines
       /\ read ex_rcfg None lines = Ok (strip_data2 ex_cfg ex_rcfg ex_data, [])
       /\ strip_data2 ex_cfg ex_rcfg ex_data
          = [ (1, mkobj cH [VStr 10; VInt 5; VInt 9; VStr 1; VFlt 60]
                       [[VInt 5; VInt 6; VStr 16; VStr 17]; [VInt 8; VInt 9; VStr 20; VStr 17]]);
              (2, mkobj cR [VStr 10; VInt 5; VInt 6; VStr 2] []);
              (3, mkobj cH [VStr 10; VInt 0; VInt 9; VStr 3; VFlt 62] [[VInt 0; VInt 5; VStr 25; VStr 17]]) ].
Proof.
  split; [vm_compute; reflexivity|].
  eexists. split; [vm_compute; reflexivity|]. split; vm_compute; reflexivity.
Qed.
