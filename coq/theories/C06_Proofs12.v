(* C06 - lemmas and proofs, part 12: _get_field_types characterised for EVERY column
   list - also order lines that repeat a name, name a mandatory field or an unknown
   field: the names are removed from the class's dict and appended in the order of
   their LAST occurrence (each once), with the class's type or None.  Consequences
   for malformed order lines are computed examples; for well-formed ones this is
   field_types_wf of part 2. *)
From HV Require Import Prelude C06_Model C06_Check C06_Proofs C06_Proofs2 C06_Proofs3.

Definition keep_last (l : list str) : list str := rev (dedup_str (rev l)).

Lemma filter_rev {A} (f : A -> bool) l : filter f (rev l) = rev (filter f l).
Proof.
  induction l as [|x l IH]; [reflexivity|]. cbn [rev filter].
  rewrite filter_app, IH. cbn [filter]. destruct (f x); cbn [rev]; [reflexivity|rewrite app_nil_r; reflexivity].
Qed.

Definition neq_str (n : str) (y : str) : bool := negb (str_eqb y n).

Lemma keep_last_snoc l n : keep_last (l ++ [n]) = filter (neq_str n) (keep_last l) ++ [n].
Proof.
  unfold keep_last. rewrite rev_app_distr. cbn [rev app dedup_str].
  rewrite <- filter_rev. reflexivity.
Qed.

Lemma keep_last_In l n : In n (keep_last l) <-> In n l.
Proof.
  unfold keep_last. rewrite <- in_rev.
  assert (D : forall k, In n (dedup_str k) <-> In n k).
  { induction k as [|y k IH]; cbn [dedup_str In]; [tauto|].
    rewrite filter_In, IH. split.
    - intros [H|[H _]]; auto.
    - intros [H|H]; [left; exact H|].
      destruct (list_eq_dec Z.eq_dec y n) as [E|NE]; [left; exact E|right].
      split; [exact H|]. apply negb_true_iff. apply str_eqb_neq. congruence. }
  rewrite D, <- in_rev. tauto.
Qed.

Lemma moved_app flds p q : moved flds (p ++ q) = moved flds p ++ moved flds q.
Proof. unfold moved. apply map_app. Qed.

Lemma moved_filter flds n p : filter (other n) (moved flds p) = moved flds (filter (neq_str n) p).
Proof.
  induction p as [|x p IH]; [reflexivity|]. cbn [moved map filter]. unfold other at 1, neq_str at 1. cbn [fst].
  destruct (str_eqb x n); cbn [negb]; [exact IH|]. cbn [moved map]. f_equal. exact IH.
Qed.

Lemma filter_neq_notin n p : ~ In n p -> filter (neq_str n) p = p.
Proof.
  induction p as [|x p IH]; intros H; [reflexivity|]. cbn [filter]. unfold neq_str at 1.
  destruct (str_eqb x n) eqn:E.
  - apply str_eqb_eq in E. exfalso. apply H. left. exact E.
  - cbn [negb]. rewrite IH; [reflexivity|]. intros X. apply H. right. exact X.
Qed.

Lemma notin_in_same n p d : In n p -> filter (notin (p ++ [n])) d = filter (notin p) d.
Proof.
  intros I. apply filter_ext. intros [m v]. unfold notin. cbn [fst]. rewrite mem_str_app. cbn [mem_str].
  rewrite orb_false_r. destruct (str_eqb n m) eqn:E; [|rewrite orb_false_r; reflexivity].
  apply str_eqb_eq in E. subst m. apply mem_str_In in I. rewrite I. reflexivity.
Qed.

Lemma keys_filter_notin_out p d n : In n p -> ~ In n (keys (filter (notin p) d)).
Proof.
  intros I X. unfold keys in X. apply in_map_iff in X. destruct X as [[m v] [E H]]. cbn [fst] in E. subst m.
  apply filter_In in H. destruct H as [_ H]. unfold notin in H. cbn [fst] in H.
  apply negb_true_iff, mem_str_notIn in H. contradiction.
Qed.

Lemma NoDup_filter {A} (f : A -> bool) l : NoDup l -> NoDup (filter f l).
Proof.
  induction l as [|x l IH]; intros H; [constructor|]. inversion H; subst. cbn [filter].
  destruct (f x); [constructor|]; [intros X; apply filter_In in X; tauto|apply IH; assumption|apply IH; assumption].
Qed.

Lemma keep_last_NoDup l : NoDup (keep_last l).
Proof.
  unfold keep_last. apply NoDup_rev.
  induction (rev l) as [|x k IH]; cbn [dedup_str]; constructor.
  - intros X. apply filter_In in X. destruct X as [_ X]. rewrite str_eqb_refl in X. discriminate.
  - apply NoDup_filter. exact IH.
Qed.

(* every step of the loop of _get_field_types, for any name *)
Lemma reorder_step_general d l n :
  NoDup (keys d) ->
  reorder_step (filter (notin l) d ++ moved d (keep_last l)) n
  = filter (notin (l ++ [n])) d ++ moved d (keep_last (l ++ [n])).
Proof.
  intros ND. unfold reorder_step. rewrite keep_last_snoc, moved_app. cbn [moved map].
  destruct (in_dec (list_eq_dec Z.eq_dec) n l) as [Il|Nl].
  - (* named before: it sits among the moved ones *)
    rewrite (dict_pop_skip n _ _ (keys_filter_notin_out l d n Il)).
    pose proof (dict_pop_found n (moved d (keep_last l)) []) as F. rewrite !app_nil_r in F.
    rewrite F.
    + rewrite moved_filter, (notin_in_same n l d Il).
      assert (G : getv n (moved d (keep_last l)) = getv n d).
      { assert (I : In n (keep_last l)) by (apply keep_last_In; exact Il).
        clear -I. induction (keep_last l) as [|x k IH]; [contradiction|]. cbn [moved map getv].
        destruct (str_eqb x n) eqn:E; [apply str_eqb_eq in E; subst; reflexivity|].
        destruct I as [I|I]; [apply str_eqb_neq in E; contradiction|]. apply IH. exact I. }
      rewrite G, <- app_assoc. reflexivity.
    + rewrite keys_moved. apply keep_last_NoDup.
    + rewrite keys_moved. apply keep_last_In. exact Il.
  - rewrite (filter_neq_notin n (keep_last l)) by (rewrite keep_last_In; exact Nl).
    destruct (in_dec (list_eq_dec Z.eq_dec) n (keys d)) as [Id|Nd].
    + rewrite (dict_pop_found n (filter (notin l) d) (moved d (keep_last l))).
      * rewrite (getv_filter_notin l d n Nl), filter_other_notin_p, <- !app_assoc. reflexivity.
      * apply NoDup_keys_filter. exact ND.
      * apply keys_filter_notin; assumption.
    + rewrite dict_pop_none.
      * rewrite (getv_notin n d Nd), (filter_notin_extend l n d Nd), <- !app_assoc. reflexivity.
      * unfold keys. rewrite map_app. fold (keys (filter (notin l) d)) (keys (moved d (keep_last l))).
        rewrite keys_moved. intros X. apply in_app_or in X. destruct X as [X|X].
        -- apply Nd. apply (keys_filter_sub _ _ _ X).
        -- apply Nl. apply keep_last_In. exact X.
Qed.

Theorem field_types_characterised d cols :
  NoDup (keys d) ->
  field_types d cols = filter (notin cols) d ++ moved d (keep_last cols).
Proof.
  intros ND. unfold field_types.
  assert (G : forall q p, fold_left reorder_step q (filter (notin p) d ++ moved d (keep_last p))
                          = filter (notin (p ++ q)) d ++ moved d (keep_last (p ++ q))).
  { induction q as [|n q IH]; intros p; cbn [fold_left]; [rewrite app_nil_r; reflexivity|].
    rewrite (reorder_step_general d p n ND), IH, <- app_assoc. reflexivity. }
  specialize (G cols []). cbn [app keep_last rev dedup_str moved map] in G. rewrite app_nil_r in G.
  assert (F0 : filter (notin []) d = d).
  { clear. induction d as [|x l IH]; cbn [filter]; [reflexivity|]. unfold notin at 1. cbn. rewrite IH. reflexivity. }
  rewrite F0 in G. exact G.
Qed.

(* a name that is repeated counts once, at its last occurrence *)
Corollary field_types_repeats d cols :
  NoDup (keys d) -> field_types d cols = field_types d (keep_last cols).
Proof.
  intros ND. rewrite (field_types_characterised d cols ND), (field_types_characterised d (keep_last cols) ND).
  f_equal.
  - apply filter_ext. intros [m v]. unfold notin. cbn [fst]. f_equal.
    apply mem_str_iff. symmetry. apply keep_last_In.
  - f_equal. unfold keep_last at 2.
    assert (R : forall k, NoDup k -> dedup_str k = k).
    { induction k as [|x k IH]; intros H; [reflexivity|]. inversion H; subst. cbn [dedup_str].
      rewrite IH by assumption. f_equal. apply filter_neq_notin. assumption. }
    rewrite R; [rewrite rev_involutive; reflexivity|]. apply NoDup_rev. apply keep_last_NoDup.
Qed.

(* malformed order lines (outside wf_columns; the implementation agrees with the model):
   "a b a" is read as "b a", and an order line naming the mandatory field start moves start
   behind the extras *)
Example malformed_order_examples :
  let a := [97] in let b := [98] in
  let c := mkcfg (mkcls [(a, TInt); (b, TInt)] [mkx a [100] []; mkx b [100] []]) (mkcls [] []) (mkcls [] [])
                 [48; 46; 50; 46; 48] in
  field_types (base_types c cH) [a; b; a] = field_types (base_types c cH) [b; a]
  /\ wf_columns c cH [a; b; a] = false
  /\ map fst (field_types (base_types c cH) [s_start; a; b]) = [s_chrom; s_end; s_id; s_start; a; b]
  /\ wf_columns c cH [s_start; a; b] = false.
Proof. vm_compute. repeat split. Qed.
