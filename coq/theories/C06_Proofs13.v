(* C06 - the declared format of an extra field plays no part in reading.

   The reader converts a column with the class's annotated type (get_type_hints: str / int /
   float), never with anything derived from the format string of the declaration line: the
   format is used by the writer only (to_hap_spec).  Hence a declaration line counts for its line
   type and its name alone, whatever its format (s, d, .2f, .3e, g, E, n, %, x, the empty
   string, ...) and description are: two files that differ only there are read alike - same
   records, same values, same warnings, same exception. *)
From HV Require Import Prelude C06_Model C06_Check C06_Proofs C06_Proofs7.

(* what check_header keeps of a declaration line *)
Definition decl_name (s : str) : option str :=
  match split_on cTAB (skipn 3 s) with
  | name :: _ :: _ :: _ => Some name
  | _ => None
  end.

(* the same line, or two declaration lines of the same line type that name the same field
   (format, description and any further fields arbitrary; also two that both fail to parse) *)
Definition same_decl (s s' : str) : Prop :=
  s = s' \/ exists t, classify s = ShDecl t /\ classify s' = ShDecl t /\ decl_name s = decl_name s'.

Inductive same_line : line -> line -> Prop :=
| sl_hash s s' : same_decl s s' -> same_line (LHash s) (LHash s')
| sl_refl l : same_line l l.

Lemma decl_step_name st t s s' : decl_name s = decl_name s' -> decl_step st t s = decl_step st t s'.
Proof.
  unfold decl_name, decl_step. intros H.
  destruct (split_on cTAB (skipn 3 s)) as [|n [|f [|d r]]];
    destruct (split_on cTAB (skipn 3 s')) as [|n' [|f' [|d' r']]];
    try reflexivity; try discriminate H.
  injection H as ->. reflexivity.
Qed.

Lemma classify_decl_len s t : classify s = ShDecl t -> Nat.ltb (length s) 3 = false.
Proof.
  destruct s as [|a [|b [|c r]]]; unfold classify; cbn [nth_error]; try discriminate.
  - destruct (b =? cTAB); discriminate.
  - reflexivity.
Qed.

Lemma hdr_step_same_decl legacy cv softly cur st s s' :
  same_decl s s' -> hdr_step legacy cv softly cur st s = hdr_step legacy cv softly cur st s'.
Proof.
  intros [->|[t [C [C' N]]]]; [reflexivity|].
  unfold hdr_step, classify_mode.
  rewrite (classify_decl_len s t C), (classify_decl_len s' t C'), andb_false_r. cbn [bind].
  rewrite C, C'. rewrite (decl_step_name st t s s' N). reflexivity.
Qed.

Lemma hdr_fold_same_decl legacy cv softly cur hs hs' :
  Forall2 same_decl hs hs' ->
  forall st, hdr_fold legacy cv softly cur st hs = hdr_fold legacy cv softly cur st hs'.
Proof.
  induction 1 as [|s s' r r' S F IH]; intros st; cbn [hdr_fold]; [reflexivity|].
  rewrite (hdr_step_same_decl legacy cv softly cur st s s' S).
  destruct (hdr_step legacy cv softly cur st s') as [st1|e]; cbn [bind]; [apply IH|reflexivity].
Qed.

(* check_header: the parsed state, the warnings and the exception do not depend on the formats *)
Theorem declared_format_irrelevant_header legacy c cv softly hs hs' :
  Forall2 same_decl hs hs' ->
  check_header legacy c cv softly hs = check_header legacy c cv softly hs'.
Proof.
  intros F. unfold check_header. rewrite (hdr_fold_same_decl legacy cv softly _ hs hs' F). reflexivity.
Qed.

Lemma body_same_line c sel tH tV tR ls ls' :
  Forall2 same_line ls ls' ->
  forall st, body c sel tH tV tR st ls = body c sel tH tV tR st ls'.
Proof.
  induction 1 as [|l l' r r' S F IH]; intros st; [reflexivity|].
  destruct S as [s s' S|l].
  - cbn [body]. apply IH.
  - destruct l as [s|k sep toks|]; cbn [body]; [apply IH| |reflexivity].
    destruct (rec_step c sel tH tV tR st k toks) as [st1|e]; cbn [bind]; [apply IH|reflexivity].
Qed.

Lemma start_body_same legacy c sel hdr hdr' ls ls' :
  Forall2 same_decl hdr hdr' -> Forall2 same_line ls ls' ->
  start_body legacy c sel hdr ls = start_body legacy c sel hdr' ls'.
Proof.
  intros FH FL. unfold start_body.
  rewrite (declared_format_irrelevant_header legacy c true true hdr hdr' FH).
  destruct (check_header legacy c true true hdr') as [hs|e]; cbn [bind]; [|reflexivity].
  apply body_same_line. exact FL.
Qed.

Lemma Forall2_snoc {A B} (R : A -> B -> Prop) l l' a b :
  Forall2 R l l' -> R a b -> Forall2 R (l ++ [a]) (l' ++ [b]).
Proof. intros F H. apply Forall2_app; [exact F|constructor; [exact H|constructor]]. Qed.

Lemma read_lines_same legacy nc c sel ls ls' :
  Forall2 same_line ls ls' ->
  forall hdr hdr', Forall2 same_decl hdr hdr' ->
  read_lines legacy nc c sel hdr ls = read_lines legacy nc c sel hdr' ls'.
Proof.
  induction 1 as [|l l' r r' S F IH]; intros hdr hdr' FH.
  - cbn [read_lines]. destruct nc; [|reflexivity].
    apply start_body_same; [exact FH|constructor].
  - destruct S as [s s' S|l].
    + cbn [read_lines]. apply IH. apply Forall2_snoc; assumption.
    + destruct l as [s|k sep toks|].
      * cbn [read_lines]. apply IH. apply Forall2_snoc; [exact FH|left; reflexivity].
      * cbn [read_lines]. apply start_body_same; [exact FH|].
        constructor; [apply sl_refl|exact F].
      * reflexivity.
Qed.

(* read (both trees): records, values, variant membership, order, warnings and exceptions do
   not depend on the formats (and descriptions) the declaration lines carry *)
Theorem declared_format_irrelevant_read legacy nc c sel ls ls' :
  Forall2 same_line ls ls' -> read_mode legacy nc c sel ls = read_mode legacy nc c sel ls'.
Proof.
  intros F. unfold read_mode. rewrite (read_lines_same legacy nc c sel ls ls' F [] []); [reflexivity|constructor].
Qed.

(* the relation is inhabited by what the writer itself emits: the declaration line of an extra
   field whose name has no tab, under any two formats and descriptions *)
Lemma decl_name_decl_line t x :
  ~ In cTAB (x_name x) -> decl_name (decl_line t x) = Some (x_name x).
Proof.
  intros CL. unfold decl_name, decl_line. cbn [app skipn join_on].
  rewrite (split_on_app cTAB (x_name x) _ CL).
  destruct (split_two_more cTAB (x_fmt x) (x_desc x)) as [a [b [r E]]]. rewrite E. reflexivity.
Qed.

Theorem decl_lines_same_decl t n f d f' d' :
  is_type_letter t = true -> ~ In cTAB n ->
  same_decl (decl_line t (mkx n f d)) (decl_line t (mkx n f' d')).
Proof.
  intros T CL. right. exists t.
  split; [apply classify_decl_line; exact T|]. split; [apply classify_decl_line; exact T|].
  rewrite !decl_name_decl_line by exact CL. reflexivity.
Qed.

(* the converse boundary: the name and the line type do matter *)
Example same_decl_needs_name :
  decl_name [35; 72; 9; 97; 9; 100; 9] <> decl_name [35; 72; 9; 98; 9; 100; 9].
Proof. vm_compute. discriminate. Qed.

(* ---- a concrete file: formats outside s / d / f ------------------------------------------
   reader: Haplotype + beta: float (.2f), Variant + weight: int (d).  The file declares, without
   order lines, #H pval (.3e, not asked for) before #H beta and #V score (g, not asked for) before
   #V weight; one H line "1 100 200 H1 1.250e-08 0.25", a comment, one V line "H1 100 101 rs1 A 12 3".
   Tokens: 8 = float('1.250e-08'), 10 = float('0.25'), 12 / 3 the two integers of the V line. *)
Definition xf_cfg : cfg := (mkcfg (mkcls [([98; 101; 116; 97], TFlt)] [(mkx [98; 101; 116; 97] [46; 50; 102] [69; 102; 102; 101; 99; 116; 32; 115; 105; 122; 101])]) (mkcls [([119; 101; 105; 103; 104; 116], TInt)] [(mkx [119; 101; 105; 103; 104; 116] [100] [87; 101; 105; 103; 104; 116])]) (mkcls [] []) [48; 46; 50; 46; 48]) .
Definition xf_file_sci : list line := [(Hs [35; 9; 118; 101; 114; 115; 105; 111; 110; 9; 48; 46; 50; 46; 48]); (Hs [35; 72; 9; 112; 118; 97; 108; 9; 46; 51; 101; 9; 112; 45; 118; 97; 108; 117; 101]); (Hs [35; 72; 9; 98; 101; 116; 97; 9; 46; 50; 102; 9; 69; 102; 102; 101; 99; 116; 32; 115; 105; 122; 101]); (Hs [35; 86; 9; 115; 99; 111; 114; 101; 9; 103; 9; 73; 109; 112; 111; 114; 116; 97; 110; 99; 101]); (Hs [35; 86; 9; 119; 101; 105; 103; 104; 116; 9; 100; 9; 87; 101; 105; 103; 104; 116]); (Rc 72 9 [(ti 0 1 1); (ti 2 100 3); (ti 4 200 5); (tn 6); (tf 7 8); (tf 9 10)]); (Hs [35; 32; 97; 32; 99; 111; 109; 109; 101; 110; 116]); (Rc 86 9 [(tn 6); (ti 2 100 3); (ti 11 101 12); (tn 13); (tn 14); (ti 15 12 16); (ti 17 3 18)])] .
Definition xf_file_plain : list line := [(Hs [35; 9; 118; 101; 114; 115; 105; 111; 110; 9; 48; 46; 50; 46; 48]); (Hs [35; 72; 9; 112; 118; 97; 108; 9; 46; 50; 102; 9; 112; 45; 118; 97; 108; 117; 101]); (Hs [35; 72; 9; 98; 101; 116; 97; 9; 46; 50; 102; 9; 69; 102; 102; 101; 99; 116; 32; 115; 105; 122; 101]); (Hs [35; 86; 9; 115; 99; 111; 114; 101; 9; 100; 9; 73; 109; 112; 111; 114; 116; 97; 110; 99; 101]); (Hs [35; 86; 9; 119; 101; 105; 103; 104; 116; 9; 100; 9; 87; 101; 105; 103; 104; 116]); (Rc 72 9 [(ti 0 1 1); (ti 2 100 3); (ti 4 200 5); (tn 6); (tf 7 8); (tf 9 10)]); (Hs [35; 32; 97; 32; 99; 111; 109; 109; 101; 110; 116]); (Rc 86 9 [(tn 6); (ti 2 100 3); (ti 11 101 12); (tn 13); (tn 14); (ti 15 12 16); (ti 17 3 18)])] .
Definition xf_file_pct : list line := [(Hs [35; 9; 118; 101; 114; 115; 105; 111; 110; 9; 48; 46; 50; 46; 48]); (Hs [35; 72; 9; 112; 118; 97; 108; 9; 46; 49; 37; 9; 112; 45; 118; 97; 108; 117; 101]); (Hs [35; 72; 9; 98; 101; 116; 97; 9; 46; 50; 102; 9; 69; 102; 102; 101; 99; 116; 32; 115; 105; 122; 101]); (Hs [35; 86; 9; 115; 99; 111; 114; 101; 9; 120; 9; 73; 109; 112; 111; 114; 116; 97; 110; 99; 101]); (Hs [35; 86; 9; 119; 101; 105; 103; 104; 116; 9; 100; 9; 87; 101; 105; 103; 104; 116]); (Rc 72 9 [(ti 0 1 1); (ti 2 100 3); (ti 4 200 5); (tn 6); (tf 7 8); (tf 9 10)]); (Hs [35; 32; 97; 32; 99; 111; 109; 109; 101; 110; 116]); (Rc 86 9 [(tn 6); (ti 2 100 3); (ti 11 101 12); (tn 13); (tn 14); (ti 15 12 16); (ti 17 3 18)])] .
Definition xf_expected : list (Z * obj) := [(6, mkobj 72 [(VStr 0); (VInt 100); (VInt 200); (VStr 6); (VFlt 10)] [[(VInt 100); (VInt 101); (VStr 13); (VStr 14); (VInt 3)]])] .

Ltac same_lines :=
  repeat first [apply Forall2_nil | apply Forall2_cons];
  first [apply sl_refl | apply sl_hash; right; eexists; vm_compute; repeat split; reflexivity].

Example exotic_format_example :
  read xf_cfg None xf_file_sci = Ok (xf_expected, [])
  /\ Forall2 same_line xf_file_sci xf_file_plain
  /\ Forall2 same_line xf_file_sci xf_file_pct
  /\ read xf_cfg None xf_file_plain = Ok (xf_expected, [])
  /\ read xf_cfg None xf_file_pct = Ok (xf_expected, []).
Proof.
  split; [vm_compute; reflexivity|]. split; [same_lines|]. split; [same_lines|].
  split; vm_compute; reflexivity.
Qed.

(* what a reader that does not take the '.3e' / 'g' lines for declarations returns: the file
   without these two lines binds beta to the p-value (token 8) and weight to the score (12) -
   silently.  The declaration lines are what keeps the columns apart. *)
Definition drop2 (ls : list line) : list line :=
  match ls with a :: _ :: b :: _ :: r => a :: b :: r | _ => ls end.

Example dropped_declaration_misbinds :
  read xf_cfg None (drop2 xf_file_sci)
  = Ok ([(6, mkobj 72 [VStr 0; VInt 100; VInt 200; VStr 6; VFlt 8] [[VInt 100; VInt 101; VStr 13; VStr 14; VInt 12]])], []).
Proof. vm_compute. reflexivity. Qed.
