(* C06 - lemmas and proofs, part 2: _get_field_types and from_hap_spec bind every
   requested extra field to the column the header assigns to its name. *)
From HV Require Import Prelude C06_Model C06_Check C06_Proofs.

Definition keys (d : tdict) : list str := map fst d.

Lemma str_eqb_sym a b : str_eqb a b = str_eqb b a.
Proof.
  destruct (str_eqb a b) eqn:E.
  - apply str_eqb_eq in E. subst. symmetry. apply str_eqb_refl.
  - apply str_eqb_neq in E. symmetry. apply str_eqb_neq. congruence.
Qed.

Lemma mem_str_In k l : mem_str k l = true <-> In k l.
Proof.
  induction l as [|x l IH]; cbn [mem_str In].
  - split; [discriminate|tauto].
  - rewrite orb_true_iff, str_eqb_eq, IH. tauto.
Qed.

Lemma mem_str_notIn k l : mem_str k l = false <-> ~ In k l.
Proof.
  rewrite <- mem_str_In. destruct (mem_str k l); split; intros H.
  - discriminate.
  - exfalso. apply H. reflexivity.
  - intros X. discriminate.
  - reflexivity.
Qed.

Lemma mem_str_app k a b : mem_str k (a ++ b) = mem_str k a || mem_str k b.
Proof. induction a as [|x a IH]; cbn [app mem_str]; [reflexivity|]. rewrite IH, orb_assoc. reflexivity. Qed.

Lemma nodup_str_NoDup l : nodup_str l = true -> NoDup l.
Proof.
  induction l as [|x l IH]; cbn [nodup_str]; intros H; constructor.
  - apply andb_true_iff in H. destruct H as [H _]. apply negb_true_iff, mem_str_notIn in H. exact H.
  - apply andb_true_iff in H. destruct H as [_ H]. apply IH. exact H.
Qed.

(* ---- dict_pop ------------------------------------------------------------------ *)

Lemma dict_pop_none k d : ~ In k (keys d) -> dict_pop k d = None.
Proof.
  induction d as [|[n v] d IH]; cbn [keys map fst In dict_pop]; intros H; [reflexivity|].
  destruct (str_eqb n k) eqn:E.
  - apply str_eqb_eq in E. exfalso. apply H. left. exact E.
  - rewrite IH; [reflexivity|]. intros X. apply H. right. exact X.
Qed.

Lemma dict_pop_skip k a b :
  ~ In k (keys a) ->
  dict_pop k (a ++ b) = match dict_pop k b with Some (v, b') => Some (v, a ++ b') | None => None end.
Proof.
  induction a as [|[n v] a IH]; cbn [keys map fst In app dict_pop]; intros H.
  - destruct (dict_pop k b) as [[v b']|]; reflexivity.
  - destruct (str_eqb n k) eqn:E.
    + apply str_eqb_eq in E. exfalso. apply H. left. exact E.
    + rewrite IH by (intros X; apply H; right; exact X).
      destruct (dict_pop k b) as [[v' b']|]; reflexivity.
Qed.

Definition other (k : str) (kv : str * option ftype) : bool := negb (str_eqb (fst kv) k).

Lemma filter_other_notin k d : ~ In k (keys d) -> filter (other k) d = d.
Proof.
  induction d as [|[n v] d IH]; cbn [keys map fst In filter]; intros H; [reflexivity|].
  unfold other at 1. cbn [fst].
  destruct (str_eqb n k) eqn:E.
  - apply str_eqb_eq in E. exfalso. apply H. left. exact E.
  - cbn [negb]. rewrite IH; [reflexivity|]. intros X. apply H. right. exact X.
Qed.

Lemma dict_pop_found k d e :
  NoDup (keys d) -> In k (keys d) ->
  dict_pop k (d ++ e) = Some (getv k d, filter (other k) d ++ e).
Proof.
  induction d as [|[n v] d IH]; cbn [keys map fst In]; intros ND HI; [contradiction|].
  inversion ND as [|x l Hn ND']; subst.
  cbn [app dict_pop getv filter]. unfold other at 1. cbn [fst].
  destruct (str_eqb n k) eqn:E.
  - apply str_eqb_eq in E. subst n. cbn [negb].
    rewrite filter_other_notin by exact Hn. reflexivity.
  - cbn [negb]. destruct HI as [HI|HI]; [apply str_eqb_neq in E; contradiction|].
    fold (keys d) in *. rewrite (IH ND' HI). reflexivity.
Qed.

Lemma getv_notin k d : ~ In k (keys d) -> getv k d = None.
Proof.
  induction d as [|[n v] d IH]; cbn [keys map fst In getv]; intros H; [reflexivity|].
  destruct (str_eqb n k) eqn:E.
  - apply str_eqb_eq in E. exfalso. apply H. left. exact E.
  - apply IH. intros X. apply H. right. exact X.
Qed.

Lemma getv_app_l k a b : In k (keys a) -> getv k (a ++ b) = getv k a.
Proof.
  induction a as [|[n v] a IH]; cbn [keys map fst In app getv]; intros H; [contradiction|].
  destruct (str_eqb n k) eqn:E; [reflexivity|].
  destruct H as [H|H]; [apply str_eqb_neq in E; contradiction|]. apply IH. exact H.
Qed.

Lemma getv_app_r k a b : ~ In k (keys a) -> getv k (a ++ b) = getv k b.
Proof.
  induction a as [|[n v] a IH]; cbn [keys map fst In app getv]; intros H; [reflexivity|].
  destruct (str_eqb n k) eqn:E.
  - apply str_eqb_eq in E. exfalso. apply H. left. exact E.
  - apply IH. intros X. apply H. right. exact X.
Qed.

(* ---- the reordering invariant of _get_field_types --------------------------------- *)

Definition notin (p : list str) (kv : str * option ftype) : bool := negb (mem_str (fst kv) p).
Definition moved (flds : tdict) (p : list str) : tdict := map (fun n => (n, getv n flds)) p.

Lemma keys_moved flds p : keys (moved flds p) = p.
Proof. unfold keys, moved. rewrite map_map. cbn [fst]. apply map_id. Qed.

Lemma keys_filter_sub f d k : In k (keys (filter f d)) -> In k (keys d).
Proof.
  unfold keys. rewrite !in_map_iff. intros [x [E H]]. apply filter_In in H. exists x. tauto.
Qed.

Lemma keys_filter_notin p d k : In k (keys d) -> ~ In k p -> In k (keys (filter (notin p) d)).
Proof.
  unfold keys. rewrite !in_map_iff. intros [x [E H]] Hp. exists x. split; [exact E|].
  apply filter_In. split; [exact H|]. unfold notin. rewrite E. apply negb_true_iff, mem_str_notIn. exact Hp.
Qed.

Lemma NoDup_keys_filter f d : NoDup (keys d) -> NoDup (keys (filter f d)).
Proof.
  induction d as [|[n v] d IH]; cbn [keys map fst filter]; intros H; [constructor|].
  inversion H as [|x l Hn ND]; subst. fold (keys d) in *.
  destruct (f (n, v)); [|apply IH; exact ND].
  cbn [map fst]. constructor; [|apply IH; exact ND].
  intros X. apply Hn. apply (keys_filter_sub f d n X).
Qed.

Lemma getv_filter_notin p d k : ~ In k p -> getv k (filter (notin p) d) = getv k d.
Proof.
  intros Hp. induction d as [|[n v] d IH]; cbn [filter getv]; [reflexivity|].
  unfold notin at 1. cbn [fst].
  destruct (mem_str n p) eqn:M; cbn [negb].
  - destruct (str_eqb n k) eqn:E; [|exact IH].
    apply str_eqb_eq in E. subst n. apply mem_str_In in M. contradiction.
  - cbn [getv]. destruct (str_eqb n k); [reflexivity|exact IH].
Qed.

Lemma filter_other_notin_p p n d :
  filter (other n) (filter (notin p) d) = filter (notin (p ++ [n])) d.
Proof.
  induction d as [|[m v] d IH]; cbn [filter]; [reflexivity|].
  assert (E : notin (p ++ [n]) (m, v) = notin p (m, v) && other n (m, v)).
  { unfold notin, other. cbn [fst]. rewrite mem_str_app. cbn [mem_str].
    rewrite orb_false_r, negb_orb, (str_eqb_sym n m). reflexivity. }
  rewrite E. destruct (notin p (m, v)); cbn [andb filter].
  - destruct (other n (m, v)); rewrite IH; reflexivity.
  - exact IH.
Qed.

Lemma filter_notin_extend p n d : ~ In n (keys d) -> filter (notin (p ++ [n])) d = filter (notin p) d.
Proof.
  intros H. apply filter_ext_in. intros [m v] Hm. unfold notin. cbn [fst].
  rewrite mem_str_app. cbn [mem_str]. rewrite orb_false_r.
  destruct (str_eqb n m) eqn:E; [|rewrite orb_false_r; reflexivity].
  apply str_eqb_eq in E. subst m. exfalso. apply H. unfold keys. apply in_map_iff. exists (n, v). auto.
Qed.

Lemma reorder_step_inv mand flds p n :
  NoDup (keys flds) -> ~ In n p -> ~ In n (keys mand) ->
  reorder_step (mand ++ filter (notin p) flds ++ moved flds p) n
  = mand ++ filter (notin (p ++ [n])) flds ++ moved flds (p ++ [n]).
Proof.
  intros ND Hp Hm. unfold reorder_step. rewrite (dict_pop_skip n mand _ Hm).
  unfold moved at 3. rewrite map_app. cbn [map]. fold (moved flds p).
  destruct (in_dec (list_eq_dec Z.eq_dec) n (keys flds)) as [HI|HI].
  - rewrite (dict_pop_found n (filter (notin p) flds) (moved flds p)).
    + rewrite (getv_filter_notin p flds n Hp), filter_other_notin_p. rewrite <- !app_assoc. reflexivity.
    + apply NoDup_keys_filter. exact ND.
    + apply keys_filter_notin; assumption.
  - rewrite dict_pop_none.
    + rewrite (getv_notin n flds HI), (filter_notin_extend p n flds HI). rewrite <- !app_assoc. reflexivity.
    + unfold keys. rewrite map_app. fold (keys (filter (notin p) flds)) (keys (moved flds p)).
      rewrite keys_moved. intros X. apply in_app_or in X. destruct X as [X|X]; [|contradiction].
      apply HI. apply (keys_filter_sub _ _ _ X).
Qed.

Lemma field_types_inv mand flds :
  NoDup (keys flds) -> forall q p,
  NoDup (p ++ q) -> (forall n, In n q -> ~ In n (keys mand)) ->
  fold_left reorder_step q (mand ++ filter (notin p) flds ++ moved flds p)
  = mand ++ filter (notin (p ++ q)) flds ++ moved flds (p ++ q).
Proof.
  intros ND. induction q as [|n q IH]; intros p NDpq Hm; cbn [fold_left].
  - rewrite app_nil_r. reflexivity.
  - rewrite reorder_step_inv.
    + replace (p ++ n :: q) with ((p ++ [n]) ++ q) by (rewrite <- app_assoc; reflexivity).
      apply IH.
      * rewrite <- app_assoc. exact NDpq.
      * intros m Hq. apply Hm. right. exact Hq.
    + exact ND.
    + apply NoDup_remove_2 in NDpq. intros X. apply NDpq. apply in_or_app. left. exact X.
    + apply Hm. left. reflexivity.
Qed.

Lemma field_types_wf mand flds cols :
  NoDup (keys flds) -> NoDup cols ->
  (forall n, In n cols -> ~ In n (keys mand)) ->
  (forall n, In n (keys flds) -> In n cols) ->
  field_types (mand ++ flds) cols = mand ++ moved flds cols.
Proof.
  intros ND NDc Hm Hall. unfold field_types.
  pose proof (field_types_inv mand flds ND cols [] NDc Hm) as H. cbn [app moved map] in H.
  assert (F0 : filter (notin []) flds = flds).
  { clear. induction flds as [|x l IH]; cbn [filter]; [reflexivity|]. unfold notin at 1. cbn. rewrite IH. reflexivity. }
  rewrite F0, app_nil_r in H. rewrite H.
  assert (F1 : filter (notin cols) flds = []).
  { clear -Hall. induction flds as [|[n v] l IH]; cbn [filter]; [reflexivity|].
    unfold notin at 1. cbn [fst].
    assert (M : mem_str n cols = true) by (apply mem_str_In, Hall; left; reflexivity).
    rewrite M. cbn [negb]. apply IH. intros m Hm. apply Hall. right. exact Hm. }
  rewrite F1. reflexivity.
Qed.

(* ---- from_hap_spec reads position k of the types dict from column k ----------------- *)

Lemma parse_fields_at : forall ts idx toks kw,
  NoDup (keys ts) -> parse_fields ts idx toks = Ok kw ->
  forall k n ty, nth_error ts k = Some (n, Some ty) ->
  exists t v, nth_error toks (idx + k) = Some t /\ conv ty t = Ok v /\ kw_get n kw = Some v.
Proof.
  induction ts as [|[n0 o0] ts IH]; intros idx toks kw ND HP k n ty Hk.
  - destruct k; discriminate.
  - cbn [keys map fst] in ND. inversion ND as [|x l Hn ND']; subst. fold (keys ts) in *.
    cbn [parse_fields] in HP. destruct o0 as [ty0|].
    + destruct (nth_error toks idx) as [t0|] eqn:T0; [|discriminate].
      apply bind_ok in HP. destruct HP as [v0 [C0 HP]].
      apply bind_ok in HP. destruct HP as [kw' [HP' E]]. inversion E; subst kw; clear E.
      destruct k as [|k].
      * cbn [nth_error] in Hk. inversion Hk; subst. exists t0, v0. rewrite Nat.add_0_r.
        split; [exact T0|]. split; [exact C0|]. cbn [kw_get]. rewrite str_eqb_refl. reflexivity.
      * cbn [nth_error] in Hk. destruct (IH (S idx) toks kw' ND' HP' k n ty Hk) as [t [v [A [B C]]]].
        exists t, v. replace (idx + S k)%nat with (S idx + k)%nat by lia.
        split; [exact A|]. split; [exact B|]. cbn [kw_get].
        assert (NE : n0 <> n).
        { intros ->. apply Hn. apply nth_error_In in Hk. unfold keys. apply in_map_iff. exists (n, Some ty). auto. }
        apply str_eqb_neq in NE. rewrite NE. exact C.
    + destruct k as [|k]; [cbn [nth_error] in Hk; discriminate|].
      cbn [nth_error] in Hk. destruct (IH (S idx) toks kw ND' HP k n ty Hk) as [t [v [A [B C]]]].
      exists t, v. replace (idx + S k)%nat with (S idx + k)%nat by lia. auto.
Qed.

Lemma build_mapM (f : str -> res val) kw : forall names vals,
  build names kw = Ok vals ->
  (forall n v, In n names -> kw_get n kw = Some v -> f n = Ok v) ->
  mapM f names = Ok vals.
Proof.
  induction names as [|n names IH]; intros vals HB HF; cbn [build mapM] in *.
  - exact HB.
  - destruct (kw_get n kw) as [v|] eqn:K; [|discriminate].
    apply bind_ok in HB. destruct HB as [l [HB E]]. inversion E; subst vals; clear E.
    rewrite (HF n v (or_introl eq_refl) K). cbn [bind].
    rewrite (IH l HB); [reflexivity|]. intros m w Hm. apply HF. right. exact Hm.
Qed.

Lemma index_of_nth k l : forall j, index_of k l = Some j -> nth_error l j = Some k.
Proof.
  induction l as [|x l IH]; intros j H; cbn [index_of] in H; [discriminate|].
  destruct (str_eqb x k) eqn:E.
  - inversion H; subst. apply str_eqb_eq in E. subst. reflexivity.
  - destruct (index_of k l) as [j'|]; [|discriminate]. inversion H; subst. cbn [nth_error]. apply IH. reflexivity.
Qed.

Lemma index_of_In k l : In k l -> exists j, index_of k l = Some j.
Proof.
  induction l as [|x l IH]; intros H; [contradiction|]. cbn [index_of].
  destruct (str_eqb x k) eqn:E; [eexists; reflexivity|].
  destruct H as [H|H]; [apply str_eqb_neq in E; contradiction|].
  destruct (IH H) as [j Hj]. rewrite Hj. eexists. reflexivity.
Qed.

Lemma index_of_notIn k l : ~ In k l -> index_of k l = None.
Proof.
  induction l as [|x l IH]; intros H; [reflexivity|]. cbn [index_of].
  destruct (str_eqb x k) eqn:E.
  - apply str_eqb_eq in E. exfalso. apply H. left. exact E.
  - rewrite IH; [reflexivity|]. intros X. apply H. right. exact X.
Qed.

(* first occurrence of a key: its position and its value *)
Lemma index_getv k d : forall j, index_of k (keys d) = Some j ->
  exists o, nth_error d j = Some (k, o) /\ getv k d = o.
Proof.
  induction d as [|[n v] d IH]; intros j H; cbn [keys map fst index_of] in H; [discriminate|].
  cbn [getv]. destruct (str_eqb n k) eqn:E.
  - inversion H; subst. apply str_eqb_eq in E. subst. exists v. auto.
  - fold (keys d) in H. destruct (index_of k (keys d)) as [j'|]; [|discriminate].
    inversion H; subst. cbn [nth_error]. apply IH. reflexivity.
Qed.

Lemma mand_some t j n o : nth_error (mand_of t) j = Some (n, o) -> exists ty, o = Some ty.
Proof.
  unfold mand_of. destruct (t =? cV); unfold mandV, mandH;
    do 5 (destruct j as [|j]; cbn [nth_error]; try discriminate; try (intros H; inversion H; eauto; fail)).
Qed.

Lemma mand_length t : length (mand_of t) = 4%nat.
Proof. unfold mand_of. destruct (t =? cV); reflexivity. Qed.

Lemma mand_nodup t : NoDup (keys (mand_of t)).
Proof. apply nodup_str_NoDup. unfold mand_of. destruct (t =? cV); vm_compute; reflexivity. Qed.

Definition fields_dict (c : cfg) (t : Z) : tdict :=
  map (fun nt : str * ftype => (fst nt, Some (snd nt))) (c_fields (cls_of c t)).

Lemma keys_fields_dict c t : keys (fields_dict c t) = map fst (c_fields (cls_of c t)).
Proof. unfold keys, fields_dict. rewrite map_map. reflexivity. Qed.

Lemma getv_fields_dict c t n : In n (keys (fields_dict c t)) -> exists ty, getv n (fields_dict c t) = Some ty.
Proof.
  unfold fields_dict. induction (c_fields (cls_of c t)) as [|[m ty] l IH]; cbn [map keys fst snd In getv]; intros H.
  - contradiction.
  - destruct (str_eqb m n) eqn:E; [eexists; reflexivity|].
    destruct H as [H|H]; [apply str_eqb_neq in E; contradiction|]. apply IH. exact H.
Qed.

(* the theorem: on a header that assigns every requested extra one column, the
   object built by from_hap_spec has exactly the attribute values the columns
   hold under their names *)
Theorem extras_bound_by_name c t cols toks vals :
  wf_columns c t cols = true ->
  from_spec c t (field_types (base_types c t) cols) toks = Ok vals ->
  expected_vals c t cols toks = Ok vals.
Proof.
  intros WF HS. unfold wf_columns in WF.
  apply andb_true_iff in WF. destruct WF as [WF W4].
  apply andb_true_iff in WF. destruct WF as [WF W3].
  apply andb_true_iff in WF. destruct WF as [W1 W2].
  apply nodup_str_NoDup in W1. apply nodup_str_NoDup in W3.
  rewrite forallb_forall in W2, W4.
  assert (Hm : forall n, In n cols -> ~ In n (keys (mand_of t))).
  { intros n Hn. apply mem_str_notIn, negb_true_iff. apply (W2 n Hn). }
  assert (Hf : forall n, In n (keys (fields_dict c t)) -> In n cols /\ ~ In n (keys (mand_of t))).
  { intros n Hn. rewrite keys_fields_dict in Hn. apply in_map_iff in Hn. destruct Hn as [[m ty] [E Hn]].
    cbn [fst] in E. subst m. specialize (W4 _ Hn). cbn [fst] in W4.
    apply andb_true_iff in W4. destruct W4 as [A B].
    split; [apply mem_str_In; exact A|apply mem_str_notIn, negb_true_iff; exact B]. }
  assert (NDf : NoDup (keys (fields_dict c t))) by (rewrite keys_fields_dict; exact W3).
  unfold from_spec in HS. apply bind_ok in HS. destruct HS as [kw [HP HB]].
  change (base_types c t) with (mand_of t ++ fields_dict c t) in HP.
  rewrite (field_types_wf (mand_of t) (fields_dict c t) cols NDf W1 Hm (fun n H => proj1 (Hf n H))) in HP.
  assert (NDts : NoDup (keys (mand_of t ++ moved (fields_dict c t) cols))).
  { unfold keys. rewrite map_app. fold (keys (mand_of t)) (keys (moved (fields_dict c t) cols)).
    rewrite keys_moved. clear -W1 Hm. pose proof (mand_nodup t) as NDm.
    induction (keys (mand_of t)) as [|x l IH]; cbn [app]; [exact W1|].
    inversion NDm as [|y l' Hx NDl]; subst. constructor.
    - intros X. apply in_app_or in X. destruct X as [X|X]; [contradiction|].
      apply (Hm x X). left. reflexivity.
    - apply IH; [|exact NDl]. intros n Hn X. apply (Hm n Hn). right. exact X. }
  unfold expected_vals. apply (build_mapM _ kw _ _ HB).
  intros n v Hn K. unfold column_value, col_of.
  change (base_types c t) with (mand_of t ++ fields_dict c t).
  unfold attr_names in Hn. change (base_types c t) with (mand_of t ++ fields_dict c t) in Hn.
  rewrite map_app in Hn. fold (keys (mand_of t)) (keys (fields_dict c t)) in Hn.
  destruct (in_dec (list_eq_dec Z.eq_dec) n (keys (mand_of t))) as [HI|HI].
  - destruct (index_of_In n _ HI) as [j Hj]. fold (keys (mand_of t)). rewrite Hj.
    destruct (index_getv n (mand_of t) j Hj) as [o [Hnth Hg]].
    destruct (mand_some t j n o Hnth) as [ty ->].
    rewrite (getv_app_l n _ _ HI), Hg.
    assert (Hts : nth_error (mand_of t ++ moved (fields_dict c t) cols) j = Some (n, Some ty)).
    { rewrite nth_error_app1; [exact Hnth|]. apply nth_error_Some. rewrite Hnth. discriminate. }
    destruct (parse_fields_at _ 0%nat toks kw NDts HP j n ty Hts) as [tk [v' [A [B C]]]].
    rewrite Nat.add_0_l in A. rewrite A, B. rewrite K in C. inversion C. reflexivity.
  - fold (keys (mand_of t)). rewrite (index_of_notIn n _ HI).
    apply in_app_or in Hn. destruct Hn as [Hn|Hn]; [contradiction|].
    destruct (Hf n Hn) as [Hc _].
    destruct (index_of_In n cols Hc) as [k Hk]. rewrite Hk. cbn [option_map].
    destruct (getv_fields_dict c t n Hn) as [ty Hty].
    rewrite (getv_app_r n _ _ HI), Hty.
    assert (Hts : nth_error (mand_of t ++ moved (fields_dict c t) cols) (4 + k) = Some (n, Some ty)).
    { rewrite nth_error_app2 by (rewrite mand_length; lia). rewrite mand_length.
      replace (4 + k - 4)%nat with k by lia. unfold moved. rewrite nth_error_map.
      rewrite (index_of_nth n cols k Hk). cbn [option_map]. rewrite Hty. reflexivity. }
    destruct (parse_fields_at _ 0%nat toks kw NDts HP (4 + k)%nat n ty Hts) as [tk [v' [A [B C]]]].
    rewrite Nat.add_0_l in A. rewrite A, B. rewrite K in C. inversion C. reflexivity.
Qed.

(* with an order line for a line type the declaration order is irrelevant:
   the types dict is computed from the order line alone *)
Lemma order_line_overrides_declarations c st st' t o :
  hs_order st = hs_order st' -> zdict_get t (hs_order st) = Some o ->
  types_for c st t = types_for c st' t.
Proof. intros E H. unfold types_for. rewrite <- E, H. reflexivity. Qed.

(* an unrequested column (a name that is no attribute of the class) is skipped
   and shifts nothing: the requested extra is still read from its own column *)
Example skipped_column_example :
  let beta := [98; 101; 116; 97] in let zz := [122; 122] in
  let c := mkcfg (mkcls [(beta, TFlt)] [mkx beta [46; 50; 102] []]) (mkcls [] []) (mkcls [] []) [48; 46; 50; 46; 48] in
  let toks := [tn 0; ti 1 10 2; ti 3 20 4; tn 5; tn 6; tf 7 8] in
  wf_columns c cH [zz; beta] = true
  /\ from_spec c cH (field_types (base_types c cH) [zz; beta]) toks
     = Ok [VStr 0; VInt 10; VInt 20; VStr 5; VFlt 8]
  /\ expected_vals c cH [zz; beta] toks = Ok [VStr 0; VInt 10; VInt 20; VStr 5; VFlt 8].
Proof. vm_compute. repeat split. Qed.
