(* C06 - lemmas and proofs, part 3: what check_header and read report
   (unsupported versions, expected-but-undeclared extra fields). *)
From HV Require Import Prelude C06_Model C06_Check C06_Proofs.

Lemma zdict_get_set_same {A} k (v : A) d : zdict_get k (zdict_set k v d) = Some v.
Proof.
  induction d as [|[k' v'] d IH]; cbn [zdict_set zdict_get].
  - rewrite Z.eqb_refl. reflexivity.
  - destruct (k' =? k) eqn:E; cbn [zdict_get]; rewrite ?Z.eqb_refl, ?E; [reflexivity|exact IH].
Qed.

Lemma zdict_get_set_other {A} k k2 (v : A) d : k <> k2 -> zdict_get k2 (zdict_set k v d) = zdict_get k2 d.
Proof.
  intros NE. induction d as [|[k' v'] d IH]; cbn [zdict_set zdict_get].
  - apply Z.eqb_neq in NE. rewrite NE. reflexivity.
  - destruct (k' =? k) eqn:E; cbn [zdict_get].
    + apply Z.eqb_eq in E. subst k'. apply Z.eqb_neq in NE. rewrite NE. reflexivity.
    + destruct (k' =? k2); [reflexivity|exact IH].
Qed.

Definition ext (st : hstate) (t : Z) : list str :=
  match zdict_get t (hs_extras st) with Some l => l | None => [] end.

Lemma decl_names_cons s r t : decl_names (s :: r) t = decl_names [s] t ++ decl_names r t.
Proof. unfold decl_names. cbn [flat_map]. rewrite app_nil_r. reflexivity. Qed.

Lemma version_values_cons s r : version_values (s :: r) = version_values [s] ++ version_values r.
Proof. unfold version_values. cbn [flat_map]. rewrite app_nil_r. reflexivity. Qed.

(* ---- one header line -------------------------------------------------------------- *)

Lemma meta_step_extras cv softly cur st s st' :
  meta_step cv softly cur st s = Ok st' -> hs_extras st' = hs_extras st.
Proof.
  unfold meta_step. destruct (split_on cTAB (skipn 2 s)) as [|name vals]; [intros H; inversion H; reflexivity|].
  destruct (cv && str_eqb name s_version).
  - destruct vals as [|v vals]; [discriminate|].
    destruct (if str_eqb v cur then Ok [] else check_version softly cur v) as [evs|k]; cbn [bind]; [|discriminate].
    intros H; inversion H; reflexivity.
  - destruct (order_letter name); intros H; inversion H; reflexivity.
Qed.

Lemma hdr_step_extras cv softly cur st s st' t :
  hdr_step false cv softly cur st s = Ok st' ->
  ext st' t = ext st t ++ decl_names [s] t.
Proof.
  unfold hdr_step, classify_mode. cbn [andb bind]. unfold decl_names. cbn [flat_map]. rewrite app_nil_r.
  destruct (classify s) as [t0| |] eqn:C.
  - intros H. inversion H; subst st'; clear H. unfold decl_step.
    destruct (split_on cTAB (skipn 3 s)) as [|name [|f [|d rest]]];
      try (destruct (t0 =? t); rewrite app_nil_r; reflexivity).
    unfold ext at 1. cbn [hs_extras].
    destruct (t0 =? t) eqn:E.
    + apply Z.eqb_eq in E. subst t0. rewrite zdict_get_set_same. reflexivity.
    + apply Z.eqb_neq in E. rewrite (zdict_get_set_other t0 t _ _ E). rewrite app_nil_r. reflexivity.
  - intros H. unfold ext. rewrite (meta_step_extras _ _ _ _ _ _ H). rewrite app_nil_r. reflexivity.
  - intros H. inversion H. rewrite app_nil_r. reflexivity.
Qed.

Lemma unsupported_irrefl e : unsupported e e = false.
Proof. destruct e as [[a b] c]. unfold unsupported. rewrite Z.eqb_refl, Z.ltb_irrefl. reflexivity. Qed.

Lemma hdr_step_logs cv softly cur st s st' :
  hdr_step false cv softly cur st s = Ok st' ->
  exists evs, hs_logs st' = hs_logs st ++ evs /\
    (cv = true -> forall v o e, In v (version_values [s]) ->
       parse3 v = Some o -> parse3 cur = Some e -> unsupported o e = true ->
       softly = true /\ In (EvUnsupported v) evs).
Proof.
  unfold hdr_step, classify_mode. cbn [andb bind]. unfold version_values. cbn [flat_map]. rewrite app_nil_r.
  destruct (classify s) as [t0| |] eqn:C.
  - intros H. inversion H; subst st'; clear H. exists []. split.
    + unfold decl_step. destruct (split_on cTAB (skipn 3 s)) as [|name [|f [|d rest]]]; cbn [hs_logs];
        rewrite app_nil_r; reflexivity.
    + intros _ v o e [].
  - unfold meta_step. destruct (split_on cTAB (skipn 2 s)) as [|name vals].
    { intros H. inversion H. exists []. rewrite app_nil_r. split; [reflexivity|]. intros _ v o e []. }
    destruct (str_eqb name s_version) eqn:EN.
    + destruct cv; cbn [andb].
      * destruct vals as [|v vals]; [discriminate|].
        destruct (str_eqb v cur) eqn:EV; cbn [bind].
        -- intros H. inversion H; subst st'; clear H. cbn [hs_logs]. exists []. split; [reflexivity|].
           intros _ v' o e [<-|[]] Po Pe U. apply str_eqb_eq in EV. subst v.
           rewrite Po in Pe. inversion Pe; subst. rewrite unsupported_irrefl in U. discriminate.
        -- destruct (check_version softly cur v) as [evs|k] eqn:CV; cbn [bind]; [|discriminate].
           intros H. inversion H; subst st'; clear H. cbn [hs_logs]. exists evs. split; [reflexivity|].
           intros _ v' o e [<-|[]] Po Pe U. unfold check_version in CV. rewrite Po, Pe, U in CV.
           destruct softly; [|discriminate]. inversion CV. split; [reflexivity|left; reflexivity].
      * destruct (order_letter name); intros H; inversion H; cbn [hs_logs]; exists [];
          rewrite app_nil_r; (split; [reflexivity|discriminate]).
    + rewrite andb_false_r.
      destruct (order_letter name); intros H; inversion H; cbn [hs_logs]; exists [];
        rewrite app_nil_r; (split; [reflexivity|]);
        intros _ v o e; destruct vals; intros [].
  - intros H. inversion H. exists []. rewrite app_nil_r. split; [reflexivity|]. intros _ v o e [].
Qed.

(* ---- the whole header --------------------------------------------------------------- *)

Lemma hdr_fold_spec cv softly cur : forall hs st st',
  hdr_fold false cv softly cur st hs = Ok st' ->
  (forall t, ext st' t = ext st t ++ decl_names hs t)
  /\ exists evs, hs_logs st' = hs_logs st ++ evs /\
       (cv = true -> forall v o e, In v (version_values hs) ->
          parse3 v = Some o -> parse3 cur = Some e -> unsupported o e = true ->
          softly = true /\ In (EvUnsupported v) evs).
Proof.
  induction hs as [|s hs IH]; intros st st' H; cbn [hdr_fold] in H.
  - inversion H; subst. split.
    + intros t. unfold decl_names. cbn [flat_map]. rewrite app_nil_r. reflexivity.
    + exists []. rewrite app_nil_r. split; [reflexivity|]. intros _ v o e [].
  - apply bind_ok in H. destruct H as [st1 [H1 H2]].
    destruct (IH st1 st' H2) as [E2 [evs2 [L2 V2]]].
    destruct (hdr_step_logs cv softly cur st s st1 H1) as [evs1 [L1 V1]].
    split.
    + intros t. rewrite (E2 t), (hdr_step_extras cv softly cur st s st1 t H1), (decl_names_cons s hs t).
      rewrite <- app_assoc. reflexivity.
    + exists (evs1 ++ evs2). split; [rewrite L2, L1, app_assoc; reflexivity|].
      intros Hcv v o e Hv Po Pe U. rewrite (version_values_cons s hs) in Hv. apply in_app_or in Hv.
      destruct Hv as [Hv|Hv].
      * destruct (V1 Hcv v o e Hv Po Pe U) as [A B]. split; [exact A|]. apply in_or_app. left. exact B.
      * destruct (V2 Hcv v o e Hv Po Pe U) as [A B]. split; [exact A|]. apply in_or_app. right. exact B.
Qed.

Lemma missing_of_spec c st hs :
  (forall t, ext st t = decl_names hs t) -> missing_of c (hs_extras st) = missing_spec c hs.
Proof.
  intros H. unfold missing_of, missing_spec, type_letters. cbn [flat_map].
  pose proof (H cH) as EH. pose proof (H cV) as EV. pose proof (H cR) as ER. unfold ext in EH, EV, ER.
  rewrite EH, EV, ER. reflexivity.
Qed.

(* files of an unsupported major or newer minor version are reported *)
Theorem header_version_reported c cv softly hs st v o e :
  check_header false c cv softly hs = Ok st -> cv = true ->
  In v (version_values hs) ->
  parse3 v = Some o -> parse3 (cfg_version c) = Some e -> unsupported o e = true ->
  softly = true /\ In (EvUnsupported v) (hs_logs st).
Proof.
  intros H Hcv Hv Po Pe U. unfold check_header in H. apply bind_ok in H. destruct H as [st1 [H1 H2]].
  destruct (hdr_fold_spec cv softly _ hs hs_init st1 H1) as [_ [evs [L V]]].
  destruct (V Hcv v o e Hv Po Pe U) as [A B]. split; [exact A|].
  cbn [hs_logs hs_init app] in L. rewrite <- L in B. clear L V.
  destruct (missing_of c (hs_extras st1)) as [|m ms].
  - inversion H2; subst. exact B.
  - destruct softly; [|discriminate]. inversion H2; subst. cbn [hs_logs].
    apply in_or_app. left. exact B.
Qed.

(* in raising mode such a header is never accepted *)
Corollary header_version_raises c hs v o e :
  In v (version_values hs) ->
  parse3 v = Some o -> parse3 (cfg_version c) = Some e -> unsupported o e = true ->
  is_err (check_header false c true false hs) = true.
Proof.
  intros Hv Po Pe U. destruct (check_header false c true false hs) as [st|k] eqn:H; [|reflexivity].
  destruct (header_version_reported c true false hs st v o e H eq_refl Hv Po Pe U) as [A _]. discriminate.
Qed.

(* expected-but-undeclared extra fields are reported, all of them *)
Theorem undeclared_required_reported c cv softly hs st :
  check_header false c cv softly hs = Ok st ->
  missing_spec c hs = []
  \/ (softly = true /\ In (EvMissing (missing_spec c hs)) (hs_logs st)).
Proof.
  intros H. unfold check_header in H. apply bind_ok in H. destruct H as [st1 [H1 H2]].
  destruct (hdr_fold_spec cv softly _ hs hs_init st1 H1) as [E _].
  assert (E' : forall t, ext st1 t = decl_names hs t).
  { intros t. rewrite (E t).
    assert (ext hs_init t = []) as ->; [|reflexivity].
    unfold ext, hs_init. cbn [hs_extras zdict_get].
    destruct (cH =? t); [reflexivity|]. destruct (cV =? t); [reflexivity|]. destruct (cR =? t); reflexivity. }
  rewrite (missing_of_spec c st1 hs E') in H2.
  destruct (missing_spec c hs) as [|m ms]; [left; reflexivity|right].
  destruct softly; [|discriminate]. inversion H2; subst. cbn [hs_logs].
  split; [reflexivity|]. apply in_or_app. right. left. reflexivity.
Qed.

Corollary undeclared_required_raises c cv hs :
  missing_spec c hs <> [] -> is_err (check_header false c cv false hs) = true.
Proof.
  intros M. destruct (check_header false c cv false hs) as [st|k] eqn:H; [|reflexivity].
  destruct (undeclared_required_reported c cv false hs st H) as [A|[A _]]; [contradiction|discriminate].
Qed.

(* ---- read reports what the header check reports ---------------------------------------- *)

Lemma rec_step_logs c sel tH tV tR st k toks st' :
  rec_step c sel tH tV tR st k toks = Ok st' -> exists evs, rs_logs st' = rs_logs st ++ evs.
Proof.
  unfold rec_step. destruct ((k =? cH) || (k =? cR)).
  - intros H. apply bind_ok in H. destruct H as [vals [_ H]].
    destruct (id_of vals) as [i|]; [|discriminate].
    destruct (selected sel i); inversion H; cbn [rs_logs]; exists []; rewrite app_nil_r; reflexivity.
  - destruct (k =? cV).
    + destruct toks as [|hap rest]; [discriminate|]. intros H. apply bind_ok in H. destruct H as [vals [_ H]].
      destruct (selected sel (t_id hap)); inversion H; cbn [rs_logs]; exists []; rewrite app_nil_r; reflexivity.
    + intros H. inversion H. cbn [rs_logs]. eexists. reflexivity.
Qed.

Lemma body_logs c sel tH tV tR : forall ls st st',
  body c sel tH tV tR st ls = Ok st' -> exists evs, rs_logs st' = rs_logs st ++ evs.
Proof.
  induction ls as [|l ls IH]; intros st st' H; cbn [body] in H.
  - inversion H. exists []. rewrite app_nil_r. reflexivity.
  - destruct l as [x|k sep toks|]; [apply IH; exact H| |discriminate].
    apply bind_ok in H. destruct H as [st1 [H1 H2]].
    destruct (rec_step_logs _ _ _ _ _ _ _ _ _ H1) as [e1 L1]. destruct (IH _ _ H2) as [e2 L2].
    exists (e1 ++ e2). rewrite L2, L1, app_assoc. reflexivity.
Qed.

Lemma start_body_logs c sel hdr ls st :
  start_body false c sel hdr ls = Ok st ->
  exists hs evs, check_header false c true true hdr = Ok hs /\ rs_logs st = hs_logs hs ++ evs.
Proof.
  unfold start_body. intros H. apply bind_ok in H. destruct H as [hs [H1 H2]].
  destruct (body_logs _ _ _ _ _ _ _ _ H2) as [evs L]. cbn [rs_logs] in L. exists hs, evs. auto.
Qed.

Lemma read_lines_logs c sel : forall ls hdr st,
  read_lines false true c sel hdr ls = Ok st ->
  exists hs evs, check_header false c true true (hdr ++ header_of ls) = Ok hs /\ rs_logs st = hs_logs hs ++ evs.
Proof.
  induction ls as [|l ls IH]; intros hdr st H; cbn [read_lines] in H.
  - cbn [header_of]. rewrite app_nil_r. apply (start_body_logs _ _ _ _ _ H).
  - destruct l as [x|k sep toks|]; cbn [header_of].
    + destruct (IH _ _ H) as [hs [evs [A B]]]. rewrite <- app_assoc in A. exists hs, evs. auto.
    + rewrite app_nil_r. apply (start_body_logs _ _ _ _ _ H).
    + discriminate.
Qed.

Theorem read_reports c sel ls d logs :
  read c sel ls = Ok (d, logs) ->
  (forall v o e, In v (version_values (header_of ls)) ->
     parse3 v = Some o -> parse3 (cfg_version c) = Some e -> unsupported o e = true ->
     In (EvUnsupported v) logs)
  /\ (missing_spec c (header_of ls) = [] \/ In (EvMissing (missing_spec c (header_of ls))) logs).
Proof.
  unfold read, read_mode. intros H. apply bind_ok in H. destruct H as [st [H1 H2]].
  apply bind_ok in H2. destruct H2 as [d' [_ E]]. inversion E; subst d' logs; clear E.
  destruct (read_lines_logs c sel ls [] st H1) as [hs [evs [A B]]]. cbn [app] in A.
  split.
  - intros v o e Hv Po Pe U.
    destruct (header_version_reported c true true _ hs v o e A eq_refl Hv Po Pe U) as [_ I].
    rewrite B. apply in_or_app. left. exact I.
  - destruct (undeclared_required_reported c true true _ hs A) as [M|[_ I]]; [left; exact M|right].
    rewrite B. apply in_or_app. left. exact I.
Qed.

(* ---- what the boolean checkers mean ------------------------------------------------------ *)

Lemma ev_unsup_in_spec v logs : ev_unsup_in v logs = true <-> In (EvUnsupported v) logs.
Proof.
  unfold ev_unsup_in. rewrite existsb_exists. split.
  - intros [e [I H]]. destruct e; try discriminate. apply str_eqb_eq in H. subst. exact I.
  - intros I. exists (EvUnsupported v). split; [exact I|apply str_eqb_refl].
Qed.

Lemma holds_version_soft_sound cur vals logs :
  holds_version_soft cur vals logs = true ->
  forall v o e, In v vals -> parse3 v = Some o -> parse3 cur = Some e -> unsupported o e = true ->
  In (EvUnsupported v) logs.
Proof.
  unfold holds_version_soft. intros H v o e Hv Po Pe U. rewrite Pe in H.
  rewrite forallb_forall in H. specialize (H v Hv). rewrite Po, U in H. cbn [negb orb] in H.
  apply ev_unsup_in_spec. exact H.
Qed.

(* the model passes the checker: on every successful read the version clause
   of [holds_read] is true of the model's own output *)
Lemma holds_version_soft_complete cur vals logs :
  (forall v o e, In v vals -> parse3 v = Some o -> parse3 cur = Some e -> unsupported o e = true ->
     In (EvUnsupported v) logs) ->
  holds_version_soft cur vals logs = true.
Proof.
  intros H. unfold holds_version_soft. destruct (parse3 cur) as [e|] eqn:Pe; [|reflexivity].
  apply forallb_forall. intros v Hv. destruct (parse3 v) as [o|] eqn:Po; [|reflexivity].
  destruct (unsupported o e) eqn:U; [|reflexivity]. cbn [negb orb].
  apply ev_unsup_in_spec. apply (H v o e Hv Po eq_refl U).
Qed.

Lemma subset_zs_spec a b : subset_zs a b = true <-> (forall x, In x a -> In x b).
Proof.
  unfold subset_zs. rewrite forallb_forall. split; intros H x Hx.
  - specialize (H x Hx). apply existsb_exists in H. destruct H as [y [Hy E]].
    unfold zs_eqb in E. apply andb_true_iff in E. destruct E as [E1 E2].
    apply Z.eqb_eq in E1. apply str_eqb_eq in E2. destruct x, y. cbn in *. subst. exact Hy.
  - apply existsb_exists. exists x. split; [apply H; exact Hx|].
    unfold zs_eqb. rewrite Z.eqb_refl, str_eqb_refl. reflexivity.
Qed.

Lemma holds_missing_soft_sound c hs logs :
  holds_missing_soft c hs logs = true ->
  missing_spec c hs = [] \/
  exists m', In (EvMissing m') logs /\ forall x, In x (missing_spec c hs) -> In x m'.
Proof.
  unfold holds_missing_soft. destruct (missing_spec c hs) as [|m ms]; [left; reflexivity|].
  intros H. right. apply existsb_exists in H. destruct H as [e [I H]].
  destruct e; try discriminate. exists names. split; [exact I|]. apply subset_zs_spec. exact H.
Qed.

(* the report of undeclared extras depends on the declaration lines only through
   the set of names they declare (so not on their order or repetition) *)
Lemma mem_str_iff k l l' : (In k l <-> In k l') -> mem_str k l = mem_str k l'.
Proof.
  intros H. destruct (mem_str k l) eqn:A, (mem_str k l') eqn:B; try reflexivity.
  - assert (In k l) as I.
    { clear -A. induction l as [|x l IH]; cbn [mem_str] in A; [discriminate|].
      apply orb_true_iff in A. destruct A as [A|A]; [left; apply str_eqb_eq; exact A|right; apply IH; exact A]. }
    apply H in I. exfalso. clear -B I.
    induction l' as [|x l IH]; [contradiction|]. cbn [mem_str] in B. apply orb_false_iff in B. destruct B as [B1 B2].
    destruct I as [I|I]; [subst; rewrite str_eqb_refl in B1; discriminate|apply IH; assumption].
  - assert (In k l') as I.
    { clear -B. induction l' as [|x l IH]; cbn [mem_str] in B; [discriminate|].
      apply orb_true_iff in B. destruct B as [B|B]; [left; apply str_eqb_eq; exact B|right; apply IH; exact B]. }
    apply H in I. exfalso. clear -A I.
    induction l as [|x l IH]; [contradiction|]. cbn [mem_str] in A. apply orb_false_iff in A. destruct A as [A1 A2].
    destruct I as [I|I]; [subst; rewrite str_eqb_refl in A1; discriminate|apply IH; assumption].
Qed.

Theorem missing_depends_on_declared_set c hs hs' :
  (forall t n, In n (decl_names hs t) <-> In n (decl_names hs' t)) ->
  missing_spec c hs = missing_spec c hs'.
Proof.
  intros H. unfold missing_spec, type_letters. cbn [flat_map].
  assert (E : forall t, filter (fun n => negb (mem_str n (decl_names hs t))) (dedup_str (extras_order (cls_of c t)))
                      = filter (fun n => negb (mem_str n (decl_names hs' t))) (dedup_str (extras_order (cls_of c t)))).
  { intros t. apply filter_ext. intros n. rewrite (mem_str_iff n _ _ (H t n)). reflexivity. }
  rewrite (E cH), (E cV), (E cR). reflexivity.
Qed.
