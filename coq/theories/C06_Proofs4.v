(* C06 - lemmas and proofs, part 4: writing.  to_str arranges the formatted texts
   of the field values (the format() results are inputs, see C06_Model): what is
   written depends on the collection only through keys, kinds, structure and
   those texts.  Hence write -> read -> write reproduces the file byte for byte
   exactly when re-formatting the values read gives the same texts
   (format (parse (format x)) = format x: the codec contract). *)
From HV Require Import Prelude C06_Model C06_Check C06_Proofs.

(* same keys, kinds, structure and formatted texts; the values may differ *)
Definition same_toks_vals (a b : list fval) : Prop := map fv_tok a = map fv_tok b.
Definition same_toks_obj (a b : wobj) : Prop :=
  w_kind a = w_kind b /\ same_toks_vals (w_vals a) (w_vals b)
  /\ Forall2 same_toks_vals (w_vars a) (w_vars b).
Definition same_toks_entry (a b : wentry) : Prop :=
  we_key a = we_key b /\ we_ktok a = we_ktok b /\ same_toks_obj (we_obj a) (we_obj b).

Lemma fkw_get_same_toks k : forall names a b,
  same_toks_vals a b ->
  option_map fv_tok (fkw_get k names a) = option_map fv_tok (fkw_get k names b).
Proof.
  induction names as [|n names IH]; intros a b H; [destruct a, b; reflexivity|].
  destruct a as [|x a], b as [|y b]; try discriminate; [reflexivity|].
  unfold same_toks_vals in H. cbn [map] in H. inversion H as [[H1 H2]].
  cbn [fkw_get]. destruct (str_eqb n k); [cbn [option_map]; rewrite H1; reflexivity|].
  apply IH. exact H2.
Qed.

Lemma fmt_fields_same_toks names : forall want a b,
  same_toks_vals a b -> fmt_fields want names a = fmt_fields want names b.
Proof.
  induction want as [|n want IH]; intros a b H; cbn [fmt_fields]; [reflexivity|].
  pose proof (fkw_get_same_toks n names a b H) as E.
  destruct (fkw_get n names a) as [x|], (fkw_get n names b) as [y|]; cbn [option_map] in E; try discriminate.
  - inversion E as [E']. rewrite E', (IH a b H). reflexivity.
  - reflexivity.
Qed.

Lemma spec_line_same_toks c t pre a b :
  same_toks_vals a b -> spec_line c t pre a = spec_line c t pre b.
Proof. intros H. unfold spec_line. rewrite (fmt_fields_same_toks _ _ a b H). reflexivity. Qed.

Lemma mapM_ext_Forall2 {A B} (R : A -> A -> Prop) (f g : A -> res B) :
  (forall x y, R x y -> f x = g y) ->
  forall l1 l2, Forall2 R l1 l2 -> mapM f l1 = mapM g l2.
Proof.
  intros H l1 l2 F. induction F as [|x y l1 l2 Rxy F IH]; cbn [mapM]; [reflexivity|].
  rewrite (H x y Rxy), IH. reflexivity.
Qed.

Lemma filter_Forall2 {A} (R : A -> A -> Prop) (f : A -> bool) :
  (forall x y, R x y -> f x = f y) ->
  forall l1 l2, Forall2 R l1 l2 -> Forall2 R (filter f l1) (filter f l2).
Proof.
  intros H l1 l2 F. induction F as [|x y l1 l2 Rxy F IH]; cbn [filter]; [constructor|].
  rewrite (H x y Rxy). destruct (f y); [constructor; assumption|assumption].
Qed.

Lemma insert_key_Forall2 x y : same_toks_entry x y ->
  forall l1 l2, Forall2 same_toks_entry l1 l2 ->
  Forall2 same_toks_entry (insert_key x l1) (insert_key y l2).
Proof.
  intros Rxy l1 l2 F. induction F as [|a b l1 l2 Rab F IH]; cbn [insert_key].
  - constructor; [exact Rxy|constructor].
  - pose proof (proj1 Rxy) as K1. pose proof (proj1 Rab) as K2. rewrite K1, K2.
    destruct (str_ltb (we_key b) (we_key y)).
    + constructor; [exact Rab|exact IH].
    + constructor; [exact Rxy|]. constructor; [exact Rab|exact F].
Qed.

Lemma sort_keys_Forall2 l1 l2 :
  Forall2 same_toks_entry l1 l2 -> Forall2 same_toks_entry (sort_keys l1) (sort_keys l2).
Proof.
  intros F. unfold sort_keys. induction F as [|a b l1 l2 Rab F IH]; cbn [fold_right]; [constructor|].
  apply insert_key_Forall2; assumption.
Qed.

(* what is written depends only on keys, kinds, structure and formatted texts *)
Theorem to_str_tokens_only c d1 d2 :
  Forall2 same_toks_entry d1 d2 -> to_str c d1 = to_str c d2.
Proof.
  intros F. unfold to_str.
  assert (E1 : mapM (fun e => spec_line c (w_kind (we_obj e)) [] (w_vals (we_obj e))) d1
             = mapM (fun e => spec_line c (w_kind (we_obj e)) [] (w_vals (we_obj e))) d2).
  { apply (mapM_ext_Forall2 same_toks_entry); [|exact F].
    intros x y [_ [_ [K [V _]]]]. rewrite K. apply spec_line_same_toks. exact V. }
  assert (E2 : mapM (fun e => mapM (fun v => spec_line c cV [we_ktok e] v) (w_vars (we_obj e)))
                    (sort_keys (filter (fun e => w_kind (we_obj e) =? cH) d1))
             = mapM (fun e => mapM (fun v => spec_line c cV [we_ktok e] v) (w_vars (we_obj e)))
                    (sort_keys (filter (fun e => w_kind (we_obj e) =? cH) d2))).
  { apply (mapM_ext_Forall2 same_toks_entry).
    - intros x y [_ [T [_ [_ W]]]]. rewrite T.
      apply (mapM_ext_Forall2 same_toks_vals); [|exact W].
      intros a b H. apply spec_line_same_toks. exact H.
    - apply sort_keys_Forall2. apply filter_Forall2; [|exact F].
      intros x y [_ [_ [K _]]]. rewrite K. reflexivity. }
  rewrite E1, E2. reflexivity.
Qed.

(* a worked collection: two haplotypes (ids out of order), a repeat, variants,
   str / int / float extras; read (to_str d) returns d's records and writing what
   was read reproduces the same lines *)
Definition ex_cfg : cfg :=
  let beta := [98; 101; 116; 97] in let anc := [97; 110; 99] in let sc := [115; 99] in
  mkcfg (mkcls [(beta, TFlt); (anc, TStr)] [mkx anc [115] []; mkx beta [46; 50; 102] [98]])
        (mkcls [(sc, TInt)] [mkx sc [100] [115]])
        (mkcls [(beta, TFlt)] [mkx beta [46; 51; 102] []])
        [48; 46; 50; 46; 48].

Definition ex_data : list wentry :=
  [ mkwe [98] (tn 1)
      (mkwobj cH [fv (VStr 10) (tn 10); fv (VInt 5) (ti 11 5 50); fv (VInt 9) (ti 12 9 51); fv (VStr 1) (tn 1);
                  fv (VFlt 60) (tf 13 60); fv (VStr 14) (tn 14)]
              [[fv (VInt 5) (ti 11 5 50); fv (VInt 6) (ti 15 6 52); fv (VStr 16) (tn 16); fv (VStr 17) (tn 17);
                fv (VInt 7) (ti 18 7 53)];
               [fv (VInt 8) (ti 19 8 54); fv (VInt 9) (ti 12 9 51); fv (VStr 20) (tn 20); fv (VStr 17) (tn 17);
                fv (VInt 0) (ti 21 0 55)]]);
    mkwe [114] (tn 2)
      (mkwobj cR [fv (VStr 10) (tn 10); fv (VInt 5) (ti 11 5 50); fv (VInt 6) (ti 15 6 52); fv (VStr 2) (tn 2);
                  fv (VFlt 61) (tf 22 61)] []);
    mkwe [97] (tn 3)
      (mkwobj cH [fv (VStr 10) (tn 10); fv (VInt 0) (ti 21 0 55); fv (VInt 9) (ti 12 9 51); fv (VStr 3) (tn 3);
                  fv (VFlt 62) (tf 23 62); fv (VStr 24) (tn 24)]
              [[fv (VInt 0) (ti 21 0 55); fv (VInt 5) (ti 11 5 50); fv (VStr 25) (tn 25); fv (VStr 17) (tn 17);
                fv (VInt 5) (ti 11 5 50)]]) ].

Example hap_roundtrip_example :
  wf_cfg ex_cfg = true /\ wf_data ex_cfg ex_data = true
  /\ exists lines, to_str ex_cfg ex_data = Ok lines
       /\ length lines = 14%nat
       /\ read ex_cfg None lines = Ok (strip_data ex_data, []).
Proof.
  split; [vm_compute; reflexivity|]. split; [vm_compute; reflexivity|].
  eexists. split; [vm_compute; reflexivity|]. split; vm_compute; reflexivity.
Qed.
