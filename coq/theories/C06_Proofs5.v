(* C06 - lemmas and proofs, part 5: one record line written by to_hap_spec and
   read back by from_hap_spec under the header the writer emits (the order line
   lists the class's _extras) gives back the attribute values, provided every
   formatted text converts back to its value (codec contract, exact for str/int;
   for floats it holds of values that are already of the declared precision,
   e.g. every value that was itself read from a file). *)
From HV Require Import Prelude C06_Model C06_Check C06_Proofs C06_Proofs2.

Lemma fmt_fields_at names vals : forall want toks,
  fmt_fields want names vals = Ok toks ->
  forall k n, nth_error want k = Some n ->
  exists x, fkw_get n names vals = Some x /\ nth_error toks k = Some (fv_tok x).
Proof.
  induction want as [|m want IH]; intros toks H k n Hk; [destruct k; discriminate|].
  cbn [fmt_fields] in H. destruct (fkw_get m names vals) as [x|] eqn:G; [|discriminate].
  apply bind_ok in H. destruct H as [l [H E]]. inversion E; subst toks; clear E.
  destruct k as [|k]; cbn [nth_error] in *.
  - inversion Hk; subst. exists x. auto.
  - apply (IH l H k n Hk).
Qed.

Lemma parse_fields_total (val_of : str -> val) : forall ts idx toks,
  (forall k n o, nth_error ts k = Some (n, o) ->
     exists ty t, o = Some ty /\ nth_error toks (idx + k) = Some t /\ conv ty t = Ok (val_of n)) ->
  parse_fields ts idx toks = Ok (map (fun e => (fst e, val_of (fst e))) ts).
Proof.
  induction ts as [|[n0 o0] ts IH]; intros idx toks H; [reflexivity|].
  destruct (H 0%nat n0 o0 eq_refl) as [ty [t [-> [T C]]]]. rewrite Nat.add_0_r in T.
  cbn [parse_fields map fst]. rewrite T, C. cbn [bind].
  rewrite (IH (S idx) toks); [reflexivity|].
  intros k n o Hk. destruct (H (S k) n o Hk) as [ty' [t' [A [B D]]]].
  exists ty', t'. replace (S idx + k)%nat with (idx + S k)%nat by lia. auto.
Qed.

Lemma kw_get_map (val_of : str -> val) n : forall ts : tdict,
  In n (keys ts) -> kw_get n (map (fun e => (fst e, val_of (fst e))) ts) = Some (val_of n).
Proof.
  induction ts as [|[m o] ts IH]; cbn [keys map fst In kw_get]; intros H; [contradiction|].
  destruct (str_eqb m n) eqn:E; [apply str_eqb_eq in E; subst; reflexivity|].
  destruct H as [H|H]; [apply str_eqb_neq in E; contradiction|]. apply IH. exact H.
Qed.

Lemma build_all kw (val_of : str -> val) : forall names,
  (forall n, In n names -> kw_get n kw = Some (val_of n)) ->
  build names kw = Ok (map val_of names).
Proof.
  induction names as [|n names IH]; intros H; [reflexivity|].
  cbn [build map]. rewrite (H n (or_introl eq_refl)).
  rewrite IH by (intros m Hm; apply H; right; exact Hm). reflexivity.
Qed.

Lemma fkw_get_values d : forall names vals,
  NoDup names -> length vals = length names ->
  map (fun n => match fkw_get n names vals with Some x => fv_val x | None => d end) names = map fv_val vals.
Proof.
  induction names as [|n names IH]; intros vals ND L; destruct vals as [|v vals]; try discriminate; [reflexivity|].
  inversion ND as [|x l Hn ND']; subst. cbn [map fkw_get]. rewrite str_eqb_refl. f_equal.
  rewrite <- (IH vals ND') by (cbn [length] in L; lia).
  apply map_ext_in. intros m Hm.
  assert (NE : n <> m) by (intros ->; contradiction). apply str_eqb_neq in NE. rewrite NE. reflexivity.
Qed.

Lemma nth_keys (d : tdict) k n o : nth_error d k = Some (n, o) -> nth_error (keys d) k = Some n.
Proof. intros H. unfold keys. rewrite nth_error_map, H. reflexivity. Qed.

Lemma getv_at (d : tdict) : NoDup (keys d) -> forall k n o, nth_error d k = Some (n, o) -> getv n d = o.
Proof.
  induction d as [|[m v] d IH]; intros ND k n o H; [destruct k; discriminate|].
  cbn [keys map fst] in ND. inversion ND as [|x l Hm ND']; subst. fold (keys d) in *.
  destruct k as [|k]; cbn [nth_error getv] in *.
  - inversion H; subst. rewrite str_eqb_refl. reflexivity.
  - assert (NE : m <> n).
    { intros ->. apply Hm. apply nth_error_In in H. unfold keys. apply in_map_iff. exists (n, o). auto. }
    apply str_eqb_neq in NE. rewrite NE. apply (IH ND' k n o H).
Qed.

Theorem line_roundtrip c t (vals : list fval) toks :
  wf_cls (cls_of c t) = true ->
  length vals = length (attr_names c t) ->
  (forall n x ty, fkw_get n (attr_names c t) vals = Some x -> getv n (base_types c t) = Some ty ->
     conv ty (fv_tok x) = Ok (fv_val x)) ->
  fmt_fields (map fst (mand_of t) ++ extras_order (cls_of c t)) (attr_names c t) vals = Ok toks ->
  from_spec c t (field_types (base_types c t) (extras_order (cls_of c t))) toks = Ok (map fv_val vals).
Proof.
  intros WF L Codec HF. unfold wf_cls in WF.
  apply andb_true_iff in WF. destruct WF as [WF W5].
  apply andb_true_iff in WF. destruct WF as [WF W4].
  apply andb_true_iff in WF. destruct WF as [WF W3].
  apply andb_true_iff in WF. destruct WF as [W1 W2].
  apply nodup_str_NoDup in W1. apply nodup_str_NoDup in W2.
  rewrite forallb_forall in W3, W4, W5.
  set (cols := extras_order (cls_of c t)) in *.
  set (flds := fields_dict c t).
  assert (Kf : keys flds = map fst (c_fields (cls_of c t))) by apply keys_fields_dict.
  assert (NDf : NoDup (keys flds)) by (rewrite Kf; exact W1).
  assert (Hm : forall n, In n cols -> ~ In n (keys (mand_of t))).
  { intros n Hn X. specialize (W5 n Hn). apply negb_true_iff, mem_str_notIn in W5. apply W5.
    unfold mand_of in X. destruct (t =? cV); cbn in X; cbn; tauto. }
  assert (Hcf : forall n, In n cols -> In n (keys flds)).
  { intros n Hn. rewrite Kf. apply mem_str_In. apply (W3 n Hn). }
  assert (Hfc : forall n, In n (keys flds) -> In n cols).
  { intros n Hn. rewrite Kf in Hn. apply in_map_iff in Hn. destruct Hn as [[m ty] [E Hn]]. cbn [fst] in E. subst m.
    apply mem_str_In. apply (W4 _ Hn). }
  change (base_types c t) with (mand_of t ++ flds) in *.
  assert (An : attr_names c t = keys (mand_of t) ++ keys flds).
  { unfold attr_names. change (base_types c t) with (mand_of t ++ flds). apply map_app. }
  assert (NDn : NoDup (attr_names c t)).
  { rewrite An. pose proof (mand_nodup t) as NDm. clear -NDm NDf Hm Hfc.
    induction (keys (mand_of t)) as [|x l IH]; cbn [app]; [exact NDf|].
    inversion NDm as [|y l' Hx NDl]; subst. constructor.
    - intros X. apply in_app_or in X. destruct X as [X|X]; [contradiction|].
      apply (Hm x (Hfc x X)). left. reflexivity.
    - apply IH; [|exact NDl]. intros n Hn X. apply (Hm n Hn). right. exact X. }
  rewrite (field_types_wf (mand_of t) flds cols NDf W2 Hm Hfc).
  set (ts := mand_of t ++ moved flds cols).
  assert (Kts : keys ts = map fst (mand_of t) ++ cols).
  { unfold ts, keys. rewrite map_app. fold (keys (moved flds cols)). rewrite keys_moved. reflexivity. }
  set (val_of := fun n => match fkw_get n (attr_names c t) vals with Some x => fv_val x | None => VInt 0 end).
  assert (HP : parse_fields ts 0 toks = Ok (map (fun e => (fst e, val_of (fst e))) ts)).
  { apply parse_fields_total. intros k n o Hk. rewrite Nat.add_0_l.
    pose proof (nth_keys ts k n o Hk) as Hkn. rewrite Kts in Hkn.
    destruct (fmt_fields_at _ _ _ _ HF k n Hkn) as [x [G T]].
    assert (Ho : exists ty, o = Some ty /\ getv n (mand_of t ++ flds) = Some ty).
    { unfold ts in Hk. destruct (Nat.ltb k 4) eqn:K4.
      - apply Nat.ltb_lt in K4. rewrite nth_error_app1 in Hk by (rewrite mand_length; exact K4).
        destruct (mand_some t k n o Hk) as [ty ->]. exists ty. split; [reflexivity|].
        rewrite getv_app_l by (apply nth_error_In in Hk; unfold keys; apply in_map_iff; exists (n, Some ty); auto).
        apply (getv_at (mand_of t) (mand_nodup t) k n (Some ty) Hk).
      - apply Nat.ltb_ge in K4. rewrite nth_error_app2 in Hk by (rewrite mand_length; exact K4).
        unfold moved in Hk. rewrite nth_error_map in Hk.
        destruct (nth_error cols (k - length (mand_of t))) as [m|] eqn:Hc; [|discriminate].
        cbn [option_map] in Hk. inversion Hk; subst m o. apply nth_error_In in Hc.
        destruct (getv_fields_dict c t n (Hcf n Hc)) as [ty Hty]. fold flds in Hty.
        exists ty. split; [exact Hty|]. rewrite getv_app_r by (apply Hm; exact Hc). exact Hty. }
    destruct Ho as [ty [-> Hg]]. exists ty, (fv_tok x). split; [reflexivity|]. split; [exact T|].
    unfold val_of. rewrite G. apply (Codec n x ty G Hg). }
  unfold from_spec. rewrite HP. cbn [bind].
  rewrite (build_all _ val_of).
  - unfold val_of. rewrite (fkw_get_values (VInt 0) _ _ NDn L). reflexivity.
  - intros n Hn. apply kw_get_map. rewrite Kts. rewrite An in Hn. apply in_app_or in Hn.
    apply in_or_app. destruct Hn as [Hn|Hn]; [left; exact Hn|right; apply Hfc; exact Hn].
Qed.
