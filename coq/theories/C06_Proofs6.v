(* C06 - lemmas and proofs, part 6: binding composed with header parsing.
   For every header accepted by check_header, the types dict _get_field_types builds
   for a line type is field_types applied to the columns the header lines declare
   ([columns]: the last order line of that type, else the declaration lines in file
   order).  With C06_Proofs2 (extras_bound_by_name) this gives binding by name at
   file level. *)
From HV Require Import Prelude C06_Model C06_Check C06_Proofs C06_Proofs2 C06_Proofs3.

(* one step of [last_order] *)
Definition lo_step (t : Z) (acc : option (list str)) (s : str) : option (list str) :=
  match classify s with
  | ShMeta =>
      match split_on cTAB (skipn 2 s) with
      | name :: vals =>
          match order_letter name with
          | Some t' => if t' =? t then Some vals else acc
          | None => acc
          end
      | [] => acc
      end
  | _ => acc
  end.

Lemma last_order_fold ls t : last_order ls t = fold_left (lo_step t) ls None.
Proof. reflexivity. Qed.

Lemma order_letter_version : order_letter s_version = None.
Proof. reflexivity. Qed.

Lemma zdict_get_set {A} k k2 (v : A) d :
  zdict_get k2 (zdict_set k v d) = if k =? k2 then Some v else zdict_get k2 d.
Proof.
  destruct (k =? k2) eqn:E.
  - apply Z.eqb_eq in E. subst. apply zdict_get_set_same.
  - apply Z.eqb_neq in E. apply zdict_get_set_other. exact E.
Qed.

Lemma hdr_step_order cv softly cur st s st' t :
  hdr_step false cv softly cur st s = Ok st' ->
  zdict_get t (hs_order st') = lo_step t (zdict_get t (hs_order st)) s.
Proof.
  unfold hdr_step, classify_mode, lo_step. cbn [andb bind].
  destruct (classify s) as [t0| |] eqn:C.
  - intros H. inversion H; subst st'; clear H. unfold decl_step.
    destruct (split_on cTAB (skipn 3 s)) as [|name [|f [|d rest]]]; reflexivity.
  - unfold meta_step. destruct (split_on cTAB (skipn 2 s)) as [|name vals].
    { intros H. inversion H. reflexivity. }
    destruct (cv && str_eqb name s_version) eqn:EN.
    + apply andb_true_iff in EN. destruct EN as [_ EN]. apply str_eqb_eq in EN. subst name.
      rewrite order_letter_version.
      destruct vals as [|v vals]; [discriminate|].
      destruct (if str_eqb v cur then Ok [] else check_version softly cur v) as [evs|k]; cbn [bind]; [|discriminate].
      intros H. inversion H. reflexivity.
    + destruct (order_letter name) as [t'|].
      * intros H. inversion H. cbn [hs_order]. apply zdict_get_set.
      * intros H. inversion H. reflexivity.
  - intros H. inversion H. reflexivity.
Qed.

Lemma hdr_fold_order cv softly cur t : forall hs st st',
  hdr_fold false cv softly cur st hs = Ok st' ->
  zdict_get t (hs_order st') = fold_left (lo_step t) hs (zdict_get t (hs_order st)).
Proof.
  induction hs as [|s hs IH]; intros st st' H; cbn [hdr_fold fold_left] in *.
  - inversion H. reflexivity.
  - apply bind_ok in H. destruct H as [st1 [H1 H2]].
    rewrite (IH st1 st' H2), (hdr_step_order _ _ _ _ _ _ t H1). reflexivity.
Qed.

Lemma ext_init t : ext hs_init t = [].
Proof.
  unfold ext, hs_init. cbn [hs_extras zdict_get].
  destruct (cH =? t); [reflexivity|]. destruct (cV =? t); [reflexivity|]. destruct (cR =? t); reflexivity.
Qed.

Lemma check_header_state c cv softly hs st :
  check_header false c cv softly hs = Ok st ->
  exists st1, hdr_fold false cv softly (cfg_version c) hs_init hs = Ok st1
    /\ hs_order st = hs_order st1 /\ hs_extras st = hs_extras st1 /\ hs_version st = hs_version st1.
Proof.
  unfold check_header. intros H. apply bind_ok in H. destruct H as [st1 [H1 H2]].
  exists st1. split; [exact H1|].
  destruct (missing_of c (hs_extras st1)).
  - inversion H2. auto.
  - destruct softly; [|discriminate]. inversion H2. cbn. auto.
Qed.

(* the composition: _get_field_types(check_header(lines)) = reorder by [columns lines] *)
Theorem types_follow_header c cv softly hs st t :
  check_header false c cv softly hs = Ok st ->
  types_for c st t = field_types (base_types c t) (columns hs t).
Proof.
  intros H. destruct (check_header_state _ _ _ _ _ H) as [st1 [F [EO [EE _]]]].
  unfold types_for, columns. rewrite EO, EE.
  rewrite (hdr_fold_order cv softly _ t hs hs_init st1 F). cbn [hs_init hs_order zdict_get].
  rewrite <- last_order_fold.
  destruct (last_order hs t); [reflexivity|].
  destruct (hdr_fold_spec cv softly _ hs hs_init st1 F) as [E _].
  specialize (E t). rewrite ext_init in E. cbn [app] in E. unfold ext in E. rewrite E. reflexivity.
Qed.

(* binding by name through the header: any record line read under an accepted header
   yields, for every attribute, the conversion of the column that the header's
   column list gives to the attribute's name *)
Corollary header_binds_by_name c cv softly hs st t toks vals :
  check_header false c cv softly hs = Ok st ->
  wf_columns c t (columns hs t) = true ->
  from_spec c t (types_for c st t) toks = Ok vals ->
  expected_vals c t (columns hs t) toks = Ok vals.
Proof.
  intros H WF HS. rewrite (types_follow_header _ _ _ _ _ t H) in HS.
  apply extras_bound_by_name; assumption.
Qed.

(* order lines are last-one-wins and independent of where the declaration lines stand *)
Lemma columns_with_order hs t o : last_order hs t = Some o -> columns hs t = o.
Proof. intros H. unfold columns. rewrite H. reflexivity. Qed.
