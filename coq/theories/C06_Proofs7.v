(* C06 - lemmas and proofs, part 7: the header that to_str emits (order lines,
   version line, sorted de-duplicated declaration lines) is accepted by
   check_header without any report, and makes _get_field_types give every line
   type the column order of the writer's _extras tuple.  Precondition
   ([clean_cfg]): the names of the extra fields and the version string contain
   no tab - otherwise the header lines split differently (see
   unclean_name_refuted). *)
From Coq Require Import Permutation.
From HV Require Import Prelude C06_Model C06_Check C06_Proofs C06_Proofs2 C06_Proofs3 C06_Proofs6.

(* ---- split / join -------------------------------------------------------------- *)

Lemma split_on_nonempty sep s : split_on sep s <> [].
Proof.
  destruct s as [|c r]; cbn [split_on]; [discriminate|].
  destruct (c =? sep); [discriminate|]. destruct (split_on sep r); discriminate.
Qed.

Lemma split_on_clean sep w : ~ In sep w -> split_on sep w = [w].
Proof.
  induction w as [|c w IH]; intros H; [reflexivity|]. cbn [split_on].
  assert (c <> sep) as NE by (intros ->; apply H; left; reflexivity).
  apply Z.eqb_neq in NE. rewrite NE, IH; [reflexivity|]. intros X. apply H. right. exact X.
Qed.

Lemma split_on_app sep w rest :
  ~ In sep w -> split_on sep (w ++ sep :: rest) = w :: split_on sep rest.
Proof.
  induction w as [|c w IH]; intros H; cbn [app split_on].
  - rewrite Z.eqb_refl. reflexivity.
  - assert (c <> sep) as NE by (intros ->; apply H; left; reflexivity).
    apply Z.eqb_neq in NE. rewrite NE, IH; [reflexivity|]. intros X. apply H. right. exact X.
Qed.

Lemma split_join sep ws :
  ws <> [] -> (forall w, In w ws -> ~ In sep w) -> split_on sep (join_on sep ws) = ws.
Proof.
  induction ws as [|w ws IH]; intros NE H; [contradiction|].
  destruct ws as [|w2 ws].
  - cbn [join_on]. apply split_on_clean. apply H. left. reflexivity.
  - change (join_on sep (w :: w2 :: ws)) with (w ++ sep :: join_on sep (w2 :: ws)).
    rewrite split_on_app by (apply H; left; reflexivity).
    rewrite IH; [reflexivity|discriminate|]. intros x Hx. apply H. right. exact Hx.
Qed.

(* at least three pieces when there are two separators after a clean first piece *)
Lemma split_two_more sep a b : exists x y r, split_on sep (a ++ sep :: b) = x :: y :: r.
Proof.
  induction a as [|c a IH]; cbn [app split_on].
  - rewrite Z.eqb_refl. destruct (split_on sep b) as [|y r] eqn:E; [exfalso; apply (split_on_nonempty sep b E)|].
    exists [], y, r. reflexivity.
  - destruct IH as [x [y [r E]]]. destruct (c =? sep).
    + exists [], x, (y :: r). rewrite E. reflexivity.
    + rewrite E. exists (c :: x), y, r. reflexivity.
Qed.

(* ---- sorting and de-duplication keep the elements -------------------------------- *)

Lemma insert_str_In x y l : In x (insert_str y l) <-> x = y \/ In x l.
Proof.
  induction l as [|z l IH]; cbn [insert_str In]; [intuition|].
  destruct (str_ltb z y); cbn [In]; [rewrite IH|]; intuition.
Qed.

Lemma sort_str_In x l : In x (sort_str l) <-> In x l.
Proof.
  unfold sort_str. induction l as [|y l IH]; cbn [fold_right In]; [tauto|].
  rewrite insert_str_In, IH. intuition.
Qed.

Lemma dedup_str_In x l : In x (dedup_str l) <-> In x l.
Proof.
  induction l as [|y l IH]; cbn [dedup_str In]; [tauto|].
  rewrite filter_In, IH. split.
  - intros [H|[H _]]; auto.
  - intros [H|H]; [left; exact H|].
    destruct (list_eq_dec Z.eq_dec y x) as [E|NE]; [left; exact E|right].
    split; [exact H|]. apply negb_true_iff. apply str_eqb_neq. congruence.
Qed.

(* ---- the emitted header as strings ------------------------------------------------ *)

Definition order_str (t : Z) (names : list str) : str :=
  [cHASH; cTAB] ++ s_order ++ [t; cTAB] ++ join_on cTAB names.
Definition order_strs_of (c : cfg) (t : Z) : list str :=
  match extras_order (cls_of c t) with [] => [] | names => [order_str t names] end.
Definition version_str (c : cfg) : str := [cHASH; cTAB] ++ s_version ++ [cTAB] ++ cfg_version c.
Definition decl_strs_of (c : cfg) (t : Z) : list str :=
  sort_str (dedup_str (map (decl_line t) (c_extras (cls_of c t)))).
Definition all_order_strs (c : cfg) : list str := order_strs_of c cH ++ order_strs_of c cV ++ order_strs_of c cR.
Definition all_decl_strs (c : cfg) : list str := decl_strs_of c cH ++ decl_strs_of c cV ++ decl_strs_of c cR.
Definition hdr_strs (c : cfg) : list str := all_order_strs c ++ [version_str c] ++ all_decl_strs c.

Lemma hdr_lines_strs c :
  order_lines c ++ [LHash ([cHASH; cTAB] ++ s_version ++ [cTAB] ++ cfg_version c)] ++ decl_lines c
  = map LHash (hdr_strs c).
Proof.
  unfold order_lines, decl_lines, hdr_strs, all_order_strs, all_decl_strs, type_letters. cbn [flat_map].
  rewrite !app_nil_r, !map_app. cbn [map].
  unfold order_strs_of, order_str, decl_strs_of, version_str.
  destruct (extras_order (cls_of c cH)); destruct (extras_order (cls_of c cV));
    destruct (extras_order (cls_of c cR)); reflexivity.
Qed.

Definition clean_cfg (c : cfg) : Prop :=
  ~ In cTAB (cfg_version c)
  /\ forall t x, is_type_letter t = true -> In x (c_extras (cls_of c t)) -> ~ In cTAB (x_name x).

Lemma type_letter_cases t : is_type_letter t = true -> t = cH \/ t = cV \/ t = cR.
Proof.
  unfold is_type_letter. intros H. apply orb_true_iff in H. destruct H as [H|H].
  - apply orb_true_iff in H. destruct H as [H|H]; apply Z.eqb_eq in H; auto.
  - apply Z.eqb_eq in H. auto.
Qed.

Lemma extras_order_clean c t n :
  clean_cfg c -> is_type_letter t = true -> In n (extras_order (cls_of c t)) -> ~ In cTAB n.
Proof.
  intros [_ H] T I. unfold extras_order in I. apply in_map_iff in I. destruct I as [x [E I]]. subst n.
  apply (H t x T I).
Qed.

(* ---- what each emitted line does --------------------------------------------------- *)

Lemma order_str_split t names :
  is_type_letter t = true -> names <> [] -> (forall n, In n names -> ~ In cTAB n) ->
  classify (order_str t names) = ShMeta
  /\ split_on cTAB (skipn 2 (order_str t names)) = (s_order ++ [t]) :: names.
Proof.
  intros T NE CL. split; [reflexivity|].
  unfold order_str. cbn [app skipn s_order].
  change [111; 114; 100; 101; 114; t; cTAB] with ([111; 114; 100; 101; 114; t] ++ [cTAB]).
  change (111 :: 114 :: 100 :: 101 :: 114 :: t :: cTAB :: join_on cTAB names)
    with ([111; 114; 100; 101; 114; t] ++ cTAB :: join_on cTAB names).
  rewrite split_on_app.
  - rewrite (split_join cTAB names NE CL). reflexivity.
  - destruct (type_letter_cases t T) as [ -> | [ -> | -> ] ]; cbn; intuition discriminate.
Qed.

Lemma order_letter_order t : is_type_letter t = true -> order_letter (s_order ++ [t]) = Some t.
Proof. intros T. cbn. rewrite T. reflexivity. Qed.

Lemma order_name_not_version t : str_eqb (s_order ++ [t]) s_version = false.
Proof. reflexivity. Qed.

Lemma hdr_step_order_str cv softly cur st t names :
  is_type_letter t = true -> names <> [] -> (forall n, In n names -> ~ In cTAB n) ->
  hdr_step false cv softly cur st (order_str t names)
  = Ok (mkhs (hs_version st) (zdict_set t names (hs_order st)) (hs_extras st) (hs_logs st)).
Proof.
  intros T NE CL. destruct (order_str_split t names T NE CL) as [C S].
  unfold hdr_step, classify_mode. cbn [andb bind]. rewrite C. unfold meta_step. rewrite S.
  rewrite order_name_not_version, andb_false_r, (order_letter_order t T). reflexivity.
Qed.

Lemma lo_step_order_str t' t acc names :
  is_type_letter t = true -> names <> [] -> (forall n, In n names -> ~ In cTAB n) ->
  lo_step t' acc (order_str t names) = if t =? t' then Some names else acc.
Proof.
  intros T NE CL. destruct (order_str_split t names T NE CL) as [C S].
  unfold lo_step. rewrite C, S, (order_letter_order t T). reflexivity.
Qed.

Lemma version_str_split c :
  ~ In cTAB (cfg_version c) ->
  classify (version_str c) = ShMeta
  /\ split_on cTAB (skipn 2 (version_str c)) = [s_version; cfg_version c].
Proof.
  intros CL. split; [reflexivity|].
  unfold version_str. cbn [app skipn s_version].
  change (118 :: 101 :: 114 :: 115 :: 105 :: 111 :: 110 :: cTAB :: cfg_version c)
    with (s_version ++ cTAB :: cfg_version c).
  rewrite split_on_app by (cbn; intuition discriminate).
  rewrite (split_on_clean cTAB _ CL). reflexivity.
Qed.

Lemma hdr_step_version_str c softly st :
  ~ In cTAB (cfg_version c) ->
  hdr_step false true softly (cfg_version c) st (version_str c)
  = Ok (mkhs (Some (cfg_version c)) (hs_order st) (hs_extras st) (hs_logs st)).
Proof.
  intros CL. destruct (version_str_split c CL) as [C S].
  unfold hdr_step, classify_mode. cbn [andb bind]. rewrite C. unfold meta_step. rewrite S.
  rewrite str_eqb_refl. cbn [andb]. rewrite str_eqb_refl. cbn [bind]. rewrite app_nil_r. reflexivity.
Qed.

Lemma lo_step_version_str c t acc :
  ~ In cTAB (cfg_version c) -> lo_step t acc (version_str c) = acc.
Proof.
  intros CL. destruct (version_str_split c CL) as [C S]. unfold lo_step. rewrite C, S. reflexivity.
Qed.

Lemma classify_decl_line t x : is_type_letter t = true -> classify (decl_line t x) = ShDecl t.
Proof.
  intros T. unfold decl_line, classify. cbn [app nth_error]. rewrite Z.eqb_refl, T. reflexivity.
Qed.

Lemma decl_line_names t x :
  is_type_letter t = true -> ~ In cTAB (x_name x) ->
  forall t', decl_names [decl_line t x] t' = if t =? t' then [x_name x] else [].
Proof.
  intros T CL t'. unfold decl_names. cbn [flat_map]. rewrite app_nil_r, (classify_decl_line t x T).
  destruct (t =? t'); [|reflexivity].
  unfold decl_line. cbn [app skipn join_on].
  rewrite (split_on_app cTAB (x_name x) _ CL).
  destruct (split_two_more cTAB (x_fmt x) (x_desc x)) as [a [b [r E]]]. rewrite E. reflexivity.
Qed.

(* ---- folds over the emitted header -------------------------------------------------- *)

(* a line that is accepted silently and leaves the order entries alone *)
Definition decl_like (s : str) : Prop := exists t, classify s = ShDecl t.

Lemma hdr_step_decl_like cv softly cur st s :
  decl_like s -> exists st', hdr_step false cv softly cur st s = Ok st'
    /\ hs_logs st' = hs_logs st /\ hs_order st' = hs_order st.
Proof.
  intros [t C]. unfold hdr_step, classify_mode. cbn [andb bind]. rewrite C.
  eexists. split; [reflexivity|]. unfold decl_step.
  destruct (split_on cTAB (skipn 3 s)) as [|name [|f [|d rest]]]; split; reflexivity.
Qed.

Lemma hdr_fold_decl_like cv softly cur : forall ls st,
  (forall s, In s ls -> decl_like s) ->
  exists st', hdr_fold false cv softly cur st ls = Ok st'
    /\ hs_logs st' = hs_logs st /\ hs_order st' = hs_order st.
Proof.
  induction ls as [|s ls IH]; intros st H; cbn [hdr_fold].
  - exists st. auto.
  - destruct (hdr_step_decl_like cv softly cur st s (H s (or_introl eq_refl))) as [st1 [E [L O]]].
    rewrite E. cbn [bind].
    destruct (IH st1 (fun x Hx => H x (or_intror Hx))) as [st2 [E2 [L2 O2]]].
    exists st2. split; [exact E2|]. split; congruence.
Qed.

Lemma lo_fold_decl_like t : forall ls acc,
  (forall s, In s ls -> decl_like s) -> fold_left (lo_step t) ls acc = acc.
Proof.
  induction ls as [|s ls IH]; intros acc H; cbn [fold_left]; [reflexivity|].
  destruct (H s (or_introl eq_refl)) as [t0 C]. unfold lo_step at 2. rewrite C.
  apply IH. intros x Hx. apply H. right. exact Hx.
Qed.

Lemma decl_strs_of_In c t s :
  In s (decl_strs_of c t) -> exists x, In x (c_extras (cls_of c t)) /\ s = decl_line t x.
Proof.
  unfold decl_strs_of. rewrite sort_str_In, dedup_str_In, in_map_iff. intros [x [E I]]. exists x. auto.
Qed.

Lemma decl_strs_In c t x : In x (c_extras (cls_of c t)) -> In (decl_line t x) (decl_strs_of c t).
Proof.
  intros I. unfold decl_strs_of. rewrite sort_str_In, dedup_str_In. apply in_map. exact I.
Qed.

Lemma all_decl_strs_In c s :
  In s (all_decl_strs c) -> exists t x, is_type_letter t = true /\ In x (c_extras (cls_of c t)) /\ s = decl_line t x.
Proof.
  unfold all_decl_strs. rewrite !in_app_iff. intros [H|[H|H]];
    destruct (decl_strs_of_In _ _ _ H) as [x [I E]]; eexists; exists x; (split; [|split; [exact I|exact E]]); reflexivity.
Qed.

Lemma all_decl_like c s : In s (all_decl_strs c) -> decl_like s.
Proof.
  intros H. destruct (all_decl_strs_In c s H) as [t [x [T [_ ->]]]]. exists t. apply classify_decl_line. exact T.
Qed.

Definition ord_for (c : cfg) (t : Z) : option (list str) :=
  match extras_order (cls_of c t) with [] => None | names => Some names end.

(* the order part of the emitted header, one line type *)
Lemma hdr_fold_order_strs_of c cv softly cur t st :
  clean_cfg c -> is_type_letter t = true ->
  exists st', hdr_fold false cv softly cur st (order_strs_of c t) = Ok st'
    /\ hs_logs st' = hs_logs st /\ hs_version st' = hs_version st.
Proof.
  intros CL T. unfold order_strs_of.
  destruct (extras_order (cls_of c t)) as [|n names] eqn:E.
  - exists st. cbn. auto.
  - cbn [hdr_fold]. rewrite hdr_step_order_str; [|exact T|discriminate|].
    + cbn [bind]. eexists. split; [reflexivity|]. split; reflexivity.
    + intros m Hm. apply (extras_order_clean c t m CL T). rewrite E. exact Hm.
Qed.

Lemma lo_fold_order_strs_of c t t' acc :
  clean_cfg c -> is_type_letter t = true ->
  fold_left (lo_step t') (order_strs_of c t) acc
  = if t =? t' then match ord_for c t with Some o => Some o | None => acc end else acc.
Proof.
  intros CL T. unfold order_strs_of, ord_for.
  destruct (extras_order (cls_of c t)) as [|n names] eqn:E.
  - cbn. destruct (t =? t'); reflexivity.
  - cbn [fold_left]. rewrite lo_step_order_str; [|exact T|discriminate|].
    + destruct (t =? t'); reflexivity.
    + intros m Hm. apply (extras_order_clean c t m CL T). rewrite E. exact Hm.
Qed.

Lemma last_order_emitted c t :
  clean_cfg c -> is_type_letter t = true -> last_order (hdr_strs c) t = ord_for c t.
Proof.
  intros CL T. rewrite last_order_fold. unfold hdr_strs.
  rewrite !fold_left_app. cbn [fold_left].
  rewrite (lo_fold_decl_like t _ _ (all_decl_like c)).
  rewrite (lo_step_version_str c t _ (proj1 CL)).
  unfold all_order_strs. rewrite !fold_left_app.
  rewrite !lo_fold_order_strs_of by (exact CL || reflexivity).
  destruct (type_letter_cases t T) as [ -> | [ -> | -> ] ]; cbn -[ord_for];
    [destruct (ord_for c cH)|destruct (ord_for c cV)|destruct (ord_for c cR)]; reflexivity.
Qed.

Lemma hdr_fold_emitted c softly :
  clean_cfg c ->
  exists st, hdr_fold false true softly (cfg_version c) hs_init (hdr_strs c) = Ok st /\ hs_logs st = [].
Proof.
  intros CL. unfold hdr_strs. rewrite hdr_fold_app.
  assert (O : exists s3, hdr_fold false true softly (cfg_version c) hs_init (all_order_strs c) = Ok s3
                         /\ hs_logs s3 = []).
  { unfold all_order_strs. rewrite hdr_fold_app.
    destruct (hdr_fold_order_strs_of c true softly (cfg_version c) cH hs_init CL eq_refl) as [s1 [E1 [L1 _]]].
    rewrite E1. cbn [bind]. rewrite hdr_fold_app.
    destruct (hdr_fold_order_strs_of c true softly (cfg_version c) cV s1 CL eq_refl) as [s2 [E2 [L2 _]]].
    rewrite E2. cbn [bind].
    destruct (hdr_fold_order_strs_of c true softly (cfg_version c) cR s2 CL eq_refl) as [s3 [E3 [L3 _]]].
    exists s3. split; [exact E3|]. rewrite L3, L2, L1. reflexivity. }
  destruct O as [s3 [E3 L3]]. rewrite E3. cbn [bind app hdr_fold].
  rewrite (hdr_step_version_str c softly s3 (proj1 CL)). cbn [bind].
  destruct (hdr_fold_decl_like true softly (cfg_version c) (all_decl_strs c)
              (mkhs (Some (cfg_version c)) (hs_order s3) (hs_extras s3) (hs_logs s3)) (all_decl_like c))
    as [s4 [E4 [L4 _]]].
  exists s4. split; [exact E4|]. cbn [hs_logs] in L4. rewrite L4, L3. reflexivity.
Qed.

(* ---- declared names of the emitted header ---------------------------------------------- *)

Lemma decl_names_app a b t : decl_names (a ++ b) t = decl_names a t ++ decl_names b t.
Proof. unfold decl_names. apply flat_map_app. Qed.

Lemma decl_names_In hs t s n : In s hs -> In n (decl_names [s] t) -> In n (decl_names hs t).
Proof.
  intros Hs Hn. unfold decl_names in *. cbn [flat_map] in Hn. rewrite app_nil_r in Hn.
  apply in_flat_map. exists s. auto.
Qed.

Lemma decl_names_none hs t : (forall s, In s hs -> decl_names [s] t = []) -> decl_names hs t = [].
Proof.
  induction hs as [|s hs IH]; intros H; [reflexivity|].
  rewrite (decl_names_cons s hs t), (H s (or_introl eq_refl)), IH; [reflexivity|].
  intros x Hx. apply H. right. exact Hx.
Qed.

Lemma decl_names_meta s t : classify s = ShMeta -> decl_names [s] t = [].
Proof. intros C. unfold decl_names. cbn [flat_map]. rewrite C. reflexivity. Qed.

Lemma emitted_declares c t n :
  clean_cfg c -> is_type_letter t = true ->
  In n (extras_order (cls_of c t)) -> In n (decl_names (hdr_strs c) t).
Proof.
  intros CL T I. unfold extras_order in I. apply in_map_iff in I. destruct I as [x [E I]]. subst n.
  apply (decl_names_In _ t (decl_line t x)).
  - unfold hdr_strs. apply in_or_app. right. apply in_or_app. right.
    pose proof (decl_strs_In c t x I) as D.
    unfold all_decl_strs. destruct (type_letter_cases t T) as [ -> | [ -> | -> ] ]; rewrite !in_app_iff; auto.
  - rewrite (decl_line_names t x T (proj2 CL t x T I)), Z.eqb_refl. left. reflexivity.
Qed.

Lemma filter_nil {A} (f : A -> bool) l : (forall x, In x l -> f x = false) -> filter f l = [].
Proof.
  induction l as [|x l IH]; intros H; [reflexivity|]. cbn [filter].
  rewrite (H x (or_introl eq_refl)). apply IH. intros y Hy. apply H. right. exact Hy.
Qed.

Lemma missing_emitted c : clean_cfg c -> missing_spec c (hdr_strs c) = [].
Proof.
  intros CL. unfold missing_spec, type_letters. cbn [flat_map].
  assert (F : forall t, is_type_letter t = true ->
            filter (fun n => negb (mem_str n (decl_names (hdr_strs c) t))) (dedup_str (extras_order (cls_of c t))) = []).
  { intros t T. apply filter_nil. intros n Hn. apply (proj1 (dedup_str_In n _)) in Hn.
    cbv beta. apply negb_false_iff. apply mem_str_In. apply (emitted_declares c t n CL T Hn). }
  rewrite (F cH eq_refl), (F cV eq_refl), (F cR eq_refl). reflexivity.
Qed.

Lemma decl_names_emitted_empty c t :
  clean_cfg c -> is_type_letter t = true -> c_extras (cls_of c t) = [] -> decl_names (hdr_strs c) t = [].
Proof.
  intros CL T E. apply decl_names_none. intros s Hs. unfold hdr_strs in Hs.
  rewrite !in_app_iff in Hs. destruct Hs as [Hs|[Hs|Hs]].
  - unfold all_order_strs in Hs. rewrite !in_app_iff in Hs.
    assert (M : exists t' names, is_type_letter t' = true /\ names <> [] /\ (forall n, In n names -> ~ In cTAB n)
                                 /\ s = order_str t' names).
    { assert (G : forall t', is_type_letter t' = true -> In s (order_strs_of c t') ->
                  exists t' names, is_type_letter t' = true /\ names <> [] /\ (forall n, In n names -> ~ In cTAB n)
                                   /\ s = order_str t' names).
      { intros t' T' I. unfold order_strs_of in I.
        destruct (extras_order (cls_of c t')) as [|n names] eqn:EO; [contradiction|].
        destruct I as [<-|[]]. exists t', (n :: names). split; [exact T'|]. split; [discriminate|].
        split; [|reflexivity]. intros m Hm. apply (extras_order_clean c t' m CL T'). rewrite EO. exact Hm. }
      destruct Hs as [Hs|[Hs|Hs]]; [apply (G cH eq_refl Hs)|apply (G cV eq_refl Hs)|apply (G cR eq_refl Hs)]. }
    destruct M as [t' [names [T' [NE [CN ->]]]]].
    apply decl_names_meta. apply (proj1 (order_str_split t' names T' NE CN)).
  - destruct Hs as [<-|[]]. apply decl_names_meta. apply (proj1 (version_str_split c (proj1 CL))).
  - destruct (all_decl_strs_In c s Hs) as [t' [x [T' [I ->]]]].
    rewrite (decl_line_names t' x T' (proj2 CL t' x T' I)).
    destruct (t' =? t) eqn:Et; [|reflexivity]. apply Z.eqb_eq in Et. subst t'. rewrite E in I. contradiction.
Qed.

Lemma columns_emitted c t :
  clean_cfg c -> is_type_letter t = true -> columns (hdr_strs c) t = extras_order (cls_of c t).
Proof.
  intros CL T. unfold columns. rewrite (last_order_emitted c t CL T). unfold ord_for.
  destruct (extras_order (cls_of c t)) as [|n names] eqn:E; [|reflexivity].
  apply decl_names_emitted_empty; [exact CL|exact T|].
  unfold extras_order in E. destruct (c_extras (cls_of c t)); [reflexivity|discriminate].
Qed.

(* ---- the emitted header is accepted silently and binds the writer's column order ---------- *)

Theorem emitted_header_ok c softly :
  clean_cfg c ->
  exists st, check_header false c true softly (hdr_strs c) = Ok st
    /\ hs_logs st = []
    /\ forall t, is_type_letter t = true ->
         types_for c st t = field_types (base_types c t) (extras_order (cls_of c t)).
Proof.
  intros CL. destruct (hdr_fold_emitted c softly CL) as [st [F L]].
  assert (CH : check_header false c true softly (hdr_strs c) = Ok st).
  { unfold check_header. rewrite F. cbn [bind].
    destruct (hdr_fold_spec true softly _ (hdr_strs c) hs_init st F) as [E _].
    rewrite (missing_of_spec c st (hdr_strs c)).
    - rewrite (missing_emitted c CL). reflexivity.
    - intros t. rewrite (E t), ext_init. reflexivity. }
  exists st. split; [exact CH|]. split; [exact L|].
  intros t T. rewrite (types_follow_header c true softly _ st t CH), (columns_emitted c t CL T). reflexivity.
Qed.

(* without the precondition the emitted header does not say what the classes say: a tab
   inside the name of an extra field makes the order line name two columns *)
Example unclean_name_refuted :
  let bad := [97; 9; 98] in     (* "a<TAB>b" *)
  let c := mkcfg (mkcls [(bad, TStr)] [mkx bad [115] []]) (mkcls [] []) (mkcls [] []) [48; 46; 50; 46; 48] in
  wf_cfg c = true
  /\ columns (hdr_strs c) cH = [[97]; [98]]
  /\ columns (hdr_strs c) cH <> extras_order (cls_of c cH)
  /\ missing_spec c (hdr_strs c) <> [].
Proof. vm_compute. repeat split; discriminate. Qed.
