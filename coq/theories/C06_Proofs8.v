(* C06 - lemmas and proofs, part 8: the whole-file round trip.
   For every collection (any number of haplotypes, repeats and variants, any
   extra-field configuration) the file to_str emits is read back by read to the
   same records in the same order with the same variants, and re-writing what was
   read reproduces the file. *)
From Coq Require Import Permutation.
From HV Require Import Prelude C06_Model C06_Check C06_Proofs C06_Proofs2 C06_Proofs3 C06_Proofs4 C06_Proofs5
  C06_Proofs6 C06_Proofs7.

(* ---- generic facts ---------------------------------------------------------------- *)

Lemma mapM_ok {A B} (f : A -> res B) l :
  (forall a, In a l -> exists b, f a = Ok b) -> exists bs, mapM f l = Ok bs.
Proof.
  induction l as [|a l IH]; intros H; [exists []; reflexivity|].
  destruct (H a (or_introl eq_refl)) as [b E].
  destruct (IH (fun x Hx => H x (or_intror Hx))) as [bs E2].
  exists (b :: bs). cbn [mapM]. rewrite E, E2. reflexivity.
Qed.

Lemma mapM_cons_inv {A B} (f : A -> res B) a l bs :
  mapM f (a :: l) = Ok bs -> exists b r, f a = Ok b /\ mapM f l = Ok r /\ bs = b :: r.
Proof.
  cbn [mapM]. intros H. apply bind_ok in H. destruct H as [b [E H]].
  apply bind_ok in H. destruct H as [r [E2 H]]. inversion H. exists b, r. auto.
Qed.

Lemma zdict_get_none {A} k (d : list (Z * A)) : ~ In k (map fst d) -> zdict_get k d = None.
Proof.
  induction d as [|[k' v] d IH]; cbn [map fst In zdict_get]; intros H; [reflexivity|].
  destruct (k' =? k) eqn:E; [apply Z.eqb_eq in E; exfalso; apply H; left; exact E|].
  apply IH. intros X. apply H. right. exact X.
Qed.

Lemma zdict_get_some {A} k (d : list (Z * A)) : In k (map fst d) -> exists v, zdict_get k d = Some v.
Proof.
  induction d as [|[k' v] d IH]; cbn [map fst In zdict_get]; intros H; [contradiction|].
  destruct (k' =? k) eqn:E; [eexists; reflexivity|].
  destruct H as [H|H]; [apply Z.eqb_neq in E; contradiction|]. apply IH. exact H.
Qed.

Lemma zdict_set_fresh {A} k (v : A) d : ~ In k (map fst d) -> zdict_set k v d = d ++ [(k, v)].
Proof.
  induction d as [|[k' v'] d IH]; cbn [map fst In zdict_set app]; intros H; [reflexivity|].
  destruct (k' =? k) eqn:E; [apply Z.eqb_eq in E; exfalso; apply H; left; exact E|].
  rewrite IH; [reflexivity|]. intros X. apply H. right. exact X.
Qed.

Lemma zdict_set_last {A} k (v w : A) a : ~ In k (map fst a) -> zdict_set k v (a ++ [(k, w)]) = a ++ [(k, v)].
Proof.
  induction a as [|[k' v'] a IH]; cbn [map fst In zdict_set app]; intros H.
  - rewrite Z.eqb_refl. reflexivity.
  - destruct (k' =? k) eqn:E; [apply Z.eqb_eq in E; exfalso; apply H; left; exact E|].
    rewrite IH; [reflexivity|]. intros X. apply H. right. exact X.
Qed.

Lemma zdict_get_last {A} k (w : A) a : ~ In k (map fst a) -> zdict_get k (a ++ [(k, w)]) = Some w.
Proof.
  induction a as [|[k' v'] a IH]; cbn [map fst In zdict_get app]; intros H.
  - rewrite Z.eqb_refl. reflexivity.
  - destruct (k' =? k) eqn:E; [apply Z.eqb_eq in E; exfalso; apply H; left; exact E|].
    apply IH. intros X. apply H. right. exact X.
Qed.

Lemma zdict_set_keys {A} k (v : A) d : In k (map fst d) -> map fst (zdict_set k v d) = map fst d.
Proof.
  induction d as [|[k' v'] d IH]; cbn [map fst In zdict_set]; intros H; [contradiction|].
  destruct (k' =? k) eqn:E; cbn [map fst].
  - apply Z.eqb_eq in E. subst. reflexivity.
  - destruct H as [H|H]; [apply Z.eqb_neq in E; contradiction|]. rewrite IH by exact H. reflexivity.
Qed.

Lemma zdict_set_map {A} k (g : A -> A) d o :
  NoDup (map fst d) -> zdict_get k d = Some o ->
  zdict_set k (g o) d = map (fun ko => if fst ko =? k then (k, g (snd ko)) else ko) d.
Proof.
  induction d as [|[k' v'] d IH]; cbn [map fst zdict_get zdict_set snd]; intros ND H; [discriminate|].
  inversion ND as [|x l Hn ND']; subst.
  destruct (k' =? k) eqn:E.
  - inversion H; subst v'. apply Z.eqb_eq in E. subst k'. f_equal.
    symmetry. transitivity (map (fun x : Z * A => x) d); [|apply map_id].
    apply map_ext_in. intros [k2 v2] I. cbn [fst snd].
    destruct (k2 =? k) eqn:E2; [|reflexivity]. apply Z.eqb_eq in E2. subst k2.
    exfalso. apply Hn. apply in_map_iff. exists (k, v2). auto.
  - rewrite (IH ND' H). reflexivity.
Qed.

Lemma body_app c sel tH tV tR a : forall st b,
  body c sel tH tV tR st (a ++ b) = bind (body c sel tH tV tR st a) (fun st' => body c sel tH tV tR st' b).
Proof.
  induction a as [|l a IH]; intros st b; cbn [app body bind]; [reflexivity|].
  destruct l as [x|k sep toks|]; [apply IH| |reflexivity].
  destruct (rec_step c sel tH tV tR st k toks) as [st'|e]; cbn [bind]; [apply IH|reflexivity].
Qed.

Lemma NoDup_map_inj {A B} (f : A -> B) l a b :
  NoDup (map f l) -> In a l -> In b l -> f a = f b -> a = b.
Proof.
  induction l as [|x l IH]; cbn [map In]; intros ND Ha Hb E; [contradiction|].
  inversion ND as [|y l' Hn ND']; subst.
  destruct Ha as [Ha|Ha], Hb as [Hb|Hb]; subst.
  - reflexivity.
  - exfalso. apply Hn. rewrite E. apply in_map. exact Hb.
  - exfalso. apply Hn. rewrite <- E. apply in_map. exact Ha.
  - apply IH; assumption.
Qed.

(* ---- sort_keys is a permutation ------------------------------------------------------ *)

Lemma insert_key_perm x l : Permutation (insert_key x l) (x :: l).
Proof.
  induction l as [|y l IH]; cbn [insert_key]; [apply Permutation_refl|].
  destruct (str_ltb (we_key y) (we_key x)); [|apply Permutation_refl].
  eapply Permutation_trans; [apply perm_skip; exact IH|apply perm_swap].
Qed.

Lemma sort_keys_perm l : Permutation (sort_keys l) l.
Proof.
  unfold sort_keys. induction l as [|x l IH]; cbn [fold_right]; [apply Permutation_refl|].
  eapply Permutation_trans; [apply insert_key_perm|apply perm_skip; exact IH].
Qed.

(* ---- well-formedness as propositions ---------------------------------------------------- *)

Definition eid (e : wentry) : Z := t_id (we_ktok e).

Definition codec_ok (c : cfg) (t : Z) (vals : list fval) : Prop :=
  forall n x ty, fkw_get n (attr_names c t) vals = Some x -> getv n (base_types c t) = Some ty ->
    conv ty (fv_tok x) = Ok (fv_val x).

(* every written text converts back to its value (per field, under the field's type) *)
Definition codec_data (c : cfg) (d : list wentry) : Prop :=
  forall e, In e d ->
    codec_ok c (w_kind (we_obj e)) (w_vals (we_obj e))
    /\ forall v, In v (w_vars (we_obj e)) -> codec_ok c cV v.

Definition entry_ok (c : cfg) (e : wentry) : Prop :=
  let o := we_obj e in
  (w_kind o = cH \/ (w_kind o = cR /\ w_vars o = []))
  /\ length (w_vals o) = length (attr_names c (w_kind o))
  /\ (forall v, In v (w_vars o) -> length v = length (attr_names c cV))
  /\ exists x, nth_error (w_vals o) 3 = Some x /\ fv_val x = VStr (eid e).

Lemma wf_obj_ok c e : wf_obj c e = true -> entry_ok c e.
Proof.
  unfold wf_obj, entry_ok. intros H.
  apply andb_true_iff in H. destruct H as [H H4].
  apply andb_true_iff in H. destruct H as [H H3].
  apply andb_true_iff in H. destruct H as [H1 H2].
  split; [|split; [|split]].
  - apply orb_true_iff in H1. destruct H1 as [H1|H1]; [left; apply Z.eqb_eq; exact H1|right].
    apply andb_true_iff in H1. destruct H1 as [A B]. split; [apply Z.eqb_eq; exact A|].
    destruct (w_vars (we_obj e)); [reflexivity|discriminate].
  - apply Nat.eqb_eq. exact H2.
  - rewrite forallb_forall in H3. intros v Hv. apply Nat.eqb_eq. apply (H3 v Hv).
  - destruct (nth_error (w_vals (we_obj e)) 3) as [x|]; [|discriminate]. exists x. split; [reflexivity|].
    apply andb_true_iff in H4. destruct H4 as [_ H4]. destruct (fv_val x); try discriminate.
    apply Z.eqb_eq in H4. unfold eid. rewrite H4. reflexivity.
Qed.

Lemma nodup_z_NoDup l : nodup_z l = true -> NoDup l.
Proof.
  induction l as [|x l IH]; cbn [nodup_z]; intros H; constructor.
  - apply andb_true_iff in H. destruct H as [H _]. apply negb_true_iff in H.
    intros I. assert (existsb (Z.eqb x) l = true); [|congruence].
    apply existsb_exists. exists x. split; [exact I|apply Z.eqb_refl].
  - apply andb_true_iff in H. destruct H as [_ H]. apply IH. exact H.
Qed.

Lemma wf_data_ok c d :
  wf_data c d = true -> (forall e, In e d -> entry_ok c e) /\ NoDup (map eid d).
Proof.
  unfold wf_data. intros H. apply andb_true_iff in H. destruct H as [H1 H2]. split.
  - rewrite forallb_forall in H1. intros e He. apply wf_obj_ok. apply H1. exact He.
  - apply nodup_z_NoDup. exact H2.
Qed.

Lemma wf_cfg_cls c t : wf_cfg c = true -> wf_cls (cls_of c t) = true.
Proof.
  unfold wf_cfg, cls_of. intros H. apply andb_true_iff in H. destruct H as [H HR].
  apply andb_true_iff in H. destruct H as [HH HV].
  destruct (t =? cH); [exact HH|]. destruct (t =? cV); assumption.
Qed.

(* ---- writing one record line succeeds ----------------------------------------------------- *)

Lemma fkw_get_some n : forall names vals,
  length vals = length names -> In n names -> exists x, fkw_get n names vals = Some x.
Proof.
  induction names as [|m names IH]; intros vals L I; [contradiction|].
  destruct vals as [|v vals]; [discriminate|]. cbn [fkw_get].
  destruct (str_eqb m n) eqn:E; [eexists; reflexivity|].
  destruct I as [I|I]; [apply str_eqb_neq in E; contradiction|].
  apply IH; [cbn [length] in L; lia|exact I].
Qed.

Lemma fmt_fields_ok names vals : forall want,
  length vals = length names -> (forall n, In n want -> In n names) ->
  exists toks, fmt_fields want names vals = Ok toks.
Proof.
  induction want as [|n want IH]; intros L H; [exists []; reflexivity|].
  destruct (fkw_get_some n names vals L (H n (or_introl eq_refl))) as [x E].
  destruct (IH L (fun m Hm => H m (or_intror Hm))) as [toks E2].
  exists (fv_tok x :: toks). cbn [fmt_fields]. rewrite E, E2. reflexivity.
Qed.

Lemma spec_line_ok c t pre vals :
  wf_cls (cls_of c t) = true -> length vals = length (attr_names c t) ->
  exists toks, fmt_fields (map fst (mand_of t) ++ extras_order (cls_of c t)) (attr_names c t) vals = Ok toks
               /\ spec_line c t pre vals = Ok (LRec t cTAB (pre ++ toks)).
Proof.
  intros WF L.
  destruct (fmt_fields_ok (attr_names c t) vals (map fst (mand_of t) ++ extras_order (cls_of c t)) L) as [toks E].
  - intros n Hn. unfold attr_names, base_types. rewrite map_app. apply in_or_app.
    apply in_app_or in Hn. destruct Hn as [Hn|Hn]; [left; exact Hn|right].
    rewrite map_map. cbn [fst].
    unfold wf_cls in WF. apply andb_true_iff in WF. destruct WF as [WF _].
    apply andb_true_iff in WF. destruct WF as [WF _].
    apply andb_true_iff in WF. destruct WF as [_ W3].
    rewrite forallb_forall in W3. apply mem_str_In. apply W3. exact Hn.
  - exists toks. split; [exact E|]. unfold spec_line. rewrite E. reflexivity.
Qed.

(* ---- reading the H / R lines ------------------------------------------------------------------ *)

Definition ty_of (c : cfg) (t : Z) : tdict := field_types (base_types c t) (extras_order (cls_of c t)).

Definition obj0 (e : wentry) : Z * obj :=
  (eid e, mkobj (w_kind (we_obj e)) (map fv_val (w_vals (we_obj e))) []).

Lemma rec_step_hr c st e toks :
  wf_cfg c = true -> entry_ok c e -> codec_ok c (w_kind (we_obj e)) (w_vals (we_obj e)) ->
  fmt_fields (map fst (mand_of (w_kind (we_obj e))) ++ extras_order (cls_of c (w_kind (we_obj e))))
             (attr_names c (w_kind (we_obj e))) (w_vals (we_obj e)) = Ok toks ->
  ~ In (eid e) (map fst (rs_data st)) ->
  rec_step c None (ty_of c cH) (ty_of c cV) (ty_of c cR) st (w_kind (we_obj e)) toks
  = Ok (mkrs (rs_data st ++ [obj0 e]) (rs_vars st) (rs_logs st)).
Proof.
  intros WF [K [L [_ [x [N X]]]]] CO HF Fresh.
  set (k := w_kind (we_obj e)) in *.
  assert (KK : (k =? cH) || (k =? cR) = true).
  { destruct K as [K|[K _]]; rewrite K; reflexivity. }
  unfold rec_step. rewrite KK.
  assert (TY : (if k =? cH then ty_of c cH else ty_of c cR) = ty_of c k).
  { destruct K as [K|[K _]]; rewrite K; reflexivity. }
  rewrite TY. unfold ty_of.
  rewrite (line_roundtrip c k (w_vals (we_obj e)) toks (wf_cfg_cls c k WF) L CO HF). cbn [bind].
  assert (ID : id_of (map fv_val (w_vals (we_obj e))) = Some (eid e)).
  { unfold id_of. rewrite nth_error_map, N. cbn [option_map]. rewrite X. reflexivity. }
  rewrite ID. cbn [selected]. rewrite (zdict_set_fresh _ _ _ Fresh). reflexivity.
Qed.

Lemma body_recs c : forall d recs st,
  wf_cfg c = true -> (forall e, In e d -> entry_ok c e) -> codec_data c d ->
  NoDup (map eid d) -> (forall e, In e d -> ~ In (eid e) (map fst (rs_data st))) ->
  mapM (fun e => spec_line c (w_kind (we_obj e)) [] (w_vals (we_obj e))) d = Ok recs ->
  body c None (ty_of c cH) (ty_of c cV) (ty_of c cR) st recs
  = Ok (mkrs (rs_data st ++ map obj0 d) (rs_vars st) (rs_logs st)).
Proof.
  induction d as [|e d IH]; intros recs st WF EO CO ND Fresh HM.
  - cbn [mapM] in HM. inversion HM. cbn [body map]. rewrite app_nil_r. destruct st; reflexivity.
  - apply mapM_cons_inv in HM. destruct HM as [ln [r [E1 [E2 ->]]]].
    pose proof (EO e (or_introl eq_refl)) as EOe.
    destruct EOe as [K [L Rest]].
    destruct (spec_line_ok c (w_kind (we_obj e)) [] (w_vals (we_obj e)) (wf_cfg_cls c _ WF) L) as [toks [HF SL]].
    rewrite SL in E1. inversion E1; subst ln; clear E1. cbn [app body].
    rewrite (rec_step_hr c st e toks WF (EO e (or_introl eq_refl)) (proj1 (CO e (or_introl eq_refl))) HF
               (Fresh e (or_introl eq_refl))).
    cbn [bind]. inversion ND as [|y l Hn ND']; subst.
    rewrite (IH r _ WF (fun x Hx => EO x (or_intror Hx)) (fun x Hx => CO x (or_intror Hx)) ND').
    + cbn [rs_data rs_vars rs_logs map]. rewrite <- app_assoc. reflexivity.
    + intros x Hx. cbn [rs_data]. rewrite map_app. cbn [map fst obj0]. intros I.
      apply in_app_or in I. destruct I as [I|I].
      * apply (Fresh x (or_intror Hx) I).
      * destruct I as [I|[]]. apply Hn. rewrite I. apply in_map. exact Hx.
    + exact E2.
Qed.

(* ---- reading the V lines ----------------------------------------------------------------------- *)

Definition vset (a : list (Z * list (list val))) (i : Z) (acc : list (list val)) :=
  match acc with [] => a | _ => a ++ [(i, acc)] end.

Lemma vset_get a i acc : ~ In i (map fst a) ->
  match zdict_get i (vset a i acc) with Some l => l | None => [] end = acc.
Proof.
  intros H. unfold vset. destruct acc as [|v acc].
  - rewrite (zdict_get_none i a H). reflexivity.
  - rewrite (zdict_get_last i _ a H). reflexivity.
Qed.

Lemma vset_set a i acc v : ~ In i (map fst a) ->
  zdict_set i (acc ++ [v]) (vset a i acc) = vset a i (acc ++ [v]).
Proof.
  intros H. unfold vset. destruct acc as [|w acc].
  - cbn [app]. apply zdict_set_fresh. exact H.
  - rewrite (zdict_set_last i _ _ a H). cbn [app]. reflexivity.
Qed.

Lemma body_vars_one c e a : forall vs lines acc st,
  wf_cfg c = true ->
  (forall v, In v vs -> length v = length (attr_names c cV) /\ codec_ok c cV v) ->
  ~ In (eid e) (map fst a) -> rs_vars st = vset a (eid e) acc ->
  mapM (fun v => spec_line c cV [we_ktok e] v) vs = Ok lines ->
  body c None (ty_of c cH) (ty_of c cV) (ty_of c cR) st lines
  = Ok (mkrs (rs_data st) (vset a (eid e) (acc ++ map (map fv_val) vs)) (rs_logs st)).
Proof.
  induction vs as [|v vs IH]; intros lines acc st WF H Fresh RV HM.
  - cbn [mapM] in HM. inversion HM. cbn [body map]. rewrite app_nil_r, <- RV. destruct st; reflexivity.
  - apply mapM_cons_inv in HM. destruct HM as [ln [r [E1 [E2 ->]]]].
    destruct (H v (or_introl eq_refl)) as [L CO].
    destruct (spec_line_ok c cV [we_ktok e] v (wf_cfg_cls c cV WF) L) as [toks [HF SL]].
    rewrite SL in E1. inversion E1; subst ln; clear E1. cbn [app body].
    unfold rec_step at 1. cbn -[ty_of from_spec zdict_set zdict_get].
    change (from_spec c 86 (ty_of c 86) toks) with (from_spec c cV (ty_of c cV) toks).
    unfold ty_of at 1.
    rewrite (line_roundtrip c cV v toks (wf_cfg_cls c cV WF) L CO HF). cbn [bind].
    fold (eid e). rewrite RV, (vset_get a (eid e) acc Fresh), (vset_set a (eid e) acc _ Fresh).
    rewrite (IH r (acc ++ [map fv_val v])
               (mkrs (rs_data st) (vset a (eid e) (acc ++ [map fv_val v])) (rs_logs st))
               WF (fun x Hx => H x (or_intror Hx)) Fresh eq_refl E2).
    cbn [rs_data rs_logs map]. rewrite <- app_assoc. reflexivity.
Qed.

Definition vars_of (l : list wentry) : list (Z * list (list val)) :=
  flat_map (fun e => match w_vars (we_obj e) with
                     | [] => []
                     | vs => [(eid e, map (map fv_val) vs)]
                     end) l.

Lemma vars_of_keys l h : In h (map fst (vars_of l)) -> In h (map eid l).
Proof.
  induction l as [|e l IH]; cbn [vars_of flat_map map]; [tauto|]. fold (vars_of l).
  rewrite map_app, in_app_iff. intros [H|H]; [left|right; apply IH; exact H].
  destruct (w_vars (we_obj e)); [contradiction|]. destruct H as [H|[]]. exact H.
Qed.

Lemma vars_of_NoDup l : NoDup (map eid l) -> NoDup (map fst (vars_of l)).
Proof.
  induction l as [|e l IH]; cbn [vars_of flat_map map]; intros ND; [constructor|]. fold (vars_of l).
  inversion ND as [|y l' Hn ND']; subst.
  destruct (w_vars (we_obj e)); cbn [app map fst]; [apply IH; exact ND'|].
  constructor; [|apply IH; exact ND']. intros X. apply Hn. apply vars_of_keys. exact X.
Qed.

Lemma vset_vars_of a e :
  vset a (eid e) (map (map fv_val) (w_vars (we_obj e))) = a ++ vars_of [e].
Proof.
  unfold vset, vars_of. cbn [flat_map]. rewrite app_nil_r.
  destruct (w_vars (we_obj e)); cbn [map]; [rewrite app_nil_r|]; reflexivity.
Qed.

Lemma vars_of_cons e l : vars_of (e :: l) = vars_of [e] ++ vars_of l.
Proof. unfold vars_of. cbn [flat_map]. rewrite app_nil_r. reflexivity. Qed.

Lemma body_vars c : forall l vlines st,
  wf_cfg c = true -> (forall e, In e l -> entry_ok c e) -> codec_data c l ->
  NoDup (map eid l) -> (forall e, In e l -> ~ In (eid e) (map fst (rs_vars st))) ->
  mapM (fun e => mapM (fun v => spec_line c cV [we_ktok e] v) (w_vars (we_obj e))) l = Ok vlines ->
  body c None (ty_of c cH) (ty_of c cV) (ty_of c cR) st (concat vlines)
  = Ok (mkrs (rs_data st) (rs_vars st ++ vars_of l) (rs_logs st)).
Proof.
  induction l as [|e l IH]; intros vlines st WF EO CO ND Fresh HM.
  - cbn [mapM] in HM. inversion HM. cbn [concat body vars_of flat_map]. rewrite app_nil_r. destruct st; reflexivity.
  - apply mapM_cons_inv in HM. destruct HM as [ls [r [E1 [E2 ->]]]].
    cbn [concat]. rewrite body_app.
    destruct (EO e (or_introl eq_refl)) as [_ [_ [LV _]]].
    rewrite (body_vars_one c e (rs_vars st) (w_vars (we_obj e)) ls [] st WF).
    + cbn [bind app]. inversion ND as [|y l' Hn ND']; subst.
      rewrite (IH r _ WF (fun x Hx => EO x (or_intror Hx)) (fun x Hx => CO x (or_intror Hx)) ND').
      * cbn [rs_data rs_vars rs_logs]. rewrite vset_vars_of, <- app_assoc, <- vars_of_cons. reflexivity.
      * intros x Hx. cbn [rs_vars]. rewrite vset_vars_of, map_app, in_app_iff. intros [I|I].
        -- apply (Fresh x (or_intror Hx) I).
        -- apply vars_of_keys in I. cbn [map] in I. destruct I as [I|[]]. apply Hn. rewrite I. apply in_map. exact Hx.
      * exact E2.
    + intros v Hv. split; [apply LV; exact Hv|apply (proj2 (CO e (or_introl eq_refl))); exact Hv].
    + apply Fresh. left. reflexivity.
    + reflexivity.
    + exact E1.
Qed.

(* ---- attaching the variants to their haplotypes -------------------------------------------------- *)

Definition upd (vars : list (Z * list (list val))) (ko : Z * obj) : Z * obj :=
  (fst ko, match zdict_get (fst ko) vars with
           | Some vs => mkobj (o_kind (snd ko)) (o_vals (snd ko)) vs
           | None => snd ko
           end).

Lemma attach_spec : forall vars data,
  NoDup (map fst vars) -> NoDup (map fst data) ->
  (forall h, In h (map fst vars) -> In h (map fst data)) ->
  attach data vars = Ok (map (upd vars) data).
Proof.
  induction vars as [|[h vs] vars IH]; intros data NV NDd Sub.
  - cbn [attach]. f_equal. symmetry. transitivity (map (fun x : Z * obj => x) data); [|apply map_id].
    apply map_ext. intros [k o]. reflexivity.
  - cbn [attach]. cbn [map fst] in NV, Sub. inversion NV as [|y l Hn NV']; subst.
    destruct (zdict_get_some h data (Sub h (or_introl eq_refl))) as [o E]. rewrite E.
    rewrite (zdict_set_map h (fun o => mkobj (o_kind o) (o_vals o) vs) data o NDd E).
    rewrite IH.
    + f_equal. rewrite map_map. apply map_ext. intros [k o']. unfold upd. cbn [fst snd zdict_get].
      destruct (k =? h) eqn:Ek.
      * apply Z.eqb_eq in Ek. subst k. cbn [fst snd]. rewrite Z.eqb_refl.
        rewrite (zdict_get_none h vars Hn). reflexivity.
      * cbn [fst snd]. rewrite Z.eqb_sym, Ek. reflexivity.
    + exact NV'.
    + rewrite map_map.
      replace (map (fun x => fst (if fst x =? h then (h, mkobj (o_kind (snd x)) (o_vals (snd x)) vs) else x)) data)
        with (map fst data); [exact NDd|].
      apply map_ext. intros [k o']. cbn [fst snd]. destruct (k =? h) eqn:Ek; [apply Z.eqb_eq in Ek; subst|]; reflexivity.
    + intros k Hk. rewrite map_map.
      replace (map (fun x => fst (if fst x =? h then (h, mkobj (o_kind (snd x)) (o_vals (snd x)) vs) else x)) data)
        with (map fst data); [apply Sub; right; exact Hk|].
      apply map_ext. intros [k' o']. cbn [fst snd]. destruct (k' =? h) eqn:Ek; [apply Z.eqb_eq in Ek; subst|]; reflexivity.
Qed.

Lemma vars_of_get l e :
  NoDup (map eid l) -> In e l ->
  zdict_get (eid e) (vars_of l)
  = match w_vars (we_obj e) with [] => None | vs => Some (map (map fv_val) vs) end.
Proof.
  induction l as [|x l IH]; intros ND I; [contradiction|].
  inversion ND as [|y l' Hn ND']; subst. cbn [vars_of flat_map]. fold (vars_of l).
  destruct I as [->|I].
  - destruct (w_vars (we_obj e)) eqn:W; cbn [app zdict_get].
    + apply zdict_get_none. intros X. apply Hn. apply vars_of_keys. exact X.
    + rewrite Z.eqb_refl. reflexivity.
  - assert (NE : eid x <> eid e) by (intros X; apply Hn; rewrite X; apply in_map; exact I).
    destruct (w_vars (we_obj x)); cbn [app zdict_get]; [apply IH; assumption|].
    apply Z.eqb_neq in NE. rewrite NE. apply IH; assumption.
Qed.

(* ---- the whole file --------------------------------------------------------------------------------- *)

Definition is_rec (l : line) : Prop := match l with LRec _ _ _ => True | _ => False end.

Lemma read_lines_hashes nc c sel hs : forall acc rest,
  read_lines false nc c sel acc (map LHash hs ++ rest) = read_lines false nc c sel (acc ++ hs) rest.
Proof.
  induction hs as [|s hs IH]; intros acc rest; cbn [map app read_lines].
  - rewrite app_nil_r. reflexivity.
  - rewrite IH, <- app_assoc. reflexivity.
Qed.

Lemma read_lines_recs c sel hdr rest :
  Forall is_rec rest -> read_lines false true c sel hdr rest = start_body false c sel hdr rest.
Proof.
  intros F. destruct rest as [|l rest]; [reflexivity|].
  inversion F as [|x y Hl _]; subst. destruct l; try contradiction. reflexivity.
Qed.

Lemma mapM_spec_line_recs {A} c (kind : A -> Z) (pre : A -> list tok) (vals : A -> list fval) l lines :
  mapM (fun e => spec_line c (kind e) (pre e) (vals e)) l = Ok lines -> Forall is_rec lines.
Proof.
  revert lines. induction l as [|e l IH]; intros lines H.
  - cbn [mapM] in H. inversion H. constructor.
  - apply mapM_cons_inv in H. destruct H as [b [r [E [E2 ->]]]]. constructor; [|apply IH; exact E2].
    unfold spec_line in E. apply bind_ok in E. destruct E as [toks [_ E]]. inversion E. exact I.
Qed.

Lemma mapM_mapM_spec_line_recs c l vlines :
  mapM (fun e : wentry => mapM (fun v => spec_line c cV [we_ktok e] v) (w_vars (we_obj e))) l = Ok vlines ->
  Forall is_rec (concat vlines).
Proof.
  revert vlines. induction l as [|e l IH]; intros vlines H.
  - cbn [mapM] in H. inversion H. constructor.
  - apply mapM_cons_inv in H. destruct H as [b [r [E [E2 ->]]]]. cbn [concat]. apply Forall_app. split.
    + apply (mapM_spec_line_recs c (fun _ => cV) (fun _ => [we_ktok e]) (fun v => v) _ _ E).
    + apply IH. exact E2.
Qed.

Definition isH (e : wentry) : bool := w_kind (we_obj e) =? cH.

Theorem hap_roundtrip_file c d :
  wf_cfg c = true -> clean_cfg c -> wf_data c d = true -> codec_data c d ->
  exists lines, to_str c d = Ok lines /\ read c None lines = Ok (strip_data d, []).
Proof.
  intros WF CL WD CO. destruct (wf_data_ok c d WD) as [EO ND].
  set (sH := sort_keys (filter isH d)).
  assert (PH : Permutation sH (filter isH d)) by apply sort_keys_perm.
  assert (InH : forall e, In e sH <-> In e d /\ isH e = true).
  { intros e. rewrite <- filter_In. split; apply Permutation_in; [exact PH|apply Permutation_sym; exact PH]. }
  assert (NDf : NoDup (map eid (filter isH d))).
  { clear -ND. induction d as [|x d IH]; cbn [filter map]; [constructor|].
    cbn [map] in ND. inversion ND as [|y l Hn ND']; subst.
    destruct (isH x); [|apply IH; exact ND']. cbn [map]. constructor; [|apply IH; exact ND'].
    intros X. apply Hn. apply in_map_iff in X. destruct X as [z [E I]]. apply filter_In in I.
    apply in_map_iff. exists z. tauto. }
  assert (NDs : NoDup (map eid sH)).
  { apply (Permutation_NoDup (l := map eid (filter isH d))); [|exact NDf].
    apply Permutation_map. apply Permutation_sym. exact PH. }
  (* the lines written *)
  destruct (mapM_ok (fun e => spec_line c (w_kind (we_obj e)) [] (w_vals (we_obj e))) d) as [recs ER].
  { intros e He. destruct (EO e He) as [_ [L _]].
    destruct (spec_line_ok c _ [] _ (wf_cfg_cls c _ WF) L) as [toks [_ S]]. eexists. exact S. }
  destruct (mapM_ok (fun e => mapM (fun v => spec_line c cV [we_ktok e] v) (w_vars (we_obj e))) sH) as [vlines EV].
  { intros e He. apply mapM_ok. intros v Hv. apply InH in He. destruct (EO e (proj1 He)) as [_ [_ [LV _]]].
    destruct (spec_line_ok c cV [we_ktok e] v (wf_cfg_cls c cV WF) (LV v Hv)) as [toks [_ S]]. eexists. exact S. }
  exists (map LHash (hdr_strs c) ++ recs ++ concat vlines). split.
  { unfold to_str. rewrite ER. cbn [bind]. fold isH. fold sH. rewrite EV. cbn [bind].
    rewrite <- hdr_lines_strs. rewrite <- !app_assoc. reflexivity. }
  (* reading them *)
  destruct (emitted_header_ok c true CL) as [hs [CH [LG TY]]].
  unfold read, read_mode. rewrite read_lines_hashes. cbn [app].
  rewrite read_lines_recs.
  2:{ apply Forall_app. split.
      - apply (mapM_spec_line_recs c (fun e => w_kind (we_obj e)) (fun _ => []) (fun e => w_vals (we_obj e)) _ _ ER).
      - apply (mapM_mapM_spec_line_recs c _ _ EV). }
  unfold start_body. rewrite CH. cbn [bind].
  rewrite (TY cH eq_refl), (TY cV eq_refl), (TY cR eq_refl), LG.
  fold (ty_of c cH) (ty_of c cV) (ty_of c cR).
  rewrite body_app.
  rewrite (body_recs c d recs (mkrs [] [] []) WF EO CO ND (fun e _ X => X) ER). cbn [bind rs_data rs_vars rs_logs app].
  rewrite (body_vars c sH vlines _ WF).
  - cbn [bind rs_data rs_vars rs_logs app].
    rewrite attach_spec.
    + cbn [bind]. f_equal. f_equal. unfold strip_data. rewrite map_map. apply map_ext_in. intros e He.
      unfold upd, obj0. cbn [fst snd o_kind o_vals]. fold (eid e). f_equal. unfold strip_obj.
      destruct (isH e) eqn:HE.
      * rewrite (vars_of_get sH e NDs (proj2 (InH e) (conj He HE))).
        destruct (w_vars (we_obj e)); reflexivity.
      * destruct (EO e He) as [[K|[K W]] _]; [unfold isH in HE; rewrite K in HE; discriminate|].
        rewrite W. cbn [map]. rewrite zdict_get_none; [reflexivity|].
        intros X. apply vars_of_keys in X. apply in_map_iff in X. destruct X as [e' [E I]].
        apply InH in I. destruct I as [I HE'].
        assert (e' = e) by (apply (NoDup_map_inj eid d e' e ND I He E)). subst e'. congruence.
    + apply vars_of_NoDup. exact NDs.
    + rewrite map_map. cbn [obj0 fst]. exact ND.
    + intros h Hh. apply vars_of_keys in Hh. rewrite map_map. cbn [obj0 fst].
      apply in_map_iff in Hh. destruct Hh as [e [E I]]. apply InH in I. apply in_map_iff. exists e. tauto.
  - intros e He. apply EO. apply InH in He. tauto.
  - intros e He. apply CO. apply InH in He. tauto.
  - exact NDs.
  - intros e He X. exact X.
  - exact EV.
Qed.
