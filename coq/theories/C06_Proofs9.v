(* C06 - lemmas and proofs, part 9: the round trip "up to the declared format" and
   the byte identity of the second write; boolean forms of the preconditions
   (used for the satisfiability examples); the reader does not depend on where the
   V lines stand among the other record lines. *)
From HV Require Import Prelude C06_Model C06_Check C06_Proofs C06_Proofs2 C06_Proofs3 C06_Proofs4 C06_Proofs5
  C06_Proofs6 C06_Proofs7 C06_Proofs8.

(* ---- boolean preconditions ---------------------------------------------------------- *)

Lemma has_tab_false s : has_tab s = false -> ~ In cTAB s.
Proof.
  unfold has_tab. intros H I. assert (existsb (Z.eqb cTAB) s = true); [|congruence].
  apply existsb_exists. exists cTAB. split; [exact I|apply Z.eqb_refl].
Qed.

Lemma clean_cfgb_sound c : clean_cfgb c = true -> clean_cfg c.
Proof.
  unfold clean_cfgb, clean_cfg. intros H. apply andb_true_iff in H. destruct H as [H1 H2]. split.
  - apply has_tab_false. apply negb_true_iff. exact H1.
  - intros t x T I. rewrite forallb_forall in H2.
    assert (IT : In t type_letters).
    { destruct (type_letter_cases t T) as [ -> | [ -> | -> ] ]; cbn; auto. }
    specialize (H2 t IT). rewrite forallb_forall in H2. specialize (H2 x I).
    apply has_tab_false. apply negb_true_iff. exact H2.
Qed.

Lemma val_eqb_eq a b : val_eqb a b = true -> a = b.
Proof. destruct a, b; cbn; intros H; try discriminate; apply Z.eqb_eq in H; subst; reflexivity. Qed.

Lemma fkw_get_In n : forall names vals x, fkw_get n names vals = Some x -> In n names.
Proof.
  induction names as [|m names IH]; intros vals x H; [destruct vals; discriminate|].
  destruct vals as [|v vals]; [discriminate|]. cbn [fkw_get] in H.
  destruct (str_eqb m n) eqn:E; [left; apply str_eqb_eq; exact E|right; apply (IH vals x H)].
Qed.

Lemma codec_okb_sound c t vals : codec_okb c t vals = true -> codec_ok c t vals.
Proof.
  unfold codec_okb, codec_ok. intros H n x ty G T. rewrite forallb_forall in H.
  specialize (H n (fkw_get_In n _ _ _ G)). rewrite G, T in H.
  destruct (conv ty (fv_tok x)) as [v|k]; cbn [res_eqb] in H; [|discriminate].
  apply val_eqb_eq in H. subst. reflexivity.
Qed.

Lemma codec_datab_sound c d : codec_datab c d = true -> codec_data c d.
Proof.
  unfold codec_datab, codec_data. intros H e He. rewrite forallb_forall in H. specialize (H e He).
  apply andb_true_iff in H. destruct H as [H1 H2]. split; [apply codec_okb_sound; exact H1|].
  intros v Hv. rewrite forallb_forall in H2. apply codec_okb_sound. apply H2. exact Hv.
Qed.

Theorem hap_roundtrip_file_b c d :
  rt_pre c d = true ->
  exists lines, to_str c d = Ok lines /\ read c None lines = Ok (strip_data d, []).
Proof.
  unfold rt_pre. intros H.
  apply andb_true_iff in H. destruct H as [H H4].
  apply andb_true_iff in H. destruct H as [H H3].
  apply andb_true_iff in H. destruct H as [H1 H2].
  apply hap_roundtrip_file; [exact H1|apply clean_cfgb_sound; exact H2|exact H3|apply codec_datab_sound; exact H4].
Qed.

(* ---- up to the declared format, and the second write --------------------------------- *)

(* [d0] is any collection; [d] has the same keys, kinds, structure and formatted texts
   and holds, for every field, the value its text converts to (so d = d0 wherever the
   format is exact, and the rounded value for a float written with fewer digits).
   The file written from d0 is read back as d, and writing any collection that has
   d's formatted texts - in particular what was read, formatted again, provided
   formatting the converted value gives the same text - reproduces the file. *)
Theorem hap_roundtrip_up_to_format c d0 d :
  wf_cfg c = true -> clean_cfg c -> Forall2 same_toks_entry d0 d ->
  wf_data c d = true -> codec_data c d ->
  exists lines,
    to_str c d0 = Ok lines
    /\ read c None lines = Ok (strip_data d, [])
    /\ forall d2, Forall2 same_toks_entry d d2 -> to_str c d2 = Ok lines.
Proof.
  intros WF CL S WD CO. destruct (hap_roundtrip_file c d WF CL WD CO) as [lines [W R]].
  exists lines. split; [rewrite (to_str_tokens_only c d0 d S); exact W|]. split; [exact R|].
  intros d2 S2. rewrite <- (to_str_tokens_only c d d2 S2). exact W.
Qed.

Lemma same_toks_entry_refl e : same_toks_entry e e.
Proof.
  unfold same_toks_entry, same_toks_obj, same_toks_vals. repeat split.
  induction (w_vars (we_obj e)); constructor; [reflexivity|assumption].
Qed.

Lemma same_toks_refl d : Forall2 same_toks_entry d d.
Proof. induction d; constructor; [apply same_toks_entry_refl|assumption]. Qed.

(* write -> read -> write is the identity on files *)
Corollary write_read_write_idem c d lines :
  wf_cfg c = true -> clean_cfg c -> wf_data c d = true -> codec_data c d ->
  to_str c d = Ok lines ->
  read c None lines = Ok (strip_data d, [])
  /\ forall d2, strip_data d2 = strip_data d -> Forall2 same_toks_entry d d2 -> to_str c d2 = Ok lines.
Proof.
  intros WF CL WD CO W.
  destruct (hap_roundtrip_up_to_format c d d WF CL (same_toks_refl d) WD CO) as [l2 [W2 [R I]]].
  rewrite W in W2. inversion W2; subst l2. split; [exact R|]. intros d2 _ S. apply I. exact S.
Qed.

(* ---- satisfiability ------------------------------------------------------------------- *)

Example rt_pre_example : rt_pre ex_cfg ex_data = true.
Proof. vm_compute. reflexivity. Qed.

(* a collection whose float values are not of the declared precision: the value
   read back is the one the text converts to, the texts - hence the files - agree *)
Definition ex_data0 : list wentry :=
  [ mkwe [104] (tn 1)
      (mkwobj cH [fv (VStr 10) (tn 10); fv (VInt 5) (ti 11 5 50); fv (VInt 9) (ti 12 9 51); fv (VStr 1) (tn 1);
                  fv (VFlt 99) (tf 13 60); fv (VStr 14) (tn 14)] []) ].
Definition ex_data1 : list wentry :=
  [ mkwe [104] (tn 1)
      (mkwobj cH [fv (VStr 10) (tn 10); fv (VInt 5) (ti 11 5 50); fv (VInt 9) (ti 12 9 51); fv (VStr 1) (tn 1);
                  fv (VFlt 60) (tf 13 60); fv (VStr 14) (tn 14)] []) ].

Example up_to_format_example :
  Forall2 same_toks_entry ex_data0 ex_data1
  /\ rt_pre ex_cfg ex_data1 = true
  /\ rt_pre ex_cfg ex_data0 = false
  /\ strip_data ex_data0 <> strip_data ex_data1
  /\ to_str ex_cfg ex_data0 = to_str ex_cfg ex_data1.
Proof.
  split.
  { constructor; [|constructor]. unfold same_toks_entry, same_toks_obj, same_toks_vals. cbn. repeat split. constructor. }
  split; [vm_compute; reflexivity|]. split; [vm_compute; reflexivity|].
  split; [vm_compute; discriminate|vm_compute; reflexivity].
Qed.

(* ---- the reader does not depend on where the V lines stand ------------------------------ *)

Definition lstep (c : cfg) (sel : option (list Z)) (tH tV tR : tdict) (st : rstate) (l : line) : res rstate :=
  match l with
  | LBlank => Err ErrIndex
  | LHash _ => Ok st
  | LRec k _ toks => rec_step c sel tH tV tR st k toks
  end.

Lemma body_cons c sel tH tV tR st l r :
  body c sel tH tV tR st (l :: r) = bind (lstep c sel tH tV tR st l) (fun st' => body c sel tH tV tR st' r).
Proof. destruct l; reflexivity. Qed.

Definition is_v (l : line) : bool := match l with LRec k _ _ => k =? cV | _ => false end.

(* a V line and a following non-V line can be exchanged *)
Lemma lstep_swap c sel tH tV tR st lv ln s1 s2 :
  is_v lv = true -> is_v ln = false ->
  lstep c sel tH tV tR st lv = Ok s1 -> lstep c sel tH tV tR s1 ln = Ok s2 ->
  exists s1', lstep c sel tH tV tR st ln = Ok s1' /\ lstep c sel tH tV tR s1' lv = Ok s2.
Proof.
  intros V NV E1 E2.
  destruct lv as [|kv sv tv|]; try discriminate. cbn [is_v] in V. apply Z.eqb_eq in V. subst kv.
  destruct st as [data vars logs].
  cbn [lstep] in E1. unfold rec_step in E1. cbn [Z.eqb cH cR cV orb Pos.eqb] in E1.
  destruct tv as [|hap rest]; [discriminate|].
  destruct (from_spec c cV tV rest) as [vals|] eqn:FS; [|discriminate]. cbn [bind] in E1.
  destruct ln as [x|k sep toks|]; [| |discriminate].
  - cbn [lstep] in *. inversion E2; subst s2. exists (mkrs data vars logs). split; [reflexivity|].
    unfold rec_step. cbn [Z.eqb cH cR cV orb Pos.eqb]. rewrite FS. exact E1.
  - cbn [is_v] in NV. cbn [lstep] in *. unfold rec_step in E2 |- *. rewrite NV in *.
    cbn [Z.eqb cH cR cV orb Pos.eqb]. rewrite FS. cbn [bind].
    destruct ((k =? cH) || (k =? cR)).
    + destruct (from_spec c k (if k =? cH then tH else tR) toks) as [vals'|]; [|discriminate]. cbn [bind] in *.
      destruct (id_of vals') as [i|]; [|discriminate].
      destruct (selected sel (t_id hap)); inversion E1; subst s1; clear E1;
        destruct (selected sel i); inversion E2; subst s2; clear E2; cbn [rs_data rs_vars rs_logs];
        eexists; split; reflexivity.
    + destruct (selected sel (t_id hap)); inversion E1; subst s1; clear E1;
        inversion E2; subst s2; clear E2; cbn [rs_data rs_vars rs_logs]; eexists; split; reflexivity.
Qed.

Lemma body_push_v c sel tH tV tR lv : forall nvs rest st s1 st',
  is_v lv = true -> forallb (fun l => negb (is_v l)) nvs = true ->
  lstep c sel tH tV tR st lv = Ok s1 ->
  body c sel tH tV tR s1 (nvs ++ rest) = Ok st' ->
  body c sel tH tV tR st (nvs ++ lv :: rest) = Ok st'.
Proof.
  induction nvs as [|n nvs IH]; intros rest st s1 st' V NV E1 B.
  - cbn [app]. rewrite body_cons, E1. exact B.
  - cbn [forallb] in NV. apply andb_true_iff in NV. destruct NV as [N1 N2]. apply negb_true_iff in N1.
    cbn [app] in *. rewrite body_cons in B. apply bind_ok in B. destruct B as [s2 [E2 B]].
    destruct (lstep_swap c sel tH tV tR st lv n s1 s2 V N1 E1 E2) as [s1' [A1 A2]].
    rewrite body_cons, A1. cbn [bind]. apply (IH rest s1' s2 st' V N2 A2 B).
Qed.

Definition canon (ls : list line) : list line :=
  filter (fun l => negb (is_v l)) ls ++ filter is_v ls.

Lemma body_canon c sel tH tV tR : forall ls st st',
  body c sel tH tV tR st ls = Ok st' -> body c sel tH tV tR st (canon ls) = Ok st'.
Proof.
  unfold canon. induction ls as [|l ls IH]; intros st st' B; [exact B|].
  rewrite body_cons in B. apply bind_ok in B. destruct B as [s1 [E1 B]].
  specialize (IH s1 st' B). cbn [filter].
  destruct (is_v l) eqn:V; cbn [negb].
  - apply (body_push_v c sel tH tV tR l _ _ st s1 st' V); [|exact E1|exact IH].
    apply forallb_forall. intros x Hx. apply filter_In in Hx. tauto.
  - cbn [app]. rewrite body_cons, E1. exact IH.
Qed.

Lemma canon_recs ls : Forall is_rec ls -> Forall is_rec (canon ls).
Proof.
  intros F. unfold canon. apply Forall_app. rewrite !Forall_forall in *.
  split; intros x Hx; apply filter_In in Hx; apply F; tauto.
Qed.

(* moving every V line behind all H / R lines (keeping the relative order inside both
   groups) changes nothing: same records, same variants in the same order, same warnings *)
Theorem read_line_order_independent c sel hdr ls r :
  Forall is_rec ls ->
  read c sel (map LHash hdr ++ ls) = Ok r ->
  read c sel (map LHash hdr ++ canon ls) = Ok r.
Proof.
  intros F. unfold read, read_mode. rewrite !read_lines_hashes. cbn [app].
  rewrite (read_lines_recs c sel hdr ls F), (read_lines_recs c sel hdr (canon ls) (canon_recs ls F)).
  intros H. apply bind_ok in H. destruct H as [st [H1 H2]].
  unfold start_body in *. destruct (check_header false c true true hdr) as [hs|k]; [|discriminate].
  cbn [bind] in *. rewrite (body_canon _ _ _ _ _ _ _ _ H1). cbn [bind]. exact H2.
Qed.

(* a V line before its H line, and the same file in the writer's order *)
Example v_before_h_example :
  let hdr := [[35; 9; 118; 101; 114; 115; 105; 111; 110; 9; 48; 46; 50; 46; 48]] in
  let h := LRec cH cTAB [tn 0; ti 1 10 2; ti 3 20 4; tn 5] in
  let v := LRec cV cTAB [tn 5; ti 1 10 2; ti 6 11 7; tn 8; tn 9] in
  read cfg0 None (map LHash hdr ++ [v; h])
  = Ok ([(5, mkobj cH [VStr 0; VInt 10; VInt 20; VStr 5] [[VInt 10; VInt 11; VStr 8; VStr 9]])], [])
  /\ canon [v; h] = [h; v].
Proof. vm_compute. split; reflexivity. Qed.

(* a V line without its H line is an error whatever the order *)
Example v_without_h_example :
  let v := LRec cV cTAB [tn 5; ti 1 10 2; ti 6 11 7; tn 8; tn 9] in
  read cfg0 None [v] = Err ErrKey.
Proof. vm_compute. reflexivity. Qed.
