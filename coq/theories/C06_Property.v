(* C06 - property theorems only. *)
From HV Require Import Prelude C06_Model C06_Check C06_Proofs.

Example C06_legacy_short_comment_refuted :
  check_header true cfg0 true true [[35]] = Err ErrIndex
  /\ check_header true cfg0 true true [[35; 32]] = Err ErrIndex
  /\ check_header true cfg0 true true [[35; 72]] = Err ErrIndex
  /\ pure_comment [35] = true /\ pure_comment [35; 32] = true /\ pure_comment [35; 72] = true
  /\ check_header true cfg0 true true [] <> Err ErrIndex.
Proof. exact legacy_short_comment_refuted. Qed.
Print Assumptions C06_legacy_short_comment_refuted.
