(* C06 - property theorems only.  [read], [check_header false], [to_str] are the
   Gallina model (C06_Model) of Haplotypes.read / check_header / to_str after
   fixes/C06_short_comment.patch and fixes/C06_norecords_header.patch. *)
From HV Require Import Prelude C06_Model C06_Check C06_Proofs C06_Proofs2 C06_Proofs3 C06_Proofs4 C06_Proofs5.

(* ---- comment lines ---------------------------------------------------------- *)

Theorem C06_comments_ignored :
  forall c sel s l1 l2, pure_comment s = true ->
  read c sel (l1 ++ LHash s :: l2) = read c sel (l1 ++ l2).
Proof. exact comments_ignored. Qed.
Print Assumptions C06_comments_ignored.

Theorem C06_comments_ignored_many :
  forall c sel (ls : list (line * bool)),
  forallb (fun x => negb (snd x) || match fst x with LHash s => pure_comment s | _ => false end) ls = true ->
  forall pre,
  read c sel (pre ++ map fst ls) = read c sel (pre ++ map fst (filter (fun x => negb (snd x)) ls)).
Proof. exact comments_ignored_many. Qed.
Print Assumptions C06_comments_ignored_many.

Theorem C06_check_header_comments :
  forall c cv softly (ls : list (str * bool)),
  forallb (fun x => negb (snd x) || pure_comment (fst x)) ls = true ->
  forall pre,
  check_header false c cv softly (pre ++ map fst ls)
  = check_header false c cv softly (pre ++ map fst (filter (fun x => negb (snd x)) ls)).
Proof. exact check_header_comments. Qed.
Print Assumptions C06_check_header_comments.

(* the shapes named by the property: '#', '# text', '#text', '#\ttext' *)
Theorem C06_comment_shapes :
  pure_comment [cHASH] = true
  /\ (forall rest, pure_comment (cHASH :: 32 :: rest) = true)
  /\ (forall c1 rest, c1 <> cTAB -> is_type_letter c1 = false -> pure_comment (cHASH :: c1 :: rest) = true)
  /\ (forall name rest, ~ In cTAB name -> name <> s_version -> order_letter name = None ->
        pure_comment (cHASH :: cTAB :: name ++ match rest with [] => [] | _ => cTAB :: rest end) = true).
Proof.
  exact (conj bare_hash_pure (conj hash_space_pure (conj hash_text_pure hash_tab_text_pure))).
Qed.
Print Assumptions C06_comment_shapes.

Example C06_legacy_short_comment_refuted :
  check_header true cfg0 true true [[35]] = Err ErrIndex
  /\ check_header true cfg0 true true [[35; 32]] = Err ErrIndex
  /\ check_header true cfg0 true true [[35; 72]] = Err ErrIndex
  /\ pure_comment [35] = true /\ pure_comment [35; 32] = true /\ pure_comment [35; 72] = true
  /\ check_header true cfg0 true true [] <> Err ErrIndex.
Proof. exact legacy_short_comment_refuted. Qed.
Print Assumptions C06_legacy_short_comment_refuted.

(* ---- versions ------------------------------------------------------------------ *)

Theorem C06_version_decision :
  forall softly cur v oM om op eM em ep,
  parse3 v = Some (oM, om, op) -> parse3 cur = Some (eM, em, ep) ->
  (reported v (check_version softly cur v) <-> (oM <> eM \/ om > em)).
Proof. exact version_decision. Qed.
Print Assumptions C06_version_decision.

Theorem C06_version_supported_quiet :
  forall softly cur v oM om op eM em ep,
  parse3 v = Some (oM, om, op) -> parse3 cur = Some (eM, em, ep) ->
  oM = eM -> om <= em ->
  check_version softly cur v =
    Ok (if om <? em then [EvOutdated v] else if op <? ep then [EvPatch] else []).
Proof. exact version_supported_quiet. Qed.
Print Assumptions C06_version_supported_quiet.

Example C06_version_examples :
  let cur := [48; 46; 50; 46; 48] in
  check_version true cur [49; 46; 48; 46; 48] = Ok [EvUnsupported [49; 46; 48; 46; 48]]
  /\ check_version true cur [48; 46; 51; 46; 48] = Ok [EvUnsupported [48; 46; 51; 46; 48]]
  /\ check_version true cur [48; 46; 49; 46; 48] = Ok [EvOutdated [48; 46; 49; 46; 48]]
  /\ check_version true cur [48; 46; 50; 46; 49] = Ok []
  /\ check_version false cur [49; 46; 48; 46; 48] = Err ErrVersionReported
  /\ check_version true cur [48; 46; 50] = Err ErrValue.
Proof. exact version_examples. Qed.
Print Assumptions C06_version_examples.

Theorem C06_header_version_reported :
  forall c cv softly hs st v o e,
  check_header false c cv softly hs = Ok st -> cv = true ->
  In v (version_values hs) ->
  parse3 v = Some o -> parse3 (cfg_version c) = Some e -> unsupported o e = true ->
  softly = true /\ In (EvUnsupported v) (hs_logs st).
Proof. exact header_version_reported. Qed.
Print Assumptions C06_header_version_reported.

(* read: unsupported versions and undeclared-but-required extras are reported,
   also for a file without any record line *)
Theorem C06_read_reports :
  forall c sel ls d logs,
  read c sel ls = Ok (d, logs) ->
  (forall v o e, In v (version_values (header_of ls)) ->
     parse3 v = Some o -> parse3 (cfg_version c) = Some e -> unsupported o e = true ->
     In (EvUnsupported v) logs)
  /\ (missing_spec c (header_of ls) = [] \/ In (EvMissing (missing_spec c (header_of ls))) logs).
Proof. exact read_reports. Qed.
Print Assumptions C06_read_reports.

Example C06_legacy_norecords_unreported_refuted :
  let file := [LHash [35; 9; 118; 101; 114; 115; 105; 111; 110; 9; 49; 46; 48; 46; 48]] in
  read_legacy cfg0 None file = Ok ([], [])
  /\ read cfg0 None file = Ok ([], [EvUnsupported [49; 46; 48; 46; 48]]).
Proof. exact legacy_norecords_unreported_refuted. Qed.
Print Assumptions C06_legacy_norecords_unreported_refuted.

(* ---- extra fields ------------------------------------------------------------------ *)

Theorem C06_extras_bound_by_name :
  forall c t cols toks vals,
  wf_columns c t cols = true ->
  from_spec c t (field_types (base_types c t) cols) toks = Ok vals ->
  expected_vals c t cols toks = Ok vals.
Proof. exact extras_bound_by_name. Qed.
Print Assumptions C06_extras_bound_by_name.

Theorem C06_order_line_overrides_declarations :
  forall c st st' t o,
  hs_order st = hs_order st' -> zdict_get t (hs_order st) = Some o ->
  types_for c st t = types_for c st' t.
Proof. exact order_line_overrides_declarations. Qed.
Print Assumptions C06_order_line_overrides_declarations.

Example C06_skipped_column_example :
  let beta := [98; 101; 116; 97] in let zz := [122; 122] in
  let c := mkcfg (mkcls [(beta, TFlt)] [mkx beta [46; 50; 102] []]) (mkcls [] []) (mkcls [] []) [48; 46; 50; 46; 48] in
  let toks := [tn 0; ti 1 10 2; ti 3 20 4; tn 5; tn 6; tf 7 8] in
  wf_columns c cH [zz; beta] = true
  /\ from_spec c cH (field_types (base_types c cH) [zz; beta]) toks
     = Ok [VStr 0; VInt 10; VInt 20; VStr 5; VFlt 8]
  /\ expected_vals c cH [zz; beta] toks = Ok [VStr 0; VInt 10; VInt 20; VStr 5; VFlt 8].
Proof. exact skipped_column_example. Qed.
Print Assumptions C06_skipped_column_example.

Theorem C06_undeclared_required_reported :
  forall c cv softly hs st,
  check_header false c cv softly hs = Ok st ->
  missing_spec c hs = []
  \/ (softly = true /\ In (EvMissing (missing_spec c hs)) (hs_logs st)).
Proof. exact undeclared_required_reported. Qed.
Print Assumptions C06_undeclared_required_reported.

Theorem C06_undeclared_required_raises :
  forall c cv hs, missing_spec c hs <> [] -> is_err (check_header false c cv false hs) = true.
Proof. exact undeclared_required_raises. Qed.
Print Assumptions C06_undeclared_required_raises.

Theorem C06_missing_depends_on_declared_set :
  forall c hs hs',
  (forall t n, In n (decl_names hs t) <-> In n (decl_names hs' t)) ->
  missing_spec c hs = missing_spec c hs'.
Proof. exact missing_depends_on_declared_set. Qed.
Print Assumptions C06_missing_depends_on_declared_set.

(* ---- meaning of the boolean checkers evaluated on the implementation's output ---------- *)

Theorem C06_holds_version_soft_sound :
  forall cur vals logs, holds_version_soft cur vals logs = true ->
  forall v o e, In v vals -> parse3 v = Some o -> parse3 cur = Some e -> unsupported o e = true ->
  In (EvUnsupported v) logs.
Proof. exact holds_version_soft_sound. Qed.
Print Assumptions C06_holds_version_soft_sound.

Theorem C06_holds_missing_soft_sound :
  forall c hs logs, holds_missing_soft c hs logs = true ->
  missing_spec c hs = [] \/
  exists m', In (EvMissing m') logs /\ forall x, In x (missing_spec c hs) -> In x m'.
Proof. exact holds_missing_soft_sound. Qed.
Print Assumptions C06_holds_missing_soft_sound.

(* ---- round trip ---------------------------------------------------------------------------

   Full statements (not proved at file level; validated on every run by the
   `roundtrip` relation, whose agree/holds are evaluated on the implementation):

     hap_roundtrip :
       wf_cfg c = true -> wf_data c d = true -> (codec contract for every field of d) ->
       exists lines, to_str c d = Ok lines /\ read c None lines = Ok (strip_data d, [])
     write_read_write_idem :
       ... -> to_str c (reformat (read c None lines)) = Ok lines

   Proved: the per-record-line core of the first (to_hap_spec then from_hap_spec
   under the header to_str emits is the identity on attribute values), the
   reduction of the second to the codec contract (to_str depends on the
   collection only through keys, kinds, structure and formatted texts), and a
   worked instance of the file-level statement closed by computation. *)

Theorem C06_hap_roundtrip_partial_line :
  forall c t (vals : list fval) toks,
  wf_cls (cls_of c t) = true ->
  length vals = length (attr_names c t) ->
  (forall n x ty, fkw_get n (attr_names c t) vals = Some x -> getv n (base_types c t) = Some ty ->
     conv ty (fv_tok x) = Ok (fv_val x)) ->
  fmt_fields (map fst (mand_of t) ++ extras_order (cls_of c t)) (attr_names c t) vals = Ok toks ->
  from_spec c t (field_types (base_types c t) (extras_order (cls_of c t))) toks = Ok (map fv_val vals).
Proof. exact line_roundtrip. Qed.
Print Assumptions C06_hap_roundtrip_partial_line.

Theorem C06_write_read_write_idem_partial :
  forall c d1 d2, Forall2 same_toks_entry d1 d2 -> to_str c d1 = to_str c d2.
Proof. exact to_str_tokens_only. Qed.
Print Assumptions C06_write_read_write_idem_partial.

Example C06_hap_roundtrip_example :
  wf_cfg ex_cfg = true /\ wf_data ex_cfg ex_data = true
  /\ exists lines, to_str ex_cfg ex_data = Ok lines
       /\ length lines = 14%nat
       /\ read ex_cfg None lines = Ok (strip_data ex_data, []).
Proof. exact hap_roundtrip_example. Qed.
Print Assumptions C06_hap_roundtrip_example.
