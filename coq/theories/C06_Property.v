(* C06 - property theorems only.  [read], [check_header false], [to_str] are the
   Gallina model (C06_Model) of Haplotypes.read / check_header / to_str after
   fixes/C06_short_comment.patch and fixes/C06_norecords_header.patch. *)
From HV Require Import Prelude C06_Model C06_Check C06_Proofs C06_Proofs2 C06_Proofs3 C06_Proofs4 C06_Proofs5
  C06_Proofs6 C06_Proofs7 C06_Proofs8 C06_Proofs9 C06_Proofs10 C06_Proofs11 C06_Proofs12 C06_Proofs13.

(* ---- comment lines ---------------------------------------------------------- *)

Theorem C06_comments_ignored :
  forall c sel s l1 l2, pure_comment s = true ->
  read c sel (l1 ++ LHash s :: l2) = read c sel (l1 ++ l2).
Proof. exact comments_ignored. Qed.
Print Assumptions C06_comments_ignored.

Theorem C06_comments_ignored_many :
  forall c sel (ls : list (line * bool)),
  forallb (fun x => negb (snd x) || match fst x with LHash s => pure_comment s | _ => false end) ls = true ->
  forall pre,
  read c sel (pre ++ map fst ls) = read c sel (pre ++ map fst (filter (fun x => negb (snd x)) ls)).
Proof. exact comments_ignored_many. Qed.
Print Assumptions C06_comments_ignored_many.

Theorem C06_check_header_comments :
  forall c cv softly (ls : list (str * bool)),
  forallb (fun x => negb (snd x) || pure_comment (fst x)) ls = true ->
  forall pre,
  check_header false c cv softly (pre ++ map fst ls)
  = check_header false c cv softly (pre ++ map fst (filter (fun x => negb (snd x)) ls)).
Proof. exact check_header_comments. Qed.
Print Assumptions C06_check_header_comments.

(* the shapes named by the property: '#', '# text', '#text', '#\ttext' *)
Theorem C06_comment_shapes :
  pure_comment [cHASH] = true
  /\ (forall rest, pure_comment (cHASH :: 32 :: rest) = true)
  /\ (forall c1 rest, c1 <> cTAB -> is_type_letter c1 = false -> pure_comment (cHASH :: c1 :: rest) = true)
  /\ (forall name rest, ~ In cTAB name -> name <> s_version -> order_letter name = None ->
        pure_comment (cHASH :: cTAB :: name ++ match rest with [] => [] | _ => cTAB :: rest end) = true).
Proof.
  exact (conj bare_hash_pure (conj hash_space_pure (conj hash_text_pure hash_tab_text_pure))).
Qed.
Print Assumptions C06_comment_shapes.

Example C06_legacy_short_comment_refuted :
  check_header true cfg0 true true [[35]] = Err ErrIndex
  /\ check_header true cfg0 true true [[35; 32]] = Err ErrIndex
  /\ check_header true cfg0 true true [[35; 72]] = Err ErrIndex
  /\ pure_comment [35] = true /\ pure_comment [35; 32] = true /\ pure_comment [35; 72] = true
  /\ check_header true cfg0 true true [] <> Err ErrIndex.
Proof. exact legacy_short_comment_refuted. Qed.
Print Assumptions C06_legacy_short_comment_refuted.

(* ---- versions ------------------------------------------------------------------ *)

Theorem C06_version_decision :
  forall softly cur v oM om op eM em ep,
  parse3 v = Some (oM, om, op) -> parse3 cur = Some (eM, em, ep) ->
  (reported v (check_version softly cur v) <-> (oM <> eM \/ om > em)).
Proof. exact version_decision. Qed.
Print Assumptions C06_version_decision.

Theorem C06_version_supported_quiet :
  forall softly cur v oM om op eM em ep,
  parse3 v = Some (oM, om, op) -> parse3 cur = Some (eM, em, ep) ->
  oM = eM -> om <= em ->
  check_version softly cur v =
    Ok (if om <? em then [EvOutdated v] else if op <? ep then [EvPatch] else []).
Proof. exact version_supported_quiet. Qed.
Print Assumptions C06_version_supported_quiet.

Example C06_version_examples :
  let cur := [48; 46; 50; 46; 48] in
  check_version true cur [49; 46; 48; 46; 48] = Ok [EvUnsupported [49; 46; 48; 46; 48]]
  /\ check_version true cur [48; 46; 51; 46; 48] = Ok [EvUnsupported [48; 46; 51; 46; 48]]
  /\ check_version true cur [48; 46; 49; 46; 48] = Ok [EvOutdated [48; 46; 49; 46; 48]]
  /\ check_version true cur [48; 46; 50; 46; 49] = Ok []
  /\ check_version false cur [49; 46; 48; 46; 48] = Err ErrVersionReported
  /\ check_version true cur [48; 46; 50] = Err ErrValue.
Proof. exact version_examples. Qed.
Print Assumptions C06_version_examples.

Theorem C06_header_version_reported :
  forall c cv softly hs st v o e,
  check_header false c cv softly hs = Ok st -> cv = true ->
  In v (version_values hs) ->
  parse3 v = Some o -> parse3 (cfg_version c) = Some e -> unsupported o e = true ->
  softly = true /\ In (EvUnsupported v) (hs_logs st).
Proof. exact header_version_reported. Qed.
Print Assumptions C06_header_version_reported.

(* read: unsupported versions and undeclared-but-required extras are reported,
   also for a file without any record line *)
Theorem C06_read_reports :
  forall c sel ls d logs,
  read c sel ls = Ok (d, logs) ->
  (forall v o e, In v (version_values (header_of ls)) ->
     parse3 v = Some o -> parse3 (cfg_version c) = Some e -> unsupported o e = true ->
     In (EvUnsupported v) logs)
  /\ (missing_spec c (header_of ls) = [] \/ In (EvMissing (missing_spec c (header_of ls))) logs).
Proof. exact read_reports. Qed.
Print Assumptions C06_read_reports.

Example C06_legacy_norecords_unreported_refuted :
  let file := [LHash [35; 9; 118; 101; 114; 115; 105; 111; 110; 9; 49; 46; 48; 46; 48]] in
  read_legacy cfg0 None file = Ok ([], [])
  /\ read cfg0 None file = Ok ([], [EvUnsupported [49; 46; 48; 46; 48]]).
Proof. exact legacy_norecords_unreported_refuted. Qed.
Print Assumptions C06_legacy_norecords_unreported_refuted.

(* ---- extra fields ------------------------------------------------------------------ *)

Theorem C06_extras_bound_by_name :
  forall c t cols toks vals,
  wf_columns c t cols = true ->
  from_spec c t (field_types (base_types c t) cols) toks = Ok vals ->
  expected_vals c t cols toks = Ok vals.
Proof. exact extras_bound_by_name. Qed.
Print Assumptions C06_extras_bound_by_name.

Theorem C06_order_line_overrides_declarations :
  forall c st st' t o,
  hs_order st = hs_order st' -> zdict_get t (hs_order st) = Some o ->
  types_for c st t = types_for c st' t.
Proof. exact order_line_overrides_declarations. Qed.
Print Assumptions C06_order_line_overrides_declarations.

Example C06_skipped_column_example :
  let beta := [98; 101; 116; 97] in let zz := [122; 122] in
  let c := mkcfg (mkcls [(beta, TFlt)] [mkx beta [46; 50; 102] []]) (mkcls [] []) (mkcls [] []) [48; 46; 50; 46; 48] in
  let toks := [tn 0; ti 1 10 2; ti 3 20 4; tn 5; tn 6; tf 7 8] in
  wf_columns c cH [zz; beta] = true
  /\ from_spec c cH (field_types (base_types c cH) [zz; beta]) toks
     = Ok [VStr 0; VInt 10; VInt 20; VStr 5; VFlt 8]
  /\ expected_vals c cH [zz; beta] toks = Ok [VStr 0; VInt 10; VInt 20; VStr 5; VFlt 8].
Proof. exact skipped_column_example. Qed.
Print Assumptions C06_skipped_column_example.

Theorem C06_undeclared_required_reported :
  forall c cv softly hs st,
  check_header false c cv softly hs = Ok st ->
  missing_spec c hs = []
  \/ (softly = true /\ In (EvMissing (missing_spec c hs)) (hs_logs st)).
Proof. exact undeclared_required_reported. Qed.
Print Assumptions C06_undeclared_required_reported.

Theorem C06_undeclared_required_raises :
  forall c cv hs, missing_spec c hs <> [] -> is_err (check_header false c cv false hs) = true.
Proof. exact undeclared_required_raises. Qed.
Print Assumptions C06_undeclared_required_raises.

Theorem C06_missing_depends_on_declared_set :
  forall c hs hs',
  (forall t n, In n (decl_names hs t) <-> In n (decl_names hs' t)) ->
  missing_spec c hs = missing_spec c hs'.
Proof. exact missing_depends_on_declared_set. Qed.
Print Assumptions C06_missing_depends_on_declared_set.

(* ---- meaning of the boolean checkers evaluated on the implementation's output ---------- *)

Theorem C06_holds_version_soft_sound :
  forall cur vals logs, holds_version_soft cur vals logs = true ->
  forall v o e, In v vals -> parse3 v = Some o -> parse3 cur = Some e -> unsupported o e = true ->
  In (EvUnsupported v) logs.
Proof. exact holds_version_soft_sound. Qed.
Print Assumptions C06_holds_version_soft_sound.

Theorem C06_holds_missing_soft_sound :
  forall c hs logs, holds_missing_soft c hs logs = true ->
  missing_spec c hs = [] \/
  exists m', In (EvMissing m') logs /\ forall x, In x (missing_spec c hs) -> In x m'.
Proof. exact holds_missing_soft_sound. Qed.
Print Assumptions C06_holds_missing_soft_sound.

(* ---- binding composed with header parsing ------------------------------------------------ *)

(* for every accepted header the types dict of a line type is the reordering by the
   columns the header lines give it (last order line, else declaration lines in order) *)
Theorem C06_types_follow_header :
  forall c cv softly hs st t,
  check_header false c cv softly hs = Ok st ->
  types_for c st t = field_types (base_types c t) (columns hs t).
Proof. exact types_follow_header. Qed.
Print Assumptions C06_types_follow_header.

Theorem C06_header_binds_by_name :
  forall c cv softly hs st t toks vals,
  check_header false c cv softly hs = Ok st ->
  wf_columns c t (columns hs t) = true ->
  from_spec c t (types_for c st t) toks = Ok vals ->
  expected_vals c t (columns hs t) toks = Ok vals.
Proof. exact header_binds_by_name. Qed.
Print Assumptions C06_header_binds_by_name.

(* ---- _get_field_types for every column list --------------------------------------------------- *)

Theorem C06_field_types_characterised :
  forall d cols, NoDup (keys d) ->
  field_types d cols = filter (notin cols) d ++ moved d (keep_last cols).
Proof. exact field_types_characterised. Qed.
Print Assumptions C06_field_types_characterised.

Theorem C06_field_types_repeats :
  forall d cols, NoDup (keys d) -> field_types d cols = field_types d (keep_last cols).
Proof. exact field_types_repeats. Qed.
Print Assumptions C06_field_types_repeats.

Example C06_malformed_order_examples :
  let a := [97] in let b := [98] in
  let c := mkcfg (mkcls [(a, TInt); (b, TInt)] [mkx a [100] []; mkx b [100] []]) (mkcls [] []) (mkcls [] [])
                 [48; 46; 50; 46; 48] in
  field_types (base_types c cH) [a; b; a] = field_types (base_types c cH) [b; a]
  /\ wf_columns c cH [a; b; a] = false
  /\ map fst (field_types (base_types c cH) [s_start; a; b]) = [s_chrom; s_end; s_id; s_start; a; b]
  /\ wf_columns c cH [s_start; a; b] = false.
Proof. exact malformed_order_examples. Qed.
Print Assumptions C06_malformed_order_examples.

(* ---- round trip ---------------------------------------------------------------------------
   clean_cfg  : no tab in the version string and in the names of the extra fields
   wf_cfg     : the _extras tuple of each class names exactly its extra dataclass fields,
                once each, none of them a mandatory field
   wf_data    : every record is a haplotype, or a repeat without variants; it has one value
                per attribute; its key is its id; ids are distinct
   codec_data : every written text converts back (str / int / float of the reader) to the
                value it was formatted from
   The field texts themselves are tokens of the model; that a token list is what the
   reader's split of the written characters gives is C06_text_layer_roundtrip
   (precondition clean_text: no tab, newline, carriage return). *)

(* the header to_str emits is accepted without any report and gives every line type the
   column order of the writer's _extras *)
Theorem C06_emitted_header_ok :
  forall c softly, clean_cfg c ->
  exists st, check_header false c true softly (hdr_strs c) = Ok st
    /\ hs_logs st = []
    /\ forall t, is_type_letter t = true ->
         types_for c st t = field_types (base_types c t) (extras_order (cls_of c t)).
Proof. exact emitted_header_ok. Qed.
Print Assumptions C06_emitted_header_ok.

Example C06_unclean_name_refuted :
  let bad := [97; 9; 98] in
  let c := mkcfg (mkcls [(bad, TStr)] [mkx bad [115] []]) (mkcls [] []) (mkcls [] []) [48; 46; 50; 46; 48] in
  wf_cfg c = true
  /\ columns (hdr_strs c) cH = [[97]; [98]]
  /\ columns (hdr_strs c) cH <> extras_order (cls_of c cH)
  /\ missing_spec c (hdr_strs c) <> [].
Proof. exact unclean_name_refuted. Qed.
Print Assumptions C06_unclean_name_refuted.

(* whole files, all collections: what to_str writes, read reads back - the same records in
   the same order, the same field values, every variant under its haplotype in the
   written order, no warning *)
Theorem C06_hap_roundtrip :
  forall c d,
  wf_cfg c = true -> clean_cfg c -> wf_data c d = true -> codec_data c d ->
  exists lines, to_str c d = Ok lines /\ read c None lines = Ok (strip_data d, []).
Proof. exact hap_roundtrip_file. Qed.
Print Assumptions C06_hap_roundtrip.

Theorem C06_hap_roundtrip_b :
  forall c d, rt_pre c d = true ->
  exists lines, to_str c d = Ok lines /\ read c None lines = Ok (strip_data d, []).
Proof. exact hap_roundtrip_file_b. Qed.
Print Assumptions C06_hap_roundtrip_b.

(* values preserved up to their declared format, and the second write: d0 is any collection,
   d the collection of the same texts holding the values the texts convert to *)
Theorem C06_hap_roundtrip_up_to_format :
  forall c d0 d,
  wf_cfg c = true -> clean_cfg c -> Forall2 same_toks_entry d0 d ->
  wf_data c d = true -> codec_data c d ->
  exists lines,
    to_str c d0 = Ok lines
    /\ read c None lines = Ok (strip_data d, [])
    /\ forall d2, Forall2 same_toks_entry d d2 -> to_str c d2 = Ok lines.
Proof. exact hap_roundtrip_up_to_format. Qed.
Print Assumptions C06_hap_roundtrip_up_to_format.

Theorem C06_write_read_write_idem :
  forall c d lines,
  wf_cfg c = true -> clean_cfg c -> wf_data c d = true -> codec_data c d ->
  to_str c d = Ok lines ->
  read c None lines = Ok (strip_data d, [])
  /\ forall d2, strip_data d2 = strip_data d -> Forall2 same_toks_entry d d2 -> to_str c d2 = Ok lines.
Proof. exact write_read_write_idem. Qed.
Print Assumptions C06_write_read_write_idem.

Example C06_rt_pre_example : rt_pre ex_cfg ex_data = true.
Proof. exact rt_pre_example. Qed.
Print Assumptions C06_rt_pre_example.

Example C06_up_to_format_example :
  Forall2 same_toks_entry ex_data0 ex_data1
  /\ rt_pre ex_cfg ex_data1 = true
  /\ rt_pre ex_cfg ex_data0 = false
  /\ strip_data ex_data0 <> strip_data ex_data1
  /\ to_str ex_cfg ex_data0 = to_str ex_cfg ex_data1.
Proof. exact up_to_format_example. Qed.
Print Assumptions C06_up_to_format_example.

(* a reader whose classes ask for fewer extras (names_sub: any sub-selection of the writer's
   names, in any order of fields and _extras): the unrequested columns are skipped, every
   requested attribute gets the value written under its name (proj / strip_data2) *)
Theorem C06_emitted_header_ok_subreader :
  forall wc rc softly,
  clean_cfg wc -> cfg_version rc = cfg_version wc -> names_sub rc wc ->
  exists st, check_header false rc true softly (hdr_strs wc) = Ok st
    /\ hs_logs st = []
    /\ forall t, is_type_letter t = true ->
         types_for rc st t = field_types (base_types rc t) (extras_order (cls_of wc t)).
Proof. exact emitted_header_ok2. Qed.
Print Assumptions C06_emitted_header_ok_subreader.

Theorem C06_hap_roundtrip_subreader :
  forall wc rc, wf_cfg wc = true -> wf_cfg rc = true -> names_sub rc wc ->
  forall d, clean_cfg wc -> cfg_version rc = cfg_version wc ->
  wf_data wc d = true -> codec_data2 wc rc d ->
  exists lines, to_str wc d = Ok lines /\ read rc None lines = Ok (strip_data2 wc rc d, []).
Proof. exact hap_roundtrip_subreader. Qed.
Print Assumptions C06_hap_roundtrip_subreader.

Theorem C06_hap_roundtrip_subreader_b :
  forall wc rc d, rt_pre2 wc rc d = true ->
  exists lines, to_str wc d = Ok lines /\ read rc None lines = Ok (strip_data2 wc rc d, []).
Proof. exact hap_roundtrip_subreader_b. Qed.
Print Assumptions C06_hap_roundtrip_subreader_b.

Example C06_subreader_example :
  rt_pre2 ex_cfg ex_rcfg ex_data = true
  /\ exists lines, to_str ex_cfg ex_data = Ok lines
       /\ read ex_rcfg None lines = Ok (strip_data2 ex_cfg ex_rcfg ex_data, [])
       /\ strip_data2 ex_cfg ex_rcfg ex_data
          = [ (1, mkobj cH [VStr 10; VInt 5; VInt 9; VStr 1; VFlt 60]
                       [[VInt 5; VInt 6; VStr 16; VStr 17]; [VInt 8; VInt 9; VStr 20; VStr 17]]);
              (2, mkobj cR [VStr 10; VInt 5; VInt 6; VStr 2] []);
              (3, mkobj cH [VStr 10; VInt 0; VInt 9; VStr 3; VFlt 62] [[VInt 0; VInt 5; VStr 25; VStr 17]]) ].
Proof. exact subreader_example. Qed.
Print Assumptions C06_subreader_example.

(* the reader stores V lines under their haplotype id: where they stand among the H / R
   lines is irrelevant (canon: all other lines first, then the V lines, both in file order) *)
Theorem C06_read_line_order_independent :
  forall c sel hdr ls r,
  Forall is_rec ls ->
  read c sel (map LHash hdr ++ ls) = Ok r ->
  read c sel (map LHash hdr ++ canon ls) = Ok r.
Proof. exact read_line_order_independent. Qed.
Print Assumptions C06_read_line_order_independent.

Example C06_v_before_h_example :
  let hdr := [[35; 9; 118; 101; 114; 115; 105; 111; 110; 9; 48; 46; 50; 46; 48]] in
  let h := LRec cH cTAB [tn 0; ti 1 10 2; ti 3 20 4; tn 5] in
  let v := LRec cV cTAB [tn 5; ti 1 10 2; ti 6 11 7; tn 8; tn 9] in
  read cfg0 None (map LHash hdr ++ [v; h])
  = Ok ([(5, mkobj cH [VStr 0; VInt 10; VInt 20; VStr 5] [[VInt 10; VInt 11; VStr 8; VStr 9]])], [])
  /\ canon [v; h] = [h; v].
Proof. exact v_before_h_example. Qed.
Print Assumptions C06_v_before_h_example.

Example C06_v_without_h_example :
  let v := LRec cV cTAB [tn 5; ti 1 10 2; ti 6 11 7; tn 8; tn 9] in
  read cfg0 None [v] = Err ErrKey.
Proof. exact v_without_h_example. Qed.
Print Assumptions C06_v_without_h_example.

(* ---- the text under the tokens ---------------------------------------------------------------- *)

Theorem C06_text_layer_roundtrip :
  forall (hdr : list str) (recs : list (Z * list str)),
  (forall h, In h hdr -> ~ In cNL h /\ ~ In cCR h) ->
  (forall k fs, In (k, fs) recs -> k <> cNL /\ k <> cCR /\ fs <> [] /\ forall w, In w fs -> clean_text w) ->
  let lines := hdr ++ map (fun kf => rec_text (fst kf) (snd kf)) recs in
  file_lines (file_text lines) = lines
  /\ forall k fs, In (k, fs) recs -> line_fields (rec_text k fs) = fs.
Proof. exact text_layer_roundtrip. Qed.
Print Assumptions C06_text_layer_roundtrip.

Example C06_text_layer_example :
  let hdr := [[35; 9; 118; 101; 114; 115; 105; 111; 110; 9; 48; 46; 50; 46; 48]] in
  let recs := [(cH, [[49]; [49; 48]; [50; 48]; [104; 32; 49]]); (cV, [[104; 32; 49]; [49; 48]; [49; 49]; [118]; [65]])] in
  let lines := hdr ++ map (fun kf => rec_text (fst kf) (snd kf)) recs in
  file_lines (file_text lines) = lines
  /\ map line_fields (skipn 1 lines) = map snd recs.
Proof. exact text_layer_example. Qed.
Print Assumptions C06_text_layer_example.

Example C06_unclean_text_refuted :
  let tab := [[49]; [49; 48]; [50; 48]; [97; 9; 98]] in
  let nl := rec_text cH [[49]; [49; 48]; [50; 48]; [97; 10; 98]] in
  let cr := rec_text cH [[49]; [49; 48]; [50; 48]; [97; 13; 98]] in
  line_fields (rec_text cH tab) = [[49]; [49; 48]; [50; 48]; [97]; [98]]
  /\ line_fields (rec_text cH tab) <> tab
  /\ length (file_lines (file_text [nl])) = 2%nat
  /\ length (file_lines (file_text [cr])) = 2%nat.
Proof. exact unclean_text_refuted. Qed.
Print Assumptions C06_unclean_text_refuted.

(* ---- version strings int() cannot parse ------------------------------------------------------- *)

Theorem C06_header_version_unparsable :
  forall c softly hs v,
  In v (version_values hs) -> parse3 v = None -> v <> cfg_version c ->
  is_err (check_header false c true softly hs) = true.
Proof. exact header_version_unparsable. Qed.
Print Assumptions C06_header_version_unparsable.

Theorem C06_read_version_unparsable :
  forall c sel ls v,
  In v (version_values (header_of ls)) -> parse3 v = None -> v <> cfg_version c ->
  is_err (read c sel ls) = true.
Proof. exact read_version_unparsable. Qed.
Print Assumptions C06_read_version_unparsable.

Example C06_version_unparsable_examples :
  parse3 [48; 46; 50] = None
  /\ parse3 [118; 48; 46; 50; 46; 48] = None
  /\ parse3 [48; 46; 50; 46; 120] = None
  /\ parse3 [] = None
  /\ parse3 [32; 48; 46; 48; 50; 46; 49; 95; 48] = Some (0, 2, 10).
Proof. exact version_unparsable_examples. Qed.
Print Assumptions C06_version_unparsable_examples.

(* ---- meaning of the roundtrip relation's checker ------------------------------------------------ *)

Theorem C06_holds_roundtrip_sound :
  forall k,
  holds_roundtrip k = true ->
  wf_cfg (w_cfg k) = true -> wf_cfg (w_rcfg k) = true -> sub_cfg (w_rcfg k) (w_cfg k) = true ->
  wf_data (w_cfg k) (w_data k) = true ->
  exists b1 logs,
    w_bytes1 k = Ok b1
    /\ w_read k = Ok (strip_data (w_data2 k), logs)
    /\ same_data (w_cfg k) (w_rcfg k) (w_data k) (w_data2 k) = true
    /\ (w_same k = true -> w_bytes2 k = Ok b1)
    /\ (w_same k = true -> rt_pre (w_cfg k) (w_data k) = true ->
        strip_data (w_data2 k) = strip_data (w_data k))
    /\ (rt_pre2 (w_cfg k) (w_rcfg k) (w_data k) = true ->
        strip_data (w_data2 k) = strip_data2 (w_cfg k) (w_rcfg k) (w_data k)).
Proof. exact holds_roundtrip_sound. Qed.
Print Assumptions C06_holds_roundtrip_sound.

(* ---- the per-line and per-text cores used above --------------------------------------------------- *)

Theorem C06_hap_roundtrip_partial_line :
  forall c t (vals : list fval) toks,
  wf_cls (cls_of c t) = true ->
  length vals = length (attr_names c t) ->
  (forall n x ty, fkw_get n (attr_names c t) vals = Some x -> getv n (base_types c t) = Some ty ->
     conv ty (fv_tok x) = Ok (fv_val x)) ->
  fmt_fields (map fst (mand_of t) ++ extras_order (cls_of c t)) (attr_names c t) vals = Ok toks ->
  from_spec c t (field_types (base_types c t) (extras_order (cls_of c t))) toks = Ok (map fv_val vals).
Proof. exact line_roundtrip. Qed.
Print Assumptions C06_hap_roundtrip_partial_line.

Theorem C06_write_read_write_idem_partial :
  forall c d1 d2, Forall2 same_toks_entry d1 d2 -> to_str c d1 = to_str c d2.
Proof. exact to_str_tokens_only. Qed.
Print Assumptions C06_write_read_write_idem_partial.

Example C06_hap_roundtrip_example :
  wf_cfg ex_cfg = true /\ wf_data ex_cfg ex_data = true
  /\ exists lines, to_str ex_cfg ex_data = Ok lines
       /\ length lines = 14%nat
       /\ read ex_cfg None lines = Ok (strip_data ex_data, []).
Proof. exact hap_roundtrip_example. Qed.
Print Assumptions C06_hap_roundtrip_example.

(* ---- the declared format plays no part in reading ----------------------------------------------------
   (the reader converts by the class's annotated type; only the writer uses the format).  [same_decl]:
   equal lines, or two declaration lines of one line type naming the same field - format, description,
   further fields arbitrary; [same_line] lifts it to files.  Holds for the pinned tree as well. *)

Theorem C06_declared_format_irrelevant_header :
  forall legacy c cv softly hs hs', Forall2 same_decl hs hs' ->
  check_header legacy c cv softly hs = check_header legacy c cv softly hs'.
Proof. exact declared_format_irrelevant_header. Qed.
Print Assumptions C06_declared_format_irrelevant_header.

Theorem C06_declared_format_irrelevant_read :
  forall legacy nc c sel ls ls', Forall2 same_line ls ls' ->
  read_mode legacy nc c sel ls = read_mode legacy nc c sel ls'.
Proof. exact declared_format_irrelevant_read. Qed.
Print Assumptions C06_declared_format_irrelevant_read.

(* inhabited by every declaration the writer emits: any two formats and descriptions *)
Theorem C06_decl_lines_same_decl :
  forall t n f d f' d', is_type_letter t = true -> ~ In cTAB n ->
  same_decl (decl_line t (mkx n f d)) (decl_line t (mkx n f' d')).
Proof. exact decl_lines_same_decl. Qed.
Print Assumptions C06_decl_lines_same_decl.

(* '#H pval .3e' (not asked for) declared before '#H beta .2f', '#V score g' before '#V weight d', no
   order lines: beta = float('0.25'), weight = 3; the same with '.2f'/'d' and with '.1%'/'x' instead *)
Example C06_exotic_format_example :
  read xf_cfg None xf_file_sci = Ok (xf_expected, [])
  /\ Forall2 same_line xf_file_sci xf_file_plain
  /\ Forall2 same_line xf_file_sci xf_file_pct
  /\ read xf_cfg None xf_file_plain = Ok (xf_expected, [])
  /\ read xf_cfg None xf_file_pct = Ok (xf_expected, []).
Proof. exact exotic_format_example. Qed.
Print Assumptions C06_exotic_format_example.

(* without the two declaration lines the same records bind beta to the p-value and weight to the score *)
Example C06_dropped_declaration_misbinds :
  read xf_cfg None (drop2 xf_file_sci)
  = Ok ([(6, mkobj 72 [VStr 0; VInt 100; VInt 200; VStr 6; VFlt 8] [[VInt 100; VInt 101; VStr 13; VStr 14; VInt 12]])], []).
Proof. exact dropped_declaration_misbinds. Qed.
Print Assumptions C06_dropped_declaration_misbinds.
