(* C07 - boolean checkers evaluated by the correspondence run.
   [agree]  : the model (fixed tree, concrete library instances) reproduces what
              was observed: the calls haptools made to pgenlib.PgenWriter, the
              file content as pysam reads it, and the object haptools read back;
   [holds]  : the property itself on the object read back, independent of the
              model: same samples, variants (id, chrom, pos, alleles), allele
              indices and missing calls, same phase for every heterozygous call
              (allele order immaterial for unphased ones).
   C07_Proofs.holds_*_sound state what [holds = true] means. *)
From HV Require Import Prelude C07_Model.

(* ---- the property's domain (its quantifier) ------------------------------- *)

(* half = true: a call may be missing in one allele only (VCF can hold it;
   PGEN cannot: pgenlib rejects a half-missing call) *)
Definition allele_domb (na a : Z) : bool := (a =? 255) || ((0 <=? a) && (a <? na)).

Definition call_domb (half : bool) (na : Z) (c : call) : bool :=
  let '(a, b, p) := c in
  allele_domb na a && allele_domb na b
  && (half || Bool.eqb (a =? 255) (b =? 255))
  && ((p =? 0) || (p =? 1)).

Definition row_domb (half : bool) (n : Z) (vr : variant * list call) : bool :=
  let na := lenZ (v_alleles (fst vr)) in
  (2 <=? na) && (na <=? 255) && (lenZ (snd vr) =? n) && forallb (call_domb half na) (snd vr).

Definition geno_domb (half : bool) (g : geno) : bool :=
  let n := lenZ (g_samples g) in
  (1 <=? n) && (lenZ (g_rows g) =? lenZ (g_variants g))
  && forallb (row_domb half n) (combine (g_variants g) (g_rows g)).

Definition chunk_domb (cs : option Z) : bool :=
  match cs with None => true | Some c => 1 <=? c end.

(* ---- the round-trip relation ---------------------------------------------- *)

(* pl = planes of the written array: with 2 planes every call is phased *)
Definition call_equivb (pl : Z) (x y : call) : bool :=
  let '(a, b, p) := x in
  let '(a', b', p') := y in
  if a =? b then (a' =? a) && (b' =? b)
  else if (pl <? 3) || negb (p =? 0) then (a' =? a) && (b' =? b) && negb (p' =? 0)
  else (p' =? 0) && (((a' =? a) && (b' =? b)) || ((a' =? b) && (b' =? a))).

Definition same_geno (g g' : geno) : bool :=
  list_eqb Z.eqb (g_samples g) (g_samples g')
  && list_eqb variant_eqb (g_variants g) (g_variants g')
  && list_eqb (list_eqb (call_equivb (planes g))) (g_rows g) (g_rows g').

(* when the reader dropped the phase plane (_prephased = True) only the alleles can
   be compared: in order for homozygous, missing and phased calls, as a pair otherwise *)
Definition allele_equivb (pl : Z) (x y : call) : bool :=
  let '(a, b, p) := x in
  let '(a', b', _) := y in
  if (a =? b) || (pl <? 3) || negb (p =? 0) then (a' =? a) && (b' =? b)
  else ((a' =? a) && (b' =? b)) || ((a' =? b) && (b' =? a)).

Definition same_alleles (g g' : geno) : bool :=
  list_eqb Z.eqb (g_samples g) (g_samples g')
  && list_eqb variant_eqb (g_variants g) (g_variants g')
  && list_eqb (list_eqb (allele_equivb (planes g))) (g_rows g) (g_rows g').

(* wpre / rpre: the _prephased attribute of the writing / reading object *)
Definition written (wpre : bool) (g : geno) : geno := if wpre then as_prephased g else g.
Definition as_read (rpre : bool) (g : geno) : geno := if rpre then drop_phase g else g.
Definition same_back (wpre rpre : bool) (g g' : geno) : bool :=
  if rpre then same_alleles (written wpre g) g' else same_geno (written wpre g) g'.

(* ---- PGEN relation --------------------------------------------------------- *)

Definition pair2_eqb := pair_eqb Z.eqb Z.eqb.

Definition batch_eqb (a b : batch) : bool :=
  list_eqb (list_eqb pair2_eqb) (b_codes a) (b_codes b)
  && list_eqb Z.eqb (b_cts a) (b_cts b)
  && opt_eqb (list_eqb (list_eqb Z.eqb)) (b_phase a) (b_phase b).

Record pcase := mkpc {
  pc_g : geno;                         (* the object that is written *)
  pc_cw : option Z; pc_cr : option Z;  (* chunk_size for write / read *)
  pc_strict_half : bool;               (* harness switch: demand the round trip also for calls missing in
                                          one allele only (pgenlib cannot store them; default false) *)
  pc_wpre : bool; pc_rpre : bool;      (* _prephased of the writing / reading object *)
  pc_calls : res (Z * list batch);     (* observed: allele_ct_limit and the append_*_batch calls
                                          (recorder around pgenlib.PgenWriter); Err = write raised *)
  pc_back : res geno                   (* observed: the object haptools read back *)
}.

Definition model_pgen (k : pcase) : res (Z * list batch) * res geno :=
  let g := written (pc_wpre k) (pc_g k) in
  (match pgen_write false (pc_cw k) g with
   | Ok pf => Ok (pf_limit pf, pf_batches pf)
   | Err e => Err e end,
   match pgen_roundtrip_model pload_std false (pc_cw k) (pc_cr k) g with
   | Ok b => Ok (as_read (pc_rpre k) b)
   | Err e => Err e end).

Definition agree_pgen (k : pcase) : bool :=
  let '(c, b) := model_pgen k in
  res_eqb (pair_eqb Z.eqb (list_eqb batch_eqb)) c (pc_calls k)
  && res_eqb geno_eqb b (pc_back k).

Definition holds_pgen (k : pcase) : bool :=
  if geno_domb (pc_strict_half k) (pc_g k) && chunk_domb (pc_cw k) && chunk_domb (pc_cr k) then
    match pc_back k with
    | Ok g' => same_back (pc_wpre k) (pc_rpre k) (pc_g k) g'
    | Err _ => false
    end
  else true.

Definition check_pgen (k : pcase) : bool * bool := (agree_pgen k, holds_pgen k).

(* ---- VCF/BCF relation ------------------------------------------------------ *)

Definition vcall_eqb (x y : vcall) : bool :=
  let '(a, b, p) := x in let '(a', b', p') := y in
  opt_eqb Z.eqb a a' && opt_eqb Z.eqb b b' && Bool.eqb p p'.

Definition vfile_eqb (x y : vfile) : bool :=
  list_eqb Z.eqb (vf_samples x) (vf_samples y)
  && list_eqb (pair_eqb variant_eqb (list_eqb vcall_eqb)) (vf_recs x) (vf_recs y).

Record vcase := mkvc {
  vc_g : geno;
  vc_indexed : bool;          (* a .tbi/.csi index exists beside the file *)
  vc_wpre : bool; vc_rpre : bool;   (* _prephased of the writing / reading object *)
  vc_file : res vfile;        (* observed: the written file as pysam.VariantFile reads it *)
  vc_back : res geno          (* observed: the object haptools read back (no region) *)
}.

Definition model_vcf (k : vcase) : vfile * geno :=
  let g := written (vc_wpre k) (vc_g k) in
  (vcf_write g, as_read (vc_rpre k) (vcf_roundtrip_model vload_std false (vc_indexed k) g)).

Definition agree_vcf (k : vcase) : bool :=
  let '(f, b) := model_vcf k in
  res_eqb vfile_eqb (Ok f) (vc_file k) && res_eqb geno_eqb (Ok b) (vc_back k).

Definition holds_vcf (k : vcase) : bool :=
  if geno_domb true (vc_g k) then
    match vc_back k with
    | Ok g' => same_back (vc_wpre k) (vc_rpre k) (vc_g k) g'
    | Err _ => false
    end
  else true.

Definition check_vcf (k : vcase) : bool * bool := (agree_vcf k, holds_vcf k).
