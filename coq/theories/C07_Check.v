(* C07 - boolean checkers evaluated by the correspondence run.
   [agree]  : the model (fixed tree, concrete library instances) reproduces what
              was observed: the calls haptools made to pgenlib.PgenWriter, the
              file content as pysam reads it, and the object haptools read back;
   [holds]  : the property itself on the object read back, independent of the
              model: same samples, variants (id, chrom, pos, alleles), allele
              indices and missing calls, same phase for every heterozygous call
              (allele order immaterial for unphased ones).
   Shapes without entries (no samples or no variants) are in the domain: [holds] then demands
   the same samples and variants and an array without entries (the property's "an empty
   matrix round-trips to an empty matrix").  Two families are outside what PGEN can hold
   and are not demanded to round-trip (see ASSUMPTIONS in harness/c07.py): variants without
   samples (refused with an error; an interpreter crash is not accepted) and calls missing
   in one allele only.
   C07_Proofs.holds_*_sound state what [holds = true] means. *)
From HV Require Import Prelude BpText C07_Text C07_Model C07_Files.

(* ---- the property's domain (its quantifier) ------------------------------- *)

(* half = true: a call may be missing in one allele only (VCF can hold it;
   PGEN cannot: pgenlib rejects a half-missing call) *)
Definition allele_domb (na a : Z) : bool := (a =? 255) || ((0 <=? a) && (a <? na)).

Definition call_domb (half : bool) (na : Z) (c : call) : bool :=
  let '(a, b, p) := c in
  allele_domb na a && allele_domb na b
  && (half || Bool.eqb (a =? 255) (b =? 255))
  && ((p =? 0) || (p =? 1)).

Definition row_domb (half : bool) (n : Z) (vr : variant * list call) : bool :=
  let na := lenZ (v_alleles (fst vr)) in
  (2 <=? na) && (na <=? 255) && (lenZ (snd vr) =? n) && forallb (call_domb half na) (snd vr).

Definition geno_domb (half : bool) (g : geno) : bool :=
  let n := lenZ (g_samples g) in
  (1 <=? n) && (lenZ (g_rows g) =? lenZ (g_variants g))
  && forallb (row_domb half n) (combine (g_variants g) (g_rows g)).

(* the same without the demand of a sample: the shapes 0 x p and 0 x 0 are included *)
Definition geno_domb0 (half : bool) (g : geno) : bool :=
  let n := lenZ (g_samples g) in
  (lenZ (g_rows g) =? lenZ (g_variants g))
  && forallb (row_domb half n) (combine (g_variants g) (g_rows g)).

(* a matrix without entries *)
Definition is_empty_geno (g : geno) : bool :=
  (lenZ (g_samples g) =? 0) || (lenZ (g_variants g) =? 0).

Definition has_half (g : geno) : bool :=
  existsb (existsb (fun c : call => let '(a, b, _) := c in negb (Bool.eqb (a =? 255) (b =? 255)))) (g_rows g).

(* positions the formats can hold: 1 .. 2^31 - 1 with the last base of REF at or below
   2^31 - 1 (VCF/BCF: htslib's 32-bit coordinates); PGEN: below 2^31 - 1 (pgenlib's .pvar
   reader).  Beyond them write refuses (C07_Model.write_guard) and nothing is demanded. *)
Definition pos_okb (pgen : bool) (v : variant) : bool :=
  (1 <=? v_pos v) && (1 <=? v_reflen v) && (v_pos v + v_reflen v - 1 <=? int_max)
  && (negb pgen || (v_pos v <? int_max)).

Definition pos_domb (pgen : bool) (g : geno) : bool := forallb (pos_okb pgen) (g_variants g).

Definition chunk_domb (cs : option Z) : bool :=
  match cs with None => true | Some c => 1 <=? c end.

(* ---- the round-trip relation ---------------------------------------------- *)

(* pl = planes of the written array: with 2 planes every call is phased *)
Definition call_equivb (pl : Z) (x y : call) : bool :=
  let '(a, b, p) := x in
  let '(a', b', p') := y in
  if a =? b then (a' =? a) && (b' =? b)
  else if (pl <? 3) || negb (p =? 0) then (a' =? a) && (b' =? b) && negb (p' =? 0)
  else (p' =? 0) && (((a' =? a) && (b' =? b)) || ((a' =? b) && (b' =? a))).

Definition same_geno (g g' : geno) : bool :=
  list_eqb Z.eqb (g_samples g) (g_samples g')
  && list_eqb variant_eqb (g_variants g) (g_variants g')
  && list_eqb (list_eqb (call_equivb (planes g))) (g_rows g) (g_rows g').

(* when the reader dropped the phase plane (_prephased = True) only the alleles can
   be compared: in order for homozygous, missing and phased calls, as a pair otherwise *)
Definition allele_equivb (pl : Z) (x y : call) : bool :=
  let '(a, b, p) := x in
  let '(a', b', _) := y in
  if (a =? b) || (pl <? 3) || negb (p =? 0) then (a' =? a) && (b' =? b)
  else ((a' =? a) && (b' =? b)) || ((a' =? b) && (b' =? a)).

Definition same_alleles (g g' : geno) : bool :=
  list_eqb Z.eqb (g_samples g) (g_samples g')
  && list_eqb variant_eqb (g_variants g) (g_variants g')
  && list_eqb (list_eqb (allele_equivb (planes g))) (g_rows g) (g_rows g').

(* the object read back from an empty matrix: same samples and variants, no entry *)
Definition nil_row {A} (l : list A) : bool := match l with [] => true | _ => false end.
Definition empty_back (g g' : geno) : bool :=
  list_eqb Z.eqb (g_samples g) (g_samples g')
  && list_eqb variant_eqb (g_variants g) (g_variants g')
  && forallb nil_row (g_rows g') && existsb (Z.eqb 0) (g_shape g').

(* wpre / rpre: the _prephased attribute of the writing / reading object *)
Definition written (wpre : bool) (g : geno) : geno := if wpre then as_prephased g else g.
Definition as_read (rpre : bool) (g : geno) : geno := if rpre then drop_phase g else g.
Definition same_back (wpre rpre : bool) (g g' : geno) : bool :=
  if rpre then same_alleles (written wpre g) g' else same_geno (written wpre g) g'.

(* ---- PGEN relation --------------------------------------------------------- *)

Definition pair2_eqb := pair_eqb Z.eqb Z.eqb.

Definition batch_eqb (a b : batch) : bool :=
  list_eqb (list_eqb pair2_eqb) (b_codes a) (b_codes b)
  && list_eqb Z.eqb (b_cts a) (b_cts b)
  && opt_eqb (list_eqb (list_eqb Z.eqb)) (b_phase a) (b_phase b).

(* what pgenlib itself reports for the files haptools wrote (PvarReader + PgenReader,
   not through haptools) *)
Record praw := mkpr {
  pr_n : Z;                       (* PgenReader.get_raw_sample_ct() *)
  pr_p : Z;                       (* PgenReader.get_variant_ct() *)
  pr_cts : list Z;                (* PvarReader.get_allele_ct(i) *)
  pr_calls : list (list scall)    (* read_alleles_and_phasepresent(i): (allele0, allele1, phasepresent) per sample *)
}.

Definition scall_eqb (x y : scall) : bool := call_eqb x y.

Definition praw_eqb (x y : praw) : bool :=
  (pr_n x =? pr_n y) && (pr_p x =? pr_p y) && list_eqb Z.eqb (pr_cts x) (pr_cts y)
  && list_eqb (list_eqb scall_eqb) (pr_calls x) (pr_calls y).

Record pcase := mkpc {
  pc_g : geno;                         (* the object that is written *)
  pc_cw : option Z; pc_cr : option Z;  (* chunk_size for write / read *)
  pc_wpre : bool; pc_rpre : bool;      (* _prephased of the writing / reading object *)
  pc_calls : res (Z * list batch);     (* observed: allele_ct_limit and the append_*_batch calls
                                          (recorder around pgenlib.PgenWriter); Err = write raised *)
  pc_raw : res praw;                   (* observed: the written files read with pgenlib directly;
                                          Err 0 = nothing to read (write failed / no variants) *)
  pc_back : res geno                   (* observed: the object haptools read back *)
}.

(* pgenlib's contract, as a check of one stored call against what was read *)
Definition pload_okb (s l : scall) : bool :=
  let '(x, y, f) := s in let '(a, b, f') := l in
  if x =? y then (a =? x) && (b =? y)
  else if negb (f =? 0) then (a =? x) && (b =? y) && negb (f' =? 0)
  else (f' =? 0) && (((a =? x) && (b =? y)) || ((a =? y) && (b =? x))).

(* the model of the direct read: from the batches haptools was seen to hand over *)
Definition model_raw (g : geno) (c : res (Z * list batch)) : res praw :=
  match c with
  | Ok (limit, bs) =>
      if lenZ (g_variants g) =? 0 then Err 0
      else let pf := mkpf (g_samples g) (g_variants g) limit bs in
           Ok (mkpr (lenZ (g_samples g)) (lenZ (g_variants g)) (map allele_ct (g_variants g))
                    (pgen_raw pload_std pf))
  | Err _ => Err 0
  end.

(* the contracts checked directly on what pgenlib did: every batch of a write that
   succeeded meets the precondition (and is within the limit pgenlib was given), and every
   call read directly relates to the stored one as pload_contract says *)
Definition contracts_pgen (k : pcase) : bool :=
  match pc_calls k, pc_raw k with
  | Ok (limit, bs), Ok r =>
      forallb (batch_ok limit) bs
      && list_eqb (list_eqb pload_okb) (concat (map batch_rows bs)) (pr_calls r)
  | Ok (limit, bs), Err _ => forallb (batch_ok limit) bs
  | Err _, _ => true
  end.

Definition model_pgen (k : pcase) : res (Z * list batch) * res geno :=
  let g := written (pc_wpre k) (pc_g k) in
  (match pgen_write_g paccept_std false (pc_cw k) g with
   | Ok pf => Ok (pf_limit pf, pf_batches pf)
   | Err e => Err e end,
   match pgen_roundtrip_g paccept_std pload_std false (pc_cw k) (pc_cr k) g with
   | Ok b => Ok (as_read (pc_rpre k) b)
   | Err e => Err e end).

Definition agree_pgen (k : pcase) : bool :=
  let '(c, b) := model_pgen k in
  res_eqb (pair_eqb Z.eqb (list_eqb batch_eqb)) c (pc_calls k)
  && res_eqb praw_eqb (model_raw (pc_g k) (pc_calls k)) (pc_raw k)
  && contracts_pgen k
  && res_eqb geno_eqb b (pc_back k).

Definition not_crash (e : Z) : bool := negb (e =? E_Crash) && negb (e =? 12).

Definition holds_pgen (k : pcase) : bool :=
  let g := pc_g k in
  if geno_domb0 true g && pos_domb true g && chunk_domb (pc_cw k) && chunk_domb (pc_cr k) then
    if (lenZ (g_samples g) =? 0) && negb (lenZ (g_variants g) =? 0) then
      (* variants without samples: PGEN cannot hold them; a refusal is accepted, a crash is not *)
      match pc_back k with
      | Ok g' => empty_back g g'
      | Err e => not_crash e
      end
    else if has_half g then true      (* a call missing in one allele only: PGEN cannot hold it *)
    else
      match pc_back k with
      | Ok g' => if is_empty_geno g then empty_back g g'
                 else same_back (pc_wpre k) (pc_rpre k) g g'
      | Err _ => false
      end
  else true.

Definition check_pgen (k : pcase) : bool * bool := (agree_pgen k, holds_pgen k).

(* ---- VCF/BCF relation ------------------------------------------------------ *)

Definition vcall_eqb (x y : vcall) : bool :=
  let '(a, b, p) := x in let '(a', b', p') := y in
  opt_eqb Z.eqb a a' && opt_eqb Z.eqb b b' && Bool.eqb p p'.

Definition vfile_eqb (x y : vfile) : bool :=
  list_eqb Z.eqb (vf_samples x) (vf_samples y)
  && list_eqb (pair_eqb variant_eqb (list_eqb vcall_eqb)) (vf_recs x) (vf_recs y).

Record vcase := mkvc {
  vc_g : geno;
  vc_fmt : vfmt; vc_idx : vidx;     (* .vcf / .vcf.gz / .bcf and the index beside the file *)
  vc_wpre : bool; vc_rpre : bool;   (* _prephased of the writing / reading object *)
  vc_file : res vfile;        (* observed: the written file as pysam.VariantFile reads it *)
  vc_back : res geno;         (* observed: the object haptools read back (no region) *)
  vc_region : option Z;       (* a contig that is then requested as region ... *)
  vc_rback : res geno         (* ... observed: what haptools read (Err 0 when none was requested) *)
}.

(* a write that pysam refuses leaves nothing to read: the harness then reports the error of
   the write as what was read back, and no region read *)
Definition model_vcf (k : vcase) : res vfile * res geno * res geno :=
  let g := written (vc_wpre k) (vc_g k) in
  match vcf_write_g g with
  | Err e => (Err e, Err e, Err 0)
  | Ok f =>
      let d := mkvd (vc_fmt k) (vc_idx k) f in
      let rd := fun region => match vcf_read vload_std hts_std false false region d with
                              | Ok b => Ok (as_read (vc_rpre k) b)
                              | Err e => Err e
                              end in
      (Ok f, rd None,
       match vc_region k with Some c => rd (Some c) | None => Err 0 end)
  end.

Definition agree_vcf (k : vcase) : bool :=
  let '(f, b, rb) := model_vcf k in
  res_eqb vfile_eqb f (vc_file k) && res_eqb geno_eqb b (vc_back k)
  && res_eqb geno_eqb rb (vc_rback k).

Definition holds_vcf (k : vcase) : bool :=
  let g := vc_g k in
  if geno_domb0 true g && pos_domb false g then
    match vc_back k with
    | Ok g' => if is_empty_geno g then empty_back g g'
               else same_back (vc_wpre k) (vc_rpre k) g g'
    | Err _ => false
    end
  else true.

Definition check_vcf (k : vcase) : bool * bool := (agree_vcf k, holds_vcf k).

(* ---- the text of the files: names as characters ------------------------------------ *)

(* what was read back, names as text *)
Record tback := mktb { tb_samples : list str; tb_variants : list tvariant; tb_calls : list (list call) }.

Definition tback_eqb (x y : tback) : bool :=
  list_eqb str_eqb (tb_samples x) (tb_samples y)
  && list_eqb tvariant_eqb (tb_variants x) (tb_variants y)
  && list_eqb (list_eqb call_eqb) (tb_calls x) (tb_calls y).

Definition tvfile_eqb (x y : tvfile) : bool :=
  list_eqb str_eqb (tf_samples x) (tf_samples y)
  && list_eqb (pair_eqb tvariant_eqb (list_eqb vcall_eqb)) (tf_recs x) (tf_recs y).

Record tcase := mktc {
  tc_target : Z;                   (* 0 = .pgen/.psam/.pvar, 1 = .vcf or .vcf.gz (text), 2 = .bcf *)
  tc_legacy_csv : bool;            (* evaluate the model of the pinned csv dialect (harness switch, false) *)
  tc_file : tvfile;                (* what is written: samples, variants, GTs (all phased flags explicit) *)
  tc_text1 : res str;              (* observed: the .psam text / the (decompressed) VCF text; Err 0 = none *)
  tc_text2 : res str;              (* observed: the .pvar text; Err 0 = none *)
  tc_view : res tvfile;            (* observed: samples and records as pysam.VariantFile shows them
                                      (VCF/BCF); Err 0 for .pgen *)
  tc_back : res tback              (* observed: what haptools read back *)
}.

Definition span_meta (rows : list (list str)) : list (list str) * list (list str) :=
  (filter (fun r => match r with f :: _ => starts_with s_hh f | [] => false end) rows,
   filter (fun r => negb match r with f :: _ => starts_with s_hh f | [] => false end) rows).

(* the rows pysam wrote are the rows of the model, for the ## lines and the QUAL FILTER INFO
   columns found in them *)
Definition pvar_matches (rows : list (list str)) (vs : list tvariant) : bool :=
  let '(meta, rest) := span_meta rows in
  match rest with
  | hdr :: recs =>
      list_eqb (list_eqb str_eqb) rows
               (pvar_rows meta (combine vs (map (skipn 5) recs)))
      && (length recs =? length vs)%nat
  | [] => false
  end.

Definition vcf_matches (rows : list (list str)) (f : tvfile) : bool :=
  let '(meta, rest) := span_meta rows in
  match rest with
  | hdr :: recs =>
      list_eqb (list_eqb str_eqb) rows
               (vcf_rows meta (map (fun r => firstn 3 (skipn 5 r)) recs) f)
      && (length recs =? length (tf_recs f))%nat
  | [] => false
  end.

Definition load_vcall (c : vcall) : call :=
  let '(a, b, f) := vload_std c in (cast8 a, cast8 b, cast8 f).

(* what haptools holds after reading: variants cut to the record type; an array without
   entries has no rows *)
Definition model_tback (n : Z) (f : tvfile) : tback :=
  mktb (tf_samples f) (map (fun r => cut_variant (fst r)) (tf_recs f))
       (if (n =? 0) || (lenZ (tf_recs f) =? 0) then [] else map (fun r => map load_vcall (snd r)) (tf_recs f)).

Definition agree_text (k : tcase) : bool :=
  let f := tc_file k in
  let n := lenZ (tf_samples f) in
  let vs := map fst (tf_recs f) in
  if tc_target k =? 0 then
    match tc_text1 k, tc_text2 k, tc_back k with
    | Ok psam, Ok pvar, Ok b =>
        str_eqb psam (psam_text (tf_samples f))
        && match read_rows (tc_legacy_csv k) pvar with
           | Ok rows => pvar_matches rows vs
           | Err _ => false
           end
        && res_eqb (list_eqb str_eqb) (psam_read (tc_legacy_csv k) psam) (Ok (tb_samples b))
        && res_eqb (list_eqb tvariant_eqb) (pvar_read (tc_legacy_csv k) pvar) (Ok (tb_variants b))
    | Ok psam, Ok pvar, Err e =>
        (* the reader failed: the model of the reader fails on the same text *)
        match psam_read (tc_legacy_csv k) psam, pvar_read (tc_legacy_csv k) pvar with
        | Ok _, Ok _ => false
        | _, _ => true
        end
    | _, _, _ => false
    end
  else if tc_target k =? 1 then
    match tc_text1 k, tc_view k, tc_back k with
    | Ok text, Ok view, Ok b =>
        match (if mem_char c_cr text then Err E_Unmodelled else Ok (csv_rows text)) with
        | Ok rows => vcf_matches rows f
        | Err _ => false
        end
        && res_eqb tvfile_eqb (vcf_parse text) (Ok f)
        && tvfile_eqb view f
        && tback_eqb b (model_tback n f)
    | _, _, _ => false
    end
  else
    match tc_view k, tc_back k with
    | Ok view, Ok b => tvfile_eqb view f && tback_eqb b (model_tback n f)
    | _, _ => false
    end.

(* the property on the names: the same samples, variant IDs, chromosomes, positions, alleles *)
Definition holds_text (k : tcase) : bool :=
  let f := tc_file k in
  if forallb token_ok (tf_samples f) && forallb (fun r => tvariant_ok (fst r)) (tf_recs f) then
    match tc_back k with
    | Ok b => list_eqb str_eqb (tb_samples b) (tf_samples f)
              && list_eqb tvariant_eqb (tb_variants b) (map fst (tf_recs f))
    | Err _ => false
    end
  else true.

Definition model_text (k : tcase) := (psam_text (tf_samples (tc_file k)), model_tback (lenZ (tf_samples (tc_file k))) (tc_file k)).

Definition check_text (k : tcase) : bool * bool := (agree_text k, holds_text k).
