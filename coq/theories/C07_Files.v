(* C07 - the text of the files that carry the samples and the variants:
     .psam  written by GenotypesPLINK.write_samples, read by read_samples (csv.reader)
     .pvar  written by write_variants through pysam (VCF text), read by
            _iterate_variants/_variant_arr (csv.reader) and by pgenlib.PvarReader
     .vcf / .vcf.gz  written by GenotypesVCF.write through pysam, read by cyvcf2
   at the level of characters: sample names, variant IDs, contig names, alleles are lists
   of code points, positions are decimal numerals.  What haptools does itself (the .psam
   text, the csv rows, the columns it picks, the truncation to the widths of the numpy
   record type U50/U10) is modelled as is; what pysam/htslib do (the VCF line of a record,
   the GT token) is the library's behaviour, observed as text on every run.
   No proofs here (C07_ProofsText). *)
From HV Require Import Prelude BpText C07_Text.

Definition E_Value : Z := 1.
Definition E_Index : Z := 2.
Definition E_Unmodelled : Z := 96.

Definition s_hIID : str := [35; 73; 73; 68].        (* #IID *)
Definition s_hFID : str := [35; 70; 73; 68].        (* #FID *)
Definition s_IID : str := [73; 73; 68].
Definition s_hh : str := [35; 35].                  (* ## *)
Definition s_CHROM : str := [67; 72; 82; 79; 77].
Definition s_POS : str := [80; 79; 83].
Definition s_ID : str := [73; 68].
Definition s_REF : str := [82; 69; 70].
Definition s_ALT : str := [65; 76; 84].
Definition s_QUAL : str := [81; 85; 65; 76].
Definition s_FILTER : str := [70; 73; 76; 84; 69; 82].
Definition s_INFO : str := [73; 78; 70; 79].
Definition s_FORMAT : str := [70; 79; 82; 77; 65; 84].
Definition s_GT : str := [71; 84].
Definition s_dot : str := [c_dot].

(* ---- csv.reader(f, delimiter="\t") on text without quote processing ---------- *)

(* one row per line; an empty line is the empty row.  Text with a carriage return is not
   modelled (universal newlines would translate it) *)
Definition csv_row (line : str) : list str :=
  match line with [] => [] | _ => split c_tab line end.

Definition csv_rows (text : str) : list (list str) := map csv_row (file_lines text).

(* what "\t".join(row) + "\n" for every row gives *)
Definition rows_text (rows : list (list str)) : str := unlines (map (join c_tab) rows).

(* legacy = before the repair: csv's default dialect treats a field that begins with a
   double quote as quoted (it then runs to the closing quote, across tabs and lines);
   that reading is not modelled *)
Definition has_leading_quote (rows : list (list str)) : bool :=
  existsb (existsb (first_char_is c_quote)) rows.

Definition read_rows (legacy : bool) (text : str) : res (list (list str)) :=
  if mem_char c_cr text then Err E_Unmodelled
  else let rows := csv_rows text in
       if legacy && has_leading_quote rows then Err E_Unmodelled else Ok rows.

(* ---- .psam --------------------------------------------------------------------- *)

(* write_samples: "#IID\n" + "\n".join(samples) + "\n" *)
Definition psam_text (samples : list str) : str :=
  s_hIID ++ c_nl :: join c_nl samples ++ [c_nl].

Fixpoint index_of (x : str) (l : list str) : option nat :=
  match l with
  | [] => None
  | y :: r => if str_eqb x y then Some O
              else match index_of x r with Some k => Some (S k) | None => None end
  end.

(* "for header in psamples: if header[0].startswith('#FID') or ...('#IID'): break" *)
Fixpoint psam_find_header (rows : list (list str)) : res (list str * list (list str)) :=
  match rows with
  | [] => Err E_Unmodelled            (* no header line: what follows depends on the last row *)
  | r :: rest =>
      match r with
      | [] => Err E_Index             (* header[0] of an empty row *)
      | f :: _ => if starts_with s_hFID f || starts_with s_hIID f then Ok (r, rest)
                  else psam_find_header rest
      end
  end.

(* {ct: samp[col_idx] for ct, samp in enumerate(psamples) if len(samp)} *)
Fixpoint psam_collect (k : nat) (rows : list (list str)) : res (list str) :=
  match rows with
  | [] => Ok []
  | r :: rest =>
      match r with
      | [] => psam_collect k rest
      | _ => match nth_error r k with
             | None => Err E_Index
             | Some s => bind (psam_collect k rest) (fun l => Ok (s :: l))
             end
      end
  end.

Definition psam_read_rows (rows : list (list str)) : res (list str) :=
  bind (psam_find_header rows) (fun hr =>
    let '(hdr, rest) := hr in
    match hdr with
    | f :: t =>
        match index_of s_IID (tl f :: t) with      (* header[0] = header[0][1:] *)
        | None => Err E_Value                      (* "must have an IID column" *)
        | Some k => psam_collect k rest
        end
    | [] => Err E_Index
    end).

Definition psam_read (legacy : bool) (text : str) : res (list str) :=
  bind (read_rows legacy text) psam_read_rows.

(* ---- .pvar and the record lines of a VCF ---------------------------------------- *)

Record tvariant := mktv {
  t_id : str; t_chrom : str; t_pos : Z;
  t_alleles : list str            (* REF, ALT1, ALT2, ... *)
}.

Definition tvariant_eqb (a b : tvariant) : bool :=
  str_eqb (t_id a) (t_id b) && str_eqb (t_chrom a) (t_chrom b) && (t_pos a =? t_pos b)
  && list_eqb str_eqb (t_alleles a) (t_alleles b).

(* the first five columns of the line pysam writes for a record *)
Definition record5 (v : tvariant) : list str :=
  [t_chrom v; dec (t_pos v); t_id v; hd [] (t_alleles v); join c_comma (tl (t_alleles v))].

Definition pvar_header : list str :=
  [c_hash :: s_CHROM; s_POS; s_ID; s_REF; s_ALT; s_QUAL; s_FILTER; s_INFO].

(* the rows of the .pvar: [meta] are the ## lines (file format, FILTER, contigs), [tails]
   the columns QUAL FILTER INFO of each record as pysam chose to write them *)
Definition pvar_rows (meta : list (list str)) (vs : list (tvariant * list str)) : list (list str) :=
  meta ++ pvar_header :: map (fun vt => record5 (fst vt) ++ snd vt) vs.

(* "for header in pvariants: if not header[0].startswith('##'): break" *)
Fixpoint skip_meta (rows : list (list str)) : res (list str * list (list str)) :=
  match rows with
  | [] => Err E_Unmodelled
  | r :: rest =>
      match r with
      | [] => Err E_Index
      | f :: _ => if starts_with s_hh f then skip_meta rest else Ok (r, rest)
      end
  end.

(* _variant_arr: (rec[ID], rec[CHROM], rec[POS], (rec[REF], *rec[ALT].split(","))) put into
   the record type (id U50, chrom U10, pos uint32): longer strings are cut *)
Definition pvar_variant (rec : list str) : res tvariant :=
  match rec with
  | chrom :: pos :: id :: ref :: alt :: _ =>
      match undec pos with
      | Some p => if p <? 4294967296
                  then Ok (mktv (trunc 50 id) (trunc 10 chrom) p (ref :: split c_comma alt))
                  else Err E_Unmodelled
      | None => Err E_Unmodelled       (* not a plain numeral *)
      end
  | _ => Err E_Index
  end.

Fixpoint mapM {A B} (f : A -> res B) (l : list A) : res (list B) :=
  match l with
  | [] => Ok []
  | a :: r => bind (f a) (fun b => bind (mapM f r) (fun bs => Ok (b :: bs)))
  end.

Definition has_col (x : str) (hdr : list str) : bool :=
  match index_of x hdr with Some _ => true | None => false end.

Definition pvar_read_rows (rows : list (list str)) : res (list tvariant) :=
  bind (skip_meta rows) (fun hr =>
    let '(hdr, recs) := hr in
    if (lenZ hdr <? 5) then Err E_Value                  (* "at least five columns" *)
    else match hdr with
         | (c :: f) :: t =>
             if c =? c_hash then
               if has_col s_CHROM (f :: t) && has_col s_POS (f :: t) && has_col s_ID (f :: t)
               then mapM pvar_variant recs
               else Err E_Value                          (* header.index(...) *)
             else Err E_Value                            (* "missing a header" *)
         | _ => Err E_Index
         end).

Definition pvar_read (legacy : bool) (text : str) : res (list tvariant) :=
  bind (read_rows legacy text) pvar_read_rows.

(* pgenlib.PvarReader on the same rows: number of variants, allele count of each *)
Definition pvar_allele_cts (vs : list tvariant) : list Z := map (fun v => lenZ (t_alleles v)) vs.

(* ---- the GT token and the VCF lines ----------------------------------------------- *)

Definition vcall := (option Z * option Z * bool)%type.   (* as in C07_Model *)

Definition gt_allele (a : option Z) : str := match a with None => s_dot | Some k => dec k end.

(* htslib's text of a diploid GT: alleles or ".", separated by "|" (phased) or "/" *)
Definition gt_token (c : vcall) : str :=
  let '(a, b, ph) := c in gt_allele a ++ (if ph then c_pipe else c_slash) :: gt_allele b.

Definition parse_allele (s : str) : option (option Z) :=
  if str_eqb s s_dot then Some None
  else match undec s with Some k => Some (Some k) | None => None end.

(* split at the first "|" or "/" *)
Fixpoint gt_split (s : str) : option (str * bool * str) :=
  match s with
  | [] => None
  | c :: r => if c =? c_pipe then Some ([], true, r)
              else if c =? c_slash then Some ([], false, r)
              else match gt_split r with
                   | Some (a, ph, b) => Some (c :: a, ph, b)
                   | None => None
                   end
  end.

Definition parse_gt (s : str) : option vcall :=
  match gt_split s with
  | Some (a, ph, b) =>
      match parse_allele a, parse_allele b with
      | Some x, Some y => Some (x, y, ph)
      | _, _ => None
      end
  | None => None
  end.

(* the content of a VCF with names as text *)
Record tvfile := mktf { tf_samples : list str; tf_recs : list (tvariant * list vcall) }.

Definition vcf_header_row (samples : list str) : list str :=
  pvar_header ++ match samples with [] => [] | _ => s_FORMAT :: samples end.

(* the line of a record: without samples there is no FORMAT column *)
Definition gt_cols (cs : list vcall) : list str :=
  match cs with [] => [] | _ :: _ => s_GT :: map gt_token cs end.

Definition vcf_record_row (tail : list str) (r : tvariant * list vcall) : list str :=
  record5 (fst r) ++ tail ++ gt_cols (snd r).

Definition vcf_rows (meta : list (list str)) (tails : list (list str)) (f : tvfile) : list (list str) :=
  meta ++ vcf_header_row (tf_samples f)
       :: map (fun tr => vcf_record_row (fst tr) (snd tr)) (combine tails (tf_recs f)).

(* htslib's reading of the same lines: samples = the columns after FORMAT; a record gives
   CHROM POS ID REF ALT and one GT per sample column (FORMAT must be GT) *)
Definition vcf_parse_record (n : nat) (rec : list str) : res (tvariant * list vcall) :=
  match rec with
  | chrom :: pos :: id :: ref :: alt :: _ =>
      match undec pos with
      | None => Err E_Unmodelled
      | Some p =>
          let v := mktv id chrom p (ref :: split c_comma alt) in
          match n with
          | O => Ok (v, [])
          | _ => match skipn 8 rec with
                 | fmt :: gts =>
                     if str_eqb fmt s_GT && (length gts =? n)%nat then
                       bind (mapM (fun g => match parse_gt g with Some c => Ok c | None => Err E_Unmodelled end) gts)
                            (fun cs => Ok (v, cs))
                     else Err E_Unmodelled
                 | [] => Err E_Unmodelled
                 end
          end
      end
  | _ => Err E_Unmodelled
  end.

Definition vcf_parse_rows (rows : list (list str)) : res tvfile :=
  bind (skip_meta rows) (fun hr =>
    let '(hdr, recs) := hr in
    let samples := skipn 9 hdr in
    bind (mapM (vcf_parse_record (length samples)) recs) (fun rs => Ok (mktf samples rs))).

Definition vcf_parse (text : str) : res tvfile :=
  if mem_char c_cr text then Err E_Unmodelled else vcf_parse_rows (csv_rows text).

(* Genotypes._variant_arr puts (ID, CHROM, POS, alleles) into the numpy record type *)
Definition cut_variant (v : tvariant) : tvariant :=
  mktv (trunc 50 (t_id v)) (trunc 10 (t_chrom v)) (t_pos v) (t_alleles v).

(* ---- which names the text can carry ------------------------------------------------ *)

(* a token of a tab-separated line: non-empty, no tab, no line terminator *)
Definition token_ok (s : str) : bool :=
  negb (match s with [] => true | _ => false end)
  && nosep c_tab s && nosep c_nl s && nosep c_cr s.

Definition allele_ok (s : str) : bool := token_ok s && nosep c_comma s.

Definition tvariant_ok (v : tvariant) : bool :=
  token_ok (t_id v) && (length (t_id v) <=? 50)%nat
  && token_ok (t_chrom v) && (length (t_chrom v) <=? 10)%nat
  && (0 <=? t_pos v) && (t_pos v <? 4294967296)
  && (2 <=? lenZ (t_alleles v)) && forallb allele_ok (t_alleles v)
  && negb (str_eqb (t_id v) s_dot).        (* "." is VCF's missing ID, not an ID *)
