(* C07 - histories on one path: what an earlier write left on disk.

   The [vcf] relation writes every file to a fresh path and, when it indexes, indexes the file it
   has just written.  Here the path has a past: a sequence of operations
     write g | index (.tbi / .csi) | touch the index (later / earlier than the file) | remove the
     index | read
   on ONE path, e.g.  write A; index; write B; read.  GenotypesVCF.write replaces the data file and
   touches nothing else, so the index of A still lies beside the file that now holds B: it is of the
   right name and kind, and it declares the number of records of A.

   Model: [disk] = the data file and the sibling index with what it declares ([ix_records], the
   quantity cyvcf2 reports as VCF(path).num_records) and whether it is newer than the file;
   [step]/[run] = the operations; [vcf_read_ix trust index_records] = Genotypes.read with the
   extra input "what a sibling index claims".  trust = false is the anchored code (it never asks);
   trust = true is a reader that preallocates with the declared count and stops there when no
   region is requested (max_variants = num_records).  C07_ProofsHist: the fixed reader's result is
   independent of [index_records] and of the whole history; the trusting reader agrees with it
   when the index was built from the file that is read, and is refuted by a stale one. *)
From HV Require Import Prelude C07_Model C07_Check.

(* the index lying beside the data file *)
Record sindex := mkix {
  ix_kind : vidx;        (* I_tbi / I_csi *)
  ix_records : Z;        (* the number of records of the file it was built from *)
  ix_newer : bool        (* its modification time is later than the data file's *)
}.

Record disk := mkdk {
  dk_file : option vfile;       (* the content of the data file; None = no file yet *)
  dk_index : option sindex
}.

Definition disk0 : disk := mkdk None None.

Inductive op :=
| OpWrite (g : geno)       (* GenotypesVCF(path).write(): the data file is replaced, nothing else is touched *)
| OpIndex (k : vidx)       (* pysam.tabix_index(path, force=True): the index of the file as it is now *)
| OpTouch (newer : bool)   (* os.utime on the index: later / earlier than the data file *)
| OpUnindex                (* the index is removed *)
| OpRead.                  (* GenotypesVCF(path).read(): no region *)

Definition set_newer (b : bool) (i : sindex) : sindex := mkix (ix_kind i) (ix_records i) b.

Definition step (s : disk) (o : op) : disk :=
  match o with
  | OpWrite g => mkdk (Some (vcf_write g)) (option_map (set_newer false) (dk_index s))
  | OpIndex k =>
      match k, dk_file s with
      | I_none, _ | _, None => s
      | _, Some f => mkdk (Some f) (Some (mkix k (lenZ (vf_recs f)) true))
      end
  | OpTouch b => mkdk (dk_file s) (option_map (set_newer b) (dk_index s))
  | OpUnindex => mkdk (dk_file s) None
  | OpRead => s
  end.

Definition run (s : disk) (ops : list op) : disk := fold_left step ops s.

(* what a sibling index claims about the number of records (None: there is no index) *)
Definition index_records (s : disk) : option Z := option_map ix_records (dk_index s).

Definition disk_idx (s : disk) : vidx :=
  match dk_index s with Some i => ix_kind i | None => I_none end.

(* the matrix of the last write of a sequence *)
Fixpoint last_write (ops : list op) (acc : option geno) : option geno :=
  match ops with
  | [] => acc
  | OpWrite g :: r => last_write r (Some g)
  | _ :: r => last_write r acc
  end.

Definition is_write (o : op) : bool := match o with OpWrite _ => true | _ => false end.

Definition writes (ops : list op) : list geno :=
  flat_map (fun o => match o with OpWrite g => [g] | _ => [] end) ops.

(* the first write of the sequence that pysam refuses (C07_Model.write_guard) *)
Fixpoint guard_ops (ops : list op) : option Z :=
  match ops with
  | [] => None
  | OpWrite g :: r => match write_guard false g with Some e => Some e | None => guard_ops r end
  | _ :: r => guard_ops r
  end.

Definition E_NoFile : Z := 15.

Section HistLibs.
  Variable vload : vcall -> Z * Z * Z.
  Variable hts : htslib.

  (* Genotypes._iterate with the record count of the index as a further input.
     trust = true: "max_variants = num_records" when no region is requested: the loop
     "if num_seen >= max_variants: break" stops after that many records (surplus preallocated
     rows are trimmed, so a count that is too large does no harm) *)
  Definition vcf_records_ix (trust : bool) (index_records : option Z) (region : option Z) (d : vdisk)
    : res (list vrecord) :=
    match region, (if trust then index_records else None) with
    | None, Some k => Ok (firstn (Z.to_nat k) (hts_iter hts d))
    | _, _ => vcf_records hts false region d
    end.

  Definition vcf_read_ix (trust : bool) (index_records : option Z) (region : option Z) (d : vdisk) : res geno :=
    bind (vcf_records_ix trust index_records region d) (vcf_build vload false (vf_samples (vd_file d))).

  (* reading the path as it is now *)
  Definition read_disk (trust : bool) (fmt : vfmt) (s : disk) : res geno :=
    match dk_file s with
    | None => Err E_NoFile
    | Some f => vcf_read_ix trust (index_records s) None (mkvd fmt (disk_idx s) f)
    end.
End HistLibs.

(* ---- the relation ------------------------------------------------------------- *)

Record hcase := mkhc {
  hc_fmt : vfmt;             (* the extension of the path: .vcf.gz / .bcf *)
  hc_ops : list op;          (* everything that happened to the path, in order; then it is read *)
  hc_file : res vfile;       (* observed: the data file in the end, as pysam.VariantFile reads it *)
  hc_claim : option Z;       (* observed: the number of records the index beside it declares
                                (cyvcf2: VCF(path).num_records); None = no index *)
  hc_back : res geno         (* observed: the object haptools read back, no region *)
}.

(* the first operation that raises ends the sequence: its error is reported for the file and for the read *)
Definition model_hist (k : hcase) : res vfile * option Z * res geno :=
  match guard_ops (hc_ops k) with
  | Some e => (Err e, None, Err e)
  | None =>
      let s := run disk0 (hc_ops k) in
      (match dk_file s with Some f => Ok f | None => Err E_NoFile end,
       index_records s,
       read_disk vload_std hts_std false (hc_fmt k) s)
  end.

Definition agree_hist (k : hcase) : bool :=
  let '(f, c, b) := model_hist k in
  res_eqb vfile_eqb f (hc_file k) && opt_eqb Z.eqb c (hc_claim k) && res_eqb geno_eqb b (hc_back k).

(* every matrix that was written to the path lies in the property's domain (so that no write
   is refused) *)
Definition hist_domb (ops : list op) : bool :=
  forallb (fun g => geno_domb0 true g && pos_domb false g) (writes ops).

(* the property: the matrix read back is the matrix LAST written, whatever happened to the path
   before and whatever lies beside the file (exactly the demand of the [vcf] relation, on the last
   write) *)
Definition as_vcase (k : hcase) (g : geno) : vcase :=
  mkvc g (hc_fmt k) I_none false false (hc_file k) (hc_back k) None (Err 0).

(* the harness could not carry out an operation of its own (building or touching an index):
   nothing was observed, nothing is judged (agree is false) *)
Definition unobserved (k : hcase) : bool :=
  match hc_back k with Err e => e =? E_Unobserved | Ok _ => false end.

Definition holds_hist (k : hcase) : bool :=
  if unobserved k then true
  else if hist_domb (hc_ops k) then
    match last_write (hc_ops k) None with
    | Some g => holds_vcf (as_vcase k g)
    | None => true
    end
  else true.

Definition check_hist (k : hcase) : bool * bool := (agree_hist k, holds_hist k).
