(* C07 - executable model of haptools' side of the VCF/BCF and PGEN codecs
   (haptools/data/genotypes.py: GenotypesVCF.write, Genotypes.read/_iterate/_vcf_iter,
   GenotypesPLINK.write/_num_unique_alleles/read).  No proofs here.

   Conventions
   * strings (sample names, variant IDs, contigs, allele strings) are interned
     to Z by the harness: they are only compared.
   * the genotype matrix is kept variant-major: one row per variant, one call
     per sample; a call is (allele0, allele1, third plane).  haptools keeps
     the array sample-major; the harness transposes (np.transpose) before
     encoding, [g_shape] is the shape of the array as haptools holds it
     (samples, variants, planes).
   * 255 is the missing call (uint8 cast of cyvcf2's -1 / pgenlib's -9).
   * the libraries are Section variables: [paccept] = does pgenlib's writer accept
     a batch, [pload] = what pgenlib returns for a stored call, [vload] = what
     cyvcf2 returns for a GT that pysam wrote, [hts] = what htslib yields when a
     reader is iterated without a region / queried with a region, given the
     file's format and index.  Their contracts are stated in C07_Proofs; the
     concrete instances used to evaluate [agree] ([paccept_std], [pload_std],
     [vload_std], [hts_std]) are defined at the end and shown to satisfy the
     contracts.
   * the text of the .psam / .pvar / .vcf files (sample names, IDs, contigs,
     positions, alleles as characters) is modelled in C07_Files. *)
From HV Require Import Prelude.

Definition E_Value : Z := 1.
Definition E_Attribute : Z := 5.
Definition E_Assert : Z := 8.
Definition E_Crash : Z := 11.
Definition E_Runtime : Z := 17.

(* ---- data ---------------------------------------------------------------- *)

Definition call := (Z * Z * Z)%type.

Definition call_eqb (x y : call) : bool :=
  let '(a, b, c) := x in let '(d, e, f) := y in (a =? d) && (b =? e) && (c =? f).

Record variant := mkvar {
  v_id : Z; v_chrom : Z; v_pos : Z;
  v_alleles : list Z;     (* REF, ALT1, ALT2, ... (interned) *)
  v_reflen : Z            (* len(REF); only the VCF region overlap of C08 looks at it *)
}.

Definition variant_eqb (a b : variant) : bool :=
  (v_id a =? v_id b) && (v_chrom a =? v_chrom b) && (v_pos a =? v_pos b)
  && list_eqb Z.eqb (v_alleles a) (v_alleles b) && (v_reflen a =? v_reflen b).

Record geno := mkg {
  g_samples : list Z;
  g_variants : list variant;
  g_rows : list (list call);    (* variant-major *)
  g_shape : list Z              (* data.shape of the haptools object *)
}.

Definition geno_eqb (a b : geno) : bool :=
  list_eqb Z.eqb (g_samples a) (g_samples b)
  && list_eqb variant_eqb (g_variants a) (g_variants b)
  && list_eqb (list_eqb call_eqb) (g_rows a) (g_rows b)
  && list_eqb Z.eqb (g_shape a) (g_shape b).

(* ---- compact literals -----------------------------------------------------------
   The harness does not spell out long regular lists (the interned names of 300 samples,
   the 255 alleles of a repeat-like variant, a row of 65537 calls in a few runs, hundreds
   of variants at regular distances): it writes them with these three functions.
   C07_Proofs: zrange_length / zrange_nth, rle_single / rle_app, vrun_length / vrun_nth. *)

Fixpoint zrange_fuel (fuel : nat) (a : Z) : list Z :=
  match fuel with O => [] | S f => a :: zrange_fuel f (a + 1) end.
(* [a; a+1; ...; a+n-1] *)
Definition zrange (a n : Z) : list Z := zrange_fuel (Z.to_nat n) a.

(* run-length decoding: [(3, x); (2, y)] = [x; x; x; y; y] *)
Definition rle {A} (runs : list (Z * A)) : list A :=
  flat_map (fun r => repeat (snd r) (Z.to_nat (fst r))) runs.

Fixpoint vrun_fuel (fuel : nat) (id chrom pos step : Z) (alleles : list Z) (reflen : Z) : list variant :=
  match fuel with
  | O => []
  | S f => mkvar id chrom pos alleles reflen :: vrun_fuel f (id + 1) chrom (pos + step) step alleles reflen
  end.
(* n variants on one contig with consecutive (interned) IDs, positions pos, pos+step, ...,
   the same alleles *)
Definition vrun (id chrom pos step : Z) (alleles : list Z) (reflen n : Z) : list variant :=
  vrun_fuel (Z.to_nat n) id chrom pos step alleles reflen.

(* number of planes of the array that is written: 2 after check_phase, else 3 *)
Definition planes (g : geno) : Z := nth 2 (g_shape g) 3.

(* the attribute _prephased = True on the object that writes: the phase plane, if
   there is one, is ignored and every call is written as phased *)
Definition as_prephased (g : geno) : geno :=
  mkg (g_samples g) (g_variants g) (g_rows g) [nth 0 (g_shape g) 0; nth 1 (g_shape g) 0; 2].

(* _prephased = True on the object that reads: the array gets two planes only
   (the harness encodes the absent third component of a call as 1) *)
Definition drop_phase (g : geno) : geno :=
  mkg (g_samples g) (g_variants g)
      (map (map (fun c : call => let '(a, b, _) := c in (a, b, 1))) (g_rows g))
      (match g_shape g with
       | [n; p; k] => if k =? 0 then [n; p; k] else [n; p; 2]
       | sh => sh
       end).

(* ---- the chunk loop: for start in range(0, len(l), c): l[start:start+c] ---- *)

Section Chunks.
  Context {A : Type}.
  Fixpoint chunks_fuel (fuel : nat) (c : nat) (l : list A) : list (list A) :=
    match fuel with
    | O => []
    | S f => match l with
             | [] => []
             | _ => firstn c l :: chunks_fuel f c (skipn c l)
             end
    end.
  (* fuel = length l suffices for every c >= 1 (C07_Proofs.chunks_concat) *)
  Definition chunks (c : nat) (l : list A) : list (list A) := chunks_fuel (length l) c l.
End Chunks.

(* "chunks = self.chunk_size; if chunks is None or chunks > p: chunks = p" *)
Definition eff_chunk (cs : option Z) (p : Z) : Z :=
  match cs with
  | None => p
  | Some c => if p <? c then p else c
  end.

(* the read side after the fix of defect 10: "... chunks = max(p, 1)";
   legacy = pinned tree *)
Definition eff_chunk_read (legacy : bool) (cs : option Z) (p : Z) : Z :=
  let dflt := if legacy then p else Z.max p 1 in
  match cs with
  | None => dflt
  | Some c => if p <? c then dflt else c
  end.

(* ---- PGEN: what GenotypesPLINK.write hands to pgenlib ---------------------- *)

Definition code_of (x : Z) : Z := if x =? 255 then -9 else x.

Definition row_codes (r : list call) : list (Z * Z) :=
  map (fun c : call => let '(a, b, _) := c in (code_of a, code_of b)) r.

Definition row_phase (r : list call) : list Z :=
  map (fun c : call => let '(_, _, p) := c in p) r.

(* fixed: the number of alleles the variant (and so the PVAR) declares *)
Definition allele_ct (v : variant) : Z := Z.max 2 (lenZ (v_alleles v)).

(* legacy (_num_unique_alleles): the number of distinct uint8 values observed
   in the variant's row, the missing value 255 included, at least 2 *)
Definition distinct_ct (r : list call) : Z :=
  Z.max 2 (lenZ (nodup Z.eq_dec (flat_map (fun c : call => let '(a, b, _) := c in [a; b]) r))).

Record batch := mkb {
  b_codes : list (list (Z * Z));      (* per variant: the n pairs of int32 allele codes, -9 = missing *)
  b_cts : list Z;                     (* allele_cts argument *)
  b_phase : option (list (list Z))    (* None = append_alleles_batch(all_phased=True);
                                         Some = append_partially_phased_batch's phasepresent *)
}.

Definition mk_batch (legacy : bool) (pl : Z) (vr : list (variant * list call)) : batch :=
  mkb (map (fun x => row_codes (snd x)) vr)
      (map (fun x => if legacy then distinct_ct (snd x) else allele_ct (fst x)) vr)
      (if pl <? 3 then None else Some (map (fun x => row_phase (snd x)) vr)).

(* pgenlib's precondition on one variant of a batch: the declared allele count
   is within the writer's allele_ct_limit, every call is either missing in both
   alleles or has both codes below the allele count.  A batch that violates it
   is rejected (RuntimeError; abort() in some builds). *)
Definition pair_ok (ct : Z) (xy : Z * Z) : bool :=
  let '(a, b) := xy in
  ((a =? -9) && (b =? -9)) || ((0 <=? a) && (a <? ct) && (0 <=? b) && (b <? ct)).

Definition row_ok (limit : Z) (ctcodes : Z * list (Z * Z)) : bool :=
  let '(ct, codes) := ctcodes in (ct <=? limit) && forallb (pair_ok ct) codes.

Definition batch_ok (limit : Z) (b : batch) : bool :=
  forallb (row_ok limit) (combine (b_cts b) (b_codes b)).

(* PvarReader.get_max_allele_ct() of the PVAR that write_variants produced *)
Definition max_allele_ct (vs : list variant) : Z :=
  fold_right (fun v m => Z.max (allele_ct v) m) 2 vs.

(* ---- what is refused before anything is stored: positions and allele counts ------
   GenotypesVCF.write and GenotypesPLINK.write_variants build every record with pysam's
     new_record(start = pos - 1, stop = pos + len(REF) - 1, ...)
   where pos is a numpy uint32 scalar: the arithmetic wraps modulo 2^32 and pysam converts
   both numbers to C ints (OverflowError "value too large to convert to int" beyond
   2^31 - 1; so position 0, whose start wraps to 2^32 - 1, is refused as well).
   GenotypesPLINK.write then opens the .pvar it wrote with pgenlib.PvarReader, which refuses
   (RuntimeError) a position of 2^31 - 1 ("Invalid POS") and more than 254 ALT alleles. *)
Definition E_Overflow : Z := 7.
Definition int_max : Z := 2147483647.
Definition two32 : Z := 4294967296.

Definition rec_start (v : variant) : Z := (v_pos v - 1) mod two32.
Definition rec_stop (v : variant) : Z := ((v_pos v + v_reflen v) mod two32 - 1) mod two32.

Definition pos_fits (v : variant) : bool := (rec_start v <=? int_max) && (rec_stop v <=? int_max).

(* pgen = true: the target is PGEN (the PvarReader step follows the pysam step);
   None = nothing is refused *)
Definition write_guard (pgen : bool) (g : geno) : option Z :=
  if forallb pos_fits (g_variants g) then
    if pgen && (existsb (fun v => int_max <=? v_pos v) (g_variants g)
                || (255 <? max_allele_ct (g_variants g)))
    then Some E_Runtime else None
  else Some E_Overflow.

Record pfile := mkpf {
  pf_samples : list Z;          (* .psam *)
  pf_variants : list variant;   (* .pvar *)
  pf_limit : Z;                 (* allele_ct_limit given to PgenWriter *)
  pf_batches : list batch       (* append_*_batch calls, in order *)
}.

Definition pgen_batches (legacy : bool) (c : nat) (g : geno) : list batch :=
  map (mk_batch legacy (planes g)) (chunks c (combine (g_variants g) (g_rows g))).

(* what the .pgen holds after the batches: per variant, per sample
   (code0, code1, phasepresent flag); all_phased batches store flag 1 *)
Definition scall := (Z * Z * Z)%type.

Definition stored_row (codes : list (Z * Z)) (ph : option (list Z)) : list scall :=
  match ph with
  | None => map (fun xy : Z * Z => (fst xy, snd xy, 1)) codes
  | Some fl => map (fun xf : (Z * Z) * Z => (fst (fst xf), snd (fst xf), snd xf)) (combine codes fl)
  end.

Definition batch_rows (b : batch) : list (list scall) :=
  match b_phase b with
  | None => map (fun codes => stored_row codes None) (b_codes b)
  | Some ph => map (fun cf : list (Z * Z) * list Z => stored_row (fst cf) (Some (snd cf)))
                   (combine (b_codes b) ph)
  end.

Definition stored (pf : pfile) : list (list scall) := concat (map batch_rows (pf_batches pf)).

(* ---- libraries as Section variables -------------------------------------- *)

Definition vcall := (option Z * option Z * bool)%type.   (* GT tuple and the phased flag *)

Definition cast8 (x : Z) : Z := x mod 256.               (* .astype(np.uint8) *)
Definition m9 (x : Z) : Z := if x =? -9 then -1 else x.  (* data[data == -9] = -1 *)

(* ---- VCF/BCF files on disk ------------------------------------------------- *)

Definition gt_of (x : Z) : option Z := if x =? 255 then None else Some x.

Definition vcf_call (pl : Z) (c : call) : vcall :=
  let '(a, b, p) := c in (gt_of a, gt_of b, if pl <? 3 then true else negb (p =? 0)).

Notation vrecord := (variant * list vcall)%type (only parsing).

(* the content of a VCF/BCF file: the samples of the header and the records *)
Record vfile := mkvf { vf_samples : list Z; vf_recs : list vrecord }.

(* how the content is stored, and which index lies beside it *)
Inductive vfmt := F_vcf | F_vcfgz | F_bcf.       (* plain text, bgzip-compressed text, binary *)
Inductive vidx := I_none | I_tbi | I_csi.
Record vdisk := mkvd { vd_fmt : vfmt; vd_idx : vidx; vd_file : vfile }.

Definition vfmt_eqb (a b : vfmt) : bool :=
  match a, b with F_vcf, F_vcf | F_vcfgz, F_vcfgz | F_bcf, F_bcf => true | _, _ => false end.
Definition is_indexed (d : vdisk) : bool := match vd_idx d with I_none => false | _ => true end.

(* the combinations pysam.tabix_index can produce: no index for plain text, .tbi or
   .csi beside a .vcf.gz, .csi beside a .bcf *)
Definition disk_okb (d : vdisk) : bool :=
  match vd_fmt d, vd_idx d with
  | F_vcf, I_none | F_vcfgz, _ | F_bcf, I_none | F_bcf, I_csi => true
  | _, _ => false
  end.

(* htslib (through cyvcf2) as seen by Genotypes._vcf_iter *)
Record htslib := mkhts {
  hts_iter : vdisk -> list vrecord;               (* for rec in VCF(path): no region *)
  hts_none : vdisk -> list vrecord;               (* VCF(path)(None): what the pinned tree called *)
  hts_region : vdisk -> Z -> res (list vrecord)   (* VCF(path)(contig) *)
}.

Section Libs.
  (* pgenlib.PgenWriter: is the batch handed to append_alleles_batch /
     append_partially_phased_batch accepted (first argument: allele_ct_limit) *)
  Variable paccept : Z -> batch -> bool.
  (* pgenlib: stored call -> (allele0, allele1, phasepresent) as returned by
     read_alleles_and_phasepresent(_list) *)
  Variable pload : scall -> scall.
  (* cyvcf2: variant.genotype.array() row for a GT written by pysam *)
  Variable vload : vcall -> Z * Z * Z.
  (* htslib: which records a reader yields *)
  Variable hts : htslib.

  (* GenotypesPLINK.write.  The .psam and .pvar are written first; without variants the
     .pgen is an empty file and no writer is opened (whatever the number of samples);
     variants without samples are refused (legacy = pinned tree: sample_ct = 0 is handed to
     pgenlib, which crashes the interpreter) *)
  Definition pgen_write (legacy : bool) (cw : option Z) (g : geno) : res pfile :=
    let p := lenZ (g_variants g) in
    if p =? 0 then Ok (mkpf (g_samples g) [] 0 [])    (* empty .pgen, no writer *)
    else if lenZ (g_samples g) =? 0 then Err (if legacy then E_Crash else E_Value)
    else
      let limit := max_allele_ct (g_variants g) in
      let step := eff_chunk cw p in
      if step <=? 0 then Err E_Runtime   (* range() step 0 inside the writer's with-block *)
      else
        let bs := pgen_batches legacy (Z.to_nat step) g in
        if forallb (paccept limit) bs
        then Ok (mkpf (g_samples g) (g_variants g) limit bs)
        else Err E_Runtime.

  Definition load_call (s : scall) : call :=
    let '(a, b, f) := pload s in (cast8 (m9 a), cast8 (m9 b), f).

  (* the chunk loop of GenotypesPLINK.read over the selected stored rows *)
  Definition pgen_load_chunks (legacy : bool) (cr : option Z) (sel : list (list scall))
    : res (list (list call)) :=
    let step := eff_chunk_read legacy cr (lenZ sel) in
    if step =? 0 then Err E_Value       (* range(0, 0, 0) / chunk_size=0 *)
    else Ok (concat (map (map (map load_call)) (chunks (Z.to_nat step) sel))).

  Definition pgen_read (legacy : bool) (cr : option Z) (pf : pfile) : res geno :=
    let n := lenZ (pf_samples pf) in
    let p := lenZ (pf_variants pf) in
    if p =? 0 then Ok (mkg (pf_samples pf) [] [] [n; 0; 3])    (* "No variants in ..." branch *)
    else bind (pgen_load_chunks legacy cr (stored pf))
              (fun rows => Ok (mkg (pf_samples pf) (pf_variants pf) rows [n; p; 3])).

  Definition pgen_roundtrip_model (legacy : bool) (cw cr : option Z) (g : geno) : res geno :=
    bind (pgen_write legacy cw g) (pgen_read legacy cr).

  (* GenotypesPLINK.write as a whole: write_samples, write_variants (pysam), PvarReader, then
     the writer *)
  Definition pgen_write_g (legacy : bool) (cw : option Z) (g : geno) : res pfile :=
    match write_guard true g with Some e => Err e | None => pgen_write legacy cw g end.

  Definition pgen_roundtrip_g (legacy : bool) (cw cr : option Z) (g : geno) : res geno :=
    bind (pgen_write_g legacy cw g) (pgen_read legacy cr).

  (* what pgenlib.PgenReader.read_alleles_and_phasepresent returns for every variant of
     the file, read directly (not through haptools) *)
  Definition pgen_raw (pf : pfile) : list (list scall) := map (map pload) (stored pf).

  (* ---- VCF/BCF ---- *)

  Definition vcf_write (g : geno) : vfile :=
    mkvf (g_samples g) (combine (g_variants g) (map (map (vcf_call (planes g))) (g_rows g))).

  Definition vcf_load_call (c : vcall) : call :=
    let '(a, b, f) := vload c in (cast8 a, cast8 b, cast8 f).

  (* Genotypes._vcf_iter: "vcf if region is None else vcf(region)";
     legacy = pinned tree: always vcf(region) *)
  Definition vcf_records (legacy : bool) (region : option Z) (d : vdisk) : res (list vrecord) :=
    match region with
    | None => Ok (if legacy then hts_none hts d else hts_iter hts d)
    | Some c => hts_region hts d c
    end.

  (* Genotypes.read().  An array without entries is replaced by one of shape (0, 0, 0);
     samples and variants are kept.  legacy0 = before the repair of the reader for files
     without samples: variant.genotype is None there (AttributeError) *)
  Definition vcf_build (legacy0 : bool) (samples : list Z) (recs : list vrecord) : res geno :=
    let n := lenZ samples in
    let p := lenZ recs in
    if legacy0 && (n =? 0) && negb (p =? 0) then Err E_Attribute
    else if (n =? 0) || (p =? 0)
    then Ok (mkg samples (map fst recs) [] [0; 0; 0])
    else Ok (mkg samples (map fst recs) (map (fun r => map vcf_load_call (snd r)) recs) [n; p; 3]).

  Definition vcf_read (legacy legacy0 : bool) (region : option Z) (d : vdisk) : res geno :=
    bind (vcf_records legacy region d) (vcf_build legacy0 (vf_samples (vd_file d))).

  Definition vcf_roundtrip_model (legacy legacy0 : bool) (fmt : vfmt) (idx : vidx) (g : geno) : res geno :=
    vcf_read legacy legacy0 None (mkvd fmt idx (vcf_write g)).

  (* GenotypesVCF.write as a whole: a record pysam refuses aborts the write *)
  Definition vcf_write_g (g : geno) : res vfile :=
    match write_guard false g with Some e => Err e | None => Ok (vcf_write g) end.

  Definition vcf_roundtrip_g (legacy legacy0 : bool) (fmt : vfmt) (idx : vidx) (g : geno) : res geno :=
    bind (vcf_write_g g) (fun f => vcf_read legacy legacy0 None (mkvd fmt idx f)).
End Libs.

(* ---- the concrete library behaviour observed with pgenlib 0.94 / cyvcf2 0.34,
        used to evaluate [agree]; C07_Proofs shows they meet the contracts ---- *)

(* pgenlib: heterozygous unphased calls come back with the smaller code first
   and phasepresent 0; phased heterozygous calls unchanged with 1; homozygous
   calls with 1; missing calls with 0 *)
Definition pload_std (s : scall) : scall :=
  let '(a, b, f) := s in
  if (a =? -9) || (b =? -9) then (a, b, 0)
  else if a =? b then (a, b, 1)
  else if f =? 0 then (Z.min a b, Z.max a b, 0)
  else (a, b, 1).

Definition oz (x : option Z) : Z := match x with Some v => v | None => -1 end.
Definition vload_std (c : vcall) : Z * Z * Z :=
  let '(a, b, ph) := c in (oz a, oz b, if ph then 1 else 0).

(* pgenlib 0.94 accepts exactly the batches that meet its stated precondition *)
Definition paccept_std : Z -> batch -> bool := batch_ok.

(* htslib 1.x through cyvcf2 0.31: iterating a reader yields every record whatever the
   format and whether or not an index exists; VCF(path)(None) yields nothing without an
   index; a region query without an index fails (AssertionError "error loading ... index"),
   with an index it yields the records of the contig *)
Definition hts_std : htslib :=
  mkhts (fun d => vf_recs (vd_file d))
        (fun d => if is_indexed d then vf_recs (vd_file d) else [])
        (fun d c => if is_indexed d
                    then Ok (filter (fun r : vrecord => v_chrom (fst r) =? c) (vf_recs (vd_file d)))
                    else Err E_Assert).
