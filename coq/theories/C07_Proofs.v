(* C07 - proofs about the model of the PGEN / VCF codecs. *)
From HV Require Import Prelude C07_Model C07_Check.

(* ---- the chunk loop ------------------------------------------------------- *)

Lemma chunks_fuel_concat {A} : forall fuel c (l : list A),
  (1 <= c)%nat -> (length l <= fuel)%nat -> concat (chunks_fuel fuel c l) = l.
Proof.
  induction fuel as [|f IH]; intros c l Hc Hl.
  - destruct l; [reflexivity|cbn in Hl; lia].
  - cbn [chunks_fuel]. destruct l as [|a r]; [reflexivity|].
    cbn [concat]. rewrite IH; [apply firstn_skipn|exact Hc|].
    rewrite skipn_length. cbn [length] in *. lia.
Qed.

Lemma chunks_concat {A} c (l : list A) : (1 <= c)%nat -> concat (chunks c l) = l.
Proof. intros Hc. apply chunks_fuel_concat; [exact Hc|lia]. Qed.

Lemma forallb_concat {A} (P : A -> bool) (ls : list (list A)) :
  forallb (forallb P) ls = forallb P (concat ls).
Proof.
  induction ls as [|l r IH]; [reflexivity|].
  cbn [concat forallb]. rewrite forallb_app, IH. reflexivity.
Qed.

Lemma forallb_map' {A B} (f : A -> B) (P : B -> bool) (l : list A) :
  forallb P (map f l) = forallb (fun x => P (f x)) l.
Proof. induction l as [|a r IH]; [reflexivity|]. cbn. rewrite IH. reflexivity. Qed.

Lemma forallb_ext' {A} (P Q : A -> bool) (l : list A) :
  (forall x, P x = Q x) -> forallb P l = forallb Q l.
Proof. intros H. induction l as [|a r IH]; [reflexivity|]. cbn. rewrite H, IH. reflexivity. Qed.

Lemma combine_map_same {A B C} (f : A -> B) (g : A -> C) (l : list A) :
  combine (map f l) (map g l) = map (fun x => (f x, g x)) l.
Proof. induction l as [|a r IH]; [reflexivity|]. cbn. rewrite IH. reflexivity. Qed.

(* ---- write side: the batches are the unchunked rows, cut ------------------- *)

(* what one variant contributes, independent of any chunking *)
Definition v_codes (x : variant * list call) : list (Z * Z) := row_codes (snd x).
Definition v_ct (legacy : bool) (x : variant * list call) : Z :=
  if legacy then distinct_ct (snd x) else allele_ct (fst x).
Definition v_stored (pl : Z) (x : variant * list call) : list scall :=
  stored_row (row_codes (snd x)) (if pl <? 3 then None else Some (row_phase (snd x))).

Lemma batch_rows_mk legacy pl vr :
  batch_rows (mk_batch legacy pl vr) = map (v_stored pl) vr.
Proof.
  unfold batch_rows, mk_batch, v_stored. cbn [b_phase b_codes].
  destruct (pl <? 3).
  - rewrite map_map. reflexivity.
  - rewrite combine_map_same, map_map. reflexivity.
Qed.

Lemma batch_ok_mk legacy pl limit vr :
  batch_ok limit (mk_batch legacy pl vr)
  = forallb (fun x => row_ok limit (v_ct legacy x, v_codes x)) vr.
Proof.
  unfold batch_ok, mk_batch. cbn [b_cts b_codes].
  rewrite combine_map_same. induction vr as [|x r IH]; [reflexivity|].
  cbn [map forallb]. rewrite IH. reflexivity.
Qed.

Definition vrows (g : geno) := combine (g_variants g) (g_rows g).

Lemma batches_codes legacy c g : (1 <= c)%nat ->
  concat (map b_codes (pgen_batches legacy c g)) = map v_codes (vrows g).
Proof.
  intros Hc. unfold pgen_batches. rewrite map_map. cbn [mk_batch b_codes].
  change (fun x : list (variant * list call) => map (fun x0 => row_codes (snd x0)) x)
    with (map v_codes).
  rewrite <- concat_map, chunks_concat by exact Hc. reflexivity.
Qed.

Lemma batches_cts legacy c g : (1 <= c)%nat ->
  concat (map b_cts (pgen_batches legacy c g)) = map (v_ct legacy) (vrows g).
Proof.
  intros Hc. unfold pgen_batches. rewrite map_map. cbn [mk_batch b_cts].
  change (fun x : list (variant * list call) =>
            map (fun x0 => if legacy then distinct_ct (snd x0) else allele_ct (fst x0)) x)
    with (map (v_ct legacy)).
  rewrite <- concat_map, chunks_concat by exact Hc. reflexivity.
Qed.

Lemma batches_stored legacy c g : (1 <= c)%nat ->
  concat (map batch_rows (pgen_batches legacy c g)) = map (v_stored (planes g)) (vrows g).
Proof.
  intros Hc. unfold pgen_batches. rewrite map_map.
  rewrite (map_ext _ (map (v_stored (planes g)))) by (intro; apply batch_rows_mk).
  rewrite <- concat_map, chunks_concat by exact Hc. reflexivity.
Qed.

Lemma batches_are_rows legacy c g : (1 <= c)%nat ->
  concat (map b_codes (pgen_batches legacy c g)) = map v_codes (vrows g)
  /\ concat (map b_cts (pgen_batches legacy c g)) = map (v_ct legacy) (vrows g)
  /\ concat (map batch_rows (pgen_batches legacy c g)) = map (v_stored (planes g)) (vrows g).
Proof.
  intros Hc. split; [apply batches_codes; exact Hc|].
  split; [apply batches_cts; exact Hc|apply batches_stored; exact Hc].
Qed.

Definition accept (legacy : bool) (g : geno) : bool :=
  forallb (fun x => row_ok (max_allele_ct (g_variants g)) (v_ct legacy x, v_codes x)) (vrows g).

Lemma batches_accept legacy c g : (1 <= c)%nat ->
  forallb (batch_ok (max_allele_ct (g_variants g))) (pgen_batches legacy c g) = accept legacy g.
Proof.
  intros Hc. unfold pgen_batches. rewrite forallb_map'.
  rewrite (forallb_ext' _ (forallb (fun x => row_ok (max_allele_ct (g_variants g)) (v_ct legacy x, v_codes x))))
    by (intro; apply batch_ok_mk).
  rewrite forallb_concat, chunks_concat by exact Hc. reflexivity.
Qed.

(* ---- read side ------------------------------------------------------------- *)

Definition chunk_dom (cs : option Z) : Prop := match cs with None => True | Some c => 1 <= c end.

Lemma chunk_domb_spec cs : chunk_domb cs = true <-> chunk_dom cs.
Proof. destruct cs as [c|]; cbn; [apply Z.leb_le|tauto]. Qed.

Lemma eff_chunk_pos cs p : chunk_dom cs -> 1 <= p -> 1 <= eff_chunk cs p.
Proof.
  intros Hc Hp. unfold eff_chunk. destruct cs as [c|]; [|exact Hp].
  cbn in Hc. destruct (p <? c); lia.
Qed.

Lemma eff_chunk_read_pos cs p : chunk_dom cs -> 1 <= eff_chunk_read false cs p.
Proof.
  intros Hc. unfold eff_chunk_read. destruct cs as [c|]; [|lia].
  cbn in Hc. destruct (p <? c); lia.
Qed.

Lemma load_chunks_irrelevant pload cr sel : chunk_dom cr ->
  pgen_load_chunks pload false cr sel = Ok (map (map (load_call pload)) sel).
Proof.
  intros Hc. unfold pgen_load_chunks.
  pose proof (eff_chunk_read_pos cr (lenZ sel) Hc) as Hs.
  destruct (eff_chunk_read false cr (lenZ sel) =? 0) eqn:E; [apply Z.eqb_eq in E; lia|].
  rewrite <- concat_map, chunks_concat; [reflexivity|].
  change 1%nat with (Z.to_nat 1). apply Z2Nat.inj_le; lia.
Qed.

(* the whole write + read, with no chunk size in it *)
Definition pgen_rt_closed (pload : scall -> scall) (g : geno) : res geno :=
  let n := lenZ (g_samples g) in
  let p := lenZ (g_variants g) in
  if p =? 0 then Ok (mkg (g_samples g) [] [] [n; 0; 3])
  else if accept false g
       then Ok (mkg (g_samples g) (g_variants g)
                    (map (fun x => map (load_call pload) (v_stored (planes g) x)) (vrows g)) [n; p; 3])
       else Err E_Runtime.

Lemma chunking_irrelevant pload g cw cr : chunk_dom cw -> chunk_dom cr ->
  pgen_roundtrip_model pload false cw cr g = pgen_rt_closed pload g.
Proof.
  intros Hw Hr. unfold pgen_roundtrip_model, pgen_rt_closed, pgen_write.
  destruct (lenZ (g_variants g) =? 0) eqn:Ep.
  - cbn [bind]. unfold pgen_read. cbn [pf_variants pf_samples]. reflexivity.
  - assert (Hp : 1 <= lenZ (g_variants g)).
    { apply Z.eqb_neq in Ep. unfold lenZ in *. lia. }
    pose proof (eff_chunk_pos cw _ Hw Hp) as Hs.
    destruct (eff_chunk cw (lenZ (g_variants g)) <=? 0) eqn:E0; [apply Z.leb_le in E0; lia|].
    assert (Hc : (1 <= Z.to_nat (eff_chunk cw (lenZ (g_variants g))))%nat).
    { change 1%nat with (Z.to_nat 1). apply Z2Nat.inj_le; lia. }
    rewrite batches_accept by exact Hc.
    destruct (accept false g); [|reflexivity].
    cbn [bind]. unfold pgen_read. cbn [pf_variants pf_samples]. rewrite Ep.
    unfold stored. cbn [pf_batches]. rewrite batches_stored by exact Hc.
    rewrite load_chunks_irrelevant by exact Hr. cbn [bind].
    rewrite map_map. reflexivity.
Qed.

Corollary chunking_irrelevant2 pload g cw cr cw' cr' :
  chunk_dom cw -> chunk_dom cr -> chunk_dom cw' -> chunk_dom cr' ->
  pgen_roundtrip_model pload false cw cr g = pgen_roundtrip_model pload false cw' cr' g.
Proof. intros. rewrite !chunking_irrelevant by assumption. reflexivity. Qed.

(* ---- the writer's precondition (defect 8) ---------------------------------- *)

Lemma max_allele_ct_ge v vs : In v vs -> allele_ct v <= max_allele_ct vs.
Proof.
  induction vs as [|w r IH]; [intros []|]. cbn [max_allele_ct fold_right].
  intros [->|H]; [lia|]. specialize (IH H). unfold max_allele_ct in IH. lia.
Qed.

Lemma code_of_dom na a : allele_domb na a = true ->
  (a = 255 /\ code_of a = -9) \/ (a <> 255 /\ 0 <= a < na /\ code_of a = a).
Proof.
  unfold allele_domb, code_of. destruct (a =? 255) eqn:E.
  - apply Z.eqb_eq in E. auto.
  - apply Z.eqb_neq in E. cbn. rewrite andb_true_iff, Z.leb_le, Z.ltb_lt. intros [? ?]. right. lia.
Qed.

Lemma call_dom_pair_ok na c : 2 <= na -> call_domb false na c = true ->
  pair_ok (Z.max 2 na) (let '(a, b, _) := c in (code_of a, code_of b)) = true.
Proof.
  intros Hna. destruct c as [[a b] p]. unfold call_domb.
  rewrite !andb_true_iff. intros [[[Ha Hb] Hh] _]. cbn [orb] in Hh.
  apply code_of_dom in Ha. apply code_of_dom in Hb. unfold pair_ok.
  destruct Ha as [[Ha Ca]|[Ha [Ra Ca]]], Hb as [[Hb Cb]|[Hb [Rb Cb]]]; rewrite Ca, Cb.
  - reflexivity.
  - exfalso. subst a. apply Z.eqb_neq in Hb. rewrite Hb in Hh. cbn in Hh. discriminate.
  - exfalso. subst b. apply Z.eqb_neq in Ha. rewrite Ha in Hh. cbn in Hh. discriminate.
  - apply orb_true_iff. right. rewrite !andb_true_iff, !Z.leb_le, !Z.ltb_lt. lia.
Qed.

(* every batch the (fixed) writer hands to pgenlib meets pgenlib's precondition *)
Lemma domain_accept g : geno_domb false g = true -> accept false g = true.
Proof.
  unfold geno_domb, accept. rewrite !andb_true_iff. intros [_ Hrows].
  rewrite forallb_forall in *. intros [v r] Hin. specialize (Hrows _ Hin).
  unfold row_domb in Hrows. cbn [fst snd] in Hrows.
  rewrite !andb_true_iff in Hrows. destruct Hrows as [[[Hna _] _] Hcalls].
  apply Z.leb_le in Hna.
  unfold row_ok, v_ct, v_codes. cbn [fst snd]. apply andb_true_iff. split.
  - apply Z.leb_le. apply max_allele_ct_ge. unfold vrows in Hin. eapply in_combine_l; eauto.
  - unfold row_codes. rewrite forallb_map'. rewrite forallb_forall in *. intros c Hc.
    unfold allele_ct. apply call_dom_pair_ok; auto.
Qed.

Lemma pgen_allele_ct_ok g cw : geno_domb false g = true -> chunk_dom cw ->
  exists pf, pgen_write false cw g = Ok pf
    /\ forallb (batch_ok (pf_limit pf)) (pf_batches pf) = true
    /\ pf_samples pf = g_samples g.
Proof.
  intros Hd Hw. unfold pgen_write.
  destruct (lenZ (g_variants g) =? 0) eqn:Ep.
  - eexists; split; [reflexivity|]. cbn. auto.
  - assert (Hp : 1 <= lenZ (g_variants g)).
    { apply Z.eqb_neq in Ep. unfold lenZ in *. lia. }
    pose proof (eff_chunk_pos cw _ Hw Hp) as Hs.
    destruct (eff_chunk cw (lenZ (g_variants g)) <=? 0) eqn:E0; [apply Z.leb_le in E0; lia|].
    assert (Hc : (1 <= Z.to_nat (eff_chunk cw (lenZ (g_variants g))))%nat).
    { change 1%nat with (Z.to_nat 1). apply Z2Nat.inj_le; lia. }
    pose proof (batches_accept false _ g Hc) as Hacc. rewrite (domain_accept g Hd) in Hacc.
    rewrite Hacc. eexists; split; [reflexivity|]. cbn [pf_limit pf_batches pf_samples]. auto.
Qed.

(* the pinned tree's counts (number of distinct observed values) break it *)
Definition g_missing_biallelic : geno :=
  mkg [0; 1] [mkvar 0 0 10 [0; 1] 1] [[(0, 1, 1); (255, 255, 0)]] [2; 1; 3].
Definition g_unobserved_allele : geno :=
  mkg [0] [mkvar 0 0 31 [0; 1; 2] 1] [[(1, 2, 1)]] [1; 1; 3].

Example legacy_allele_cts_refuted_missing :
  geno_domb false g_missing_biallelic = true
  /\ pgen_write true None g_missing_biallelic = Err E_Runtime
  /\ exists pf, pgen_write false None g_missing_biallelic = Ok pf.
Proof. vm_compute. repeat split. eexists; reflexivity. Qed.

Example legacy_allele_cts_refuted_gap :
  geno_domb false g_unobserved_allele = true
  /\ pgen_write true None g_unobserved_allele = Err E_Runtime
  /\ exists pf, pgen_write false None g_unobserved_allele = Ok pf.
Proof. vm_compute. repeat split. eexists; reflexivity. Qed.

(* ---- the round-trip relation as a Prop ------------------------------------- *)

Definition call_equiv (pl : Z) (x y : call) : Prop :=
  let '(a, b, p) := x in
  let '(a', b', p') := y in
  (a = b -> a' = a /\ b' = b)
  /\ (a <> b -> (pl < 3 \/ p <> 0) -> a' = a /\ b' = b /\ p' <> 0)
  /\ (a <> b -> 3 <= pl -> p = 0 -> p' = 0 /\ ((a' = a /\ b' = b) \/ (a' = b /\ b' = a))).

Lemma call_equivb_spec pl x y : call_equivb pl x y = true <-> call_equiv pl x y.
Proof.
  destruct x as [[a b] p], y as [[a' b'] p']. unfold call_equivb, call_equiv.
  destruct (a =? b) eqn:Eab.
  - apply Z.eqb_eq in Eab. rewrite andb_true_iff, !Z.eqb_eq. split.
    + intros [? ?]. repeat split; intros; try lia.
    + intros [H _]. apply H. exact Eab.
  - apply Z.eqb_neq in Eab. destruct ((pl <? 3) || negb (p =? 0)) eqn:Eph.
    + rewrite !andb_true_iff, !Z.eqb_eq, negb_true_iff, Z.eqb_neq.
      apply orb_true_iff in Eph. rewrite Z.ltb_lt, negb_true_iff, Z.eqb_neq in Eph.
      split.
      * intros [[? ?] ?]. repeat split; intros; try lia.
      * intros [_ [H _]]. specialize (H Eab Eph). tauto.
    + apply orb_false_iff in Eph. rewrite Z.ltb_ge, negb_false_iff, Z.eqb_eq in Eph.
      rewrite !andb_true_iff, orb_true_iff, !andb_true_iff, !Z.eqb_eq. split.
      * intros [? ?]. repeat split; intros; try lia; tauto.
      * intros [_ [_ H]]. apply H; tauto.
Qed.

Lemma list_eqb_Forall2 {A} (e : A -> A -> bool) l1 l2 :
  list_eqb e l1 l2 = true <-> Forall2 (fun a b => e a b = true) l1 l2.
Proof.
  revert l2. induction l1 as [|a r IH]; intros [|b s]; cbn; split; intro H;
    try discriminate; try constructor; try (inversion H; fail).
  - apply andb_true_iff in H. tauto.
  - apply IH. apply andb_true_iff in H. tauto.
  - inversion H; subst. apply andb_true_iff. split; [assumption|apply IH; assumption].
Qed.

Lemma Forall2_impl' {A B} (P Q : A -> B -> Prop) l1 l2 :
  (forall a b, P a b -> Q a b) -> Forall2 P l1 l2 -> Forall2 Q l1 l2.
Proof. intros H F. induction F; constructor; auto. Qed.

Lemma variant_eqb_spec a b : variant_eqb a b = true <-> a = b.
Proof.
  destruct a as [i c p al rl], b as [i' c' p' al' rl']. unfold variant_eqb. cbn.
  rewrite !andb_true_iff, !Z.eqb_eq, (list_eqb_spec Z.eqb Z.eqb_eq). split.
  - intros [[[[-> ->] ->] ->] ->]. reflexivity.
  - intros H. inversion H. auto.
Qed.

(* what the property says about the object read back *)
Definition rt_rel (g g' : geno) : Prop :=
  g_samples g' = g_samples g /\ g_variants g' = g_variants g
  /\ Forall2 (Forall2 (call_equiv (planes g))) (g_rows g) (g_rows g').

Lemma same_geno_spec g g' : same_geno g g' = true <-> rt_rel g g'.
Proof.
  unfold same_geno, rt_rel. rewrite !andb_true_iff.
  rewrite (list_eqb_spec Z.eqb Z.eqb_eq), (list_eqb_spec variant_eqb variant_eqb_spec).
  rewrite list_eqb_Forall2. split.
  - intros [[-> ->] H]. repeat split.
    eapply Forall2_impl'; [|exact H]. intros a b Hab. apply list_eqb_Forall2 in Hab.
    eapply Forall2_impl'; [|exact Hab]. intros x y. apply call_equivb_spec.
  - intros [-> [-> H]]. repeat split.
    eapply Forall2_impl'; [|exact H]. intros a b Hab. apply list_eqb_Forall2.
    eapply Forall2_impl'; [|exact Hab]. intros x y. apply call_equivb_spec.
Qed.

(* soundness of the boolean checkers evaluated on the implementation's output *)
Lemma holds_pgen_sound k :
  holds_pgen k = true ->
  geno_domb (pc_strict_half k) (pc_g k) = true -> chunk_dom (pc_cw k) -> chunk_dom (pc_cr k) ->
  pc_wpre k = false -> pc_rpre k = false ->
  exists g', pc_back k = Ok g' /\ rt_rel (pc_g k) g'.
Proof.
  unfold holds_pgen. intros H Hd Hw Hr Hwp Hrp.
  rewrite Hd, (proj2 (chunk_domb_spec _) Hw), (proj2 (chunk_domb_spec _) Hr) in H. cbn in H.
  unfold same_back, written in H. rewrite Hwp, Hrp in H.
  destruct (pc_back k) as [g'|]; [|discriminate].
  exists g'. split; [reflexivity|]. apply same_geno_spec. exact H.
Qed.

Lemma holds_vcf_sound k :
  holds_vcf k = true -> geno_domb true (vc_g k) = true ->
  vc_wpre k = false -> vc_rpre k = false ->
  exists g', vc_back k = Ok g' /\ rt_rel (vc_g k) g'.
Proof.
  unfold holds_vcf. intros H Hd Hwp Hrp. rewrite Hd in H.
  unfold same_back, written in H. rewrite Hwp, Hrp in H.
  destruct (vc_back k) as [g'|]; [|discriminate].
  exists g'. split; [reflexivity|]. apply same_geno_spec. exact H.
Qed.

(* ---- PGEN round trip under pgenlib's contract ------------------------------ *)

(* contract of pgenlib for a call that the writer accepted: alleles come back,
   in order when the call is homozygous, missing or phased; as an unordered pair
   with phasepresent = 0 when heterozygous and unphased *)
Definition pload_contract (pload : scall -> scall) : Prop :=
  forall x y f, ((x = -9 /\ y = -9) \/ (0 <= x /\ 0 <= y)) ->
    let '(a, b, f') := pload (x, y, f) in
    (x = y -> a = x /\ b = y)
    /\ (x <> y -> f <> 0 -> a = x /\ b = y /\ f' <> 0)
    /\ (x <> y -> f = 0 -> f' = 0 /\ ((a = x /\ b = y) \/ (a = y /\ b = x))).

Lemma pload_std_contract : pload_contract pload_std.
Proof.
  intros x y f H. unfold pload_std.
  destruct ((x =? -9) || (y =? -9)) eqn:E9.
  - assert (x = -9 /\ y = -9) as [-> ->].
    { apply orb_true_iff in E9. rewrite !Z.eqb_eq in E9. lia. }
    repeat split; intros; lia.
  - destruct (x =? y) eqn:Exy.
    + apply Z.eqb_eq in Exy. repeat split; intros; lia.
    + apply Z.eqb_neq in Exy. destruct (f =? 0) eqn:Ef.
      * apply Z.eqb_eq in Ef. repeat split; intros; lia.
      * apply Z.eqb_neq in Ef. repeat split; intros; lia.
Qed.

Lemma decode_code na a : allele_domb na a = true -> na <= 255 -> cast8 (m9 (code_of a)) = a.
Proof.
  intros Ha Hna. apply code_of_dom in Ha. destruct Ha as [[-> ->]|[Hne [Hr ->]]]; [reflexivity|].
  unfold m9, cast8. destruct (a =? -9) eqn:E; [apply Z.eqb_eq in E; lia|].
  apply Z.mod_small. lia.
Qed.

Lemma stored_row_calls pl (r : list call) :
  stored_row (row_codes r) (if pl <? 3 then None else Some (row_phase r))
  = map (fun c : call => let '(a, b, p) := c in (code_of a, code_of b, if pl <? 3 then 1 else p)) r.
Proof.
  unfold stored_row, row_codes, row_phase. destruct (pl <? 3).
  - rewrite map_map. apply map_ext. intros [[a b] p]. reflexivity.
  - rewrite combine_map_same, map_map. apply map_ext. intros [[a b] p]. reflexivity.
Qed.

Lemma call_roundtrip pload pl na c :
  pload_contract pload -> na <= 255 -> call_domb false na c = true ->
  call_equiv pl c (load_call pload (let '(a, b, p) := c in (code_of a, code_of b, if pl <? 3 then 1 else p))).
Proof.
  intros Hc Hna Hd. destruct c as [[a b] p]. unfold call_domb in Hd.
  rewrite !andb_true_iff in Hd. destruct Hd as [[[Ha Hb] Hh] Hp]. cbn [orb] in Hh.
  pose proof (decode_code na a Ha Hna) as Da. pose proof (decode_code na b Hb Hna) as Db.
  pose proof (code_of_dom na a Ha) as Ca. pose proof (code_of_dom na b Hb) as Cb.
  assert (Hpre : (code_of a = -9 /\ code_of b = -9) \/ (0 <= code_of a /\ 0 <= code_of b)).
  { destruct Ca as [[Ea Ca]|[Ea [Ra Ca]]], Cb as [[Eb Cb]|[Eb [Rb Cb]]]; rewrite Ca, Cb; lia. }
  assert (Hinj : code_of a = code_of b <-> a = b).
  { split; [|intros ->; reflexivity]. intros E.
    destruct Ca as [[Ea Ca]|[Ea [Ra Ca]]], Cb as [[Eb Cb]|[Eb [Rb Cb]]]; rewrite Ca, Cb in E; lia. }
  specialize (Hc (code_of a) (code_of b) (if pl <? 3 then 1 else p) Hpre).
  unfold load_call. destruct (pload (code_of a, code_of b, if pl <? 3 then 1 else p)) as [[x y] f'].
  destruct Hc as [H1 [H2 H3]]. unfold call_equiv.
  split; [|split].
  - intros Eab. destruct (H1 (proj2 Hinj Eab)) as [-> ->]. rewrite Da, Db. auto.
  - intros Nab Hph. assert (N : code_of a <> code_of b) by (intro E; apply Nab, Hinj, E).
    assert (F : (if pl <? 3 then 1 else p) <> 0).
    { destruct (pl <? 3) eqn:E; [lia|]. apply Z.ltb_ge in E. lia. }
    destruct (H2 N F) as [-> [-> Hf]]. rewrite Da, Db. auto.
  - intros Nab Hpl Hp0. assert (N : code_of a <> code_of b) by (intro E; apply Nab, Hinj, E).
    assert (F : (if pl <? 3 then 1 else p) = 0).
    { destruct (pl <? 3) eqn:E; [apply Z.ltb_lt in E; lia|exact Hp0]. }
    destruct (H3 N F) as [Hf [[-> ->]|[-> ->]]]; rewrite Da, Db; auto.
Qed.

Lemma Forall2_map_self {A B} (R : A -> B -> Prop) (H : A -> B) (l : list A) :
  (forall c, In c l -> R c (H c)) -> Forall2 R l (map H l).
Proof.
  induction l as [|a r IH]; intros Hl; cbn; constructor.
  - apply Hl. left. reflexivity.
  - apply IH. intros c Hc. apply Hl. right. exact Hc.
Qed.

Lemma Forall2_combine_map {A B C} (R : B -> C -> Prop) (F : A * B -> C) (la : list A) (lb : list B) :
  length lb = length la ->
  (forall x, In x (combine la lb) -> R (snd x) (F x)) ->
  Forall2 R lb (map F (combine la lb)).
Proof.
  revert lb. induction la as [|a ra IH]; intros [|b rb] Hlen Hx; cbn in *; try discriminate; constructor.
  - apply (Hx (a, b)). left. reflexivity.
  - apply IH; [lia|]. intros x Hin. apply Hx. right. exact Hin.
Qed.

Lemma lenZ_0_nil {A} (l : list A) : lenZ l = 0 -> l = [].
Proof. destruct l; [reflexivity|]. unfold lenZ. cbn [length]. lia. Qed.

Lemma pgen_roundtrip pload g cw cr :
  pload_contract pload -> geno_domb false g = true -> chunk_dom cw -> chunk_dom cr ->
  exists g', pgen_roundtrip_model pload false cw cr g = Ok g' /\ rt_rel g g'.
Proof.
  intros Hc Hd Hw Hr. rewrite chunking_irrelevant by assumption.
  pose proof (domain_accept g Hd) as Hacc.
  unfold geno_domb in Hd. rewrite !andb_true_iff in Hd. destruct Hd as [[_ Hlen] Hrows].
  apply Z.eqb_eq in Hlen. unfold pgen_rt_closed.
  destruct (lenZ (g_variants g) =? 0) eqn:Ep.
  - apply Z.eqb_eq in Ep. eexists. split; [reflexivity|]. unfold rt_rel. cbn [g_samples g_variants g_rows].
    rewrite (lenZ_0_nil _ Ep). rewrite Ep in Hlen. rewrite (lenZ_0_nil _ Hlen). repeat split. constructor.
  - rewrite Hacc. eexists. split; [reflexivity|]. unfold rt_rel. cbn [g_samples g_variants g_rows].
    split; [reflexivity|]. split; [reflexivity|].
    unfold vrows. apply Forall2_combine_map; [unfold lenZ in Hlen; lia|].
    intros [v r] Hin. cbn [snd]. rewrite forallb_forall in Hrows. specialize (Hrows _ Hin).
    unfold row_domb in Hrows. cbn [fst snd] in Hrows. rewrite !andb_true_iff in Hrows.
    destruct Hrows as [[[_ Hna] _] Hcalls]. apply Z.leb_le in Hna.
    unfold v_stored. cbn [snd]. rewrite stored_row_calls, map_map.
    apply Forall2_map_self. intros c Hcin. rewrite forallb_forall in Hcalls.
    apply (call_roundtrip pload (planes g) (lenZ (v_alleles v)) c Hc Hna (Hcalls _ Hcin)).
Qed.

(* ---- VCF round trip under the pysam/cyvcf2 contract ------------------------ *)

Definition vload_contract (vload : vcall -> Z * Z * Z) : Prop :=
  forall a b ph, vload (a, b, ph) = (oz a, oz b, if ph then 1 else 0).

Lemma vload_std_contract : vload_contract vload_std.
Proof. intros a b ph. reflexivity. Qed.

Lemma decode_gt na a : allele_domb na a = true -> na <= 255 -> cast8 (oz (gt_of a)) = a.
Proof.
  intros Ha Hna. unfold gt_of. apply code_of_dom in Ha.
  destruct Ha as [[-> _]|[Hne [Hr _]]]; [reflexivity|].
  destruct (a =? 255) eqn:E; [apply Z.eqb_eq in E; lia|]. cbn [oz]. apply Z.mod_small. lia.
Qed.

(* the VCF codec is exact on the alleles; the third plane comes back as the
   phased flag that was written (1 everywhere for a 2-plane array) *)
Definition norm_call (pl : Z) (c : call) : call :=
  let '(a, b, p) := c in (a, b, if pl <? 3 then 1 else p).

Lemma vcf_call_roundtrip vload pl na c :
  vload_contract vload -> na <= 255 -> call_domb true na c = true ->
  vcf_load_call vload (vcf_call pl c) = norm_call pl c.
Proof.
  intros Hv Hna Hd. destruct c as [[a b] p]. unfold call_domb in Hd.
  rewrite !andb_true_iff in Hd. destruct Hd as [[[Ha Hb] _] Hp].
  unfold vcf_load_call, vcf_call. rewrite Hv.
  rewrite (decode_gt na a Ha Hna), (decode_gt na b Hb Hna). unfold norm_call.
  destruct (pl <? 3); [reflexivity|].
  apply orb_true_iff in Hp. rewrite !Z.eqb_eq in Hp. destruct Hp as [->| ->]; reflexivity.
Qed.

Lemma norm_call_equiv pl c : call_equiv pl c (norm_call pl c).
Proof.
  destruct c as [[a b] p]. unfold call_equiv, norm_call. split; [|split].
  - auto.
  - intros _ H. repeat split. destruct (pl <? 3) eqn:E; [lia|]. apply Z.ltb_ge in E. lia.
  - intros _ H1 H2. split; [|auto]. destruct (pl <? 3) eqn:E; [apply Z.ltb_lt in E; lia|exact H2].
Qed.

Lemma map_combine_snd {A B C} (F : B -> C) (la : list A) (lb : list B) :
  length lb = length la -> map (fun r => F (snd r)) (combine la lb) = map F lb.
Proof.
  revert lb. induction la as [|a ra IH]; intros [|b rb] H; cbn in *; try discriminate; try reflexivity.
  rewrite IH by lia. reflexivity.
Qed.

Lemma map_combine_fst {A B} (la : list A) (lb : list B) :
  length lb = length la -> map fst (combine la lb) = la.
Proof.
  revert lb. induction la as [|a ra IH]; intros [|b rb] H; cbn in *; try discriminate; try reflexivity.
  rewrite IH by lia. reflexivity.
Qed.

Lemma in_combine_snd_ex {A B} (la : list A) (lb : list B) :
  length lb = length la -> forall b, In b lb -> exists a, In (a, b) (combine la lb).
Proof.
  revert lb. induction la as [|a ra IH]; intros [|b0 rb] H b Hb; cbn in *; try discriminate; try tauto.
  destruct Hb as [->|Hb]; [exists a; auto|].
  destruct (IH rb ltac:(lia) b Hb) as [a' Ha']. exists a'. auto.
Qed.

(* for every index state (indexed or not: the fixed reader does not look at it) *)
Lemma vcf_roundtrip vload g indexed :
  vload_contract vload -> geno_domb true g = true -> 1 <= lenZ (g_variants g) ->
  vcf_roundtrip_model vload false indexed g
  = mkg (g_samples g) (g_variants g) (map (map (norm_call (planes g))) (g_rows g))
        [lenZ (g_samples g); lenZ (g_variants g); 3]
  /\ rt_rel g (vcf_roundtrip_model vload false indexed g).
Proof.
  intros Hv Hd Hp.
  assert (E : vcf_roundtrip_model vload false indexed g
    = mkg (g_samples g) (g_variants g) (map (map (norm_call (planes g))) (g_rows g))
        [lenZ (g_samples g); lenZ (g_variants g); 3]).
  { unfold geno_domb in Hd. rewrite !andb_true_iff in Hd. destruct Hd as [[Hn Hlen] Hrows].
    apply Z.leb_le in Hn. apply Z.eqb_eq in Hlen.
    assert (Hl : length (map (map (vcf_call (planes g))) (g_rows g)) = length (g_variants g)).
    { rewrite map_length. unfold lenZ in Hlen. lia. }
    unfold vcf_roundtrip_model, vcf_read, vcf_write. cbn [andb vf_recs vf_samples].
    assert (Hlr : lenZ (combine (g_variants g) (map (map (vcf_call (planes g))) (g_rows g))) = lenZ (g_variants g)).
    { unfold lenZ. rewrite combine_length, Hl. lia. }
    rewrite Hlr.
    destruct (lenZ (g_samples g) =? 0) eqn:E1; [apply Z.eqb_eq in E1; lia|].
    destruct (lenZ (g_variants g) =? 0) eqn:E2; [apply Z.eqb_eq in E2; lia|]. cbn [orb].
    rewrite (map_combine_fst _ _ Hl).
    rewrite (map_combine_snd (map (vcf_load_call vload)) _ _ Hl). rewrite map_map.
    f_equal. 
    (* row by row *)
    assert (Hin : forall r, In r (g_rows g) -> exists v, In (v, r) (combine (g_variants g) (g_rows g))).
    { apply in_combine_snd_ex. unfold lenZ in Hlen. lia. }
    apply map_ext_in. intros r Hr. destruct (Hin r Hr) as [v Hvr].
    rewrite forallb_forall in Hrows. specialize (Hrows _ Hvr). unfold row_domb in Hrows.
    cbn [fst snd] in Hrows. rewrite !andb_true_iff in Hrows. destruct Hrows as [[[_ Hna] _] Hcalls].
    apply Z.leb_le in Hna. rewrite map_map. apply map_ext_in. intros c Hc.
    rewrite forallb_forall in Hcalls.
    apply (vcf_call_roundtrip vload (planes g) (lenZ (v_alleles v)) c Hv Hna (Hcalls _ Hc)). }
  split; [exact E|]. rewrite E. unfold rt_rel. cbn [g_samples g_variants g_rows].
  split; [reflexivity|]. split; [reflexivity|].
  apply Forall2_map_self. intros r _. apply Forall2_map_self. intros c _. apply norm_call_equiv.
Qed.

(* ---- the empty matrix ------------------------------------------------------- *)

Lemma empty_roundtrip pload vload samples k cw cr legacy indexed :
  let g := mkg samples [] [] [lenZ samples; 0; k] in
  pgen_roundtrip_model pload legacy cw cr g = Ok (mkg samples [] [] [lenZ samples; 0; 3])
  /\ vcf_roundtrip_model vload legacy indexed g = mkg samples [] [] [0; 0; 0].
Proof.
  cbn zeta. split.
  - reflexivity.
  - unfold vcf_roundtrip_model, vcf_read, vcf_write. cbn [g_variants g_rows g_samples combine map vf_recs vf_samples].
    destruct (legacy && negb indexed); cbn [lenZ length map]; rewrite orb_true_r; reflexivity.
Qed.

(* ---- defect 9: the pinned reader returns nothing without an index ---------- *)

Definition g_one : geno := mkg [0] [mkvar 0 0 28 [0; 1] 1] [[(0, 0, 1)]] [1; 1; 2].

Example legacy_unindexed_refuted :
  geno_domb true g_one = true
  /\ vcf_roundtrip_model vload_std true false g_one = mkg [0] [] [] [0; 0; 0]
  /\ same_geno g_one (vcf_roundtrip_model vload_std true false g_one) = false
  /\ same_geno g_one (vcf_roundtrip_model vload_std true true g_one) = true
  /\ same_geno g_one (vcf_roundtrip_model vload_std false false g_one) = true.
Proof. vm_compute. repeat split. Qed.

(* the hypotheses of the round-trip theorems are satisfiable *)
Example roundtrip_hypotheses_satisfiable :
  pload_contract pload_std /\ vload_contract vload_std
  /\ geno_domb false g_unobserved_allele = true /\ geno_domb true g_one = true
  /\ chunk_dom None /\ chunk_dom (Some 1).
Proof.
  split; [exact pload_std_contract|]. split; [exact vload_std_contract|].
  vm_compute. repeat split; discriminate.
Qed.
