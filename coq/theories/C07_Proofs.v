(* C07 - proofs about the model of the PGEN / VCF codecs. *)
From HV Require Import Prelude BpText C07_Text C07_Files C07_Model C07_Check C07_ProofsText.
(* (C07_Check also exports BpText / C07_Text / C07_Files names; the proofs about the text of
   the files are in C07_ProofsText) *)

(* ---- the chunk loop ------------------------------------------------------- *)

Lemma chunks_fuel_concat {A} : forall fuel c (l : list A),
  (1 <= c)%nat -> (length l <= fuel)%nat -> concat (chunks_fuel fuel c l) = l.
Proof.
  induction fuel as [|f IH]; intros c l Hc Hl.
  - destruct l; [reflexivity|cbn in Hl; lia].
  - cbn [chunks_fuel]. destruct l as [|a r]; [reflexivity|].
    cbn [concat]. rewrite IH; [apply firstn_skipn|exact Hc|].
    rewrite skipn_length. cbn [length] in *. lia.
Qed.

Lemma chunks_concat {A} c (l : list A) : (1 <= c)%nat -> concat (chunks c l) = l.
Proof. intros Hc. apply chunks_fuel_concat; [exact Hc|lia]. Qed.

Lemma forallb_concat {A} (P : A -> bool) (ls : list (list A)) :
  forallb (forallb P) ls = forallb P (concat ls).
Proof.
  induction ls as [|l r IH]; [reflexivity|].
  cbn [concat forallb]. rewrite forallb_app, IH. reflexivity.
Qed.

Lemma forallb_map' {A B} (f : A -> B) (P : B -> bool) (l : list A) :
  forallb P (map f l) = forallb (fun x => P (f x)) l.
Proof. induction l as [|a r IH]; [reflexivity|]. cbn. rewrite IH. reflexivity. Qed.

Lemma forallb_ext' {A} (P Q : A -> bool) (l : list A) :
  (forall x, P x = Q x) -> forallb P l = forallb Q l.
Proof. intros H. induction l as [|a r IH]; [reflexivity|]. cbn. rewrite H, IH. reflexivity. Qed.

Lemma combine_map_same {A B C} (f : A -> B) (g : A -> C) (l : list A) :
  combine (map f l) (map g l) = map (fun x => (f x, g x)) l.
Proof. induction l as [|a r IH]; [reflexivity|]. cbn. rewrite IH. reflexivity. Qed.

(* ---- write side: the batches are the unchunked rows, cut ------------------- *)

(* what one variant contributes, independent of any chunking *)
Definition v_codes (x : variant * list call) : list (Z * Z) := row_codes (snd x).
Definition v_ct (legacy : bool) (x : variant * list call) : Z :=
  if legacy then distinct_ct (snd x) else allele_ct (fst x).
Definition v_stored (pl : Z) (x : variant * list call) : list scall :=
  stored_row (row_codes (snd x)) (if pl <? 3 then None else Some (row_phase (snd x))).

Lemma batch_rows_mk legacy pl vr :
  batch_rows (mk_batch legacy pl vr) = map (v_stored pl) vr.
Proof.
  unfold batch_rows, mk_batch, v_stored. cbn [b_phase b_codes].
  destruct (pl <? 3).
  - rewrite map_map. reflexivity.
  - rewrite combine_map_same, map_map. reflexivity.
Qed.

Lemma batch_ok_mk legacy pl limit vr :
  batch_ok limit (mk_batch legacy pl vr)
  = forallb (fun x => row_ok limit (v_ct legacy x, v_codes x)) vr.
Proof.
  unfold batch_ok, mk_batch. cbn [b_cts b_codes].
  rewrite combine_map_same. induction vr as [|x r IH]; [reflexivity|].
  cbn [map forallb]. rewrite IH. reflexivity.
Qed.

Definition vrows (g : geno) := combine (g_variants g) (g_rows g).

Lemma batches_codes legacy c g : (1 <= c)%nat ->
  concat (map b_codes (pgen_batches legacy c g)) = map v_codes (vrows g).
Proof.
  intros Hc. unfold pgen_batches. rewrite map_map. cbn [mk_batch b_codes].
  change (fun x : list (variant * list call) => map (fun x0 => row_codes (snd x0)) x)
    with (map v_codes).
  rewrite <- concat_map, chunks_concat by exact Hc. reflexivity.
Qed.

Lemma batches_cts legacy c g : (1 <= c)%nat ->
  concat (map b_cts (pgen_batches legacy c g)) = map (v_ct legacy) (vrows g).
Proof.
  intros Hc. unfold pgen_batches. rewrite map_map. cbn [mk_batch b_cts].
  change (fun x : list (variant * list call) =>
            map (fun x0 => if legacy then distinct_ct (snd x0) else allele_ct (fst x0)) x)
    with (map (v_ct legacy)).
  rewrite <- concat_map, chunks_concat by exact Hc. reflexivity.
Qed.

Lemma batches_stored legacy c g : (1 <= c)%nat ->
  concat (map batch_rows (pgen_batches legacy c g)) = map (v_stored (planes g)) (vrows g).
Proof.
  intros Hc. unfold pgen_batches. rewrite map_map.
  rewrite (map_ext _ (map (v_stored (planes g)))) by (intro; apply batch_rows_mk).
  rewrite <- concat_map, chunks_concat by exact Hc. reflexivity.
Qed.

Lemma batches_are_rows legacy c g : (1 <= c)%nat ->
  concat (map b_codes (pgen_batches legacy c g)) = map v_codes (vrows g)
  /\ concat (map b_cts (pgen_batches legacy c g)) = map (v_ct legacy) (vrows g)
  /\ concat (map batch_rows (pgen_batches legacy c g)) = map (v_stored (planes g)) (vrows g).
Proof.
  intros Hc. split; [apply batches_codes; exact Hc|].
  split; [apply batches_cts; exact Hc|apply batches_stored; exact Hc].
Qed.

Definition accept (legacy : bool) (g : geno) : bool :=
  forallb (fun x => row_ok (max_allele_ct (g_variants g)) (v_ct legacy x, v_codes x)) (vrows g).

Lemma batches_accept legacy c g : (1 <= c)%nat ->
  forallb (batch_ok (max_allele_ct (g_variants g))) (pgen_batches legacy c g) = accept legacy g.
Proof.
  intros Hc. unfold pgen_batches. rewrite forallb_map'.
  rewrite (forallb_ext' _ (forallb (fun x => row_ok (max_allele_ct (g_variants g)) (v_ct legacy x, v_codes x))))
    by (intro; apply batch_ok_mk).
  rewrite forallb_concat, chunks_concat by exact Hc. reflexivity.
Qed.

(* ---- read side ------------------------------------------------------------- *)

Definition chunk_dom (cs : option Z) : Prop := match cs with None => True | Some c => 1 <= c end.

Lemma chunk_domb_spec cs : chunk_domb cs = true <-> chunk_dom cs.
Proof. destruct cs as [c|]; cbn; [apply Z.leb_le|tauto]. Qed.

Lemma eff_chunk_pos cs p : chunk_dom cs -> 1 <= p -> 1 <= eff_chunk cs p.
Proof.
  intros Hc Hp. unfold eff_chunk. destruct cs as [c|]; [|exact Hp].
  cbn in Hc. destruct (p <? c); lia.
Qed.

Lemma eff_chunk_read_pos cs p : chunk_dom cs -> 1 <= eff_chunk_read false cs p.
Proof.
  intros Hc. unfold eff_chunk_read. destruct cs as [c|]; [|lia].
  cbn in Hc. destruct (p <? c); lia.
Qed.

Lemma load_chunks_irrelevant pload cr sel : chunk_dom cr ->
  pgen_load_chunks pload false cr sel = Ok (map (map (load_call pload)) sel).
Proof.
  intros Hc. unfold pgen_load_chunks.
  pose proof (eff_chunk_read_pos cr (lenZ sel) Hc) as Hs.
  destruct (eff_chunk_read false cr (lenZ sel) =? 0) eqn:E; [apply Z.eqb_eq in E; lia|].
  rewrite <- concat_map, chunks_concat; [reflexivity|].
  change 1%nat with (Z.to_nat 1). apply Z2Nat.inj_le; lia.
Qed.

(* pgenlib's acceptance rule.  complete: a batch that meets the stated precondition is
   accepted; sound: an accepted batch meets it (so a batch that violates it is rejected) *)
Definition paccept_complete (paccept : Z -> batch -> bool) : Prop :=
  forall limit b, batch_ok limit b = true -> paccept limit b = true.
Definition paccept_sound (paccept : Z -> batch -> bool) : Prop :=
  forall limit b, paccept limit b = true -> batch_ok limit b = true.

Lemma paccept_std_complete : paccept_complete paccept_std.
Proof. intros limit b H. exact H. Qed.
Lemma paccept_std_sound : paccept_sound paccept_std.
Proof. intros limit b H. exact H. Qed.

Lemma forallb_eq_ext {A} (P Q : A -> bool) l :
  (forall x, P x = true -> Q x = true) -> forallb P l = true -> forallb Q l = true.
Proof.
  intros H. induction l as [|a r IH]; [reflexivity|]. cbn [forallb].
  rewrite !andb_true_iff. intros [Ha Hr]. split; [apply H; exact Ha|apply IH; exact Hr].
Qed.

(* under both clauses the acceptance of the batches is the per-variant test [accept],
   whatever the chunk size *)
Lemma batches_paccept paccept legacy c g : (1 <= c)%nat ->
  paccept_complete paccept -> paccept_sound paccept ->
  forallb (paccept (max_allele_ct (g_variants g))) (pgen_batches legacy c g) = accept legacy g.
Proof.
  intros Hc Hcomp Hsound. rewrite <- (batches_accept legacy c g Hc).
  destruct (forallb (batch_ok (max_allele_ct (g_variants g))) (pgen_batches legacy c g)) eqn:E.
  - revert E. apply forallb_eq_ext. intros b. apply Hcomp.
  - destruct (forallb (paccept (max_allele_ct (g_variants g))) (pgen_batches legacy c g)) eqn:E'; [|reflexivity].
    rewrite <- E. symmetry. revert E'. apply forallb_eq_ext. intros b. apply Hsound.
Qed.

(* with the complete clause alone: what [accept] passes is accepted *)
Lemma batches_paccept_ok paccept legacy c g : (1 <= c)%nat ->
  paccept_complete paccept -> accept legacy g = true ->
  forallb (paccept (max_allele_ct (g_variants g))) (pgen_batches legacy c g) = true.
Proof.
  intros Hc Hcomp Hacc. rewrite <- (batches_accept legacy c g Hc) in Hacc.
  revert Hacc. apply forallb_eq_ext. intros b. apply Hcomp.
Qed.

(* the whole write + read, with no chunk size in it *)
Definition pgen_rt_closed (pload : scall -> scall) (g : geno) : res geno :=
  let n := lenZ (g_samples g) in
  let p := lenZ (g_variants g) in
  if p =? 0 then Ok (mkg (g_samples g) [] [] [n; 0; 3])
  else if n =? 0 then Err E_Value
  else if accept false g
       then Ok (mkg (g_samples g) (g_variants g)
                    (map (fun x => map (load_call pload) (v_stored (planes g) x)) (vrows g)) [n; p; 3])
       else Err E_Runtime.

Lemma step_nat cw p : chunk_dom cw -> 1 <= p ->
  (eff_chunk cw p <=? 0) = false /\ (1 <= Z.to_nat (eff_chunk cw p))%nat.
Proof.
  intros Hw Hp. pose proof (eff_chunk_pos cw p Hw Hp) as Hs. split.
  - apply Z.leb_gt. lia.
  - change 1%nat with (Z.to_nat 1). apply Z2Nat.inj_le; lia.
Qed.

Lemma read_written pload cr g c : chunk_dom cr -> (1 <= c)%nat ->
  (lenZ (g_variants g) =? 0) = false ->
  pgen_read pload false cr (mkpf (g_samples g) (g_variants g) (max_allele_ct (g_variants g)) (pgen_batches false c g))
  = Ok (mkg (g_samples g) (g_variants g)
            (map (fun x => map (load_call pload) (v_stored (planes g) x)) (vrows g))
            [lenZ (g_samples g); lenZ (g_variants g); 3]).
Proof.
  intros Hr Hc Ep. unfold pgen_read. cbn [pf_variants pf_samples]. rewrite Ep.
  unfold stored. cbn [pf_batches]. rewrite batches_stored by exact Hc.
  rewrite load_chunks_irrelevant by exact Hr. cbn [bind]. rewrite map_map. reflexivity.
Qed.

Lemma chunking_irrelevant paccept pload g cw cr :
  paccept_complete paccept -> paccept_sound paccept -> chunk_dom cw -> chunk_dom cr ->
  pgen_roundtrip_model paccept pload false cw cr g = pgen_rt_closed pload g.
Proof.
  intros Hcomp Hsound Hw Hr. unfold pgen_roundtrip_model, pgen_rt_closed, pgen_write.
  destruct (lenZ (g_variants g) =? 0) eqn:Ep.
  - cbn [bind]. unfold pgen_read. cbn [pf_variants pf_samples]. reflexivity.
  - destruct (lenZ (g_samples g) =? 0) eqn:En; [reflexivity|].
    assert (Hp : 1 <= lenZ (g_variants g)).
    { apply Z.eqb_neq in Ep. unfold lenZ in *. lia. }
    destruct (step_nat cw _ Hw Hp) as [E0 Hc]. rewrite E0.
    rewrite batches_paccept by assumption.
    destruct (accept false g); [|reflexivity].
    cbn [bind]. apply read_written; assumption.
Qed.

Corollary chunking_irrelevant2 paccept pload g cw cr cw' cr' :
  paccept_complete paccept -> paccept_sound paccept ->
  chunk_dom cw -> chunk_dom cr -> chunk_dom cw' -> chunk_dom cr' ->
  pgen_roundtrip_model paccept pload false cw cr g = pgen_roundtrip_model paccept pload false cw' cr' g.
Proof. intros. rewrite !(chunking_irrelevant paccept) by assumption. reflexivity. Qed.

(* ---- the writer's precondition (defect 8) ---------------------------------- *)

Lemma max_allele_ct_ge v vs : In v vs -> allele_ct v <= max_allele_ct vs.
Proof.
  induction vs as [|w r IH]; [intros []|]. cbn [max_allele_ct fold_right].
  intros [->|H]; [lia|]. specialize (IH H). unfold max_allele_ct in IH. lia.
Qed.

Lemma code_of_dom na a : allele_domb na a = true ->
  (a = 255 /\ code_of a = -9) \/ (a <> 255 /\ 0 <= a < na /\ code_of a = a).
Proof.
  unfold allele_domb, code_of. destruct (a =? 255) eqn:E.
  - apply Z.eqb_eq in E. auto.
  - apply Z.eqb_neq in E. cbn. rewrite andb_true_iff, Z.leb_le, Z.ltb_lt. intros [? ?]. right. lia.
Qed.

Lemma call_dom_pair_ok na c : 2 <= na -> call_domb false na c = true ->
  pair_ok (Z.max 2 na) (let '(a, b, _) := c in (code_of a, code_of b)) = true.
Proof.
  intros Hna. destruct c as [[a b] p]. unfold call_domb.
  rewrite !andb_true_iff. intros [[[Ha Hb] Hh] _]. cbn [orb] in Hh.
  apply code_of_dom in Ha. apply code_of_dom in Hb. unfold pair_ok.
  destruct Ha as [[Ha Ca]|[Ha [Ra Ca]]], Hb as [[Hb Cb]|[Hb [Rb Cb]]]; rewrite Ca, Cb.
  - reflexivity.
  - exfalso. subst a. apply Z.eqb_neq in Hb. rewrite Hb in Hh. cbn in Hh. discriminate.
  - exfalso. subst b. apply Z.eqb_neq in Ha. rewrite Ha in Hh. cbn in Hh. discriminate.
  - apply orb_true_iff. right. rewrite !andb_true_iff, !Z.leb_le, !Z.ltb_lt. lia.
Qed.

(* every batch the (fixed) writer hands to pgenlib meets pgenlib's precondition *)
Lemma domain_accept g : geno_domb false g = true -> accept false g = true.
Proof.
  unfold geno_domb, accept. rewrite !andb_true_iff. intros [_ Hrows].
  rewrite forallb_forall in *. intros [v r] Hin. specialize (Hrows _ Hin).
  unfold row_domb in Hrows. cbn [fst snd] in Hrows.
  rewrite !andb_true_iff in Hrows. destruct Hrows as [[[Hna _] _] Hcalls].
  apply Z.leb_le in Hna.
  unfold row_ok, v_ct, v_codes. cbn [fst snd]. apply andb_true_iff. split.
  - apply Z.leb_le. apply max_allele_ct_ge. unfold vrows in Hin. eapply in_combine_l; eauto.
  - unfold row_codes. rewrite forallb_map'. rewrite forallb_forall in *. intros c Hc.
    unfold allele_ct. apply call_dom_pair_ok; auto.
Qed.

Lemma geno_domb_samples half g : geno_domb half g = true -> (lenZ (g_samples g) =? 0) = false.
Proof.
  unfold geno_domb. rewrite !andb_true_iff, Z.leb_le. intros [[Hn _] _]. apply Z.eqb_neq. lia.
Qed.

Lemma pgen_allele_ct_ok paccept g cw :
  paccept_complete paccept -> geno_domb false g = true -> chunk_dom cw ->
  exists pf, pgen_write paccept false cw g = Ok pf
    /\ forallb (batch_ok (pf_limit pf)) (pf_batches pf) = true
    /\ pf_samples pf = g_samples g.
Proof.
  intros Hcomp Hd Hw. unfold pgen_write.
  destruct (lenZ (g_variants g) =? 0) eqn:Ep.
  - eexists; split; [reflexivity|]. cbn. auto.
  - rewrite (geno_domb_samples _ _ Hd).
    assert (Hp : 1 <= lenZ (g_variants g)).
    { apply Z.eqb_neq in Ep. unfold lenZ in *. lia. }
    destruct (step_nat cw _ Hw Hp) as [E0 Hc]. rewrite E0.
    rewrite (batches_paccept_ok paccept false _ g Hc Hcomp (domain_accept g Hd)).
    eexists; split; [reflexivity|]. cbn [pf_limit pf_batches pf_samples]. split; [|reflexivity].
    rewrite (batches_accept false _ g Hc). apply domain_accept. exact Hd.
Qed.

(* the pinned tree's counts (number of distinct observed values) break it *)
Definition g_missing_biallelic : geno :=
  mkg [0; 1] [mkvar 0 0 10 [0; 1] 1] [[(0, 1, 1); (255, 255, 0)]] [2; 1; 3].
Definition g_unobserved_allele : geno :=
  mkg [0] [mkvar 0 0 31 [0; 1; 2] 1] [[(1, 2, 1)]] [1; 1; 3].

Example legacy_allele_cts_refuted_missing :
  geno_domb false g_missing_biallelic = true
  /\ pgen_write paccept_std true None g_missing_biallelic = Err E_Runtime
  /\ exists pf, pgen_write paccept_std false None g_missing_biallelic = Ok pf.
Proof. vm_compute. repeat split. eexists; reflexivity. Qed.

Example legacy_allele_cts_refuted_gap :
  geno_domb false g_unobserved_allele = true
  /\ pgen_write paccept_std true None g_unobserved_allele = Err E_Runtime
  /\ exists pf, pgen_write paccept_std false None g_unobserved_allele = Ok pf.
Proof. vm_compute. repeat split. eexists; reflexivity. Qed.

(* ---- the round-trip relation as a Prop ------------------------------------- *)

Definition call_equiv (pl : Z) (x y : call) : Prop :=
  let '(a, b, p) := x in
  let '(a', b', p') := y in
  (a = b -> a' = a /\ b' = b)
  /\ (a <> b -> (pl < 3 \/ p <> 0) -> a' = a /\ b' = b /\ p' <> 0)
  /\ (a <> b -> 3 <= pl -> p = 0 -> p' = 0 /\ ((a' = a /\ b' = b) \/ (a' = b /\ b' = a))).

Lemma call_equivb_spec pl x y : call_equivb pl x y = true <-> call_equiv pl x y.
Proof.
  destruct x as [[a b] p], y as [[a' b'] p']. unfold call_equivb, call_equiv.
  destruct (a =? b) eqn:Eab.
  - apply Z.eqb_eq in Eab. rewrite andb_true_iff, !Z.eqb_eq. split.
    + intros [? ?]. repeat split; intros; try lia.
    + intros [H _]. apply H. exact Eab.
  - apply Z.eqb_neq in Eab. destruct ((pl <? 3) || negb (p =? 0)) eqn:Eph.
    + rewrite !andb_true_iff, !Z.eqb_eq, negb_true_iff, Z.eqb_neq.
      apply orb_true_iff in Eph. rewrite Z.ltb_lt, negb_true_iff, Z.eqb_neq in Eph.
      split.
      * intros [[? ?] ?]. repeat split; intros; try lia.
      * intros [_ [H _]]. specialize (H Eab Eph). tauto.
    + apply orb_false_iff in Eph. rewrite Z.ltb_ge, negb_false_iff, Z.eqb_eq in Eph.
      rewrite !andb_true_iff, orb_true_iff, !andb_true_iff, !Z.eqb_eq. split.
      * intros [? ?]. repeat split; intros; try lia; tauto.
      * intros [_ [_ H]]. apply H; tauto.
Qed.

Lemma list_eqb_Forall2 {A} (e : A -> A -> bool) l1 l2 :
  list_eqb e l1 l2 = true <-> Forall2 (fun a b => e a b = true) l1 l2.
Proof.
  revert l2. induction l1 as [|a r IH]; intros [|b s]; cbn; split; intro H;
    try discriminate; try constructor; try (inversion H; fail).
  - apply andb_true_iff in H. tauto.
  - apply IH. apply andb_true_iff in H. tauto.
  - inversion H; subst. apply andb_true_iff. split; [assumption|apply IH; assumption].
Qed.

Lemma Forall2_impl' {A B} (P Q : A -> B -> Prop) l1 l2 :
  (forall a b, P a b -> Q a b) -> Forall2 P l1 l2 -> Forall2 Q l1 l2.
Proof. intros H F. induction F; constructor; auto. Qed.

Lemma variant_eqb_spec a b : variant_eqb a b = true <-> a = b.
Proof.
  destruct a as [i c p al rl], b as [i' c' p' al' rl']. unfold variant_eqb. cbn.
  rewrite !andb_true_iff, !Z.eqb_eq, (list_eqb_spec Z.eqb Z.eqb_eq). split.
  - intros [[[[-> ->] ->] ->] ->]. reflexivity.
  - intros H. inversion H. auto.
Qed.

(* what the property says about the object read back *)
Definition rt_rel (g g' : geno) : Prop :=
  g_samples g' = g_samples g /\ g_variants g' = g_variants g
  /\ Forall2 (Forall2 (call_equiv (planes g))) (g_rows g) (g_rows g').

Lemma same_geno_spec g g' : same_geno g g' = true <-> rt_rel g g'.
Proof.
  unfold same_geno, rt_rel. rewrite !andb_true_iff.
  rewrite (list_eqb_spec Z.eqb Z.eqb_eq), (list_eqb_spec variant_eqb variant_eqb_spec).
  rewrite list_eqb_Forall2. split.
  - intros [[-> ->] H]. repeat split.
    eapply Forall2_impl'; [|exact H]. intros a b Hab. apply list_eqb_Forall2 in Hab.
    eapply Forall2_impl'; [|exact Hab]. intros x y. apply call_equivb_spec.
  - intros [-> [-> H]]. repeat split.
    eapply Forall2_impl'; [|exact H]. intros a b Hab. apply list_eqb_Forall2.
    eapply Forall2_impl'; [|exact Hab]. intros x y. apply call_equivb_spec.
Qed.

Lemma lenZ_0_nil {A} (l : list A) : lenZ l = 0 -> l = [].
Proof. destruct l; [reflexivity|]. unfold lenZ. cbn [length]. lia. Qed.

Lemma in_combine_snd_ex {A B} (la : list A) (lb : list B) :
  length lb = length la -> forall b, In b lb -> exists a, In (a, b) (combine la lb).
Proof.
  revert lb. induction la as [|a ra IH]; intros [|b0 rb] H b Hb; cbn in *; try discriminate; try tauto.
  destruct Hb as [->|Hb]; [exists a; auto|].
  destruct (IH rb ltac:(lia) b Hb) as [a' Ha']. exists a'. auto.
Qed.

(* what the property says about the object read back from a matrix without entries *)
Definition empty_rel (g g' : geno) : Prop :=
  g_samples g' = g_samples g /\ g_variants g' = g_variants g
  /\ Forall (fun r => r = []) (g_rows g') /\ In 0 (g_shape g').

Lemma empty_back_spec g g' : empty_back g g' = true <-> empty_rel g g'.
Proof.
  unfold empty_back, empty_rel. rewrite !andb_true_iff.
  rewrite (list_eqb_spec Z.eqb Z.eqb_eq), (list_eqb_spec variant_eqb variant_eqb_spec).
  rewrite forallb_forall, Forall_forall, existsb_exists. split.
  - intros [[[-> ->] Hr] [x [Hin Hx]]]. repeat split.
    + intros r Hr'. specialize (Hr r Hr'). destruct r; [reflexivity|discriminate].
    + apply Z.eqb_eq in Hx. subst x. exact Hin.
  - intros [-> [-> [Hr Hin]]]. repeat split.
    + intros r Hr'. rewrite (Hr r Hr'). reflexivity.
    + exists 0. split; [exact Hin|reflexivity].
Qed.

Lemma geno_domb_domb0 half g : geno_domb half g = true -> geno_domb0 true g = true.
Proof.
  unfold geno_domb, geno_domb0. rewrite !andb_true_iff. intros [[_ Hl] Hr]. split; [exact Hl|].
  revert Hr. apply forallb_eq_ext. intros [v r]. unfold row_domb. cbn [fst snd].
  rewrite !andb_true_iff. intros [[[H1 H2] H3] H4]. repeat split; try assumption.
  revert H4. apply forallb_eq_ext. intros [[a b] p]. unfold call_domb.
  rewrite !andb_true_iff. intros [[[Ha Hb] _] Hp]. repeat split; assumption.
Qed.

Lemma no_half_domain g : geno_domb false g = true -> has_half g = false.
Proof.
  unfold geno_domb, has_half. rewrite !andb_true_iff. intros [[_ Hl] Hr]. apply Z.eqb_eq in Hl.
  apply not_true_is_false. intros H. apply existsb_exists in H. destruct H as [r [Hin Hex]].
  apply existsb_exists in Hex. destruct Hex as [[[a b] p] [Hc Hx]].
  destruct (in_combine_snd_ex (g_variants g) (g_rows g) ltac:(unfold lenZ in Hl; lia) r Hin) as [v Hvr].
  rewrite forallb_forall in Hr. specialize (Hr _ Hvr). unfold row_domb in Hr. cbn [fst snd] in Hr.
  rewrite !andb_true_iff in Hr. destruct Hr as [_ Hcalls]. rewrite forallb_forall in Hcalls.
  specialize (Hcalls _ Hc). unfold call_domb in Hcalls. rewrite !andb_true_iff in Hcalls.
  destruct Hcalls as [[_ Hh] _]. cbn [orb] in Hh. rewrite Hh in Hx. discriminate.
Qed.

(* soundness of the boolean checkers evaluated on the implementation's output *)
Lemma holds_pgen_sound k :
  holds_pgen k = true ->
  geno_domb false (pc_g k) = true -> pos_domb true (pc_g k) = true ->
  chunk_dom (pc_cw k) -> chunk_dom (pc_cr k) ->
  pc_wpre k = false -> pc_rpre k = false ->
  exists g', pc_back k = Ok g'
    /\ (g_variants (pc_g k) <> [] -> rt_rel (pc_g k) g')
    /\ (g_variants (pc_g k) = [] -> empty_rel (pc_g k) g').
Proof.
  unfold holds_pgen. intros H Hd Hpos Hw Hr Hwp Hrp.
  rewrite (geno_domb_domb0 _ _ Hd), Hpos, (proj2 (chunk_domb_spec _) Hw), (proj2 (chunk_domb_spec _) Hr) in H.
  rewrite (geno_domb_samples _ _ Hd), (no_half_domain _ Hd) in H. cbn [andb] in H.
  unfold same_back, written, is_empty_geno in H. rewrite Hwp, Hrp, (geno_domb_samples _ _ Hd) in H. cbn [orb] in H.
  destruct (pc_back k) as [g'|]; [|discriminate].
  exists g'. split; [reflexivity|]. destruct (lenZ (g_variants (pc_g k)) =? 0) eqn:Ep.
  - apply Z.eqb_eq, lenZ_0_nil in Ep. split; [congruence|]. intros _. apply empty_back_spec. exact H.
  - split; [intros _; apply same_geno_spec; exact H|]. intros E. rewrite E in Ep. discriminate.
Qed.

(* variants without samples through PGEN: no interpreter crash, and if anything is read back
   it is the empty matrix with the same variants *)
Lemma holds_pgen_sound_nosamples k :
  holds_pgen k = true -> geno_domb0 true (pc_g k) = true -> pos_domb true (pc_g k) = true ->
  chunk_dom (pc_cw k) -> chunk_dom (pc_cr k) ->
  g_samples (pc_g k) = [] -> g_variants (pc_g k) <> [] ->
  match pc_back k with
  | Ok g' => empty_rel (pc_g k) g'
  | Err e => e <> E_Crash /\ e <> 12
  end.
Proof.
  unfold holds_pgen. intros H Hd Hpos Hw Hr Hn Hp.
  rewrite Hd, Hpos, (proj2 (chunk_domb_spec _) Hw), (proj2 (chunk_domb_spec _) Hr), Hn in H. cbn [andb lenZ length Z.of_nat Z.eqb] in H.
  assert (Ep : (lenZ (g_variants (pc_g k)) =? 0) = false).
  { apply Z.eqb_neq. unfold lenZ. destruct (g_variants (pc_g k)); [congruence|cbn [length]; lia]. }
  rewrite Ep in H. cbn [negb] in H.
  destruct (pc_back k) as [g'|e]; [apply empty_back_spec; exact H|].
  unfold not_crash in H. rewrite andb_true_iff, !negb_true_iff, !Z.eqb_neq in H. exact H.
Qed.

Lemma holds_vcf_sound k :
  holds_vcf k = true -> geno_domb0 true (vc_g k) = true -> pos_domb false (vc_g k) = true ->
  vc_wpre k = false -> vc_rpre k = false ->
  exists g', vc_back k = Ok g'
    /\ (g_samples (vc_g k) <> [] -> g_variants (vc_g k) <> [] -> rt_rel (vc_g k) g')
    /\ (g_samples (vc_g k) = [] \/ g_variants (vc_g k) = [] -> empty_rel (vc_g k) g').
Proof.
  unfold holds_vcf. intros H Hd Hpos Hwp Hrp. rewrite Hd, Hpos in H. cbn [andb] in H.
  unfold same_back, written in H. rewrite Hwp, Hrp in H.
  destruct (vc_back k) as [g'|]; [|discriminate].
  exists g'. split; [reflexivity|]. unfold is_empty_geno in H.
  destruct (lenZ (g_samples (vc_g k)) =? 0) eqn:En; cbn [orb] in H.
  - apply empty_back_spec in H. split; [|intros _; exact H].
    intros Hs. apply Z.eqb_eq, lenZ_0_nil in En. congruence.
  - destruct (lenZ (g_variants (vc_g k)) =? 0) eqn:Ep.
    + apply empty_back_spec in H. split; [|intros _; exact H].
      intros _ Hv. apply Z.eqb_eq, lenZ_0_nil in Ep. congruence.
    + split; [intros _ _; apply same_geno_spec; exact H|].
      intros [E|E]; rewrite E in *; discriminate.
Qed.

(* ---- PGEN round trip under pgenlib's contract ------------------------------ *)

(* contract of pgenlib for a call that the writer accepted: alleles come back,
   in order when the call is homozygous, missing or phased; as an unordered pair
   with phasepresent = 0 when heterozygous and unphased *)
Definition pload_contract (pload : scall -> scall) : Prop :=
  forall x y f, ((x = -9 /\ y = -9) \/ (0 <= x /\ 0 <= y)) ->
    let '(a, b, f') := pload (x, y, f) in
    (x = y -> a = x /\ b = y)
    /\ (x <> y -> f <> 0 -> a = x /\ b = y /\ f' <> 0)
    /\ (x <> y -> f = 0 -> f' = 0 /\ ((a = x /\ b = y) \/ (a = y /\ b = x))).

Lemma pload_std_contract : pload_contract pload_std.
Proof.
  intros x y f H. unfold pload_std.
  destruct ((x =? -9) || (y =? -9)) eqn:E9.
  - assert (x = -9 /\ y = -9) as [-> ->].
    { apply orb_true_iff in E9. rewrite !Z.eqb_eq in E9. lia. }
    repeat split; intros; lia.
  - destruct (x =? y) eqn:Exy.
    + apply Z.eqb_eq in Exy. repeat split; intros; lia.
    + apply Z.eqb_neq in Exy. destruct (f =? 0) eqn:Ef.
      * apply Z.eqb_eq in Ef. repeat split; intros; lia.
      * apply Z.eqb_neq in Ef. repeat split; intros; lia.
Qed.

Lemma decode_code na a : allele_domb na a = true -> na <= 255 -> cast8 (m9 (code_of a)) = a.
Proof.
  intros Ha Hna. apply code_of_dom in Ha. destruct Ha as [[-> ->]|[Hne [Hr ->]]]; [reflexivity|].
  unfold m9, cast8. destruct (a =? -9) eqn:E; [apply Z.eqb_eq in E; lia|].
  apply Z.mod_small. lia.
Qed.

Lemma stored_row_calls pl (r : list call) :
  stored_row (row_codes r) (if pl <? 3 then None else Some (row_phase r))
  = map (fun c : call => let '(a, b, p) := c in (code_of a, code_of b, if pl <? 3 then 1 else p)) r.
Proof.
  unfold stored_row, row_codes, row_phase. destruct (pl <? 3).
  - rewrite map_map. apply map_ext. intros [[a b] p]. reflexivity.
  - rewrite combine_map_same, map_map. apply map_ext. intros [[a b] p]. reflexivity.
Qed.

Lemma call_roundtrip pload pl na c :
  pload_contract pload -> na <= 255 -> call_domb false na c = true ->
  call_equiv pl c (load_call pload (let '(a, b, p) := c in (code_of a, code_of b, if pl <? 3 then 1 else p))).
Proof.
  intros Hc Hna Hd. destruct c as [[a b] p]. unfold call_domb in Hd.
  rewrite !andb_true_iff in Hd. destruct Hd as [[[Ha Hb] Hh] Hp]. cbn [orb] in Hh.
  pose proof (decode_code na a Ha Hna) as Da. pose proof (decode_code na b Hb Hna) as Db.
  pose proof (code_of_dom na a Ha) as Ca. pose proof (code_of_dom na b Hb) as Cb.
  assert (Hpre : (code_of a = -9 /\ code_of b = -9) \/ (0 <= code_of a /\ 0 <= code_of b)).
  { destruct Ca as [[Ea Ca]|[Ea [Ra Ca]]], Cb as [[Eb Cb]|[Eb [Rb Cb]]]; rewrite Ca, Cb; lia. }
  assert (Hinj : code_of a = code_of b <-> a = b).
  { split; [|intros ->; reflexivity]. intros E.
    destruct Ca as [[Ea Ca]|[Ea [Ra Ca]]], Cb as [[Eb Cb]|[Eb [Rb Cb]]]; rewrite Ca, Cb in E; lia. }
  specialize (Hc (code_of a) (code_of b) (if pl <? 3 then 1 else p) Hpre).
  unfold load_call. destruct (pload (code_of a, code_of b, if pl <? 3 then 1 else p)) as [[x y] f'].
  destruct Hc as [H1 [H2 H3]]. unfold call_equiv.
  split; [|split].
  - intros Eab. destruct (H1 (proj2 Hinj Eab)) as [-> ->]. rewrite Da, Db. auto.
  - intros Nab Hph. assert (N : code_of a <> code_of b) by (intro E; apply Nab, Hinj, E).
    assert (F : (if pl <? 3 then 1 else p) <> 0).
    { destruct (pl <? 3) eqn:E; [lia|]. apply Z.ltb_ge in E. lia. }
    destruct (H2 N F) as [-> [-> Hf]]. rewrite Da, Db. auto.
  - intros Nab Hpl Hp0. assert (N : code_of a <> code_of b) by (intro E; apply Nab, Hinj, E).
    assert (F : (if pl <? 3 then 1 else p) = 0).
    { destruct (pl <? 3) eqn:E; [apply Z.ltb_lt in E; lia|exact Hp0]. }
    destruct (H3 N F) as [Hf [[-> ->]|[-> ->]]]; rewrite Da, Db; auto.
Qed.

Lemma Forall2_map_self {A B} (R : A -> B -> Prop) (H : A -> B) (l : list A) :
  (forall c, In c l -> R c (H c)) -> Forall2 R l (map H l).
Proof.
  induction l as [|a r IH]; intros Hl; cbn; constructor.
  - apply Hl. left. reflexivity.
  - apply IH. intros c Hc. apply Hl. right. exact Hc.
Qed.

Lemma Forall2_combine_map {A B C} (R : B -> C -> Prop) (F : A * B -> C) (la : list A) (lb : list B) :
  length lb = length la ->
  (forall x, In x (combine la lb) -> R (snd x) (F x)) ->
  Forall2 R lb (map F (combine la lb)).
Proof.
  revert lb. induction la as [|a ra IH]; intros [|b rb] Hlen Hx; cbn in *; try discriminate; constructor.
  - apply (Hx (a, b)). left. reflexivity.
  - apply IH; [lia|]. intros x Hin. apply Hx. right. exact Hin.
Qed.


Lemma pgen_write_closed paccept g cw :
  paccept_complete paccept -> geno_domb false g = true -> chunk_dom cw -> 1 <= lenZ (g_variants g) ->
  exists c, (1 <= c)%nat /\
  pgen_write paccept false cw g
  = Ok (mkpf (g_samples g) (g_variants g) (max_allele_ct (g_variants g)) (pgen_batches false c g)).
Proof.
  intros Hcomp Hd Hw Hp. unfold pgen_write.
  destruct (lenZ (g_variants g) =? 0) eqn:Ep; [apply Z.eqb_eq in Ep; lia|].
  rewrite (geno_domb_samples _ _ Hd). destruct (step_nat cw _ Hw Hp) as [E0 Hc]. rewrite E0.
  rewrite (batches_paccept_ok paccept false _ g Hc Hcomp (domain_accept g Hd)).
  eexists. split; [exact Hc|reflexivity].
Qed.

(* only the complete clause is needed: what the domain produces meets the precondition *)
Lemma pgen_roundtrip paccept pload g cw cr :
  paccept_complete paccept -> pload_contract pload ->
  geno_domb false g = true -> chunk_dom cw -> chunk_dom cr ->
  exists g', pgen_roundtrip_model paccept pload false cw cr g = Ok g' /\ rt_rel g g'.
Proof.
  intros Hcomp Hc Hd Hw Hr. unfold pgen_roundtrip_model.
  destruct (lenZ (g_variants g) =? 0) eqn:Ep.
  - unfold pgen_write. rewrite Ep. cbn [bind]. unfold pgen_read. cbn [pf_variants pf_samples lenZ length Z.of_nat Z.eqb].
    eexists. split; [reflexivity|]. unfold rt_rel. cbn [g_samples g_variants g_rows].
    unfold geno_domb in Hd. rewrite !andb_true_iff in Hd. destruct Hd as [[_ Hlen] _]. apply Z.eqb_eq in Hlen.
    apply Z.eqb_eq in Ep. rewrite (lenZ_0_nil _ Ep). rewrite Ep in Hlen. rewrite (lenZ_0_nil _ Hlen).
    repeat split. constructor.
  - assert (Hp : 1 <= lenZ (g_variants g)).
    { apply Z.eqb_neq in Ep. unfold lenZ in *. lia. }
    destruct (pgen_write_closed paccept g cw Hcomp Hd Hw Hp) as [c [Hc1 E]]. rewrite E. cbn [bind].
    rewrite read_written by assumption.
    eexists. split; [reflexivity|]. unfold rt_rel. cbn [g_samples g_variants g_rows].
    split; [reflexivity|]. split; [reflexivity|].
    unfold geno_domb in Hd. rewrite !andb_true_iff in Hd. destruct Hd as [[_ Hlen] Hrows].
    apply Z.eqb_eq in Hlen.
    unfold vrows. apply Forall2_combine_map; [unfold lenZ in Hlen; lia|].
    intros [v r] Hin. cbn [snd]. rewrite forallb_forall in Hrows. specialize (Hrows _ Hin).
    unfold row_domb in Hrows. cbn [fst snd] in Hrows. rewrite !andb_true_iff in Hrows.
    destruct Hrows as [[[_ Hna] _] Hcalls]. apply Z.leb_le in Hna.
    unfold v_stored. cbn [snd]. rewrite stored_row_calls, map_map.
    apply Forall2_map_self. intros cl Hcin. rewrite forallb_forall in Hcalls.
    apply (call_roundtrip pload (planes g) (lenZ (v_alleles v)) cl Hc Hna (Hcalls _ Hcin)).
Qed.

(* what pgenlib returns when the written file is read directly relates to what was handed
   over as the contract says, call by call *)
Lemma pload_okb_spec pload s : pload_contract pload ->
  (let '(x, y, _) := s in (x = -9 /\ y = -9) \/ (0 <= x /\ 0 <= y)) -> pload_okb s (pload s) = true.
Proof.
  intros Hc. destruct s as [[x y] f]. intros Hpre. specialize (Hc x y f Hpre).
  unfold pload_okb. destruct (pload (x, y, f)) as [[a b] f']. destruct Hc as [H1 [H2 H3]].
  destruct (x =? y) eqn:Exy.
  - apply Z.eqb_eq in Exy. destruct (H1 Exy) as [-> ->]. rewrite !Z.eqb_refl. reflexivity.
  - apply Z.eqb_neq in Exy. destruct (f =? 0) eqn:Ef; cbn [negb].
    + apply Z.eqb_eq in Ef. destruct (H3 Exy Ef) as [-> [[-> ->]|[-> ->]]]; rewrite !Z.eqb_refl; cbn; try reflexivity.
      rewrite orb_true_r. reflexivity.
    + apply Z.eqb_neq in Ef. destruct (H2 Exy Ef) as [-> [-> Hf]]. rewrite !Z.eqb_refl. cbn [andb].
      apply negb_true_iff, Z.eqb_neq. exact Hf.
Qed.

(* a call missing in one allele only: the batch that holds it violates pgenlib's
   precondition, so (sound clause) the writer rejects it and write fails, whatever the
   chunk size *)
Lemma half_not_accept g : geno_domb0 true g = true -> has_half g = true -> accept false g = false.
Proof.
  unfold geno_domb0, has_half. rewrite andb_true_iff. intros [Hl Hrows] H. apply Z.eqb_eq in Hl.
  apply existsb_exists in H. destruct H as [r [Hin Hex]].
  apply existsb_exists in Hex. destruct Hex as [[[a b] p] [Hc Hx]].
  destruct (in_combine_snd_ex (g_variants g) (g_rows g) ltac:(unfold lenZ in Hl; lia) r Hin) as [v Hvr].
  rewrite forallb_forall in Hrows. specialize (Hrows _ Hvr). unfold row_domb in Hrows. cbn [fst snd] in Hrows.
  rewrite !andb_true_iff in Hrows. destruct Hrows as [_ Hcalls]. rewrite forallb_forall in Hcalls.
  specialize (Hcalls _ Hc). unfold call_domb in Hcalls. rewrite !andb_true_iff in Hcalls.
  destruct Hcalls as [[[Ha Hb] _] _]. apply code_of_dom in Ha. apply code_of_dom in Hb.
  apply not_true_is_false. intros Hacc. unfold accept in Hacc. rewrite forallb_forall in Hacc.
  specialize (Hacc _ Hvr). unfold row_ok, v_codes in Hacc. cbn [snd] in Hacc.
  apply andb_true_iff in Hacc. destruct Hacc as [_ Hcodes]. unfold row_codes in Hcodes.
  rewrite forallb_map', forallb_forall in Hcodes. specialize (Hcodes _ Hc). cbn beta iota in Hcodes.
  unfold pair_ok in Hcodes. apply negb_true_iff in Hx.
  rewrite orb_true_iff, !andb_true_iff, !Z.eqb_eq, !Z.leb_le, !Z.ltb_lt in Hcodes.
  destruct Ha as [[Ea Ca]|[Ea [Ra Ca]]], Hb as [[Eb Cb]|[Eb [Rb Cb]]]; rewrite Ca, Cb in Hcodes.
  - subst a b. discriminate Hx.
  - lia.
  - lia.
  - apply Z.eqb_neq in Ea, Eb. rewrite Ea, Eb in Hx. discriminate Hx.
Qed.

Lemma pgen_half_missing_refused paccept g cw :
  paccept_sound paccept -> geno_domb0 true g = true -> has_half g = true ->
  g_samples g <> [] -> chunk_dom cw ->
  pgen_write paccept false cw g = Err E_Runtime.
Proof.
  intros Hsound Hd Hh Hn Hw. unfold pgen_write.
  assert (Hp : 1 <= lenZ (g_variants g)).
  { unfold geno_domb0 in Hd. apply andb_true_iff in Hd. destruct Hd as [Hl _]. apply Z.eqb_eq in Hl.
    unfold has_half in Hh. apply existsb_exists in Hh. destruct Hh as [r [Hin _]].
    destruct (g_rows g); [destruct Hin|]. unfold lenZ in *. cbn [length] in Hl. lia. }
  destruct (lenZ (g_variants g) =? 0) eqn:Ep; [apply Z.eqb_eq in Ep; lia|].
  destruct (lenZ (g_samples g) =? 0) eqn:En; [apply Z.eqb_eq, lenZ_0_nil in En; congruence|].
  destruct (step_nat cw _ Hw Hp) as [E0 Hc]. rewrite E0.
  destruct (forallb (paccept (max_allele_ct (g_variants g))) (pgen_batches false (Z.to_nat (eff_chunk cw (lenZ (g_variants g)))) g)) eqn:E; [|reflexivity].
  exfalso. assert (Hb : forallb (batch_ok (max_allele_ct (g_variants g))) (pgen_batches false (Z.to_nat (eff_chunk cw (lenZ (g_variants g)))) g) = true).
  { revert E. apply forallb_eq_ext. intros b. apply Hsound. }
  rewrite (batches_accept false _ g Hc), (half_not_accept g Hd Hh) in Hb. discriminate.
Qed.

(* ---- VCF round trip under the pysam/cyvcf2 contract ------------------------ *)

Definition vload_contract (vload : vcall -> Z * Z * Z) : Prop :=
  forall a b ph, vload (a, b, ph) = (oz a, oz b, if ph then 1 else 0).

Lemma vload_std_contract : vload_contract vload_std.
Proof. intros a b ph. reflexivity. Qed.

Lemma decode_gt na a : allele_domb na a = true -> na <= 255 -> cast8 (oz (gt_of a)) = a.
Proof.
  intros Ha Hna. unfold gt_of. apply code_of_dom in Ha.
  destruct Ha as [[-> _]|[Hne [Hr _]]]; [reflexivity|].
  destruct (a =? 255) eqn:E; [apply Z.eqb_eq in E; lia|]. cbn [oz]. apply Z.mod_small. lia.
Qed.

(* the VCF codec is exact on the alleles; the third plane comes back as the
   phased flag that was written (1 everywhere for a 2-plane array) *)
Definition norm_call (pl : Z) (c : call) : call :=
  let '(a, b, p) := c in (a, b, if pl <? 3 then 1 else p).

Lemma vcf_call_roundtrip vload pl na c :
  vload_contract vload -> na <= 255 -> call_domb true na c = true ->
  vcf_load_call vload (vcf_call pl c) = norm_call pl c.
Proof.
  intros Hv Hna Hd. destruct c as [[a b] p]. unfold call_domb in Hd.
  rewrite !andb_true_iff in Hd. destruct Hd as [[[Ha Hb] _] Hp].
  unfold vcf_load_call, vcf_call. rewrite Hv.
  rewrite (decode_gt na a Ha Hna), (decode_gt na b Hb Hna). unfold norm_call.
  destruct (pl <? 3); [reflexivity|].
  apply orb_true_iff in Hp. rewrite !Z.eqb_eq in Hp. destruct Hp as [->| ->]; reflexivity.
Qed.

Lemma norm_call_equiv pl c : call_equiv pl c (norm_call pl c).
Proof.
  destruct c as [[a b] p]. unfold call_equiv, norm_call. split; [|split].
  - auto.
  - intros _ H. repeat split. destruct (pl <? 3) eqn:E; [lia|]. apply Z.ltb_ge in E. lia.
  - intros _ H1 H2. split; [|auto]. destruct (pl <? 3) eqn:E; [apply Z.ltb_lt in E; lia|exact H2].
Qed.

Lemma map_combine_snd {A B C} (F : B -> C) (la : list A) (lb : list B) :
  length lb = length la -> map (fun r => F (snd r)) (combine la lb) = map F lb.
Proof.
  revert lb. induction la as [|a ra IH]; intros [|b rb] H; cbn in *; try discriminate; try reflexivity.
  rewrite IH by lia. reflexivity.
Qed.

Lemma map_combine_fst {A B} (la : list A) (lb : list B) :
  length lb = length la -> map fst (combine la lb) = la.
Proof.
  revert lb. induction la as [|a ra IH]; intros [|b rb] H; cbn in *; try discriminate; try reflexivity.
  rewrite IH by lia. reflexivity.
Qed.


(* htslib's contract.  iter: iterating a reader without a region yields every record of
   the file, whatever the format (plain, bgzip-compressed, BCF) and whether or not an index
   lies beside it.  region: a region query needs an index *)
Definition hts_iter_contract (hts : htslib) : Prop :=
  forall d, hts_iter hts d = vf_recs (vd_file d).
Definition hts_region_contract (hts : htslib) : Prop :=
  forall d c, is_indexed d = false -> hts_region hts d c = Err E_Assert.

Lemma hts_std_iter : hts_iter_contract hts_std.
Proof. intros d. reflexivity. Qed.
Lemma hts_std_region : hts_region_contract hts_std.
Proof. intros d c H. cbn. rewrite H. reflexivity. Qed.

(* the read without a region does not look at the format or the index: for every matrix,
   legal or not, empty or not *)
Lemma vcf_format_index_irrelevant vload hts legacy0 g fmt idx fmt' idx' :
  hts_iter_contract hts ->
  vcf_roundtrip_model vload hts false legacy0 fmt idx g = vcf_roundtrip_model vload hts false legacy0 fmt' idx' g.
Proof.
  intros Hh. unfold vcf_roundtrip_model, vcf_read, vcf_records. rewrite !Hh. reflexivity.
Qed.

Lemma vcf_read_content vload hts legacy0 d d' :
  hts_iter_contract hts -> vd_file d = vd_file d' ->
  vcf_read vload hts false legacy0 None d = vcf_read vload hts false legacy0 None d'.
Proof.
  intros Hh E. unfold vcf_read, vcf_records. rewrite !Hh, E. reflexivity.
Qed.

(* a region is only served with an index *)
Lemma vcf_region_needs_index vload hts legacy legacy0 d c :
  hts_region_contract hts -> is_indexed d = false ->
  vcf_read vload hts legacy legacy0 (Some c) d = Err E_Assert.
Proof. intros Hh Hi. unfold vcf_read, vcf_records. rewrite (Hh d c Hi). reflexivity. Qed.

Lemma vcf_roundtrip vload hts g fmt idx :
  vload_contract vload -> hts_iter_contract hts ->
  geno_domb true g = true -> 1 <= lenZ (g_variants g) ->
  vcf_roundtrip_model vload hts false false fmt idx g
  = Ok (mkg (g_samples g) (g_variants g) (map (map (norm_call (planes g))) (g_rows g))
            [lenZ (g_samples g); lenZ (g_variants g); 3])
  /\ exists g', vcf_roundtrip_model vload hts false false fmt idx g = Ok g' /\ rt_rel g g'.
Proof.
  intros Hv Hh Hd Hp.
  assert (E : vcf_roundtrip_model vload hts false false fmt idx g
    = Ok (mkg (g_samples g) (g_variants g) (map (map (norm_call (planes g))) (g_rows g))
        [lenZ (g_samples g); lenZ (g_variants g); 3])).
  { unfold geno_domb in Hd. rewrite !andb_true_iff in Hd. destruct Hd as [[Hn Hlen] Hrows].
    apply Z.leb_le in Hn. apply Z.eqb_eq in Hlen.
    assert (Hl : length (map (map (vcf_call (planes g))) (g_rows g)) = length (g_variants g)).
    { rewrite map_length. unfold lenZ in Hlen. lia. }
    unfold vcf_roundtrip_model, vcf_read, vcf_records. rewrite Hh. cbn [vd_file bind].
    unfold vcf_build, vcf_write. cbn [andb vf_recs vf_samples].
    assert (Hlr : lenZ (combine (g_variants g) (map (map (vcf_call (planes g))) (g_rows g))) = lenZ (g_variants g)).
    { unfold lenZ. rewrite combine_length, Hl. lia. }
    rewrite Hlr.
    destruct (lenZ (g_samples g) =? 0) eqn:E1; [apply Z.eqb_eq in E1; lia|].
    destruct (lenZ (g_variants g) =? 0) eqn:E2; [apply Z.eqb_eq in E2; lia|]. cbn [orb].
    rewrite (map_combine_fst _ _ Hl).
    rewrite (map_combine_snd (map (vcf_load_call vload)) _ _ Hl). rewrite map_map.
    f_equal. f_equal.
    (* row by row *)
    assert (Hin : forall r, In r (g_rows g) -> exists v, In (v, r) (combine (g_variants g) (g_rows g))).
    { apply in_combine_snd_ex. unfold lenZ in Hlen. lia. }
    apply map_ext_in. intros r Hr. destruct (Hin r Hr) as [v Hvr].
    rewrite forallb_forall in Hrows. specialize (Hrows _ Hvr). unfold row_domb in Hrows.
    cbn [fst snd] in Hrows. rewrite !andb_true_iff in Hrows. destruct Hrows as [[[_ Hna] _] Hcalls].
    apply Z.leb_le in Hna. rewrite map_map. apply map_ext_in. intros c Hc.
    rewrite forallb_forall in Hcalls.
    apply (vcf_call_roundtrip vload (planes g) (lenZ (v_alleles v)) c Hv Hna (Hcalls _ Hc)). }
  split; [exact E|]. eexists. split; [exact E|]. unfold rt_rel. cbn [g_samples g_variants g_rows].
  split; [reflexivity|]. split; [reflexivity|].
  apply Forall2_map_self. intros r _. apply Forall2_map_self. intros c _. apply norm_call_equiv.
Qed.

(* ---- the matrices without entries ------------------------------------------------ *)

(* PGEN: without variants the round trip gives the samples back and an array (n, 0, 3),
   for every number of samples (0 included), every library, every chunk size *)
Lemma pgen_empty_roundtrip paccept pload g cw cr legacy :
  g_variants g = [] ->
  pgen_roundtrip_model paccept pload legacy cw cr g = Ok (mkg (g_samples g) [] [] [lenZ (g_samples g); 0; 3])
  /\ empty_rel g (mkg (g_samples g) [] [] [lenZ (g_samples g); 0; 3]).
Proof.
  intros Hv. split.
  - unfold pgen_roundtrip_model, pgen_write. rewrite Hv. reflexivity.
  - unfold empty_rel. cbn [g_samples g_variants g_rows g_shape]. rewrite Hv. repeat split; [constructor|].
    right. left. reflexivity.
Qed.

(* PGEN: variants without samples are refused (the format cannot hold them) *)
Lemma pgen_nosamples_refused paccept g cw :
  g_samples g = [] -> g_variants g <> [] -> pgen_write paccept false cw g = Err E_Value.
Proof.
  intros Hn Hp. unfold pgen_write. rewrite Hn.
  destruct (lenZ (g_variants g) =? 0) eqn:Ep; [apply Z.eqb_eq, lenZ_0_nil in Ep; congruence|]. reflexivity.
Qed.

(* VCF/BCF: no samples or no variants - the samples and the variants come back, the array
   has no entry; every format, with or without index *)
Lemma vcf_empty_roundtrip vload hts g fmt idx :
  hts_iter_contract hts -> lenZ (g_rows g) = lenZ (g_variants g) ->
  g_samples g = [] \/ g_variants g = [] ->
  vcf_roundtrip_model vload hts false false fmt idx g = Ok (mkg (g_samples g) (g_variants g) [] [0; 0; 0])
  /\ empty_rel g (mkg (g_samples g) (g_variants g) [] [0; 0; 0]).
Proof.
  intros Hh Hlen He. split.
  - unfold vcf_roundtrip_model, vcf_read, vcf_records. rewrite Hh. cbn [vd_file bind].
    unfold vcf_build, vcf_write. cbn [andb vf_recs vf_samples].
    assert (Hl : length (map (map (vcf_call (planes g))) (g_rows g)) = length (g_variants g)).
    { rewrite map_length. unfold lenZ in Hlen. lia. }
    assert (Hlr : lenZ (combine (g_variants g) (map (map (vcf_call (planes g))) (g_rows g))) = lenZ (g_variants g)).
    { unfold lenZ. rewrite combine_length, Hl. lia. }
    rewrite Hlr, (map_combine_fst _ _ Hl).
    destruct He as [E|E]; rewrite E; cbn [lenZ length Z.of_nat Z.eqb orb]; [reflexivity|].
    rewrite orb_true_r. reflexivity.
  - unfold empty_rel. cbn [g_samples g_variants g_rows g_shape]. repeat split; [constructor|]. left. reflexivity.
Qed.

(* ---- defect 9: the pinned reader returns nothing without an index ---------- *)

Definition g_one : geno := mkg [0] [mkvar 0 0 28 [0; 1] 1] [[(0, 0, 1)]] [1; 1; 2].

Example legacy_unindexed_refuted :
  geno_domb true g_one = true
  /\ vcf_roundtrip_model vload_std hts_std true false F_vcf I_none g_one = Ok (mkg [0] [] [] [0; 0; 0])
  /\ (forall g', vcf_roundtrip_model vload_std hts_std true false F_bcf I_none g_one = Ok g' -> same_geno g_one g' = false)
  /\ (exists g', vcf_roundtrip_model vload_std hts_std true false F_vcfgz I_tbi g_one = Ok g' /\ same_geno g_one g' = true)
  /\ (exists g', vcf_roundtrip_model vload_std hts_std false false F_vcf I_none g_one = Ok g' /\ same_geno g_one g' = true).
Proof.
  split; [reflexivity|]. split; [reflexivity|]. split.
  - intros g' H. vm_compute in H. inversion H. reflexivity.
  - split; eexists; split; vm_compute; reflexivity.
Qed.

(* the shapes without samples on the trees before the repairs: the PGEN writer crashed the
   interpreter, the VCF reader raised AttributeError *)
Definition g_nosamples : geno := mkg [] [mkvar 0 0 28 [0; 1] 1] [[]] [0; 1; 3].

Example legacy_nosamples_refuted :
  geno_domb0 true g_nosamples = true
  /\ pgen_write paccept_std true None g_nosamples = Err E_Crash
  /\ pgen_write paccept_std false None g_nosamples = Err E_Value
  /\ vcf_roundtrip_model vload_std hts_std false true F_vcf I_none g_nosamples = Err E_Attribute
  /\ vcf_roundtrip_model vload_std hts_std false false F_vcf I_none g_nosamples
      = Ok (mkg [] [mkvar 0 0 28 [0; 1] 1] [] [0; 0; 0]).
Proof. vm_compute. repeat split. Qed.

(* the hypotheses of the round-trip theorems are satisfiable *)
Example roundtrip_hypotheses_satisfiable :
  paccept_complete paccept_std /\ paccept_sound paccept_std
  /\ pload_contract pload_std /\ vload_contract vload_std
  /\ hts_iter_contract hts_std /\ hts_region_contract hts_std
  /\ geno_domb false g_unobserved_allele = true /\ geno_domb true g_one = true
  /\ chunk_dom None /\ chunk_dom (Some 1).
Proof.
  split; [exact paccept_std_complete|]. split; [exact paccept_std_sound|].
  split; [exact pload_std_contract|]. split; [exact vload_std_contract|].
  split; [exact hts_std_iter|]. split; [exact hts_std_region|].
  vm_compute. repeat split; discriminate.
Qed.

(* ---- the names as text: what holds_text = true means --------------------------------------- *)

Lemma holds_text_sound k :
  holds_text k = true ->
  forallb token_ok (tf_samples (tc_file k)) = true ->
  forallb (fun r => tvariant_ok (fst r)) (tf_recs (tc_file k)) = true ->
  exists b, tc_back k = Ok b /\ tb_samples b = tf_samples (tc_file k)
            /\ tb_variants b = map fst (tf_recs (tc_file k)).
Proof.
  unfold holds_text. intros H Hs Hv. rewrite Hs, Hv in H. cbn [andb] in H.
  destruct (tc_back k) as [b|]; [|discriminate]. exists b. split; [reflexivity|].
  apply andb_true_iff in H. destruct H as [H1 H2].
  apply (list_eqb_spec str_eqb str_eqb_spec) in H1.
  apply (list_eqb_spec tvariant_eqb C07_ProofsText.tvariant_eqb_spec) in H2. auto.
Qed.
