(* C07 - proofs about histories on one path (C07_Hist): the fixed reader ignores what a sibling
   index declares, and with it everything that happened to the path before the last write. *)
From HV Require Import Prelude C07_Model C07_Check C07_Proofs C07_Hist.

(* ---- the reader does not ask the index ------------------------------------------- *)

(* trust = false is the anchored reader: whatever the index declares (or none), any region *)
Lemma index_records_ignored vload hts ir region d :
  vcf_read_ix vload hts false ir region d = vcf_read vload hts false false region d.
Proof. unfold vcf_read_ix, vcf_records_ix, vcf_read. destruct region; reflexivity. Qed.

Lemma index_records_irrelevant vload hts ir ir' region d :
  vcf_read_ix vload hts false ir region d = vcf_read_ix vload hts false ir' region d.
Proof. rewrite !index_records_ignored. reflexivity. Qed.

Lemma index_records_irrelevant_both vload hts ir ir' region d :
  vcf_read_ix vload hts false ir region d = vcf_read_ix vload hts false ir' region d
  /\ vcf_read_ix vload hts false ir region d = vcf_read vload hts false false region d.
Proof. split; [apply index_records_irrelevant|apply index_records_ignored]. Qed.

(* with a region the trusting reader does not ask either *)
Lemma trusting_region vload hts ir c d :
  vcf_read_ix vload hts true ir (Some c) d = vcf_read vload hts false false (Some c) d.
Proof. reflexivity. Qed.

(* a count that is not below the number of records of the file does no harm: this is why a reader
   that trusts the index passes every test whose index was built from the file that is read *)
Lemma trusting_enough vload hts k d :
  hts_iter_contract hts -> lenZ (vf_recs (vd_file d)) <= k ->
  vcf_read_ix vload hts true (Some k) None d = vcf_read vload hts false false None d.
Proof.
  intros Hh Hk. unfold vcf_read_ix, vcf_records_ix, vcf_read, vcf_records. rewrite Hh.
  rewrite firstn_all2; [reflexivity|]. unfold lenZ in Hk. lia.
Qed.

Lemma trusting_no_index vload hts region d :
  vcf_read_ix vload hts true None region d = vcf_read vload hts false false region d.
Proof. unfold vcf_read_ix, vcf_records_ix, vcf_read. destruct region; reflexivity. Qed.

(* ---- the history --------------------------------------------------------------- *)

Definition nowrite (ops : list op) : bool := forallb (fun o => negb (is_write o)) ops.

Lemma step_nowrite_file s o : is_write o = false -> dk_file (step s o) = dk_file s.
Proof.
  destruct o as [g|k|b| |]; intros H; try discriminate; try reflexivity.
  cbn [step]. destruct k; [reflexivity| |]; destruct (dk_file s) eqn:E; cbn [dk_file]; congruence.
Qed.

Lemma run_nowrite_file ops : forall s, nowrite ops = true -> dk_file (run s ops) = dk_file s.
Proof.
  induction ops as [|o r IH]; intros s H; [reflexivity|].
  cbn [nowrite forallb] in H. apply andb_true_iff in H. destruct H as [Ho Hr].
  apply negb_true_iff in Ho. unfold run. cbn [fold_left]. change (fold_left step r (step s o)) with (run (step s o) r).
  rewrite (IH _ Hr). apply step_nowrite_file. exact Ho.
Qed.

Lemma run_app s a b : run s (a ++ b) = run (run s a) b.
Proof. unfold run. apply fold_left_app. Qed.

(* whatever the disk held, and whatever is done to the index afterwards: after a write of g the
   fixed reader returns what the round trip of g on a fresh, unindexed path returns *)
Lemma read_after_write vload hts fmt s g tail :
  hts_iter_contract hts -> nowrite tail = true ->
  read_disk vload hts false fmt (run (step s (OpWrite g)) tail)
  = vcf_roundtrip_model vload hts false false fmt I_none g.
Proof.
  intros Hh Hn. unfold read_disk. rewrite (run_nowrite_file tail _ Hn). cbn [step dk_file].
  rewrite index_records_ignored. unfold vcf_roundtrip_model.
  apply vcf_read_content; [exact Hh|reflexivity].
Qed.

Lemma last_write_split ops : forall acc g,
  last_write ops acc = Some g ->
  (exists pre tail, ops = pre ++ OpWrite g :: tail /\ nowrite tail = true)
  \/ (acc = Some g /\ nowrite ops = true).
Proof.
  induction ops as [|o r IH]; intros acc g H; cbn [last_write] in H.
  - right. split; [exact H|reflexivity].
  - destruct o as [g0|k|b| |].
    + destruct (IH _ _ H) as [[pre [tail [E Hn]]]|[E Hn]].
      * left. exists (OpWrite g0 :: pre), tail. rewrite E. split; [reflexivity|exact Hn].
      * left. exists [], r. inversion E; subst. split; [reflexivity|exact Hn].
    + destruct (IH _ _ H) as [[pre [tail [E Hn]]]|[E Hn]].
      * left. exists (OpIndex k :: pre), tail. rewrite E. split; [reflexivity|exact Hn].
      * right. split; [exact E|exact Hn].
    + destruct (IH _ _ H) as [[pre [tail [E Hn]]]|[E Hn]].
      * left. exists (OpTouch b :: pre), tail. rewrite E. split; [reflexivity|exact Hn].
      * right. split; [exact E|exact Hn].
    + destruct (IH _ _ H) as [[pre [tail [E Hn]]]|[E Hn]].
      * left. exists (OpUnindex :: pre), tail. rewrite E. split; [reflexivity|exact Hn].
      * right. split; [exact E|exact Hn].
    + destruct (IH _ _ H) as [[pre [tail [E Hn]]]|[E Hn]].
      * left. exists (OpRead :: pre), tail. rewrite E. split; [reflexivity|exact Hn].
      * right. split; [exact E|exact Hn].
Qed.

(* the read at the end of ANY sequence of operations on the path, started from ANY state of the
   disk, is the round trip of the matrix last written *)
Lemma history_read_is_last_write vload hts fmt s0 ops g :
  hts_iter_contract hts -> last_write ops None = Some g ->
  read_disk vload hts false fmt (run s0 ops) = vcf_roundtrip_model vload hts false false fmt I_none g.
Proof.
  intros Hh H. destruct (last_write_split _ _ _ H) as [[pre [tail [E Hn]]]|[E _]]; [|discriminate].
  rewrite E, run_app. unfold run at 1. cbn [fold_left].
  change (fold_left step tail (step (run s0 pre) (OpWrite g))) with (run (step (run s0 pre) (OpWrite g)) tail).
  apply read_after_write; assumption.
Qed.

(* two histories with the same last write read the same, in every format *)
Lemma history_irrelevant vload hts fmt fmt' s0 s0' ops ops' g :
  hts_iter_contract hts -> last_write ops None = Some g -> last_write ops' None = Some g ->
  read_disk vload hts false fmt (run s0 ops) = read_disk vload hts false fmt' (run s0' ops').
Proof.
  intros Hh H H'. rewrite (history_read_is_last_write vload hts fmt s0 ops g Hh H),
    (history_read_is_last_write vload hts fmt' s0' ops' g Hh H').
  apply vcf_format_index_irrelevant. exact Hh.
Qed.

(* ... and it is the matrix last written (the property on a path with a past) *)
Lemma history_roundtrip vload hts fmt s0 ops g :
  vload_contract vload -> hts_iter_contract hts ->
  last_write ops None = Some g -> geno_domb true g = true -> 1 <= lenZ (g_variants g) ->
  exists g', read_disk vload hts false fmt (run s0 ops) = Ok g' /\ rt_rel g g'.
Proof.
  intros Hv Hh H Hd Hp. rewrite (history_read_is_last_write vload hts fmt s0 ops g Hh H).
  exact (proj2 (vcf_roundtrip vload hts g fmt I_none Hv Hh Hd Hp)).
Qed.

Lemma history_empty_roundtrip vload hts fmt s0 ops g :
  hts_iter_contract hts -> last_write ops None = Some g ->
  lenZ (g_rows g) = lenZ (g_variants g) -> g_samples g = [] \/ g_variants g = [] ->
  exists g', read_disk vload hts false fmt (run s0 ops) = Ok g' /\ empty_rel g g'.
Proof.
  intros Hh H Hl He. rewrite (history_read_is_last_write vload hts fmt s0 ops g Hh H).
  destruct (vcf_empty_roundtrip vload hts g fmt I_none Hh Hl He) as [E R].
  eexists. split; [exact E|exact R].
Qed.

(* a reader that trusts the index is right as long as the index was built from the file that is
   read (write; index; anything but a write) ... *)
Lemma run_nowrite_index ops : forall s f n,
  dk_file s = Some f -> nowrite ops = true ->
  (forall i, dk_index s = Some i -> ix_records i = n) -> n = lenZ (vf_recs f) ->
  forall i, dk_index (run s ops) = Some i -> ix_records i = n.
Proof.
  induction ops as [|o r IH]; intros s f n Hf H Hi Hn i E; [exact (Hi i E)|].
  cbn [nowrite forallb] in H. apply andb_true_iff in H. destruct H as [Ho Hr]. apply negb_true_iff in Ho.
  unfold run in E. cbn [fold_left] in E. change (fold_left step r (step s o)) with (run (step s o) r) in E.
  refine (IH (step s o) f n _ Hr _ Hn i E).
  - rewrite (step_nowrite_file s o Ho). exact Hf.
  - intros j Ej. destruct o as [g|k|b| |]; try discriminate.
    + cbn [step] in Ej. destruct k; [exact (Hi j Ej)| |]; rewrite Hf in Ej; cbn [dk_index] in Ej;
        inversion Ej; subst; reflexivity.
    + cbn [step dk_index] in Ej. destruct (dk_index s) as [i0|] eqn:E0; [|discriminate].
      cbn [option_map] in Ej. inversion Ej; subst. cbn [set_newer ix_records]. exact (Hi i0 eq_refl).
    + exact (Hi j Ej).
Qed.

Lemma trusting_fresh vload hts fmt s g k tail :
  hts_iter_contract hts -> k <> I_none -> nowrite tail = true ->
  read_disk vload hts true fmt (run (step (step s (OpWrite g)) (OpIndex k)) tail)
  = vcf_roundtrip_model vload hts false false fmt I_none g.
Proof.
  intros Hh Hk Hn.
  assert (Hf : dk_file (step (step s (OpWrite g)) (OpIndex k)) = Some (vcf_write g)).
  { destruct k; [congruence| |]; reflexivity. }
  unfold read_disk. rewrite (run_nowrite_file tail _ Hn), Hf.
  unfold vcf_roundtrip_model.
  destruct (index_records (run (step (step s (OpWrite g)) (OpIndex k)) tail)) as [n|] eqn:Ei.
  - unfold index_records in Ei.
    destruct (dk_index (run (step (step s (OpWrite g)) (OpIndex k)) tail)) as [i|] eqn:E; [|discriminate].
    cbn [option_map] in Ei. inversion Ei; subst n.
    assert (Hr : ix_records i = lenZ (vf_recs (vcf_write g))).
    { refine (run_nowrite_index tail _ (vcf_write g) _ Hf Hn _ eq_refl i E).
      intros j Ej. destruct k; [congruence| |]; cbn in Ej; inversion Ej; reflexivity. }
    rewrite Hr, trusting_enough; [|exact Hh|cbn [vd_file]; lia].
    apply vcf_read_content; [exact Hh|reflexivity].
  - rewrite trusting_no_index. apply vcf_read_content; [exact Hh|reflexivity].
Qed.

(* ... and wrong as soon as the file was written again: write A (1 variant); index; write B
   (2 variants); read.  The index still declares one record *)
Definition g_two : geno :=
  mkg [0] [mkvar 0 0 28 [0; 1] 1; mkvar 1 0 30 [0; 1] 1] [[(0, 1, 1)]; [(1, 1, 1)]] [1; 2; 3].

Definition ops_stale : list op := [OpWrite g_one; OpIndex I_tbi; OpWrite g_two].

Example trusting_reader_refuted :
  hist_domb ops_stale = true /\ last_write ops_stale None = Some g_two
  /\ run disk0 ops_stale = mkdk (Some (vcf_write g_two)) (Some (mkix I_tbi 1 false))
  (* the anchored reader: the matrix last written *)
  /\ (exists g', read_disk vload_std hts_std false F_vcfgz (run disk0 ops_stale) = Ok g' /\ same_geno g_two g' = true)
  (* the trusting reader: its first variant only, no error *)
  /\ read_disk vload_std hts_std true F_vcfgz (run disk0 ops_stale)
     = Ok (mkg [0] [mkvar 0 0 28 [0; 1] 1] [[(0, 1, 1)]] [1; 1; 3])
  /\ (forall g', read_disk vload_std hts_std true F_vcfgz (run disk0 ops_stale) = Ok g' -> same_geno g_two g' = false)
  (* whether the stale index is made to look newer than the file makes no difference *)
  /\ read_disk vload_std hts_std true F_vcfgz (run disk0 (ops_stale ++ [OpTouch true]))
     = read_disk vload_std hts_std true F_vcfgz (run disk0 ops_stale)
  (* indexed again, or the index removed: right again *)
  /\ (exists g', read_disk vload_std hts_std true F_vcfgz (run disk0 (ops_stale ++ [OpIndex I_tbi])) = Ok g' /\ same_geno g_two g' = true)
  /\ (exists g', read_disk vload_std hts_std true F_vcfgz (run disk0 (ops_stale ++ [OpUnindex])) = Ok g' /\ same_geno g_two g' = true)
  (* the other order (the stale index declares more records than there are) goes unnoticed *)
  /\ (exists g', read_disk vload_std hts_std true F_bcf (run disk0 [OpWrite g_two; OpIndex I_csi; OpWrite g_one]) = Ok g'
                 /\ same_geno g_one g' = true).
Proof.
  split; [reflexivity|]. split; [reflexivity|]. split; [reflexivity|].
  split; [eexists; split; vm_compute; reflexivity|].
  split; [reflexivity|].
  split; [intros g' H; vm_compute in H; inversion H; reflexivity|].
  split; [reflexivity|].
  split; [eexists; split; vm_compute; reflexivity|].
  split; [eexists; split; vm_compute; reflexivity|].
  eexists; split; vm_compute; reflexivity.
Qed.

(* ---- what holds_hist = true means ---------------------------------------------------- *)

Lemma last_write_in ops : forall acc g,
  last_write ops acc = Some g -> In g (writes ops) \/ acc = Some g.
Proof.
  induction ops as [|o r IH]; intros acc g H; cbn [last_write] in H; [right; exact H|].
  destruct o as [g0|k|b| |]; cbn [writes flat_map app];
    try (destruct (IH _ _ H) as [Hi|E]; [left; exact Hi|right; exact E]).
  destruct (IH _ _ H) as [Hi|E]; [left; right; exact Hi|left; left; congruence].
Qed.

Lemma holds_hist_sound k g :
  holds_hist k = true -> hc_back k <> Err E_Unobserved ->
  hist_domb (hc_ops k) = true -> last_write (hc_ops k) None = Some g ->
  exists g', hc_back k = Ok g'
    /\ (g_samples g <> [] -> g_variants g <> [] -> rt_rel g g')
    /\ (g_samples g = [] \/ g_variants g = [] -> empty_rel g g').
Proof.
  unfold holds_hist. intros H Hu Hd Hl.
  assert (Eu : unobserved k = false).
  { unfold unobserved. destruct (hc_back k) as [b|e]; [reflexivity|].
    apply Z.eqb_neq. intros E. apply Hu. rewrite E. reflexivity. }
  rewrite Eu, Hd, Hl in H.
  destruct (last_write_in _ _ _ Hl) as [Hi|E]; [|discriminate].
  unfold hist_domb in Hd. rewrite forallb_forall in Hd. specialize (Hd _ Hi).
  apply andb_true_iff in Hd. destruct Hd as [Hg Hp].
  exact (holds_vcf_sound (as_vcase k g) H Hg Hp eq_refl eq_refl).
Qed.

(* the model of the relation is the fixed reader at the end of the history: when no write is
   refused its third component is the round trip of the last write *)
Lemma model_hist_back k g :
  guard_ops (hc_ops k) = None -> last_write (hc_ops k) None = Some g ->
  snd (model_hist k) = vcf_roundtrip_model vload_std hts_std false false (hc_fmt k) I_none g.
Proof.
  intros Hg Hl. unfold model_hist. rewrite Hg. cbn [snd].
  apply history_read_is_last_write; [exact hts_std_iter|exact Hl].
Qed.

Example hist_hypotheses_satisfiable :
  hts_iter_contract hts_std /\ vload_contract vload_std
  /\ last_write ops_stale None = Some g_two /\ geno_domb true g_two = true /\ 1 <= lenZ (g_variants g_two)
  /\ guard_ops ops_stale = None /\ nowrite [OpIndex I_csi; OpTouch true; OpRead; OpUnindex] = true.
Proof.
  split; [exact hts_std_iter|]. split; [exact vload_std_contract|].
  vm_compute. repeat split; discriminate.
Qed.
