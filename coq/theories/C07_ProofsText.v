(* C07 - proofs about the text of .psam / .pvar / .vcf (C07_Files): what is written is
   read back, character for character, for every list of sample names and every list of
   variants whose strings can stand in a tab-separated line. *)
From HV Require Import Prelude BpText C07_Text C07_Files.

(* ---- generic ---------------------------------------------------------------------- *)

Lemma token_ok_spec s : token_ok s = true ->
  s <> [] /\ nosep c_tab s = true /\ nosep c_nl s = true /\ nosep c_cr s = true.
Proof.
  unfold token_ok. rewrite !andb_true_iff, negb_true_iff. intros [[[H0 H1] H2] H3].
  repeat split; try assumption. destruct s; [discriminate|discriminate].
Qed.

Lemma forallb_impl {A} (P Q : A -> bool) l :
  (forall x, P x = true -> Q x = true) -> forallb P l = true -> forallb Q l = true.
Proof.
  intros H. induction l as [|a r IH]; [reflexivity|]. cbn [forallb].
  rewrite !andb_true_iff. intros [Ha Hr]. split; [apply H; exact Ha|apply IH; exact Hr].
Qed.

Lemma join_nonnil sep toks :
  toks <> [] -> forallb (fun t => negb (match t with [] => true | _ => false end)) toks = true ->
  join sep toks <> [].
Proof.
  destruct toks as [|t r]; [congruence|]. intros _ H. cbn [forallb] in H.
  apply andb_true_iff in H. destruct H as [Ht _].
  destruct t as [|c t]; [discriminate|]. destruct r; cbn [join app]; discriminate.
Qed.

Lemma tokens_nonempty toks : forallb token_ok toks = true ->
  forallb (fun t => negb (match t with [] => true | _ => false end)) toks = true.
Proof.
  apply forallb_impl. intros s H. unfold token_ok in H. rewrite !andb_true_iff in H. tauto.
Qed.

Lemma tokens_nosep_tab toks : forallb token_ok toks = true -> forallb (nosep c_tab) toks = true.
Proof. apply forallb_impl. intros s H. apply token_ok_spec in H. tauto. Qed.
Lemma tokens_nosep_nl toks : forallb token_ok toks = true -> forallb (nosep c_nl) toks = true.
Proof. apply forallb_impl. intros s H. apply token_ok_spec in H. tauto. Qed.
Lemma tokens_nosep_cr toks : forallb token_ok toks = true -> forallb (nosep c_cr) toks = true.
Proof. apply forallb_impl. intros s H. apply token_ok_spec in H. tauto. Qed.

(* one row through "\t".join and csv's split *)
Lemma csv_row_join row : forallb token_ok row = true -> csv_row (join c_tab row) = row.
Proof.
  intros H. destruct row as [|t r]; [reflexivity|].
  unfold csv_row. pose proof (join_nonnil c_tab (t :: r) ltac:(discriminate) (tokens_nonempty _ H)) as Hne.
  destruct (join c_tab (t :: r)) eqn:E; [congruence|]. rewrite <- E.
  apply split_join; [discriminate|apply tokens_nosep_tab; exact H].
Qed.

Lemma row_line_nosep c row : c <> c_tab -> forallb (nosep c) row = true -> nosep c (join c_tab row) = true.
Proof. intros Hc H. apply mem_char_join; assumption. Qed.

(* the rows of a text made of rows: every row a (possibly empty) list of tokens *)
Lemma csv_rows_rows_text rows :
  forallb (forallb token_ok) rows = true -> csv_rows (rows_text rows) = rows.
Proof.
  intros H. unfold csv_rows, rows_text. rewrite file_lines_unlines.
  - rewrite map_map. rewrite <- (map_id rows) at 2. apply map_ext_in. intros row Hin.
    apply csv_row_join. rewrite forallb_forall in H. apply H. exact Hin.
  - rewrite forallb_forall. intros l Hl. apply in_map_iff in Hl. destruct Hl as [row [<- Hin]].
    apply row_line_nosep; [discriminate|]. apply tokens_nosep_nl.
    rewrite forallb_forall in H. apply H. exact Hin.
Qed.

Lemma nosep_unlines c ls : c <> c_nl -> forallb (nosep c) ls = true -> nosep c (unlines ls) = true.
Proof.
  intros Hc. induction ls as [|l r IH]; intros H; [reflexivity|].
  cbn [forallb] in H. apply andb_true_iff in H. destruct H as [Hl Hr].
  cbn [unlines flat_map]. rewrite !nosep_app, Hl. fold (unlines r). rewrite (IH Hr).
  unfold nosep, mem_char. cbn [existsb].
  assert (E : (c =? c_nl) = false) by (apply Z.eqb_neq; exact Hc). rewrite E. reflexivity.
Qed.

Lemma rows_text_no_cr rows :
  forallb (forallb token_ok) rows = true -> mem_char c_cr (rows_text rows) = false.
Proof.
  intros H. apply negb_true_iff. change (nosep c_cr (rows_text rows) = true).
  apply nosep_unlines; [discriminate|]. rewrite forallb_forall. intros l Hl.
  apply in_map_iff in Hl. destruct Hl as [row [<- Hin]].
  apply row_line_nosep; [discriminate|]. apply tokens_nosep_cr.
  rewrite forallb_forall in H. apply H. exact Hin.
Qed.

Lemma read_rows_rows_text rows :
  forallb (forallb token_ok) rows = true -> read_rows false (rows_text rows) = Ok rows.
Proof.
  intros H. unfold read_rows. rewrite (rows_text_no_cr _ H), (csv_rows_rows_text _ H). reflexivity.
Qed.

(* with the csv dialect of the pinned tree the same holds when no token begins with a quote *)
Lemma read_rows_rows_text_legacy rows :
  forallb (forallb token_ok) rows = true -> has_leading_quote rows = false ->
  read_rows true (rows_text rows) = Ok rows.
Proof.
  intros H Hq. unfold read_rows. rewrite (rows_text_no_cr _ H), (csv_rows_rows_text _ H), Hq. reflexivity.
Qed.

(* ---- .psam -------------------------------------------------------------------------- *)

Definition psam_rows (samples : list str) : list (list str) :=
  [s_hIID] :: match samples with [] => [[]] | _ => map (fun s => [s]) samples end.

Lemma join_unlines ls : ls <> [] -> join c_nl ls ++ [c_nl] = unlines ls.
Proof.
  induction ls as [|l r IH]; [congruence|]. intros _. destruct r as [|u r'].
  - cbn. rewrite app_nil_r. reflexivity.
  - change (join c_nl (l :: u :: r')) with (l ++ c_nl :: join c_nl (u :: r')).
    change (unlines (l :: u :: r')) with ((l ++ [c_nl]) ++ unlines (u :: r')).
    rewrite <- IH by discriminate. rewrite <- !app_assoc. reflexivity.
Qed.

(* the text write_samples produces is the text of these rows *)
Lemma psam_text_rows samples : psam_text samples = rows_text (psam_rows samples).
Proof.
  unfold psam_text, rows_text, psam_rows. destruct samples as [|s r].
  - reflexivity.
  - assert (E : forall l : list str, map (join c_tab) (map (fun s => [s]) l) = l).
    { intros l. rewrite map_map. cbn [join]. apply map_id. }
    change (map (join c_tab) ([s_hIID] :: map (fun s0 => [s0]) (s :: r)))
      with (s_hIID :: map (join c_tab) (map (fun s0 => [s0]) (s :: r))).
    rewrite E.
    change (unlines (s_hIID :: s :: r)) with ((s_hIID ++ [c_nl]) ++ unlines (s :: r)).
    rewrite <- join_unlines by discriminate. rewrite <- app_assoc. reflexivity.
Qed.

Lemma psam_collect_single samples :
  forallb token_ok samples = true -> psam_collect 0 (map (fun s => [s]) samples) = Ok samples.
Proof.
  induction samples as [|s r IH]; intros H; [reflexivity|].
  cbn [forallb] in H. apply andb_true_iff in H. destruct H as [_ Hr].
  cbn [map psam_collect nth_error]. rewrite (IH Hr). reflexivity.
Qed.

Lemma psam_read_rows_psam_rows samples :
  forallb token_ok samples = true -> psam_read_rows (psam_rows samples) = Ok samples.
Proof.
  intros H. unfold psam_read_rows, psam_rows. cbn [psam_find_header].
  replace (starts_with s_hFID s_hIID || starts_with s_hIID s_hIID) with true by reflexivity.
  cbn [bind]. replace (index_of s_IID [tl s_hIID]) with (Some O) by reflexivity.
  destruct samples as [|s r]; [reflexivity|]. apply psam_collect_single. exact H.
Qed.

Lemma psam_rows_ok samples :
  forallb token_ok samples = true -> forallb (forallb token_ok) (psam_rows samples) = true.
Proof.
  intros H. unfold psam_rows. cbn [forallb]. replace (token_ok s_hIID) with true by reflexivity.
  cbn [andb]. destruct samples as [|s r]; [reflexivity|].
  rewrite forallb_forall. intros row Hin. apply in_map_iff in Hin. destruct Hin as [x [<- Hx]].
  cbn [forallb]. rewrite forallb_forall in H. rewrite (H _ Hx). reflexivity.
Qed.

(* write_samples then read_samples: every list of names (the empty one included), any
   characters but tab and the line terminators, any length *)
Lemma psam_roundtrip samples :
  forallb token_ok samples = true -> psam_read false (psam_text samples) = Ok samples.
Proof.
  intros H. unfold psam_read. rewrite psam_text_rows, read_rows_rows_text by (apply psam_rows_ok; exact H).
  cbn [bind]. apply psam_read_rows_psam_rows. exact H.
Qed.

(* the pinned reader (csv's default dialect): the same when no name begins with a quote *)
Lemma psam_roundtrip_legacy samples :
  forallb token_ok samples = true -> existsb (first_char_is c_quote) samples = false ->
  psam_read true (psam_text samples) = Ok samples.
Proof.
  intros H Hq. unfold psam_read. rewrite psam_text_rows, read_rows_rows_text_legacy.
  - cbn [bind]. apply psam_read_rows_psam_rows. exact H.
  - apply psam_rows_ok. exact H.
  - unfold has_leading_quote, psam_rows.
    change (existsb (existsb (first_char_is c_quote)) ([s_hIID] :: ?x)) with (existsb (existsb (first_char_is c_quote)) x).
    destruct samples as [|s r]; [reflexivity|]. rewrite <- Hq. generalize (s :: r). intros l.
    induction l as [|x l IH]; [reflexivity|]. cbn [map existsb]. rewrite IH, orb_false_r. reflexivity.
Qed.

(* ---- .pvar -------------------------------------------------------------------------- *)

Definition meta_row (row : list str) : bool :=
  match row with f :: _ => starts_with s_hh f | [] => false end.

Lemma skip_meta_app meta hdr recs :
  forallb meta_row meta = true -> meta_row hdr = false -> hdr <> [] ->
  skip_meta (meta ++ hdr :: recs) = Ok (hdr, recs).
Proof.
  intros Hm Hh Hne. induction meta as [|m r IH].
  - cbn [app skip_meta]. destruct hdr as [|f t]; [congruence|]. cbn [meta_row] in Hh. rewrite Hh. reflexivity.
  - cbn [forallb] in Hm. apply andb_true_iff in Hm. destruct Hm as [Hm Hr].
    cbn [app skip_meta]. destruct m as [|f t]; [discriminate|]. cbn [meta_row] in Hm. rewrite Hm.
    apply IH. exact Hr.
Qed.

Lemma tvariant_ok_spec v : tvariant_ok v = true ->
  token_ok (t_id v) = true /\ (length (t_id v) <= 50)%nat
  /\ token_ok (t_chrom v) = true /\ (length (t_chrom v) <= 10)%nat
  /\ 0 <= t_pos v < 4294967296
  /\ 2 <= lenZ (t_alleles v) /\ forallb allele_ok (t_alleles v) = true.
Proof.
  unfold tvariant_ok. rewrite !andb_true_iff, !Nat.leb_le, !Z.leb_le, !Z.ltb_lt. tauto.
Qed.

Lemma alleles_split al :
  2 <= lenZ al -> forallb allele_ok al = true ->
  hd [] al :: split c_comma (join c_comma (tl al)) = al.
Proof.
  intros Hlen Hal. destruct al as [|r0 alts]; [unfold lenZ in Hlen; cbn in Hlen; lia|].
  cbn [hd tl]. f_equal. cbn [forallb] in Hal. apply andb_true_iff in Hal. destruct Hal as [_ Halts].
  apply split_join.
  - destruct alts; [unfold lenZ in Hlen; cbn in Hlen; lia|discriminate].
  - revert Halts. apply forallb_impl. intros s H. unfold allele_ok in H. apply andb_true_iff in H. tauto.
Qed.

Lemma pvar_variant_record v tail :
  tvariant_ok v = true -> pvar_variant (record5 v ++ tail) = Ok v.
Proof.
  intros H. apply tvariant_ok_spec in H. destruct H as [_ [Hid [_ [Hch [Hpos [Hlen Hal]]]]]].
  unfold record5. cbn [app pvar_variant]. rewrite undec_dec by lia.
  destruct (t_pos v <? 4294967296) eqn:E; [|apply Z.ltb_ge in E; lia].
  rewrite !trunc_short by assumption. rewrite alleles_split by assumption.
  destruct v; reflexivity.
Qed.

Lemma mapM_records vs :
  forallb tvariant_ok (map fst vs) = true ->
  mapM pvar_variant (map (fun vt : tvariant * list str => record5 (fst vt) ++ snd vt) vs) = Ok (map fst vs).
Proof.
  induction vs as [|[v t] r IH]; intros H; [reflexivity|].
  cbn [map fst forallb] in H. apply andb_true_iff in H. destruct H as [Hv Hr].
  cbn [map mapM fst snd]. rewrite (pvar_variant_record v t Hv). cbn [bind]. rewrite (IH Hr). reflexivity.
Qed.

(* the columns haptools picks from the rows pysam wrote give back every variant *)
Lemma pvar_rows_roundtrip meta vs :
  forallb meta_row meta = true -> forallb tvariant_ok (map fst vs) = true ->
  pvar_read_rows (pvar_rows meta vs) = Ok (map fst vs).
Proof.
  intros Hm Hv. unfold pvar_read_rows, pvar_rows.
  rewrite skip_meta_app; [|exact Hm|reflexivity|discriminate]. cbn [bind].
  replace (lenZ pvar_header <? 5) with false by reflexivity.
  unfold pvar_header at 1. rewrite Z.eqb_refl.
  replace (has_col s_CHROM (s_CHROM :: [s_POS; s_ID; s_REF; s_ALT; s_QUAL; s_FILTER; s_INFO])
           && has_col s_POS (s_CHROM :: [s_POS; s_ID; s_REF; s_ALT; s_QUAL; s_FILTER; s_INFO])
           && has_col s_ID (s_CHROM :: [s_POS; s_ID; s_REF; s_ALT; s_QUAL; s_FILTER; s_INFO])) with true by reflexivity.
  apply mapM_records. exact Hv.
Qed.

(* ... and the same through the text, when the tokens of the ## lines and of the QUAL
   FILTER INFO columns can stand in a tab-separated line *)
Lemma dec_token_ok n : 0 <= n -> token_ok (dec n) = true.
Proof.
  intros Hn. unfold token_ok. pose proof (dec_nonnil n) as Hne. pose proof (dec_digits n Hn) as Hd.
  rewrite (digits_nosep c_tab (dec n) eq_refl Hd), (digits_nosep c_nl (dec n) eq_refl Hd),
    (digits_nosep c_cr (dec n) eq_refl Hd).
  destruct (dec n); [congruence|reflexivity].
Qed.

Lemma join_token_ok sep toks :
  sep <> c_tab -> sep <> c_nl -> sep <> c_cr ->
  toks <> [] -> forallb token_ok toks = true -> token_ok (join sep toks) = true.
Proof.
  intros H1 H2 H3 Hne H. unfold token_ok.
  rewrite (mem_char_join sep c_tab toks ltac:(congruence) (tokens_nosep_tab _ H)).
  rewrite (mem_char_join sep c_nl toks ltac:(congruence) (tokens_nosep_nl _ H)).
  rewrite (mem_char_join sep c_cr toks ltac:(congruence) (tokens_nosep_cr _ H)).
  pose proof (join_nonnil sep toks Hne (tokens_nonempty _ H)) as Hj.
  destruct (join sep toks); [congruence|reflexivity].
Qed.

Lemma record5_ok v : tvariant_ok v = true -> forallb token_ok (record5 v) = true.
Proof.
  intros H. apply tvariant_ok_spec in H. destruct H as [Hid [_ [Hch [_ [Hpos [Hlen Hal]]]]]].
  assert (Htok : forallb token_ok (t_alleles v) = true).
  { revert Hal. apply forallb_impl. intros s Hs. unfold allele_ok in Hs. apply andb_true_iff in Hs. tauto. }
  unfold record5. cbn [forallb]. rewrite Hch, Hid, dec_token_ok by lia. cbn [andb].
  destruct (t_alleles v) as [|r0 alts]; [unfold lenZ in Hlen; cbn in Hlen; lia|].
  cbn [hd tl forallb] in *. apply andb_true_iff in Htok. destruct Htok as [Hr0 Halts]. rewrite Hr0. cbn [andb].
  rewrite join_token_ok; [reflexivity|discriminate|discriminate|discriminate| |exact Halts].
  destruct alts; [unfold lenZ in Hlen; cbn in Hlen; lia|discriminate].
Qed.

Lemma pvar_rows_ok meta vs :
  forallb (forallb token_ok) meta = true -> forallb tvariant_ok (map fst vs) = true ->
  forallb (forallb token_ok) (map snd vs) = true ->
  forallb (forallb token_ok) (pvar_rows meta vs) = true.
Proof.
  intros Hm Hv Ht. unfold pvar_rows. rewrite forallb_app, Hm. cbn [forallb andb].
  replace (forallb token_ok pvar_header) with true by reflexivity. cbn [andb].
  rewrite forallb_forall. intros row Hin. apply in_map_iff in Hin. destruct Hin as [[v t] [<- Hx]].
  cbn [fst snd]. rewrite forallb_app. apply andb_true_iff. split.
  - apply record5_ok. rewrite forallb_forall in Hv. apply Hv. apply in_map_iff. exists (v, t). auto.
  - rewrite forallb_forall in Ht. apply Ht. apply in_map_iff. exists (v, t). auto.
Qed.

Lemma pvar_roundtrip meta vs :
  forallb meta_row meta = true -> forallb (forallb token_ok) meta = true ->
  forallb tvariant_ok (map fst vs) = true -> forallb (forallb token_ok) (map snd vs) = true ->
  pvar_read false (rows_text (pvar_rows meta vs)) = Ok (map fst vs).
Proof.
  intros Hm Hmt Hv Ht. unfold pvar_read.
  rewrite read_rows_rows_text by (apply pvar_rows_ok; assumption). cbn [bind].
  apply pvar_rows_roundtrip; assumption.
Qed.

(* ---- the GT token ---------------------------------------------------------------------- *)

Definition vcall_ok (c : vcall) : bool :=
  let '(a, b, _) := c in
  match a with Some k => 0 <=? k | None => true end && match b with Some k => 0 <=? k | None => true end.

Definition gt_char (c : Z) : bool := is_digit c || (c =? c_dot).

Lemma gt_allele_chars a : match a with Some k => 0 <= k | None => True end ->
  forallb gt_char (gt_allele a) = true.
Proof.
  destruct a as [k|]; intros H; [|reflexivity]. cbn [gt_allele].
  pose proof (dec_digits k H) as Hd. revert Hd. apply forallb_impl. intros c Hc. unfold gt_char. rewrite Hc. reflexivity.
Qed.

Lemma gt_split_app (a : str) (ph : bool) (b : str) :
  forallb gt_char a = true -> gt_split (a ++ (if ph then c_pipe else c_slash) :: b) = Some (a, ph, b).
Proof.
  induction a as [|c a IH]; intros H.
  - cbn [app gt_split]. destruct ph; reflexivity.
  - cbn [forallb] in H. apply andb_true_iff in H. destruct H as [Hc Ha]. cbn [app gt_split].
    assert (E1 : (c =? c_pipe) = false).
    { apply Z.eqb_neq. intros E. subst c. discriminate Hc. }
    assert (E2 : (c =? c_slash) = false).
    { apply Z.eqb_neq. intros E. subst c. discriminate Hc. }
    rewrite E1, E2, (IH Ha). reflexivity.
Qed.

Lemma parse_gt_allele a : match a with Some k => 0 <= k | None => True end ->
  parse_allele (gt_allele a) = Some a.
Proof.
  destruct a as [k|]; intros H; [|reflexivity]. cbn [gt_allele]. unfold parse_allele.
  assert (E : str_eqb (dec k) s_dot = false).
  { destruct (str_eqb (dec k) s_dot) eqn:E; [|reflexivity]. apply str_eqb_spec in E.
    pose proof (dec_digits k H) as Hd. rewrite E in Hd. discriminate. }
  rewrite E, undec_dec by exact H. reflexivity.
Qed.

Lemma parse_gt_token c : vcall_ok c = true -> parse_gt (gt_token c) = Some c.
Proof.
  destruct c as [[a b] ph]. unfold vcall_ok. rewrite andb_true_iff. intros [Ha Hb].
  assert (Ha' : match a with Some k => 0 <= k | None => True end) by (destruct a; [apply Z.leb_le; exact Ha|exact I]).
  assert (Hb' : match b with Some k => 0 <= k | None => True end) by (destruct b; [apply Z.leb_le; exact Hb|exact I]).
  unfold parse_gt, gt_token. rewrite gt_split_app by (apply gt_allele_chars; exact Ha').
  rewrite !parse_gt_allele by assumption. reflexivity.
Qed.

(* ---- the lines of a VCF ------------------------------------------------------------------- *)

Definition tvfile_ok (f : tvfile) : bool :=
  forallb token_ok (tf_samples f)
  && forallb (fun r => tvariant_ok (fst r) && (length (snd r) =? length (tf_samples f))%nat
                       && forallb vcall_ok (snd r)) (tf_recs f).

Lemma mapM_parse_gt cs : forallb vcall_ok cs = true ->
  mapM (fun g => match parse_gt g with Some c => Ok c | None => Err E_Unmodelled end) (map gt_token cs) = Ok cs.
Proof.
  induction cs as [|c r IH]; intros H; [reflexivity|].
  cbn [forallb] in H. apply andb_true_iff in H. destruct H as [Hc Hr].
  cbn [map mapM]. rewrite (parse_gt_token c Hc). cbn [bind]. rewrite (IH Hr). reflexivity.
Qed.

Lemma vcf_parse_record_row n tail v cs :
  tvariant_ok v = true -> length tail = 3%nat -> length cs = n -> forallb vcall_ok cs = true ->
  vcf_parse_record n (vcf_record_row tail (v, cs)) = Ok (v, cs).
Proof.
  intros Hv Ht Hn Hcs. pose proof Hv as Hv'. apply tvariant_ok_spec in Hv'.
  destruct Hv' as [_ [_ [_ [_ [Hpos [Hlen Hal]]]]]].
  unfold vcf_record_row. cbn [fst snd].
  destruct tail as [|q [|f [|i [|x t]]]]; try discriminate. clear Ht.
  remember (gt_cols cs) as G eqn:EG.
  unfold vcf_parse_record, record5. cbn [app]. rewrite undec_dec by lia. rewrite alleles_split by assumption.
  assert (Ev : mktv (t_id v) (t_chrom v) (t_pos v) (t_alleles v) = v) by (destruct v; reflexivity).
  rewrite Ev. destruct n as [|n'].
  - destruct cs; [reflexivity|discriminate].
  - destruct cs as [|c0 cs']; [discriminate|]. cbn [skipn]. subst G. cbn [gt_cols].
    rewrite str_eqb_refl, map_length, Hn, Nat.eqb_refl. cbn [andb].
    rewrite mapM_parse_gt by exact Hcs. reflexivity.
Qed.

Lemma mapM_vcf_records n tails recs :
  length tails = length recs -> forallb (fun t => (length t =? 3)%nat) tails = true ->
  forallb (fun r : tvariant * list vcall => tvariant_ok (fst r) && (length (snd r) =? n)%nat && forallb vcall_ok (snd r)) recs = true ->
  mapM (vcf_parse_record n) (map (fun tr => vcf_record_row (fst tr) (snd tr)) (combine tails recs)) = Ok recs.
Proof.
  revert recs. induction tails as [|t ts IH]; intros [|[v cs] rs] Hlen Ht Hr; try discriminate; [reflexivity|].
  cbn [forallb] in Ht, Hr. apply andb_true_iff in Ht. destruct Ht as [Ht Hts].
  apply andb_true_iff in Hr. destruct Hr as [Hr Hrs]. cbn [fst snd] in Hr.
  rewrite !andb_true_iff in Hr. destruct Hr as [[Hv Hn] Hcs].
  apply Nat.eqb_eq in Ht, Hn. cbn [combine map mapM fst snd].
  rewrite (vcf_parse_record_row n t v cs Hv Ht Hn Hcs). cbn [bind].
  rewrite IH; [reflexivity|cbn in Hlen; lia|exact Hts|exact Hrs].
Qed.

Lemma skipn9_header samples : skipn 9 (vcf_header_row samples) = samples.
Proof. destruct samples; reflexivity. Qed.

(* htslib's reading of the lines pysam wrote gives back the samples, every variant's
   CHROM POS ID REF ALT and every GT, for every content that can stand in such lines *)
Lemma vcf_rows_roundtrip meta tails f :
  forallb meta_row meta = true -> length tails = length (tf_recs f) ->
  forallb (fun t => (length t =? 3)%nat) tails = true -> tvfile_ok f = true ->
  vcf_parse_rows (vcf_rows meta tails f) = Ok f.
Proof.
  intros Hm Hlen Ht Hf. unfold tvfile_ok in Hf. apply andb_true_iff in Hf. destruct Hf as [_ Hr].
  unfold vcf_parse_rows, vcf_rows. rewrite skip_meta_app; [|exact Hm| |].
  - cbn [bind]. rewrite skipn9_header. rewrite (mapM_vcf_records _ tails (tf_recs f) Hlen Ht Hr).
    cbn [bind]. destruct f; reflexivity.
  - destruct (tf_samples f); reflexivity.
  - unfold vcf_header_row, pvar_header. discriminate.
Qed.

Lemma gt_token_ok c : vcall_ok c = true -> token_ok (gt_token c) = true.
Proof.
  destruct c as [[a b] ph]. unfold vcall_ok. rewrite andb_true_iff. intros [Ha Hb].
  assert (Ha' : match a with Some k => 0 <= k | None => True end) by (destruct a; [apply Z.leb_le; exact Ha|exact I]).
  assert (Hb' : match b with Some k => 0 <= k | None => True end) by (destruct b; [apply Z.leb_le; exact Hb|exact I]).
  pose proof (gt_allele_chars a Ha') as Ca. pose proof (gt_allele_chars b Hb') as Cb.
  assert (Hns : forall c s, gt_char c = false -> forallb gt_char s = true -> nosep c s = true).
  { intros c s Hc. induction s as [|d s IH]; intros H; [reflexivity|].
    cbn [forallb] in H. apply andb_true_iff in H. destruct H as [Hd Hs].
    rewrite nosep_cons_eq, (IH Hs), andb_true_r. apply negb_true_iff, Z.eqb_neq. intros ->. congruence. }
  unfold token_ok, gt_token. rewrite !nosep_app, !nosep_cons_eq.
  rewrite !(Hns c_tab), !(Hns c_nl), !(Hns c_cr) by (assumption || reflexivity).
  destruct ph; destruct (gt_allele a); reflexivity.
Qed.

Lemma vcf_rows_ok meta tails f :
  forallb (forallb token_ok) meta = true -> forallb (forallb token_ok) tails = true ->
  tvfile_ok f = true -> forallb (forallb token_ok) (vcf_rows meta tails f) = true.
Proof.
  intros Hm Ht Hf. unfold tvfile_ok in Hf. apply andb_true_iff in Hf. destruct Hf as [Hs Hr].
  unfold vcf_rows. rewrite forallb_app, Hm. cbn [forallb andb]. apply andb_true_iff. split.
  - unfold vcf_header_row. rewrite forallb_app. replace (forallb token_ok pvar_header) with true by reflexivity.
    destruct (tf_samples f); [reflexivity|]. cbn [andb forallb] in *.
    replace (token_ok s_FORMAT) with true by reflexivity. exact Hs.
  - rewrite forallb_forall. intros row Hin. apply in_map_iff in Hin. destruct Hin as [[t [v cs]] [<- Hx]].
    cbn [fst snd]. unfold vcf_record_row, gt_cols. cbn [fst snd]. rewrite !forallb_app.
    pose proof (in_combine_l _ _ _ _ Hx) as Hin_t. pose proof (in_combine_r _ _ _ _ Hx) as Hin_r.
    rewrite forallb_forall in Hr. specialize (Hr _ Hin_r). cbn [fst snd] in Hr.
    rewrite !andb_true_iff in Hr. destruct Hr as [[Hv _] Hcs].
    rewrite (record5_ok v Hv). rewrite forallb_forall in Ht. rewrite (Ht _ Hin_t). cbn [andb].
    destruct cs as [|c0 cs']; [reflexivity|]. cbn [forallb]. replace (token_ok s_GT) with true by reflexivity.
    cbn [andb]. fold (forallb token_ok (map gt_token (c0 :: cs'))).
    rewrite forallb_forall. intros g Hg. apply in_map_iff in Hg. destruct Hg as [c [<- Hc]].
    apply gt_token_ok. rewrite forallb_forall in Hcs. apply Hcs. exact Hc.
Qed.

Lemma vcf_text_roundtrip meta tails f :
  forallb meta_row meta = true -> forallb (forallb token_ok) meta = true ->
  length tails = length (tf_recs f) -> forallb (fun t => (length t =? 3)%nat) tails = true ->
  forallb (forallb token_ok) tails = true -> tvfile_ok f = true ->
  vcf_parse (rows_text (vcf_rows meta tails f)) = Ok f.
Proof.
  intros Hm Hmt Hlen Ht3 Ht Hf. unfold vcf_parse.
  pose proof (vcf_rows_ok meta tails f Hmt Ht Hf) as Hok.
  rewrite (rows_text_no_cr _ Hok), (csv_rows_rows_text _ Hok).
  apply vcf_rows_roundtrip; assumption.
Qed.

(* putting a variant of the domain into the numpy record type changes nothing *)
Lemma cut_variant_id v : tvariant_ok v = true -> cut_variant v = v.
Proof.
  intros H. apply tvariant_ok_spec in H. destruct H as [_ [Hid [_ [Hch _]]]].
  unfold cut_variant. rewrite !trunc_short by assumption. destruct v; reflexivity.
Qed.

(* ---- the domain is inhabited by the names the generators use ---------------------------- *)

Example text_hypotheses_satisfiable :
  forallb token_ok [[49; 50; 51]; [95]; [97; 46; 98]; [97; 35; 98]; s_IID; s_hIID; [34; 113]] = true
  /\ tvariant_ok (mktv [114; 115; 49; 59; 120] [99; 104; 114; 49] 2147483646 [[65]; [65; 67]; [42]]) = true
  /\ vcall_ok (Some 2, None, false) = true.
Proof. vm_compute. repeat split. Qed.

(* ---- the boolean equalities mean equality ------------------------------------------------ *)

Lemma tvariant_eqb_spec a b : tvariant_eqb a b = true <-> a = b.
Proof.
  destruct a as [i c p al], b as [i' c' p' al']. unfold tvariant_eqb. cbn [t_id t_chrom t_pos t_alleles].
  rewrite !andb_true_iff, !str_eqb_spec, Z.eqb_eq, (list_eqb_spec str_eqb str_eqb_spec). split.
  - intros [[[-> ->] ->] ->]. reflexivity.
  - intros H. inversion H. auto.
Qed.
