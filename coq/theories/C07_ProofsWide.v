(* C07 - proofs about the widths: the whole range of allele indices (0..254 beside the missing
   value 255), the positions the formats can hold and what write refuses beyond them, and
   the compact literals the harness uses for long regular lists. *)
From HV Require Import Prelude BpText C07_Text C07_Files C07_Model C07_Check C07_ProofsText C07_Proofs.

(* ---- compact literals: what the three decoders produce ----------------------------- *)

Lemma zrange_fuel_length f a : length (zrange_fuel f a) = f.
Proof. revert a. induction f as [|f IH]; intros a; [reflexivity|]. cbn [zrange_fuel length]. rewrite IH. reflexivity. Qed.

Lemma zrange_length a n : 0 <= n -> lenZ (zrange a n) = n.
Proof. intros Hn. unfold lenZ, zrange. rewrite zrange_fuel_length. apply Z2Nat.id. exact Hn. Qed.

Lemma zrange_fuel_nth f : forall a i, (i < f)%nat -> nth_error (zrange_fuel f a) i = Some (a + Z.of_nat i).
Proof.
  induction f as [|f IH]; intros a i Hi; [lia|].
  cbn [zrange_fuel]. destruct i as [|i].
  - cbn. f_equal. lia.
  - cbn [nth_error]. rewrite IH by lia. f_equal. lia.
Qed.

Lemma zrange_nth a n i : 0 <= i < n -> nth_error (zrange a n) (Z.to_nat i) = Some (a + i).
Proof.
  intros Hi. unfold zrange. rewrite zrange_fuel_nth by (apply Z2Nat.inj_lt; lia).
  rewrite Z2Nat.id by lia. reflexivity.
Qed.

Lemma rle_nil {A} : @rle A [] = [].
Proof. reflexivity. Qed.

Lemma rle_single {A} n (x : A) : rle [(n, x)] = repeat x (Z.to_nat n).
Proof. unfold rle. cbn [flat_map fst snd]. apply app_nil_r. Qed.

Lemma rle_app {A} (r1 r2 : list (Z * A)) : rle (r1 ++ r2) = rle r1 ++ rle r2.
Proof. unfold rle. apply flat_map_app. Qed.

Lemma rle_cons {A} n (x : A) r : rle ((n, x) :: r) = repeat x (Z.to_nat n) ++ rle r.
Proof. reflexivity. Qed.

(* every element of the decoded list is the element of one of the runs *)
Lemma rle_In {A} (runs : list (Z * A)) x : In x (rle runs) -> exists n, In (n, x) runs /\ 0 < n.
Proof.
  induction runs as [|[n y] r IH]; [intros []|].
  rewrite rle_cons, in_app_iff. intros [H|H].
  - apply repeat_spec in H as E. subst x. exists n. split; [left; reflexivity|].
    destruct (Z.to_nat n) eqn:E; [destruct H|]. lia.
  - destruct (IH H) as [m [Hm Hp]]. exists m. split; [right; exact Hm|exact Hp].
Qed.

Lemma vrun_fuel_length f id chrom pos step al rl : length (vrun_fuel f id chrom pos step al rl) = f.
Proof.
  revert id pos. induction f as [|f IH]; intros id pos; [reflexivity|].
  cbn [vrun_fuel length]. rewrite IH. reflexivity.
Qed.

Lemma vrun_length id chrom pos step al rl n : 0 <= n -> lenZ (vrun id chrom pos step al rl n) = n.
Proof. intros Hn. unfold lenZ, vrun. rewrite vrun_fuel_length. apply Z2Nat.id. exact Hn. Qed.

Lemma vrun_fuel_nth f : forall id chrom pos step al rl i, (i < f)%nat ->
  nth_error (vrun_fuel f id chrom pos step al rl) i
  = Some (mkvar (id + Z.of_nat i) chrom (pos + step * Z.of_nat i) al rl).
Proof.
  induction f as [|f IH]; intros id chrom pos step al rl i Hi; [lia|].
  cbn [vrun_fuel]. destruct i as [|i].
  - cbn. do 2 f_equal; lia.
  - cbn [nth_error]. rewrite IH by lia. do 2 f_equal; lia.
Qed.

Lemma vrun_nth id chrom pos step al rl n i : 0 <= i < n ->
  nth_error (vrun id chrom pos step al rl n) (Z.to_nat i)
  = Some (mkvar (id + i) chrom (pos + step * i) al rl).
Proof.
  intros Hi. unfold vrun. rewrite vrun_fuel_nth by (apply Z2Nat.inj_lt; lia).
  rewrite Z2Nat.id by lia. reflexivity.
Qed.

(* ---- every allele index of the domain goes through both codecs unchanged ------------- *)

(* what is handed to pgenlib / pysam for an index that is not the missing value: the index
   itself, whatever its size (0..254) *)
Lemma index_written na a : allele_domb na a = true -> na <= 255 -> a <> 255 ->
  code_of a = a /\ gt_of a = Some a /\ 0 <= a < 255.
Proof.
  intros Ha Hna Hne. apply code_of_dom in Ha. destruct Ha as [[E _]|[_ [Hr Hc]]]; [congruence|].
  split; [exact Hc|]. split; [|lia]. unfold gt_of. destruct (a =? 255) eqn:E; [apply Z.eqb_eq in E; congruence|reflexivity].
Qed.

Lemma index_decodes na a : allele_domb na a = true -> na <= 255 ->
  cast8 (m9 (code_of a)) = a /\ cast8 (oz (gt_of a)) = a.
Proof. intros Ha Hna. split; [apply (decode_code na); assumption|apply (decode_gt na); assumption]. Qed.

(* any other way of writing the GT of an index: if what is read back (cyvcf2's -1 for ".",
   cast to uint8) is to be the index for every value a uint8 can take, then no index below 255
   may be written as "." and 255 itself may only be written as "." or as a number that is 255
   modulo 256 *)
Lemma gt_encoder_must_write (enc : Z -> option Z) :
  (forall a, 0 <= a <= 255 -> cast8 (oz (enc a)) = a) ->
  forall a, 0 <= a < 255 -> exists k, enc a = Some k /\ k mod 256 = a.
Proof.
  intros H a Ha. specialize (H a ltac:(lia)). destruct (enc a) as [k|].
  - exists k. split; [reflexivity|exact H].
  - exfalso. unfold oz, cast8 in H. change ((-1) mod 256) with 255 in H. lia.
Qed.

(* the narrowing to a signed 8-bit integer (numpy .astype(np.int8)) before the test for the
   missing value: exact below 128, every index 128..254 becomes "missing" *)
Definition cast_i8 (x : Z) : Z := (x + 128) mod 256 - 128.
Definition gt_of_narrow (x : Z) : option Z := if cast_i8 x <? 0 then None else Some x.

Lemma cast_i8_low a : 0 <= a < 128 -> cast_i8 a = a.
Proof. intros Ha. unfold cast_i8. rewrite Z.mod_small by lia. lia. Qed.

Lemma cast_i8_high a : 128 <= a <= 255 -> cast_i8 a = a - 256.
Proof.
  intros Ha. unfold cast_i8. replace (a + 128) with ((a - 128) + 1 * 256) by lia.
  rewrite Z.mod_add by lia. rewrite Z.mod_small by lia. lia.
Qed.

Lemma narrow_low a : 0 <= a < 128 -> gt_of_narrow a = gt_of a.
Proof.
  intros Ha. unfold gt_of_narrow, gt_of. rewrite cast_i8_low by exact Ha.
  destruct (a <? 0) eqn:E; [apply Z.ltb_lt in E; lia|].
  destruct (a =? 255) eqn:E'; [apply Z.eqb_eq in E'; lia|reflexivity].
Qed.

Lemma narrow_high a : 128 <= a < 255 -> gt_of_narrow a = None /\ gt_of a = Some a.
Proof.
  intros Ha. unfold gt_of_narrow, gt_of. rewrite cast_i8_high by lia. split.
  - destruct (a - 256 <? 0) eqn:E; [reflexivity|apply Z.ltb_ge in E; lia].
  - destruct (a =? 255) eqn:E; [apply Z.eqb_eq in E; lia|reflexivity].
Qed.

Lemma narrow_missing : gt_of_narrow 255 = gt_of 255.
Proof. reflexivity. Qed.

(* so the narrowed writer loses exactly the indices 128..254: what is read back is 255 *)
Lemma narrow_refuted a : 128 <= a < 255 -> cast8 (oz (gt_of_narrow a)) = 255 /\ cast8 (oz (gt_of a)) = a.
Proof.
  intros Ha. destruct (narrow_high a Ha) as [E1 E2]. rewrite E1, E2. split; [reflexivity|].
  cbn [oz]. unfold cast8. apply Z.mod_small. lia.
Qed.

(* ---- positions: inside the domain nothing is refused ---------------------------------- *)

Lemma pos_okb_fits pgen v : pos_okb pgen v = true -> pos_fits v = true.
Proof.
  unfold pos_okb, pos_fits, rec_start, rec_stop, int_max, two32.
  rewrite !andb_true_iff, !Z.leb_le. intros [[[H1 H2] H3] _].
  rewrite (Z.mod_small (v_pos v - 1)) by lia.
  rewrite (Z.mod_small (v_pos v + v_reflen v)) by lia.
  rewrite Z.mod_small by lia. lia.
Qed.

Lemma in_combine_fst_ex {A B} (la : list A) (lb : list B) :
  length lb = length la -> forall a, In a la -> exists b, In (a, b) (combine la lb).
Proof.
  revert lb. induction la as [|a0 ra IH]; intros [|b0 rb] H a Ha; cbn in *; try discriminate; try tauto.
  destruct Ha as [->|Ha]; [exists b0; auto|].
  destruct (IH rb ltac:(lia) a Ha) as [b Hb]. exists b. auto.
Qed.

Lemma max_allele_ct_le vs m : 2 <= m -> (forall v, In v vs -> allele_ct v <= m) -> max_allele_ct vs <= m.
Proof.
  intros Hm. induction vs as [|v r IH]; intros H; [exact Hm|].
  change (max_allele_ct (v :: r)) with (Z.max (allele_ct v) (max_allele_ct r)).
  apply Z.max_lub; [apply H; left; reflexivity|]. apply IH. intros w Hw. apply H. right. exact Hw.
Qed.

Lemma domain_max_allele_ct half g : geno_domb0 half g = true -> max_allele_ct (g_variants g) <= 255.
Proof.
  unfold geno_domb0. rewrite andb_true_iff. intros [Hl Hrows]. apply Z.eqb_eq in Hl.
  apply max_allele_ct_le; [lia|]. intros v Hv.
  destruct (in_combine_fst_ex (g_variants g) (g_rows g) ltac:(unfold lenZ in Hl; lia) v Hv) as [r Hvr].
  rewrite forallb_forall in Hrows. specialize (Hrows _ Hvr). unfold row_domb in Hrows. cbn [fst snd] in Hrows.
  rewrite !andb_true_iff in Hrows. destruct Hrows as [[[H2 H255] _] _].
  apply Z.leb_le in H2, H255. unfold allele_ct. lia.
Qed.

Lemma geno_domb_to0 half g : geno_domb half g = true -> geno_domb0 half g = true.
Proof.
  unfold geno_domb, geno_domb0. rewrite !andb_true_iff. intros [[_ Hl] Hr]. split; assumption.
Qed.

Lemma write_guard_domain pgen half g :
  geno_domb0 half g = true -> pos_domb pgen g = true -> write_guard pgen g = None.
Proof.
  intros Hd Hp. unfold write_guard, pos_domb in *.
  assert (E1 : forallb pos_fits (g_variants g) = true).
  { revert Hp. apply forallb_eq_ext. intros v. apply pos_okb_fits. }
  rewrite E1. destruct pgen; [|reflexivity]. cbn [andb].
  assert (E2 : existsb (fun v => int_max <=? v_pos v) (g_variants g) = false).
  { apply not_true_is_false. intros H. apply existsb_exists in H. destruct H as [v [Hv Hx]].
    rewrite forallb_forall in Hp. specialize (Hp _ Hv). unfold pos_okb in Hp.
    rewrite !andb_true_iff in Hp. destruct Hp as [_ Hlt]. cbn [negb orb] in Hlt.
    apply Z.ltb_lt in Hlt. apply Z.leb_le in Hx. lia. }
  rewrite E2. cbn [orb].
  pose proof (domain_max_allele_ct half g Hd) as Hm.
  destruct (255 <? max_allele_ct (g_variants g)) eqn:E3; [apply Z.ltb_lt in E3; lia|reflexivity].
Qed.

(* ---- the whole write + read, the refusals included ------------------------------------- *)

Lemma pgen_roundtrip_g_spec paccept pload g cw cr :
  paccept_complete paccept -> pload_contract pload ->
  geno_domb false g = true -> pos_domb true g = true -> chunk_dom cw -> chunk_dom cr ->
  exists g', pgen_roundtrip_g paccept pload false cw cr g = Ok g' /\ rt_rel g g'.
Proof.
  intros Hcomp Hc Hd Hp Hw Hr. unfold pgen_roundtrip_g, pgen_write_g.
  rewrite (write_guard_domain true false g (geno_domb_to0 _ _ Hd) Hp).
  apply (pgen_roundtrip paccept pload g cw cr); assumption.
Qed.

(* chunk sizes are immaterial for every matrix, refused ones included *)
Lemma pgen_chunking_irrelevant_g paccept pload g cw cr cw' cr' :
  paccept_complete paccept -> paccept_sound paccept ->
  chunk_dom cw -> chunk_dom cr -> chunk_dom cw' -> chunk_dom cr' ->
  pgen_roundtrip_g paccept pload false cw cr g = pgen_roundtrip_g paccept pload false cw' cr' g.
Proof.
  intros Hcomp Hsound Hw Hr Hw' Hr'. unfold pgen_roundtrip_g, pgen_write_g.
  destruct (write_guard true g); [reflexivity|].
  apply (chunking_irrelevant2 paccept pload g cw cr cw' cr'); assumption.
Qed.

Lemma vcf_roundtrip_g_spec vload hts g fmt idx :
  vload_contract vload -> hts_iter_contract hts ->
  geno_domb true g = true -> pos_domb false g = true -> 1 <= lenZ (g_variants g) ->
  vcf_roundtrip_g vload hts false false fmt idx g
  = Ok (mkg (g_samples g) (g_variants g) (map (map (norm_call (planes g))) (g_rows g))
            [lenZ (g_samples g); lenZ (g_variants g); 3])
  /\ exists g', vcf_roundtrip_g vload hts false false fmt idx g = Ok g' /\ rt_rel g g'.
Proof.
  intros Hv Hh Hd Hp Hn. unfold vcf_roundtrip_g, vcf_write_g.
  rewrite (write_guard_domain false true g (geno_domb_to0 _ _ Hd) Hp). cbn [bind].
  apply (vcf_roundtrip vload hts g fmt idx); assumption.
Qed.

Lemma vcf_format_index_irrelevant_g vload hts legacy0 g fmt idx fmt' idx' :
  hts_iter_contract hts ->
  vcf_roundtrip_g vload hts false legacy0 fmt idx g = vcf_roundtrip_g vload hts false legacy0 fmt' idx' g.
Proof.
  intros Hh. unfold vcf_roundtrip_g, vcf_write_g. destruct (write_guard false g); [reflexivity|].
  cbn [bind]. apply (vcf_format_index_irrelevant vload hts legacy0 g fmt idx fmt' idx' Hh).
Qed.

Lemma vcf_empty_roundtrip_g vload hts g fmt idx :
  hts_iter_contract hts -> geno_domb0 true g = true -> pos_domb false g = true ->
  g_samples g = [] \/ g_variants g = [] ->
  vcf_roundtrip_g vload hts false false fmt idx g = Ok (mkg (g_samples g) (g_variants g) [] [0; 0; 0])
  /\ empty_rel g (mkg (g_samples g) (g_variants g) [] [0; 0; 0]).
Proof.
  intros Hh Hd Hp He. unfold vcf_roundtrip_g, vcf_write_g.
  rewrite (write_guard_domain false true g Hd Hp). cbn [bind].
  apply (vcf_empty_roundtrip vload hts g fmt idx Hh); [|exact He].
  unfold geno_domb0 in Hd. apply andb_true_iff in Hd. destruct Hd as [Hl _]. apply Z.eqb_eq in Hl. exact Hl.
Qed.

Lemma pgen_empty_roundtrip_g paccept pload g cw cr legacy :
  g_variants g = [] ->
  pgen_roundtrip_g paccept pload legacy cw cr g = Ok (mkg (g_samples g) [] [] [lenZ (g_samples g); 0; 3]).
Proof.
  intros Hv. unfold pgen_roundtrip_g, pgen_write_g, write_guard. rewrite Hv. cbn [forallb existsb max_allele_ct fold_right].
  change (255 <? 2) with false. cbn [orb andb].
  pose proof (pgen_empty_roundtrip paccept pload g cw cr legacy Hv) as [E _].
  unfold pgen_roundtrip_model in E. exact E.
Qed.

(* ---- beyond the domain: what is refused ----------------------------------------------- *)

Lemma forallb_false_in {A} (P : A -> bool) l x : In x l -> P x = false -> forallb P l = false.
Proof.
  intros Hin Hx. apply not_true_is_false. intros H. rewrite forallb_forall in H. rewrite (H _ Hin) in Hx. discriminate.
Qed.

(* a record whose last base lies beyond 2^31 - 1, for every position a uint32 can hold *)
Lemma pos_beyond_not_fits v :
  0 <= v_pos v < two32 -> 1 <= v_reflen v <= int_max -> int_max < v_pos v + v_reflen v - 1 ->
  pos_fits v = false.
Proof.
  unfold pos_fits, rec_start, rec_stop, int_max, two32. intros Hp Hl Hb.
  apply andb_false_iff.
  destruct (Z_lt_ge_dec (v_pos v + v_reflen v) 4294967296) as [Hs|Hs].
  - right. apply Z.leb_gt. rewrite (Z.mod_small (v_pos v + v_reflen v)) by lia.
    rewrite Z.mod_small by lia. lia.
  - left. apply Z.leb_gt. rewrite Z.mod_small by lia. lia.
Qed.

(* position 0: start = uint32(0) - 1 wraps to 2^32 - 1 *)
Lemma pos_zero_not_fits v : v_pos v = 0 -> pos_fits v = false.
Proof.
  intros E. unfold pos_fits, rec_start. rewrite E. apply andb_false_iff. left. reflexivity.
Qed.

Lemma write_refused_overflow pgen g v :
  In v (g_variants g) -> pos_fits v = false -> write_guard pgen g = Some E_Overflow.
Proof.
  intros Hin Hv. unfold write_guard. rewrite (forallb_false_in pos_fits _ v Hin Hv). reflexivity.
Qed.

Lemma vcf_refused_beyond vload hts legacy legacy0 fmt idx g v :
  In v (g_variants g) ->
  0 <= v_pos v < two32 -> 1 <= v_reflen v <= int_max -> int_max < v_pos v + v_reflen v - 1 ->
  vcf_roundtrip_g vload hts legacy legacy0 fmt idx g = Err E_Overflow.
Proof.
  intros Hin Hp Hl Hb. unfold vcf_roundtrip_g, vcf_write_g.
  rewrite (write_refused_overflow false g v Hin (pos_beyond_not_fits v Hp Hl Hb)). reflexivity.
Qed.

Lemma pgen_refused_beyond paccept legacy cw g v :
  In v (g_variants g) ->
  0 <= v_pos v < two32 -> 1 <= v_reflen v <= int_max -> int_max < v_pos v + v_reflen v - 1 ->
  pgen_write_g paccept legacy cw g = Err E_Overflow.
Proof.
  intros Hin Hp Hl Hb. unfold pgen_write_g.
  rewrite (write_refused_overflow true g v Hin (pos_beyond_not_fits v Hp Hl Hb)). reflexivity.
Qed.

(* PGEN: 2^31 - 1 itself and more than 255 alleles are refused by pgenlib's .pvar reader *)
Lemma pgen_refused_by_pvar paccept legacy cw g :
  forallb pos_fits (g_variants g) = true ->
  (exists v, In v (g_variants g) /\ v_pos v = int_max) \/ 255 < max_allele_ct (g_variants g) ->
  pgen_write_g paccept legacy cw g = Err E_Runtime.
Proof.
  intros Hf H. unfold pgen_write_g, write_guard. rewrite Hf. cbn [andb].
  assert (E : existsb (fun v => int_max <=? v_pos v) (g_variants g) || (255 <? max_allele_ct (g_variants g)) = true).
  { apply orb_true_iff. destruct H as [[v [Hin Hv]]|H].
    - left. apply existsb_exists. exists v. split; [exact Hin|]. apply Z.leb_le. lia.
    - right. apply Z.ltb_lt. exact H. }
  rewrite E. reflexivity.
Qed.

(* the limit of 255 alleles is tight: with a 256th allele the index 255 is the missing value.
   Two different matrices - every call 255|255 "carrying allele 255" resp. missing - are one
   and the same to the writers, and PGEN refuses the variant altogether *)
Definition g_256 : geno :=
  mkg [0] [mkvar 0 0 10 (zrange 0 256) 1] [[(255, 255, 1)]] [1; 1; 3].

Example allele_limit_tight :
  geno_domb0 true g_256 = false
  /\ vcf_write g_256 = mkvf [0] [(mkvar 0 0 10 (zrange 0 256) 1, [(None, None, true)])]
  /\ pgen_write_g paccept_std false None g_256 = Err E_Runtime
  /\ geno_domb0 true (mkg [0] [mkvar 0 0 10 (zrange 0 255) 1] [[(254, 254, 1)]] [1; 1; 3]) = true
  /\ exists pf, pgen_write_g paccept_std false None (mkg [0] [mkvar 0 0 10 (zrange 0 255) 1] [[(254, 254, 1)]] [1; 1; 3]) = Ok pf.
Proof. vm_compute. repeat split. eexists; reflexivity. Qed.

(* the position limits are tight: 2^31 - 1 is written to VCF/BCF and refused by PGEN, 2^31 - 2
   is written to both, 2^31 and 0 and 2^32 - 1 are refused by both *)
Definition g_pos (pos : Z) : geno := mkg [0] [mkvar 0 0 pos [0; 1] 1] [[(0, 1, 1)]] [1; 1; 3].

Example position_limits_tight :
  write_guard false (g_pos 2147483647) = None /\ write_guard true (g_pos 2147483647) = Some E_Runtime
  /\ write_guard false (g_pos 2147483646) = None /\ write_guard true (g_pos 2147483646) = None
  /\ write_guard false (g_pos 2147483648) = Some E_Overflow /\ write_guard true (g_pos 2147483648) = Some E_Overflow
  /\ write_guard false (g_pos 0) = Some E_Overflow /\ write_guard false (g_pos 4294967295) = Some E_Overflow
  /\ pos_domb false (g_pos 2147483647) = true /\ pos_domb true (g_pos 2147483647) = false
  /\ pos_domb true (g_pos 2147483646) = true /\ pos_domb false (g_pos 2147483648) = false.
Proof. vm_compute. repeat split. Qed.

(* the hypotheses of the guarded round trips are satisfiable, with the largest index *)
Example wide_hypotheses_satisfiable :
  let g := mkg [0; 1] [mkvar 0 0 2147483646 (zrange 0 255) 1] [[(254, 128, 0); (127, 255, 1)]] [2; 1; 3] in
  geno_domb true g = true /\ pos_domb true g = true /\ pos_domb false g = true
  /\ geno_domb false (mkg [0] [mkvar 0 0 1 (zrange 0 255) 1] [[(254, 128, 0)]] [1; 1; 3]) = true.
Proof. vm_compute. repeat split. Qed.

(* ---- the .pgen agrees with the .pvar on the number of alleles -------------------------- *)

(* the number of alleles a reader of the .pvar rows finds for each variant (REF + the
   comma-separated ALT fields; pgenlib.PvarReader.get_allele_ct) is the number the writer
   declares in allele_cts: len(alleles), at least 2; any number of alleles, 255 included *)
Lemma pvar_cts_agree meta (vs : list (tvariant * list str)) :
  forallb meta_row meta = true -> forallb tvariant_ok (map fst vs) = true ->
  bind (pvar_read_rows (pvar_rows meta vs)) (fun r => Ok (pvar_allele_cts r))
  = Ok (map (fun v => Z.max 2 (lenZ (t_alleles v))) (map fst vs)).
Proof.
  intros Hm Hv. rewrite (pvar_rows_roundtrip meta vs Hm Hv). cbn [bind]. f_equal.
  unfold pvar_allele_cts. apply map_ext_in. intros v Hin.
  rewrite forallb_forall in Hv. specialize (Hv v Hin). apply tvariant_ok_spec in Hv.
  destruct Hv as [_ [_ [_ [_ [_ [Hlen _]]]]]]. lia.
Qed.

(* ---- statements as used in C07_Property ------------------------------------------------ *)

Lemma pos_zero_refused (pgen : bool) (g : geno) (v : variant) :
  In v (g_variants g) -> v_pos v = 0 -> write_guard pgen g = Some E_Overflow.
Proof. intros Hin E. exact (write_refused_overflow pgen g v Hin (pos_zero_not_fits v E)). Qed.

Lemma zrange_spec a n : 0 <= n -> lenZ (zrange a n) = n
  /\ forall i, 0 <= i < n -> nth_error (zrange a n) (Z.to_nat i) = Some (a + i).
Proof. intros Hn. split; [apply zrange_length; exact Hn|intros i Hi; apply zrange_nth; exact Hi]. Qed.

Lemma rle_spec (A : Type) (n : Z) (x : A) (r : list (Z * A)) :
  rle ((n, x) :: r) = repeat x (Z.to_nat n) ++ rle r /\ @rle A [] = [].
Proof. split; [apply rle_cons|reflexivity]. Qed.

Lemma vrun_spec id chrom pos step al rl n : 0 <= n -> lenZ (vrun id chrom pos step al rl n) = n
  /\ forall i, 0 <= i < n ->
       nth_error (vrun id chrom pos step al rl n) (Z.to_nat i) = Some (mkvar (id + i) chrom (pos + step * i) al rl).
Proof. intros Hn. split; [apply vrun_length; exact Hn|intros i Hi; apply vrun_nth; exact Hi]. Qed.

(* ---- the _prephased attribute: what holds demands then, and that the model meets it ------ *)

(* the reader dropped the phase plane: only the alleles can be compared - in order for
   homozygous, missing and phased calls (every call of a 2-plane array is phased), as an
   unordered pair for heterozygous unphased ones *)
Definition allele_equiv (pl : Z) (x y : call) : Prop :=
  let '(a, b, p) := x in
  let '(a', b', _) := y in
  ((a = b \/ pl < 3 \/ p <> 0) -> a' = a /\ b' = b)
  /\ (a <> b -> 3 <= pl -> p = 0 -> (a' = a /\ b' = b) \/ (a' = b /\ b' = a)).

Lemma allele_equivb_spec pl x y : allele_equivb pl x y = true <-> allele_equiv pl x y.
Proof.
  destruct x as [[a b] p], y as [[a' b'] p']. unfold allele_equivb, allele_equiv.
  destruct ((a =? b) || (pl <? 3) || negb (p =? 0)) eqn:E.
  - rewrite !orb_true_iff, Z.eqb_eq, Z.ltb_lt, negb_true_iff, Z.eqb_neq in E.
    rewrite andb_true_iff, !Z.eqb_eq. split.
    + intros [-> ->]. split; [auto|]. intros; left; auto.
    + intros [H _]. apply H. tauto.
  - rewrite !orb_false_iff, Z.eqb_neq, Z.ltb_ge, negb_false_iff, Z.eqb_eq in E.
    destruct E as [[Eab Epl] Ep].
    rewrite orb_true_iff, !andb_true_iff, !Z.eqb_eq. split.
    + intros H. split; [intros [?|[?|?]]; lia|]. intros _ _ _. exact H.
    + intros [_ H]. apply H; assumption.
Qed.

Definition alleles_rel (g g' : geno) : Prop :=
  g_samples g' = g_samples g /\ g_variants g' = g_variants g
  /\ Forall2 (Forall2 (allele_equiv (planes g))) (g_rows g) (g_rows g').

Lemma same_alleles_spec g g' : same_alleles g g' = true <-> alleles_rel g g'.
Proof.
  unfold same_alleles, alleles_rel. rewrite !andb_true_iff.
  rewrite (list_eqb_spec Z.eqb Z.eqb_eq), (list_eqb_spec variant_eqb variant_eqb_spec).
  rewrite list_eqb_Forall2. split.
  - intros [[-> ->] H]. repeat split.
    eapply Forall2_impl'; [|exact H]. intros a b Hab. apply list_eqb_Forall2 in Hab.
    eapply Forall2_impl'; [|exact Hab]. intros x y. apply allele_equivb_spec.
  - intros [-> [-> H]]. repeat split.
    eapply Forall2_impl'; [|exact H]. intros a b Hab. apply list_eqb_Forall2.
    eapply Forall2_impl'; [|exact Hab]. intros x y. apply allele_equivb_spec.
Qed.

(* what [same_back] demands, as a Prop, for every setting of the two attributes *)
Definition back_rel (wpre rpre : bool) (g g' : geno) : Prop :=
  if rpre then alleles_rel (written wpre g) g' else rt_rel (written wpre g) g'.

Lemma same_back_spec wpre rpre g g' : same_back wpre rpre g g' = true <-> back_rel wpre rpre g g'.
Proof. unfold same_back, back_rel. destruct rpre; [apply same_alleles_spec|apply same_geno_spec]. Qed.

(* soundness of holds for every setting of _prephased on the writing and the reading object *)
Lemma holds_pgen_sound_pre k :
  holds_pgen k = true ->
  geno_domb false (pc_g k) = true -> pos_domb true (pc_g k) = true ->
  chunk_dom (pc_cw k) -> chunk_dom (pc_cr k) -> g_variants (pc_g k) <> [] ->
  exists g', pc_back k = Ok g' /\ back_rel (pc_wpre k) (pc_rpre k) (pc_g k) g'.
Proof.
  unfold holds_pgen. intros H Hd Hpos Hw Hr Hv.
  rewrite (geno_domb_domb0 _ _ Hd), Hpos, (proj2 (chunk_domb_spec _) Hw), (proj2 (chunk_domb_spec _) Hr) in H.
  rewrite (geno_domb_samples _ _ Hd), (no_half_domain _ Hd) in H. cbn [andb] in H.
  unfold is_empty_geno in H. rewrite (geno_domb_samples _ _ Hd) in H. cbn [orb] in H.
  destruct (pc_back k) as [g'|]; [|discriminate].
  exists g'. split; [reflexivity|].
  destruct (lenZ (g_variants (pc_g k)) =? 0) eqn:Ep; [apply Z.eqb_eq, lenZ_0_nil in Ep; congruence|].
  apply same_back_spec. exact H.
Qed.

Lemma holds_vcf_sound_pre k :
  holds_vcf k = true -> geno_domb0 true (vc_g k) = true -> pos_domb false (vc_g k) = true ->
  g_samples (vc_g k) <> [] -> g_variants (vc_g k) <> [] ->
  exists g', vc_back k = Ok g' /\ back_rel (vc_wpre k) (vc_rpre k) (vc_g k) g'.
Proof.
  unfold holds_vcf. intros H Hd Hpos Hs Hv. rewrite Hd, Hpos in H. cbn [andb] in H.
  destruct (vc_back k) as [g'|]; [|discriminate].
  exists g'. split; [reflexivity|]. unfold is_empty_geno in H.
  destruct (lenZ (g_samples (vc_g k)) =? 0) eqn:En; [apply Z.eqb_eq, lenZ_0_nil in En; congruence|].
  destruct (lenZ (g_variants (vc_g k)) =? 0) eqn:Ep; [apply Z.eqb_eq, lenZ_0_nil in Ep; congruence|].
  cbn [orb] in H. apply same_back_spec. exact H.
Qed.

(* the model meets that demand.  Writer: as_prephased changes nothing the domain looks at *)
Lemma as_prephased_domain half g : geno_domb half (as_prephased g) = geno_domb half g.
Proof. reflexivity. Qed.

Lemma as_prephased_pos pgen g : pos_domb pgen (as_prephased g) = pos_domb pgen g.
Proof. reflexivity. Qed.

(* Reader: dropping the phase plane of an object that satisfies the round-trip relation
   leaves one that satisfies the relation on alleles *)
Lemma call_equiv_allele pl x y :
  call_equiv pl x y -> allele_equiv pl x (let '(a, b, _) := y in (a, b, 1)).
Proof.
  destruct x as [[a b] p], y as [[a' b'] p']. unfold call_equiv, allele_equiv.
  intros [H1 [H2 H3]]. split.
  - intros H. destruct (Z.eq_dec a b) as [E|N]; [exact (H1 E)|].
    destruct H as [E|H]; [congruence|]. destruct (H2 N H) as [? [? _]]. auto.
  - intros N Hpl Hp. destruct (H3 N Hpl Hp) as [_ H]. exact H.
Qed.

Lemma drop_phase_alleles g g' : rt_rel g g' -> alleles_rel g (drop_phase g').
Proof.
  unfold rt_rel, alleles_rel, drop_phase. cbn [g_samples g_variants g_rows].
  intros [Hs [Hv Hr]]. split; [exact Hs|]. split; [exact Hv|].
  induction Hr as [|r r' l l' Hrr Hll IH]; [constructor|].
  cbn [map]. constructor; [|exact IH].
  clear -Hrr. induction Hrr as [|x y t t' Hxy Htt IH]; [constructor|].
  cbn [map]. constructor; [apply call_equiv_allele; exact Hxy|exact IH].
Qed.

(* so: for every setting of the two attributes the PGEN round trip of the model satisfies
   what holds demands *)
Lemma pgen_roundtrip_pre paccept pload g cw cr wpre rpre :
  paccept_complete paccept -> pload_contract pload ->
  geno_domb false g = true -> pos_domb true g = true -> chunk_dom cw -> chunk_dom cr ->
  exists g', pgen_roundtrip_g paccept pload false cw cr (written wpre g) = Ok g'
    /\ back_rel wpre rpre g (as_read rpre g').
Proof.
  intros Hcomp Hc Hd Hp Hw Hr.
  assert (Hd' : geno_domb false (written wpre g) = true) by (destruct wpre; exact Hd).
  assert (Hp' : pos_domb true (written wpre g) = true) by (destruct wpre; exact Hp).
  destruct (pgen_roundtrip_g_spec paccept pload (written wpre g) cw cr Hcomp Hc Hd' Hp' Hw Hr) as [g' [E R]].
  exists g'. split; [exact E|]. unfold back_rel, as_read. destruct rpre; [apply drop_phase_alleles|]; exact R.
Qed.

Lemma vcf_roundtrip_pre vload hts g fmt idx wpre rpre :
  vload_contract vload -> hts_iter_contract hts ->
  geno_domb true g = true -> pos_domb false g = true -> 1 <= lenZ (g_variants g) ->
  exists g', vcf_roundtrip_g vload hts false false fmt idx (written wpre g) = Ok g'
    /\ back_rel wpre rpre g (as_read rpre g').
Proof.
  intros Hv Hh Hd Hp Hn.
  assert (Hd' : geno_domb true (written wpre g) = true) by (destruct wpre; exact Hd).
  assert (Hp' : pos_domb false (written wpre g) = true) by (destruct wpre; exact Hp).
  assert (Hn' : 1 <= lenZ (g_variants (written wpre g))) by (destruct wpre; exact Hn).
  destruct (vcf_roundtrip_g_spec vload hts (written wpre g) fmt idx Hv Hh Hd' Hp' Hn') as [_ [g' [E R]]].
  exists g'. split; [exact E|]. unfold back_rel, as_read. destruct rpre; [apply drop_phase_alleles|]; exact R.
Qed.

(* ---- pgenlib's contract as checked on the calls read directly: what the check means ------ *)

Definition pload_rel (s l : scall) : Prop :=
  let '(x, y, f) := s in let '(a, b, f') := l in
  (x = y -> a = x /\ b = y)
  /\ (x <> y -> f <> 0 -> a = x /\ b = y /\ f' <> 0)
  /\ (x <> y -> f = 0 -> f' = 0 /\ ((a = x /\ b = y) \/ (a = y /\ b = x))).

Lemma pload_okb_sound s l : pload_okb s l = true <-> pload_rel s l.
Proof.
  destruct s as [[x y] f], l as [[a b] f']. unfold pload_okb, pload_rel.
  destruct (x =? y) eqn:Exy.
  - apply Z.eqb_eq in Exy. rewrite andb_true_iff, !Z.eqb_eq. split.
    + intros [? ?]. repeat split; intros; try lia.
    + intros [H _]. apply H. exact Exy.
  - apply Z.eqb_neq in Exy. destruct (f =? 0) eqn:Ef; cbn [negb].
    + apply Z.eqb_eq in Ef. rewrite !andb_true_iff, orb_true_iff, !andb_true_iff, !Z.eqb_eq. split.
      * intros [? ?]. repeat split; intros; try lia; tauto.
      * intros [_ [_ H]]. apply H; assumption.
    + apply Z.eqb_neq in Ef. rewrite !andb_true_iff, !Z.eqb_eq, negb_true_iff, Z.eqb_neq. split.
      * intros [[? ?] ?]. repeat split; intros; try lia.
      * intros [_ [H _]]. specialize (H Exy Ef). tauto.
Qed.
