(* C07 - property theorems only (statements over the model in C07_Model; the
   libraries are universally quantified functions constrained by the contracts
   pload_contract / vload_contract of C07_Proofs). *)
From HV Require Import Prelude C07_Model C07_Check C07_Proofs.

(* the chunk loop "for start in range(0, len(l), c): l[start:start+c]" visits
   every element exactly once, in order, for every list and every c >= 1 *)
Theorem C07_chunks_concat :
  forall (A : Type) (c : nat) (l : list A), (1 <= c)%nat -> concat (chunks c l) = l.
Proof. exact (@chunks_concat). Qed.
Print Assumptions C07_chunks_concat.

(* core: what is written and then read does not depend on the chunk sizes:
   for every matrix (any p, p = 0 included), every library behaviour, every write
   chunk and read chunk >= 1 or None, the result is the chunk-free closed form *)
Theorem C07_chunking_irrelevant :
  forall (pload : scall -> scall) (g : geno) (cw cr : option Z),
  chunk_dom cw -> chunk_dom cr ->
  pgen_roundtrip_model pload false cw cr g = pgen_rt_closed pload g.
Proof. exact chunking_irrelevant. Qed.
Print Assumptions C07_chunking_irrelevant.

Theorem C07_chunking_irrelevant_pairwise :
  forall (pload : scall -> scall) (g : geno) (cw cr cw' cr' : option Z),
  chunk_dom cw -> chunk_dom cr -> chunk_dom cw' -> chunk_dom cr' ->
  pgen_roundtrip_model pload false cw cr g = pgen_roundtrip_model pload false cw' cr' g.
Proof. exact chunking_irrelevant2. Qed.
Print Assumptions C07_chunking_irrelevant_pairwise.

(* the batches themselves are the unchunked per-variant rows, cut *)
Theorem C07_batches_are_rows :
  forall (legacy : bool) (c : nat) (g : geno), (1 <= c)%nat ->
  concat (map b_codes (pgen_batches legacy c g)) = map v_codes (vrows g)
  /\ concat (map b_cts (pgen_batches legacy c g)) = map (v_ct legacy) (vrows g)
  /\ concat (map batch_rows (pgen_batches legacy c g)) = map (v_stored (planes g)) (vrows g).
Proof. exact batches_are_rows. Qed.
Print Assumptions C07_batches_are_rows.

(* the read loop alone, for every selection (the empty one included: no range(0,0,0)) *)
Theorem C07_read_chunking_irrelevant :
  forall (pload : scall -> scall) (cr : option Z) (sel : list (list scall)),
  chunk_dom cr ->
  pgen_load_chunks pload false cr sel = Ok (map (map (load_call pload)) sel).
Proof. exact load_chunks_irrelevant. Qed.
Print Assumptions C07_read_chunking_irrelevant.

(* core: writer precondition.  For every matrix of the property's domain the
   fixed writer is accepted by pgenlib: every batch declares allele counts within
   allele_ct_limit and every code is below its variant's count *)
Theorem C07_pgen_allele_ct_ok :
  forall (g : geno) (cw : option Z),
  geno_domb false g = true -> chunk_dom cw ->
  exists pf, pgen_write false cw g = Ok pf
    /\ forallb (batch_ok (pf_limit pf)) (pf_batches pf) = true
    /\ pf_samples pf = g_samples g.
Proof. exact pgen_allele_ct_ok. Qed.
Print Assumptions C07_pgen_allele_ct_ok.

Theorem C07_legacy_allele_cts_refuted_missing :
  geno_domb false g_missing_biallelic = true
  /\ pgen_write true None g_missing_biallelic = Err E_Runtime
  /\ exists pf, pgen_write false None g_missing_biallelic = Ok pf.
Proof. exact legacy_allele_cts_refuted_missing. Qed.
Print Assumptions C07_legacy_allele_cts_refuted_missing.

Theorem C07_legacy_allele_cts_refuted_gap :
  geno_domb false g_unobserved_allele = true
  /\ pgen_write true None g_unobserved_allele = Err E_Runtime
  /\ exists pf, pgen_write false None g_unobserved_allele = Ok pf.
Proof. exact legacy_allele_cts_refuted_gap. Qed.
Print Assumptions C07_legacy_allele_cts_refuted_gap.

(* extended: PGEN round trip, for every pgenlib meeting the contract *)
Theorem C07_pgen_roundtrip :
  forall (pload : scall -> scall) (g : geno) (cw cr : option Z),
  pload_contract pload -> geno_domb false g = true -> chunk_dom cw -> chunk_dom cr ->
  exists g', pgen_roundtrip_model pload false cw cr g = Ok g' /\ rt_rel g g'.
Proof. exact pgen_roundtrip. Qed.
Print Assumptions C07_pgen_roundtrip.

(* extended: VCF/BCF round trip, for every pysam/cyvcf2 meeting the contract,
   with or without an index *)
Theorem C07_vcf_roundtrip :
  forall (vload : vcall -> Z * Z * Z) (g : geno) (indexed : bool),
  vload_contract vload -> geno_domb true g = true -> 1 <= lenZ (g_variants g) ->
  vcf_roundtrip_model vload false indexed g
  = mkg (g_samples g) (g_variants g) (map (map (norm_call (planes g))) (g_rows g))
        [lenZ (g_samples g); lenZ (g_variants g); 3]
  /\ rt_rel g (vcf_roundtrip_model vload false indexed g).
Proof. exact vcf_roundtrip. Qed.
Print Assumptions C07_vcf_roundtrip.

Theorem C07_empty_roundtrip :
  forall (pload : scall -> scall) (vload : vcall -> Z * Z * Z) (samples : list Z) (k : Z)
         (cw cr : option Z) (legacy indexed : bool),
  let g := mkg samples [] [] [lenZ samples; 0; k] in
  pgen_roundtrip_model pload legacy cw cr g = Ok (mkg samples [] [] [lenZ samples; 0; 3])
  /\ vcf_roundtrip_model vload legacy indexed g = mkg samples [] [] [0; 0; 0].
Proof. exact empty_roundtrip. Qed.
Print Assumptions C07_empty_roundtrip.

Theorem C07_legacy_unindexed_refuted :
  geno_domb true g_one = true
  /\ vcf_roundtrip_model vload_std true false g_one = mkg [0] [] [] [0; 0; 0]
  /\ same_geno g_one (vcf_roundtrip_model vload_std true false g_one) = false
  /\ same_geno g_one (vcf_roundtrip_model vload_std true true g_one) = true
  /\ same_geno g_one (vcf_roundtrip_model vload_std false false g_one) = true.
Proof. exact legacy_unindexed_refuted. Qed.
Print Assumptions C07_legacy_unindexed_refuted.

(* the boolean checkers evaluated on the implementation's output mean what the
   property says *)
Theorem C07_same_geno_spec :
  forall g g', same_geno g g' = true <-> rt_rel g g'.
Proof. exact same_geno_spec. Qed.
Print Assumptions C07_same_geno_spec.

Theorem C07_holds_pgen_sound :
  forall k, holds_pgen k = true ->
  geno_domb (pc_strict_half k) (pc_g k) = true -> chunk_dom (pc_cw k) -> chunk_dom (pc_cr k) ->
  pc_wpre k = false -> pc_rpre k = false ->
  exists g', pc_back k = Ok g' /\ rt_rel (pc_g k) g'.
Proof. exact holds_pgen_sound. Qed.
Print Assumptions C07_holds_pgen_sound.

Theorem C07_holds_vcf_sound :
  forall k, holds_vcf k = true -> geno_domb true (vc_g k) = true ->
  vc_wpre k = false -> vc_rpre k = false ->
  exists g', vc_back k = Ok g' /\ rt_rel (vc_g k) g'.
Proof. exact holds_vcf_sound. Qed.
Print Assumptions C07_holds_vcf_sound.

(* the contracts and domains are satisfiable (by the library behaviour the
   correspondence run observes) *)
Theorem C07_hypotheses_satisfiable :
  pload_contract pload_std /\ vload_contract vload_std
  /\ geno_domb false g_unobserved_allele = true /\ geno_domb true g_one = true
  /\ chunk_dom None /\ chunk_dom (Some 1).
Proof. exact roundtrip_hypotheses_satisfiable. Qed.
Print Assumptions C07_hypotheses_satisfiable.
