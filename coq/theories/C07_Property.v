(* C07 - property theorems only (statements over the model in C07_Model / C07_Files; the
   libraries are universally quantified functions constrained by the contracts
   paccept_complete / paccept_sound / pload_contract / vload_contract / hts_iter_contract /
   hts_region_contract of C07_Proofs). *)
From HV Require Import Prelude BpText C07_Text C07_Files C07_Model C07_Check C07_ProofsText C07_Proofs C07_ProofsWide C07_Hist C07_ProofsHist.

(* the chunk loop "for start in range(0, len(l), c): l[start:start+c]" visits
   every element exactly once, in order, for every list and every c >= 1 *)
Theorem C07_chunks_concat :
  forall (A : Type) (c : nat) (l : list A), (1 <= c)%nat -> concat (chunks c l) = l.
Proof. exact (@chunks_concat). Qed.
Print Assumptions C07_chunks_concat.

(* core: what is written and then read does not depend on the chunk sizes:
   for every matrix (any shape, 0 samples or 0 variants included; legal calls or not), every
   pgenlib that accepts exactly the batches meeting its precondition, every write chunk and
   read chunk >= 1 or None, the result is the chunk-free closed form *)
Theorem C07_chunking_irrelevant :
  forall (paccept : Z -> batch -> bool) (pload : scall -> scall) (g : geno) (cw cr : option Z),
  paccept_complete paccept -> paccept_sound paccept -> chunk_dom cw -> chunk_dom cr ->
  pgen_roundtrip_model paccept pload false cw cr g = pgen_rt_closed pload g.
Proof. exact chunking_irrelevant. Qed.
Print Assumptions C07_chunking_irrelevant.

Theorem C07_chunking_irrelevant_pairwise :
  forall (paccept : Z -> batch -> bool) (pload : scall -> scall) (g : geno) (cw cr cw' cr' : option Z),
  paccept_complete paccept -> paccept_sound paccept ->
  chunk_dom cw -> chunk_dom cr -> chunk_dom cw' -> chunk_dom cr' ->
  pgen_roundtrip_model paccept pload false cw cr g = pgen_roundtrip_model paccept pload false cw' cr' g.
Proof. exact chunking_irrelevant2. Qed.
Print Assumptions C07_chunking_irrelevant_pairwise.

(* the batches themselves are the unchunked per-variant rows, cut *)
Theorem C07_batches_are_rows :
  forall (legacy : bool) (c : nat) (g : geno), (1 <= c)%nat ->
  concat (map b_codes (pgen_batches legacy c g)) = map v_codes (vrows g)
  /\ concat (map b_cts (pgen_batches legacy c g)) = map (v_ct legacy) (vrows g)
  /\ concat (map batch_rows (pgen_batches legacy c g)) = map (v_stored (planes g)) (vrows g).
Proof. exact batches_are_rows. Qed.
Print Assumptions C07_batches_are_rows.

(* the read loop alone, for every selection (the empty one included: no range(0,0,0)) *)
Theorem C07_read_chunking_irrelevant :
  forall (pload : scall -> scall) (cr : option Z) (sel : list (list scall)),
  chunk_dom cr ->
  pgen_load_chunks pload false cr sel = Ok (map (map (load_call pload)) sel).
Proof. exact load_chunks_irrelevant. Qed.
Print Assumptions C07_read_chunking_irrelevant.

(* core: writer precondition.  For every matrix of the property's domain the
   fixed writer is accepted by every pgenlib that accepts what meets its precondition:
   every batch declares allele counts within allele_ct_limit and every code is below its
   variant's count *)
Theorem C07_pgen_allele_ct_ok :
  forall (paccept : Z -> batch -> bool) (g : geno) (cw : option Z),
  paccept_complete paccept -> geno_domb false g = true -> chunk_dom cw ->
  exists pf, pgen_write paccept false cw g = Ok pf
    /\ forallb (batch_ok (pf_limit pf)) (pf_batches pf) = true
    /\ pf_samples pf = g_samples g.
Proof. exact pgen_allele_ct_ok. Qed.
Print Assumptions C07_pgen_allele_ct_ok.

Theorem C07_legacy_allele_cts_refuted_missing :
  geno_domb false g_missing_biallelic = true
  /\ pgen_write paccept_std true None g_missing_biallelic = Err E_Runtime
  /\ exists pf, pgen_write paccept_std false None g_missing_biallelic = Ok pf.
Proof. exact legacy_allele_cts_refuted_missing. Qed.
Print Assumptions C07_legacy_allele_cts_refuted_missing.

Theorem C07_legacy_allele_cts_refuted_gap :
  geno_domb false g_unobserved_allele = true
  /\ pgen_write paccept_std true None g_unobserved_allele = Err E_Runtime
  /\ exists pf, pgen_write paccept_std false None g_unobserved_allele = Ok pf.
Proof. exact legacy_allele_cts_refuted_gap. Qed.
Print Assumptions C07_legacy_allele_cts_refuted_gap.

(* extended: PGEN round trip, for every pgenlib meeting the contracts (only the "complete"
   clause of the acceptance rule is needed) *)
Theorem C07_pgen_roundtrip :
  forall (paccept : Z -> batch -> bool) (pload : scall -> scall) (g : geno) (cw cr : option Z),
  paccept_complete paccept -> pload_contract pload ->
  geno_domb false g = true -> chunk_dom cw -> chunk_dom cr ->
  exists g', pgen_roundtrip_model paccept pload false cw cr g = Ok g' /\ rt_rel g g'.
Proof. exact pgen_roundtrip. Qed.
Print Assumptions C07_pgen_roundtrip.

(* a call missing in one allele only cannot be handed to pgenlib: for every pgenlib that
   rejects what violates its precondition the write fails (RuntimeError), whatever the chunk
   size - PGEN is outside the round-trip demand for such matrices *)
Theorem C07_pgen_half_missing_refused :
  forall (paccept : Z -> batch -> bool) (g : geno) (cw : option Z),
  paccept_sound paccept -> geno_domb0 true g = true -> has_half g = true ->
  g_samples g <> [] -> chunk_dom cw ->
  pgen_write paccept false cw g = Err E_Runtime.
Proof. exact pgen_half_missing_refused. Qed.
Print Assumptions C07_pgen_half_missing_refused.

(* extended: VCF/BCF round trip, for every pysam/cyvcf2/htslib meeting the contracts,
   every format, with or without an index *)
Theorem C07_vcf_roundtrip :
  forall (vload : vcall -> Z * Z * Z) (hts : htslib) (g : geno) (fmt : vfmt) (idx : vidx),
  vload_contract vload -> hts_iter_contract hts ->
  geno_domb true g = true -> 1 <= lenZ (g_variants g) ->
  vcf_roundtrip_model vload hts false false fmt idx g
  = Ok (mkg (g_samples g) (g_variants g) (map (map (norm_call (planes g))) (g_rows g))
            [lenZ (g_samples g); lenZ (g_variants g); 3])
  /\ exists g', vcf_roundtrip_model vload hts false false fmt idx g = Ok g' /\ rt_rel g g'.
Proof. exact vcf_roundtrip. Qed.
Print Assumptions C07_vcf_roundtrip.

(* "for VCF it does not depend on compression or on the presence of an index when no
   region is requested": for every matrix whatsoever and every htslib whose plain
   iteration needs no index *)
Theorem C07_vcf_format_index_irrelevant :
  forall (vload : vcall -> Z * Z * Z) (hts : htslib) (legacy0 : bool) (g : geno)
         (fmt : vfmt) (idx : vidx) (fmt' : vfmt) (idx' : vidx),
  hts_iter_contract hts ->
  vcf_roundtrip_model vload hts false legacy0 fmt idx g = vcf_roundtrip_model vload hts false legacy0 fmt' idx' g.
Proof. exact vcf_format_index_irrelevant. Qed.
Print Assumptions C07_vcf_format_index_irrelevant.

Theorem C07_vcf_read_content :
  forall (vload : vcall -> Z * Z * Z) (hts : htslib) (legacy0 : bool) (d d' : vdisk),
  hts_iter_contract hts -> vd_file d = vd_file d' ->
  vcf_read vload hts false legacy0 None d = vcf_read vload hts false legacy0 None d'.
Proof. exact vcf_read_content. Qed.
Print Assumptions C07_vcf_read_content.

(* ... whereas a region is served only with an index *)
Theorem C07_vcf_region_needs_index :
  forall (vload : vcall -> Z * Z * Z) (hts : htslib) (legacy legacy0 : bool) (d : vdisk) (c : Z),
  hts_region_contract hts -> is_indexed d = false ->
  vcf_read vload hts legacy legacy0 (Some c) d = Err E_Assert.
Proof. exact vcf_region_needs_index. Qed.
Print Assumptions C07_vcf_region_needs_index.

(* "an empty matrix round-trips to an empty matrix", shape by shape.
   PGEN, no variants (n >= 0 samples): the samples come back with an array (n, 0, 3) *)
Theorem C07_pgen_empty_roundtrip :
  forall (paccept : Z -> batch -> bool) (pload : scall -> scall) (g : geno) (cw cr : option Z) (legacy : bool),
  g_variants g = [] ->
  pgen_roundtrip_model paccept pload legacy cw cr g = Ok (mkg (g_samples g) [] [] [lenZ (g_samples g); 0; 3])
  /\ empty_rel g (mkg (g_samples g) [] [] [lenZ (g_samples g); 0; 3]).
Proof. exact pgen_empty_roundtrip. Qed.
Print Assumptions C07_pgen_empty_roundtrip.

(* PGEN, variants without samples: refused with ValueError (the format cannot hold them) *)
Theorem C07_pgen_nosamples_refused :
  forall (paccept : Z -> batch -> bool) (g : geno) (cw : option Z),
  g_samples g = [] -> g_variants g <> [] -> pgen_write paccept false cw g = Err E_Value.
Proof. exact pgen_nosamples_refused. Qed.
Print Assumptions C07_pgen_nosamples_refused.

(* VCF/BCF, no samples or no variants (or neither): samples and variants come back, the
   array has no entry; every format, with or without index *)
Theorem C07_vcf_empty_roundtrip :
  forall (vload : vcall -> Z * Z * Z) (hts : htslib) (g : geno) (fmt : vfmt) (idx : vidx),
  hts_iter_contract hts -> lenZ (g_rows g) = lenZ (g_variants g) ->
  g_samples g = [] \/ g_variants g = [] ->
  vcf_roundtrip_model vload hts false false fmt idx g = Ok (mkg (g_samples g) (g_variants g) [] [0; 0; 0])
  /\ empty_rel g (mkg (g_samples g) (g_variants g) [] [0; 0; 0]).
Proof. exact vcf_empty_roundtrip. Qed.
Print Assumptions C07_vcf_empty_roundtrip.

Theorem C07_legacy_unindexed_refuted :
  geno_domb true g_one = true
  /\ vcf_roundtrip_model vload_std hts_std true false F_vcf I_none g_one = Ok (mkg [0] [] [] [0; 0; 0])
  /\ (forall g', vcf_roundtrip_model vload_std hts_std true false F_bcf I_none g_one = Ok g' -> same_geno g_one g' = false)
  /\ (exists g', vcf_roundtrip_model vload_std hts_std true false F_vcfgz I_tbi g_one = Ok g' /\ same_geno g_one g' = true)
  /\ (exists g', vcf_roundtrip_model vload_std hts_std false false F_vcf I_none g_one = Ok g' /\ same_geno g_one g' = true).
Proof. exact legacy_unindexed_refuted. Qed.
Print Assumptions C07_legacy_unindexed_refuted.

Theorem C07_legacy_nosamples_refuted :
  geno_domb0 true g_nosamples = true
  /\ pgen_write paccept_std true None g_nosamples = Err E_Crash
  /\ pgen_write paccept_std false None g_nosamples = Err E_Value
  /\ vcf_roundtrip_model vload_std hts_std false true F_vcf I_none g_nosamples = Err E_Attribute
  /\ vcf_roundtrip_model vload_std hts_std false false F_vcf I_none g_nosamples
     = Ok (mkg [] [mkvar 0 0 28 [0; 1] 1] [] [0; 0; 0]).
Proof. exact legacy_nosamples_refuted. Qed.
Print Assumptions C07_legacy_nosamples_refuted.

(* ---- the names as text: samples, variant IDs, chromosomes, positions, alleles --------- *)

Theorem C07_split_join :
  forall (sep : Z) (toks : list str),
  toks <> [] -> forallb (nosep sep) toks = true -> split sep (join sep toks) = toks.
Proof. exact split_join. Qed.
Print Assumptions C07_split_join.

Theorem C07_undec_dec : forall n : Z, 0 <= n -> undec (dec n) = Some n.
Proof. exact undec_dec. Qed.
Print Assumptions C07_undec_dec.

(* write_samples then read_samples give back every list of sample names: any number (none
   included), any length, any characters but tab and the line terminators - digits only,
   "#" inside or in front, a sample called IID or #IID, ... *)
Theorem C07_psam_roundtrip :
  forall samples : list str,
  forallb token_ok samples = true -> psam_read false (psam_text samples) = Ok samples.
Proof. exact psam_roundtrip. Qed.
Print Assumptions C07_psam_roundtrip.

(* the reader of the pinned tree (csv's default dialect) needed one more hypothesis: no name
   begins with a double quote *)
Theorem C07_psam_roundtrip_legacy :
  forall samples : list str,
  forallb token_ok samples = true -> existsb (first_char_is c_quote) samples = false ->
  psam_read true (psam_text samples) = Ok samples.
Proof. exact psam_roundtrip_legacy. Qed.
Print Assumptions C07_psam_roundtrip_legacy.

(* the columns read_variants picks from the rows of the .pvar give back every variant: ID
   (up to 50 characters), contig (up to 10), position (below 2^32), the allele list (two or
   more alleles without a comma) *)
Theorem C07_pvar_rows_roundtrip :
  forall (meta : list (list str)) (vs : list (tvariant * list str)),
  forallb meta_row meta = true -> forallb tvariant_ok (map fst vs) = true ->
  pvar_read_rows (pvar_rows meta vs) = Ok (map fst vs).
Proof. exact pvar_rows_roundtrip. Qed.
Print Assumptions C07_pvar_rows_roundtrip.

Theorem C07_pvar_roundtrip :
  forall (meta : list (list str)) (vs : list (tvariant * list str)),
  forallb meta_row meta = true -> forallb (forallb token_ok) meta = true ->
  forallb tvariant_ok (map fst vs) = true -> forallb (forallb token_ok) (map snd vs) = true ->
  pvar_read false (rows_text (pvar_rows meta vs)) = Ok (map fst vs).
Proof. exact pvar_roundtrip. Qed.
Print Assumptions C07_pvar_roundtrip.

Theorem C07_gt_token_roundtrip :
  forall c : C07_Files.vcall, vcall_ok c = true -> parse_gt (gt_token c) = Some c.
Proof. exact parse_gt_token. Qed.
Print Assumptions C07_gt_token_roundtrip.

(* the lines of a .vcf / .vcf.gz: samples of the header, CHROM POS ID REF ALT and every GT *)
Theorem C07_vcf_rows_roundtrip :
  forall (meta tails : list (list str)) (f : tvfile),
  forallb meta_row meta = true -> length tails = length (tf_recs f) ->
  forallb (fun t => (length t =? 3)%nat) tails = true -> tvfile_ok f = true ->
  vcf_parse_rows (vcf_rows meta tails f) = Ok f.
Proof. exact vcf_rows_roundtrip. Qed.
Print Assumptions C07_vcf_rows_roundtrip.

Theorem C07_vcf_text_roundtrip :
  forall (meta tails : list (list str)) (f : tvfile),
  forallb meta_row meta = true -> forallb (forallb token_ok) meta = true ->
  length tails = length (tf_recs f) -> forallb (fun t => (length t =? 3)%nat) tails = true ->
  forallb (forallb token_ok) tails = true -> tvfile_ok f = true ->
  vcf_parse (rows_text (vcf_rows meta tails f)) = Ok f.
Proof. exact vcf_text_roundtrip. Qed.
Print Assumptions C07_vcf_text_roundtrip.

Theorem C07_cut_variant_id : forall v : tvariant, tvariant_ok v = true -> cut_variant v = v.
Proof. exact cut_variant_id. Qed.
Print Assumptions C07_cut_variant_id.

Theorem C07_text_hypotheses_satisfiable :
  forallb token_ok [[49; 50; 51]; [95]; [97; 46; 98]; [97; 35; 98]; s_IID; s_hIID; [34; 113]] = true
  /\ tvariant_ok (mktv [114; 115; 49; 59; 120] [99; 104; 114; 49] 2147483646 [[65]; [65; 67]; [42]]) = true
  /\ vcall_ok (Some 2, None, false) = true.
Proof. exact text_hypotheses_satisfiable. Qed.
Print Assumptions C07_text_hypotheses_satisfiable.

(* ---- the boolean checkers evaluated on the implementation's output mean what the
   property says ------------------------------------------------------------------------- *)

Theorem C07_same_geno_spec :
  forall g g', same_geno g g' = true <-> rt_rel g g'.
Proof. exact same_geno_spec. Qed.
Print Assumptions C07_same_geno_spec.

Theorem C07_empty_back_spec :
  forall g g', empty_back g g' = true <-> empty_rel g g'.
Proof. exact empty_back_spec. Qed.
Print Assumptions C07_empty_back_spec.

Theorem C07_holds_pgen_sound :
  forall k, holds_pgen k = true ->
  geno_domb false (pc_g k) = true -> pos_domb true (pc_g k) = true ->
  chunk_dom (pc_cw k) -> chunk_dom (pc_cr k) ->
  pc_wpre k = false -> pc_rpre k = false ->
  exists g', pc_back k = Ok g'
    /\ (g_variants (pc_g k) <> [] -> rt_rel (pc_g k) g')
    /\ (g_variants (pc_g k) = [] -> empty_rel (pc_g k) g').
Proof. exact holds_pgen_sound. Qed.
Print Assumptions C07_holds_pgen_sound.

Theorem C07_holds_pgen_sound_nosamples :
  forall k, holds_pgen k = true -> geno_domb0 true (pc_g k) = true -> pos_domb true (pc_g k) = true ->
  chunk_dom (pc_cw k) -> chunk_dom (pc_cr k) ->
  g_samples (pc_g k) = [] -> g_variants (pc_g k) <> [] ->
  match pc_back k with
  | Ok g' => empty_rel (pc_g k) g'
  | Err e => e <> E_Crash /\ e <> 12
  end.
Proof. exact holds_pgen_sound_nosamples. Qed.
Print Assumptions C07_holds_pgen_sound_nosamples.

Theorem C07_holds_vcf_sound :
  forall k, holds_vcf k = true -> geno_domb0 true (vc_g k) = true -> pos_domb false (vc_g k) = true ->
  vc_wpre k = false -> vc_rpre k = false ->
  exists g', vc_back k = Ok g'
    /\ (g_samples (vc_g k) <> [] -> g_variants (vc_g k) <> [] -> rt_rel (vc_g k) g')
    /\ (g_samples (vc_g k) = [] \/ g_variants (vc_g k) = [] -> empty_rel (vc_g k) g').
Proof. exact holds_vcf_sound. Qed.
Print Assumptions C07_holds_vcf_sound.

Theorem C07_holds_text_sound :
  forall k, holds_text k = true ->
  forallb token_ok (tf_samples (tc_file k)) = true ->
  forallb (fun r => tvariant_ok (fst r)) (tf_recs (tc_file k)) = true ->
  exists b, tc_back k = Ok b /\ tb_samples b = tf_samples (tc_file k)
            /\ tb_variants b = map fst (tf_recs (tc_file k)).
Proof. exact holds_text_sound. Qed.
Print Assumptions C07_holds_text_sound.

(* the check of pgenlib's contract on the calls read directly from the file is implied by
   the contract *)
Theorem C07_pload_okb_spec :
  forall (pload : scall -> scall) (s : scall), pload_contract pload ->
  (let '(x, y, _) := s in (x = -9 /\ y = -9) \/ (0 <= x /\ 0 <= y)) -> pload_okb s (pload s) = true.
Proof. exact pload_okb_spec. Qed.
Print Assumptions C07_pload_okb_spec.

(* the contracts and domains are satisfiable (by the library behaviour the
   correspondence run observes) *)
Theorem C07_hypotheses_satisfiable :
  paccept_complete paccept_std /\ paccept_sound paccept_std
  /\ pload_contract pload_std /\ vload_contract vload_std
  /\ hts_iter_contract hts_std /\ hts_region_contract hts_std
  /\ geno_domb false g_unobserved_allele = true /\ geno_domb true g_one = true
  /\ chunk_dom None /\ chunk_dom (Some 1).
Proof. exact roundtrip_hypotheses_satisfiable. Qed.
Print Assumptions C07_hypotheses_satisfiable.

(* ---- widths: the whole range of allele indices, the positions, what is refused --------- *)

(* every allele index of the domain - 0 up to 254 for a variant with 255 alleles - that is not
   the missing value is handed to pgenlib and to pysam as itself ... *)
Theorem C07_index_written :
  forall na a, allele_domb na a = true -> na <= 255 -> a <> 255 ->
  code_of a = a /\ gt_of a = Some a /\ 0 <= a < 255.
Proof. exact index_written. Qed.
Print Assumptions C07_index_written.

(* ... and every index, the missing value included, comes back from both codecs *)
Theorem C07_index_decodes :
  forall na a, allele_domb na a = true -> na <= 255 ->
  cast8 (m9 (code_of a)) = a /\ cast8 (oz (gt_of a)) = a.
Proof. exact index_decodes. Qed.
Print Assumptions C07_index_decodes.

(* whatever way the GT of an index is chosen: if every uint8 value is to come back, no index
   below 255 may be written as "." *)
Theorem C07_gt_encoder_must_write :
  forall enc : Z -> option Z,
  (forall a, 0 <= a <= 255 -> cast8 (oz (enc a)) = a) ->
  forall a, 0 <= a < 255 -> exists k, enc a = Some k /\ k mod 256 = a.
Proof. exact gt_encoder_must_write. Qed.
Print Assumptions C07_gt_encoder_must_write.

(* the narrowing of the indices to a signed 8-bit integer before the test for "missing" is
   exact below 128 (why matrices with a handful of alleles cannot tell) and loses every index
   128..254: it is read back as missing *)
Theorem C07_narrow_low : forall a, 0 <= a < 128 -> gt_of_narrow a = gt_of a.
Proof. exact narrow_low. Qed.
Print Assumptions C07_narrow_low.

Theorem C07_narrow_refuted :
  forall a, 128 <= a < 255 -> cast8 (oz (gt_of_narrow a)) = 255 /\ cast8 (oz (gt_of a)) = a.
Proof. exact narrow_refuted. Qed.
Print Assumptions C07_narrow_refuted.

(* inside the domain of positions (1 .. 2^31 - 1 with the last base of REF at or below
   2^31 - 1; PGEN: below 2^31 - 1) and of allele counts nothing is refused *)
Theorem C07_write_guard_domain :
  forall (pgen half : bool) (g : geno),
  geno_domb0 half g = true -> pos_domb pgen g = true -> write_guard pgen g = None.
Proof. exact write_guard_domain. Qed.
Print Assumptions C07_write_guard_domain.

(* the round trips for the whole of write (pysam's and pgenlib's refusals included) *)
Theorem C07_pgen_roundtrip_guarded :
  forall (paccept : Z -> batch -> bool) (pload : scall -> scall) (g : geno) (cw cr : option Z),
  paccept_complete paccept -> pload_contract pload ->
  geno_domb false g = true -> pos_domb true g = true -> chunk_dom cw -> chunk_dom cr ->
  exists g', pgen_roundtrip_g paccept pload false cw cr g = Ok g' /\ rt_rel g g'.
Proof. exact pgen_roundtrip_g_spec. Qed.
Print Assumptions C07_pgen_roundtrip_guarded.

Theorem C07_pgen_chunking_irrelevant_guarded :
  forall (paccept : Z -> batch -> bool) (pload : scall -> scall) (g : geno) (cw cr cw' cr' : option Z),
  paccept_complete paccept -> paccept_sound paccept ->
  chunk_dom cw -> chunk_dom cr -> chunk_dom cw' -> chunk_dom cr' ->
  pgen_roundtrip_g paccept pload false cw cr g = pgen_roundtrip_g paccept pload false cw' cr' g.
Proof. exact pgen_chunking_irrelevant_g. Qed.
Print Assumptions C07_pgen_chunking_irrelevant_guarded.

Theorem C07_pgen_empty_roundtrip_guarded :
  forall (paccept : Z -> batch -> bool) (pload : scall -> scall) (g : geno) (cw cr : option Z) (legacy : bool),
  g_variants g = [] ->
  pgen_roundtrip_g paccept pload legacy cw cr g = Ok (mkg (g_samples g) [] [] [lenZ (g_samples g); 0; 3]).
Proof. exact pgen_empty_roundtrip_g. Qed.
Print Assumptions C07_pgen_empty_roundtrip_guarded.

Theorem C07_vcf_roundtrip_guarded :
  forall (vload : vcall -> Z * Z * Z) (hts : htslib) (g : geno) (fmt : vfmt) (idx : vidx),
  vload_contract vload -> hts_iter_contract hts ->
  geno_domb true g = true -> pos_domb false g = true -> 1 <= lenZ (g_variants g) ->
  vcf_roundtrip_g vload hts false false fmt idx g
  = Ok (mkg (g_samples g) (g_variants g) (map (map (norm_call (planes g))) (g_rows g))
            [lenZ (g_samples g); lenZ (g_variants g); 3])
  /\ exists g', vcf_roundtrip_g vload hts false false fmt idx g = Ok g' /\ rt_rel g g'.
Proof. exact vcf_roundtrip_g_spec. Qed.
Print Assumptions C07_vcf_roundtrip_guarded.

Theorem C07_vcf_format_index_irrelevant_guarded :
  forall (vload : vcall -> Z * Z * Z) (hts : htslib) (legacy0 : bool) (g : geno)
         (fmt : vfmt) (idx : vidx) (fmt' : vfmt) (idx' : vidx),
  hts_iter_contract hts ->
  vcf_roundtrip_g vload hts false legacy0 fmt idx g = vcf_roundtrip_g vload hts false legacy0 fmt' idx' g.
Proof. exact vcf_format_index_irrelevant_g. Qed.
Print Assumptions C07_vcf_format_index_irrelevant_guarded.

Theorem C07_vcf_empty_roundtrip_guarded :
  forall (vload : vcall -> Z * Z * Z) (hts : htslib) (g : geno) (fmt : vfmt) (idx : vidx),
  hts_iter_contract hts -> geno_domb0 true g = true -> pos_domb false g = true ->
  g_samples g = [] \/ g_variants g = [] ->
  vcf_roundtrip_g vload hts false false fmt idx g = Ok (mkg (g_samples g) (g_variants g) [] [0; 0; 0])
  /\ empty_rel g (mkg (g_samples g) (g_variants g) [] [0; 0; 0]).
Proof. exact vcf_empty_roundtrip_g. Qed.
Print Assumptions C07_vcf_empty_roundtrip_guarded.

(* beyond the domain: a record whose last base lies beyond 2^31 - 1 (any position a uint32
   holds) makes both writers fail with OverflowError, whatever else the matrix contains ... *)
Theorem C07_vcf_refused_beyond :
  forall (vload : vcall -> Z * Z * Z) (hts : htslib) (legacy legacy0 : bool) (fmt : vfmt) (idx : vidx)
         (g : geno) (v : variant),
  In v (g_variants g) ->
  0 <= v_pos v < two32 -> 1 <= v_reflen v <= int_max -> int_max < v_pos v + v_reflen v - 1 ->
  vcf_roundtrip_g vload hts legacy legacy0 fmt idx g = Err E_Overflow.
Proof. exact vcf_refused_beyond. Qed.
Print Assumptions C07_vcf_refused_beyond.

Theorem C07_pgen_refused_beyond :
  forall (paccept : Z -> batch -> bool) (legacy : bool) (cw : option Z) (g : geno) (v : variant),
  In v (g_variants g) ->
  0 <= v_pos v < two32 -> 1 <= v_reflen v <= int_max -> int_max < v_pos v + v_reflen v - 1 ->
  pgen_write_g paccept legacy cw g = Err E_Overflow.
Proof. exact pgen_refused_beyond. Qed.
Print Assumptions C07_pgen_refused_beyond.

(* ... position 0 likewise (the uint32 start wraps) ... *)
Theorem C07_pos_zero_refused :
  forall (pgen : bool) (g : geno) (v : variant),
  In v (g_variants g) -> v_pos v = 0 -> write_guard pgen g = Some E_Overflow.
Proof. exact pos_zero_refused. Qed.
Print Assumptions C07_pos_zero_refused.

(* ... and PGEN also refuses position 2^31 - 1 and more than 255 alleles (RuntimeError of
   pgenlib's .pvar reader) *)
Theorem C07_pgen_refused_by_pvar :
  forall (paccept : Z -> batch -> bool) (legacy : bool) (cw : option Z) (g : geno),
  forallb pos_fits (g_variants g) = true ->
  (exists v, In v (g_variants g) /\ v_pos v = int_max) \/ 255 < max_allele_ct (g_variants g) ->
  pgen_write_g paccept legacy cw g = Err E_Runtime.
Proof. exact pgen_refused_by_pvar. Qed.
Print Assumptions C07_pgen_refused_by_pvar.

Theorem C07_allele_limit_tight :
  geno_domb0 true g_256 = false
  /\ vcf_write g_256 = mkvf [0] [(mkvar 0 0 10 (zrange 0 256) 1, [(None, None, true)])]
  /\ pgen_write_g paccept_std false None g_256 = Err E_Runtime
  /\ geno_domb0 true (mkg [0] [mkvar 0 0 10 (zrange 0 255) 1] [[(254, 254, 1)]] [1; 1; 3]) = true
  /\ exists pf, pgen_write_g paccept_std false None (mkg [0] [mkvar 0 0 10 (zrange 0 255) 1] [[(254, 254, 1)]] [1; 1; 3]) = Ok pf.
Proof. exact allele_limit_tight. Qed.
Print Assumptions C07_allele_limit_tight.

Theorem C07_position_limits_tight :
  write_guard false (g_pos 2147483647) = None /\ write_guard true (g_pos 2147483647) = Some E_Runtime
  /\ write_guard false (g_pos 2147483646) = None /\ write_guard true (g_pos 2147483646) = None
  /\ write_guard false (g_pos 2147483648) = Some E_Overflow /\ write_guard true (g_pos 2147483648) = Some E_Overflow
  /\ write_guard false (g_pos 0) = Some E_Overflow /\ write_guard false (g_pos 4294967295) = Some E_Overflow
  /\ pos_domb false (g_pos 2147483647) = true /\ pos_domb true (g_pos 2147483647) = false
  /\ pos_domb true (g_pos 2147483646) = true /\ pos_domb false (g_pos 2147483648) = false.
Proof. exact position_limits_tight. Qed.
Print Assumptions C07_position_limits_tight.

Theorem C07_wide_hypotheses_satisfiable :
  let g := mkg [0; 1] [mkvar 0 0 2147483646 (zrange 0 255) 1] [[(254, 128, 0); (127, 255, 1)]] [2; 1; 3] in
  geno_domb true g = true /\ pos_domb true g = true /\ pos_domb false g = true
  /\ geno_domb false (mkg [0] [mkvar 0 0 1 (zrange 0 255) 1] [[(254, 128, 0)]] [1; 1; 3]) = true.
Proof. exact wide_hypotheses_satisfiable. Qed.
Print Assumptions C07_wide_hypotheses_satisfiable.

(* the number of alleles a reader of the written .pvar finds per variant is the number the
   writer declares to pgenlib (the .pgen agrees with the .pvar), for any number of alleles *)
Theorem C07_pvar_cts_agree :
  forall (meta : list (list str)) (vs : list (tvariant * list str)),
  forallb meta_row meta = true -> forallb tvariant_ok (map fst vs) = true ->
  bind (pvar_read_rows (pvar_rows meta vs)) (fun r => Ok (pvar_allele_cts r))
  = Ok (map (fun v => Z.max 2 (lenZ (t_alleles v))) (map fst vs)).
Proof. exact pvar_cts_agree. Qed.
Print Assumptions C07_pvar_cts_agree.

(* the compact literals of the harness decode to what their names say *)
Theorem C07_zrange_spec :
  forall a n, 0 <= n -> lenZ (zrange a n) = n
  /\ forall i, 0 <= i < n -> nth_error (zrange a n) (Z.to_nat i) = Some (a + i).
Proof. exact zrange_spec. Qed.
Print Assumptions C07_zrange_spec.

Theorem C07_rle_spec :
  forall (A : Type) (n : Z) (x : A) (r : list (Z * A)),
  rle ((n, x) :: r) = repeat x (Z.to_nat n) ++ rle r /\ @rle A [] = [].
Proof. exact rle_spec. Qed.
Print Assumptions C07_rle_spec.

Theorem C07_vrun_spec :
  forall id chrom pos step al rl n, 0 <= n -> lenZ (vrun id chrom pos step al rl n) = n
  /\ forall i, 0 <= i < n ->
       nth_error (vrun id chrom pos step al rl n) (Z.to_nat i) = Some (mkvar (id + i) chrom (pos + step * i) al rl).
Proof. exact vrun_spec. Qed.
Print Assumptions C07_vrun_spec.

(* ---- the _prephased attribute on the writing / reading object ----------------------------- *)

Theorem C07_same_alleles_spec :
  forall g g', same_alleles g g' = true <-> alleles_rel g g'.
Proof. exact same_alleles_spec. Qed.
Print Assumptions C07_same_alleles_spec.

Theorem C07_same_back_spec :
  forall wpre rpre g g', same_back wpre rpre g g' = true <-> back_rel wpre rpre g g'.
Proof. exact same_back_spec. Qed.
Print Assumptions C07_same_back_spec.

(* what holds = true means for every setting of the two attributes (the theorems
   C07_holds_pgen_sound / C07_holds_vcf_sound are the case where both are unset) *)
Theorem C07_holds_pgen_sound_prephased :
  forall k, holds_pgen k = true ->
  geno_domb false (pc_g k) = true -> pos_domb true (pc_g k) = true ->
  chunk_dom (pc_cw k) -> chunk_dom (pc_cr k) -> g_variants (pc_g k) <> [] ->
  exists g', pc_back k = Ok g' /\ back_rel (pc_wpre k) (pc_rpre k) (pc_g k) g'.
Proof. exact holds_pgen_sound_pre. Qed.
Print Assumptions C07_holds_pgen_sound_prephased.

Theorem C07_holds_vcf_sound_prephased :
  forall k, holds_vcf k = true -> geno_domb0 true (vc_g k) = true -> pos_domb false (vc_g k) = true ->
  g_samples (vc_g k) <> [] -> g_variants (vc_g k) <> [] ->
  exists g', vc_back k = Ok g' /\ back_rel (vc_wpre k) (vc_rpre k) (vc_g k) g'.
Proof. exact holds_vcf_sound_pre. Qed.
Print Assumptions C07_holds_vcf_sound_prephased.

(* dropping the phase plane of an object that satisfies the round-trip relation leaves one that
   satisfies the relation on the alleles *)
Theorem C07_drop_phase_alleles :
  forall g g', rt_rel g g' -> alleles_rel g (drop_phase g').
Proof. exact drop_phase_alleles. Qed.
Print Assumptions C07_drop_phase_alleles.

(* the model's round trips satisfy that demand for every setting of the two attributes *)
Theorem C07_pgen_roundtrip_prephased :
  forall (paccept : Z -> batch -> bool) (pload : scall -> scall) (g : geno) (cw cr : option Z) (wpre rpre : bool),
  paccept_complete paccept -> pload_contract pload ->
  geno_domb false g = true -> pos_domb true g = true -> chunk_dom cw -> chunk_dom cr ->
  exists g', pgen_roundtrip_g paccept pload false cw cr (written wpre g) = Ok g'
    /\ back_rel wpre rpre g (as_read rpre g').
Proof. exact pgen_roundtrip_pre. Qed.
Print Assumptions C07_pgen_roundtrip_prephased.

Theorem C07_vcf_roundtrip_prephased :
  forall (vload : vcall -> Z * Z * Z) (hts : htslib) (g : geno) (fmt : vfmt) (idx : vidx) (wpre rpre : bool),
  vload_contract vload -> hts_iter_contract hts ->
  geno_domb true g = true -> pos_domb false g = true -> 1 <= lenZ (g_variants g) ->
  exists g', vcf_roundtrip_g vload hts false false fmt idx (written wpre g) = Ok g'
    /\ back_rel wpre rpre g (as_read rpre g').
Proof. exact vcf_roundtrip_pre. Qed.
Print Assumptions C07_vcf_roundtrip_prephased.

(* the check of pgenlib's contract on the calls read directly from the written file means
   the contract's relation, call by call *)
Theorem C07_pload_okb_sound :
  forall s l : scall, pload_okb s l = true <-> pload_rel s l.
Proof. exact pload_okb_sound. Qed.
Print Assumptions C07_pload_okb_sound.

(* ---- a path with a past (C07_Hist): state an earlier write left on disk ------------------

   what a sibling index declares about the number of records is an input the anchored reader
   provably never uses: any two claims (or none), with or without a region *)
Theorem C07_index_records_irrelevant :
  forall (vload : vcall -> Z * Z * Z) (hts : htslib) (ir ir' : option Z) (region : option Z) (d : vdisk),
  vcf_read_ix vload hts false ir region d = vcf_read_ix vload hts false ir' region d
  /\ vcf_read_ix vload hts false ir region d = vcf_read vload hts false false region d.
Proof. exact index_records_irrelevant_both. Qed.
Print Assumptions C07_index_records_irrelevant.

(* from ANY state of the disk, after ANY sequence of writes, indexings (.tbi / .csi), changes of
   the index's modification time, removals of the index and reads on one path, the read returns
   what the matrix LAST written returns from a fresh path without an index *)
Theorem C07_history_read_is_last_write :
  forall (vload : vcall -> Z * Z * Z) (hts : htslib) (fmt : vfmt) (s0 : disk) (ops : list op) (g : geno),
  hts_iter_contract hts -> last_write ops None = Some g ->
  read_disk vload hts false fmt (run s0 ops) = vcf_roundtrip_model vload hts false false fmt I_none g.
Proof. exact history_read_is_last_write. Qed.
Print Assumptions C07_history_read_is_last_write.

Theorem C07_history_irrelevant :
  forall (vload : vcall -> Z * Z * Z) (hts : htslib) (fmt fmt' : vfmt) (s0 s0' : disk) (ops ops' : list op) (g : geno),
  hts_iter_contract hts -> last_write ops None = Some g -> last_write ops' None = Some g ->
  read_disk vload hts false fmt (run s0 ops) = read_disk vload hts false fmt' (run s0' ops').
Proof. exact history_irrelevant. Qed.
Print Assumptions C07_history_irrelevant.

(* ... which is the matrix last written (the property, on a path with a past) *)
Theorem C07_history_roundtrip :
  forall (vload : vcall -> Z * Z * Z) (hts : htslib) (fmt : vfmt) (s0 : disk) (ops : list op) (g : geno),
  vload_contract vload -> hts_iter_contract hts ->
  last_write ops None = Some g -> geno_domb true g = true -> 1 <= lenZ (g_variants g) ->
  exists g', read_disk vload hts false fmt (run s0 ops) = Ok g' /\ rt_rel g g'.
Proof. exact history_roundtrip. Qed.
Print Assumptions C07_history_roundtrip.

Theorem C07_history_empty_roundtrip :
  forall (vload : vcall -> Z * Z * Z) (hts : htslib) (fmt : vfmt) (s0 : disk) (ops : list op) (g : geno),
  hts_iter_contract hts -> last_write ops None = Some g ->
  lenZ (g_rows g) = lenZ (g_variants g) -> g_samples g = [] \/ g_variants g = [] ->
  exists g', read_disk vload hts false fmt (run s0 ops) = Ok g' /\ empty_rel g g'.
Proof. exact history_empty_roundtrip. Qed.
Print Assumptions C07_history_empty_roundtrip.

(* a reader that takes the record count from the index ("max_variants = num_records" when no
   region is requested) is indistinguishable from the anchored one as long as the index was built
   from the file that is read: write; index; anything but a write ... *)
Theorem C07_trusting_reader_fresh_index :
  forall (vload : vcall -> Z * Z * Z) (hts : htslib) (fmt : vfmt) (s : disk) (g : geno) (k : vidx) (tail : list op),
  hts_iter_contract hts -> k <> I_none -> nowrite tail = true ->
  read_disk vload hts true fmt (run (step (step s (OpWrite g)) (OpIndex k)) tail)
  = vcf_roundtrip_model vload hts false false fmt I_none g.
Proof. exact trusting_fresh. Qed.
Print Assumptions C07_trusting_reader_fresh_index.

(* ... and returns the first variant only of a two-variant matrix written over an indexed
   one-variant file (no error); the other order goes unnoticed *)
Theorem C07_trusting_reader_refuted :
  hist_domb ops_stale = true /\ last_write ops_stale None = Some g_two
  /\ run disk0 ops_stale = mkdk (Some (vcf_write g_two)) (Some (mkix I_tbi 1 false))
  /\ (exists g', read_disk vload_std hts_std false F_vcfgz (run disk0 ops_stale) = Ok g' /\ same_geno g_two g' = true)
  /\ read_disk vload_std hts_std true F_vcfgz (run disk0 ops_stale)
     = Ok (mkg [0] [mkvar 0 0 28 [0; 1] 1] [[(0, 1, 1)]] [1; 1; 3])
  /\ (forall g', read_disk vload_std hts_std true F_vcfgz (run disk0 ops_stale) = Ok g' -> same_geno g_two g' = false)
  /\ read_disk vload_std hts_std true F_vcfgz (run disk0 (ops_stale ++ [OpTouch true]))
     = read_disk vload_std hts_std true F_vcfgz (run disk0 ops_stale)
  /\ (exists g', read_disk vload_std hts_std true F_vcfgz (run disk0 (ops_stale ++ [OpIndex I_tbi])) = Ok g' /\ same_geno g_two g' = true)
  /\ (exists g', read_disk vload_std hts_std true F_vcfgz (run disk0 (ops_stale ++ [OpUnindex])) = Ok g' /\ same_geno g_two g' = true)
  /\ (exists g', read_disk vload_std hts_std true F_bcf (run disk0 [OpWrite g_two; OpIndex I_csi; OpWrite g_one]) = Ok g'
                 /\ same_geno g_one g' = true).
Proof. exact trusting_reader_refuted. Qed.
Print Assumptions C07_trusting_reader_refuted.

(* what holds = true of the history relation means: the demand of the vcf relation on the matrix
   last written *)
Theorem C07_holds_hist_sound :
  forall (k : hcase) (g : geno),
  holds_hist k = true -> hc_back k <> Err E_Unobserved ->
  hist_domb (hc_ops k) = true -> last_write (hc_ops k) None = Some g ->
  exists g', hc_back k = Ok g'
    /\ (g_samples g <> [] -> g_variants g <> [] -> rt_rel g g')
    /\ (g_samples g = [] \/ g_variants g = [] -> empty_rel g g').
Proof. exact holds_hist_sound. Qed.
Print Assumptions C07_holds_hist_sound.

(* the model the relation compares with is the anchored reader at the end of the history *)
Theorem C07_model_hist_back :
  forall (k : hcase) (g : geno),
  guard_ops (hc_ops k) = None -> last_write (hc_ops k) None = Some g ->
  snd (model_hist k) = vcf_roundtrip_model vload_std hts_std false false (hc_fmt k) I_none g.
Proof. exact model_hist_back. Qed.
Print Assumptions C07_model_hist_back.

Theorem C07_hist_hypotheses_satisfiable :
  hts_iter_contract hts_std /\ vload_contract vload_std
  /\ last_write ops_stale None = Some g_two /\ geno_domb true g_two = true /\ 1 <= lenZ (g_variants g_two)
  /\ guard_ops ops_stale = None /\ nowrite [OpIndex I_csi; OpTouch true; OpRead; OpUnindex] = true.
Proof. exact hist_hypotheses_satisfiable. Qed.
Print Assumptions C07_hist_hypotheses_satisfiable.
