(* C07 - character-level helpers for the text files GenotypesPLINK / GenotypesVCF write and
   read: .psam (written and read by haptools itself), .pvar and .vcf (written by pysam, the
   .pvar read by haptools with csv.reader).  A string is the list of its code points
   (BpText.str).  join / split are Python's sep.join(l) and s.split(sep) for a one-character
   separator; dec / undec are str(int) and int(str) on non-negative integers.
   Definitions and their lemmas (used by C07_Files / C07_ProofsText). *)
From HV Require Import Prelude BpText.

Definition c_tab : Z := 9.
Definition c_nl : Z := 10.
Definition c_cr : Z := 13.
Definition c_quote : Z := 34.   (* the double quote *)
Definition c_comma : Z := 44.
Definition c_dot : Z := 46.
Definition c_slash : Z := 47.
Definition c_pipe : Z := 124.

(* ---- sep.join(toks) / s.split(sep) ---------------------------------------- *)

Fixpoint join (sep : Z) (toks : list str) : str :=
  match toks with
  | [] => []
  | t :: r => match r with
              | [] => t
              | _ :: _ => t ++ sep :: join sep r
              end
  end.

Fixpoint split (sep : Z) (s : str) : list str :=
  match s with
  | [] => [[]]
  | c :: r =>
      if c =? sep then [] :: split sep r
      else match split sep r with
           | t :: ts => (c :: t) :: ts
           | [] => [[c]]            (* unreachable: split never returns [] *)
           end
  end.

Definition nosep (sep : Z) (t : str) : bool := negb (mem_char sep t).

Lemma split_nonnil sep s : split sep s <> [].
Proof.
  destruct s as [|c r]; cbn [split]; [discriminate|].
  destruct (c =? sep); [discriminate|]. destruct (split sep r); discriminate.
Qed.

Lemma nosep_cons sep c t : nosep sep (c :: t) = true -> (c =? sep) = false /\ nosep sep t = true.
Proof.
  unfold nosep, mem_char. cbn [existsb]. rewrite negb_true_iff, orb_false_iff, Z.eqb_sym.
  intros [H1 H2]. rewrite H2. auto.
Qed.

Lemma split_nosep sep t : nosep sep t = true -> split sep t = [t].
Proof.
  induction t as [|c t IH]; intros H; [reflexivity|].
  apply nosep_cons in H. destruct H as [Hc Ht]. cbn [split]. rewrite Hc, (IH Ht). reflexivity.
Qed.

Lemma split_app sep t s : nosep sep t = true -> split sep (t ++ sep :: s) = t :: split sep s.
Proof.
  induction t as [|c t IH]; intros H.
  - cbn [app split]. rewrite Z.eqb_refl. reflexivity.
  - apply nosep_cons in H. destruct H as [Hc Ht]. cbn [app split]. rewrite Hc, (IH Ht). reflexivity.
Qed.

(* the round trip of a token list through one separator: every non-empty list of tokens
   none of which contains the separator *)
Lemma split_join sep toks :
  toks <> [] -> forallb (nosep sep) toks = true -> split sep (join sep toks) = toks.
Proof.
  induction toks as [|t r IH]; intros Hne Hall; [congruence|].
  cbn [forallb] in Hall. apply andb_true_iff in Hall. destruct Hall as [Ht Hr].
  destruct r as [|u r'].
  - cbn [join]. apply split_nosep. exact Ht.
  - change (join sep (t :: u :: r')) with (t ++ sep :: join sep (u :: r')).
    rewrite split_app by exact Ht. rewrite IH; [reflexivity|discriminate|exact Hr].
Qed.

Lemma nosep_app c a b : nosep c (a ++ b) = nosep c a && nosep c b.
Proof. unfold nosep. rewrite mem_char_app. apply negb_orb. Qed.

Lemma nosep_cons_eq c x b : nosep c (x :: b) = negb (c =? x) && nosep c b.
Proof. unfold nosep, mem_char. cbn [existsb]. apply negb_orb. Qed.

Lemma mem_char_join sep c toks :
  c <> sep -> forallb (nosep c) toks = true -> nosep c (join sep toks) = true.
Proof.
  intros Hc. induction toks as [|t r IH]; intros Hall; [reflexivity|].
  cbn [forallb] in Hall. apply andb_true_iff in Hall. destruct Hall as [Ht Hr].
  destruct r as [|u r']; [exact Ht|].
  change (join sep (t :: u :: r')) with (t ++ sep :: join sep (u :: r')).
  rewrite nosep_app, nosep_cons_eq, Ht, (IH Hr).
  assert (E : (c =? sep) = false) by (apply Z.eqb_neq; exact Hc). rewrite E. reflexivity.
Qed.

(* ---- text <-> lines: what iterating a text file yields ---------------------- *)

(* the lines of a text without their terminators; a final "\n" does not open another line *)
Definition file_lines (text : str) : list str :=
  let ps := split c_nl text in
  match last ps [c_nl] with
  | [] => removelast ps
  | _ => ps
  end.

(* each line followed by "\n" *)
Definition unlines (ls : list str) : str := flat_map (fun l => l ++ [c_nl]) ls.

Lemma last_cons_ne {A} (a : A) l d : l <> [] -> last (a :: l) d = last l d.
Proof. destruct l; [congruence|reflexivity]. Qed.

Lemma file_lines_unlines ls :
  forallb (nosep c_nl) ls = true -> file_lines (unlines ls) = ls.
Proof.
  intros Hall. unfold file_lines.
  assert (E : split c_nl (unlines ls) = ls ++ [[]]).
  { induction ls as [|l r IH]; [reflexivity|].
    cbn [forallb] in Hall. apply andb_true_iff in Hall. destruct Hall as [Hl Hr].
    cbn [unlines flat_map]. rewrite <- app_assoc. cbn [app].
    rewrite split_app by exact Hl. fold (unlines r). rewrite (IH Hr). reflexivity. }
  rewrite E. rewrite last_last. apply removelast_last.
Qed.

(* ---- str(int) / int(str) for non-negative integers --------------------------- *)

Fixpoint dec_fuel (fuel : nat) (n : Z) (acc : str) : str :=
  match fuel with
  | O => acc
  | S f => let acc' := (48 + n mod 10) :: acc in
           if n <? 10 then acc' else dec_fuel f (n / 10) acc'
  end.

(* fuel = 1 + log2 n is at least the number of decimal digits (dec_fuel_enough) *)
Definition dec (n : Z) : str := dec_fuel (S (Z.to_nat (Z.log2 n))) n [].

Definition is_digit (c : Z) : bool := (48 <=? c) && (c <=? 57).

Fixpoint undec_acc (s : str) (acc : Z) : option Z :=
  match s with
  | [] => Some acc
  | c :: r => if is_digit c then undec_acc r (acc * 10 + (c - 48)) else None
  end.

(* None: not a plain decimal numeral *)
Definition undec (s : str) : option Z :=
  match s with [] => None | _ => undec_acc s 0 end.

Lemma digit_of_mod n : 0 <= n -> is_digit (48 + n mod 10) = true.
Proof.
  intros Hn. pose proof (Z.mod_pos_bound n 10 ltac:(lia)) as H. unfold is_digit.
  apply andb_true_iff. rewrite !Z.leb_le. lia.
Qed.

Lemma undec_dec_fuel : forall fuel n acc,
  0 <= n < 10 ^ Z.of_nat fuel -> undec_acc (dec_fuel fuel n acc) 0 = undec_acc acc n.
Proof.
  induction fuel as [|f IH]; intros n acc Hn.
  - cbn in Hn. assert (n = 0) by lia. subst. reflexivity.
  - cbn [dec_fuel]. destruct (n <? 10) eqn:E.
    + apply Z.ltb_lt in E. cbn [undec_acc]. rewrite digit_of_mod by lia.
      rewrite Z.mod_small by lia. f_equal. lia.
    + apply Z.ltb_ge in E. rewrite IH.
      * cbn [undec_acc]. rewrite digit_of_mod by lia. f_equal.
        pose proof (Z.div_mod n 10 ltac:(lia)). lia.
      * rewrite Nat2Z.inj_succ, Z.pow_succ_r in Hn by lia. split.
        -- apply Z.div_pos; lia.
        -- apply Z.div_lt_upper_bound; lia.
Qed.

Lemma dec_fuel_enough n : 0 <= n -> n < 10 ^ Z.of_nat (S (Z.to_nat (Z.log2 n))).
Proof.
  intros Hn. rewrite Nat2Z.inj_succ, Z2Nat.id by apply Z.log2_nonneg.
  destruct (Z.eq_dec n 0) as [->|Hz]; [cbn; lia|].
  pose proof (Z.log2_spec n ltac:(lia)) as [_ H2].
  eapply Z.lt_le_trans; [exact H2|].
  apply Z.pow_le_mono_l. lia.
Qed.

Lemma dec_fuel_nonnil fuel n acc : dec_fuel (S fuel) n acc <> [].
Proof.
  revert n acc. induction fuel as [|f IH]; intros n acc; cbn [dec_fuel].
  - destruct (n <? 10); discriminate.
  - destruct (n <? 10); [discriminate|]. apply IH.
Qed.

(* int(str(n)) = n *)
Lemma undec_dec n : 0 <= n -> undec (dec n) = Some n.
Proof.
  intros Hn. unfold undec, dec.
  pose proof (dec_fuel_nonnil (Z.to_nat (Z.log2 n)) n []) as Hne.
  destruct (dec_fuel (S (Z.to_nat (Z.log2 n))) n []) eqn:E; [congruence|].
  rewrite <- E. rewrite undec_dec_fuel by (split; [exact Hn|apply dec_fuel_enough; exact Hn]). reflexivity.
Qed.

Lemma dec_fuel_digits : forall fuel n acc,
  0 <= n -> forallb is_digit acc = true -> forallb is_digit (dec_fuel fuel n acc) = true.
Proof.
  induction fuel as [|f IH]; intros n acc Hn Hacc; [exact Hacc|].
  cbn [dec_fuel]. destruct (n <? 10).
  - cbn [forallb]. rewrite digit_of_mod by exact Hn. exact Hacc.
  - apply IH; [apply Z.div_pos; lia|]. cbn [forallb]. rewrite digit_of_mod by exact Hn. exact Hacc.
Qed.

Lemma dec_digits n : 0 <= n -> forallb is_digit (dec n) = true.
Proof. intros Hn. apply dec_fuel_digits; [exact Hn|reflexivity]. Qed.

Lemma dec_nonnil n : dec n <> [].
Proof. apply dec_fuel_nonnil. Qed.

(* a numeral contains no character that is not a digit *)
Lemma digits_nosep c s : is_digit c = false -> forallb is_digit s = true -> nosep c s = true.
Proof.
  intros Hc. induction s as [|d s IH]; intros H; [reflexivity|].
  cbn [forallb] in H. apply andb_true_iff in H. destruct H as [Hd Hs].
  unfold nosep, mem_char. cbn [existsb]. rewrite negb_true_iff, orb_false_iff. split.
  - apply Z.eqb_neq. intros ->. congruence.
  - specialize (IH Hs). unfold nosep, mem_char in IH. rewrite negb_true_iff in IH. exact IH.
Qed.

(* ---- prefixes ----------------------------------------------------------------- *)

(* Python s[:n] *)
Definition trunc (n : nat) (s : str) : str := firstn n s.

Lemma trunc_short n s : (length s <= n)%nat -> trunc n s = s.
Proof. apply firstn_all2. Qed.
