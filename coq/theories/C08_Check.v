(* C08 - boolean checkers evaluated by the correspondence run.
   One case of the [read] relation = one file content materialised as .vcf.gz+tbi
   and as .pgen/.pvar/.psam (written with pysam / pgenlib directly), one query,
   and for each format what haptools returned for: read() (everything),
   read(region, samples, variants, max_variants), and __iter__(...) - the iterator as three callers see
   it (each record converted at once; all records materialised first; a record converted after the
   iterator moved on: [fo_iter], [fo_held]) - and two read() calls on ONE object ([fo_again]).
   [agree]: the model reproduces every observation.
   [holds]: the property, computed from the observations alone: the restricted
   read equals the full read filtered in file order; the iterator yields the
   records of the bulk read; an empty match is an empty result plus a warning and
   never an exception; both formats give the same samples, variants, allele
   indices and phase of heterozygous calls; a caller that holds on to records or to the arrays of an
   earlier read sees the same ([holds_kept]). *)
From HV Require Import Prelude BpText C07_Model C07_Check C08_Model C08_Region.

Definition vrec_eqb (x y : vrec) : bool :=
  variant_eqb (fst x) (fst y) && list_eqb call_eqb (snd x) (snd y).

Definition rows_eqb := list_eqb (list_eqb call_eqb).

(* what the harness sees of one __iter__ call: the samples and the records, each converted to plain data *)
Definition iter_obs := res (list Z * list vrec).

(* Two read() calls on ONE object with different restrictions, the caller holding on to what the first
   call left (the data array, the variants, the samples) while the second runs. *)
Record reread := mkrr {
  rr_full_first : bool;      (* read() first and read(restricted) second; false = the other way round *)
  rr_first : res geno;       (* the object dumped after the first call *)
  rr_first_kept : res geno;  (* the arrays the first call left, held by the caller, dumped again AFTER the
                                second call (the error of the first call again if it raised) *)
  rr_second : res geno       (* the object dumped after the second call *)
}.

Record fobs := mkfo {
  fo_full : res geno;                       (* read() *)
  fo_read : res geno;                       (* read(region, samples, variants, max_variants) *)
  fo_warned : bool;                         (* the restricted read logged >= 1 warning *)
  fo_iter : iter_obs;                       (* samples and records of __iter__(region, samples, variants), every
                                               record converted to plain data before the next one is asked for *)
  fo_held : list iter_obs;                  (* the same call observed by callers that HOLD records: all records
                                               materialised first (list(it)) and converted afterwards; each record
                                               converted only after the iterator was advanced past it *)
  fo_again : option reread                  (* None: not observed for this case *)
}.

Record rcase := mkrc {
  rc_c : geno;              (* the content that was materialised; [v_chrom] = C08_Region.enc of the contig name *)
  rc_q : query;             (* the query as meant: its region is the PARSED (contig, start?, end?) *)
  rc_chunk : option Z;      (* chunk_size of the GenotypesPLINK reader *)
  rc_strict_samples : bool; (* harness switch: also demand "empty result + warning, no exception" when the
                               sample restriction selects no sample (cyvcf2/pgenlib raise; default false) *)
  rc_vcf_noregion : bool;   (* the VCF/BCF file was written without an index (its records need not be sorted then):
                               htslib cannot answer a region query, so the VCF reader is given the query without
                               its region; the PGEN reader gets the whole query *)
  rc_regstr : option str;   (* the region as the TEXT both readers were handed (code points): the canonical
                               printing of the region of [rc_q]; None = no region *)
  rc_fixed_region : bool;   (* harness switch STRICT_REGION_CONTIG_NAMES: the PGEN reader parses the text like
                               htslib (fixes/C08_region_contig_names.patch); false = re.split(":|-") *)
  rc_vcf_unindexed : bool;  (* the VCF/BCF file has no index and the region was handed to the reader all the same
                               (rc_vcf_noregion = false): htslib refuses (AssertionError) *)
  rc_vcf : fobs;
  rc_pgen : fobs
}.

Definition q_all : query := mkq None None None None.

Definition iter_eqb := pair_eqb (list_eqb Z.eqb) (list_eqb vrec_eqb).

(* two observations of the same call show the same: the same result, or an exception both times *)
Definition res_same {A} (eqb : A -> A -> bool) (x y : res A) : bool :=
  match x, y with
  | Ok a, Ok b => eqb a b
  | Err _, Err _ => true
  | _, _ => false
  end.

(* the observations of one format under the other consumption style [it] *)
Definition with_iter (fo : fobs) (it : iter_obs) : fobs :=
  mkfo (fo_full fo) (fo_read fo) (fo_warned fo) it [] None.

(* a caller that holds records sees what the caller that converts each record at once sees *)
Definition held_same (fo : fobs) : bool := forallb (res_same iter_eqb (fo_iter fo)) (fo_held fo).

(* the second read on a used object returns what a read on a fresh object returns, and what the first read
   left in the caller's hands is untouched by it *)
Definition holds_again (fo : fobs) : bool :=
  match fo_again fo with
  | None => true
  | Some rr =>
      let a := if rr_full_first rr then fo_full fo else fo_read fo in
      let b := if rr_full_first rr then fo_read fo else fo_full fo in
      res_same geno_eqb (rr_first rr) a
      && res_same geno_eqb (rr_first_kept rr) (rr_first rr)
      && res_same geno_eqb (rr_second rr) b
  end.

Definition q_noregion (q : query) : query := mkq None (q_samples q) (q_ids q) (q_max q).

(* the query the VCF reader is given, as meant *)
Definition vcf_q (k : rcase) : query := if rc_vcf_noregion k then q_noregion (rc_q k) else rc_q k.


(* The model is handed what the readers are handed: the region as text.  htslib's reading of it
   ([hts_region]) and GenotypesPLINK's ([pgen_region], legacy or repaired) replace the region of [rc_q]. *)
Definition model_read (k : rcase) :=
  let c := rc_c k in let q := rc_q k in
  let fx := rc_strict_samples k in   (* true: the readers with fixes/C08_empty_sample_selection.patch *)
  let vq := vcf_q k in
  let '(vr, vi) :=
    match rc_regstr k, rc_vcf_noregion k with
    | Some s, false =>
        if rc_vcf_unindexed k then (Err E_Assert, Err E_Assert)
        else (vcf_read_s fx c vq s, vcf_iter_s fx c vq s)
    | _, _ => (vcf_read_x fx c vq, vcf_iter_x fx c vq)
    end in
  let '(pr, pi) :=
    match rc_regstr k with
    | Some s => (pgen_read_s pload_std (rc_fixed_region k) fx (rc_chunk k) c q s,
                 pgen_iter_s pload_std (rc_fixed_region k) fx c q s)
    | None => (pgen_read_x pload_std fx (rc_chunk k) c q, pgen_iter_x pload_std fx c q)
    end in
  (* what is loaded keeps 10 characters of a contig name ([load_names]) *)
  ((rmap load_names (vcf_read_x fx c q_all), rmap load_names vr, rmap load_names_iter vi),
   (rmap load_names (pgen_read_x pload_std fx (rc_chunk k) c q_all), rmap load_names pr, rmap load_names_iter pi)).

(* The model's reads are functions of the content and the query and its iterator is a list: whatever the
   caller holds on to, and whatever the object was used for before, the observation is the same one
   (C08_Proofs4: the three consumption styles of a list coincide). *)
Definition agree_again (full rd : res geno) (fo : fobs) : bool :=
  match fo_again fo with
  | None => true
  | Some rr =>
      let a := if rr_full_first rr then full else rd in
      let b := if rr_full_first rr then rd else full in
      res_eqb geno_eqb a (rr_first rr) && res_eqb geno_eqb a (rr_first_kept rr)
      && res_eqb geno_eqb b (rr_second rr)
  end.

Definition agree_fmt (m : res geno * res geno * iter_obs) (fo : fobs) : bool :=
  let '(full, rd, it) := m in
  res_eqb geno_eqb full (fo_full fo) && res_eqb geno_eqb rd (fo_read fo)
  && res_eqb iter_eqb it (fo_iter fo)
  && forallb (res_eqb iter_eqb it) (fo_held fo)
  && agree_again full rd fo.

Definition agree_read (k : rcase) : bool :=
  let '(mv, mp) := model_read k in
  agree_fmt mv (rc_vcf k) && agree_fmt mp (rc_pgen k).

(* --- the property on one format ---
   [must]: region predicate every reading of "in the region" agrees on (position
   inside the interval); [may]: the widest one (REF allele overlaps the interval).
   A record for which they differ may be present or absent. *)
Definition expected (q : query) (full rd : geno) : list vrec :=
  let present := fun v => existsb (variant_eqb v) (g_variants rd) in
  let sel := filter (fun x : vrec =>
      match q_ids q with None => true | Some V => memZ (v_id (fst x)) V end
      && match q_region q with
         | None => true
         | Some r => in_region_pgen r (fst x) || (in_region_vcf r (fst x) && present (fst x))
         end) (combine (g_variants full) (g_rows full)) in
  match q_ids q with Some _ => sel | None => take (q_max q) sel end.

Definition holds_fmt (strict : bool) (q : query) (fo : fobs) : bool :=
  match fo_full fo with
  | Err _ => false
  | Ok full =>
    let m := keep_mask (q_samples q) (g_samples full) in
    let samples' := mask m (g_samples full) in
    if is_nil samples' then
      (* a sample set matching nothing: cyvcf2 / pgenlib raise; demanded only under the strict switch *)
      negb strict
      || match fo_read fo, fo_iter fo with
         | Ok rd, Ok _ => is_nil (g_samples rd) && forallb is_nil (g_rows rd) && fo_warned fo
         | _, _ => false
         end
    else
      match fo_read fo, fo_iter fo with
      | Ok rd, Ok (isamples, irecs) =>
        let sel := expected q full rd in
        let irecs' := match q_ids q with Some _ => irecs | None => take (q_max q) irecs end in
        list_eqb Z.eqb (g_samples rd) samples'
        && list_eqb variant_eqb (g_variants rd) (map fst sel)
        && (if is_nil sel then is_nil (g_rows rd) && fo_warned fo
            else rows_eqb (g_rows rd) (map (fun x : vrec => mask m (snd x)) sel))
        && list_eqb Z.eqb isamples samples'
        && list_eqb variant_eqb (map fst irecs') (g_variants rd)
        && (is_nil irecs' || rows_eqb (map snd irecs') (g_rows rd))
      | _, _ => false
      end
  end.

(* --- both formats alike --- *)
Definition call_samegt (x y : call) : bool :=
  let '(a, b, p) := x in let '(a', b', p') := y in
  (a =? a') && (b =? b') && ((a =? b) || (p =? p')).

Definition geno_samegt (x y : geno) : bool :=
  list_eqb Z.eqb (g_samples x) (g_samples y)
  && list_eqb variant_eqb (g_variants x) (g_variants y)
  && (list_eqb (list_eqb call_samegt) (g_rows x) (g_rows y)
      (* without a sample there is no call to compare (VCF: shape (0, 0, 0), PGEN: (0, p, 3)) *)
      || (is_nil (g_samples x) && forallb is_nil (g_rows x) && forallb is_nil (g_rows y))).

(* region bounds select by REF overlap in htslib and by position in the PGEN
   reader: compared only when no REF allele is longer than one base, or the
   region is a whole contig / absent (DESIGN section 10) *)
Definition cross_comparable (c : geno) (q : query) : bool :=
  match q_region q with
  | None => true
  | Some (_, None, None) => true
  | Some _ => forallb (fun v => v_reflen v =? 1) (g_variants c)
  end.

Definition holds_cross_full (k : rcase) : bool :=
  match fo_full (rc_vcf k), fo_full (rc_pgen k) with
  | Ok a, Ok b => geno_samegt a b
  | _, _ => true
  end.

Definition holds_cross_restricted (k : rcase) : bool :=
  negb (cross_comparable (rc_c k) (rc_q k))
  || (rc_vcf_noregion k && match q_region (rc_q k) with Some _ => true | None => false end)
  || match fo_read (rc_vcf k), fo_read (rc_pgen k) with
     | Ok a, Ok b => geno_samegt a b
     | _, _ => true
     end.

Definition holds_cross (k : rcase) : bool := holds_cross_full k && holds_cross_restricted k.

Definition region_eqb (x y : region) : bool :=
  let '(c, a, b) := x in let '(c', a', b') := y in
  (c =? c') && opt_eqb Z.eqb a a' && opt_eqb Z.eqb b b'.

(* A loaded object shows 10 characters of a contig name: "read everything, then subset" is computed from the
   observed full read with the contig of the region cut alike ... *)
Definition load_region (r : region) : region := let '(c, a, b) := r in (load_chrom c, a, b).
Definition load_q (q : query) : query :=
  mkq (option_map load_region (q_region q)) (q_samples q) (q_ids q) (q_max q).

(* ... which is the same selection as long as the contigs of the file and of the region differ within
   their first 10 characters (ASSUMPTIONS) *)
Definition names_dom (k : rcase) : bool :=
  nodupb (map load_chrom
            (nodup Z.eq_dec (chroms_of (rc_c k)
                             ++ match q_region (rc_q k) with Some (c, _, _) => [c] | None => [] end))).

(* Known finding, behind the switch STRICT_REGION_CONTIG_NAMES (rc_fixed_region): the PGEN reader of the tree
   as it is splits the region text at EVERY ':' and '-'.  While the switch is off, a query whose text that
   parser does not read as the region that was meant is not held against the PGEN reader. *)
Definition pgen_region_misread (k : rcase) : bool :=
  negb (rc_fixed_region k)
  && match rc_regstr k, q_region (rc_q k) with
     | Some s, Some r => negb (res_eqb region_eqb (pgen_region false (chroms_of (rc_c k)) s) (Ok r))
     | _, _ => false
     end.

(* A region handed to the VCF reader of a file without an index: htslib cannot answer; a refusal (an
   exception from both the bulk read and the iterator) is accepted, a result must be the right one. *)
Definition holds_vcf (k : rcase) : bool :=
  (rc_vcf_unindexed k
   && match fo_read (rc_vcf k), fo_iter (rc_vcf k), fo_full (rc_vcf k) with
      | Err _, Err _, Ok _ => true
      | _, _, _ => false
      end)
  || holds_fmt (rc_strict_samples k) (load_q (vcf_q k)) (rc_vcf k).

(* the property speaks of files whose variant IDs are unique (ASSUMPTIONS); a file with a repeated ID is
   compared with the model only *)
Definition read_dom (k : rcase) : bool := nodupb (map v_id (g_variants (rc_c k))) && names_dom k.

(* what a caller that holds on to records / arrays sees of one format *)
Definition holds_kept (fo : fobs) : bool := held_same fo && holds_again fo.

Definition holds_read (k : rcase) : bool :=
  negb (read_dom k)
  || (holds_vcf k && holds_kept (rc_vcf k) && holds_cross_full k
      && (pgen_region_misread k
          || (holds_fmt (rc_strict_samples k) (load_q (rc_q k)) (rc_pgen k) && holds_kept (rc_pgen k)
              && holds_cross_restricted k))).

Definition check_read (k : rcase) : bool * bool := (agree_read k, holds_read k).

(* ---- subset() ------------------------------------------------------------------ *)

Record scase := mksc {
  sc_g : geno; sc_S : option (list Z); sc_V : option (list Z);
  sc_obs : res geno
}.

Definition model_subset (k : scase) : res geno := subset (sc_g k) (sc_S k) (sc_V k).

Definition find_rec (id : Z) (recs : list vrec) : option vrec :=
  find (fun x : vrec => v_id (fst x) =? id) recs.

(* the call of sample s at variant id in g, looked up by name *)
Definition cell (g : geno) (id s : Z) : option call :=
  match find_rec id (combine (g_variants g) (g_rows g)), index_of s (g_samples g) with
  | Some (_, row), Some i => nth_error row i
  | _, _ => None
  end.

Definition subset_dom (g : geno) : bool :=
  nodupb (g_samples g) && nodupb (map v_id (g_variants g))
  && (lenZ (g_rows g) =? lenZ (g_variants g))
  && forallb (fun r : list call => lenZ r =? lenZ (g_samples g)) (g_rows g).

Definition holds_subset (k : scase) : bool :=
  let g := sc_g k in
  if subset_dom g then
    match sc_obs k with
    | Err _ => false
    | Ok g' =>
      let ids := map v_id (g_variants g) in
      let recs := combine (g_variants g) (g_rows g) in
      (* requested order, unknown names dropped *)
      list_eqb Z.eqb (g_samples g')
        (match sc_S k with None => g_samples g | Some S0 => filter (fun s => memZ s (g_samples g)) S0 end)
      && list_eqb Z.eqb (map v_id (g_variants g'))
        (match sc_V k with None => ids | Some V0 => filter (fun v => memZ v ids) V0 end)
      (* every variant record and every cell is the one the name denotes in g *)
      && (lenZ (g_rows g') =? lenZ (g_variants g'))
      && forallb (fun vr : vrec =>
            match find_rec (v_id (fst vr)) recs with
            | Some (v, _) => variant_eqb v (fst vr)
            | None => false end
            && (lenZ (snd vr) =? lenZ (g_samples g'))
            && forallb (fun sc : Z * call =>
                  opt_eqb call_eqb (cell g (v_id (fst vr)) (fst sc)) (Some (snd sc)))
                 (combine (g_samples g') (snd vr)))
          (combine (g_variants g') (g_rows g'))
    end
  else true.

Definition check_subset (k : scase) : bool * bool :=
  (res_eqb geno_eqb (model_subset k) (sc_obs k), holds_subset k).

(* ---- read(), then a sequence of subset() calls on the loaded object ---------------- *)
(* One case of the [seq] relation = one file (VCF/BCF or PGEN), one query; observed:
   read() of everything, read(query), then  full.subset(samples of the restricted read,
   IDs of the restricted read)  ("read everything, then subset"), then a sequence of
   subset() calls - copying and in place - starting on the object of the restricted
   read; before every call the object it is made on is dumped.
   [agree]: the model reproduces every observation (so a copying subset leaves the
   object alone and an in-place one replaces it).
   [holds], from the observations alone: the restricted read is the full read filtered
   in file order; read(everything)+subset gives the same samples, variants and calls as
   the restricted read; every subset() call returns the requested known samples and
   variants in the requested order, each cell being the one its names denote in the
   object the call was made on (the dump taken just before the call). *)

Record sstep := mkss {
  ss_S : option (list Z); ss_V : option (list Z);
  ss_keep : bool;            (* in place, or the caller goes on with the returned copy *)
  ss_before : res geno;      (* the object the call is made on, dumped just before *)
  ss_obs : res geno          (* the returned object / the object after an in-place call *)
}.

Record qcase := mkqc {
  qc_c : geno; qc_q : query;
  qc_pgen : bool;                 (* GenotypesPLINK on .pgen, else GenotypesVCF on .vcf/.vcf.gz/.bcf *)
  qc_chunk : option Z;
  qc_strict_samples : bool;       (* switch STRICT_EMPTY_SAMPLE_SELECTION *)
  qc_strict_nocells : bool;       (* switch STRICT_SUBSET_AFTER_EMPTY_READ *)
  qc_full : res geno; qc_read : res geno; qc_warned : bool;
  qc_comp : option (res geno);    (* None: not performed because a read raised *)
  qc_steps : list sstep
}.

Definition model_seq (k : qcase) :=
  let c := qc_c k in
  let rdq := fun q => if qc_pgen k then pgen_read_x pload_std (qc_strict_samples k) (qc_chunk k) c q
                      else vcf_read_x (qc_strict_samples k) c q in
  let full := rdq q_all in
  let rd := rdq (qc_q k) in
  let comp := match full, rd with
              | Ok f, Ok r => Some (subset_impl (qc_strict_nocells k) f (Some (g_samples r))
                                                 (Some (map v_id (g_variants r))))
              | _, _ => None
              end in
  (full, rd, comp,
   match rd with
   | Ok g => run_subsets (qc_strict_nocells k) g (map (fun s => (ss_S s, ss_V s, ss_keep s)) (qc_steps k))
   | Err _ => []
   end).

Definition agree_seq (k : qcase) : bool :=
  let '(full, rd, comp, steps) := model_seq k in
  res_eqb geno_eqb full (qc_full k) && res_eqb geno_eqb rd (qc_read k)
  && opt_eqb (res_eqb geno_eqb) comp (qc_comp k)
  && list_eqb (pair_eqb (res_eqb geno_eqb) (res_eqb geno_eqb))
       (map (fun x : geno * res geno => (Ok (fst x), snd x)) steps)
       (map (fun s => (ss_before s, ss_obs s)) (qc_steps k)).

(* the bulk-read part of holds_fmt *)
Definition holds_rd (q : query) (full rd : geno) (warned : bool) : bool :=
  let m := keep_mask (q_samples q) (g_samples full) in
  let sel := expected q full rd in
  list_eqb Z.eqb (g_samples rd) (mask m (g_samples full))
  && list_eqb variant_eqb (g_variants rd) (map fst sel)
  && (if is_nil sel then is_nil (g_rows rd) && warned
      else rows_eqb (g_rows rd) (map (fun x : vrec => mask m (snd x)) sel)).

(* an object whose array has no cells although it lists samples or variants: what a VCF
   read that matched nothing leaves behind *)
Definition hollow (g : geno) : bool :=
  no_cells g && (negb (is_nil (g_samples g)) || negb (is_nil (g_variants g))).

Definition holds_step (strict_nocells : bool) (s : sstep) : bool :=
  match ss_before s with
  | Err _ => true
  | Ok b => if hollow b && negb strict_nocells then true
            else holds_subset (mksc b (ss_S s) (ss_V s) (ss_obs s))
  end.

Definition holds_comp (strict_nocells : bool) (full rd : geno) (comp : option (res geno)) : bool :=
  match comp with
  | Some (Ok cp) =>
      list_eqb Z.eqb (g_samples cp) (g_samples rd)
      && list_eqb variant_eqb (g_variants cp) (g_variants rd)
      && rows_eqb (g_rows cp) (g_rows rd)
  | Some (Err _) => hollow full && negb strict_nocells
  | None => false
  end.

Definition holds_seq (k : qcase) : bool :=
  forallb (holds_step (qc_strict_nocells k)) (qc_steps k)
  && match qc_full k with
     | Err _ => false
     | Ok full =>
       let q := qc_q k in
       if is_nil (mask (keep_mask (q_samples q) (g_samples full)) (g_samples full)) then
         negb (qc_strict_samples k)
         || match qc_read k with
            | Ok rd => is_nil (g_samples rd) && forallb is_nil (g_rows rd) && qc_warned k
            | Err _ => false
            end
       else
         match qc_read k with
         | Err _ => false
         | Ok rd => holds_rd q full rd (qc_warned k) && holds_comp (qc_strict_nocells k) full rd (qc_comp k)
         end
     end.

Definition check_seq (k : qcase) : bool * bool := (agree_seq k, holds_seq k).

(* ---- one command on the same content as VCF and as PGEN --------------------------------------- *)
(* One case of the [cmdfmt] relation = one content written as .vcf.gz+tbi and as .pgen/.pvar/.psam, one
   haptools command (transform, ld, ld --from-gts, simphenotype --seed, clump) run on each with the same
   options.  Recorded: the arguments of the read() the command made on the genotypes file and the object
   that read left; the exit code, the exception kind and the records of the output file.
   [agree]: the two reads got the same query, and each loaded what the model of its reader loads for it.
   [holds]: both runs end alike - the same exit code and exception kind, the same output records (tokens
   interned by the harness; the separator of a homozygous GT is immaterial). *)

Record cout := mkco {
  co_exit : Z;                        (* exit code; 97 = the run was not observed *)
  co_exc : Z;                         (* error kind of the exception that ended the run, 0 = none *)
  co_out : option (list (list Z))     (* the records of the output file, None = no output *)
}.

Definition cout_eqb (x y : cout) : bool :=
  (co_exit x =? co_exit y) && (co_exc x =? co_exc y)
  && opt_eqb (list_eqb (list_eqb Z.eqb)) (co_out x) (co_out y).

Record ccase := mkcc {
  cc_c : geno;                 (* the content; contigs as [enc] numbers *)
  cc_q : query;                (* the query the command handed to read(): region as meant, samples, IDs, max *)
  cc_chunk : option Z;
  cc_regstr : option str;
  cc_fixed_region : bool;      (* switch STRICT_REGION_CONTIG_NAMES *)
  cc_strict_samples : bool;    (* switch STRICT_EMPTY_SAMPLE_SELECTION *)
  cc_strict_empty : bool;      (* switch STRICT_CMD_EMPTY_LOAD *)
  cc_same_query : bool;        (* both runs handed the same arguments to read(), the region being the text of cc_q's *)
  cc_load_v : option (res geno);   (* what read() left (None: the run did not get as far as reading the genotypes) *)
  cc_load_p : option (res geno);
  cc_out_v : cout;
  cc_out_p : cout
}.

Definition model_cmdfmt (k : ccase) : res geno * res geno :=
  let c := cc_c k in let q := cc_q k in let fx := cc_strict_samples k in
  match cc_regstr k with
  | Some s => (rmap load_names (vcf_read_s fx c q s),
               rmap load_names (pgen_read_s pload_std (cc_fixed_region k) fx (cc_chunk k) c q s))
  | None => (rmap load_names (vcf_read_x fx c q),
             rmap load_names (pgen_read_x pload_std fx (cc_chunk k) c q))
  end.

Definition agree_cmdfmt (k : ccase) : bool :=
  let '(mv, mp) := model_cmdfmt k in
  cc_same_query k
  && match cc_load_v k with Some o => res_eqb geno_eqb mv o | None => true end
  && match cc_load_p k with Some o => res_eqb geno_eqb mp o | None => true end.

(* the known finding of [read] (a region text the legacy PGEN parser misreads) shows at command level too *)
Definition cmd_region_misread (k : ccase) : bool :=
  negb (cc_fixed_region k)
  && match cc_regstr k, q_region (cc_q k) with
     | Some s, Some r => negb (res_eqb region_eqb (pgen_region false (chroms_of (cc_c k)) s) (Ok r))
     | _, _ => false
     end.

(* Known finding, behind the switch STRICT_CMD_EMPTY_LOAD: when the command's read matches nothing the VCF
   reader leaves an array of shape (0, 0, 0) and the PGEN reader one of shape (n, 0, 3); simphenotype
   computes with the number of rows of the array and prints no sample for the VCF, n noise-only phenotypes
   for the PGEN.  While the switch is off a run whose two loads differ in shape is not held against the
   command. *)
Definition shapes_differ (k : ccase) : bool :=
  match cc_load_v k, cc_load_p k with
  | Some (Ok a), Some (Ok b) =>
      (* the VCF read left an array without cells beside the same samples and variants as the PGEN read *)
      no_cells a && list_eqb Z.eqb (g_samples a) (g_samples b)
      && list_eqb variant_eqb (g_variants a) (g_variants b)
      && negb (list_eqb Z.eqb (g_shape a) (g_shape b))
  | _, _ => false
  end.

Definition cmd_empty_excused (k : ccase) : bool := negb (cc_strict_empty k) && shapes_differ k.

Definition holds_cmdfmt (k : ccase) : bool :=
  cmd_region_misread k || cmd_empty_excused k || cout_eqb (cc_out_v k) (cc_out_p k).

Definition check_cmdfmt (k : ccase) : bool * bool := (agree_cmdfmt k, holds_cmdfmt k).
