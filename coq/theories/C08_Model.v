(* C08 - executable model of restricted genotype reads and of subset()
   (haptools/data/genotypes.py: Genotypes.read/__iter__/_iterate/subset/index,
   GenotypesPLINK.read/read_samples/read_variants/_iterate_variants/_check_region/
   __iter__/_iterate).  No proofs here.

   A file's content is a [geno] (C07_Model): samples, variants and the
   variant-major rows of calls (allele0, allele1, phase flag) as they are stored.
   The VCF reader returns a stored call unchanged (C07: vload contract); the PGEN
   reader returns it through pgenlib ([pload]: phasepresent is 1 for homozygous,
   0 for missing calls).  Strings are interned integers. *)
From HV Require Import Prelude C07_Model.

Definition E_Attribute : Z := 5.

Definition memZ (x : Z) (l : list Z) : bool := existsb (Z.eqb x) l.

(* region string 'c', 'c:a-b', 'c:a-' parsed: contig, optional start, optional end *)
Definition region := (Z * option Z * option Z)%type.

Record query := mkq {
  q_region : option region;
  q_samples : option (list Z);    (* a Python set: duplicate-free *)
  q_ids : option (list Z);        (* a Python set: duplicate-free *)
  q_max : option Z                (* max_variants *)
}.

Notation vrec := (variant * list call)%type.

(* ---- sample restriction: file order, unknown names ignored ------------------ *)

Definition keep_mask (S : option (list Z)) (samples : list Z) : list bool :=
  map (fun s => match S with None => true | Some S' => memZ s S' end) samples.

Fixpoint mask {A} (m : list bool) (l : list A) : list A :=
  match m, l with
  | b :: m', x :: l' => if b then x :: mask m' l' else mask m' l'
  | _, _ => []
  end.

(* ---- region predicates ------------------------------------------------------- *)

(* htslib (tabix/csi query behind cyvcf2's vcf(region)): records whose
   [pos, pos + len(REF) - 1] overlaps the 1-based closed interval; an inverted
   interval (start > end) is empty *)
Definition in_region_vcf (r : region) (v : variant) : bool :=
  let '(c, a, b) := r in
  (v_chrom v =? c)
  && match a with None => true | Some a' => a' <=? v_pos v + v_reflen v - 1 end
  && match b with None => true | Some b' => v_pos v <=? b' end
  && match a, b with Some a', Some b' => a' <=? b' | _, _ => true end.

(* GenotypesPLINK._check_region: chrom == c and start <= pos and end >= pos *)
Definition in_region_pgen (r : region) (v : variant) : bool :=
  let '(c, a, b) := r in
  (v_chrom v =? c)
  && match a with None => true | Some a' => a' <=? v_pos v end
  && match b with None => true | Some b' => v_pos v <=? b' end.

(* ---- VCF: Genotypes._iterate ------------------------------------------------- *)

(* the ID filter with its early exit: stop at the first non-matching record once
   len(variants) records have been yielded *)
Fixpoint id_scan (V : list Z) (seen : Z) (recs : list vrec) : list vrec :=
  match recs with
  | [] => []
  | r :: rs =>
      if memZ (v_id (fst r)) V then r :: id_scan V (seen + 1) rs
      else if lenZ V <=? seen then [] else id_scan V seen rs
  end.

Definition vcf_records (c : geno) (q : query) : list vrec :=
  let recs := combine (g_variants c) (g_rows c) in
  let r1 := match q_region q with
            | None => recs
            | Some r => filter (fun x => in_region_vcf r (fst x)) recs end in
  match q_ids q with
  | None => r1
  | Some V => id_scan V 0 r1
  end.

Definition is_nil {A} (l : list A) : bool := match l with [] => true | _ => false end.

Definition take {A} (m : option Z) (l : list A) : list A :=
  match m with None => l | Some k => firstn (Z.to_nat k) l end.

(* Genotypes.__iter__(region, samples, variants): the samples cyvcf2 kept and the
   records.  With no sample selected cyvcf2's variant.genotype is None: the first
   record raises AttributeError. *)
Definition vcf_iter_q (c : geno) (q : query) : res (list Z * list vrec) :=
  let m := keep_mask (q_samples q) (g_samples c) in
  let samples' := mask m (g_samples c) in
  let recs := vcf_records c q in
  if is_nil samples' && negb (is_nil recs) then Err E_Attribute
  else Ok (samples', map (fun r => (fst r, mask m (snd r))) recs).

(* Genotypes.read(region, samples, variants, max_variants) *)
Definition vcf_read_q (c : geno) (q : query) : res geno :=
  bind (vcf_iter_q c q) (fun sr =>
    let '(samples', recs) := sr in
    let mv := match q_ids q with Some V => Some (lenZ V) | None => q_max q end in
    let recs' := take mv recs in
    let n := lenZ samples' in
    let p := lenZ recs' in
    if (n =? 0) || (p =? 0)
    then Ok (mkg samples' (map fst recs') [] [0; 0; 0])
    else Ok (mkg samples' (map fst recs') (map snd recs') [n; p; 3])).

(* ---- PGEN: GenotypesPLINK._iterate_variants / read_variants / read ------------ *)

(* num_seen is never incremented in _iterate_variants, so the early exit fires
   only for an empty ID set *)
Fixpoint pvar_scan (reg : option region) (V : option (list Z)) (recs : list vrec) : list vrec :=
  match recs with
  | [] => []
  | r :: rs =>
      if match reg with Some rg => negb (in_region_pgen rg (fst r)) | None => false end
      then pvar_scan reg V rs
      else match V with
           | None => r :: pvar_scan reg V rs
           | Some V' =>
               if memZ (v_id (fst r)) V' then r :: pvar_scan reg V rs
               else if lenZ V' <=? 0 then [] else pvar_scan reg V rs
           end
  end.

Definition to_stored (r : list call) : list scall :=
  map (fun c : call => let '(a, b, p) := c in (code_of a, code_of b, p)) r.

Section Pgen.
  Variable pload : scall -> scall.

  Definition pgen_records (c : geno) (q : query) : list vrec :=
    pvar_scan (q_region q) (q_ids q) (combine (g_variants c) (g_rows c)).

  (* GenotypesPLINK.__iter__: PvarReader, read_samples, PgenReader (raises on an
     empty sample subset), then one record per variant.  A .pvar without variants
     makes PvarReader raise: legacy = pinned tree lets the RuntimeError escape,
     fixed = warning + samples + empty iterator, like read() *)
  Definition pgen_iter_q (legacy : bool) (c : geno) (q : query) : res (list Z * list vrec) :=
    let m := keep_mask (q_samples q) (g_samples c) in
    let samples' := mask m (g_samples c) in
    if is_nil (g_variants c) then (if legacy then Err E_Runtime else Ok (samples', []))
    else if is_nil samples' then Err E_Runtime
    else Ok (samples', map (fun r => (fst r, map (load_call pload) (to_stored (mask m (snd r)))))
                           (pgen_records c q)).

  (* GenotypesPLINK.read; legacy = pinned tree (range(0, 0, 0) on an empty match) *)
  Definition pgen_read_q (legacy : bool) (chunk : option Z) (c : geno) (q : query) : res geno :=
    let m := keep_mask (q_samples q) (g_samples c) in
    let samples' := mask m (g_samples c) in
    let n := lenZ samples' in
    let p := lenZ (g_variants c) in
    if p =? 0 then Ok (mkg samples' [] [] [n; 0; 3])       (* "No variants in" branch *)
    else if n =? 0 then Err E_Runtime                       (* Empty sample_subset is not permitted *)
    else
      let mv := match q_ids q with
                | Some V => lenZ V
                | None => match q_max q with None => p | Some k => Z.min k p end
                end in
      let recs := firstn (Z.to_nat mv) (pgen_records c q) in
      bind (pgen_load_chunks pload legacy chunk (map (fun r => to_stored (mask m (snd r))) recs))
           (fun rows => Ok (mkg samples' (map fst recs) rows [n; lenZ recs; 3])).
End Pgen.

(* ---- subset() ------------------------------------------------------------------ *)

Fixpoint index_of (x : Z) (l : list Z) : option nat :=
  match l with
  | [] => None
  | y :: r => if x =? y then Some O else option_map S (index_of x r)
  end.

Fixpoint nodupb (l : list Z) : bool :=
  match l with [] => true | x :: r => negb (memZ x r) && nodupb r end.

(* positions (in the object) of the requested names that are present, in the
   requested order; unknown names dropped *)
Fixpoint positions (req : list Z) (have : list Z) : list nat :=
  match req with
  | [] => []
  | x :: r => match index_of x have with
              | Some i => i :: positions r have
              | None => positions r have end
  end.

Definition pick {A} (d : A) (idx : list nat) (l : list A) : list A := map (fun i => nth i l d) idx.

Definition dummy_variant : variant := mkvar 0 0 0 [] 0.
Definition dummy_call : call := (0, 0, 0).

(* Genotypes.subset(samples, variants): index() raises ValueError on duplicate
   IDs of the kind that is being subset *)
Definition subset (g : geno) (S V : option (list Z)) : res geno :=
  let ids := map v_id (g_variants g) in
  if match S with Some _ => negb (nodupb (g_samples g)) | None => false end then Err E_Value
  else if match V with Some _ => negb (nodupb ids) | None => false end then Err E_Value
  else
    let '(samples', rows1) :=
      match S with
      | None => (g_samples g, g_rows g)
      | Some S' => let idx := positions S' (g_samples g) in
                   (pick 0 idx (g_samples g), map (pick dummy_call idx) (g_rows g))
      end in
    let '(variants', rows2) :=
      match V with
      | None => (g_variants g, rows1)
      | Some V' => let idx := positions V' ids in
                   (pick dummy_variant idx (g_variants g), pick [] idx rows1)
      end in
    Ok (mkg samples' variants' rows2
            [lenZ samples'; lenZ variants'; nth 2 (g_shape g) 3]).

(* ---- the specification side: "read everything, then subset" ------------------- *)

(* the rows and columns a query selects, in file order, decided record by record
   ([inreg] = the region predicate of the format) *)
Definition select (inreg : region -> variant -> bool) (q : query) (recs : list vrec) : list vrec :=
  filter (fun x =>
            match q_region q with None => true | Some r => inreg r (fst x) end
            && match q_ids q with None => true | Some V => memZ (v_id (fst x)) V end) recs.

(* ---- subset() as the implementation runs it, on any object a read can leave --- *)

Definition E_Index : Z := 2.

(* Genotypes.read stores an array of shape (0, 0, 0) when nothing matched, beside the
   samples (and, with no sample selected, the variants) that were found.  On such an
   object [data[samp_idx, :]] / [data[:, var_idx]] raise IndexError as soon as one
   requested name is known; [fixed] = subset() leaves an array without cells alone
   (fixes/C08_subset_after_empty_read.patch).  On every other object this is [subset]. *)
Definition no_cells (g : geno) : bool := (nth 0 (g_shape g) 0 =? 0) && (nth 1 (g_shape g) 0 =? 0).

Definition hits (req : option (list Z)) (have : list Z) : bool :=
  match req with Some l => negb (is_nil (positions l have)) | None => false end.

Definition subset_impl (fixed : bool) (g : geno) (S V : option (list Z)) : res geno :=
  if no_cells g then
    match subset g S V with
    | Err e => Err e
    | Ok r =>
        if negb fixed && (hits S (g_samples g) || hits V (map v_id (g_variants g))) then Err E_Index
        else Ok (mkg (g_samples r) (g_variants r) [] (g_shape g))
    end
  else subset g S V.

(* a sequence of subset() calls on one object: a request is (samples, variants, keep);
   keep = the call was in place, or the caller continues with the returned copy;
   otherwise the next call is made on the same object again.  The run stops at the
   first exception.  Result: for every call made, the object it was made on and what
   it returned. *)
Definition sreq := (option (list Z) * option (list Z) * bool)%type.

Fixpoint run_subsets (fixed : bool) (g : geno) (reqs : list sreq) : list (geno * res geno) :=
  match reqs with
  | [] => []
  | (sS, sV, keep) :: rest =>
      let o := subset_impl fixed g sS sV in
      (g, o) :: match o with
                | Err _ => []
                | Ok g' => run_subsets fixed (if keep then g' else g) rest
                end
  end.

(* ---- a sample restriction that selects nobody ---------------------------------- *)

(* [fixed] = the readers after fixes/C08_empty_sample_selection.patch: neither cyvcf2's
   genotype array nor pgenlib's reader is asked for zero samples; the result is the
   selected variants without any sample (and a warning).  [fixed = false] is the tree
   as it is: AttributeError (cyvcf2) / RuntimeError (pgenlib). *)
Definition sel_samples (c : geno) (q : query) : list Z :=
  mask (keep_mask (q_samples q) (g_samples c)) (g_samples c).

Definition vcf_iter_x (fixed : bool) (c : geno) (q : query) : res (list Z * list vrec) :=
  if fixed && is_nil (sel_samples c q)
  then Ok ([], map (fun r : vrec => (fst r, [])) (vcf_records c q))
  else vcf_iter_q c q.

Definition vcf_read_x (fixed : bool) (c : geno) (q : query) : res geno :=
  if fixed && is_nil (sel_samples c q)
  then let mv := match q_ids q with Some V => Some (lenZ V) | None => q_max q end in
       Ok (mkg [] (map fst (take mv (vcf_records c q))) [] [0; 0; 0])
  else vcf_read_q c q.

Section PgenX.
  Variable pload : scall -> scall.

  Definition pgen_iter_x (fixed : bool) (c : geno) (q : query) : res (list Z * list vrec) :=
    if fixed && is_nil (sel_samples c q) && negb (is_nil (g_variants c))
    then Ok ([], map (fun r : vrec => (fst r, [])) (pgen_records c q))
    else pgen_iter_q pload false c q.

  Definition pgen_read_x (fixed : bool) (chunk : option Z) (c : geno) (q : query) : res geno :=
    if fixed && is_nil (sel_samples c q) && negb (is_nil (g_variants c))
    then let p := lenZ (g_variants c) in
         let mv := match q_ids q with
                   | Some V => lenZ V
                   | None => match q_max q with None => p | Some k => Z.min k p end
                   end in
         let recs := firstn (Z.to_nat mv) (pgen_records c q) in
         Ok (mkg [] (map fst recs) (map (fun _ => []) recs) [0; lenZ recs; 3])
    else pgen_read_q pload false chunk c q.
End PgenX.
