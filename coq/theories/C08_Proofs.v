(* C08 - proofs about the model of restricted reads and subset(). *)
From HV Require Import Prelude C07_Model C07_Check C07_Proofs C08_Model C08_Check.

Lemma memZ_In x l : memZ x l = true <-> In x l.
Proof.
  unfold memZ. rewrite existsb_exists. split.
  - intros [y [Hy E]]. apply Z.eqb_eq in E. subst. exact Hy.
  - intros H. exists x. split; [exact H|apply Z.eqb_refl].
Qed.
