(* C08 - proofs about the model of restricted reads and subset(). *)
From HV Require Import Prelude C07_Model C07_Check C07_Proofs C08_Model C08_Check.

Lemma memZ_In x l : memZ x l = true <-> In x l.
Proof.
  unfold memZ. rewrite existsb_exists. split.
  - intros [y [Hy E]]. apply Z.eqb_eq in E. subst. exact Hy.
  - intros H. exists x. split; [exact H|apply Z.eqb_refl].
Qed.

Lemma lenZ_cons {A} (a : A) l : lenZ (a :: l) = 1 + lenZ l.
Proof. unfold lenZ. cbn [length]. lia. Qed.

Lemma lenZ_nonneg {A} (l : list A) : 0 <= lenZ l.
Proof. unfold lenZ. lia. Qed.

(* ---- the selection predicate -------------------------------------------------- *)

Definition sel_pred (inreg : region -> variant -> bool) (reg : option region) (V : option (list Z))
  (x : vrec) : bool :=
  match reg with None => true | Some r => inreg r (fst x) end
  && match V with None => true | Some V' => memZ (v_id (fst x)) V' end.

Lemma select_eq inreg q recs :
  select inreg q recs = filter (sel_pred inreg (q_region q) (q_ids q)) recs.
Proof. reflexivity. Qed.

Lemma filter_filter {A} (f g : A -> bool) l :
  filter f (filter g l) = filter (fun x => g x && f x) l.
Proof.
  induction l as [|a r IH]; [reflexivity|]. cbn. destruct (g a); cbn; [destruct (f a)|]; rewrite IH; reflexivity.
Qed.

Lemma filter_length_le {A} (f : A -> bool) l : (length (filter f l) <= length l)%nat.
Proof. induction l as [|a r IH]; cbn; [lia|]. destruct (f a); cbn; lia. Qed.

Definition ids_of (recs : list vrec) : list Z := map (fun x : vrec => v_id (fst x)) recs.

Lemma NoDup_ids_filter (g : vrec -> bool) recs : NoDup (ids_of recs) -> NoDup (ids_of (filter g recs)).
Proof.
  unfold ids_of. induction recs as [|a r IH]; intros H; cbn; [constructor|].
  inversion H as [|? ? Hn Hr]; subst. destruct (g a); [|apply IH; exact Hr].
  cbn. constructor; [|apply IH; exact Hr].
  intro Hin. apply Hn. apply in_map_iff in Hin. destruct Hin as [x [Ex Hx]].
  apply filter_In in Hx. apply in_map_iff. exists x. tauto.
Qed.

(* with unique IDs in the file and a set of IDs, at most |V| records match *)
Lemma matches_le V recs : NoDup (ids_of recs) -> NoDup V ->
  lenZ (filter (fun x : vrec => memZ (v_id (fst x)) V) recs) <= lenZ V.
Proof.
  intros Hr HV. unfold lenZ. apply inj_le.
  rewrite <- (map_length (fun x : vrec => v_id (fst x))).
  apply NoDup_incl_length.
  - apply (NoDup_ids_filter _ _ Hr).
  - intros i Hi. apply in_map_iff in Hi. destruct Hi as [x [<- Hx]].
    apply filter_In in Hx. apply memZ_In. tauto.
Qed.

(* ---- VCF: the ID filter's early exit never loses a record --------------------- *)

Lemma id_scan_filter V : forall recs seen,
  seen + lenZ (filter (fun x : vrec => memZ (v_id (fst x)) V) recs) <= lenZ V ->
  id_scan V seen recs = filter (fun x : vrec => memZ (v_id (fst x)) V) recs.
Proof.
  induction recs as [|r rs IH]; intros seen H; [reflexivity|].
  cbn [id_scan filter] in *. destruct (memZ (v_id (fst r)) V) eqn:E.
  - rewrite lenZ_cons in H. rewrite IH by lia. reflexivity.
  - destruct (lenZ V <=? seen) eqn:E2.
    + apply Z.leb_le in E2. symmetry. apply lenZ_0_nil.
      pose proof (lenZ_nonneg (filter (fun x : vrec => memZ (v_id (fst x)) V) rs)). lia.
    + apply IH. exact H.
Qed.

Lemma ids_of_combine (vs : list variant) (rows : list (list call)) :
  length rows = length vs -> ids_of (combine vs rows) = map v_id vs.
Proof.
  revert rows. induction vs as [|v r IH]; intros [|b rb] H; cbn in *; try discriminate; try reflexivity.
  rewrite IH by lia. reflexivity.
Qed.

Lemma vcf_records_select c q :
  NoDup (map v_id (g_variants c)) -> length (g_rows c) = length (g_variants c) ->
  (forall V, q_ids q = Some V -> NoDup V) ->
  vcf_records c q = select in_region_vcf q (combine (g_variants c) (g_rows c)).
Proof.
  intros Hnd Hlen HV. unfold vcf_records. rewrite select_eq. unfold sel_pred.
  set (recs := combine (g_variants c) (g_rows c)).
  assert (Hids : NoDup (ids_of recs)).
  { unfold recs. rewrite ids_of_combine by exact Hlen. exact Hnd. }
  destruct (q_ids q) as [V|] eqn:EV.
  - specialize (HV V eq_refl).
    destruct (q_region q) as [r|].
    + rewrite id_scan_filter.
      * rewrite filter_filter. reflexivity.
      * cbn. apply matches_le; [apply NoDup_ids_filter; exact Hids|exact HV].
    + rewrite id_scan_filter; [reflexivity|]. cbn. apply matches_le; assumption.
  - destruct (q_region q) as [r|].
    + apply filter_ext. intros x. rewrite andb_true_r. reflexivity.
    + symmetry. clear. induction recs as [|a r IH]; [reflexivity|]. cbn [filter andb]. f_equal. exact IH.
Qed.

(* ---- PGEN: _iterate_variants is the same filter (no uniqueness needed) -------- *)

Lemma filter_empty_ids inreg reg recs : filter (sel_pred inreg reg (Some [])) recs = [].
Proof.
  induction recs as [|a r IH]; [reflexivity|]. cbn [filter]. unfold sel_pred at 1. cbn [memZ existsb].
  rewrite andb_false_r. exact IH.
Qed.

Lemma pvar_scan_select reg V recs :
  pvar_scan reg V recs = filter (sel_pred in_region_pgen reg V) recs.
Proof.
  induction recs as [|r rs IH]; [reflexivity|]. cbn [pvar_scan filter]. unfold sel_pred at 1.
  destruct reg as [rg|].
  - destruct (in_region_pgen rg (fst r)); cbn [negb andb]; [|exact IH].
    destruct V as [V'|]; [|rewrite IH; reflexivity].
    destruct (memZ (v_id (fst r)) V') eqn:E; [rewrite IH; reflexivity|].
    destruct (lenZ V' <=? 0) eqn:E0; [|exact IH].
    apply Z.leb_le in E0. pose proof (lenZ_nonneg V').
    rewrite (lenZ_0_nil V') by lia. symmetry. apply filter_empty_ids.
  - cbn [andb]. destruct V as [V'|]; [|rewrite IH; reflexivity].
    destruct (memZ (v_id (fst r)) V') eqn:E; [rewrite IH; reflexivity|].
    destruct (lenZ V' <=? 0) eqn:E0; [|exact IH].
    apply Z.leb_le in E0. pose proof (lenZ_nonneg V').
    rewrite (lenZ_0_nil V') by lia. symmetry. apply filter_empty_ids.
Qed.

(* ---- what a restricted read returns ------------------------------------------- *)

Definition wf_content (c : geno) : Prop :=
  length (g_rows c) = length (g_variants c)
  /\ Forall (fun r : list call => length r = length (g_samples c)) (g_rows c)
  /\ NoDup (map v_id (g_variants c)).

Definition wf_query (q : query) : Prop := forall V, q_ids q = Some V -> NoDup V.

(* max_variants is ignored when an ID set is given *)
Definition take_q {A} (q : query) (l : list A) : list A :=
  match q_ids q with Some _ => l | None => take (q_max q) l end.

(* the object Genotypes.read builds from the selected samples and records *)
Definition vcf_result (m : list bool) (samples' : list Z) (recs : list vrec) : geno :=
  let n := lenZ samples' in
  let p := lenZ recs in
  if (n =? 0) || (p =? 0) then mkg samples' (map fst recs) [] [0; 0; 0]
  else mkg samples' (map fst recs) (map (fun x : vrec => mask m (snd x)) recs) [n; p; 3].

Lemma take_all {A} k (l : list A) : lenZ l <= k -> take (Some k) l = l.
Proof. intros H. unfold take. apply firstn_all2. unfold lenZ in H. lia. Qed.

Lemma sel_le inreg reg V recs : NoDup (ids_of recs) -> NoDup V ->
  lenZ (filter (sel_pred inreg reg (Some V)) recs) <= lenZ V.
Proof.
  intros Hr HV.
  assert (E : filter (sel_pred inreg reg (Some V)) recs
              = filter (fun x : vrec => memZ (v_id (fst x)) V)
                       (filter (fun x : vrec => match reg with None => true | Some r => inreg r (fst x) end) recs)).
  { rewrite filter_filter. reflexivity. }
  rewrite E. apply matches_le; [apply NoDup_ids_filter; exact Hr|exact HV].
Qed.

Lemma take_q_map {A B} (F : A -> B) q l : take_q q (map F l) = map F (take_q q l).
Proof.
  unfold take_q, take. destruct (q_ids q); [reflexivity|]. destruct (q_max q); [|reflexivity].
  apply firstn_map.
Qed.

Lemma vcf_read_spec c q :
  wf_content c -> wf_query q ->
  let m := keep_mask (q_samples q) (g_samples c) in
  let samples' := mask m (g_samples c) in
  let sel := select in_region_vcf q (combine (g_variants c) (g_rows c)) in
  samples' <> [] \/ sel = [] ->
  vcf_read_q c q = Ok (vcf_result m samples' (take_q q sel))
  /\ vcf_iter_q c q = Ok (samples', map (fun r : vrec => (fst r, mask m (snd r))) sel).
Proof.
  intros [Hlen [Hrows Hnd]] Hq m samples' sel Hne.
  assert (Hit : vcf_iter_q c q = Ok (samples', map (fun r : vrec => (fst r, mask m (snd r))) sel)).
  { unfold vcf_iter_q. rewrite (vcf_records_select c q Hnd Hlen Hq). fold m. fold samples'. fold sel.
    destruct Hne as [Hne| ->].
    - destruct samples'; [congruence|]. reflexivity.
    - rewrite andb_false_r. reflexivity. }
  split; [|exact Hit].
  unfold vcf_read_q. rewrite Hit. cbn [bind].
  set (F := fun r : vrec => (fst r, mask m (snd r))).
  set (G := fun recs' : list (variant * list call) =>
     if (lenZ samples' =? 0) || (lenZ recs' =? 0)
     then Ok (mkg samples' (map fst recs') [] [0; 0; 0])
     else Ok (mkg samples' (map fst recs') (map snd recs') [lenZ samples'; lenZ recs'; 3])).
  set (mv := match q_ids q with Some V => Some (lenZ V) | None => q_max q end).
  change (G (take mv (map F sel)) = Ok (vcf_result m samples' (take_q q sel))).
  assert (Etake : take mv (map F sel) = map F (take_q q sel)).
  { unfold take_q, mv. destruct (q_ids q) as [V|] eqn:EV.
    - rewrite take_all; [reflexivity|]. unfold lenZ. rewrite map_length. fold (lenZ sel).
      unfold sel. rewrite select_eq, EV. apply sel_le; [|apply Hq; exact EV].
      rewrite ids_of_combine by exact Hlen. exact Hnd.
    - unfold take. destruct (q_max q); [apply firstn_map|reflexivity]. }
  rewrite Etake. unfold G, vcf_result.
  assert (El : lenZ (map F (take_q q sel)) = lenZ (take_q q sel)) by (unfold lenZ; rewrite map_length; reflexivity).
  rewrite El. rewrite !map_map. cbn [fst snd F].
  destruct ((lenZ samples' =? 0) || (lenZ (take_q q sel) =? 0)); reflexivity.
Qed.

(* ---- PGEN ---------------------------------------------------------------------- *)

Definition pgen_result (pload : scall -> scall) (m : list bool) (samples' : list Z) (recs : list vrec) : geno :=
  mkg samples' (map fst recs)
      (map (fun x : vrec => map (load_call pload) (to_stored (mask m (snd x)))) recs)
      [lenZ samples'; lenZ recs; 3].

Lemma firstn_min_len {A} (k p : Z) (l : list A) : lenZ l <= p ->
  firstn (Z.to_nat (Z.min k p)) l = firstn (Z.to_nat k) l.
Proof.
  intros H. destruct (Z.le_ge_cases k p) as [Hk|Hk].
  - rewrite Z.min_l by exact Hk. reflexivity.
  - rewrite Z.min_r by exact Hk. unfold lenZ in H.
    rewrite !firstn_all2 by lia. reflexivity.
Qed.

Lemma is_nil_false {A} (l : list A) : l <> [] -> is_nil l = false.
Proof. destruct l; [congruence|reflexivity]. Qed.

Lemma lenZ_nonzero {A} (l : list A) : l <> [] -> (lenZ l =? 0) = false.
Proof. destruct l; [congruence|]. intros _. rewrite lenZ_cons. apply Z.eqb_neq. pose proof (lenZ_nonneg l). lia. Qed.

Lemma pgen_read_spec pload c q chunk :
  wf_content c -> wf_query q -> chunk_dom chunk ->
  let m := keep_mask (q_samples q) (g_samples c) in
  let samples' := mask m (g_samples c) in
  let sel := select in_region_pgen q (combine (g_variants c) (g_rows c)) in
  samples' <> [] ->
  pgen_read_q pload false chunk c q = Ok (pgen_result pload m samples' (take_q q sel))
  /\ pgen_iter_q pload false c q
     = Ok (samples', map (fun r : vrec => (fst r, map (load_call pload) (to_stored (mask m (snd r))))) sel).
Proof.
  intros [Hlen [Hrows Hnd]] Hq Hc m samples' sel Hs.
  assert (Erecs : pgen_records c q = sel).
  { unfold pgen_records. rewrite pvar_scan_select. reflexivity. }
  assert (Hcase : g_variants c = [] \/ g_variants c <> []).
  { destruct (g_variants c); [left; reflexivity|right; discriminate]. }
  destruct Hcase as [Hv0|Hv].
  - (* a file without variants *)
    assert (Esel : sel = []) by (unfold sel; rewrite Hv0; reflexivity).
    assert (Et : take_q q (@nil vrec) = []).
    { unfold take_q, take. destruct (q_ids q); [reflexivity|]. destruct (q_max q); [apply firstn_nil|reflexivity]. }
    split.
    + unfold pgen_read_q. rewrite Hv0. cbn [lenZ length Z.of_nat Z.eqb]. rewrite Esel, Et. reflexivity.
    + unfold pgen_iter_q. rewrite Hv0. cbn [is_nil]. rewrite Esel. reflexivity.
  - split.
    + unfold pgen_read_q. fold m. fold samples'.
      rewrite (lenZ_nonzero _ Hv), (lenZ_nonzero _ Hs). rewrite Erecs.
      set (mv := match q_ids q with
                 | Some V => lenZ V
                 | None => match q_max q with None => lenZ (g_variants c) | Some k => Z.min k (lenZ (g_variants c)) end
                 end).
      assert (Hsel_p : lenZ sel <= lenZ (g_variants c)).
      { unfold sel. rewrite select_eq. unfold lenZ. apply inj_le.
        apply (Nat.le_trans _ (length (combine (g_variants c) (g_rows c)))); [apply filter_length_le|].
        rewrite combine_length. apply Nat.le_min_l. }
      assert (Etake : firstn (Z.to_nat mv) sel = take_q q sel).
      { unfold take_q, mv. destruct (q_ids q) as [V|] eqn:EV.
        - apply firstn_all2.
          assert (lenZ sel <= lenZ V).
          { unfold sel. rewrite select_eq, EV. apply sel_le; [|apply Hq; exact EV].
            rewrite ids_of_combine by exact Hlen. exact Hnd. }
          unfold lenZ in *. lia.
        - unfold take. destruct (q_max q) as [k|].
          + apply firstn_min_len. exact Hsel_p.
          + apply firstn_all2. unfold lenZ in *. lia. }
      rewrite Etake. rewrite load_chunks_irrelevant by exact Hc. cbn [bind].
      unfold pgen_result. rewrite map_map. reflexivity.
    + unfold pgen_iter_q. fold m. fold samples'. rewrite (is_nil_false _ Hv), (is_nil_false _ Hs), Erecs.
      reflexivity.
Qed.

(* ---- "reading everything" ------------------------------------------------------ *)

Lemma mask_all_true {A} (s : list Z) (l : list A) :
  length l = length s -> mask (keep_mask None s) l = l.
Proof.
  revert l. induction s as [|x r IH]; intros [|a l] H; cbn in *; try discriminate; try reflexivity.
  rewrite IH by lia. reflexivity.
Qed.

Lemma select_all inreg recs : select inreg q_all recs = recs.
Proof. rewrite select_eq. cbn. induction recs as [|a r IH]; [reflexivity|]. cbn. rewrite IH. reflexivity. Qed.

Lemma map_mask_rows (s : list Z) (vs : list variant) (rows : list (list call)) :
  Forall (fun r : list call => length r = length s) rows ->
  map (fun x : vrec => mask (keep_mask None s) (snd x)) (combine vs rows) = map snd (combine vs rows).
Proof.
  intros H. apply map_ext_in. intros [v r] Hin. cbn [snd]. apply mask_all_true.
  rewrite Forall_forall in H. apply H. eapply in_combine_r; eauto.
Qed.

Lemma vcf_full_read c : wf_content c -> g_samples c <> [] -> g_variants c <> [] ->
  vcf_read_q c q_all
  = Ok (mkg (g_samples c) (g_variants c) (g_rows c) [lenZ (g_samples c); lenZ (g_variants c); 3]).
Proof.
  intros Hwf Hs Hv. destruct (vcf_read_spec c q_all Hwf) as [E _].
  - intros V H. discriminate.
  - left. rewrite mask_all_true by reflexivity. exact Hs.
  - rewrite E. destruct Hwf as [Hlen [Hrows _]]. f_equal.
    rewrite mask_all_true by reflexivity. rewrite select_all. unfold take_q, take. cbn [q_all q_ids q_max].
    unfold vcf_result.
    assert (El : lenZ (combine (g_variants c) (g_rows c)) = lenZ (g_variants c)).
    { unfold lenZ. rewrite combine_length. lia. }
    rewrite El, (lenZ_nonzero _ Hs), (lenZ_nonzero _ Hv). cbn [orb].
    rewrite (map_mask_rows _ _ _ Hrows), map_combine_fst by exact Hlen.
    rewrite (map_combine_snd (fun r => r)) by exact Hlen. rewrite map_id. reflexivity.
Qed.

Lemma pgen_full_read pload c chunk : wf_content c -> chunk_dom chunk ->
  g_samples c <> [] ->
  pgen_read_q pload false chunk c q_all
  = Ok (mkg (g_samples c) (g_variants c)
            (map (fun r => map (load_call pload) (to_stored r)) (g_rows c))
            [lenZ (g_samples c); lenZ (g_variants c); 3]).
Proof.
  intros Hwf Hc Hs. destruct (pgen_read_spec pload c q_all chunk Hwf) as [E _]; try assumption.
  - intros V H. discriminate.
  - rewrite mask_all_true by reflexivity. exact Hs.
  - rewrite E. destruct Hwf as [Hlen [Hrows _]]. f_equal.
    rewrite mask_all_true by reflexivity. rewrite select_all. unfold take_q, take. cbn [q_all q_ids q_max].
    unfold pgen_result.
    assert (El : lenZ (combine (g_variants c) (g_rows c)) = lenZ (g_variants c)).
    { unfold lenZ. rewrite combine_length. lia. }
    rewrite El, map_combine_fst by exact Hlen. f_equal.
    rewrite <- (map_combine_snd (fun r => map (load_call pload) (to_stored r)) (g_variants c) (g_rows c) Hlen).
    apply map_ext_in. intros [v r] Hin. cbn [snd]. rewrite mask_all_true; [reflexivity|].
    rewrite Forall_forall in Hrows. apply Hrows. eapply in_combine_r; eauto.
Qed.

(* ---- restricted read = full read, then filtered in file order ------------------ *)

Definition restrict_vcf (q : query) (full : geno) : geno :=
  let m := keep_mask (q_samples q) (g_samples full) in
  vcf_result m (mask m (g_samples full))
             (take_q q (select in_region_vcf q (combine (g_variants full) (g_rows full)))).

Definition restrict_pgen (q : query) (full : geno) : geno :=
  let m := keep_mask (q_samples q) (g_samples full) in
  let sel := take_q q (select in_region_pgen q (combine (g_variants full) (g_rows full))) in
  mkg (mask m (g_samples full)) (map fst sel) (map (fun x : vrec => mask m (snd x)) sel)
      [lenZ (mask m (g_samples full)); lenZ sel; 3].

Definition selected_samples (c : geno) (q : query) : list Z :=
  mask (keep_mask (q_samples q) (g_samples c)) (g_samples c).

Lemma read_restricted_eq_subset_vcf c q :
  wf_content c -> wf_query q -> g_samples c <> [] -> g_variants c <> [] ->
  selected_samples c q <> [] \/ select in_region_vcf q (combine (g_variants c) (g_rows c)) = [] ->
  exists full, vcf_read_q c q_all = Ok full /\ vcf_read_q c q = Ok (restrict_vcf q full).
Proof.
  intros Hwf Hq Hs Hv Hne. eexists. split; [apply vcf_full_read; assumption|].
  destruct (vcf_read_spec c q Hwf Hq Hne) as [E _]. exact E.
Qed.

Lemma mask_map {A B} (f : A -> B) m l : mask m (map f l) = map f (mask m l).
Proof.
  revert l. induction m as [|b m IH]; intros [|a l]; cbn; try reflexivity.
  destruct b; cbn; rewrite IH; reflexivity.
Qed.

Lemma filter_combine_map {B C} (P : variant -> bool) (H : B -> C) (vs : list variant) (rows : list B) :
  filter (fun x : variant * C => P (fst x)) (combine vs (map H rows))
  = map (fun x : variant * B => (fst x, H (snd x))) (filter (fun x : variant * B => P (fst x)) (combine vs rows)).
Proof.
  revert rows. induction vs as [|v r IH]; intros [|b rb]; cbn; try reflexivity.
  destruct (P v); cbn; rewrite IH; reflexivity.
Qed.

Lemma select_map_rows inreg q (H : list call -> list call) vs rows :
  select inreg q (combine vs (map H rows))
  = map (fun x : vrec => (fst x, H (snd x))) (select inreg q (combine vs rows)).
Proof.
  rewrite !select_eq.
  apply (filter_combine_map
           (fun v => match q_region q with None => true | Some r => inreg r v end
                     && match q_ids q with None => true | Some V' => memZ (v_id v) V' end) H).
Qed.

Lemma read_restricted_eq_subset_pgen pload c q chunk :
  wf_content c -> wf_query q -> chunk_dom chunk -> g_samples c <> [] ->
  selected_samples c q <> [] ->
  exists full, pgen_read_q pload false chunk c q_all = Ok full
            /\ pgen_read_q pload false chunk c q = Ok (restrict_pgen q full).
Proof.
  intros Hwf Hq Hc Hs Hne. eexists. split; [apply pgen_full_read; assumption|].
  destruct (pgen_read_spec pload c q chunk Hwf Hq Hc Hne) as [E _]. rewrite E. f_equal.
  unfold restrict_pgen, pgen_result. cbn [g_samples g_variants g_rows].
  rewrite select_map_rows, take_q_map, !map_map. cbn [fst snd].
  f_equal.
  - apply map_ext. intros [v r]. cbn [snd]. unfold to_stored. rewrite !mask_map. reflexivity.
  - unfold lenZ. rewrite map_length. reflexivity.
Qed.

(* an empty match is an empty result, never an error (fixed model); the pinned
   PGEN reader raised ValueError from range(0, 0, 0) *)
Definition c_one : geno := mkg [0] [mkvar 1 2 29 [3; 4] 1] [[(0, 1, 1)]] [1; 1; 3].
Definition q_noids : query := mkq None None (Some []) None.

Example legacy_pgen_empty_refuted :
  pgen_read_q pload_std true None c_one q_noids = Err E_Value
  /\ pgen_read_q pload_std false None c_one q_noids = Ok (mkg [0] [] [] [1; 0; 3])
  /\ vcf_read_q c_one q_noids = Ok (mkg [0] [] [] [0; 0; 0]).
Proof. vm_compute. repeat split. Qed.

(* a file without variants: the bulk read is empty; the pinned PGEN iterator raised *)
Definition c_empty : geno := mkg [0; 1] [] [] [2; 0; 3].

Example legacy_pgen_iter_empty_refuted :
  pgen_iter_q pload_std true c_empty q_all = Err E_Runtime
  /\ pgen_iter_q pload_std false c_empty q_all = Ok ([0; 1], [])
  /\ vcf_iter_q c_empty q_all = Ok ([0; 1], [])
  /\ pgen_read_q pload_std true None c_empty q_all = Ok (mkg [0; 1] [] [] [2; 0; 3]).
Proof. vm_compute. repeat split. Qed.

(* ---- the iterator yields the records of the bulk read --------------------------- *)

Lemma iter_eq_read_vcf c q :
  wf_content c -> wf_query q ->
  selected_samples c q <> [] \/ select in_region_vcf q (combine (g_variants c) (g_rows c)) = [] ->
  exists samples' recs g,
    vcf_iter_q c q = Ok (samples', recs) /\ vcf_read_q c q = Ok g
    /\ g_samples g = samples' /\ g_variants g = map fst (take_q q recs)
    /\ (g_rows g = map snd (take_q q recs) \/ (g_rows g = [] /\ (samples' = [] \/ take_q q recs = []))).
Proof.
  intros Hwf Hq Hne. destruct (vcf_read_spec c q Hwf Hq Hne) as [E1 E2].
  do 3 eexists. split; [exact E2|]. split; [exact E1|].
  rewrite take_q_map, !map_map. cbn [fst snd]. unfold vcf_result.
  destruct (lenZ (mask (keep_mask (q_samples q) (g_samples c)) (g_samples c)) =? 0) eqn:En.
  - cbn [orb g_samples g_variants g_rows]. split; [reflexivity|]. split; [reflexivity|].
    right. split; [reflexivity|]. left. apply lenZ_0_nil. apply Z.eqb_eq. exact En.
  - cbn [orb].
    destruct (lenZ (take_q q (select in_region_vcf q (combine (g_variants c) (g_rows c)))) =? 0) eqn:Ep;
      cbn [g_samples g_variants g_rows]; (split; [reflexivity|]); (split; [reflexivity|]).
    + right. split; [reflexivity|]. right. apply Z.eqb_eq in Ep. apply lenZ_0_nil in Ep. rewrite Ep. reflexivity.
    + left. reflexivity.
Qed.

Lemma iter_eq_read_pgen pload c q chunk :
  wf_content c -> wf_query q -> chunk_dom chunk -> selected_samples c q <> [] ->
  exists samples' recs g,
    pgen_iter_q pload false c q = Ok (samples', recs) /\ pgen_read_q pload false chunk c q = Ok g
    /\ g_samples g = samples' /\ g_variants g = map fst (take_q q recs)
    /\ g_rows g = map snd (take_q q recs).
Proof.
  intros Hwf Hq Hc Hne. destruct (pgen_read_spec pload c q chunk Hwf Hq Hc Hne) as [E1 E2].
  do 3 eexists. split; [exact E2|]. split; [exact E1|].
  rewrite take_q_map, !map_map. cbn [fst snd]. unfold pgen_result. cbn [g_samples g_variants g_rows].
  repeat split.
Qed.

(* ---- max_variants returns a prefix ------------------------------------------------ *)

Definition q_nomax (q : query) : query := mkq (q_region q) (q_samples q) (q_ids q) None.

Lemma max_variants_prefix_pgen pload c q chunk :
  wf_content c -> wf_query q -> chunk_dom chunk -> selected_samples c q <> [] ->
  q_ids q = None ->
  exists g g0, pgen_read_q pload false chunk c q = Ok g
    /\ pgen_read_q pload false chunk c (q_nomax q) = Ok g0
    /\ g_samples g = g_samples g0
    /\ g_variants g = take (q_max q) (g_variants g0)
    /\ g_rows g = take (q_max q) (g_rows g0).
Proof.
  intros Hwf Hq Hc Hne Hid.
  destruct (pgen_read_spec pload c q chunk Hwf Hq Hc Hne) as [E1 _].
  assert (Hq0 : wf_query (q_nomax q)) by (intros V H; apply Hq; exact H).
  destruct (pgen_read_spec pload c (q_nomax q) chunk Hwf Hq0 Hc Hne) as [E0 _].
  do 2 eexists. split; [exact E1|]. split; [exact E0|].
  unfold pgen_result, take_q. cbn [q_nomax q_ids q_max q_region q_samples g_samples g_variants g_rows].
  rewrite Hid. unfold take. destruct (q_max q) as [k|]; [|repeat split].
  rewrite !firstn_map. repeat split.
Qed.

Lemma max_variants_prefix_vcf c q :
  wf_content c -> wf_query q -> selected_samples c q <> [] -> q_ids q = None ->
  exists g g0, vcf_read_q c q = Ok g /\ vcf_read_q c (q_nomax q) = Ok g0
    /\ g_samples g = g_samples g0
    /\ g_variants g = take (q_max q) (g_variants g0)
    /\ (g_rows g = take (q_max q) (g_rows g0) \/ g_rows g = []).
Proof.
  intros Hwf Hq Hne Hid.
  destruct (vcf_read_spec c q Hwf Hq (or_introl Hne)) as [E1 _].
  assert (Hq0 : wf_query (q_nomax q)) by (intros V H; apply Hq; exact H).
  destruct (vcf_read_spec c (q_nomax q) Hwf Hq0 (or_introl Hne)) as [E0 _].
  do 2 eexists. split; [exact E1|]. split; [exact E0|].
  unfold take_q. cbn [q_nomax q_ids q_max q_region q_samples]. rewrite Hid.
  change (select in_region_vcf (q_nomax q)) with (select in_region_vcf q).
  set (sel := select in_region_vcf q (combine (g_variants c) (g_rows c))).
  set (m := keep_mask (q_samples q) (g_samples c)).
  unfold vcf_result. unfold selected_samples in Hne. fold m in Hne.
  rewrite (lenZ_nonzero _ Hne). cbn [orb].
  destruct (lenZ (take (q_max q) sel) =? 0) eqn:E1'; destruct (lenZ (take None sel) =? 0) eqn:E2';
    cbn [g_samples g_variants g_rows]; unfold take in *.
  - apply Z.eqb_eq, lenZ_0_nil in E2'. rewrite E2'. destruct (q_max q); [rewrite !firstn_nil|]; cbn [map]; auto.
  - split; [reflexivity|]. split; [|right; reflexivity].
    destruct (q_max q); [rewrite firstn_map|]; reflexivity.
  - apply Z.eqb_eq, lenZ_0_nil in E2'. rewrite E2' in *. destruct (q_max q); [rewrite firstn_nil in E1'|]; discriminate.
  - split; [reflexivity|]. destruct (q_max q); [rewrite !firstn_map|]; auto.
Qed.

(* ---- subset(): requested order, unknown names dropped ------------------------- *)

Lemma index_of_Some x l : forall i, index_of x l = Some i -> nth i l 0 = x /\ In x l.
Proof.
  induction l as [|y r IH]; intros i H; cbn in H; [discriminate|].
  destruct (x =? y) eqn:E.
  - apply Z.eqb_eq in E. inversion H; subst. cbn. auto.
  - destruct (index_of x r) as [j|]; [|discriminate]. cbn in H. inversion H; subst.
    destruct (IH j eq_refl) as [H1 H2]. cbn. auto.
Qed.

Lemma index_of_None x l : index_of x l = None -> memZ x l = false.
Proof.
  induction l as [|y r IH]; intros H; cbn in *; [reflexivity|].
  destruct (x =? y); [discriminate|]. destruct (index_of x r); [discriminate|]. cbn. apply IH. reflexivity.
Qed.

Lemma pick_positions req have :
  pick 0 (positions req have) have = filter (fun x => memZ x have) req.
Proof.
  induction req as [|x r IH]; [reflexivity|]. cbn [positions filter].
  destruct (index_of x have) as [i|] eqn:E.
  - destruct (index_of_Some _ _ _ E) as [Hn Hin]. rewrite (proj2 (memZ_In x have) Hin).
    unfold pick in *. cbn [map]. rewrite Hn, IH. reflexivity.
  - rewrite (index_of_None _ _ E). exact IH.
Qed.

Lemma pick_map {A B} (f : A -> B) d idx l : map f (pick d idx l) = pick (f d) idx (map f l).
Proof.
  unfold pick. rewrite map_map. apply map_ext. intros i. symmetry. apply map_nth.
Qed.

Lemma subset_order g S V g' : subset g S V = Ok g' ->
  g_samples g' = match S with
                 | None => g_samples g
                 | Some S' => filter (fun s => memZ s (g_samples g)) S' end
  /\ map v_id (g_variants g') = match V with
                                | None => map v_id (g_variants g)
                                | Some V' => filter (fun v => memZ v (map v_id (g_variants g))) V' end.
Proof.
  unfold subset.
  destruct (match S with Some _ => negb (nodupb (g_samples g)) | None => false end); [discriminate|].
  destruct (match V with Some _ => negb (nodupb (map v_id (g_variants g))) | None => false end); [discriminate|].
  destruct S as [S'|], V as [V'|]; intros H; inversion H; subst; cbn [g_samples g_variants]; split;
    try reflexivity; try apply pick_positions.
  - rewrite pick_map. apply pick_positions.
  - rewrite pick_map. apply pick_positions.
Qed.

(* subset() fails only on duplicate names of the kind that is being subset *)
Lemma subset_total g S V :
  nodupb (g_samples g) = true -> nodupb (map v_id (g_variants g)) = true ->
  exists g', subset g S V = Ok g'.
Proof.
  intros H1 H2. unfold subset. rewrite H1, H2. cbn [negb].
  destruct S, V; cbn; eexists; reflexivity.
Qed.

(* ---- soundness of the boolean checkers ------------------------------------------ *)

Lemma call_eqb_spec x y : call_eqb x y = true <-> x = y.
Proof.
  destruct x as [[a b] p], y as [[a' b'] p']. unfold call_eqb.
  rewrite !andb_true_iff, !Z.eqb_eq. split; [intros [[-> ->] ->]; reflexivity|intros H; inversion H; auto].
Qed.

Lemma rows_eqb_spec a b : rows_eqb a b = true <-> a = b.
Proof. apply list_eqb_spec. apply list_eqb_spec. apply call_eqb_spec. Qed.

Lemma is_nil_spec {A} (l : list A) : is_nil l = true <-> l = [].
Proof. destruct l; cbn; split; congruence. Qed.

Lemma holds_subset_sound k :
  holds_subset k = true -> subset_dom (sc_g k) = true ->
  exists g', sc_obs k = Ok g'
    /\ g_samples g' = match sc_S k with
                      | None => g_samples (sc_g k)
                      | Some S' => filter (fun s => memZ s (g_samples (sc_g k))) S' end
    /\ map v_id (g_variants g') = match sc_V k with
                      | None => map v_id (g_variants (sc_g k))
                      | Some V' => filter (fun v => memZ v (map v_id (g_variants (sc_g k)))) V' end.
Proof.
  unfold holds_subset. intros H Hd. rewrite Hd in H.
  destruct (sc_obs k) as [g'|]; [|discriminate]. exists g'. split; [reflexivity|].
  rewrite !andb_true_iff in H. destruct H as [[[H1 H2] _] _].
  apply (list_eqb_spec Z.eqb Z.eqb_eq) in H1. apply (list_eqb_spec Z.eqb Z.eqb_eq) in H2. auto.
Qed.

(* what holds_fmt = true says about one format's observations *)
Lemma holds_fmt_sound strict q fo full :
  holds_fmt strict q fo = true -> fo_full fo = Ok full ->
  let m := keep_mask (q_samples q) (g_samples full) in
  mask m (g_samples full) <> [] ->
  exists rd isamples irecs,
    fo_read fo = Ok rd /\ fo_iter fo = Ok (isamples, irecs)
    /\ g_samples rd = mask m (g_samples full)
    /\ g_variants rd = map fst (expected q full rd)
    /\ (expected q full rd = [] -> g_rows rd = [] /\ fo_warned fo = true)
    /\ (expected q full rd <> [] -> g_rows rd = map (fun x : vrec => mask m (snd x)) (expected q full rd))
    /\ isamples = mask m (g_samples full)
    /\ map fst (take_q q irecs) = g_variants rd
    /\ (take_q q irecs = [] \/ map snd (take_q q irecs) = g_rows rd).
Proof.
  intros H Hf. cbv zeta. intros Hne. unfold holds_fmt in H. rewrite Hf in H.
  set (m := keep_mask (q_samples q) (g_samples full)) in *.
  rewrite (is_nil_false _ Hne) in H.
  destruct (fo_read fo) as [rd|]; [|discriminate].
  destruct (fo_iter fo) as [[isamples irecs]|]; [|discriminate].
  exists rd, isamples, irecs. split; [reflexivity|]. split; [reflexivity|].
  rewrite !andb_true_iff in H. destruct H as [[[[[H1 H2] H3] H4] H5] H6].
  apply (list_eqb_spec Z.eqb Z.eqb_eq) in H1, H4.
  apply (list_eqb_spec variant_eqb variant_eqb_spec) in H2, H5.
  split; [exact H1|]. split; [exact H2|].
  split; [|split; [|split; [exact H4|split; [exact H5|]]]].
  - intros E. rewrite E in H3. cbn [is_nil] in H3. apply andb_true_iff in H3. destruct H3 as [Ha Hb].
    apply is_nil_spec in Ha. auto.
  - intros E. rewrite (is_nil_false _ E) in H3. apply rows_eqb_spec in H3. exact H3.
  - apply orb_true_iff in H6. destruct H6 as [Ha|Hb].
    + left. apply is_nil_spec. exact Ha.
    + right. apply rows_eqb_spec. exact Hb.
Qed.

(* the hypotheses of the theorems are satisfiable *)
Example read_hypotheses_satisfiable :
  wf_content c_one /\ wf_query q_noids /\ g_samples c_one <> [] /\ g_variants c_one <> []
  /\ selected_samples c_one q_noids <> [].
Proof.
  repeat split; try discriminate.
  - cbn. repeat constructor.
  - cbn. repeat constructor. intros [].
  - intros V H. inversion H. constructor.
Qed.

(* ---- both formats are the same function of the content --------------------------- *)

(* htslib selects by overlap of [pos, pos+len(REF)-1], the PGEN reader by pos:
   the same when the region has no start or every REF allele is one base long *)
Definition region_comparable (c : geno) (q : query) : Prop :=
  match q_region q with
  | None => True
  | Some (_, None, _) => True
  | Some _ => Forall (fun v => v_reflen v = 1) (g_variants c)
  end.

Lemma sel_pred_same c q : region_comparable c q ->
  forall x : vrec, In x (combine (g_variants c) (g_rows c)) ->
  sel_pred in_region_vcf (q_region q) (q_ids q) x = sel_pred in_region_pgen (q_region q) (q_ids q) x.
Proof.
  unfold region_comparable, sel_pred. intros H [v r] Hin. cbn [fst].
  destruct (q_region q) as [[[ct a] b]|]; [|reflexivity].
  destruct a as [a'|].
  2:{ unfold in_region_vcf, in_region_pgen. destruct b; rewrite andb_true_r; reflexivity. }
  rewrite Forall_forall in H. unfold in_region_vcf, in_region_pgen.
  rewrite (H v) by (eapply in_combine_l; eauto).
  replace (v_pos v + 1 - 1) with (v_pos v) by lia.
  destruct b as [b'|]; [|rewrite andb_true_r; reflexivity].
  f_equal.
  destruct (v_chrom v =? ct); cbn [andb]; [|reflexivity].
  destruct (a' <=? v_pos v) eqn:E1; cbn [andb]; [|reflexivity].
  destruct (v_pos v <=? b') eqn:E2; cbn [andb]; [|reflexivity].
  apply Z.leb_le in E1, E2. apply Z.leb_le. lia.
Qed.

Lemma mask_In {A} m (l : list A) x : In x (mask m l) -> In x l.
Proof.
  revert l. induction m as [|b m IH]; intros [|a l] H; cbn in *; try tauto.
  destruct b; [destruct H as [->|H]; [auto|right; apply IH; exact H]|right; apply IH; exact H].
Qed.

Lemma take_q_In {A} q (l : list A) x : In x (take_q q l) -> In x l.
Proof.
  unfold take_q, take. destruct (q_ids q); [auto|]. destruct (q_max q); [|auto].
  intros H. rewrite <- (firstn_skipn (Z.to_nat z) l). apply in_or_app. left. exact H.
Qed.

Lemma Forall2_map_same {A B C} (R : B -> C -> Prop) (f : A -> B) (g : A -> C) l :
  (forall x, In x l -> R (f x) (g x)) -> Forall2 R (map f l) (map g l).
Proof.
  induction l as [|a r IH]; intros H; cbn; constructor.
  - apply H. left. reflexivity.
  - apply IH. intros x Hx. apply H. right. exact Hx.
Qed.

Lemma vcf_pgen_same_content pload c q chunk :
  pload_contract pload -> wf_content c -> wf_query q -> chunk_dom chunk ->
  geno_domb false c = true -> g_variants c <> [] -> selected_samples c q <> [] ->
  region_comparable c q ->
  exists gv gp, vcf_read_q c q = Ok gv /\ pgen_read_q pload false chunk c q = Ok gp
    /\ g_samples gv = g_samples gp /\ g_variants gv = g_variants gp
    /\ (Forall2 (Forall2 (call_equiv 3)) (g_rows gv) (g_rows gp)
        \/ (g_rows gv = [] /\ g_variants gv = [])).
Proof.
  intros Hc Hwf Hq Hch Hd Hv Hne Hreg.
  destruct (vcf_read_spec c q Hwf Hq (or_introl Hne)) as [Ev _].
  destruct (pgen_read_spec pload c q chunk Hwf Hq Hch Hne) as [Ep _].
  do 2 eexists. split; [exact Ev|]. split; [exact Ep|].
  assert (Esel : select in_region_vcf q (combine (g_variants c) (g_rows c))
               = select in_region_pgen q (combine (g_variants c) (g_rows c))).
  { rewrite !select_eq. apply filter_ext_in. apply sel_pred_same. exact Hreg. }
  rewrite Esel.
  set (m := keep_mask (q_samples q) (g_samples c)).
  set (sel := take_q q (select in_region_pgen q (combine (g_variants c) (g_rows c)))).
  unfold vcf_result, pgen_result. unfold selected_samples in Hne. fold m in Hne.
  rewrite (lenZ_nonzero _ Hne). cbn [orb].
  destruct (lenZ sel =? 0) eqn:E0; cbn [g_samples g_variants g_rows].
  - apply Z.eqb_eq, lenZ_0_nil in E0. rewrite E0. cbn [map]. auto.
  - split; [reflexivity|]. split; [reflexivity|]. left.
    apply Forall2_map_same. intros [v r] Hin. cbn [snd].
    assert (Hin0 : In (v, r) (combine (g_variants c) (g_rows c))).
    { apply take_q_In in Hin. rewrite select_eq in Hin. apply filter_In in Hin. tauto. }
    unfold geno_domb in Hd. rewrite !andb_true_iff in Hd. destruct Hd as [_ Hrows].
    rewrite forallb_forall in Hrows. specialize (Hrows _ Hin0). unfold row_domb in Hrows.
    cbn [fst snd] in Hrows. rewrite !andb_true_iff in Hrows. destruct Hrows as [[[_ Hna] _] Hcalls].
    apply Z.leb_le in Hna. unfold to_stored. rewrite map_map.
    apply Forall2_map_self. intros cl Hcl. apply mask_In in Hcl.
    rewrite forallb_forall in Hcalls.
    pose proof (call_roundtrip pload 3 (lenZ (v_alleles v)) cl Hc Hna (Hcalls _ Hcl)) as Hrt.
    destruct cl as [[a b] p]. exact Hrt.
Qed.

(* ---- subset(): every cell is the one its names denote ------------------------------ *)

Lemma nth_pick {A} (d d' : A) idx l i : (i < length idx)%nat ->
  nth i (pick d idx l) d' = nth (nth i idx O) l d.
Proof.
  intros H. unfold pick. rewrite (nth_indep _ d' (nth O l d)) by (rewrite map_length; exact H).
  apply (map_nth (fun k => nth k l d) idx O i).
Qed.

Lemma positions_spec req have :
  Forall2 (fun x k => index_of x have = Some k) (filter (fun x => memZ x have) req) (positions req have).
Proof.
  induction req as [|x r IH]; [constructor|]. cbn [positions filter].
  destruct (index_of x have) as [i|] eqn:E.
  - destruct (index_of_Some _ _ _ E) as [_ Hin]. rewrite (proj2 (memZ_In x have) Hin).
    constructor; [exact E|exact IH].
  - rewrite (index_of_None _ _ E). exact IH.
Qed.

Lemma Forall2_nth_pair {A B} (R : A -> B -> Prop) l1 l2 d1 d2 :
  Forall2 R l1 l2 -> forall i, (i < length l2)%nat -> R (nth i l1 d1) (nth i l2 d2).
Proof.
  intros F. induction F as [|a b r s Hab F IH]; intros i Hi; cbn in Hi; [lia|].
  destruct i as [|i]; cbn; [exact Hab|apply IH; lia].
Qed.

Lemma index_of_lt x l i : index_of x l = Some i -> (i < length l)%nat.
Proof.
  revert i. induction l as [|y r IH]; intros i H; cbn in H; [discriminate|].
  destruct (x =? y); [inversion H; cbn; lia|].
  destruct (index_of x r) as [j|]; [|discriminate]. cbn in H. inversion H; subst.
  specialize (IH j eq_refl). cbn. lia.
Qed.

Lemma subset_cells g S' V' g' :
  subset g (Some S') (Some V') = Ok g' -> length (g_rows g) = length (g_variants g) ->
  forall i j, (i < length (g_variants g'))%nat -> (j < length (g_samples g'))%nat ->
  exists pi pj,
    index_of (v_id (nth i (g_variants g') dummy_variant)) (map v_id (g_variants g)) = Some pi
    /\ index_of (nth j (g_samples g') 0) (g_samples g) = Some pj
    /\ nth i (g_variants g') dummy_variant = nth pi (g_variants g) dummy_variant
    /\ nth j (nth i (g_rows g') []) dummy_call = nth pj (nth pi (g_rows g) []) dummy_call.
Proof.
  unfold subset. intros H Hlen.
  destruct (negb (nodupb (g_samples g))); [discriminate|].
  destruct (negb (nodupb (map v_id (g_variants g)))); [discriminate|].
  inversion H; subst; clear H. cbn [g_samples g_variants g_rows].
  set (idxS := positions S' (g_samples g)). set (idxV := positions V' (map v_id (g_variants g))).
  intros i j Hi Hj. unfold pick in Hi, Hj. rewrite map_length in Hi, Hj.
  exists (nth i idxV O), (nth j idxS O).
  pose proof (positions_spec V' (map v_id (g_variants g))) as FV.
  pose proof (positions_spec S' (g_samples g)) as FS.
  pose proof (Forall2_nth_pair _ _ _ 0 O FV i Hi) as Hpi. cbn beta in Hpi.
  pose proof (Forall2_nth_pair _ _ _ 0 O FS j Hj) as Hpj. cbn beta in Hpj.
  fold idxV in Hpi. fold idxS in Hpj.
  assert (Evid : v_id (nth i (pick dummy_variant idxV (g_variants g)) dummy_variant)
                 = nth i (filter (fun x => memZ x (map v_id (g_variants g))) V') 0).
  { rewrite <- (pick_positions V' (map v_id (g_variants g))). fold idxV.
    change (pick 0 idxV (map v_id (g_variants g)))
      with (pick (v_id dummy_variant) idxV (map v_id (g_variants g))).
    rewrite <- (pick_map v_id dummy_variant idxV (g_variants g)).
    symmetry. exact (map_nth v_id (pick dummy_variant idxV (g_variants g)) dummy_variant i). }
  assert (Esamp : nth j (pick 0 idxS (g_samples g)) 0 = nth j (filter (fun x => memZ x (g_samples g)) S') 0).
  { unfold idxS. rewrite pick_positions. reflexivity. }
  split; [rewrite Evid; exact Hpi|]. split; [rewrite Esamp; exact Hpj|].
  split; [apply nth_pick; exact Hi|].
  rewrite (nth_pick [] [] idxV _ i Hi).
  assert (Hlt : (nth i idxV O < length (g_rows g))%nat).
  { rewrite Hlen, <- (map_length v_id). eapply index_of_lt. exact Hpi. }
  rewrite (nth_indep _ [] (pick dummy_call idxS [])) by (rewrite map_length; exact Hlt).
  rewrite (map_nth (pick dummy_call idxS)). apply nth_pick. exact Hj.
Qed.
