(* C08 - further proofs: a restricted read is the model's subset() of the full read;
   sequences of subset() calls; a sample restriction that selects nobody. *)
From HV Require Import Prelude C07_Model C07_Check C07_Proofs C08_Model C08_Check C08_Proofs.

(* ---- positions / pick ------------------------------------------------------------ *)

Lemma positions_notin_cons req x h :
  (forall y, In y req -> y <> x) -> positions req (x :: h) = map S (positions req h).
Proof.
  induction req as [|y r IH]; intros H; [reflexivity|]. cbn [positions index_of].
  assert (Hy : y <> x) by (apply H; left; reflexivity).
  destruct (y =? x) eqn:E; [apply Z.eqb_eq in E; contradiction|].
  rewrite IH by (intros z Hz; apply H; right; exact Hz).
  destruct (index_of y h); reflexivity.
Qed.

Lemma pick_map_S {A} (d a : A) idx l : pick d (map S idx) (a :: l) = pick d idx l.
Proof. unfold pick. rewrite map_map. reflexivity. Qed.

Lemma mask_In_l {A} m (l : list A) x : In x (mask m l) -> In x l.
Proof. apply mask_In. Qed.

(* the names a mask keeps, looked up again, give the masked columns *)
Lemma pick_mask {A} (d : A) have : NoDup have -> forall m (l : list A),
  length l = length have -> pick d (positions (mask m have) have) l = mask m l.
Proof.
  induction 1 as [|x h Hx Hnd IH]; intros m l Hl.
  - destruct l; [|discriminate]. destruct m as [|[|] m]; reflexivity.
  - destruct l as [|a l]; [discriminate|]. cbn in Hl.
    destruct m as [|b m]; [reflexivity|]. cbn [mask].
    assert (Hne : forall y, In y (mask m h) -> y <> x).
    { intros y Hy E. subst. apply Hx. eapply mask_In; eauto. }
    destruct b.
    + cbn [positions index_of]. rewrite Z.eqb_refl.
      rewrite (positions_notin_cons _ _ _ Hne).
      change (a :: pick d (map S (positions (mask m h) h)) (a :: l) = a :: mask m l).
      rewrite pick_map_S, IH by lia. reflexivity.
    + rewrite (positions_notin_cons _ _ _ Hne), pick_map_S. apply IH. lia.
Qed.

Lemma mask_keep_all {A} (s : list Z) (l : list A) : length l = length s -> mask (map (fun _ => true) s) l = l.
Proof.
  revert l. induction s as [|x r IH]; intros [|a l] H; cbn in *; try discriminate; try reflexivity.
  rewrite IH by lia. reflexivity.
Qed.

Lemma pick_self {A} (d : A) have l : NoDup have -> length l = length have ->
  pick d (positions have have) l = l.
Proof.
  intros Hnd Hl. rewrite <- (mask_keep_all have have eq_refl) at 1.
  rewrite pick_mask by assumption. apply mask_keep_all. exact Hl.
Qed.

Lemma positions_lt req have : Forall (fun i => (i < length have)%nat) (positions req have).
Proof.
  induction req as [|x r IH]; [constructor|]. cbn [positions].
  destruct (index_of x have) as [i|] eqn:E; [|exact IH].
  constructor; [eapply index_of_lt; exact E|exact IH].
Qed.

Lemma pick_in_range_map {A B} (F : A -> B) (d : A) (d' : B) idx l :
  Forall (fun i => (i < length l)%nat) idx -> pick d' idx (map F l) = map F (pick d idx l).
Proof.
  intros H. unfold pick. rewrite map_map. apply map_ext_in. intros i Hi.
  rewrite Forall_forall in H. specialize (H i Hi).
  rewrite (nth_indep _ d' (F d)) by (rewrite map_length; exact H). apply map_nth.
Qed.

Lemma nodupb_NoDup l : nodupb l = true <-> NoDup l.
Proof.
  induction l as [|x r IH]; cbn; [split; [constructor|reflexivity]|].
  rewrite andb_true_iff, negb_true_iff, IH. split.
  - intros [H1 H2]. constructor; [|exact H2]. intro Hin. apply memZ_In in Hin. congruence.
  - intros H. inversion H; subst. split; [|assumption].
    destruct (memZ x r) eqn:E; [apply memZ_In in E; contradiction|reflexivity].
Qed.

(* an element of a list with unique keys is found again by its key *)
Lemma index_of_key {A} (key : A -> Z) (d : A) l x : NoDup (map key l) -> In x l ->
  exists k, index_of (key x) (map key l) = Some k /\ nth k l d = x.
Proof.
  induction l as [|a r IH]; intros Hnd Hin; [destruct Hin|]. cbn [map index_of].
  inversion Hnd as [|? ? Hn Hr]; subst.
  destruct Hin as [->|Hin].
  - rewrite Z.eqb_refl. exists O. split; reflexivity.
  - destruct (key x =? key a) eqn:E.
    + apply Z.eqb_eq in E. exfalso. apply Hn. rewrite <- E. apply in_map. exact Hin.
    + destruct (IH Hr Hin) as [k [Hk Hnth]]. rewrite Hk. exists (S k). split; reflexivity || exact Hnth.
Qed.

Lemma pick_positions_incl {A} (key : A -> Z) (d : A) recs sel :
  NoDup (map key recs) -> (forall x, In x sel -> In x recs) ->
  pick d (positions (map key sel) (map key recs)) recs = sel.
Proof.
  intros Hnd. induction sel as [|x r IH]; intros Hin; [reflexivity|]. cbn [map positions].
  destruct (index_of_key key d recs x Hnd (Hin x (or_introl eq_refl))) as [k [Hk Hnth]].
  rewrite Hk. unfold pick in *. cbn [map]. rewrite Hnth, IH; [reflexivity|].
  intros y Hy. apply Hin. right. exact Hy.
Qed.

(* ---- an object subset() is defined on -------------------------------------------- *)

Definition wf_obj (g : geno) : Prop :=
  NoDup (g_samples g) /\ NoDup (map v_id (g_variants g))
  /\ length (g_rows g) = length (g_variants g)
  /\ Forall (fun r : list call => length r = length (g_samples g)) (g_rows g).

Lemma pick_combine_fst {A B} (da : A) (db : B) idx (la : list A) (lb : list B) :
  length la = length lb -> pick da idx la = map fst (pick (da, db) idx (combine la lb)).
Proof.
  intros H. unfold pick. rewrite map_map. apply map_ext. intros i. rewrite combine_nth by exact H. reflexivity.
Qed.

Lemma pick_combine_snd {A B} (da : A) (db : B) idx (la : list A) (lb : list B) :
  length la = length lb -> pick db idx lb = map snd (pick (da, db) idx (combine la lb)).
Proof.
  intros H. unfold pick. rewrite map_map. apply map_ext. intros i. rewrite combine_nth by exact H. reflexivity.
Qed.

(* subset() by the names a column mask keeps and by the IDs of any records of the
   object returns exactly those columns and records *)
Lemma subset_select g m (sel : list vrec) :
  wf_obj g -> (forall x, In x sel -> In x (combine (g_variants g) (g_rows g))) ->
  subset g (Some (mask m (g_samples g))) (Some (map (fun x : vrec => v_id (fst x)) sel))
  = Ok (mkg (mask m (g_samples g)) (map fst sel) (map (fun x : vrec => mask m (snd x)) sel)
            [lenZ (mask m (g_samples g)); lenZ sel; nth 2 (g_shape g) 3]).
Proof.
  intros [HndS [HndV [Hlen Hrows]]] Hin. unfold subset.
  rewrite (proj2 (nodupb_NoDup _) HndS), (proj2 (nodupb_NoDup _) HndV). cbn [negb].
  set (recs := combine (g_variants g) (g_rows g)) in *.
  assert (Eids : map v_id (g_variants g) = map (fun x : vrec => v_id (fst x)) recs).
  { symmetry. apply (ids_of_combine (g_variants g) (g_rows g) Hlen). }
  rewrite Eids.
  set (idxV := positions (map (fun x : vrec => v_id (fst x)) sel) (map (fun x : vrec => v_id (fst x)) recs)).
  set (idxS := positions (mask m (g_samples g)) (g_samples g)).
  assert (Hpick : pick (dummy_variant, []) idxV recs = sel).
  { apply pick_positions_incl; [rewrite <- Eids; exact HndV|exact Hin]. }
  assert (Hrange : Forall (fun i => (i < length (g_rows g))%nat) idxV).
  { pose proof (positions_lt (map (fun x : vrec => v_id (fst x)) sel) (map (fun x : vrec => v_id (fst x)) recs)) as H.
    rewrite map_length in H. unfold recs in H. rewrite combine_length, Hlen, Nat.min_id, <- Hlen in H. exact H. }
  assert (Es : pick 0 idxS (g_samples g) = mask m (g_samples g)) by (apply pick_mask; [exact HndS|reflexivity]).
  assert (Ev : pick dummy_variant idxV (g_variants g) = map fst sel).
  { rewrite (pick_combine_fst dummy_variant (@nil call) idxV (g_variants g) (g_rows g)) by (symmetry; exact Hlen).
    fold recs. rewrite Hpick. reflexivity. }
  assert (Er : pick [] idxV (map (pick dummy_call idxS) (g_rows g)) = map (fun x : vrec => mask m (snd x)) sel).
  { rewrite (pick_in_range_map (pick dummy_call idxS) [] [] idxV (g_rows g) Hrange).
    rewrite (pick_combine_snd dummy_variant (@nil call) idxV (g_variants g) (g_rows g)) by (symmetry; exact Hlen).
    fold recs. rewrite Hpick, map_map. apply map_ext_in. intros [v r] Hx. cbn [snd].
    apply pick_mask; [exact HndS|]. rewrite Forall_forall in Hrows. apply Hrows.
    apply Hin in Hx. unfold recs in Hx. eapply in_combine_r; eauto. }
  rewrite Es, Ev, Er. unfold lenZ. rewrite map_length. reflexivity.
Qed.

(* ---- restricted read = subset() of the full read ---------------------------------- *)

(* the IDs a query selects, in file order *)
Definition sel_ids (inreg : region -> variant -> bool) (q : query) (full : geno) : list Z :=
  map (fun x : vrec => v_id (fst x)) (take_q q (select inreg q (combine (g_variants full) (g_rows full)))).

Lemma sel_incl inreg q (recs : list vrec) x : In x (take_q q (select inreg q recs)) -> In x recs.
Proof. intros H. apply take_q_In in H. rewrite select_eq in H. apply filter_In in H. tauto. Qed.

Lemma read_eq_full_subset_pgen pload c q chunk :
  wf_content c -> NoDup (g_samples c) -> wf_query q -> chunk_dom chunk -> g_samples c <> [] ->
  selected_samples c q <> [] ->
  exists full, pgen_read_q pload false chunk c q_all = Ok full
    /\ pgen_read_q pload false chunk c q
       = subset full (Some (selected_samples full q)) (Some (sel_ids in_region_pgen q full)).
Proof.
  intros Hwf HndS Hq Hc Hs Hne.
  destruct (read_restricted_eq_subset_pgen pload c q chunk Hwf Hq Hc Hs Hne) as [full [E1 E2]].
  exists full. split; [exact E1|]. rewrite E2.
  pose proof (pgen_full_read pload c chunk Hwf Hc Hs) as Ef. rewrite E1 in Ef.
  assert (Efull : full = mkg (g_samples c) (g_variants c)
            (map (fun r => map (load_call pload) (to_stored r)) (g_rows c))
            [lenZ (g_samples c); lenZ (g_variants c); 3]) by congruence.
  clear Ef E1. destruct Hwf as [Hlen [Hrows Hnd]].
  assert (Hwfo : wf_obj full).
  { rewrite Efull. unfold wf_obj. cbn [g_samples g_variants g_rows].
    split; [exact HndS|]. split; [exact Hnd|]. split; [rewrite map_length; exact Hlen|].
    apply Forall_forall. intros r Hr. apply in_map_iff in Hr. destruct Hr as [r0 [<- Hr0]].
    unfold to_stored. rewrite !map_length. rewrite Forall_forall in Hrows. apply Hrows. exact Hr0. }
  symmetry. unfold restrict_pgen, selected_samples, sel_ids. cbv zeta.
  rewrite (subset_select full _ _ Hwfo (sel_incl in_region_pgen q _)).
  rewrite Efull. reflexivity.
Qed.

(* the VCF reader replaces an array without cells by one of shape (0, 0, 0) *)
Definition hollow_if_empty (r : geno) : geno :=
  if is_nil (g_variants r) then mkg (g_samples r) [] [] [0; 0; 0] else r.

Lemma read_eq_full_subset_vcf c q :
  wf_content c -> NoDup (g_samples c) -> wf_query q -> g_samples c <> [] -> g_variants c <> [] ->
  selected_samples c q <> [] ->
  exists full r, vcf_read_q c q_all = Ok full
    /\ subset full (Some (selected_samples full q)) (Some (sel_ids in_region_vcf q full)) = Ok r
    /\ vcf_read_q c q = Ok (hollow_if_empty r).
Proof.
  intros Hwf HndS Hq Hs Hv Hne.
  destruct (read_restricted_eq_subset_vcf c q Hwf Hq Hs Hv (or_introl Hne)) as [full [E1 E2]].
  exists full. pose proof (vcf_full_read c Hwf Hs Hv) as Ef. rewrite E1 in Ef.
  assert (Efull : full = mkg (g_samples c) (g_variants c) (g_rows c)
            [lenZ (g_samples c); lenZ (g_variants c); 3]) by congruence.
  clear Ef. destruct Hwf as [Hlen [Hrows Hnd]].
  assert (Hwfo : wf_obj full).
  { rewrite Efull. unfold wf_obj. cbn [g_samples g_variants g_rows]. auto. }
  eexists. split; [exact E1|].
  split.
  - unfold selected_samples, sel_ids. apply (subset_select full _ _ Hwfo (sel_incl in_region_vcf q _)).
  - rewrite E2. f_equal. unfold restrict_vcf, vcf_result, hollow_if_empty. cbv zeta. cbn [g_variants g_samples g_rows].
    set (m := keep_mask (q_samples q) (g_samples full)).
    set (sel := take_q q (select in_region_vcf q (combine (g_variants full) (g_rows full)))).
    assert (Hn : (lenZ (mask m (g_samples full)) =? 0) = false).
    { apply lenZ_nonzero. unfold m. rewrite Efull. exact Hne. }
    rewrite Hn. cbn [orb].
    destruct sel as [|x r0]; [reflexivity|].
    rewrite (lenZ_nonzero (x :: r0)) by discriminate. cbn [map is_nil].
    rewrite Efull. reflexivity.
Qed.

(* ---- a subset() of a subset() -------------------------------------------------------- *)

Lemma index_of_memZ_false x l : memZ x l = false -> index_of x l = None.
Proof.
  induction l as [|y r IH]; intros H; [reflexivity|]. cbn in *. rewrite orb_false_iff in H. destruct H as [H1 H2].
  rewrite H1. rewrite (IH H2). reflexivity.
Qed.

Lemma positions_length l have : length (positions l have) = length (filter (fun x => memZ x have) l).
Proof.
  pose proof (positions_spec l have) as F. induction F; cbn; [reflexivity|]. f_equal. assumption.
Qed.

Lemma nth_positions l have j : (j < length (positions l have))%nat ->
  index_of (nth j (filter (fun x => memZ x have) l) 0) have = Some (nth j (positions l have) O).
Proof. intros H. exact (Forall2_nth_pair _ _ _ 0 O (positions_spec l have) j H). Qed.

(* looking names up in the object a first subset() produced, and then in the original *)
Lemma pick_pick {A} (d : A) l1 l2 have (L : list A) :
  pick d (positions l2 (filter (fun x => memZ x have) l1)) (pick d (positions l1 have) L)
  = pick d (positions (filter (fun x => memZ x l1) l2) have) L.
Proof.
  induction l2 as [|x r IH]; [reflexivity|]. cbn [positions filter].
  destruct (index_of x (filter (fun y => memZ y have) l1)) as [j|] eqn:E.
  - destruct (index_of_Some _ _ _ E) as [Hn Hin]. pose proof (index_of_lt _ _ _ E) as Hj.
    apply filter_In in Hin. destruct Hin as [Hin1 Hmem].
    rewrite (proj2 (memZ_In x l1) Hin1). cbn [positions].
    rewrite <- positions_length in Hj.
    pose proof (nth_positions l1 have j Hj) as Hk. rewrite Hn in Hk. rewrite Hk.
    unfold pick at 1. cbn [map]. fold (pick d (positions r (filter (fun y => memZ y have) l1)) (pick d (positions l1 have) L)).
    rewrite (nth_pick d d (positions l1 have) L j Hj). rewrite IH. reflexivity.
  - pose proof (index_of_None _ _ E) as Hnot.
    destruct (memZ x l1) eqn:E1; [|exact IH]. cbn [positions].
    assert (Hh : memZ x have = false).
    { destruct (memZ x have) eqn:Eh; [|reflexivity]. exfalso.
      assert (Hin : In x (filter (fun y => memZ y have) l1)).
      { apply filter_In. split; [apply memZ_In; exact E1|exact Eh]. }
      apply memZ_In in Hin. congruence. }
    rewrite (index_of_memZ_false _ _ Hh). exact IH.
Qed.

Lemma subset_subset_some g l1 v1 l2 v2 g1 :
  length (g_rows g) = length (g_variants g) ->
  subset g (Some l1) (Some v1) = Ok g1 ->
  nodupb (g_samples g1) = true -> nodupb (map v_id (g_variants g1)) = true ->
  subset g1 (Some l2) (Some v2)
  = subset g (Some (filter (fun x => memZ x l1) l2)) (Some (filter (fun x => memZ x v1) v2)).
Proof.
  intros Hlen H Hn1 Hn2. unfold subset in H.
  destruct (negb (nodupb (g_samples g))) eqn:Ea; [discriminate|].
  destruct (negb (nodupb (map v_id (g_variants g)))) eqn:Eb; [discriminate|].
  injection H as Eg1.
  set (ids := map v_id (g_variants g)) in *.
  set (iS := positions l1 (g_samples g)) in *. set (iV := positions v1 ids) in *.
  assert (Es1 : g_samples g1 = filter (fun x => memZ x (g_samples g)) l1).
  { rewrite <- Eg1. cbn [g_samples]. apply pick_positions. }
  assert (Ev1 : map v_id (g_variants g1) = filter (fun x => memZ x ids) v1).
  { rewrite <- Eg1. cbn [g_variants]. rewrite pick_map. apply pick_positions. }
  unfold subset at 1. rewrite Hn1, Hn2. cbn [negb].
  unfold subset. fold ids. rewrite Ea, Eb.
  rewrite Ev1, Es1. rewrite <- Eg1. cbn [g_samples g_variants g_rows g_shape nth].
  assert (HiV : Forall (fun i => (i < length (map (pick dummy_call iS) (g_rows g)))%nat) iV).
  { pose proof (positions_lt v1 ids) as Hp. unfold ids in Hp at 1. rewrite !map_length in *. rewrite Hlen. exact Hp. }
  f_equal. f_equal.
  - fold iS. rewrite <- (pick_positions l1 (g_samples g)) at 2. fold iS. apply pick_pick.
  - fold iV. apply pick_pick.
  - rewrite <- (pick_in_range_map (pick dummy_call (positions l2 (filter (fun x => memZ x (g_samples g)) l1)))
                  [] [] iV _ HiV).
    fold iV. rewrite pick_pick. f_equal. rewrite map_map. apply map_ext. intros row. fold iS. apply pick_pick.
  - f_equal; [|f_equal].
    + f_equal. fold iS. rewrite <- (pick_positions l1 (g_samples g)) at 2. fold iS. apply pick_pick.
    + f_equal. fold iV. apply pick_pick.
Qed.

(* ---- no request = a request for every name, in the object's order ------------------- *)

Definition norm_req (r : option (list Z)) (have : list Z) : list Z :=
  match r with Some l => l | None => have end.

Lemma subset_norm g S V : wf_obj g ->
  subset g S V = subset g (Some (norm_req S (g_samples g))) (Some (norm_req V (map v_id (g_variants g)))).
Proof.
  intros [HndS [HndV [Hlen Hrows]]]. unfold subset.
  rewrite (proj2 (nodupb_NoDup _) HndS), (proj2 (nodupb_NoDup _) HndV). cbn [negb].
  assert (Hself : map (pick dummy_call (positions (g_samples g) (g_samples g))) (g_rows g) = g_rows g).
  { rewrite <- (map_id (g_rows g)) at 2. apply map_ext_in. intros r Hr. apply pick_self; [exact HndS|].
    rewrite Forall_forall in Hrows. apply Hrows. exact Hr. }
  destruct S as [l|], V as [v|]; cbn [norm_req]; try reflexivity.
  - rewrite (pick_self dummy_variant _ (g_variants g) HndV) by (rewrite map_length; reflexivity).
    rewrite (pick_self [] _ (map (pick dummy_call (positions l (g_samples g))) (g_rows g)) HndV)
      by (rewrite !map_length; exact Hlen).
    reflexivity.
  - rewrite (pick_self 0 _ (g_samples g) HndS) by reflexivity. rewrite Hself. reflexivity.
  - rewrite (pick_self 0 _ (g_samples g) HndS) by reflexivity. rewrite Hself.
    rewrite (pick_self dummy_variant _ (g_variants g) HndV) by (rewrite map_length; reflexivity).
    rewrite (pick_self [] _ (g_rows g) HndV) by (rewrite map_length; exact Hlen).
    reflexivity.
Qed.

(* ---- subset() keeps an object well-formed when the request has no repeats ------------- *)

Definition shape_ok (g : geno) : Prop :=
  g_shape g = [lenZ (g_samples g); lenZ (g_variants g); nth 2 (g_shape g) 3].

Definition req_nodup (r : option (list Z)) : Prop := forall l, r = Some l -> NoDup l.

(* the names an object lists after a request *)
Definition step_names (cur : list Z) (r : option (list Z)) : list Z :=
  match r with None => cur | Some l => filter (fun x => memZ x cur) l end.

Lemma filter_all_in cur : filter (fun x => memZ x cur) cur = cur.
Proof.
  assert (H : forall l, (forall x, In x l -> In x cur) -> filter (fun x => memZ x cur) l = l).
  { induction l as [|a l IH]; intros Hin; [reflexivity|]. cbn [filter].
    rewrite (proj2 (memZ_In a cur) (Hin a (or_introl eq_refl))). f_equal. apply IH.
    intros x Hx. apply Hin. right. exact Hx. }
  apply H. auto.
Qed.

Lemma step_names_norm cur r : step_names cur r = filter (fun x => memZ x cur) (norm_req r cur).
Proof. destruct r as [l|]; [reflexivity|]. symmetry. apply filter_all_in. Qed.

Lemma pick_In_range {A} (d : A) idx L : Forall (fun i => (i < length L)%nat) idx ->
  Forall (fun x => In x L) (pick d idx L).
Proof.
  intros H. unfold pick. apply Forall_forall. intros x Hx. apply in_map_iff in Hx. destruct Hx as [i [<- Hi]].
  rewrite Forall_forall in H. apply nth_In. apply H. exact Hi.
Qed.

Lemma subset_wf g S V g1 : wf_obj g -> req_nodup S -> req_nodup V -> subset g S V = Ok g1 ->
  wf_obj g1 /\ shape_ok g1
  /\ g_samples g1 = step_names (g_samples g) S
  /\ map v_id (g_variants g1) = step_names (map v_id (g_variants g)) V.
Proof.
  intros Hwf HS HV H. pose proof Hwf as [HndS [HndV [Hlen Hrows]]].
  destruct (subset_order g S V g1 H) as [Es Ev].
  assert (Es' : g_samples g1 = step_names (g_samples g) S) by (destruct S; exact Es).
  assert (Ev' : map v_id (g_variants g1) = step_names (map v_id (g_variants g)) V) by (destruct V; exact Ev).
  split; [|split; [|split; [exact Es'|exact Ev']]].
  - rewrite (subset_norm g S V Hwf) in H. unfold subset in H.
    rewrite (proj2 (nodupb_NoDup _) HndS), (proj2 (nodupb_NoDup _) HndV) in H. cbn [negb] in H.
    injection H as Eg1.
    set (iS := positions (norm_req S (g_samples g)) (g_samples g)) in *.
    set (iV := positions (norm_req V (map v_id (g_variants g))) (map v_id (g_variants g))) in *.
    unfold wf_obj. split; [|split].
    + rewrite Es'. destruct S as [l|]; cbn [step_names]; [apply NoDup_filter; apply HS; reflexivity|exact HndS].
    + rewrite Ev'. destruct V as [l|]; cbn [step_names]; [apply NoDup_filter; apply HV; reflexivity|exact HndV].
    + rewrite <- Eg1. cbn [g_rows g_variants g_samples]. unfold pick. rewrite !map_length. split; [reflexivity|].
      fold (pick (@nil call) iV (map (pick dummy_call iS) (g_rows g))).
      assert (HiV : Forall (fun i => (i < length (map (pick dummy_call iS) (g_rows g)))%nat) iV).
      { pose proof (positions_lt (norm_req V (map v_id (g_variants g))) (map v_id (g_variants g))) as Hp.
        rewrite !map_length in *. rewrite Hlen. exact Hp. }
      pose proof (pick_In_range [] iV _ HiV) as Hall.
      eapply Forall_impl; [|exact Hall]. intros r Hr. cbn beta in Hr.
      apply in_map_iff in Hr. destruct Hr as [r0 [<- _]]. unfold pick. rewrite map_length. reflexivity.
  - unfold subset in H.
    destruct (match S with Some _ => negb (nodupb (g_samples g)) | None => false end); [discriminate|].
    destruct (match V with Some _ => negb (nodupb (map v_id (g_variants g))) | None => false end); [discriminate|].
    destruct S, V; injection H as Eg1; rewrite <- Eg1; unfold shape_ok; reflexivity.
Qed.

(* ---- a sequence of subset() calls is one subset() of the original object ------------- *)

Definition req := (option (list Z) * option (list Z))%type.

(* every call is made on the result of the previous one (in place, or on the copy) *)
Fixpoint subset_seq (g : geno) (reqs : list req) : res geno :=
  match reqs with
  | [] => Ok g
  | r :: rest => bind (subset g (fst r) (snd r)) (fun g' => subset_seq g' rest)
  end.

(* the names left after a sequence of requests: each request is filtered to the names
   that are still there; in particular the last request decides the order *)
Definition final_names (have : list Z) (rs : list (option (list Z))) : list Z := fold_left step_names rs have.

Definition req_ok (r : req) : Prop := req_nodup (fst r) /\ req_nodup (snd r).

Lemma step_names_incl cur r x : In x (step_names cur r) -> In x cur.
Proof.
  destruct r as [l|]; cbn [step_names]; [|auto]. intros H. apply filter_In in H. apply memZ_In. tauto.
Qed.

Lemma final_names_incl rs : forall have x, In x (final_names have rs) -> In x have.
Proof.
  induction rs as [|r rs IH]; intros have x H; [exact H|]. cbn [final_names fold_left] in H.
  apply IH in H. eapply step_names_incl. exact H.
Qed.

Lemma filter_id_incl (l big : list Z) : (forall x, In x l -> In x big) -> filter (fun x => memZ x big) l = l.
Proof.
  induction l as [|a l IH]; intros H; [reflexivity|]. cbn [filter].
  rewrite (proj2 (memZ_In a big) (H a (or_introl eq_refl))). f_equal. apply IH. intros x Hx. apply H. right. exact Hx.
Qed.

Lemma subset_all g : wf_obj g -> shape_ok g ->
  subset g (Some (g_samples g)) (Some (map v_id (g_variants g))) = Ok g.
Proof.
  intros Hwf Hsh. change (subset g (Some (norm_req None (g_samples g))) (Some (norm_req None (map v_id (g_variants g)))) = Ok g).
  rewrite <- (subset_norm g None None Hwf). unfold subset. cbn.
  destruct g as [s v r sh]. unfold shape_ok in Hsh. cbn [g_samples g_variants g_shape g_rows] in *.
  rewrite <- Hsh. reflexivity.
Qed.

Lemma subset_seq_one reqs : forall g, wf_obj g -> shape_ok g -> Forall req_ok reqs ->
  subset_seq g reqs
  = subset g (Some (final_names (g_samples g) (map fst reqs)))
             (Some (final_names (map v_id (g_variants g)) (map snd reqs))).
Proof.
  induction reqs as [|[S V] rest IH]; intros g Hwf Hsh Hok.
  - cbn. symmetry. apply subset_all; assumption.
  - inversion Hok as [|? ? [HS HV] Hrest]; subst. cbn [subset_seq fst snd map].
    pose proof Hwf as [HndS [HndV [Hlen Hrows]]].
    destruct (subset_total g S V (proj2 (nodupb_NoDup _) HndS) (proj2 (nodupb_NoDup _) HndV)) as [g1 E1].
    rewrite E1. cbn [bind].
    destruct (subset_wf g S V g1 Hwf HS HV E1) as [Hwf1 [Hsh1 [Es1 Ev1]]].
    rewrite (IH g1 Hwf1 Hsh1 Hrest).
    rewrite (subset_norm g S V Hwf) in E1.
    pose proof Hwf1 as [HndS1 [HndV1 _]].
    rewrite (subset_subset_some g _ _ _ _ g1 Hlen E1
               (proj2 (nodupb_NoDup _) HndS1) (proj2 (nodupb_NoDup _) HndV1)).
    cbn [final_names fold_left]. rewrite <- Es1, <- Ev1.
    rewrite !filter_id_incl; [reflexivity| |].
    + intros x Hx. apply final_names_incl in Hx. rewrite Ev1, step_names_norm in Hx.
      apply filter_In in Hx. tauto.
    + intros x Hx. apply final_names_incl in Hx. rewrite Es1, step_names_norm in Hx.
      apply filter_In in Hx. tauto.
Qed.

(* a request with a repeated known name leaves duplicate names behind: the next
   subset() by that kind of name raises ValueError (Genotypes.index) *)
Lemma subset_after_repeats g S V g1 S2 V2 :
  subset g (Some S) V = Ok g1 -> nodupb (filter (fun s => memZ s (g_samples g)) S) = false ->
  subset g1 (Some S2) V2 = Err E_Value.
Proof.
  intros H Hd. destruct (subset_order g (Some S) V g1 H) as [Es _].
  unfold subset. rewrite Es, Hd. reflexivity.
Qed.

Lemma subset_after_repeats_ids g S V g1 S2 V2 :
  subset g S (Some V) = Ok g1 -> nodupb (g_samples g1) = true ->
  nodupb (filter (fun v => memZ v (map v_id (g_variants g))) V) = false ->
  subset g1 S2 (Some V2) = Err E_Value.
Proof.
  intros H Hs Hd. destruct (subset_order g S (Some V) g1 H) as [_ Ev].
  unfold subset. rewrite Ev, Hd, Hs. destruct S2; reflexivity.
Qed.

(* the hypotheses of subset_seq_one are satisfiable, and the order of a kept re-ordering
   matters for what the next call returns *)
Definition g_two : geno :=
  mkg [0; 1] [mkvar 1 2 29 [3; 4] 1] [[(0, 1, 1); (1, 1, 1)]] [2; 1; 3].

Example subset_seq_example :
  wf_obj g_two /\ shape_ok g_two
  /\ subset_seq g_two [(Some [1; 0], None); (Some [0], None)]
     = Ok (mkg [0] [mkvar 1 2 29 [3; 4] 1] [[(0, 1, 1)]] [1; 1; 3]).
Proof.
  split; [|split; [reflexivity|vm_compute; reflexivity]].
  unfold wf_obj, g_two. cbn. repeat split; repeat constructor; cbn; intuition discriminate.
Qed.

(* ---- subset() as run on an object whose array has no cells --------------------------- *)

Lemma subset_impl_cells fixed g S V : no_cells g = false -> subset_impl fixed g S V = subset g S V.
Proof. intros H. unfold subset_impl. rewrite H. reflexivity. Qed.

Lemma subset_impl_order fixed g S V g' : subset_impl fixed g S V = Ok g' ->
  g_samples g' = match S with
                 | None => g_samples g
                 | Some S' => filter (fun s => memZ s (g_samples g)) S' end
  /\ map v_id (g_variants g') = match V with
                                | None => map v_id (g_variants g)
                                | Some V' => filter (fun v => memZ v (map v_id (g_variants g))) V' end.
Proof.
  unfold subset_impl. destruct (no_cells g); [|apply subset_order].
  destruct (subset g S V) as [r|] eqn:E; [|discriminate].
  destruct (negb fixed && (hits S (g_samples g) || hits V (map v_id (g_variants g)))); [discriminate|].
  intros H. injection H as <-. cbn [g_samples g_variants]. exact (subset_order g S V r E).
Qed.

(* with the repair subset() never raises on an object with unique names *)
Lemma subset_impl_total g S V :
  nodupb (g_samples g) = true -> nodupb (map v_id (g_variants g)) = true ->
  exists g', subset_impl true g S V = Ok g'.
Proof.
  intros H1 H2. destruct (subset_total g S V H1 H2) as [r E]. unfold subset_impl.
  destruct (no_cells g); [|eexists; exact E]. rewrite E. cbn [negb andb]. eexists. reflexivity.
Qed.

(* the object a VCF read that matched nothing leaves behind: one sample, no variant,
   an array of shape (0, 0, 0) *)
Definition g_hollow : geno := mkg [0] [] [] [0; 0; 0].

Example subset_after_empty_read_refuted :
  vcf_read_q c_one q_noids = Ok g_hollow
  /\ subset_impl false g_hollow (Some [0]) None = Err E_Index
  /\ subset_impl true g_hollow (Some [0]) None = Ok g_hollow
  /\ subset_impl false g_hollow (Some [7]) (Some [1]) = Ok (mkg [] [] [] [0; 0; 0]).
Proof. vm_compute. repeat split. Qed.

(* ---- a sample restriction that selects nobody ------------------------------------------ *)

Lemma mask_nil_all {A B} m (l : list A) (l' : list B) : length m = length l -> mask m l = [] -> mask m l' = [].
Proof.
  revert l l'. induction m as [|b m IH]; intros l l' Hl H; [reflexivity|].
  destruct l as [|a l]; [discriminate|]. cbn in Hl, H. destruct b; [discriminate|].
  destruct l' as [|a' l']; [reflexivity|]. cbn. apply (IH l l'); [lia|exact H].
Qed.

Lemma take_ids_all q (sel : list vrec) c :
  wf_content c -> wf_query q -> forall inreg, sel = select inreg q (combine (g_variants c) (g_rows c)) ->
  take (match q_ids q with Some V => Some (lenZ V) | None => q_max q end) sel = take_q q sel.
Proof.
  intros [Hlen [_ Hnd]] Hq inreg ->. unfold take_q. destruct (q_ids q) as [V|] eqn:EV; [|reflexivity].
  apply take_all. rewrite select_eq, EV. apply sel_le; [|apply Hq; exact EV].
  rewrite ids_of_combine by exact Hlen. exact Hnd.
Qed.

(* with the repair the closed forms of C08_vcf_read_spec / C08_pgen_read_spec hold
   for every sample restriction: nobody selected = the selected variants without any sample *)
Lemma vcf_read_x_spec c q :
  wf_content c -> wf_query q ->
  let m := keep_mask (q_samples q) (g_samples c) in
  let samples' := mask m (g_samples c) in
  let sel := select in_region_vcf q (combine (g_variants c) (g_rows c)) in
  vcf_read_x true c q = Ok (vcf_result m samples' (take_q q sel))
  /\ vcf_iter_x true c q = Ok (samples', map (fun r : vrec => (fst r, mask m (snd r))) sel).
Proof.
  intros Hwf Hq m samples' sel. unfold vcf_read_x, vcf_iter_x, sel_samples. fold m. fold samples'.
  destruct samples' as [|s0 rest] eqn:Es.
  - cbn [andb is_nil]. pose proof Hwf as [Hlen [Hrows Hnd]].
    rewrite (vcf_records_select c q Hnd Hlen Hq). fold sel.
    rewrite (take_ids_all q sel c Hwf Hq in_region_vcf eq_refl).
    split; [reflexivity|]. f_equal. f_equal. apply map_ext. intros r. f_equal. symmetry.
    apply (mask_nil_all m (g_samples c)); [unfold m, keep_mask; apply map_length|exact Es].
  - cbn [andb is_nil]. rewrite <- Es. apply vcf_read_spec; try assumption. left. fold m. fold samples'. rewrite Es. discriminate.
Qed.

Lemma pgen_read_x_spec pload c q chunk :
  wf_content c -> wf_query q -> chunk_dom chunk ->
  let m := keep_mask (q_samples q) (g_samples c) in
  let samples' := mask m (g_samples c) in
  let sel := select in_region_pgen q (combine (g_variants c) (g_rows c)) in
  pgen_read_x pload true chunk c q = Ok (pgen_result pload m samples' (take_q q sel))
  /\ pgen_iter_x pload true c q
     = Ok (samples', map (fun r : vrec => (fst r, map (load_call pload) (to_stored (mask m (snd r))))) sel).
Proof.
  intros Hwf Hq Hc m samples' sel. unfold pgen_read_x, pgen_iter_x, sel_samples. fold m. fold samples'.
  destruct samples' as [|s0 rest] eqn:Es.
  - pose proof Hwf as [Hlen [Hrows Hnd]].
    assert (Hm : forall r : list call, mask m r = []).
    { intros r. apply (mask_nil_all m (g_samples c)); [unfold m, keep_mask; apply map_length|exact Es]. }
    destruct (is_nil (g_variants c)) eqn:Ev.
    + apply is_nil_spec in Ev. cbn [andb negb]. rewrite andb_false_r.
      unfold pgen_read_q, pgen_iter_q. fold m. fold samples'. rewrite Ev, Es.
      cbn [lenZ length Z.of_nat Z.eqb is_nil].
      assert (Esel : sel = []) by (unfold sel; rewrite Ev; reflexivity).
      assert (Et : take_q q (@nil vrec) = []).
      { unfold take_q, take. destruct (q_ids q); [reflexivity|]. destruct (q_max q); [apply firstn_nil|reflexivity]. }
      rewrite Esel, Et. split; reflexivity.
    + cbn [andb is_nil negb].
      assert (Erecs : pgen_records c q = sel) by (unfold pgen_records; rewrite pvar_scan_select; reflexivity).
      rewrite Erecs.
      assert (Hsel_p : lenZ sel <= lenZ (g_variants c)).
      { unfold sel. rewrite select_eq. unfold lenZ. apply inj_le.
        apply (Nat.le_trans _ (length (combine (g_variants c) (g_rows c)))); [apply filter_length_le|].
        rewrite combine_length. apply Nat.le_min_l. }
      assert (Etake : firstn (Z.to_nat (match q_ids q with
                 | Some V => lenZ V
                 | None => match q_max q with None => lenZ (g_variants c) | Some k => Z.min k (lenZ (g_variants c)) end
                 end)) sel = take_q q sel).
      { unfold take_q. destruct (q_ids q) as [V|] eqn:EV.
        - apply firstn_all2.
          assert (lenZ sel <= lenZ V).
          { unfold sel. rewrite select_eq, EV. apply sel_le; [|apply Hq; exact EV].
            rewrite ids_of_combine by exact Hlen. exact Hnd. }
          unfold lenZ in *. lia.
        - unfold take. destruct (q_max q) as [k|].
          + apply firstn_min_len. exact Hsel_p.
          + apply firstn_all2. unfold lenZ in *. lia. }
      rewrite Etake. unfold pgen_result. split.
      * f_equal. f_equal. apply map_ext. intros r. rewrite Hm. reflexivity.
      * f_equal. f_equal. apply map_ext. intros r. rewrite Hm. reflexivity.
  - replace (true && is_nil (s0 :: rest) && negb (is_nil (g_variants c))) with false by reflexivity.
    rewrite <- Es. apply pgen_read_spec; try assumption. fold m. fold samples'. rewrite Es. discriminate.
Qed.

(* the tree as it is raises instead *)
Definition q_nobody : query := mkq None (Some []) None None.

Example empty_sample_selection_refuted :
  vcf_read_x false c_one q_nobody = Err E_Attribute
  /\ pgen_read_x pload_std false None c_one q_nobody = Err E_Runtime
  /\ vcf_read_x true c_one q_nobody = Ok (mkg [] [mkvar 1 2 29 [3; 4] 1] [] [0; 0; 0])
  /\ pgen_read_x pload_std true None c_one q_nobody = Ok (mkg [] [mkvar 1 2 29 [3; 4] 1] [[]] [0; 1; 3]).
Proof. vm_compute. repeat split. Qed.

(* ---- soundness of the checkers of the [seq] relation -------------------------------------- *)

Lemma holds_step_sound strict s b :
  holds_step strict s = true -> ss_before s = Ok b -> hollow b = false \/ strict = true ->
  subset_dom b = true ->
  exists g', ss_obs s = Ok g'
    /\ g_samples g' = match ss_S s with
                      | None => g_samples b
                      | Some S' => filter (fun x => memZ x (g_samples b)) S' end
    /\ map v_id (g_variants g') = match ss_V s with
                      | None => map v_id (g_variants b)
                      | Some V' => filter (fun v => memZ v (map v_id (g_variants b))) V' end.
Proof.
  intros H Hb Hh Hd. unfold holds_step in H. rewrite Hb in H.
  assert (E : hollow b && negb strict = false) by (destruct Hh as [-> | ->]; [reflexivity|apply andb_false_r]).
  rewrite E in H. exact (holds_subset_sound (mksc b (ss_S s) (ss_V s) (ss_obs s)) H Hd).
Qed.

Lemma holds_seq_sound k full :
  holds_seq k = true -> qc_full k = Ok full ->
  let q := qc_q k in
  let m := keep_mask (q_samples q) (g_samples full) in
  mask m (g_samples full) <> [] ->
  Forall (fun s => holds_step (qc_strict_nocells k) s = true) (qc_steps k)
  /\ exists rd, qc_read k = Ok rd
     /\ g_samples rd = mask m (g_samples full)
     /\ g_variants rd = map fst (expected q full rd)
     /\ (expected q full rd <> [] -> g_rows rd = map (fun x : vrec => mask m (snd x)) (expected q full rd))
     /\ (expected q full rd = [] -> g_rows rd = [] /\ qc_warned k = true)
     /\ (hollow full = false \/ qc_strict_nocells k = true ->
         exists cp, qc_comp k = Some (Ok cp) /\ g_samples cp = g_samples rd
                    /\ g_variants cp = g_variants rd /\ g_rows cp = g_rows rd).
Proof.
  intros H Hf. cbv zeta. intros Hne. unfold holds_seq in H. rewrite Hf in H.
  apply andb_true_iff in H. destruct H as [Hsteps H].
  split; [apply Forall_forall; rewrite forallb_forall in Hsteps; exact Hsteps|].
  rewrite (is_nil_false _ Hne) in H.
  destruct (qc_read k) as [rd|]; [|discriminate]. exists rd. split; [reflexivity|].
  apply andb_true_iff in H. destruct H as [Hrd Hcomp]. unfold holds_rd in Hrd.
  rewrite !andb_true_iff in Hrd. destruct Hrd as [[H1 H2] H3].
  apply (list_eqb_spec Z.eqb Z.eqb_eq) in H1. apply (list_eqb_spec variant_eqb variant_eqb_spec) in H2.
  split; [exact H1|]. split; [exact H2|]. split; [|split].
  - intros E. rewrite (is_nil_false _ E) in H3. apply rows_eqb_spec in H3. exact H3.
  - intros E. rewrite E in H3. cbn [is_nil] in H3. apply andb_true_iff in H3. destruct H3 as [Ha Hb].
    apply is_nil_spec in Ha. auto.
  - intros Hh. unfold holds_comp in Hcomp. destruct (qc_comp k) as [[cp|e]|]; [| |discriminate].
    + exists cp. rewrite !andb_true_iff in Hcomp. destruct Hcomp as [[Ha Hb] Hc].
      apply (list_eqb_spec Z.eqb Z.eqb_eq) in Ha. apply (list_eqb_spec variant_eqb variant_eqb_spec) in Hb.
      apply rows_eqb_spec in Hc. auto.
    + exfalso. apply andb_true_iff in Hcomp. destruct Hcomp as [Ha Hb].
      destruct Hh as [Hh|Hh]; [congruence|]. rewrite Hh in Hb. discriminate.
Qed.
