(* C08 - proofs, part 3: soundness of the checkers of the [read] relation as it is now (region texts,
   contig names cut to 10 characters, files without an index, repeated IDs) and of the [cmdfmt]
   relation; a command that looks at nothing but the loaded content gives the same result for
   either format. *)
From HV Require Import Prelude BpText C07_Model C07_Check C07_Proofs C08_Model C08_Region C08_Check C08_Proofs C08_Proofs2.

(* ---- holds_read --------------------------------------------------------------------------- *)

Lemma holds_read_sound k :
  holds_read k = true -> read_dom k = true ->
  holds_vcf k = true /\ holds_cross_full k = true
  /\ (pgen_region_misread k = false ->
      holds_fmt (rc_strict_samples k) (load_q (rc_q k)) (rc_pgen k) = true
      /\ holds_cross_restricted k = true).
Proof.
  unfold holds_read. intros H Hd. rewrite Hd in H. cbn [negb orb] in H.
  rewrite !andb_true_iff in H. destruct H as [[[H1 _] H2] H3].
  split; [exact H1|]. split; [exact H2|]. intros Hm. rewrite Hm in H3. cbn [orb] in H3.
  rewrite !andb_true_iff in H3. tauto.
Qed.

(* a region handed to the VCF reader of a file without an index: refused by both APIs, or answered
   as the property demands *)
Lemma holds_vcf_sound k :
  holds_vcf k = true ->
  (rc_vcf_unindexed k = true /\ (exists e e', fo_read (rc_vcf k) = Err e /\ fo_iter (rc_vcf k) = Err e'))
  \/ holds_fmt (rc_strict_samples k) (load_q (vcf_q k)) (rc_vcf k) = true.
Proof.
  unfold holds_vcf. intros H. apply orb_true_iff in H. destruct H as [H|H]; [left|right; exact H].
  apply andb_true_iff in H. destruct H as [Hu H]. split; [exact Hu|].
  destruct (fo_read (rc_vcf k)) as [g|e]; [discriminate|].
  destruct (fo_iter (rc_vcf k)) as [g|e']; [discriminate|]. eauto.
Qed.

(* when the switch is on nothing is excused *)
Lemma misread_fixed k : rc_fixed_region k = true -> pgen_region_misread k = false.
Proof. unfold pgen_region_misread. intros ->. reflexivity. Qed.

Lemma region_eqb_spec x y : region_eqb x y = true <-> x = y.
Proof.
  destruct x as [[c a] b], y as [[c' a'] b']. unfold region_eqb.
  rewrite !andb_true_iff, Z.eqb_eq, !(opt_eqb_spec Z.eqb Zeqb_iff).
  split; [intros [[-> ->] ->]; reflexivity|intros E; inversion E; auto].
Qed.

(* ... and when it is off, only a text the legacy parser does not read as the region that was meant *)
Lemma misread_spec k :
  pgen_region_misread k = true ->
  rc_fixed_region k = false
  /\ exists s r, rc_regstr k = Some s /\ q_region (rc_q k) = Some r
                 /\ pgen_region false (chroms_of (rc_c k)) s <> Ok r.
Proof.
  unfold pgen_region_misread. intros H. apply andb_true_iff in H. destruct H as [Hf H].
  apply negb_true_iff in Hf. split; [exact Hf|].
  destruct (rc_regstr k) as [s|]; [|discriminate]. destruct (q_region (rc_q k)) as [r|]; [|discriminate].
  exists s, r. split; [reflexivity|]. split; [reflexivity|]. intros E. rewrite E in H.
  cbn [res_eqb] in H. apply negb_true_iff in H.
  assert (region_eqb r r = true) by (apply region_eqb_spec; reflexivity). congruence.
Qed.

(* for a contig name without ':' and '-' the legacy parser is never excused *)
Lemma misread_plain k r :
  rc_regstr k = Some (print_region r) -> q_region (rc_q k) = Some (enc_region r) ->
  plain (fst (fst r)) -> wf_sregion r -> pgen_region_misread k = false.
Proof.
  intros Hs Hr Hp Hwf. unfold pgen_region_misread. rewrite Hs, Hr.
  rewrite (pgen_region_legacy_print _ r Hp Hwf). cbn [res_eqb].
  assert (region_eqb (enc_region r) (enc_region r) = true) by (apply region_eqb_spec; reflexivity).
  rewrite H. cbn [negb]. apply andb_false_r.
Qed.

(* ---- cmdfmt --------------------------------------------------------------------------------- *)

Lemma cout_eqb_spec x y :
  cout_eqb x y = true <-> co_exit x = co_exit y /\ co_exc x = co_exc y /\ co_out x = co_out y.
Proof.
  unfold cout_eqb. rewrite !andb_true_iff, !Z.eqb_eq.
  rewrite (opt_eqb_spec _ (list_eqb_spec _ (list_eqb_spec Z.eqb Zeqb_iff))). tauto.
Qed.

Lemma holds_cmdfmt_sound k :
  holds_cmdfmt k = true -> cmd_region_misread k = false -> cmd_empty_excused k = false ->
  co_exit (cc_out_v k) = co_exit (cc_out_p k) /\ co_exc (cc_out_v k) = co_exc (cc_out_p k)
  /\ co_out (cc_out_v k) = co_out (cc_out_p k).
Proof.
  unfold holds_cmdfmt. intros H Hm He. rewrite Hm, He in H. cbn [orb] in H. apply cout_eqb_spec. exact H.
Qed.

(* what the switch STRICT_CMD_EMPTY_LOAD excuses while it is off: only runs whose two loads have arrays of
   different shapes - and both readers give arrays of the same shape unless nothing was matched *)
Lemma empty_excused_spec k :
  cmd_empty_excused k = true ->
  cc_strict_empty k = false
  /\ exists a b, cc_load_v k = Some (Ok a) /\ cc_load_p k = Some (Ok b)
                 /\ no_cells a = true /\ g_samples a = g_samples b /\ g_shape a <> g_shape b.
Proof.
  unfold cmd_empty_excused, shapes_differ. intros H. apply andb_true_iff in H. destruct H as [Hs H].
  apply negb_true_iff in Hs. split; [exact Hs|].
  destruct (cc_load_v k) as [[a|]|]; try discriminate. destruct (cc_load_p k) as [[b|]|]; try discriminate.
  apply andb_true_iff in H. destruct H as [H H4]. apply andb_true_iff in H. destruct H as [H H3].
  apply andb_true_iff in H. destruct H as [H1 H2].
  exists a, b. split; [reflexivity|]. split; [reflexivity|]. split; [exact H1|].
  split; [apply (list_eqb_spec Z.eqb Zeqb_iff); exact H2|].
  intros E. rewrite E in H4.
  assert (Hr : list_eqb Z.eqb (g_shape b) (g_shape b) = true) by (apply list_eqb_spec; [exact Zeqb_iff|reflexivity]).
  rewrite Hr in H4. discriminate.
Qed.

Lemma lenZ_nonnil {A} (l : list A) : l <> [] -> (lenZ l =? 0) = false.
Proof. intros H. apply Z.eqb_neq. unfold lenZ. destruct l; [congruence|cbn [length]; lia]. Qed.

Lemma read_shapes_agree pload c q chunk :
  wf_content c -> wf_query q -> chunk_dom chunk -> selected_samples c q <> [] ->
  select in_region_vcf q (combine (g_variants c) (g_rows c)) = select in_region_pgen q (combine (g_variants c) (g_rows c)) ->
  take_q q (select in_region_vcf q (combine (g_variants c) (g_rows c))) <> [] ->
  exists gv gp, vcf_read_q c q = Ok gv /\ pgen_read_q pload false chunk c q = Ok gp /\ g_shape gv = g_shape gp.
Proof.
  intros Hwf Hq Hch Hne Hsel Hnz.
  destruct (vcf_read_spec c q Hwf Hq (or_introl Hne)) as [Ev _].
  destruct (pgen_read_spec pload c q chunk Hwf Hq Hch Hne) as [Ep _].
  do 2 eexists. split; [exact Ev|]. split; [exact Ep|].
  rewrite <- Hsel. unfold vcf_result, pgen_result.
  unfold selected_samples in Hne. cbn zeta.
  rewrite (lenZ_nonnil _ Hne), (lenZ_nonnil _ Hnz). reflexivity.
Qed.

(* The hypothesis the [cmdfmt] relation tests: the command is a function of what was loaded -
   samples, variants, allele indices, phase of heterozygous calls - and looks at nothing else. *)
Definition loaded_equiv (gv gp : geno) : Prop :=
  g_samples gv = g_samples gp /\ g_variants gv = g_variants gp
  /\ (Forall2 (Forall2 (call_equiv 3)) (g_rows gv) (g_rows gp)
      \/ (g_rows gv = [] /\ g_variants gv = [])).

Definition looks_at_content_only {R} (cmd : geno -> R) : Prop :=
  forall x y, loaded_equiv x y -> cmd x = cmd y.

Lemma command_same_result {R} (cmd : geno -> R) pload c q chunk :
  looks_at_content_only cmd ->
  pload_contract pload -> wf_content c -> wf_query q -> chunk_dom chunk ->
  geno_domb false c = true -> g_variants c <> [] -> selected_samples c q <> [] ->
  region_comparable c q ->
  exists gv gp, vcf_read_q c q = Ok gv /\ pgen_read_q pload false chunk c q = Ok gp
                /\ cmd gv = cmd gp.
Proof.
  intros Hcmd Hc Hwf Hq Hch Hd Hv Hne Hreg.
  destruct (vcf_pgen_same_content pload c q chunk Hc Hwf Hq Hch Hd Hv Hne Hreg)
    as [gv [gp [Ev [Ep [Hs [Hvar Hrows]]]]]].
  exists gv, gp. split; [exact Ev|]. split; [exact Ep|]. apply Hcmd. split; [exact Hs|]. split; [exact Hvar|exact Hrows].
Qed.

(* the hypothesis is satisfiable: the list of samples and variant IDs a command prints, and the
   allele dosages it computes with, look at nothing else *)
Definition dosage_of (c : call) : Z := let '(a, b, _) := c in a + b.

Lemma call_equiv_dosage x y : call_equiv 3 x y -> dosage_of x = dosage_of y.
Proof.
  destruct x as [[a b] p], y as [[a' b'] p']. unfold call_equiv, dosage_of. intros [H1 [H2 H3]].
  destruct (Z.eq_dec a b) as [E|N].
  - destruct (H1 E) as [-> ->]. reflexivity.
  - destruct (Z.eq_dec p 0) as [Ep|Np].
    + destruct (H3 N ltac:(lia) Ep) as [_ [[-> ->]|[-> ->]]]; lia.
    + destruct (H2 N (or_intror Np)) as [-> [-> _]]. reflexivity.
Qed.

Definition summary (g : geno) : list Z * list Z * list (list Z) :=
  (g_samples g, map v_id (g_variants g),
   match g_variants g with [] => [] | _ => map (map dosage_of) (g_rows g) end).

Lemma summary_looks_at_content_only : looks_at_content_only summary.
Proof.
  intros x y [Hs [Hv Hr]]. unfold summary. rewrite Hs, Hv. f_equal.
  destruct Hr as [Hr|[_ Hn]].
  - destruct (g_variants y) as [|v0 vs0]; [reflexivity|].
    induction Hr as [|r r' rs rs' Hrow _ IH]; [reflexivity|]. cbn [map]. f_equal; [|exact IH].
    induction Hrow as [|a b t t' Hab _ IHr]; [reflexivity|]. cbn [map]. f_equal; [apply call_equiv_dosage; exact Hab|exact IHr].
  - rewrite <- Hv, Hn. reflexivity.
Qed.
