(* C08 - proofs, part 4: callers that HOLD what a reader handed out.
   (1) An iterator as a state machine whose records may point into the state (a buffer the iterator
       re-uses): the three ways a caller can consume it - convert each record at once, materialise all
       records first, convert a record only after the iterator moved on - are three functions; they
       coincide as soon as converting a record does not look at the state (a record that owns its data),
       in particular for the model's iterator, which is a list; over a shared cell they differ.
   (2) Soundness of the checker clauses [held_same] and [holds_again] of C08_Check. *)
From HV Require Import Prelude BpText C07_Model C07_Check C07_Proofs C08_Model C08_Region C08_Check C08_Proofs C08_Proofs2 C08_Proofs3.

(* ---- (1) consumption styles ------------------------------------------------------------------- *)

Section Consume.
  Variables St Rec Val : Type.
  Variable next : St -> option (Rec * St).   (* advance: the record handed out and the state after *)
  Variable view : St -> Rec -> Val.          (* convert a record to plain data, in the state the conversion is made in *)

  (* (i) for rec in it: out.append(convert(rec)) *)
  Fixpoint consume_convert (fuel : nat) (s : St) : list Val :=
    match fuel with
    | O => []
    | S f => match next s with
             | None => []
             | Some (r, s') => view s' r :: consume_convert f s'
             end
    end.

  (* (ii) recs = list(it); [convert(rec) for rec in recs]: every conversion is made in the final state *)
  Fixpoint materialise (fuel : nat) (s : St) : list Rec * St :=
    match fuel with
    | O => ([], s)
    | S f => match next s with
             | None => ([], s)
             | Some (r, s') => let '(l, e) := materialise f s' in (r :: l, e)
             end
    end.

  Definition materialise_convert (fuel : nat) (s : St) : list Val :=
    let '(l, e) := materialise fuel s in map (view e) l.

  (* (iii) keep the previous record, advance, then convert the previous one *)
  Fixpoint interleave (fuel : nat) (prev : Rec) (s : St) : list Val :=
    match fuel with
    | O => [view s prev]
    | S f => match next s with
             | None => [view s prev]
             | Some (r, s') => view s' prev :: interleave f r s'
             end
    end.

  Definition interleave_convert (fuel : nat) (s : St) : list Val :=
    match fuel with
    | O => []
    | S f => match next s with
             | None => []
             | Some (r, s') => interleave f r s'
             end
    end.

  (* a record owns its data: converting it does not look at the iterator *)
  Definition owns_data : Prop := forall s s' r, view s r = view s' r.

  Lemma materialise_owned (H : owns_data) fuel : forall s e,
    map (view e) (fst (materialise fuel s)) = consume_convert fuel s.
  Proof.
    induction fuel as [|f IH]; intros s e; cbn [materialise consume_convert]; [reflexivity|].
    destruct (next s) as [[r s']|]; [|reflexivity].
    specialize (IH s' e). destruct (materialise f s') as [l e']. cbn [fst map] in *.
    rewrite IH. f_equal. apply H.
  Qed.

  Lemma interleave_owned (H : owns_data) fuel : forall r s0 s,
    interleave fuel r s = view s0 r :: consume_convert fuel s.
  Proof.
    induction fuel as [|f IH]; intros r s0 s; cbn [interleave consume_convert].
    - f_equal. apply H.
    - destruct (next s) as [[r' s']|].
      + rewrite (IH r' s' s'). f_equal. apply H.
      + f_equal. apply H.
  Qed.

  Lemma styles_coincide (H : owns_data) fuel s :
    materialise_convert fuel s = consume_convert fuel s
    /\ interleave_convert fuel s = consume_convert fuel s.
  Proof.
    split.
    - unfold materialise_convert. pose proof (materialise_owned H fuel s) as M.
      destruct (materialise fuel s) as [l e]. exact (M e).
    - destruct fuel as [|f]; [reflexivity|]. cbn [interleave_convert consume_convert].
      destruct (next s) as [[r s']|]; [|reflexivity]. apply (interleave_owned H).
  Qed.
End Consume.

Arguments consume_convert {St Rec Val}.
Arguments materialise_convert {St Rec Val}.
Arguments interleave_convert {St Rec Val}.
Arguments owns_data {St Rec Val}.

(* the model's iterator: a list, its records are values *)
Definition list_next {A} (l : list A) : option (A * list A) :=
  match l with [] => None | x :: t => Some (x, t) end.
Definition value_view {A} (_ : list A) (r : A) : A := r.

Lemma list_consume {A} (l : list A) : forall fuel, (length l <= fuel)%nat ->
  consume_convert list_next value_view fuel l = l.
Proof.
  induction l as [|x t IH]; intros [|f] Hf; cbn [consume_convert list_next length] in *; try reflexivity; try lia.
  unfold value_view at 1. f_equal. apply IH. lia.
Qed.

Lemma list_styles {A} (l : list A) fuel : (length l <= fuel)%nat ->
  consume_convert list_next value_view fuel l = l
  /\ materialise_convert list_next value_view fuel l = l
  /\ interleave_convert list_next value_view fuel l = l.
Proof.
  intros Hf.
  assert (Ho : owns_data (St := list A) value_view) by (intros s s' r; reflexivity).
  destruct (styles_coincide _ _ _ list_next value_view Ho fuel l) as [E1 E2].
  rewrite E1, E2. pose proof (list_consume l fuel Hf) as E. auto.
Qed.

(* an iterator that fills ONE cell and hands out (the variant's name, a pointer to the cell):
   the state is (what is left of the file, the cell), a record is the name, converting a record reads the
   cell as it is at that moment *)
Definition cell_next (s : list (Z * Z) * Z) : option (Z * (list (Z * Z) * Z)) :=
  match fst s with [] => None | (name, g) :: t => Some (name, (t, g)) end.
Definition cell_view (s : list (Z * Z) * Z) (name : Z) : Z * Z := (name, snd s).

Lemma shared_cell_refuted :
  let file := [(1, 10); (2, 20); (3, 30)] in
  consume_convert cell_next cell_view 4 (file, 0) = [(1, 10); (2, 20); (3, 30)]
  /\ materialise_convert cell_next cell_view 4 (file, 0) = [(1, 30); (2, 30); (3, 30)]
  /\ interleave_convert cell_next cell_view 4 (file, 0) = [(1, 20); (2, 30); (3, 30)].
Proof. vm_compute. auto. Qed.

(* ---- (2) the checker clauses -------------------------------------------------------------------- *)

Lemma vrec_eqb_spec x y : vrec_eqb x y = true <-> x = y.
Proof.
  destruct x as [v r], y as [v' r']. unfold vrec_eqb. cbn [fst snd].
  rewrite andb_true_iff, variant_eqb_spec, (list_eqb_spec call_eqb call_eqb_spec).
  split; [intros [-> ->]; reflexivity|intros E; inversion E; auto].
Qed.

Lemma iter_eqb_spec x y : iter_eqb x y = true <-> x = y.
Proof.
  destruct x as [s r], y as [s' r']. unfold iter_eqb, pair_eqb. cbn [fst snd].
  rewrite andb_true_iff, (list_eqb_spec Z.eqb Zeqb_iff), (list_eqb_spec vrec_eqb vrec_eqb_spec).
  split; [intros [-> ->]; reflexivity|intros E; inversion E; auto].
Qed.

Lemma geno_eqb_spec a b : geno_eqb a b = true <-> a = b.
Proof.
  destruct a as [s v r h], b as [s' v' r' h']. unfold geno_eqb. cbn [g_samples g_variants g_rows g_shape].
  rewrite !andb_true_iff, !(list_eqb_spec Z.eqb Zeqb_iff), (list_eqb_spec variant_eqb variant_eqb_spec).
  fold rows_eqb. rewrite rows_eqb_spec.
  split; [intros [[[-> ->] ->] ->]; reflexivity|intros E; inversion E; auto].
Qed.

Lemma res_same_spec {A} (e : A -> A -> bool) (He : forall a b, e a b = true <-> a = b) x y :
  res_same e x y = true <->
  (exists a, x = Ok a /\ y = Ok a) \/ (exists k k', x = Err k /\ y = Err k').
Proof.
  destruct x as [a|k], y as [b|k']; cbn [res_same]; split.
  - intros H. apply He in H. subst. left. eauto.
  - intros [[c [E1 E2]]|[c [c' [E1 _]]]]; [|discriminate]. inversion E1. inversion E2. subst. apply He. reflexivity.
  - discriminate.
  - intros [[c [_ E2]]|[c [c' [E1 _]]]]; discriminate.
  - discriminate.
  - intros [[c [E1 _]]|[c [c' [_ E2]]]]; discriminate.
  - intros _. right. eauto.
  - reflexivity.
Qed.

(* [holds_fmt] looks at the iterator's observation only: an observation that shows the same passes alike *)
Lemma holds_fmt_with_iter strict q fo it :
  res_same iter_eqb (fo_iter fo) it = true ->
  holds_fmt strict q (with_iter fo it) = holds_fmt strict q fo.
Proof.
  intros H. apply (res_same_spec iter_eqb iter_eqb_spec) in H.
  unfold holds_fmt, with_iter. cbn [fo_full fo_read fo_warned fo_iter].
  destruct H as [[a [E1 E2]]|[e [e' [E1 E2]]]]; rewrite E1, E2; [reflexivity|].
  destruct (fo_full fo) as [full|]; [|reflexivity].
  destruct (is_nil _); destruct (fo_read fo); reflexivity.
Qed.

(* "the streaming iterator yields the same records as the bulk read" for EVERY consumption style that
   was observed *)
Lemma held_same_sound strict q fo :
  holds_fmt strict q fo = true -> held_same fo = true ->
  forall it, In it (fo_held fo) -> holds_fmt strict q (with_iter fo it) = true.
Proof.
  intros Hf Hs it Hin. unfold held_same in Hs. rewrite forallb_forall in Hs.
  rewrite (holds_fmt_with_iter strict q fo it (Hs it Hin)). exact Hf.
Qed.

(* where a refusal is accepted (a region handed to the VCF reader of a file without an index), every
   style was refused *)
Lemma held_same_refused fo e :
  held_same fo = true -> fo_iter fo = Err e ->
  forall it, In it (fo_held fo) -> exists e', it = Err e'.
Proof.
  intros Hs He it Hin. unfold held_same in Hs. rewrite forallb_forall in Hs.
  specialize (Hs it Hin). rewrite He in Hs. destruct it as [x|e']; [discriminate|eauto].
Qed.

(* two reads on one object: the first returned what a read on a fresh object returns, the second too,
   and the arrays of the first are what they were *)
Lemma holds_again_sound fo rr full rd :
  holds_again fo = true -> fo_again fo = Some rr -> fo_full fo = Ok full -> fo_read fo = Ok rd ->
  let a := if rr_full_first rr then full else rd in
  let b := if rr_full_first rr then rd else full in
  rr_first rr = Ok a /\ rr_first_kept rr = Ok a /\ rr_second rr = Ok b.
Proof.
  unfold holds_again. intros H Hr Hf Hd. rewrite Hr, Hf, Hd in H. cbv zeta.
  apply andb_true_iff in H. destruct H as [H H3]. apply andb_true_iff in H. destruct H as [H1 H2].
  apply (res_same_spec geno_eqb geno_eqb_spec) in H1, H2, H3.
  destruct (rr_full_first rr).
  - destruct H1 as [[a [E1 E1']]|[k [k' [_ E]]]]; [|discriminate]. inversion E1'. subst a.
    destruct H3 as [[b [E3 E3']]|[k [k' [_ E]]]]; [|discriminate]. inversion E3'. subst b.
    destruct H2 as [[c [E2 E2']]|[k [k' [_ E]]]]; [|congruence]. split; [exact E1|]. split; [congruence|exact E3].
  - destruct H1 as [[a [E1 E1']]|[k [k' [_ E]]]]; [|discriminate]. inversion E1'. subst a.
    destruct H3 as [[b [E3 E3']]|[k [k' [_ E]]]]; [|discriminate]. inversion E3'. subst b.
    destruct H2 as [[c [E2 E2']]|[k [k' [_ E]]]]; [|congruence]. split; [exact E1|]. split; [congruence|exact E3].
Qed.

(* [holds_read] as it is now: what C08_Proofs3.holds_read_sound says, and for both formats what a caller
   sees that holds on to records / arrays *)
Lemma holds_read_kept_sound k :
  holds_read k = true -> read_dom k = true ->
  holds_vcf k = true /\ holds_kept (rc_vcf k) = true /\ holds_cross_full k = true
  /\ (pgen_region_misread k = false ->
      holds_fmt (rc_strict_samples k) (load_q (rc_q k)) (rc_pgen k) = true
      /\ holds_kept (rc_pgen k) = true /\ holds_cross_restricted k = true).
Proof.
  unfold holds_read. intros H Hd. rewrite Hd in H. cbn [negb orb] in H.
  rewrite !andb_true_iff in H. destruct H as [[[H1 H2] H3] H4].
  split; [exact H1|]. split; [exact H2|]. split; [exact H3|]. intros Hm. rewrite Hm in H4. cbn [orb] in H4.
  rewrite !andb_true_iff in H4. tauto.
Qed.

Lemma holds_kept_spec fo : holds_kept fo = true <-> held_same fo = true /\ holds_again fo = true.
Proof. unfold holds_kept. apply andb_true_iff. Qed.
