(* C08 - property theorems only (statements over the model in C08_Model).
   Domain: [wf_content] = rows match variants and samples, variant IDs unique;
   [wf_query] = the ID restriction is a set (duplicate-free). *)
From HV Require Import Prelude BpText C07_Text C07_Model C07_Check C07_Proofs C08_Model C08_Region C08_Check C08_Proofs C08_Proofs2 C08_Proofs3 C08_Proofs4.

(* core: VCF.  A restricted read returns exactly the full read filtered in file
   order (rows by region overlap and ID membership, columns by sample membership),
   for every content, region, sample set, ID set and max_variants; with an empty
   match the result is Ok (an empty object), not an error.  The early exit of the ID
   filter and the preallocation to len(variants) never lose a record. *)
Theorem C08_read_restricted_eq_subset_vcf :
  forall c q,
  wf_content c -> wf_query q -> g_samples c <> [] -> g_variants c <> [] ->
  selected_samples c q <> [] \/ select in_region_vcf q (combine (g_variants c) (g_rows c)) = [] ->
  exists full, vcf_read_q c q_all = Ok full /\ vcf_read_q c q = Ok (restrict_vcf q full).
Proof. exact read_restricted_eq_subset_vcf. Qed.
Print Assumptions C08_read_restricted_eq_subset_vcf.

(* core: PGEN, for every pgenlib behaviour and every chunk size >= 1 or None *)
Theorem C08_read_restricted_eq_subset_pgen :
  forall pload c q chunk,
  wf_content c -> wf_query q -> chunk_dom chunk -> g_samples c <> [] ->
  selected_samples c q <> [] ->
  exists full, pgen_read_q pload false chunk c q_all = Ok full
            /\ pgen_read_q pload false chunk c q = Ok (restrict_pgen q full).
Proof. exact read_restricted_eq_subset_pgen. Qed.
Print Assumptions C08_read_restricted_eq_subset_pgen.

(* the closed forms behind them: which samples and records a query selects *)
Theorem C08_vcf_read_spec :
  forall c q, wf_content c -> wf_query q ->
  let m := keep_mask (q_samples q) (g_samples c) in
  let samples' := mask m (g_samples c) in
  let sel := select in_region_vcf q (combine (g_variants c) (g_rows c)) in
  samples' <> [] \/ sel = [] ->
  vcf_read_q c q = Ok (vcf_result m samples' (take_q q sel))
  /\ vcf_iter_q c q = Ok (samples', map (fun r : vrec => (fst r, mask m (snd r))) sel).
Proof. exact vcf_read_spec. Qed.
Print Assumptions C08_vcf_read_spec.

Theorem C08_pgen_read_spec :
  forall pload c q chunk, wf_content c -> wf_query q -> chunk_dom chunk ->
  let m := keep_mask (q_samples q) (g_samples c) in
  let samples' := mask m (g_samples c) in
  let sel := select in_region_pgen q (combine (g_variants c) (g_rows c)) in
  samples' <> [] ->
  pgen_read_q pload false chunk c q = Ok (pgen_result pload m samples' (take_q q sel))
  /\ pgen_iter_q pload false c q
     = Ok (samples', map (fun r : vrec => (fst r, map (load_call pload) (to_stored (mask m (snd r))))) sel).
Proof. exact pgen_read_spec. Qed.
Print Assumptions C08_pgen_read_spec.

Theorem C08_legacy_pgen_empty_refuted :
  pgen_read_q pload_std true None c_one q_noids = Err E_Value
  /\ pgen_read_q pload_std false None c_one q_noids = Ok (mkg [0] [] [] [1; 0; 3])
  /\ vcf_read_q c_one q_noids = Ok (mkg [0] [] [] [0; 0; 0]).
Proof. exact legacy_pgen_empty_refuted. Qed.
Print Assumptions C08_legacy_pgen_empty_refuted.

Theorem C08_legacy_pgen_iter_empty_refuted :
  pgen_iter_q pload_std true c_empty q_all = Err E_Runtime
  /\ pgen_iter_q pload_std false c_empty q_all = Ok ([0; 1], [])
  /\ vcf_iter_q c_empty q_all = Ok ([0; 1], [])
  /\ pgen_read_q pload_std true None c_empty q_all = Ok (mkg [0; 1] [] [] [2; 0; 3]).
Proof. exact legacy_pgen_iter_empty_refuted. Qed.
Print Assumptions C08_legacy_pgen_iter_empty_refuted.

(* core: subset returns the requested samples / variants in the requested order,
   unknown names dropped; it is total on objects with unique names *)
Theorem C08_subset_order :
  forall g S V g', subset g S V = Ok g' ->
  g_samples g' = match S with
                 | None => g_samples g
                 | Some S' => filter (fun s => memZ s (g_samples g)) S' end
  /\ map v_id (g_variants g') = match V with
                                | None => map v_id (g_variants g)
                                | Some V' => filter (fun v => memZ v (map v_id (g_variants g))) V' end.
Proof. exact subset_order. Qed.
Print Assumptions C08_subset_order.

(* ... and every variant record and every genotype cell of the result is the one
   its variant ID and sample name denote in the original object *)
Theorem C08_subset_cells :
  forall g S' V' g',
  subset g (Some S') (Some V') = Ok g' -> length (g_rows g) = length (g_variants g) ->
  forall i j, (i < length (g_variants g'))%nat -> (j < length (g_samples g'))%nat ->
  exists pi pj,
    index_of (v_id (nth i (g_variants g') dummy_variant)) (map v_id (g_variants g)) = Some pi
    /\ index_of (nth j (g_samples g') 0) (g_samples g) = Some pj
    /\ nth i (g_variants g') dummy_variant = nth pi (g_variants g) dummy_variant
    /\ nth j (nth i (g_rows g') []) dummy_call = nth pj (nth pi (g_rows g) []) dummy_call.
Proof. exact subset_cells. Qed.
Print Assumptions C08_subset_cells.

Theorem C08_subset_total :
  forall g S V, nodupb (g_samples g) = true -> nodupb (map v_id (g_variants g)) = true ->
  exists g', subset g S V = Ok g'.
Proof. exact subset_total. Qed.
Print Assumptions C08_subset_total.

(* extended: the streaming iterator yields the records of the bulk read *)
Theorem C08_iter_eq_read_vcf :
  forall c q, wf_content c -> wf_query q ->
  selected_samples c q <> [] \/ select in_region_vcf q (combine (g_variants c) (g_rows c)) = [] ->
  exists samples' recs g,
    vcf_iter_q c q = Ok (samples', recs) /\ vcf_read_q c q = Ok g
    /\ g_samples g = samples' /\ g_variants g = map fst (take_q q recs)
    /\ (g_rows g = map snd (take_q q recs) \/ (g_rows g = [] /\ (samples' = [] \/ take_q q recs = []))).
Proof. exact iter_eq_read_vcf. Qed.
Print Assumptions C08_iter_eq_read_vcf.

Theorem C08_iter_eq_read_pgen :
  forall pload c q chunk,
  wf_content c -> wf_query q -> chunk_dom chunk -> selected_samples c q <> [] ->
  exists samples' recs g,
    pgen_iter_q pload false c q = Ok (samples', recs) /\ pgen_read_q pload false chunk c q = Ok g
    /\ g_samples g = samples' /\ g_variants g = map fst (take_q q recs)
    /\ g_rows g = map snd (take_q q recs).
Proof. exact iter_eq_read_pgen. Qed.
Print Assumptions C08_iter_eq_read_pgen.

(* extended: max_variants = m returns the first m matching variants *)
Theorem C08_max_variants_prefix_vcf :
  forall c q, wf_content c -> wf_query q -> selected_samples c q <> [] -> q_ids q = None ->
  exists g g0, vcf_read_q c q = Ok g /\ vcf_read_q c (q_nomax q) = Ok g0
    /\ g_samples g = g_samples g0
    /\ g_variants g = take (q_max q) (g_variants g0)
    /\ (g_rows g = take (q_max q) (g_rows g0) \/ g_rows g = []).
Proof. exact max_variants_prefix_vcf. Qed.
Print Assumptions C08_max_variants_prefix_vcf.

Theorem C08_max_variants_prefix_pgen :
  forall pload c q chunk,
  wf_content c -> wf_query q -> chunk_dom chunk -> selected_samples c q <> [] ->
  q_ids q = None ->
  exists g g0, pgen_read_q pload false chunk c q = Ok g
    /\ pgen_read_q pload false chunk c (q_nomax q) = Ok g0
    /\ g_samples g = g_samples g0
    /\ g_variants g = take (q_max q) (g_variants g0)
    /\ g_rows g = take (q_max q) (g_rows g0).
Proof. exact max_variants_prefix_pgen. Qed.
Print Assumptions C08_max_variants_prefix_pgen.

(* extended: VCF and PGEN files with the same content load alike: same samples,
   same variants, same allele indices and missing calls, same phase of every
   heterozygous call - for every pgenlib meeting the C07 contract, every query
   whose region either has no start or meets only one-base REF alleles *)
Theorem C08_vcf_pgen_same_content :
  forall pload c q chunk,
  pload_contract pload -> wf_content c -> wf_query q -> chunk_dom chunk ->
  geno_domb false c = true -> g_variants c <> [] -> selected_samples c q <> [] ->
  region_comparable c q ->
  exists gv gp, vcf_read_q c q = Ok gv /\ pgen_read_q pload false chunk c q = Ok gp
    /\ g_samples gv = g_samples gp /\ g_variants gv = g_variants gp
    /\ (Forall2 (Forall2 (call_equiv 3)) (g_rows gv) (g_rows gp)
        \/ (g_rows gv = [] /\ g_variants gv = [])).
Proof. exact vcf_pgen_same_content. Qed.
Print Assumptions C08_vcf_pgen_same_content.

(* the two scans are the same filter as the specification's *)
Theorem C08_pvar_scan_select :
  forall reg V recs, pvar_scan reg V recs = filter (sel_pred in_region_pgen reg V) recs.
Proof. exact pvar_scan_select. Qed.
Print Assumptions C08_pvar_scan_select.

Theorem C08_vcf_records_select :
  forall c q,
  NoDup (map v_id (g_variants c)) -> length (g_rows c) = length (g_variants c) ->
  (forall V, q_ids q = Some V -> NoDup V) ->
  vcf_records c q = select in_region_vcf q (combine (g_variants c) (g_rows c)).
Proof. exact vcf_records_select. Qed.
Print Assumptions C08_vcf_records_select.

(* soundness of the boolean checkers evaluated on the implementation's output *)
Theorem C08_holds_fmt_sound :
  forall strict q fo full,
  holds_fmt strict q fo = true -> fo_full fo = Ok full ->
  let m := keep_mask (q_samples q) (g_samples full) in
  mask m (g_samples full) <> [] ->
  exists rd isamples irecs,
    fo_read fo = Ok rd /\ fo_iter fo = Ok (isamples, irecs)
    /\ g_samples rd = mask m (g_samples full)
    /\ g_variants rd = map fst (expected q full rd)
    /\ (expected q full rd = [] -> g_rows rd = [] /\ fo_warned fo = true)
    /\ (expected q full rd <> [] -> g_rows rd = map (fun x : vrec => mask m (snd x)) (expected q full rd))
    /\ isamples = mask m (g_samples full)
    /\ map fst (take_q q irecs) = g_variants rd
    /\ (take_q q irecs = [] \/ map snd (take_q q irecs) = g_rows rd).
Proof. exact holds_fmt_sound. Qed.
Print Assumptions C08_holds_fmt_sound.

Theorem C08_holds_subset_sound :
  forall k, holds_subset k = true -> subset_dom (sc_g k) = true ->
  exists g', sc_obs k = Ok g'
    /\ g_samples g' = match sc_S k with
                      | None => g_samples (sc_g k)
                      | Some S' => filter (fun s => memZ s (g_samples (sc_g k))) S' end
    /\ map v_id (g_variants g') = match sc_V k with
                      | None => map v_id (g_variants (sc_g k))
                      | Some V' => filter (fun v => memZ v (map v_id (g_variants (sc_g k)))) V' end.
Proof. exact holds_subset_sound. Qed.
Print Assumptions C08_holds_subset_sound.

(* the hypotheses are satisfiable *)
Theorem C08_hypotheses_satisfiable :
  wf_content c_one /\ wf_query q_noids /\ g_samples c_one <> [] /\ g_variants c_one <> []
  /\ selected_samples c_one q_noids <> [].
Proof. exact read_hypotheses_satisfiable. Qed.
Print Assumptions C08_hypotheses_satisfiable.

(* ------------------------------------------------------------------------------------
   The composite statement: a restricted read IS the model's subset() of the full read,
   by the selected samples in file order and the selected IDs in file order - for any
   file order of the records (sorted or not, a contig in one block or in several).
   [wf_content] + unique sample names. *)

(* subset() by the names a column mask keeps and by the IDs of any records of the object
   returns exactly those columns and those records *)
Theorem C08_subset_select :
  forall g m (sel : list vrec),
  wf_obj g -> (forall x, In x sel -> In x (combine (g_variants g) (g_rows g))) ->
  subset g (Some (mask m (g_samples g))) (Some (map (fun x : vrec => v_id (fst x)) sel))
  = Ok (mkg (mask m (g_samples g)) (map fst sel) (map (fun x : vrec => mask m (snd x)) sel)
            [lenZ (mask m (g_samples g)); lenZ sel; nth 2 (g_shape g) 3]).
Proof. exact subset_select. Qed.
Print Assumptions C08_subset_select.

Theorem C08_read_eq_full_then_subset_pgen :
  forall pload c q chunk,
  wf_content c -> NoDup (g_samples c) -> wf_query q -> chunk_dom chunk -> g_samples c <> [] ->
  selected_samples c q <> [] ->
  exists full, pgen_read_q pload false chunk c q_all = Ok full
    /\ pgen_read_q pload false chunk c q
       = subset full (Some (selected_samples full q)) (Some (sel_ids in_region_pgen q full)).
Proof. exact read_eq_full_subset_pgen. Qed.
Print Assumptions C08_read_eq_full_then_subset_pgen.

(* VCF: the same, except that Genotypes.read replaces an array without cells by one of
   shape (0, 0, 0) ([hollow_if_empty]) *)
Theorem C08_read_eq_full_then_subset_vcf :
  forall c q,
  wf_content c -> NoDup (g_samples c) -> wf_query q -> g_samples c <> [] -> g_variants c <> [] ->
  selected_samples c q <> [] ->
  exists full r, vcf_read_q c q_all = Ok full
    /\ subset full (Some (selected_samples full q)) (Some (sel_ids in_region_vcf q full)) = Ok r
    /\ vcf_read_q c q = Ok (hollow_if_empty r).
Proof. exact read_eq_full_subset_vcf. Qed.
Print Assumptions C08_read_eq_full_then_subset_vcf.

(* ------------------------------------------------------------------------------------
   Sequences of subset() calls.  What is true: on an object with unique names, well-
   shaped rows and a consistent shape, and for requests without repeated names, calling
   subset() again and again (each call on the result of the previous one) equals ONE
   subset() of the original object by the names the sequence leaves, in the order the
   sequence leaves them: each request filtered to the names still present
   ([final_names]); in particular the last request decides the order, whatever
   re-orderings preceded it.  A request that repeats a known name leaves duplicate names
   behind, and the next subset() by that kind of name raises ValueError. *)

Theorem C08_subset_of_subset :
  forall g l1 v1 l2 v2 g1,
  length (g_rows g) = length (g_variants g) ->
  subset g (Some l1) (Some v1) = Ok g1 ->
  nodupb (g_samples g1) = true -> nodupb (map v_id (g_variants g1)) = true ->
  subset g1 (Some l2) (Some v2)
  = subset g (Some (filter (fun x => memZ x l1) l2)) (Some (filter (fun x => memZ x v1) v2)).
Proof. exact subset_subset_some. Qed.
Print Assumptions C08_subset_of_subset.

(* no request = a request for every name in the object's order *)
Theorem C08_subset_norm :
  forall g S V, wf_obj g ->
  subset g S V = subset g (Some (norm_req S (g_samples g))) (Some (norm_req V (map v_id (g_variants g)))).
Proof. exact subset_norm. Qed.
Print Assumptions C08_subset_norm.

Theorem C08_subset_preserves_wf :
  forall g S V g1, wf_obj g -> req_nodup S -> req_nodup V -> subset g S V = Ok g1 ->
  wf_obj g1 /\ shape_ok g1
  /\ g_samples g1 = step_names (g_samples g) S
  /\ map v_id (g_variants g1) = step_names (map v_id (g_variants g)) V.
Proof. exact subset_wf. Qed.
Print Assumptions C08_subset_preserves_wf.

Theorem C08_subset_seq_one :
  forall reqs g, wf_obj g -> shape_ok g -> Forall req_ok reqs ->
  subset_seq g reqs
  = subset g (Some (final_names (g_samples g) (map fst reqs)))
             (Some (final_names (map v_id (g_variants g)) (map snd reqs))).
Proof. exact subset_seq_one. Qed.
Print Assumptions C08_subset_seq_one.

Theorem C08_subset_after_repeats :
  forall g S V g1 S2 V2,
  subset g (Some S) V = Ok g1 -> nodupb (filter (fun s => memZ s (g_samples g)) S) = false ->
  subset g1 (Some S2) V2 = Err E_Value.
Proof. exact subset_after_repeats. Qed.
Print Assumptions C08_subset_after_repeats.

Theorem C08_subset_after_repeats_ids :
  forall g S V g1 S2 V2,
  subset g S (Some V) = Ok g1 -> nodupb (g_samples g1) = true ->
  nodupb (filter (fun v => memZ v (map v_id (g_variants g))) V) = false ->
  subset g1 S2 (Some V2) = Err E_Value.
Proof. exact subset_after_repeats_ids. Qed.
Print Assumptions C08_subset_after_repeats_ids.

(* the hypotheses are satisfiable; a kept re-ordering followed by a subset *)
Theorem C08_subset_seq_example :
  wf_obj g_two /\ shape_ok g_two
  /\ subset_seq g_two [(Some [1; 0], None); (Some [0], None)]
     = Ok (mkg [0] [mkvar 1 2 29 [3; 4] 1] [[(0, 1, 1)]] [1; 1; 3]).
Proof. exact subset_seq_example. Qed.
Print Assumptions C08_subset_seq_example.

(* ------------------------------------------------------------------------------------
   subset() as the implementation runs it ([subset_impl], what the [seq] relation
   compares with): on an object with cells it is [subset]; on the object a read that
   matched nothing leaves behind (array of shape (0, 0, 0) beside the samples found) the
   tree as it is raises IndexError once a requested name is known; with the repair
   (fixes/C08_subset_after_empty_read.patch; model flag [true]) it never raises and
   returns the requested names. *)

Theorem C08_subset_impl_cells :
  forall fixed g S V, no_cells g = false -> subset_impl fixed g S V = subset g S V.
Proof. exact subset_impl_cells. Qed.
Print Assumptions C08_subset_impl_cells.

Theorem C08_subset_impl_order :
  forall fixed g S V g', subset_impl fixed g S V = Ok g' ->
  g_samples g' = match S with
                 | None => g_samples g
                 | Some S' => filter (fun s => memZ s (g_samples g)) S' end
  /\ map v_id (g_variants g') = match V with
                                | None => map v_id (g_variants g)
                                | Some V' => filter (fun v => memZ v (map v_id (g_variants g))) V' end.
Proof. exact subset_impl_order. Qed.
Print Assumptions C08_subset_impl_order.

Theorem C08_subset_impl_total :
  forall g S V, nodupb (g_samples g) = true -> nodupb (map v_id (g_variants g)) = true ->
  exists g', subset_impl true g S V = Ok g'.
Proof. exact subset_impl_total. Qed.
Print Assumptions C08_subset_impl_total.

Theorem C08_subset_after_empty_read_refuted :
  vcf_read_q c_one q_noids = Ok g_hollow
  /\ subset_impl false g_hollow (Some [0]) None = Err E_Index
  /\ subset_impl true g_hollow (Some [0]) None = Ok g_hollow
  /\ subset_impl false g_hollow (Some [7]) (Some [1]) = Ok (mkg [] [] [] [0; 0; 0]).
Proof. exact subset_after_empty_read_refuted. Qed.
Print Assumptions C08_subset_after_empty_read_refuted.

(* ------------------------------------------------------------------------------------
   A sample restriction that selects nobody.  The tree as it is raises (cyvcf2:
   AttributeError, pgenlib: RuntimeError) - model flag [false], which is why the theorems
   above assume [selected_samples c q <> []].  With the repair
   (fixes/C08_empty_sample_selection.patch; model flag [true]) the closed forms hold for
   EVERY sample restriction: nobody selected = the selected variants without any sample. *)

Theorem C08_vcf_read_x_spec :
  forall c q, wf_content c -> wf_query q ->
  let m := keep_mask (q_samples q) (g_samples c) in
  let samples' := mask m (g_samples c) in
  let sel := select in_region_vcf q (combine (g_variants c) (g_rows c)) in
  vcf_read_x true c q = Ok (vcf_result m samples' (take_q q sel))
  /\ vcf_iter_x true c q = Ok (samples', map (fun r : vrec => (fst r, mask m (snd r))) sel).
Proof. exact vcf_read_x_spec. Qed.
Print Assumptions C08_vcf_read_x_spec.

Theorem C08_pgen_read_x_spec :
  forall pload c q chunk, wf_content c -> wf_query q -> chunk_dom chunk ->
  let m := keep_mask (q_samples q) (g_samples c) in
  let samples' := mask m (g_samples c) in
  let sel := select in_region_pgen q (combine (g_variants c) (g_rows c)) in
  pgen_read_x pload true chunk c q = Ok (pgen_result pload m samples' (take_q q sel))
  /\ pgen_iter_x pload true c q
     = Ok (samples', map (fun r : vrec => (fst r, map (load_call pload) (to_stored (mask m (snd r))))) sel).
Proof. exact pgen_read_x_spec. Qed.
Print Assumptions C08_pgen_read_x_spec.

Theorem C08_empty_sample_selection_refuted :
  vcf_read_x false c_one q_nobody = Err E_Attribute
  /\ pgen_read_x pload_std false None c_one q_nobody = Err E_Runtime
  /\ vcf_read_x true c_one q_nobody = Ok (mkg [] [mkvar 1 2 29 [3; 4] 1] [] [0; 0; 0])
  /\ pgen_read_x pload_std true None c_one q_nobody = Ok (mkg [] [mkvar 1 2 29 [3; 4] 1] [[]] [0; 1; 3]).
Proof. exact empty_sample_selection_refuted. Qed.
Print Assumptions C08_empty_sample_selection_refuted.

(* soundness of the checkers of the [seq] relation (read, read+subset, sequence of subsets) *)
Theorem C08_holds_step_sound :
  forall strict s b,
  holds_step strict s = true -> ss_before s = Ok b -> hollow b = false \/ strict = true ->
  subset_dom b = true ->
  exists g', ss_obs s = Ok g'
    /\ g_samples g' = match ss_S s with
                      | None => g_samples b
                      | Some S' => filter (fun x => memZ x (g_samples b)) S' end
    /\ map v_id (g_variants g') = match ss_V s with
                      | None => map v_id (g_variants b)
                      | Some V' => filter (fun v => memZ v (map v_id (g_variants b))) V' end.
Proof. exact holds_step_sound. Qed.
Print Assumptions C08_holds_step_sound.

Theorem C08_holds_seq_sound :
  forall k full,
  holds_seq k = true -> qc_full k = Ok full ->
  let q := qc_q k in
  let m := keep_mask (q_samples q) (g_samples full) in
  mask m (g_samples full) <> [] ->
  Forall (fun s => holds_step (qc_strict_nocells k) s = true) (qc_steps k)
  /\ exists rd, qc_read k = Ok rd
     /\ g_samples rd = mask m (g_samples full)
     /\ g_variants rd = map fst (expected q full rd)
     /\ (expected q full rd <> [] -> g_rows rd = map (fun x : vrec => mask m (snd x)) (expected q full rd))
     /\ (expected q full rd = [] -> g_rows rd = [] /\ qc_warned k = true)
     /\ (hollow full = false \/ qc_strict_nocells k = true ->
         exists cp, qc_comp k = Some (Ok cp) /\ g_samples cp = g_samples rd
                    /\ g_variants cp = g_variants rd /\ g_rows cp = g_rows rd).
Proof. exact holds_seq_sound. Qed.
Print Assumptions C08_holds_seq_sound.

(* ------------------------------------------------------------------------------------
   Region strings.  The readers are handed the region as TEXT ('c', 'c:a-b', 'c:a-'); the
   theorems above speak of the parsed region.  C08_Region models the three parsers at
   character level - htslib behind the VCF reader ([hts_region]: the whole string is a contig
   name if the file has one, else the contig is the text before the LAST colon), the PGEN
   reader of the tree as it is ([parse_legacy]: re.split at every colon and dash, int(), _check_region)
   and after fixes/C08_region_contig_names.patch ([parse_fixed]) - and a contig name as ONE
   integer ([enc]), so that "the contig of the record is the contig of the region" is the
   comparison of integers the theorems above make. *)

(* the integer stands for the name: distinct names, distinct integers *)
Theorem C08_contig_enc_injective :
  forall s t, bytes s -> bytes t -> enc s = enc t -> s = t.
Proof. exact enc_inj. Qed.
Print Assumptions C08_contig_enc_injective.

(* a loaded object keeps 10 characters of a contig name (numpy "U10"); on the integers: *)
Theorem C08_contig_cut_to_10 :
  forall s, bytes s -> load_chrom (enc s) = enc (firstn 10 s).
Proof. exact load_chrom_enc. Qed.
Print Assumptions C08_contig_cut_to_10.

(* the tree as it is: the PGEN reader's parser inverts the canonical printing of
   (contig, start?, end?) for every contig name WITHOUT ':' and '-' ... *)
Theorem C08_region_parse_legacy_plain :
  forall r, plain (fst (fst r)) -> wf_sregion r ->
  bind (parse_legacy (print_region r)) region_of_preg = Ok r.
Proof. exact print_parse_legacy. Qed.
Print Assumptions C08_region_parse_legacy_plain.

(* ... and not beyond: ValueError, TypeError, or silently the region of ANOTHER contig *)
Theorem C08_legacy_region_refuted :
  pgen_region false [enc s_hla] (print_region (s_hla, None, None)) = Err E_Value
  /\ pgen_region false [enc s_hla] (print_region (s_hla, Some 5, Some 9)) = Err E_Value
  /\ pgen_region false [enc s_un; enc s_un1] (print_region (s_un1, None, None)) = Ok (enc s_un, Some 1, None)
  /\ pgen_region false [enc s_un; enc s_un1] (print_region (s_un1, Some 3, Some 3)) = Err E_Type
  /\ pgen_region false [enc s_67] (print_region (s_67, None, None)) = Ok (enc [54], Some 7, None)
  /\ pgen_region true [enc s_hla] (print_region (s_hla, Some 5, Some 9)) = Ok (enc s_hla, Some 5, Some 9)
  /\ pgen_region true [enc s_un; enc s_un1] (print_region (s_un1, None, None)) = Ok (enc s_un1, None, None)
  /\ pgen_region true [enc s_67] (print_region (s_67, None, None)) = Ok (enc s_67, None, None)
  /\ hts_region [enc s_un; enc s_un1] (print_region (s_un1, Some 3, Some 3)) = (enc s_un1, Some 3, Some 3)
  /\ hts_region [enc s_67] (print_region (s_67, None, None)) = (enc s_67, None, None).
Proof. exact legacy_region_refuted. Qed.
Print Assumptions C08_legacy_region_refuted.

(* the repaired PGEN parser: for EVERY contig name the readings of the printed region are the
   region itself and at most one other string-as-a-name ... *)
Theorem C08_region_parse_fixed_print :
  forall c a b, 0 <= a -> match b with Some b' => 0 <= b' | None => True end ->
  parse_fixed (print_region (c, Some a, b))
  = [(print_region (c, Some a, b), []); (c, a :: match b with Some b' => [b'] | None => [] end)].
Proof. exact parse_fixed_print_pos. Qed.
Print Assumptions C08_region_parse_fixed_print.

(* ... so, unless the file holds a contig named like that other reading ([unambiguous]), the
   region the reader derives from the text keeps exactly the records of the file that the
   printed region keeps: for every contig name, the contig present in the file or absent *)
Theorem C08_region_string_pgen :
  forall chroms r v,
  wf_sregion r -> unambiguous chroms r -> In (v_chrom v) chroms -> 0 <= v_chrom v ->
  exists rg, pgen_region true chroms (print_region r) = Ok rg
             /\ in_region_pgen rg v = in_region_pgen (enc_region r) v.
Proof. exact region_string_pgen. Qed.
Print Assumptions C08_region_string_pgen.

(* htslib (1-based bounds) *)
Theorem C08_region_string_vcf :
  forall chroms r v,
  wf_sregion r -> unambiguous chroms r -> hts_pre r -> In (v_chrom v) chroms -> 0 <= v_chrom v ->
  in_region_vcf (hts_region chroms (print_region r)) v = in_region_vcf (enc_region r) v.
Proof. exact region_string_vcf. Qed.
Print Assumptions C08_region_string_vcf.

(* the reads through the text are the reads with the parsed region (to which every theorem
   above applies): VCF, PGEN repaired (every contig name), PGEN as it is (names without ':','-') *)
Theorem C08_vcf_read_by_string :
  forall fixed0 c q r,
  wf_sregion r -> hts_pre r -> unambiguous (chroms_of c) r -> chroms_nonneg c ->
  vcf_read_s fixed0 c q (print_region r) = vcf_read_x fixed0 c (q_set_region q (Some (enc_region r)))
  /\ vcf_iter_s fixed0 c q (print_region r) = vcf_iter_x fixed0 c (q_set_region q (Some (enc_region r))).
Proof. exact vcf_read_by_string. Qed.
Print Assumptions C08_vcf_read_by_string.

Theorem C08_pgen_read_by_string :
  forall pload fixed0 chunk c q r,
  wf_sregion r -> unambiguous (chroms_of c) r -> chroms_nonneg c ->
  pgen_read_s pload true fixed0 chunk c q (print_region r)
  = pgen_read_x pload fixed0 chunk c (q_set_region q (Some (enc_region r)))
  /\ pgen_iter_s pload true fixed0 c q (print_region r)
     = pgen_iter_x pload fixed0 c (q_set_region q (Some (enc_region r))).
Proof. exact pgen_read_by_string. Qed.
Print Assumptions C08_pgen_read_by_string.

Theorem C08_pgen_read_by_string_legacy :
  forall pload fixed0 chunk c q r,
  plain (fst (fst r)) -> wf_sregion r ->
  pgen_read_s pload false fixed0 chunk c q (print_region r)
  = pgen_read_x pload fixed0 chunk c (q_set_region q (Some (enc_region r)))
  /\ pgen_iter_s pload false fixed0 c q (print_region r)
     = pgen_iter_x pload fixed0 c (q_set_region q (Some (enc_region r))).
Proof. exact pgen_read_by_string_legacy. Qed.
Print Assumptions C08_pgen_read_by_string_legacy.

Theorem C08_region_hypotheses_satisfiable :
  wf_sregion (s_un1, Some 3, Some 3) /\ hts_pre (s_un1, Some 3, Some 3)
  /\ unambiguous [enc s_un; enc s_un1] (s_un1, Some 3, Some 3)
  /\ unambiguous [enc s_67] (s_67, None, None) /\ bytes s_un1 /\ ~ plain s_un1.
Proof. exact region_hypotheses_satisfiable. Qed.
Print Assumptions C08_region_hypotheses_satisfiable.

(* soundness of the [read] checker as it is evaluated now *)
Theorem C08_holds_read_sound :
  forall k, holds_read k = true -> read_dom k = true ->
  holds_vcf k = true /\ holds_cross_full k = true
  /\ (pgen_region_misread k = false ->
      holds_fmt (rc_strict_samples k) (load_q (rc_q k)) (rc_pgen k) = true
      /\ holds_cross_restricted k = true).
Proof. exact holds_read_sound. Qed.
Print Assumptions C08_holds_read_sound.

Theorem C08_holds_vcf_sound :
  forall k, holds_vcf k = true ->
  (rc_vcf_unindexed k = true /\ (exists e e', fo_read (rc_vcf k) = Err e /\ fo_iter (rc_vcf k) = Err e'))
  \/ holds_fmt (rc_strict_samples k) (load_q (vcf_q k)) (rc_vcf k) = true.
Proof. exact holds_vcf_sound. Qed.
Print Assumptions C08_holds_vcf_sound.

(* what the switch STRICT_REGION_CONTIG_NAMES excuses while it is off: only a text that the
   legacy parser does not read as the region that was meant - never a contig name without
   ':' and '-' - and nothing once it is on *)
Theorem C08_misread_spec :
  forall k, pgen_region_misread k = true ->
  rc_fixed_region k = false
  /\ exists s r, rc_regstr k = Some s /\ q_region (rc_q k) = Some r
                 /\ pgen_region false (chroms_of (rc_c k)) s <> Ok r.
Proof. exact misread_spec. Qed.
Print Assumptions C08_misread_spec.

Theorem C08_misread_plain :
  forall k r,
  rc_regstr k = Some (print_region r) -> q_region (rc_q k) = Some (enc_region r) ->
  plain (fst (fst r)) -> wf_sregion r -> pgen_region_misread k = false.
Proof. exact misread_plain. Qed.
Print Assumptions C08_misread_plain.

Theorem C08_misread_fixed :
  forall k, rc_fixed_region k = true -> pgen_region_misread k = false.
Proof. exact misread_fixed. Qed.
Print Assumptions C08_misread_fixed.

(* ------------------------------------------------------------------------------------
   "... so every command gives the same result for either format".  What follows from the
   reader-level theorem: ANY command that is a function of what was loaded - samples, variants,
   allele indices, phase of heterozygous calls ([loaded_equiv]) - returns the same result for
   the VCF and the PGEN file of one content.  The [cmdfmt] relation tests exactly the
   hypothesis [looks_at_content_only] on haptools transform / ld / simphenotype / clump. *)
Theorem C08_command_same_result :
  forall (R : Type) (cmd : geno -> R) pload c q chunk,
  looks_at_content_only cmd ->
  pload_contract pload -> wf_content c -> wf_query q -> chunk_dom chunk ->
  geno_domb false c = true -> g_variants c <> [] -> selected_samples c q <> [] ->
  region_comparable c q ->
  exists gv gp, vcf_read_q c q = Ok gv /\ pgen_read_q pload false chunk c q = Ok gp
                /\ cmd gv = cmd gp.
Proof. exact @command_same_result. Qed.
Print Assumptions C08_command_same_result.

(* the hypothesis is satisfiable: names and allele dosages *)
Theorem C08_looks_at_content_only_example : looks_at_content_only summary.
Proof. exact summary_looks_at_content_only. Qed.
Print Assumptions C08_looks_at_content_only_example.

Theorem C08_holds_cmdfmt_sound :
  forall k, holds_cmdfmt k = true -> cmd_region_misread k = false -> cmd_empty_excused k = false ->
  co_exit (cc_out_v k) = co_exit (cc_out_p k) /\ co_exc (cc_out_v k) = co_exc (cc_out_p k)
  /\ co_out (cc_out_v k) = co_out (cc_out_p k).
Proof. exact holds_cmdfmt_sound. Qed.
Print Assumptions C08_holds_cmdfmt_sound.

(* what the switch STRICT_CMD_EMPTY_LOAD excuses while it is off: only runs in which the VCF read left an
   array without cells - shape (0, 0, 0) - beside the same samples, and the PGEN read another shape ... *)
Theorem C08_empty_excused_spec :
  forall k, cmd_empty_excused k = true ->
  cc_strict_empty k = false
  /\ exists a b, cc_load_v k = Some (Ok a) /\ cc_load_p k = Some (Ok b)
                 /\ no_cells a = true /\ g_samples a = g_samples b /\ g_shape a <> g_shape b.
Proof. exact empty_excused_spec. Qed.
Print Assumptions C08_empty_excused_spec.

(* ... which the two readers only do when nothing was matched: with a sample selected, the same
   records selected and at least one of them, both arrays have shape (n, p, 3) *)
Theorem C08_read_shapes_agree :
  forall pload c q chunk,
  wf_content c -> wf_query q -> chunk_dom chunk -> selected_samples c q <> [] ->
  select in_region_vcf q (combine (g_variants c) (g_rows c)) = select in_region_pgen q (combine (g_variants c) (g_rows c)) ->
  take_q q (select in_region_vcf q (combine (g_variants c) (g_rows c))) <> [] ->
  exists gv gp, vcf_read_q c q = Ok gv /\ pgen_read_q pload false chunk c q = Ok gp /\ g_shape gv = g_shape gp.
Proof. exact read_shapes_agree. Qed.
Print Assumptions C08_read_shapes_agree.

(* ---- callers that hold on to what a reader handed out ------------------------------------------------
   An iterator is a state machine; a record may point into the state (a buffer that is filled again for the
   next record).  Three callers: (i) converts every record before asking for the next, (ii) materialises
   all records (list(it)) and converts afterwards, (iii) converts a record after the iterator moved past
   it.  When a record owns its data - converting it does not look at the iterator - the three see the
   same, for every iterator, state and number of steps ... *)
Theorem C08_iter_styles_coincide :
  forall (St Rec Val : Type) (next : St -> option (Rec * St)) (view : St -> Rec -> Val),
  owns_data view ->
  forall fuel s,
  materialise_convert next view fuel s = consume_convert next view fuel s
  /\ interleave_convert next view fuel s = consume_convert next view fuel s.
Proof. exact styles_coincide. Qed.
Print Assumptions C08_iter_styles_coincide.

(* ... in particular for the model's iterators, which are lists of values (vcf_iter_q / pgen_iter_q return
   a list of records): every caller sees the list.  This is why [agree_fmt] compares ONE model value with
   the observation of every style. *)
Theorem C08_iter_styles_list :
  forall (A : Type) (l : list A) fuel, (length l <= fuel)%nat ->
  consume_convert list_next value_view fuel l = l
  /\ materialise_convert list_next value_view fuel l = l
  /\ interleave_convert list_next value_view fuel l = l.
Proof. exact @list_styles. Qed.
Print Assumptions C08_iter_styles_list.

(* ... and NOT for an iterator that fills one cell and hands out pointers to it (a per-variant buffer
   allocated once before the loop): caller (i) sees the file, caller (ii) the last genotypes under every
   name, caller (iii) the genotypes of the following variant - the names stay right *)
Theorem C08_iter_shared_cell_refuted :
  let file := [(1, 10); (2, 20); (3, 30)] in
  consume_convert cell_next cell_view 4 (file, 0) = [(1, 10); (2, 20); (3, 30)]
  /\ materialise_convert cell_next cell_view 4 (file, 0) = [(1, 30); (2, 30); (3, 30)]
  /\ interleave_convert cell_next cell_view 4 (file, 0) = [(1, 20); (2, 30); (3, 30)].
Proof. exact shared_cell_refuted. Qed.
Print Assumptions C08_iter_shared_cell_refuted.

(* the checker: [holds_fmt] judges an iterator observation by what it shows; an observation of another
   style that shows the same (res_same: equal results, or an exception both times) is judged alike *)
Theorem C08_holds_fmt_with_iter :
  forall strict q fo it,
  res_same iter_eqb (fo_iter fo) it = true ->
  holds_fmt strict q (with_iter fo it) = holds_fmt strict q fo.
Proof. exact holds_fmt_with_iter. Qed.
Print Assumptions C08_holds_fmt_with_iter.

(* hence [held_same] beside [holds_fmt] is "the streaming iterator yields the records of the bulk read"
   (C08_holds_fmt_sound) for EVERY consumption style observed *)
Theorem C08_held_same_sound :
  forall strict q fo,
  holds_fmt strict q fo = true -> held_same fo = true ->
  forall it, In it (fo_held fo) -> holds_fmt strict q (with_iter fo it) = true.
Proof. exact held_same_sound. Qed.
Print Assumptions C08_held_same_sound.

(* where a refusal is accepted (C08_holds_vcf_sound), every style was refused *)
Theorem C08_held_same_refused :
  forall fo e, held_same fo = true -> fo_iter fo = Err e ->
  forall it, In it (fo_held fo) -> exists e', it = Err e'.
Proof. exact held_same_refused. Qed.
Print Assumptions C08_held_same_refused.

(* two read() calls on one object: each left what the same call leaves on a fresh object, and the arrays
   the first call left are, after the second, what they were *)
Theorem C08_holds_again_sound :
  forall fo rr full rd,
  holds_again fo = true -> fo_again fo = Some rr -> fo_full fo = Ok full -> fo_read fo = Ok rd ->
  let a := if rr_full_first rr then full else rd in
  let b := if rr_full_first rr then rd else full in
  rr_first rr = Ok a /\ rr_first_kept rr = Ok a /\ rr_second rr = Ok b.
Proof. exact holds_again_sound. Qed.
Print Assumptions C08_holds_again_sound.

(* [holds_read] as it is now demands both of either format (of the PGEN reader unless the region text is
   one the switch STRICT_REGION_CONTIG_NAMES excuses) *)
Theorem C08_holds_read_kept_sound :
  forall k, holds_read k = true -> read_dom k = true ->
  holds_vcf k = true /\ holds_kept (rc_vcf k) = true /\ holds_cross_full k = true
  /\ (pgen_region_misread k = false ->
      holds_fmt (rc_strict_samples k) (load_q (rc_q k)) (rc_pgen k) = true
      /\ holds_kept (rc_pgen k) = true /\ holds_cross_restricted k = true).
Proof. exact holds_read_kept_sound. Qed.
Print Assumptions C08_holds_read_kept_sound.

Theorem C08_holds_kept_spec :
  forall fo, holds_kept fo = true <-> held_same fo = true /\ holds_again fo = true.
Proof. exact holds_kept_spec. Qed.
Print Assumptions C08_holds_kept_spec.
