(* C08 - property theorems only (statements over the model in C08_Model).
   Domain: [wf_content] = rows match variants and samples, variant IDs unique;
   [wf_query] = the ID restriction is a set (duplicate-free). *)
From HV Require Import Prelude C07_Model C07_Check C07_Proofs C08_Model C08_Check C08_Proofs.

(* core: VCF.  A restricted read returns exactly the full read filtered in file
   order (rows by region overlap and ID membership, columns by sample membership),
   for every content, region, sample set, ID set and max_variants; with an empty
   match the result is Ok (an empty object), not an error.  The early exit of the ID
   filter and the preallocation to len(variants) never lose a record. *)
Theorem C08_read_restricted_eq_subset_vcf :
  forall c q,
  wf_content c -> wf_query q -> g_samples c <> [] -> g_variants c <> [] ->
  selected_samples c q <> [] \/ select in_region_vcf q (combine (g_variants c) (g_rows c)) = [] ->
  exists full, vcf_read_q c q_all = Ok full /\ vcf_read_q c q = Ok (restrict_vcf q full).
Proof. exact read_restricted_eq_subset_vcf. Qed.
Print Assumptions C08_read_restricted_eq_subset_vcf.

(* core: PGEN, for every pgenlib behaviour and every chunk size >= 1 or None *)
Theorem C08_read_restricted_eq_subset_pgen :
  forall pload c q chunk,
  wf_content c -> wf_query q -> chunk_dom chunk -> g_samples c <> [] ->
  selected_samples c q <> [] ->
  exists full, pgen_read_q pload false chunk c q_all = Ok full
            /\ pgen_read_q pload false chunk c q = Ok (restrict_pgen q full).
Proof. exact read_restricted_eq_subset_pgen. Qed.
Print Assumptions C08_read_restricted_eq_subset_pgen.

(* the closed forms behind them: which samples and records a query selects *)
Theorem C08_vcf_read_spec :
  forall c q, wf_content c -> wf_query q ->
  let m := keep_mask (q_samples q) (g_samples c) in
  let samples' := mask m (g_samples c) in
  let sel := select in_region_vcf q (combine (g_variants c) (g_rows c)) in
  samples' <> [] \/ sel = [] ->
  vcf_read_q c q = Ok (vcf_result m samples' (take_q q sel))
  /\ vcf_iter_q c q = Ok (samples', map (fun r : vrec => (fst r, mask m (snd r))) sel).
Proof. exact vcf_read_spec. Qed.
Print Assumptions C08_vcf_read_spec.

Theorem C08_pgen_read_spec :
  forall pload c q chunk, wf_content c -> wf_query q -> chunk_dom chunk ->
  let m := keep_mask (q_samples q) (g_samples c) in
  let samples' := mask m (g_samples c) in
  let sel := select in_region_pgen q (combine (g_variants c) (g_rows c)) in
  samples' <> [] ->
  pgen_read_q pload false chunk c q = Ok (pgen_result pload m samples' (take_q q sel))
  /\ pgen_iter_q pload false c q
     = Ok (samples', map (fun r : vrec => (fst r, map (load_call pload) (to_stored (mask m (snd r))))) sel).
Proof. exact pgen_read_spec. Qed.
Print Assumptions C08_pgen_read_spec.

Theorem C08_legacy_pgen_empty_refuted :
  pgen_read_q pload_std true None c_one q_noids = Err E_Value
  /\ pgen_read_q pload_std false None c_one q_noids = Ok (mkg [0] [] [] [1; 0; 3])
  /\ vcf_read_q c_one q_noids = Ok (mkg [0] [] [] [0; 0; 0]).
Proof. exact legacy_pgen_empty_refuted. Qed.
Print Assumptions C08_legacy_pgen_empty_refuted.

Theorem C08_legacy_pgen_iter_empty_refuted :
  pgen_iter_q pload_std true c_empty q_all = Err E_Runtime
  /\ pgen_iter_q pload_std false c_empty q_all = Ok ([0; 1], [])
  /\ vcf_iter_q c_empty q_all = Ok ([0; 1], [])
  /\ pgen_read_q pload_std true None c_empty q_all = Ok (mkg [0; 1] [] [] [2; 0; 3]).
Proof. exact legacy_pgen_iter_empty_refuted. Qed.
Print Assumptions C08_legacy_pgen_iter_empty_refuted.

(* core: subset returns the requested samples / variants in the requested order,
   unknown names dropped; it is total on objects with unique names *)
Theorem C08_subset_order :
  forall g S V g', subset g S V = Ok g' ->
  g_samples g' = match S with
                 | None => g_samples g
                 | Some S' => filter (fun s => memZ s (g_samples g)) S' end
  /\ map v_id (g_variants g') = match V with
                                | None => map v_id (g_variants g)
                                | Some V' => filter (fun v => memZ v (map v_id (g_variants g))) V' end.
Proof. exact subset_order. Qed.
Print Assumptions C08_subset_order.

(* ... and every variant record and every genotype cell of the result is the one
   its variant ID and sample name denote in the original object *)
Theorem C08_subset_cells :
  forall g S' V' g',
  subset g (Some S') (Some V') = Ok g' -> length (g_rows g) = length (g_variants g) ->
  forall i j, (i < length (g_variants g'))%nat -> (j < length (g_samples g'))%nat ->
  exists pi pj,
    index_of (v_id (nth i (g_variants g') dummy_variant)) (map v_id (g_variants g)) = Some pi
    /\ index_of (nth j (g_samples g') 0) (g_samples g) = Some pj
    /\ nth i (g_variants g') dummy_variant = nth pi (g_variants g) dummy_variant
    /\ nth j (nth i (g_rows g') []) dummy_call = nth pj (nth pi (g_rows g) []) dummy_call.
Proof. exact subset_cells. Qed.
Print Assumptions C08_subset_cells.

Theorem C08_subset_total :
  forall g S V, nodupb (g_samples g) = true -> nodupb (map v_id (g_variants g)) = true ->
  exists g', subset g S V = Ok g'.
Proof. exact subset_total. Qed.
Print Assumptions C08_subset_total.

(* extended: the streaming iterator yields the records of the bulk read *)
Theorem C08_iter_eq_read_vcf :
  forall c q, wf_content c -> wf_query q ->
  selected_samples c q <> [] \/ select in_region_vcf q (combine (g_variants c) (g_rows c)) = [] ->
  exists samples' recs g,
    vcf_iter_q c q = Ok (samples', recs) /\ vcf_read_q c q = Ok g
    /\ g_samples g = samples' /\ g_variants g = map fst (take_q q recs)
    /\ (g_rows g = map snd (take_q q recs) \/ (g_rows g = [] /\ (samples' = [] \/ take_q q recs = []))).
Proof. exact iter_eq_read_vcf. Qed.
Print Assumptions C08_iter_eq_read_vcf.

Theorem C08_iter_eq_read_pgen :
  forall pload c q chunk,
  wf_content c -> wf_query q -> chunk_dom chunk -> selected_samples c q <> [] ->
  exists samples' recs g,
    pgen_iter_q pload false c q = Ok (samples', recs) /\ pgen_read_q pload false chunk c q = Ok g
    /\ g_samples g = samples' /\ g_variants g = map fst (take_q q recs)
    /\ g_rows g = map snd (take_q q recs).
Proof. exact iter_eq_read_pgen. Qed.
Print Assumptions C08_iter_eq_read_pgen.

(* extended: max_variants = m returns the first m matching variants *)
Theorem C08_max_variants_prefix_vcf :
  forall c q, wf_content c -> wf_query q -> selected_samples c q <> [] -> q_ids q = None ->
  exists g g0, vcf_read_q c q = Ok g /\ vcf_read_q c (q_nomax q) = Ok g0
    /\ g_samples g = g_samples g0
    /\ g_variants g = take (q_max q) (g_variants g0)
    /\ (g_rows g = take (q_max q) (g_rows g0) \/ g_rows g = []).
Proof. exact max_variants_prefix_vcf. Qed.
Print Assumptions C08_max_variants_prefix_vcf.

Theorem C08_max_variants_prefix_pgen :
  forall pload c q chunk,
  wf_content c -> wf_query q -> chunk_dom chunk -> selected_samples c q <> [] ->
  q_ids q = None ->
  exists g g0, pgen_read_q pload false chunk c q = Ok g
    /\ pgen_read_q pload false chunk c (q_nomax q) = Ok g0
    /\ g_samples g = g_samples g0
    /\ g_variants g = take (q_max q) (g_variants g0)
    /\ g_rows g = take (q_max q) (g_rows g0).
Proof. exact max_variants_prefix_pgen. Qed.
Print Assumptions C08_max_variants_prefix_pgen.

(* extended: VCF and PGEN files with the same content load alike: same samples,
   same variants, same allele indices and missing calls, same phase of every
   heterozygous call - for every pgenlib meeting the C07 contract, every query
   whose region either has no start or meets only one-base REF alleles *)
Theorem C08_vcf_pgen_same_content :
  forall pload c q chunk,
  pload_contract pload -> wf_content c -> wf_query q -> chunk_dom chunk ->
  geno_domb false c = true -> g_variants c <> [] -> selected_samples c q <> [] ->
  region_comparable c q ->
  exists gv gp, vcf_read_q c q = Ok gv /\ pgen_read_q pload false chunk c q = Ok gp
    /\ g_samples gv = g_samples gp /\ g_variants gv = g_variants gp
    /\ (Forall2 (Forall2 (call_equiv 3)) (g_rows gv) (g_rows gp)
        \/ (g_rows gv = [] /\ g_variants gv = [])).
Proof. exact vcf_pgen_same_content. Qed.
Print Assumptions C08_vcf_pgen_same_content.

(* the two scans are the same filter as the specification's *)
Theorem C08_pvar_scan_select :
  forall reg V recs, pvar_scan reg V recs = filter (sel_pred in_region_pgen reg V) recs.
Proof. exact pvar_scan_select. Qed.
Print Assumptions C08_pvar_scan_select.

Theorem C08_vcf_records_select :
  forall c q,
  NoDup (map v_id (g_variants c)) -> length (g_rows c) = length (g_variants c) ->
  (forall V, q_ids q = Some V -> NoDup V) ->
  vcf_records c q = select in_region_vcf q (combine (g_variants c) (g_rows c)).
Proof. exact vcf_records_select. Qed.
Print Assumptions C08_vcf_records_select.

(* soundness of the boolean checkers evaluated on the implementation's output *)
Theorem C08_holds_fmt_sound :
  forall strict q fo full,
  holds_fmt strict q fo = true -> fo_full fo = Ok full ->
  let m := keep_mask (q_samples q) (g_samples full) in
  mask m (g_samples full) <> [] ->
  exists rd isamples irecs,
    fo_read fo = Ok rd /\ fo_iter fo = Ok (isamples, irecs)
    /\ g_samples rd = mask m (g_samples full)
    /\ g_variants rd = map fst (expected q full rd)
    /\ (expected q full rd = [] -> g_rows rd = [] /\ fo_warned fo = true)
    /\ (expected q full rd <> [] -> g_rows rd = map (fun x : vrec => mask m (snd x)) (expected q full rd))
    /\ isamples = mask m (g_samples full)
    /\ map fst (take_q q irecs) = g_variants rd
    /\ (take_q q irecs = [] \/ map snd (take_q q irecs) = g_rows rd).
Proof. exact holds_fmt_sound. Qed.
Print Assumptions C08_holds_fmt_sound.

Theorem C08_holds_subset_sound :
  forall k, holds_subset k = true -> subset_dom (sc_g k) = true ->
  exists g', sc_obs k = Ok g'
    /\ g_samples g' = match sc_S k with
                      | None => g_samples (sc_g k)
                      | Some S' => filter (fun s => memZ s (g_samples (sc_g k))) S' end
    /\ map v_id (g_variants g') = match sc_V k with
                      | None => map v_id (g_variants (sc_g k))
                      | Some V' => filter (fun v => memZ v (map v_id (g_variants (sc_g k)))) V' end.
Proof. exact holds_subset_sound. Qed.
Print Assumptions C08_holds_subset_sound.

(* the hypotheses are satisfiable *)
Theorem C08_hypotheses_satisfiable :
  wf_content c_one /\ wf_query q_noids /\ g_samples c_one <> [] /\ g_variants c_one <> []
  /\ selected_samples c_one q_noids <> [].
Proof. exact read_hypotheses_satisfiable. Qed.
Print Assumptions C08_hypotheses_satisfiable.
