(* C08 - property theorems only (statements over the model in C08_Model).
   Domain: [wf_content] = rows match variants and samples, variant IDs unique;
   [wf_query] = the ID restriction is a set (duplicate-free). *)
From HV Require Import Prelude C07_Model C07_Check C07_Proofs C08_Model C08_Check C08_Proofs C08_Proofs2.

(* core: VCF.  A restricted read returns exactly the full read filtered in file
   order (rows by region overlap and ID membership, columns by sample membership),
   for every content, region, sample set, ID set and max_variants; with an empty
   match the result is Ok (an empty object), not an error.  The early exit of the ID
   filter and the preallocation to len(variants) never lose a record. *)
Theorem C08_read_restricted_eq_subset_vcf :
  forall c q,
  wf_content c -> wf_query q -> g_samples c <> [] -> g_variants c <> [] ->
  selected_samples c q <> [] \/ select in_region_vcf q (combine (g_variants c) (g_rows c)) = [] ->
  exists full, vcf_read_q c q_all = Ok full /\ vcf_read_q c q = Ok (restrict_vcf q full).
Proof. exact read_restricted_eq_subset_vcf. Qed.
Print Assumptions C08_read_restricted_eq_subset_vcf.

(* core: PGEN, for every pgenlib behaviour and every chunk size >= 1 or None *)
Theorem C08_read_restricted_eq_subset_pgen :
  forall pload c q chunk,
  wf_content c -> wf_query q -> chunk_dom chunk -> g_samples c <> [] ->
  selected_samples c q <> [] ->
  exists full, pgen_read_q pload false chunk c q_all = Ok full
            /\ pgen_read_q pload false chunk c q = Ok (restrict_pgen q full).
Proof. exact read_restricted_eq_subset_pgen. Qed.
Print Assumptions C08_read_restricted_eq_subset_pgen.

(* the closed forms behind them: which samples and records a query selects *)
Theorem C08_vcf_read_spec :
  forall c q, wf_content c -> wf_query q ->
  let m := keep_mask (q_samples q) (g_samples c) in
  let samples' := mask m (g_samples c) in
  let sel := select in_region_vcf q (combine (g_variants c) (g_rows c)) in
  samples' <> [] \/ sel = [] ->
  vcf_read_q c q = Ok (vcf_result m samples' (take_q q sel))
  /\ vcf_iter_q c q = Ok (samples', map (fun r : vrec => (fst r, mask m (snd r))) sel).
Proof. exact vcf_read_spec. Qed.
Print Assumptions C08_vcf_read_spec.

Theorem C08_pgen_read_spec :
  forall pload c q chunk, wf_content c -> wf_query q -> chunk_dom chunk ->
  let m := keep_mask (q_samples q) (g_samples c) in
  let samples' := mask m (g_samples c) in
  let sel := select in_region_pgen q (combine (g_variants c) (g_rows c)) in
  samples' <> [] ->
  pgen_read_q pload false chunk c q = Ok (pgen_result pload m samples' (take_q q sel))
  /\ pgen_iter_q pload false c q
     = Ok (samples', map (fun r : vrec => (fst r, map (load_call pload) (to_stored (mask m (snd r))))) sel).
Proof. exact pgen_read_spec. Qed.
Print Assumptions C08_pgen_read_spec.

Theorem C08_legacy_pgen_empty_refuted :
  pgen_read_q pload_std true None c_one q_noids = Err E_Value
  /\ pgen_read_q pload_std false None c_one q_noids = Ok (mkg [0] [] [] [1; 0; 3])
  /\ vcf_read_q c_one q_noids = Ok (mkg [0] [] [] [0; 0; 0]).
Proof. exact legacy_pgen_empty_refuted. Qed.
Print Assumptions C08_legacy_pgen_empty_refuted.

Theorem C08_legacy_pgen_iter_empty_refuted :
  pgen_iter_q pload_std true c_empty q_all = Err E_Runtime
  /\ pgen_iter_q pload_std false c_empty q_all = Ok ([0; 1], [])
  /\ vcf_iter_q c_empty q_all = Ok ([0; 1], [])
  /\ pgen_read_q pload_std true None c_empty q_all = Ok (mkg [0; 1] [] [] [2; 0; 3]).
Proof. exact legacy_pgen_iter_empty_refuted. Qed.
Print Assumptions C08_legacy_pgen_iter_empty_refuted.

(* core: subset returns the requested samples / variants in the requested order,
   unknown names dropped; it is total on objects with unique names *)
Theorem C08_subset_order :
  forall g S V g', subset g S V = Ok g' ->
  g_samples g' = match S with
                 | None => g_samples g
                 | Some S' => filter (fun s => memZ s (g_samples g)) S' end
  /\ map v_id (g_variants g') = match V with
                                | None => map v_id (g_variants g)
                                | Some V' => filter (fun v => memZ v (map v_id (g_variants g))) V' end.
Proof. exact subset_order. Qed.
Print Assumptions C08_subset_order.

(* ... and every variant record and every genotype cell of the result is the one
   its variant ID and sample name denote in the original object *)
Theorem C08_subset_cells :
  forall g S' V' g',
  subset g (Some S') (Some V') = Ok g' -> length (g_rows g) = length (g_variants g) ->
  forall i j, (i < length (g_variants g'))%nat -> (j < length (g_samples g'))%nat ->
  exists pi pj,
    index_of (v_id (nth i (g_variants g') dummy_variant)) (map v_id (g_variants g)) = Some pi
    /\ index_of (nth j (g_samples g') 0) (g_samples g) = Some pj
    /\ nth i (g_variants g') dummy_variant = nth pi (g_variants g) dummy_variant
    /\ nth j (nth i (g_rows g') []) dummy_call = nth pj (nth pi (g_rows g) []) dummy_call.
Proof. exact subset_cells. Qed.
Print Assumptions C08_subset_cells.

Theorem C08_subset_total :
  forall g S V, nodupb (g_samples g) = true -> nodupb (map v_id (g_variants g)) = true ->
  exists g', subset g S V = Ok g'.
Proof. exact subset_total. Qed.
Print Assumptions C08_subset_total.

(* extended: the streaming iterator yields the records of the bulk read *)
Theorem C08_iter_eq_read_vcf :
  forall c q, wf_content c -> wf_query q ->
  selected_samples c q <> [] \/ select in_region_vcf q (combine (g_variants c) (g_rows c)) = [] ->
  exists samples' recs g,
    vcf_iter_q c q = Ok (samples', recs) /\ vcf_read_q c q = Ok g
    /\ g_samples g = samples' /\ g_variants g = map fst (take_q q recs)
    /\ (g_rows g = map snd (take_q q recs) \/ (g_rows g = [] /\ (samples' = [] \/ take_q q recs = []))).
Proof. exact iter_eq_read_vcf. Qed.
Print Assumptions C08_iter_eq_read_vcf.

Theorem C08_iter_eq_read_pgen :
  forall pload c q chunk,
  wf_content c -> wf_query q -> chunk_dom chunk -> selected_samples c q <> [] ->
  exists samples' recs g,
    pgen_iter_q pload false c q = Ok (samples', recs) /\ pgen_read_q pload false chunk c q = Ok g
    /\ g_samples g = samples' /\ g_variants g = map fst (take_q q recs)
    /\ g_rows g = map snd (take_q q recs).
Proof. exact iter_eq_read_pgen. Qed.
Print Assumptions C08_iter_eq_read_pgen.

(* extended: max_variants = m returns the first m matching variants *)
Theorem C08_max_variants_prefix_vcf :
  forall c q, wf_content c -> wf_query q -> selected_samples c q <> [] -> q_ids q = None ->
  exists g g0, vcf_read_q c q = Ok g /\ vcf_read_q c (q_nomax q) = Ok g0
    /\ g_samples g = g_samples g0
    /\ g_variants g = take (q_max q) (g_variants g0)
    /\ (g_rows g = take (q_max q) (g_rows g0) \/ g_rows g = []).
Proof. exact max_variants_prefix_vcf. Qed.
Print Assumptions C08_max_variants_prefix_vcf.

Theorem C08_max_variants_prefix_pgen :
  forall pload c q chunk,
  wf_content c -> wf_query q -> chunk_dom chunk -> selected_samples c q <> [] ->
  q_ids q = None ->
  exists g g0, pgen_read_q pload false chunk c q = Ok g
    /\ pgen_read_q pload false chunk c (q_nomax q) = Ok g0
    /\ g_samples g = g_samples g0
    /\ g_variants g = take (q_max q) (g_variants g0)
    /\ g_rows g = take (q_max q) (g_rows g0).
Proof. exact max_variants_prefix_pgen. Qed.
Print Assumptions C08_max_variants_prefix_pgen.

(* extended: VCF and PGEN files with the same content load alike: same samples,
   same variants, same allele indices and missing calls, same phase of every
   heterozygous call - for every pgenlib meeting the C07 contract, every query
   whose region either has no start or meets only one-base REF alleles *)
Theorem C08_vcf_pgen_same_content :
  forall pload c q chunk,
  pload_contract pload -> wf_content c -> wf_query q -> chunk_dom chunk ->
  geno_domb false c = true -> g_variants c <> [] -> selected_samples c q <> [] ->
  region_comparable c q ->
  exists gv gp, vcf_read_q c q = Ok gv /\ pgen_read_q pload false chunk c q = Ok gp
    /\ g_samples gv = g_samples gp /\ g_variants gv = g_variants gp
    /\ (Forall2 (Forall2 (call_equiv 3)) (g_rows gv) (g_rows gp)
        \/ (g_rows gv = [] /\ g_variants gv = [])).
Proof. exact vcf_pgen_same_content. Qed.
Print Assumptions C08_vcf_pgen_same_content.

(* the two scans are the same filter as the specification's *)
Theorem C08_pvar_scan_select :
  forall reg V recs, pvar_scan reg V recs = filter (sel_pred in_region_pgen reg V) recs.
Proof. exact pvar_scan_select. Qed.
Print Assumptions C08_pvar_scan_select.

Theorem C08_vcf_records_select :
  forall c q,
  NoDup (map v_id (g_variants c)) -> length (g_rows c) = length (g_variants c) ->
  (forall V, q_ids q = Some V -> NoDup V) ->
  vcf_records c q = select in_region_vcf q (combine (g_variants c) (g_rows c)).
Proof. exact vcf_records_select. Qed.
Print Assumptions C08_vcf_records_select.

(* soundness of the boolean checkers evaluated on the implementation's output *)
Theorem C08_holds_fmt_sound :
  forall strict q fo full,
  holds_fmt strict q fo = true -> fo_full fo = Ok full ->
  let m := keep_mask (q_samples q) (g_samples full) in
  mask m (g_samples full) <> [] ->
  exists rd isamples irecs,
    fo_read fo = Ok rd /\ fo_iter fo = Ok (isamples, irecs)
    /\ g_samples rd = mask m (g_samples full)
    /\ g_variants rd = map fst (expected q full rd)
    /\ (expected q full rd = [] -> g_rows rd = [] /\ fo_warned fo = true)
    /\ (expected q full rd <> [] -> g_rows rd = map (fun x : vrec => mask m (snd x)) (expected q full rd))
    /\ isamples = mask m (g_samples full)
    /\ map fst (take_q q irecs) = g_variants rd
    /\ (take_q q irecs = [] \/ map snd (take_q q irecs) = g_rows rd).
Proof. exact holds_fmt_sound. Qed.
Print Assumptions C08_holds_fmt_sound.

Theorem C08_holds_subset_sound :
  forall k, holds_subset k = true -> subset_dom (sc_g k) = true ->
  exists g', sc_obs k = Ok g'
    /\ g_samples g' = match sc_S k with
                      | None => g_samples (sc_g k)
                      | Some S' => filter (fun s => memZ s (g_samples (sc_g k))) S' end
    /\ map v_id (g_variants g') = match sc_V k with
                      | None => map v_id (g_variants (sc_g k))
                      | Some V' => filter (fun v => memZ v (map v_id (g_variants (sc_g k)))) V' end.
Proof. exact holds_subset_sound. Qed.
Print Assumptions C08_holds_subset_sound.

(* the hypotheses are satisfiable *)
Theorem C08_hypotheses_satisfiable :
  wf_content c_one /\ wf_query q_noids /\ g_samples c_one <> [] /\ g_variants c_one <> []
  /\ selected_samples c_one q_noids <> [].
Proof. exact read_hypotheses_satisfiable. Qed.
Print Assumptions C08_hypotheses_satisfiable.

(* ------------------------------------------------------------------------------------
   The composite statement: a restricted read IS the model's subset() of the full read,
   by the selected samples in file order and the selected IDs in file order - for any
   file order of the records (sorted or not, a contig in one block or in several).
   [wf_content] + unique sample names. *)

(* subset() by the names a column mask keeps and by the IDs of any records of the object
   returns exactly those columns and those records *)
Theorem C08_subset_select :
  forall g m (sel : list vrec),
  wf_obj g -> (forall x, In x sel -> In x (combine (g_variants g) (g_rows g))) ->
  subset g (Some (mask m (g_samples g))) (Some (map (fun x : vrec => v_id (fst x)) sel))
  = Ok (mkg (mask m (g_samples g)) (map fst sel) (map (fun x : vrec => mask m (snd x)) sel)
            [lenZ (mask m (g_samples g)); lenZ sel; nth 2 (g_shape g) 3]).
Proof. exact subset_select. Qed.
Print Assumptions C08_subset_select.

Theorem C08_read_eq_full_then_subset_pgen :
  forall pload c q chunk,
  wf_content c -> NoDup (g_samples c) -> wf_query q -> chunk_dom chunk -> g_samples c <> [] ->
  selected_samples c q <> [] ->
  exists full, pgen_read_q pload false chunk c q_all = Ok full
    /\ pgen_read_q pload false chunk c q
       = subset full (Some (selected_samples full q)) (Some (sel_ids in_region_pgen q full)).
Proof. exact read_eq_full_subset_pgen. Qed.
Print Assumptions C08_read_eq_full_then_subset_pgen.

(* VCF: the same, except that Genotypes.read replaces an array without cells by one of
   shape (0, 0, 0) ([hollow_if_empty]) *)
Theorem C08_read_eq_full_then_subset_vcf :
  forall c q,
  wf_content c -> NoDup (g_samples c) -> wf_query q -> g_samples c <> [] -> g_variants c <> [] ->
  selected_samples c q <> [] ->
  exists full r, vcf_read_q c q_all = Ok full
    /\ subset full (Some (selected_samples full q)) (Some (sel_ids in_region_vcf q full)) = Ok r
    /\ vcf_read_q c q = Ok (hollow_if_empty r).
Proof. exact read_eq_full_subset_vcf. Qed.
Print Assumptions C08_read_eq_full_then_subset_vcf.

(* ------------------------------------------------------------------------------------
   Sequences of subset() calls.  What is true: on an object with unique names, well-
   shaped rows and a consistent shape, and for requests without repeated names, calling
   subset() again and again (each call on the result of the previous one) equals ONE
   subset() of the original object by the names the sequence leaves, in the order the
   sequence leaves them: each request filtered to the names still present
   ([final_names]); in particular the last request decides the order, whatever
   re-orderings preceded it.  A request that repeats a known name leaves duplicate names
   behind, and the next subset() by that kind of name raises ValueError. *)

Theorem C08_subset_of_subset :
  forall g l1 v1 l2 v2 g1,
  length (g_rows g) = length (g_variants g) ->
  subset g (Some l1) (Some v1) = Ok g1 ->
  nodupb (g_samples g1) = true -> nodupb (map v_id (g_variants g1)) = true ->
  subset g1 (Some l2) (Some v2)
  = subset g (Some (filter (fun x => memZ x l1) l2)) (Some (filter (fun x => memZ x v1) v2)).
Proof. exact subset_subset_some. Qed.
Print Assumptions C08_subset_of_subset.

(* no request = a request for every name in the object's order *)
Theorem C08_subset_norm :
  forall g S V, wf_obj g ->
  subset g S V = subset g (Some (norm_req S (g_samples g))) (Some (norm_req V (map v_id (g_variants g)))).
Proof. exact subset_norm. Qed.
Print Assumptions C08_subset_norm.

Theorem C08_subset_preserves_wf :
  forall g S V g1, wf_obj g -> req_nodup S -> req_nodup V -> subset g S V = Ok g1 ->
  wf_obj g1 /\ shape_ok g1
  /\ g_samples g1 = step_names (g_samples g) S
  /\ map v_id (g_variants g1) = step_names (map v_id (g_variants g)) V.
Proof. exact subset_wf. Qed.
Print Assumptions C08_subset_preserves_wf.

Theorem C08_subset_seq_one :
  forall reqs g, wf_obj g -> shape_ok g -> Forall req_ok reqs ->
  subset_seq g reqs
  = subset g (Some (final_names (g_samples g) (map fst reqs)))
             (Some (final_names (map v_id (g_variants g)) (map snd reqs))).
Proof. exact subset_seq_one. Qed.
Print Assumptions C08_subset_seq_one.

Theorem C08_subset_after_repeats :
  forall g S V g1 S2 V2,
  subset g (Some S) V = Ok g1 -> nodupb (filter (fun s => memZ s (g_samples g)) S) = false ->
  subset g1 (Some S2) V2 = Err E_Value.
Proof. exact subset_after_repeats. Qed.
Print Assumptions C08_subset_after_repeats.

Theorem C08_subset_after_repeats_ids :
  forall g S V g1 S2 V2,
  subset g S (Some V) = Ok g1 -> nodupb (g_samples g1) = true ->
  nodupb (filter (fun v => memZ v (map v_id (g_variants g))) V) = false ->
  subset g1 S2 (Some V2) = Err E_Value.
Proof. exact subset_after_repeats_ids. Qed.
Print Assumptions C08_subset_after_repeats_ids.

(* the hypotheses are satisfiable; a kept re-ordering followed by a subset *)
Theorem C08_subset_seq_example :
  wf_obj g_two /\ shape_ok g_two
  /\ subset_seq g_two [(Some [1; 0], None); (Some [0], None)]
     = Ok (mkg [0] [mkvar 1 2 29 [3; 4] 1] [[(0, 1, 1)]] [1; 1; 3]).
Proof. exact subset_seq_example. Qed.
Print Assumptions C08_subset_seq_example.

(* ------------------------------------------------------------------------------------
   subset() as the implementation runs it ([subset_impl], what the [seq] relation
   compares with): on an object with cells it is [subset]; on the object a read that
   matched nothing leaves behind (array of shape (0, 0, 0) beside the samples found) the
   tree as it is raises IndexError once a requested name is known; with the repair
   (fixes/C08_subset_after_empty_read.patch; model flag [true]) it never raises and
   returns the requested names. *)

Theorem C08_subset_impl_cells :
  forall fixed g S V, no_cells g = false -> subset_impl fixed g S V = subset g S V.
Proof. exact subset_impl_cells. Qed.
Print Assumptions C08_subset_impl_cells.

Theorem C08_subset_impl_order :
  forall fixed g S V g', subset_impl fixed g S V = Ok g' ->
  g_samples g' = match S with
                 | None => g_samples g
                 | Some S' => filter (fun s => memZ s (g_samples g)) S' end
  /\ map v_id (g_variants g') = match V with
                                | None => map v_id (g_variants g)
                                | Some V' => filter (fun v => memZ v (map v_id (g_variants g))) V' end.
Proof. exact subset_impl_order. Qed.
Print Assumptions C08_subset_impl_order.

Theorem C08_subset_impl_total :
  forall g S V, nodupb (g_samples g) = true -> nodupb (map v_id (g_variants g)) = true ->
  exists g', subset_impl true g S V = Ok g'.
Proof. exact subset_impl_total. Qed.
Print Assumptions C08_subset_impl_total.

Theorem C08_subset_after_empty_read_refuted :
  vcf_read_q c_one q_noids = Ok g_hollow
  /\ subset_impl false g_hollow (Some [0]) None = Err E_Index
  /\ subset_impl true g_hollow (Some [0]) None = Ok g_hollow
  /\ subset_impl false g_hollow (Some [7]) (Some [1]) = Ok (mkg [] [] [] [0; 0; 0]).
Proof. exact subset_after_empty_read_refuted. Qed.
Print Assumptions C08_subset_after_empty_read_refuted.

(* ------------------------------------------------------------------------------------
   A sample restriction that selects nobody.  The tree as it is raises (cyvcf2:
   AttributeError, pgenlib: RuntimeError) - model flag [false], which is why the theorems
   above assume [selected_samples c q <> []].  With the repair
   (fixes/C08_empty_sample_selection.patch; model flag [true]) the closed forms hold for
   EVERY sample restriction: nobody selected = the selected variants without any sample. *)

Theorem C08_vcf_read_x_spec :
  forall c q, wf_content c -> wf_query q ->
  let m := keep_mask (q_samples q) (g_samples c) in
  let samples' := mask m (g_samples c) in
  let sel := select in_region_vcf q (combine (g_variants c) (g_rows c)) in
  vcf_read_x true c q = Ok (vcf_result m samples' (take_q q sel))
  /\ vcf_iter_x true c q = Ok (samples', map (fun r : vrec => (fst r, mask m (snd r))) sel).
Proof. exact vcf_read_x_spec. Qed.
Print Assumptions C08_vcf_read_x_spec.

Theorem C08_pgen_read_x_spec :
  forall pload c q chunk, wf_content c -> wf_query q -> chunk_dom chunk ->
  let m := keep_mask (q_samples q) (g_samples c) in
  let samples' := mask m (g_samples c) in
  let sel := select in_region_pgen q (combine (g_variants c) (g_rows c)) in
  pgen_read_x pload true chunk c q = Ok (pgen_result pload m samples' (take_q q sel))
  /\ pgen_iter_x pload true c q
     = Ok (samples', map (fun r : vrec => (fst r, map (load_call pload) (to_stored (mask m (snd r))))) sel).
Proof. exact pgen_read_x_spec. Qed.
Print Assumptions C08_pgen_read_x_spec.

Theorem C08_empty_sample_selection_refuted :
  vcf_read_x false c_one q_nobody = Err E_Attribute
  /\ pgen_read_x pload_std false None c_one q_nobody = Err E_Runtime
  /\ vcf_read_x true c_one q_nobody = Ok (mkg [] [mkvar 1 2 29 [3; 4] 1] [] [0; 0; 0])
  /\ pgen_read_x pload_std true None c_one q_nobody = Ok (mkg [] [mkvar 1 2 29 [3; 4] 1] [[]] [0; 1; 3]).
Proof. exact empty_sample_selection_refuted. Qed.
Print Assumptions C08_empty_sample_selection_refuted.

(* soundness of the checkers of the [seq] relation (read, read+subset, sequence of subsets) *)
Theorem C08_holds_step_sound :
  forall strict s b,
  holds_step strict s = true -> ss_before s = Ok b -> hollow b = false \/ strict = true ->
  subset_dom b = true ->
  exists g', ss_obs s = Ok g'
    /\ g_samples g' = match ss_S s with
                      | None => g_samples b
                      | Some S' => filter (fun x => memZ x (g_samples b)) S' end
    /\ map v_id (g_variants g') = match ss_V s with
                      | None => map v_id (g_variants b)
                      | Some V' => filter (fun v => memZ v (map v_id (g_variants b))) V' end.
Proof. exact holds_step_sound. Qed.
Print Assumptions C08_holds_step_sound.

Theorem C08_holds_seq_sound :
  forall k full,
  holds_seq k = true -> qc_full k = Ok full ->
  let q := qc_q k in
  let m := keep_mask (q_samples q) (g_samples full) in
  mask m (g_samples full) <> [] ->
  Forall (fun s => holds_step (qc_strict_nocells k) s = true) (qc_steps k)
  /\ exists rd, qc_read k = Ok rd
     /\ g_samples rd = mask m (g_samples full)
     /\ g_variants rd = map fst (expected q full rd)
     /\ (expected q full rd <> [] -> g_rows rd = map (fun x : vrec => mask m (snd x)) (expected q full rd))
     /\ (expected q full rd = [] -> g_rows rd = [] /\ qc_warned k = true)
     /\ (hollow full = false \/ qc_strict_nocells k = true ->
         exists cp, qc_comp k = Some (Ok cp) /\ g_samples cp = g_samples rd
                    /\ g_variants cp = g_variants rd /\ g_rows cp = g_rows rd).
Proof. exact holds_seq_sound. Qed.
Print Assumptions C08_holds_seq_sound.
