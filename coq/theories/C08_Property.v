(* C08 - property theorems only. *)
From HV Require Import Prelude C07_Model C07_Check C07_Proofs C08_Model C08_Check C08_Proofs.

Theorem C08_memZ_In : forall x l, memZ x l = true <-> In x l.
Proof. exact memZ_In. Qed.
Print Assumptions C08_memZ_In.
