(* C08 - region strings at character level.

   The readers are handed a region as TEXT: 'c', 'c:a-b' or 'c:a-'.  Three parsers read it:

   * htslib (behind cyvcf2's vcf(region); VCF/BCF): the whole string is a contig name if the
     header has such a contig (refused as ambiguous when the text before the LAST colon names
     a contig too); otherwise the contig is the text before the last colon and the positions
     follow it                                                             [hts_region]
   * GenotypesPLINK._iterate_variants, the tree as it is: re.split(":|-", region), every
     further non-empty field through int(), the result splatted into _check_region
     (ValueError from int(), TypeError for more than two numbers)          [parse_legacy]
   * GenotypesPLINK._iterate_variants after fixes/C08_region_contig_names.patch: the whole
     string is one reading; the text before the last colon with the numbers after it (split
     once at '-') is a second one when the numbers parse; a record is kept when it lies in one
     of the readings                                                       [parse_fixed]

   A string is the list of its code points; a contig name is turned into ONE integer by
   [enc] (injective on code points 0..255), which is what the harness writes into [v_chrom]
   of the [read] relation - so the model of the readers (C08_Model, contigs compared as
   integers) and the parsers (contigs as text) meet without a table.

   Proved here: the parsers invert the canonical printing of (contig, start?, end?) - the
   legacy parser for contig names without ':' and '-', htslib and the repaired parser for
   EVERY contig name as long as the file does not hold a contig named like the other
   reading of the string ([unambiguous]); and a read through the string equals the read with
   the parsed region. *)
From HV Require Import Prelude BpText C07_Text C07_Model C08_Model.

Definition COLON : Z := 58.
Definition DASH : Z := 45.
Definition PLUS : Z := 43.
Definition USCORE : Z := 95.
Definition E_Type : Z := 4.

(* ---- a contig name as one integer ---------------------------------------------------- *)

Fixpoint enc (s : str) : Z :=
  match s with [] => 1 | c :: r => c + 256 * enc r end.

Definition bytes (s : str) : Prop := Forall (fun c => 0 <= c < 256) s.

(* haptools keeps a contig name in a numpy field of 10 characters ("U10"): a longer name is cut
   when a record is loaded (the region is matched against the name in the file before that).
   On [enc] numbers: keep the 10 low base-256 digits and close them with the final 1. *)
Definition B10 : Z := 1208925819614629174706176.    (* 256^10 *)
Definition load_chrom (x : Z) : Z := if x <? 2 * B10 then x else x mod B10 + B10.

Definition load_variant (v : variant) : variant :=
  mkvar (v_id v) (load_chrom (v_chrom v)) (v_pos v) (v_alleles v) (v_reflen v).
Definition load_names (g : geno) : geno :=
  mkg (g_samples g) (map load_variant (g_variants g)) (g_rows g) (g_shape g).
Definition load_names_iter (x : list Z * list vrec) : list Z * list vrec :=
  (fst x, map (fun r : vrec => (load_variant (fst r), snd r)) (snd x)).
Definition rmap {A B} (f : A -> B) (x : res A) : res B :=
  match x with Ok a => Ok (f a) | Err e => Err e end.

(* ---- canonical printing ---------------------------------------------------------------- *)

Definition sregion := (str * option Z * option Z)%type.

Definition print_region (r : sregion) : str :=
  let '(c, a, b) := r in
  match a with
  | None => c
  | Some a' => c ++ COLON :: dec a' ++ DASH :: match b with None => [] | Some b' => dec b' end
  end.

(* the three forms of the property: 'c', 'c:a-b', 'c:a-' with non-negative numbers *)
Definition wf_sregion (r : sregion) : Prop :=
  let '(_, a, b) := r in
  match a, b with
  | None, None => True
  | None, Some _ => False
  | Some a', None => 0 <= a'
  | Some a', Some b' => 0 <= a' /\ 0 <= b'
  end.

Definition enc_region (r : sregion) : region := let '(c, a, b) := r in (enc c, a, b).

(* ---- Python's int(text) on the characters a contig name can hold ---------------------
   digits, single underscores between digits, an optional sign.  (Python also strips white
   space and accepts non-ASCII digits: no VCF contig name contains either.) *)

Fixpoint int_body (s : str) (acc : Z) (prev : bool) : option Z :=
  match s with
  | [] => if prev then Some acc else None
  | c :: r => if is_digit c then int_body r (acc * 10 + (c - 48)) true
              else if (c =? USCORE) && prev then int_body r acc false
              else None
  end.

Definition py_int (s : str) : option Z :=
  match s with
  | [] => None
  | c :: r => if c =? PLUS then int_body r 0 false
              else if c =? DASH then option_map Z.opp (int_body r 0 false)
              else int_body s 0 false
  end.

(* [int(f) for f in fields if f]; None = ValueError *)
Fixpoint ints_of (fs : list str) : option (list Z) :=
  match fs with
  | [] => Some []
  | f :: r => if is_nil f then ints_of r
              else match py_int f, ints_of r with
                   | Some x, Some l => Some (x :: l)
                   | _, _ => None
                   end
  end.

(* a parsed region as GenotypesPLINK holds it: the contig, then the numbers that are
   splatted into _check_region(pos, chrom, start=0, end=inf) *)
Definition preg := (str * list Z)%type.

Definition region_of_preg (p : preg) : res sregion :=
  match snd p with
  | [] => Ok (fst p, None, None)
  | [a] => Ok (fst p, Some a, None)
  | [a; b] => Ok (fst p, Some a, Some b)
  | _ => Err E_Type           (* _check_region() takes from 3 to 5 positional arguments *)
  end.

(* ---- the tree as it is: re.split(":|-", region) ------------------------------------------ *)

Definition is_sep (c : Z) : bool := (c =? COLON) || (c =? DASH).

Fixpoint resplit (s : str) : list str :=
  match s with
  | [] => [[]]
  | c :: r => if is_sep c then [] :: resplit r
              else match resplit r with
                   | t :: ts => (c :: t) :: ts
                   | [] => [[c]]              (* unreachable *)
                   end
  end.

Definition parse_legacy (s : str) : res preg :=
  match resplit s with
  | [] => Err E_Value                          (* unreachable *)
  | c :: rest => match ints_of rest with
                 | None => Err E_Value          (* invalid literal for int() *)
                 | Some l => Ok (c, l)
                 end
  end.

(* ---- the repaired parser: region.rpartition(":"), positions.split("-", 1) ----------------- *)

(* None: no colon; Some (before the last colon, after it) *)
Fixpoint rsplit (s : str) : option (str * str) :=
  match s with
  | [] => None
  | c :: r => match rsplit r with
              | Some (n, p) => Some (c :: n, p)
              | None => if c =? COLON then Some ([], r) else None
              end
  end.

(* text before the first '-', and the text after it if there is one *)
Fixpoint split1 (s : str) : str * option str :=
  match s with
  | [] => ([], None)
  | c :: r => if c =? DASH then ([], Some r)
              else let '(x, y) := split1 r in (c :: x, y)
  end.

Definition fields1 (p : str) : list str :=
  let '(x, y) := split1 p in x :: match y with Some t => [t] | None => [] end.

(* the readings of a region string, in the order they are tried on a record *)
Definition parse_fixed (s : str) : list preg :=
  (s, []) :: match rsplit s with
             | None => []
             | Some (name, p) => match ints_of (fields1 p) with
                                 | Some l => [(name, l)]
                                 | None => []
                                 end
             end.

(* ---- what the readers make of a region string, for a file with the contigs [chroms] ------ *)

(* selects no record: [enc] is positive *)
Definition no_region : region := (-1, None, None).

Definition known (chroms : list Z) (name : str) : bool := memZ (enc name) chroms.

(* GenotypesPLINK: legacy = the tree as it is.  The repaired reader keeps a record that lies
   in any reading; a reading whose contig is not in the file keeps nothing, so the readings
   are resolved against the contigs of the file.  Two readings that both name contigs of the
   file (a contig named like a region of another one) are not modelled: E_Unobserved. *)
Definition pgen_region (fixed : bool) (chroms : list Z) (s : str) : res region :=
  if fixed then
    match filter (fun p : preg => known chroms (fst p)) (parse_fixed s) with
    | [] => Ok no_region
    | [p] => bind (region_of_preg p) (fun r => Ok (enc_region r))
    | _ => Err E_Unobserved
    end
  else bind (parse_legacy s) (fun p => bind (region_of_preg p) (fun r => Ok (enc_region r))).

(* htslib's positions after the colon, for the texts the canonical printing produces:
   '', 'a', 'a-', 'a-b' in plain decimals ("chr:0-..." is refused: coordinates are 1-based;
   an end of 0 means "to the end"; beg >= end is refused).  htslib accepts more (thousands
   separators, exponents, k/M/G suffixes, "-b"): not modelled, [None] = refused. *)
Definition hts_positions (p : str) : option (option Z * option Z) :=
  match split1 p with
  | ([], None) => Some (None, None)
  | (x, None) => match undec x with
                 | Some a => Some (if a =? 0 then None else Some a, None)
                 | None => None
                 end
  | (x, Some y) =>
      match undec x with
      | Some a =>
          if a =? 0 then None
          else match y with
               | [] => Some (Some a, None)
               | _ => match undec y with
                      | Some b => if b =? 0 then Some (Some a, None)
                                  else if b <? a then None
                                  else Some (Some a, Some b)
                      | None => None
                      end
               end
      | None => None
      end
  end.

(* hts_parse_region + the query: an unknown contig, an ambiguous or a malformed string make
   cyvcf2 warn "no intervals found" and yield nothing *)
Definition hts_region (chroms : list Z) (s : str) : region :=
  match rsplit s with
  | None => if known chroms s then (enc s, None, None) else no_region
  | Some (name, p) =>
      if known chroms s then (if known chroms name then no_region else (enc s, None, None))
      else if known chroms name then
        match hts_positions p with
        | Some (a, b) => (enc name, a, b)
        | None => no_region
        end
      else no_region
  end.

(* the file holds no contig named like the OTHER reading of the printed region *)
Definition unambiguous (chroms : list Z) (r : sregion) : Prop :=
  let '(c, a, _) := r in
  match a with
  | None => match rsplit c with Some (name, _) => known chroms name = false | None => True end
  | Some _ => known chroms (print_region r) = false
  end.

Definition unambiguousb (chroms : list Z) (r : sregion) : bool :=
  let '(c, a, _) := r in
  match a with
  | None => match rsplit c with Some (name, _) => negb (known chroms name) | None => true end
  | Some _ => negb (known chroms (print_region r))
  end.

Definition plain (c : str) : Prop := forallb (fun x => negb (is_sep x)) c = true.

(* ---- the reads through a region string ----------------------------------------------------- *)

Definition chroms_of (c : geno) : list Z := map v_chrom (g_variants c).

Definition q_set_region (q : query) (r : option region) : query :=
  mkq r (q_samples q) (q_ids q) (q_max q).

(* Genotypes.read / __iter__ (region = text) *)
Definition vcf_read_s (fixed0 : bool) (c : geno) (q : query) (s : str) : res geno :=
  vcf_read_x fixed0 c (q_set_region q (Some (hts_region (chroms_of c) s))).
Definition vcf_iter_s (fixed0 : bool) (c : geno) (q : query) (s : str) : res (list Z * list vrec) :=
  vcf_iter_x fixed0 c (q_set_region q (Some (hts_region (chroms_of c) s))).

(* GenotypesPLINK.read / __iter__ (region = text).  The string is parsed when the first line of
   the .pvar is about to be examined: a file without variants returns before that. *)
Section PgenS.
  Variable pload : scall -> scall.

  Definition pgen_read_s (fixedr fixed0 : bool) (chunk : option Z) (c : geno) (q : query) (s : str) : res geno :=
    match pgen_region fixedr (chroms_of c) s with
    | Ok rg => pgen_read_x pload fixed0 chunk c (q_set_region q (Some rg))
    | Err e => if is_nil (g_variants c) then pgen_read_x pload fixed0 chunk c q else Err e
    end.

  Definition pgen_iter_s (fixedr fixed0 : bool) (c : geno) (q : query) (s : str) : res (list Z * list vrec) :=
    match pgen_region fixedr (chroms_of c) s with
    | Ok rg => pgen_iter_x pload fixed0 c (q_set_region q (Some rg))
    | Err e => if is_nil (g_variants c) then pgen_iter_x pload fixed0 c q else Err e
    end.
End PgenS.

(* ===================================== proofs ============================================== *)

Lemma enc_pos_bytes s : bytes s -> 0 < enc s.
Proof.
  induction 1 as [|c r Hc _ IH]; cbn [enc]; lia.
Qed.

Lemma enc_inj s : forall t, bytes s -> bytes t -> enc s = enc t -> s = t.
Proof.
  induction s as [|c r IH]; intros [|d t] Hs Ht E; cbn [enc] in E.
  - reflexivity.
  - inversion Ht as [|? ? Hd Ht']; subst. pose proof (enc_pos_bytes t Ht'). lia.
  - inversion Hs as [|? ? Hc Hs']; subst. pose proof (enc_pos_bytes r Hs'). lia.
  - inversion Hs as [|? ? Hc Hs']; subst. inversion Ht as [|? ? Hd Ht']; subst.
    assert (c = d /\ enc r = enc t) as [-> E'] by lia.
    f_equal. apply IH; assumption.
Qed.

Lemma enc_length_neq s t : bytes s -> bytes t -> length s <> length t -> enc s <> enc t.
Proof. intros Hs Ht Hl E. apply Hl. f_equal. apply enc_inj; assumption. Qed.

(* cutting a name to 10 characters, on the numbers *)
Fixpoint low (s : str) : Z := match s with [] => 0 | c :: r => c + 256 * low r end.

Lemma enc_app a b : enc (a ++ b) = low a + 256 ^ Z.of_nat (length a) * enc b.
Proof.
  induction a as [|c a IH]; cbn [app enc low length].
  - rewrite Z.pow_0_r. lia.
  - rewrite IH, Nat2Z.inj_succ, Z.pow_succ_r by lia. lia.
Qed.

Lemma low_bound a : bytes a -> 0 <= low a < 256 ^ Z.of_nat (length a).
Proof.
  induction 1 as [|c a Hc _ IH]; cbn [low length].
  - rewrite Z.pow_0_r. lia.
  - rewrite Nat2Z.inj_succ, Z.pow_succ_r by lia. lia.
Qed.

Lemma enc_low a : enc a = low a + 256 ^ Z.of_nat (length a).
Proof. rewrite <- (app_nil_r a) at 1. rewrite enc_app. cbn [enc]. lia. Qed.

Lemma load_chrom_enc s : bytes s -> load_chrom (enc s) = enc (firstn 10 s).
Proof.
  intros Hs. unfold load_chrom. destruct (Nat.le_gt_cases (length s) 10) as [Hle|Hgt].
  - rewrite firstn_all2 by exact Hle. rewrite enc_low. pose proof (low_bound s Hs) as Hb.
    assert (256 ^ Z.of_nat (length s) <= B10).
    { change B10 with (256 ^ 10). apply Z.pow_le_mono_r; lia. }
    replace (low s + 256 ^ Z.of_nat (length s) <? 2 * B10) with true; [reflexivity|].
    symmetry. apply Z.ltb_lt. lia.
  - assert (Hl : length (firstn 10 s) = 10%nat) by (rewrite firstn_length; lia).
    assert (E : enc s = low (firstn 10 s) + enc (skipn 10 s) * B10).
    { rewrite <- (firstn_skipn 10 s) at 1. rewrite enc_app, Hl. change (256 ^ Z.of_nat 10) with B10. lia. }
    assert (Hf : bytes (firstn 10 s)).
    { unfold bytes in *. rewrite Forall_forall in *. intros x Hx. apply Hs. rewrite <- (firstn_skipn 10 s). apply in_or_app. left. exact Hx. }
    assert (Hk : bytes (skipn 10 s)).
    { unfold bytes in *. rewrite Forall_forall in *. intros x Hx. apply Hs. rewrite <- (firstn_skipn 10 s). apply in_or_app. right. exact Hx. }
    pose proof (low_bound _ Hf) as Hb. rewrite Hl in Hb. change (256 ^ Z.of_nat 10) with B10 in Hb.
    assert (He : 2 <= enc (skipn 10 s)).
    { destruct (skipn 10 s) as [|c r] eqn:E'.
      - exfalso. assert (length (skipn 10 s) = 0%nat) by (rewrite E'; reflexivity). rewrite skipn_length in H. lia.
      - inversion Hk; subst. pose proof (enc_pos_bytes r H2). cbn [enc]. lia. }
    rewrite E.
    replace (low (firstn 10 s) + enc (skipn 10 s) * B10 <? 2 * B10) with false
      by (symmetry; apply Z.ltb_ge; unfold B10 in *; nia).
    rewrite Z.mod_add by (unfold B10; lia).
    rewrite Z.mod_small by exact Hb. rewrite (enc_low (firstn 10 s)), Hl. reflexivity.
Qed.

(* ---- digits -------------------------------------------------------------------------------- *)

Lemma int_body_digits : forall s acc p, s <> [] -> forallb is_digit s = true ->
  int_body s acc p = undec_acc s acc.
Proof.
  induction s as [|c r IH]; intros acc p Hne Hd; [congruence|].
  cbn [forallb] in Hd. apply andb_true_iff in Hd. destruct Hd as [Hc Hr].
  cbn [int_body undec_acc]. rewrite Hc.
  destruct r as [|d r']; [reflexivity|]. apply IH; [discriminate|exact Hr].
Qed.

Lemma digit_not c x : is_digit c = true -> x < 48 \/ 57 < x -> (c =? x) = false.
Proof.
  unfold is_digit. intros H Hx. apply andb_true_iff in H. destruct H as [H H'].
  apply Z.leb_le in H. apply Z.leb_le in H'. apply Z.eqb_neq. lia.
Qed.

Lemma py_int_dec n : 0 <= n -> py_int (dec n) = Some n.
Proof.
  intros Hn. pose proof (undec_dec n Hn) as Hu. pose proof (dec_digits n Hn) as Hd.
  pose proof (dec_nonnil n) as Hne. unfold py_int, undec in *.
  destruct (dec n) as [|c r] eqn:E; [congruence|].
  assert (Hc : is_digit c = true) by (cbn [forallb] in Hd; apply andb_true_iff in Hd; tauto).
  rewrite (digit_not c PLUS Hc) by (unfold PLUS; lia).
  rewrite (digit_not c DASH Hc) by (unfold DASH; lia).
  rewrite int_body_digits by (try discriminate; exact Hd). exact Hu.
Qed.

Lemma digits_plain s : forallb is_digit s = true -> forallb (fun x => negb (is_sep x)) s = true.
Proof.
  intros H. rewrite forallb_forall in *. intros x Hx. specialize (H x Hx).
  unfold is_sep. rewrite (digit_not x COLON H) by (unfold COLON; lia).
  rewrite (digit_not x DASH H) by (unfold DASH; lia). reflexivity.
Qed.

(* ---- re.split ------------------------------------------------------------------------------ *)

Lemma resplit_nonnil s : resplit s <> [].
Proof.
  destruct s as [|c r]; cbn [resplit]; [discriminate|].
  destruct (is_sep c); [discriminate|]. destruct (resplit r); discriminate.
Qed.

Lemma resplit_plain t : plain t -> resplit t = [t].
Proof.
  unfold plain. induction t as [|c t IH]; intros H; [reflexivity|].
  cbn [forallb] in H. apply andb_true_iff in H. destruct H as [Hc Ht].
  apply negb_true_iff in Hc. cbn [resplit]. rewrite Hc, (IH Ht). reflexivity.
Qed.

Lemma resplit_app t x s : plain t -> is_sep x = true -> resplit (t ++ x :: s) = t :: resplit s.
Proof.
  unfold plain. intros Ht Hx. induction t as [|c t IH]; cbn [app resplit].
  - rewrite Hx. reflexivity.
  - cbn [forallb] in Ht. apply andb_true_iff in Ht. destruct Ht as [Hc Ht].
    apply negb_true_iff in Hc. rewrite Hc, (IH Ht). reflexivity.
Qed.

Lemma is_nil_dec n : is_nil (dec n) = false.
Proof. pose proof (dec_nonnil n). destruct (dec n); [congruence|reflexivity]. Qed.

(* the legacy parser inverts the printing for contig names without ':' and '-' *)
Lemma print_parse_legacy r :
  plain (fst (fst r)) -> wf_sregion r ->
  bind (parse_legacy (print_region r)) region_of_preg = Ok r.
Proof.
  destruct r as [[c a] b]. cbn [fst]. intros Hc Hwf. unfold parse_legacy, print_region.
  assert (Hcol : is_sep COLON = true) by reflexivity.
  assert (Hdash : is_sep DASH = true) by reflexivity.
  destruct a as [a|]; [|destruct b as [b|]; [contradiction|]].
  - rewrite (resplit_app c COLON _ Hc Hcol).
    assert (Ha : 0 <= a) by (destruct b; cbn in Hwf; lia).
    rewrite (resplit_app (dec a) DASH _ (digits_plain _ (dec_digits a Ha)) Hdash).
    destruct b as [b|].
    + assert (Hb : 0 <= b) by (cbn in Hwf; lia).
      rewrite (resplit_plain (dec b) (digits_plain _ (dec_digits b Hb))).
      cbn [ints_of]. rewrite !is_nil_dec, !py_int_dec by assumption. reflexivity.
    + cbn [resplit ints_of is_nil]. rewrite is_nil_dec, py_int_dec by assumption. reflexivity.
  - rewrite (resplit_plain c Hc). reflexivity.
Qed.

(* ---- rpartition(":") ------------------------------------------------------------------------- *)

Definition nocolon (s : str) : Prop := forallb (fun x => negb (x =? COLON)) s = true.

Lemma rsplit_nocolon s : nocolon s -> rsplit s = None.
Proof.
  unfold nocolon. induction s as [|c r IH]; intros H; [reflexivity|].
  cbn [forallb] in H. apply andb_true_iff in H. destruct H as [Hc Hr].
  apply negb_true_iff in Hc. cbn [rsplit]. rewrite (IH Hr), Hc. reflexivity.
Qed.

Lemma rsplit_app c p : nocolon p -> rsplit (c ++ COLON :: p) = Some (c, p).
Proof.
  intros Hp. induction c as [|x c IH]; cbn [app rsplit].
  - rewrite (rsplit_nocolon p Hp), Z.eqb_refl. reflexivity.
  - rewrite IH. reflexivity.
Qed.

Lemma rsplit_length s n p : rsplit s = Some (n, p) -> (length n < length s)%nat.
Proof.
  revert n p. induction s as [|c r IH]; intros n p H; cbn [rsplit] in H; [discriminate|].
  destruct (rsplit r) as [[n' p']|] eqn:E.
  - inversion H; subst. specialize (IH _ _ eq_refl). cbn [length]. lia.
  - destruct (c =? COLON); [|discriminate]. inversion H; subst. cbn [length]. lia.
Qed.

Lemma rsplit_bytes s n p : rsplit s = Some (n, p) -> bytes s -> bytes n.
Proof.
  revert n p. induction s as [|c r IH]; intros n p H Hs; cbn [rsplit] in H; [discriminate|].
  inversion Hs as [|? ? Hc Hr]; subst.
  destruct (rsplit r) as [[n' p']|] eqn:E.
  - inversion H; subst. constructor; [exact Hc|]. eapply IH; [reflexivity|exact Hr].
  - destruct (c =? COLON); [|discriminate]. inversion H; subst. constructor.
Qed.

Lemma digits_nocolon s : forallb is_digit s = true -> nocolon s.
Proof.
  unfold nocolon. intros H. rewrite forallb_forall in *. intros x Hx.
  rewrite (digit_not x COLON (H x Hx)) by (unfold COLON; lia). reflexivity.
Qed.

Lemma nocolon_app a b : nocolon a -> nocolon b -> nocolon (a ++ b).
Proof. unfold nocolon. intros Ha Hb. rewrite forallb_app, Ha, Hb. reflexivity. Qed.

Lemma nocolon_cons x s : (x =? COLON) = false -> nocolon s -> nocolon (x :: s).
Proof. unfold nocolon. intros Hx Hs. cbn [forallb]. rewrite Hx, Hs. reflexivity. Qed.

(* the text after the colon in a printed region *)
Definition postext (a : Z) (b : option Z) : str :=
  dec a ++ DASH :: match b with None => [] | Some b' => dec b' end.

Lemma postext_nocolon a b : 0 <= a -> match b with Some b' => 0 <= b' | None => True end ->
  nocolon (postext a b).
Proof.
  intros Ha Hb. unfold postext. apply nocolon_app; [apply digits_nocolon, dec_digits, Ha|].
  apply nocolon_cons; [reflexivity|]. destruct b as [b|]; [apply digits_nocolon, dec_digits, Hb|reflexivity].
Qed.

Lemma split1_digits s t : forallb is_digit s = true -> split1 (s ++ DASH :: t) = (s, Some t).
Proof.
  induction s as [|c s IH]; intros H; cbn [app split1].
  - rewrite Z.eqb_refl. reflexivity.
  - cbn [forallb] in H. apply andb_true_iff in H. destruct H as [Hc Hs].
    rewrite (digit_not c DASH Hc) by (unfold DASH; lia). rewrite (IH Hs). reflexivity.
Qed.

Lemma ints_of_postext a b : 0 <= a -> match b with Some b' => 0 <= b' | None => True end ->
  ints_of (fields1 (postext a b)) = Some (a :: match b with Some b' => [b'] | None => [] end).
Proof.
  intros Ha Hb. unfold fields1, postext. rewrite (split1_digits _ _ (dec_digits a Ha)).
  cbn [ints_of]. rewrite is_nil_dec, py_int_dec by exact Ha.
  destruct b as [b|].
  - rewrite is_nil_dec, py_int_dec by exact Hb. reflexivity.
  - reflexivity.
Qed.

(* the readings of a printed region: the intended one is among them; at most one other,
   whose contig is the whole string (forms with positions) or the text before the last colon
   of the contig (form 'c') *)
Lemma parse_fixed_print_pos c a b :
  0 <= a -> match b with Some b' => 0 <= b' | None => True end ->
  parse_fixed (print_region (c, Some a, b))
  = [(print_region (c, Some a, b), []); (c, a :: match b with Some b' => [b'] | None => [] end)].
Proof.
  intros Ha Hb. unfold parse_fixed. cbn [print_region]. fold (postext a b).
  rewrite (rsplit_app c _ (postext_nocolon a b Ha Hb)), (ints_of_postext a b Ha Hb). reflexivity.
Qed.

Lemma parse_fixed_print_contig c :
  parse_fixed (print_region (c, None, None))
  = (c, []) :: match rsplit c with
               | Some (name, p) => match ints_of (fields1 p) with Some l => [(name, l)] | None => [] end
               | None => []
               end.
Proof. reflexivity. Qed.

Lemma print_length c a b : (length c < length (print_region (c, Some a, b)))%nat.
Proof. cbn [print_region]. rewrite app_length. cbn [length]. lia. Qed.

Lemma known_false_of_neq chroms s : ~ In (enc s) chroms -> known chroms s = false.
Proof.
  intros H. unfold known, memZ. apply not_true_is_false. intros E.
  apply existsb_exists in E. destruct E as [x [Hx E]]. apply Z.eqb_eq in E. subst. contradiction.
Qed.

(* the repaired PGEN reader: the region of the printed string is the printed region (or one
   that selects nothing when the file has no such contig) *)
Lemma pgen_region_fixed_print chroms r :
  wf_sregion r -> unambiguous chroms r ->
  pgen_region true chroms (print_region r)
  = Ok (if known chroms (fst (fst r)) then enc_region r else no_region).
Proof.
  destruct r as [[c a] b]. cbn [fst]. intros Hwf Hun. unfold pgen_region.
  destruct a as [a|].
  - assert (Ha : 0 <= a) by (destruct b; cbn in Hwf; lia).
    assert (Hb : match b with Some b' => 0 <= b' | None => True end) by (destruct b; cbn in Hwf; [lia|exact I]).
    rewrite (parse_fixed_print_pos c a b Ha Hb). cbn [unambiguous] in Hun.
    cbn [filter fst]. rewrite Hun.
    destruct (known chroms c); [|reflexivity].
    destruct b; reflexivity.
  - destruct b as [b|]; [contradiction|]. rewrite parse_fixed_print_contig. cbn [unambiguous] in Hun.
    cbn [filter fst]. destruct (rsplit c) as [[name p]|].
    + destruct (ints_of (fields1 p)) as [l|]; cbn [filter fst]; [rewrite Hun|];
        destruct (known chroms c); reflexivity.
    + cbn [filter]. destruct (known chroms c); reflexivity.
Qed.

(* htslib *)
Lemma hts_positions_postext a b : 1 <= a -> match b with Some b' => 1 <= b' | None => True end ->
  hts_positions (postext a b)
  = match b with
    | Some b' => if b' <? a then None else Some (Some a, Some b')
    | None => Some (Some a, None)
    end.
Proof.
  intros Ha Hb. unfold hts_positions, postext.
  rewrite (split1_digits _ _ (dec_digits a ltac:(lia))).
  pose proof (dec_nonnil a) as Hne. destruct (dec a) as [|d ds] eqn:E; [congruence|]. rewrite <- E.
  rewrite undec_dec by lia. replace (a =? 0) with false by (symmetry; apply Z.eqb_neq; lia).
  destruct b as [b|]; [|reflexivity].
  pose proof (dec_nonnil b) as Hnb. destruct (dec b) as [|e es] eqn:Eb; [congruence|]. rewrite <- Eb.
  rewrite undec_dec by lia. replace (b =? 0) with false by (symmetry; apply Z.eqb_neq; lia). reflexivity.
Qed.

Lemma hts_region_print chroms r :
  wf_sregion r -> unambiguous chroms r ->
  match r with (_, Some a, Some b) => 1 <= a /\ 1 <= b | (_, Some a, None) => 1 <= a | _ => True end ->
  hts_region chroms (print_region r)
  = if known chroms (fst (fst r))
    then match r with
         | (_, Some a, Some b) => if b <? a then no_region else enc_region r
         | _ => enc_region r
         end
    else no_region.
Proof.
  destruct r as [[c a] b]. cbn [fst]. intros Hwf Hun H1. unfold hts_region.
  destruct a as [a|].
  - assert (Ha : 1 <= a) by (destruct b; lia).
    assert (Hb : match b with Some b' => 1 <= b' | None => True end) by (destruct b; [lia|exact I]).
    cbn [unambiguous] in Hun. rewrite Hun. cbn [print_region]. fold (postext a b).
    rewrite (rsplit_app c _ (postext_nocolon a b ltac:(lia) ltac:(destruct b; [lia|exact I]))).
    destruct (known chroms c); [|reflexivity].
    rewrite (hts_positions_postext a b Ha Hb). destruct b as [b|]; [|reflexivity].
    destruct (b <? a); reflexivity.
  - destruct b as [b|]; [contradiction|]. cbn [print_region unambiguous] in *.
    destruct (rsplit c) as [[name p]|].
    + rewrite Hun. destruct (known chroms c); reflexivity.
    + reflexivity.
Qed.

(* ---- a region only matters through the records of the file it keeps ------------------------- *)

Lemma no_region_pgen v : 0 <= v_chrom v -> in_region_pgen no_region v = false.
Proof. intros H. unfold in_region_pgen, no_region. replace (v_chrom v =? -1) with false by (symmetry; apply Z.eqb_neq; lia). reflexivity. Qed.

Lemma no_region_vcf v : 0 <= v_chrom v -> in_region_vcf no_region v = false.
Proof. intros H. unfold in_region_vcf, no_region. replace (v_chrom v =? -1) with false by (symmetry; apply Z.eqb_neq; lia). reflexivity. Qed.

Lemma unknown_region_pgen chroms c a b v :
  known chroms c = false -> In (v_chrom v) chroms -> in_region_pgen (enc c, a, b) v = false.
Proof.
  intros Hk Hin. unfold in_region_pgen. destruct (v_chrom v =? enc c) eqn:E; [|reflexivity].
  apply Z.eqb_eq in E. unfold known, memZ in Hk. exfalso.
  assert (existsb (Z.eqb (enc c)) chroms = true); [|congruence].
  apply existsb_exists. exists (v_chrom v). split; [exact Hin|]. apply Z.eqb_eq. symmetry. exact E.
Qed.

Lemma unknown_region_vcf chroms c a b v :
  known chroms c = false -> In (v_chrom v) chroms -> in_region_vcf (enc c, a, b) v = false.
Proof.
  intros Hk Hin. unfold in_region_vcf. destruct (v_chrom v =? enc c) eqn:E; [|reflexivity].
  apply Z.eqb_eq in E. unfold known, memZ in Hk. exfalso.
  assert (existsb (Z.eqb (enc c)) chroms = true); [|congruence].
  apply existsb_exists. exists (v_chrom v). split; [exact Hin|]. apply Z.eqb_eq. symmetry. exact E.
Qed.

(* the region the repaired PGEN reader derives from the printed string keeps exactly the
   records of the file that the printed region keeps *)
Lemma region_string_pgen chroms r v :
  wf_sregion r -> unambiguous chroms r -> In (v_chrom v) chroms -> 0 <= v_chrom v ->
  exists rg, pgen_region true chroms (print_region r) = Ok rg
             /\ in_region_pgen rg v = in_region_pgen (enc_region r) v.
Proof.
  intros Hwf Hun Hin Hpos. rewrite (pgen_region_fixed_print chroms r Hwf Hun).
  eexists. split; [reflexivity|]. destruct r as [[c a] b]. cbn [fst enc_region].
  destruct (known chroms c) eqn:K; [reflexivity|].
  rewrite (no_region_pgen v Hpos), (unknown_region_pgen chroms c a b v K Hin). reflexivity.
Qed.

Lemma inverted_vcf c a b v : b < a -> in_region_vcf (c, Some a, Some b) v = false.
Proof.
  intros H. unfold in_region_vcf. replace (a <=? b) with false by (symmetry; apply Z.leb_gt; lia).
  rewrite andb_false_r. reflexivity.
Qed.

Lemma region_string_vcf chroms r v :
  wf_sregion r -> unambiguous chroms r ->
  match r with (_, Some a, Some b) => 1 <= a /\ 1 <= b | (_, Some a, None) => 1 <= a | _ => True end ->
  In (v_chrom v) chroms -> 0 <= v_chrom v ->
  in_region_vcf (hts_region chroms (print_region r)) v = in_region_vcf (enc_region r) v.
Proof.
  intros Hwf Hun H1 Hin Hpos. rewrite (hts_region_print chroms r Hwf Hun H1).
  destruct r as [[c a] b]. cbn [fst enc_region].
  destruct (known chroms c) eqn:K.
  - destruct a as [a|]; [|reflexivity]. destruct b as [b|]; [|reflexivity].
    destruct (Z.ltb_spec b a) as [Hlt|Hge]; [|reflexivity].
    rewrite (no_region_vcf v Hpos), (inverted_vcf (enc c) a b v Hlt). reflexivity.
  - rewrite (no_region_vcf v Hpos), (unknown_region_vcf chroms c a b v K Hin). reflexivity.
Qed.

(* the legacy PGEN reader, contig names without ':' and '-' *)
Lemma pgen_region_legacy_print chroms r :
  plain (fst (fst r)) -> wf_sregion r ->
  pgen_region false chroms (print_region r) = Ok (enc_region r).
Proof.
  intros Hp Hwf. unfold pgen_region. pose proof (print_parse_legacy r Hp Hwf) as H.
  destruct (parse_legacy (print_region r)) as [p|e]; cbn [bind] in *; [|discriminate].
  rewrite H. reflexivity.
Qed.

(* ---- extensionality of the readers in the region ------------------------------------------- *)

Lemma pvar_scan_ext r1 r2 V (recs : list vrec) :
  (forall x, In x recs -> in_region_pgen r1 (fst x) = in_region_pgen r2 (fst x)) ->
  pvar_scan (Some r1) V recs = pvar_scan (Some r2) V recs.
Proof.
  induction recs as [|x recs IH]; intros H; [reflexivity|].
  cbn [pvar_scan]. rewrite (H x (or_introl eq_refl)).
  assert (IH' := IH (fun y Hy => H y (or_intror Hy))).
  destruct (negb (in_region_pgen r2 (fst x))); [exact IH'|].
  destruct V as [V'|]; [|rewrite IH'; reflexivity].
  destruct (memZ (v_id (fst x)) V'); [rewrite IH'; reflexivity|].
  destruct (lenZ V' <=? 0); [reflexivity|exact IH'].
Qed.

Lemma in_combine_fst {A B} (l : list A) (l' : list B) x : In x (combine l l') -> In (fst x) l.
Proof. destruct x as [a b]. apply in_combine_l. Qed.

Section ExtPgen.
  Variable pload : scall -> scall.

  Lemma pgen_records_ext c q r1 r2 :
    (forall v, In v (g_variants c) -> in_region_pgen r1 v = in_region_pgen r2 v) ->
    pgen_records c (q_set_region q (Some r1)) = pgen_records c (q_set_region q (Some r2)).
  Proof.
    intros H. unfold pgen_records, q_set_region. cbn [q_region q_ids].
    apply pvar_scan_ext. intros x Hx. apply H. eapply in_combine_fst. exact Hx.
  Qed.

  Lemma pgen_read_x_ext fixed0 chunk c q r1 r2 :
    (forall v, In v (g_variants c) -> in_region_pgen r1 v = in_region_pgen r2 v) ->
    pgen_read_x pload fixed0 chunk c (q_set_region q (Some r1))
    = pgen_read_x pload fixed0 chunk c (q_set_region q (Some r2)).
  Proof.
    intros H. unfold pgen_read_x, pgen_read_q, sel_samples.
    rewrite (pgen_records_ext c q r1 r2 H). reflexivity.
  Qed.

  Lemma pgen_iter_x_ext fixed0 c q r1 r2 :
    (forall v, In v (g_variants c) -> in_region_pgen r1 v = in_region_pgen r2 v) ->
    pgen_iter_x pload fixed0 c (q_set_region q (Some r1))
    = pgen_iter_x pload fixed0 c (q_set_region q (Some r2)).
  Proof.
    intros H. unfold pgen_iter_x, pgen_iter_q, sel_samples.
    rewrite (pgen_records_ext c q r1 r2 H). reflexivity.
  Qed.
End ExtPgen.

Lemma vcf_records_ext c q r1 r2 :
  (forall v, In v (g_variants c) -> in_region_vcf r1 v = in_region_vcf r2 v) ->
  vcf_records c (q_set_region q (Some r1)) = vcf_records c (q_set_region q (Some r2)).
Proof.
  intros H. unfold vcf_records, q_set_region. cbn [q_region q_ids].
  replace (filter (fun x : vrec => in_region_vcf r1 (fst x)) (combine (g_variants c) (g_rows c)))
    with (filter (fun x : vrec => in_region_vcf r2 (fst x)) (combine (g_variants c) (g_rows c))); [reflexivity|].
  apply filter_ext_in. intros x Hx. symmetry. apply H. eapply in_combine_fst. exact Hx.
Qed.

Lemma vcf_read_x_ext fixed0 c q r1 r2 :
  (forall v, In v (g_variants c) -> in_region_vcf r1 v = in_region_vcf r2 v) ->
  vcf_read_x fixed0 c (q_set_region q (Some r1)) = vcf_read_x fixed0 c (q_set_region q (Some r2)).
Proof.
  intros H. unfold vcf_read_x, vcf_read_q, vcf_iter_q, sel_samples.
  rewrite (vcf_records_ext c q r1 r2 H). reflexivity.
Qed.

Lemma vcf_iter_x_ext fixed0 c q r1 r2 :
  (forall v, In v (g_variants c) -> in_region_vcf r1 v = in_region_vcf r2 v) ->
  vcf_iter_x fixed0 c (q_set_region q (Some r1)) = vcf_iter_x fixed0 c (q_set_region q (Some r2)).
Proof.
  intros H. unfold vcf_iter_x, vcf_iter_q, sel_samples.
  rewrite (vcf_records_ext c q r1 r2 H). reflexivity.
Qed.

(* ---- the reads through a printed region = the reads with the region -------------------------- *)

Definition chroms_nonneg (c : geno) : Prop := forall v, In v (g_variants c) -> 0 <= v_chrom v.

Definition hts_pre (r : sregion) : Prop :=
  match r with (_, Some a, Some b) => 1 <= a /\ 1 <= b | (_, Some a, None) => 1 <= a | _ => True end.

Lemma vcf_read_by_string fixed0 c q r :
  wf_sregion r -> hts_pre r -> unambiguous (chroms_of c) r -> chroms_nonneg c ->
  vcf_read_s fixed0 c q (print_region r) = vcf_read_x fixed0 c (q_set_region q (Some (enc_region r)))
  /\ vcf_iter_s fixed0 c q (print_region r) = vcf_iter_x fixed0 c (q_set_region q (Some (enc_region r))).
Proof.
  intros Hwf Hpre Hun Hnn. unfold vcf_read_s, vcf_iter_s.
  assert (H : forall v, In v (g_variants c) ->
              in_region_vcf (hts_region (chroms_of c) (print_region r)) v = in_region_vcf (enc_region r) v).
  { intros v Hv. apply region_string_vcf; try assumption.
    - unfold chroms_of. apply in_map. exact Hv.
    - apply Hnn. exact Hv. }
  split; [apply vcf_read_x_ext|apply vcf_iter_x_ext]; exact H.
Qed.

Lemma pgen_read_by_string pload fixed0 chunk c q r :
  wf_sregion r -> unambiguous (chroms_of c) r -> chroms_nonneg c ->
  pgen_read_s pload true fixed0 chunk c q (print_region r)
  = pgen_read_x pload fixed0 chunk c (q_set_region q (Some (enc_region r)))
  /\ pgen_iter_s pload true fixed0 c q (print_region r)
     = pgen_iter_x pload fixed0 c (q_set_region q (Some (enc_region r))).
Proof.
  intros Hwf Hun Hnn. unfold pgen_read_s, pgen_iter_s.
  rewrite (pgen_region_fixed_print (chroms_of c) r Hwf Hun).
  assert (H : forall v, In v (g_variants c) ->
              in_region_pgen (if known (chroms_of c) (fst (fst r)) then enc_region r else no_region) v
              = in_region_pgen (enc_region r) v).
  { intros v Hv. destruct r as [[cc a] b]. cbn [fst enc_region].
    destruct (known (chroms_of c) cc) eqn:K; [reflexivity|].
    rewrite (no_region_pgen v (Hnn v Hv)).
    rewrite (unknown_region_pgen (chroms_of c) cc a b v K); [reflexivity|].
    unfold chroms_of. apply in_map. exact Hv. }
  split; [apply pgen_read_x_ext|apply pgen_iter_x_ext]; exact H.
Qed.

Lemma pgen_read_by_string_legacy pload fixed0 chunk c q r :
  plain (fst (fst r)) -> wf_sregion r ->
  pgen_read_s pload false fixed0 chunk c q (print_region r)
  = pgen_read_x pload fixed0 chunk c (q_set_region q (Some (enc_region r)))
  /\ pgen_iter_s pload false fixed0 c q (print_region r)
     = pgen_iter_x pload fixed0 c (q_set_region q (Some (enc_region r))).
Proof.
  intros Hp Hwf. unfold pgen_read_s, pgen_iter_s.
  rewrite (pgen_region_legacy_print (chroms_of c) r Hp Hwf). split; reflexivity.
Qed.

(* ---- the tree as it is: contig names with '-' or ':' ----------------------------------------- *)

(* "HLA-DRB1", "chrUn_KI270-1", "chrUn_KI270", "6:7" *)
Definition s_hla : str := [72; 76; 65; 45; 68; 82; 66; 49].
Definition s_un : str := [99; 104; 114; 85; 110; 95; 75; 73; 50; 55; 48].
Definition s_un1 : str := s_un ++ [45; 49].
Definition s_67 : str := [54; 58; 55].

Lemma legacy_region_refuted :
  (* a contig with '-': ValueError from int('DRB1'), whatever the form *)
  pgen_region false [enc s_hla] (print_region (s_hla, None, None)) = Err E_Value
  /\ pgen_region false [enc s_hla] (print_region (s_hla, Some 5, Some 9)) = Err E_Value
  (* ... or the records of ANOTHER contig: 'chrUn_KI270-1' is read as chrUn_KI270 from 1 on *)
  /\ pgen_region false [enc s_un; enc s_un1] (print_region (s_un1, None, None)) = Ok (enc s_un, Some 1, None)
  (* ... or TypeError: 'chrUn_KI270-1:3-3' gives three numbers *)
  /\ pgen_region false [enc s_un; enc s_un1] (print_region (s_un1, Some 3, Some 3)) = Err E_Type
  (* a contig with ':' *)
  /\ pgen_region false [enc s_67] (print_region (s_67, None, None)) = Ok (enc [54], Some 7, None)
  (* the repaired parser and htslib return the printed region *)
  /\ pgen_region true [enc s_hla] (print_region (s_hla, Some 5, Some 9)) = Ok (enc s_hla, Some 5, Some 9)
  /\ pgen_region true [enc s_un; enc s_un1] (print_region (s_un1, None, None)) = Ok (enc s_un1, None, None)
  /\ pgen_region true [enc s_67] (print_region (s_67, None, None)) = Ok (enc s_67, None, None)
  /\ hts_region [enc s_un; enc s_un1] (print_region (s_un1, Some 3, Some 3)) = (enc s_un1, Some 3, Some 3)
  /\ hts_region [enc s_67] (print_region (s_67, None, None)) = (enc s_67, None, None).
Proof. vm_compute. repeat split. Qed.

(* the hypotheses are satisfiable *)
Lemma region_hypotheses_satisfiable :
  wf_sregion (s_un1, Some 3, Some 3) /\ hts_pre (s_un1, Some 3, Some 3)
  /\ unambiguous [enc s_un; enc s_un1] (s_un1, Some 3, Some 3)
  /\ unambiguous [enc s_67] (s_67, None, None) /\ bytes s_un1 /\ ~ plain s_un1.
Proof.
  split; [cbn; lia|]. split; [cbn; lia|]. split; [vm_compute; reflexivity|]. split; [vm_compute; reflexivity|].
  split; [repeat constructor; lia|]. vm_compute. discriminate.
Qed.
