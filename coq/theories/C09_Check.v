(* C09 - boolean checkers evaluated on what PhenoSimulator.run did (its public rng
   replaced by a scripted recorder, normalize_gts wrapped).  Every stage is
   compared with the exact rational computation on the previous stage's observed
   output; only comparisons that involve a square root or a float sum use the
   1e-9 tolerance, the case count and the float liabilities are bit-exact. *)
From HV Require Import Prelude Stats C15_Model C15_Check C09_Model.
From Coq Require Import PrimFloat Uint63 FloatOps SpecFloat.
Open Scope Z_scope.

Record rep := mkrep {
  rp_eps : list float;        (* the scripted noise vector this replicate received *)
  rp_loc : float; rp_scale : float; rp_size : Z;   (* arguments of rng.normal *)
  rp_pt : list float          (* returned vector (case/control: 1.0 / 0.0) *)
}.

Record obs := mkobs {
  o_d : option (list (list Z));       (* matrix handed to normalize_gts (None: not called) *)
  o_z : option (list (list float));   (* what normalize_gts returned *)
  o_g : list float;                   (* genetic component (a run with zero noise) *)
  o_reps : list rep;
  o_names : list name;                (* phens.names after the R runs *)
  o_samples_same : bool;              (* phens.samples and the samples read back = genotype samples, in order *)
  o_data : list (list float);         (* phens.data, one row per sample *)
  o_header : list name;               (* column names in the written file *)
  o_read : list (list float)          (* data read back from the written file *)
}.

Definition E_Usage : Z := 16.        (* click's UsageError / BadParameter: exit status 2 (core.ERR_KINDS["UsageError"]) *)

(* an e2e case driven through the `haptools simphenotype` command line *)
Record clic := mkcli {
  cl_opts : cli_opts float;            (* the options the user wrote *)
  cl_two_sources : bool;               (* both --sample and --samples-file were given: the command refuses (UsageError) *)
  cl_args : option (sim_args float)    (* what simulate_pt received from the command (None: it was not called) *)
}.

Record rcase := mkr {
  r_gids : list id;
  r_gt : list (list (Z * Z));         (* samples x variants: the two allele values *)
  r_eff : list (id * float);          (* requested effects (ID, beta) in order *)
  r_h2 : option float; r_env : option float; r_norm : bool; r_prev : option float;
                                      (* what the USER asked for (arguments of run / simulate_pt, or the command's options
                                         in their documented reading) - not what reached PhenoSimulator.run *)
  r_reps : option Z;                  (* e2e: the number of replications asked for (None: run is called by the harness) *)
  r_cli : option clic;                (* e2e through the command line *)
  r_refuse : option (Z * bool);       (* e2e only: the loader must refuse the genotypes with this error kind.  (k, false):
                                         a missing call among the loaded cells - outside the property's quantifier;
                                         (k, true): a repeat copy number that cannot be stored - r_gt holds the TRUE
                                         copy numbers, a refusal is accepted and an answer is still checked *)
  r_obs : res obs
}.

Definition oq (x : option float) : option Q := option_map f2q0 x.
Definition zq (x : Z) : Q := inject_Z x.
Definition fmat_same := list_eqb (list_eqb fsame).
Definition zmat_eqb := list_eqb (list_eqb Z.eqb).

Definition cols_of (c : rcase) : list nat := map fst (aligned (r_gids c) (r_eff c)).
Definition betas_of (c : rcase) : list Q := map (fun x => f2q0 (snd (snd x))) (aligned (r_gids c) (r_eff c)).
Definition ids_of (c : rcase) : list id := map (fun x => fst (snd x)) (aligned (r_gids c) (r_eff c)).
Definition dos_of (c : rcase) : list (list Z) := dosage (r_gt c) (cols_of c).
Definition nsamp (c : rcase) : nat := length (r_gt c).

(* Z_j: standardised dosage (zeros when constant) or the raw dosage *)
Definition zcol_ok (ds : list Z) (zs : list float) : bool :=
  let qd := map zq ds in
  match qd with
  | [] => true
  | d0 :: _ =>
      Nat.eqb (length ds) (length zs) && forallb ffinite zs &&
      if forallb (Qeq_bool d0) qd then forallb (fun z => Qeq_bool (f2q0 z) 0) zs
      else let v := qvar qd in
           forallb (fun '(d, z) => zcheck v d (f2q0 z)) (combine (qdev qd) zs)
  end.

(* the Z matrix the linear model must use, as exact rationals of what was observed *)
Definition z_used (c : rcase) (o : obs) : option (list (list Q)) :=
  if r_norm c then option_map (map (map f2q0)) (o_z o)
  else Some (map (map zq) (dos_of c)).

Definition z_spec_ok (c : rcase) (o : obs) : bool :=
  if r_norm c then
    match o_z o with
    | None => false
    | Some z =>
        let m := length (cols_of c) in
        Nat.eqb (length z) (nsamp c)
        && forallb (fun r => Nat.eqb (length r) m) z
        && forallb (fun '(ds, zs) => zcol_ok ds zs) (combine (transpose m (dos_of c)) (transpose m z))
    end
  else true.

Fixpoint absdot (b z : list Q) : Q :=
  match b, z with
  | x :: r, y :: s => Qred (Qabs (x * y) + absdot r s)
  | _, _ => 0%Q
  end.

(* g_i = sum_j beta_j Z_ij (float sum against the exact sum) *)
Definition genetic_ok (c : rcase) (o : obs) : bool :=
  match z_used c o with
  | None => false
  | Some z =>
      let b := betas_of c in
      Nat.eqb (length (o_g o)) (nsamp c) && Nat.eqb (length z) (nsamp c) && forallb ffinite (o_g o)
      && forallb (fun '(row, g) => qclose tol9 (absdot b row) (f2q0 g) (dot b row)) (combine z (o_g o))
  end.

Definition gvar (o : obs) : Q := qvar (map f2q0 (o_g o)).

(* scale^2 = documented noise variance (scale = sqrt(noise)) *)
Definition noise_ok (formula : list Q -> option Q -> option Q -> Q -> Q) (c : rcase) (o : obs) (r : rep) : bool :=
  let b := betas_of c in
  let h2 := oq (r_h2 c) in let env := oq (r_env c) in
  let v := gvar o in
  ffinite (rp_scale r)
  && Qle_bool 0 (f2q0 (rp_scale r))
  && qclose tol9 (noise_scale b h2 env v) (qsq (f2q0 (rp_scale r))) (formula b h2 env v).

Definition is_case (x : float) : bool := PrimFloat.eqb x 1%float.

(* rows = (is a case, (liability, slack)).  "every case's liability >= every control's" up
   to the slacks, in one pass: the smallest l + s among the cases bounds every control's
   l - s (equivalent to the pairwise comparison, C09_liability_check_sound; linear instead
   of quadratic in the number of samples) *)
Fixpoint min_case (rows : list (bool * (Q * Q))) : option Q :=
  match rows with
  | [] => None
  | (c, (l, s)) :: r =>
      let m := min_case r in
      if c then Some (match m with
                      | Some x => if Qle_bool x (l + s) then x else (l + s)%Q
                      | None => (l + s)%Q
                      end)
      else m
  end.
Definition liab_sep (rows : list (bool * (Q * Q))) : bool :=
  match min_case rows with
  | None => true
  | Some m => forallb (fun '(cj, (lj, sj)) => cj || Qle_bool (lj - sj) m) rows
  end.

(* the property quantifies over prevalence in [0,1) *)
Definition prev_in_domain (K : float) : bool :=
  ffinite K && Qle_bool 0 (f2q0 K) && negb (Qle_bool 1 (f2q0 K)).

(* the command line as the user reads the documentation: an option that is absent has its documented
   default (one replication, normalised genotypes; no heritability, no environment variance, quantitative) *)
Definition mkr_cli gids gt eff (cl : clic) refuse ob : rcase :=
  let o := cl_opts cl in
  mkr gids gt eff (co_h2 o) (co_env o) (user_norm o) (co_prev o) (Some (user_reps o)) (Some cl) refuse ob.

(* click refuses: --prevalence outside [0,1) (FloatRange), --sample together with --samples-file *)
Definition cli_rejects (cl : clic) : bool :=
  cl_two_sources cl || match co_prev (cl_opts cl) with Some K => negb (prev_in_domain K) | None => false end.

Definition ofsame := opt_eqb fsame.
Definition args_same (a b : sim_args float) : bool :=
  (sa_reps a =? sa_reps b) && ofsame (sa_env a) (sa_env b) && ofsame (sa_h2 a) (sa_h2 b) && ofsame (sa_prev a) (sa_prev b)
  && Bool.eqb (sa_norm a) (sa_norm b) && opt_eqb Z.eqb (sa_seed a) (sa_seed b) && opt_eqb Z.eqb (sa_chunk a) (sa_chunk b).

(* the model's prediction of what the command hands to simulate_pt *)
Definition cli_agree (c : rcase) : bool :=
  match r_cli c with
  | None => true
  | Some cl =>
      if cli_rejects cl then match cl_args cl with None => true | Some _ => false end
      else match cl_args cl with Some a => args_same a (cli_defaults (cl_opts cl)) | None => false end
  end.

(* R replications yield R columns: one recorded draw (and, by columns_ok, one column) per replication asked for *)
Definition reps_ok (c : rcase) (o : obs) : bool :=
  match r_reps c with Some R => Z.of_nat (length (o_reps o)) =? R | None => true end.

(* quantitative: pt = g + eps;  case/control: exactly floor(K n) cases, every case's
   liability >= every control's.  exact = true: float liabilities fl(g + eps) and
   bit-identical sums (the model's prediction); exact = false: the property with
   float slack *)
Definition pheno_ok (exact : bool) (c : rcase) (o : obs) (r : rep) : bool :=
  let n := nsamp c in
  Nat.eqb (length (rp_eps r)) n && Nat.eqb (length (rp_pt r)) n &&
  let ge := combine (o_g o) (rp_eps r) in
  match r_prev c with
  | None =>
      forallb (fun '((g, e), p) =>
                 if exact then fsame p (PrimFloat.add g e)
                 else qclose tol9 (Qabs (f2q0 g) + Qabs (f2q0 e)) (f2q0 p) (f2q0 g + f2q0 e))
              (combine ge (rp_pt r))
  | Some K =>
      match k_of K (Z.of_nat n) with
      | None => false
      | Some k =>
          let cc := map is_case (rp_pt r) in
          let liab := map (fun '(g, e) => if exact then f2q0 (PrimFloat.add g e) else (f2q0 g + f2q0 e)%Q) ge in
          let slack := map (fun '(g, e) => if exact then 0%Q else (tol9 * (Qabs (f2q0 g) + Qabs (f2q0 e)))%Q) ge in
          let rows := combine cc (combine liab slack) in
          forallb (fun p => PrimFloat.eqb p 1%float || PrimFloat.eqb p 0%float) (rp_pt r)
          && (match (if exact then cases_of k (Z.of_nat n) else Ok k) with
              | Ok m => count_true cc =? m
              | Err _ => false
              end)
          && liab_sep rows
      end
  end.

Definition cc_flag (c : rcase) : bool := match r_prev c with Some _ => true | None => false end.

(* R appended columns, written with distinct names, read back exactly *)
Definition columns_ok (exact : bool) (c : rcase) (o : obs) : bool :=
  let R := length (o_reps o) in
  o_samples_same o
  && Nat.eqb (length (o_names o)) R
  && Nat.eqb (length (o_header o)) R && nodupb (o_header o)
  && Nat.eqb (length (o_data o)) (nsamp c)
  && fmat_same (o_data o) (transpose (nsamp c) (map rp_pt (o_reps o)))
  && fmat_same (o_read o) (o_data o)
  && (negb exact
      || (names_eqb (o_names o) (repeat (column_name (ids_of c) (cc_flag c)) R)
          && names_eqb (o_header o) (unique_names (o_names o)))).

Definition rng_call_ok (c : rcase) (r : rep) : bool :=
  fsame (rp_loc r) 0%float && (rp_size r =? Z.of_nat (nsamp c)).

(* "eps is i.i.d. normal with mean 0 and variance exactly as documented", read structurally:
   the one draw of the replicate asked for mean 0 (as a value: 0, 0.0 and -0.0 all do) and
   one value per sample; the variance is noise_ok *)
Definition rng_call_holds (c : rcase) (r : rep) : bool :=
  ffinite (rp_loc r) && Qeq_bool (f2q0 (rp_loc r)) 0 && (rp_size r =? Z.of_nat (nsamp c)).

(* the exception run raises, if any: a genotype ID held twice (index() -> ValueError), a
   prevalence that is not a number (int(nan) -> ValueError; infinities are not generated) or
   so far outside [0,1) that argpartition's kth is out of bounds; for e2e the refusal of the
   loader comes first *)
Definition expected_error (c : rcase) : option Z :=
  if match r_cli c with Some cl => cli_rejects cl | None => false end then Some E_Usage else
  match r_refuse c with
  | Some (e, _) => Some e
  | None =>
      match run_error (r_gids c) with
      | Some e => Some e
      | None =>
          match r_prev c with
          | None => None
          | Some K =>
              match k_of K (Z.of_nat (nsamp c)) with
              | None => Some E_Value
              | Some k => match cases_of k (Z.of_nat (nsamp c)) with Err e => Some e | Ok _ => None end
              end
          end
      end
  end.

(* the property's quantifier: pairwise distinct genotype IDs, prevalence in [0,1), every call present *)
Definition in_domain (c : rcase) : bool :=
  match r_cli c with Some cl => negb (cli_rejects cl) | None => true end
  && match run_error (r_gids c) with Some _ => false | None => true end
  && match r_prev c with Some K => prev_in_domain K | None => true end
  && match r_refuse c with Some (_, false) => false | _ => true end.

(* the property, on the implementation's output *)
Definition holds_obs (c : rcase) (o : obs) : bool :=
  z_spec_ok c o && genetic_ok c o
  && forallb (fun r => rng_call_holds c r && noise_ok documented_noise c o r && pheno_ok false c o r) (o_reps o)
  && columns_ok false c o.

Definition holds_run (c : rcase) : bool :=
  if negb (in_domain c) then true else
  match r_refuse c, r_obs c with
  | Some (k, _), Err e => (e =? k) || (e =? E_Unobserved)   (* a loud refusal of genotypes that cannot be represented *)
  | None, Err e => e =? E_Unobserved
  | _, Ok o => holds_obs c o && reps_ok c o             (* an answer must be the documented one *)
  end.

(* the model's prediction *)
Definition agree_run (c : rcase) : bool :=
  cli_agree c &&
  match expected_error c, r_obs c with
  | Some k, Err e => k =? e
  | None, Ok o =>
      (if r_norm c then opt_eqb zmat_eqb (o_d o) (Some (dos_of c))
       else match o_d o, o_z o with None, None => true | _, _ => false end)
      && z_spec_ok c o && genetic_ok c o
      && forallb (fun r => rng_call_ok c r && noise_ok noise_var c o r && pheno_ok true c o r) (o_reps o)
      && columns_ok true c o && reps_ok c o
  | _, _ => false
  end.

Definition check_run (c : rcase) : bool * bool := (agree_run c, holds_run c).

(* printed in replay files: found IDs, dosage, k, and (given the observed genetic
   component) the documented noise variance; for a command-line case the arguments the
   command is modelled to pass *)
Definition model_run (c : rcase) :=
  (expected_error c, ids_of c, dos_of c,
   match r_prev c with Some K => k_of K (Z.of_nat (nsamp c)) | None => None end,
   match r_obs c with
   | Ok o => Some (Qred (documented_noise (betas_of c) (oq (r_h2 c)) (oq (r_env c)) (gvar o)))
   | Err _ => None end,
   option_map (fun cl => cli_defaults (cl_opts cl)) (r_cli c)).
