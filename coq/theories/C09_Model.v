(* C09 - executable model of haptools/sim_phenotype.py PhenoSimulator.run (after the
   fixes): alignment of the effects with the genotype columns actually found, dosage,
   genetic component and noise variance over exact rationals, the case/control
   threshold with the bit-exact floor(K*n), the column names of the replicates.
   Standardisation needs a square root, so the model exposes the exact
   (deviation, variance) pair (Stats.qdev / Stats.qvar) and the checker compares the
   implementation's z with it.  No proofs here. *)
From HV Require Import Prelude Stats C15_Model.
From Coq Require Import PrimFloat Uint63 FloatOps SpecFloat.
Open Scope Z_scope.

Definition id := list Z.             (* variant / haplotype / repeat ID as code points *)

(* ---------- Genotypes.subset(variants=ids) as used by run ------------------- *)

(* effects whose ID is among the genotype IDs, each with its column, in effect order
   (an ID given twice yields the column twice; an absent ID is dropped - and reported) *)
Definition aligned {B} (gids : list id) (eff : list (id * B)) : list (nat * (id * B)) :=
  flat_map (fun e => match index_of id name_eqb (fst e) gids 0 with
                     | Some k => [(k, e)]
                     | None => []
                     end) eff.

(* data[:, cols, :2].sum(axis=2) *)
Definition dosage (gt : list (list (Z * Z))) (cols : list nat) : list (list Z) :=
  map (fun row => map (fun k => let '(a, b) := nth k row (0, 0) in a + b) cols) gt.

(* index() raises ValueError when two genotype variants share an ID *)
Definition run_error (gids : list id) : option Z :=
  if has_dup id name_eqb gids then Some E_Value else None.

(* ---------- the linear model over Q ---------------------------------------- *)

Fixpoint dot (b z : list Q) : Q :=
  match b, z with
  | x :: r, y :: s => Qred (x * y + dot r s)
  | _, _ => 0%Q
  end.
Definition genetic (betas : list Q) (z : list (list Q)) : list Q := map (dot betas) z.

(* numpy broadcasting of the pinned code when fewer columns were found than effects
   were requested: (m,) * (n,1) multiplies the single found column by every beta *)
Definition legacy_genetic (betas : list Q) (z : list (list Q)) : res (list Q) :=
  match z with
  | [] => Ok []
  | r0 :: _ =>
      if Nat.eqb (length r0) (length betas) then Ok (genetic betas z)
      else if Nat.eqb (length r0) 1 then Ok (map (fun row => (qsum betas * nth 0 row 0)%Q) z)
      else if Nat.eqb (length betas) 1 then Ok (map (fun row => (nth 0 betas 0 * qsum row)%Q) z)
      else Err E_Value
  end.

(* the nested conditionals of run, verbatim; v = np.var(genetic component) *)
Definition noise_var (betas : list Q) (h2 env : option Q) (v : Q) : Q :=
  match h2, env with
  | None, None =>
      let h := qsum (map qsq betas) in
      let h := if Qle_bool h 1 then h else 1%Q in      (* if heritability > 1: heritability = 1 *)
      (1 - h)%Q
  | Some h, None =>
      let noise := if Qeq_bool v 0 then 1%Q else v in  (* noise = np.var(pt); if noise == 0: noise = 1 *)
      (noise * (/ h - 1))%Q
  | None, Some e => (e * (/ (1 # 2) - 1))%Q            (* elif heritability is None: heritability = 0.5 *)
  | Some h, Some e => (e * (/ h - 1))%Q
  end.

(* the documented formula *)
Definition documented_noise (betas : list Q) (h2 env : option Q) (v : Q) : Q :=
  match h2, env with
  | None, None => Qmax 0 (1 - qsum (map qsq betas))
  | _, _ =>
      let v' := match env with Some e => e | None => if Qeq_bool v 0 then 1%Q else v end in
      let h := match h2 with Some h => h | None => (1 # 2)%Q end in
      (v' * (1 / h - 1))%Q
  end.

(* magnitude of the operands of the formula (for the tolerance of the comparison) *)
Definition noise_scale (betas : list Q) (h2 env : option Q) (v : Q) : Q :=
  match h2, env with
  | None, None => (1 + qsum (map qsq betas))%Q
  | _, _ =>
      let v' := match env with Some e => e | None => if Qeq_bool v 0 then 1%Q else v end in
      let h := match h2 with Some h => h | None => (1 # 2)%Q end in
      (Qabs v' * (Qabs (1 / h) + 1))%Q
  end.

(* ---------- case / control -------------------------------------------------- *)

(* k = int(prevalence * len(pt)): IEEE product, truncated *)
Definition k_of (K : float) (n : Z) : option Z := ftrunc (PrimFloat.mul K (f_of_Z n)).

Definition seqZ (n : nat) : list Z := map Z.of_nat (seq 0 n).
(* bool_pt[max_indices] = True *)
Definition mark (n : nat) (sel : list Z) : list bool := map (fun i => existsb (Z.eqb i) sel) (seqZ n).
(* sel = np.argpartition(-pt, k)[:k]: any k indices forming a top-k set (contract) *)
Definition threshold (n : nat) (k : Z) (sel : list Z) : list bool :=
  if k =? Z.of_nat n then repeat true n else mark n sel.

Fixpoint count_true (l : list bool) : Z :=
  match l with [] => 0 | b :: r => (if b then 1 else 0) + count_true r end.

(* what run does with ANY integer k = int(prevalence * n) (prevalence outside [0,1) included):
   k = n: everybody; k > n or k < -n: argpartition raises ValueError (kth out of bounds);
   -n <= k < 0: numpy counts kth and the slice [:k] from the end, i.e. the top n+k
   liabilities are marked; otherwise the top k.  Ok m = "m samples are marked". *)
Definition cases_of (k n : Z) : res Z :=
  if k =? n then Ok n
  else if (n <? k) || (k <? - n) then Err E_Value
  else if k <? 0 then Ok (n + k) else Ok k.

(* ---------- the phenotype over Q -------------------------------------------- *)

(* pt += pt_noise *)
Fixpoint addv (a b : list Q) : list Q :=
  match a, b with
  | x :: r, y :: s => Qred (x + y) :: addv r s
  | _, _ => []
  end.
(* liability_i = sum_j beta_j Z_ij + eps_i; z is the matrix the betas multiply: the
   standardised dosages (an input: there is no square root over Q) or the raw dosages *)
Definition liability_q (betas : list Q) (z : list (list Q)) (eps : list Q) : list Q :=
  addv (genetic betas z) eps.
Definition bool_q (b : bool) : Q := if b then 1%Q else 0%Q.
(* kk = None: quantitative trait; Some k: case/control with k = int(prevalence * n) and
   sel = what argpartition returned *)
Definition phenotype_q (betas : list Q) (z : list (list Q)) (eps : list Q) (kk : option Z) (sel : list Z) : list Q :=
  let l := liability_q betas z eps in
  match kk with
  | None => l
  | Some k => map bool_q (threshold (length l) k sel)
  end.

(* one call of run, composed: found effects, dosage, (given) standardised matrix, genetic
   component, noise variance handed to rng.normal (as its square root), phenotype *)
Record run_out := mkout { ro_ids : list id; ro_dosage : list (list Z); ro_noise : Q; ro_pt : list Q }.
Definition run_q (gids : list id) (gt : list (list (Z * Z))) (eff : list (id * Q))
    (zstd : option (list (list Q))) (h2 env : option Q) (kk : option Z) (eps : list Q) (sel : list Z) : res run_out :=
  match run_error gids with
  | Some e => Err e
  | None =>
      let al := aligned gids eff in
      let betas := map (fun x => snd (snd x)) al in
      let d := dosage gt (map fst al) in
      let z := match zstd with Some z => z | None => map (map inject_Z) d end in
      let g := genetic betas z in
      match match kk with Some k => cases_of k (lenZ gt) | None => Ok 0 end with
      | Err e => Err e
      | Ok _ =>
          Ok (mkout (map (fun x => fst (snd x)) al) d (noise_var betas h2 env (qvar g))
                    (phenotype_q betas z eps kk sel))
      end
  end.

(* ---------- names of the replicate columns ---------------------------------- *)

Fixpoint join (ids : list id) : list Z :=
  match ids with
  | [] => []
  | a :: r => match r with [] => a | _ => a ++ dash :: join r end
  end.
Definition cc_suffix : list Z := [45; 99; 99].      (* "-cc" *)
Definition column_name (ids : list id) (cc : bool) : name :=
  join ids ++ (if cc then cc_suffix else []).

(* Phenotypes.append as used by run, R times: state = (data is None, table) *)
Definition rstate (fl : Type) : Type := (bool * tab fl name)%type.
Definition run_append {fl} (nm : name) (st : res (rstate fl)) (col : list fl) : res (rstate fl) :=
  bind st (fun '(unset, t) => bind (append fl name unset nm col t) (fun t' => Ok (false, t'))).
Definition replicate_columns {fl} (samples : list name) (nm : name) (cols : list (list fl)) : res (rstate fl) :=
  fold_left (run_append nm) cols (Ok (true, mktab samples [] [])).

(* ---------- the `haptools simphenotype` command: options -> arguments of simulate_pt ---------- *)

(* what the user wrote on the command line (None = the option is absent).  F = the number type *)
Record cli_opts (F : Type) := mkopts {
  co_reps : option Z;       (* -r / --replications *)
  co_env : option F;        (* --environment *)
  co_h2 : option F;         (* -h / --heritability *)
  co_prev : option F;       (* -p / --prevalence *)
  co_norm : option bool;    (* Some true: --normalize; Some false: --no-normalize; None: neither flag *)
  co_seed : option Z;       (* --seed *)
  co_chunk : option Z       (* -c / --chunk-size *)
}.
Arguments mkopts {F}. Arguments co_reps {F}. Arguments co_env {F}. Arguments co_h2 {F}. Arguments co_prev {F}.
Arguments co_norm {F}. Arguments co_seed {F}. Arguments co_chunk {F}.

(* the arguments simulate_pt receives (num_replications, environment, heritability, prevalence,
   normalize, seed, chunk_size) *)
Record sim_args (F : Type) := mkargs {
  sa_reps : Z; sa_env : option F; sa_h2 : option F; sa_prev : option F; sa_norm : bool;
  sa_seed : option Z; sa_chunk : option Z
}.
Arguments mkargs {F}. Arguments sa_reps {F}. Arguments sa_env {F}. Arguments sa_h2 {F}. Arguments sa_prev {F}.
Arguments sa_norm {F}. Arguments sa_seed {F}. Arguments sa_chunk {F}.

(* the documented reading of an absent option: one replication, normalised genotypes *)
Definition user_reps {F} (o : cli_opts F) : Z := match co_reps o with Some r => r | None => 1 end.
Definition user_norm {F} (o : cli_opts F) : bool := match co_norm o with Some b => b | None => true end.

(* the click command: declared defaults (replications 1, normalize True, everything else None);
   an absent --heritability / --environment STAYS None - the 0.5 of the help text is applied by
   PhenoSimulator.run, and only when an environment variance is given *)
Definition cli_defaults {F} (o : cli_opts F) : sim_args F :=
  mkargs (user_reps o) (co_env o) (co_h2 o) (co_prev o) (user_norm o) (co_seed o) (co_chunk o).

(* a command that fills in "the default shown in the option's help" when --no-normalize comes
   with neither --heritability nor --environment (for the _refuted example) *)
Definition cli_defaults_h2_filled {F} (half : F) (o : cli_opts F) : sim_args F :=
  let a := cli_defaults o in
  match co_h2 o, co_env o, user_norm o with
  | None, None, false => mkargs (sa_reps a) (sa_env a) (Some half) (sa_prev a) (sa_norm a) (sa_seed a) (sa_chunk a)
  | _, _, _ => a
  end.
