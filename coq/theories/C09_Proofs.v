(* C09 - proofs about the model of C09_Model and soundness of the checkers. *)
From HV Require Import Prelude Stats C15_Model C15_Check C15_Proofs C09_Model C09_Check.
Open Scope Z_scope.

(* ---------- effects aligned with the genotype columns ----------------------- *)

(* the effects kept are exactly those whose ID occurs among the genotype IDs, in the
   order given; each is paired with the (first) column holding its own ID *)
Lemma aligned_spec {B} : forall (gids : list id) (eff : list (id * B)),
  map snd (aligned gids eff) = filter (fun e => present id name_eqb gids (fst e)) eff
  /\ forall k e, In (k, e) (aligned gids eff) ->
       In e eff /\ nth_error gids k = Some (fst e)
       /\ forall j, (j < k)%nat -> nth_error gids j <> Some (fst e).
Proof.
  intros gids eff. split.
  - induction eff as [|e r IH]; [reflexivity|].
    unfold aligned in *. cbn [flat_map filter]. unfold present at 1.
    destruct (index_of id name_eqb (fst e) gids 0) as [k|]; cbn; rewrite IH; reflexivity.
  - intros k e Hin. unfold aligned in Hin. apply in_flat_map in Hin.
    destruct Hin as [e0 [He0 Hk]].
    destruct (index_of id name_eqb (fst e0) gids 0) as [k0|] eqn:E; [|contradiction].
    destruct Hk as [Hk|[]]. inversion Hk; subst.
    apply (index_of_spec id name_eqb name_eqb_spec) in E. destruct E as [_ [H2 H3]].
    rewrite Nat.sub_0_r in *. split; [exact He0|]. split; [exact H2|exact H3].
Qed.

(* ---------- noise variance ------------------------------------------------- *)

Lemma noise_var_documented_lemma : forall betas h2 env v,
  (noise_var betas h2 env v == documented_noise betas h2 env v)%Q.
Proof.
  intros betas [h|] [e|] v; unfold noise_var, documented_noise.
  - unfold Qdiv. rewrite Qmult_1_l. reflexivity.
  - unfold Qdiv. rewrite Qmult_1_l. reflexivity.
  - unfold Qdiv. rewrite Qmult_1_l. reflexivity.
  - cbv zeta. set (s := qsum (map qsq betas)).
    destruct (Qle_bool s 1) eqn:E.
    + apply Qle_bool_iff in E. symmetry. apply Q.max_r.
      unfold Qminus. rewrite <- (Qplus_opp_r s). apply Qplus_le_compat; [exact E|apply Qle_refl].
    + assert (Hlt : (1 < s)%Q).
      { apply Qnot_le_lt. intro H. apply Qle_bool_iff in H. congruence. }
      setoid_replace (1 - 1)%Q with 0%Q by ring. symmetry. apply Q.max_l.
      unfold Qminus. rewrite <- (Qplus_opp_r s). apply Qplus_le_compat; [apply Qlt_le_weak; exact Hlt|apply Qle_refl].
Qed.

Definition opt_in_dom (P : Q -> Prop) (x : option Q) : Prop := match x with Some q => P q | None => True end.

(* on the CLI's domain the variance handed to sqrt is non-negative *)
Lemma noise_nonneg_lemma : forall betas h2 env v,
  opt_in_dom (fun h => 0 < h /\ h <= 1)%Q h2 -> opt_in_dom (fun e => 0 <= e)%Q env -> (0 <= v)%Q ->
  (0 <= documented_noise betas h2 env v)%Q.
Proof.
  intros betas h2 env v Hh He Hv.
  assert (Hfac : forall h, (0 < h /\ h <= 1)%Q -> (0 <= 1 / h - 1)%Q).
  { intros h [H0 H1]. unfold Qminus. rewrite <- (Qplus_opp_r 1).
    apply Qplus_le_compat; [|apply Qle_refl].
    apply Qle_shift_div_l; [exact H0|]. rewrite Qmult_1_l. exact H1. }
  assert (Hv' : (0 <= (if Qeq_bool v 0 then 1 else v))%Q).
  { destruct (Qeq_bool v 0); [discriminate|exact Hv]. }
  assert (Hhalf : (0 <= 1 / (1 # 2) - 1)%Q) by discriminate.
  destruct h2 as [h|], env as [e|]; unfold documented_noise; cbn in Hh, He.
  - apply Qmult_le_0_compat; [exact He|apply Hfac; exact Hh].
  - apply Qmult_le_0_compat; [exact Hv'|apply Hfac; exact Hh].
  - apply Qmult_le_0_compat; [exact He|exact Hhalf].
  - apply Q.le_max_l.
Qed.

(* ---------- threshold ------------------------------------------------------ *)

Lemma count_true_app a b : count_true (a ++ b) = count_true a + count_true b.
Proof. induction a as [|x r IH]; cbn; [reflexivity|]. rewrite IH. lia. Qed.

Lemma seqZ_S n : seqZ (S n) = seqZ n ++ [Z.of_nat n].
Proof. unfold seqZ. rewrite seq_S, map_app. reflexivity. Qed.

Lemma count_eq_one : forall n a,
  count_true (map (fun i => i =? a) (seqZ n)) = if (0 <=? a) && (a <? Z.of_nat n) then 1 else 0.
Proof.
  induction n as [|n IH]; intro a.
  - cbn. destruct (0 <=? a) eqn:E1; cbn; [|reflexivity].
    destruct (a <? 0) eqn:E2; [|reflexivity]. apply Z.leb_le in E1. apply Z.ltb_lt in E2. lia.
  - rewrite seqZ_S, map_app, count_true_app, IH. cbn [map count_true]. rewrite Nat2Z.inj_succ.
    destruct (0 <=? a) eqn:E1; cbn [andb].
    + apply Z.leb_le in E1.
      destruct (Z.ltb_spec a (Z.of_nat n)), (Z.ltb_spec a (Z.succ (Z.of_nat n))), (Z.eqb_spec (Z.of_nat n) a);
        cbv iota; lia.
    + apply Z.leb_gt in E1. destruct (Z.eqb_spec (Z.of_nat n) a); [lia|reflexivity].
Qed.

Lemma count_or_disjoint (f g : Z -> bool) : forall l,
  (forall i, In i l -> f i = true -> g i = false) ->
  count_true (map (fun i => f i || g i) l) = count_true (map f l) + count_true (map g l).
Proof.
  induction l as [|x r IH]; intro H; [reflexivity|].
  cbn [map count_true]. rewrite IH by (intros; apply H; [right|]; assumption).
  destruct (f x) eqn:Ef.
  - rewrite (H x (or_introl eq_refl) Ef). cbn [orb]. cbv iota. lia.
  - destruct (g x); cbn [orb]; cbv iota; lia.
Qed.

Lemma existsb_eqb_In i l : existsb (Z.eqb i) l = true <-> In i l.
Proof.
  rewrite existsb_exists. split.
  - intros [x [Hx He]]. apply Z.eqb_eq in He. subst. exact Hx.
  - intro H. exists i. split; [exact H|apply Z.eqb_refl].
Qed.

Lemma count_mark : forall n sel,
  NoDup sel -> (forall i, In i sel -> 0 <= i < Z.of_nat n) ->
  count_true (mark n sel) = lenZ sel.
Proof.
  intros n sel. unfold mark, lenZ. induction sel as [|a s IH]; intros Hnd Hr.
  - cbn [existsb length]. induction (seqZ n) as [|x r IHr]; cbn; [reflexivity|exact IHr].
  - inversion Hnd as [|? ? Hna Hnd']; subst.
    cbn [existsb].
    pose proof (count_or_disjoint (fun j => j =? a) (fun j => existsb (Z.eqb j) s) (seqZ n)) as Hc.
    cbv beta in Hc. rewrite Hc.
    + rewrite count_eq_one, IH; [|exact Hnd'|intros; apply Hr; right; assumption].
      destruct (Hr a (or_introl eq_refl)) as [H0 H1].
      apply Z.leb_le in H0. apply Z.ltb_lt in H1. rewrite H0, H1. cbn [andb length]. lia.
    + intros i _ Hi. apply Z.eqb_eq in Hi. subst.
      destruct (existsb (Z.eqb a) s) eqn:E; [|reflexivity]. apply existsb_eqb_In in E. contradiction.
Qed.

Lemma count_true_repeat n : count_true (repeat true n) = Z.of_nat n.
Proof. induction n as [|k IH]; [reflexivity|]. cbn [repeat count_true]. rewrite IH. lia. Qed.

Lemma mark_nth n sel i : (i < n)%nat ->
  nth i (mark n sel) false = existsb (Z.eqb (Z.of_nat i)) sel.
Proof.
  intro Hi. unfold mark, seqZ. rewrite map_map.
  rewrite (nth_indep _ false ((fun x => existsb (Z.eqb (Z.of_nat x)) sel) 0%nat))
    by (rewrite map_length, seq_length; exact Hi).
  rewrite (map_nth (fun x => existsb (Z.eqb (Z.of_nat x)) sel)). rewrite seq_nth by exact Hi. reflexivity.
Qed.

Section Threshold.
  Variable liab : nat -> Q.            (* liability of sample i *)
  Variable n : nat.
  Variable k : Z.
  Variable sel : list Z.
  (* numpy's contract for argpartition(-pt, k)[:k] (used when k < n): k distinct
     indices below n such that no index left out has a larger liability *)
  Hypothesis sel_nodup : NoDup sel.
  Hypothesis sel_range : forall i, In i sel -> 0 <= i < Z.of_nat n.
  Hypothesis sel_len : k <> Z.of_nat n -> lenZ sel = k.
  Hypothesis sel_top : forall i j, In (Z.of_nat i) sel -> ~ In (Z.of_nat j) sel -> (j < n)%nat ->
                                   (liab j <= liab i)%Q.

  Lemma threshold_spec_lemma :
    let cc := threshold n k sel in
    length cc = n
    /\ (0 <= k <= Z.of_nat n -> count_true cc = k)
    /\ (forall i j, (i < n)%nat -> (j < n)%nat ->
          nth i cc false = true -> nth j cc false = false -> (liab j <= liab i)%Q)
    /\ (k = Z.of_nat n -> cc = repeat true n)
    /\ (k = 0 -> (0 < n)%nat -> forall i, (i < n)%nat -> nth i cc false = false).
  Proof.
    cbv zeta. unfold threshold. destruct (k =? Z.of_nat n) eqn:E.
    - apply Z.eqb_eq in E. split; [apply repeat_length|]. split; [intros _; rewrite count_true_repeat; lia|].
      split.
      + intros i j Hi Hj _ Hc. rewrite nth_indep with (d' := true) in Hc by (rewrite repeat_length; exact Hj).
        rewrite nth_repeat in Hc. discriminate.
      + split; [reflexivity|]. intros H0 Hn. lia.
    - apply Z.eqb_neq in E. split; [unfold mark, seqZ; rewrite !map_length, seq_length; reflexivity|].
      split; [intros _; rewrite count_mark by assumption; apply sel_len; exact E|].
      split.
      + intros i j Hi Hj Hci Hcj. rewrite mark_nth in Hci, Hcj by assumption.
        apply existsb_eqb_In in Hci. apply sel_top; [exact Hci| |exact Hj].
        intro Hin. apply existsb_eqb_In in Hin. congruence.
      + split; [intro; contradiction|]. intros H0 Hn i Hi.
        rewrite mark_nth by exact Hi. specialize (sel_len E). rewrite H0 in sel_len.
        destruct sel; [reflexivity|]. unfold lenZ in sel_len. cbn in sel_len. lia.
  Qed.
End Threshold.

Lemma threshold_contract_inhabited_lemma :
  let liab := fun i : nat => inject_Z (Z.of_nat i) in
  NoDup [2] /\ (forall i, In i [2] -> 0 <= i < Z.of_nat 3) /\ lenZ [2] = 1
  /\ (forall i j, In (Z.of_nat i) [2] -> ~ In (Z.of_nat j) [2] -> (j < 3)%nat -> (liab j <= liab i)%Q)
  /\ threshold 3 1 [2] = [false; false; true].
Proof.
  cbv zeta. split; [constructor; [intros []|constructor]|].
  split; [intros i [<-|[]]; cbn; lia|]. split; [reflexivity|]. split; [|reflexivity].
  intros i j [Hi|[]] _ Hj. assert (i = 2%nat) by lia. subst.
  unfold Qle. cbn. lia.
Qed.

(* soundness of the liability check used in C09_Check.pheno_ok: no control's liability
   exceeds a case's by more than the two slacks *)
Lemma min_case_le : forall rows m, min_case rows = Some m ->
  forall li si, In (true, (li, si)) rows -> (m <= li + si)%Q.
Proof.
  induction rows as [|[c [l s]] r IH]; intros m Hm li si Hin; [destruct Hin|].
  cbn [min_case] in Hm. destruct Hin as [Hin|Hin].
  - inversion Hin; subst c l s. destruct (min_case r) as [x|].
    + destruct (Qle_bool x (li + si)) eqn:E; inversion Hm; subst m.
      * apply Qle_bool_iff. exact E.
      * apply Qle_refl.
    + inversion Hm; subst m. apply Qle_refl.
  - destruct c.
    + destruct (min_case r) as [x|] eqn:Er.
      * specialize (IH x eq_refl li si Hin).
        destruct (Qle_bool x (l + s)) eqn:E; inversion Hm; subst m; [exact IH|].
        apply Qle_trans with x; [|exact IH].
        apply Qlt_le_weak. apply Qnot_le_lt. intro H. apply Qle_bool_iff in H. congruence.
      * exfalso. clear - Er Hin. induction r as [|[c2 [l2 s2]] r2 IH2]; [destruct Hin|].
        cbn [min_case] in Er. destruct Hin as [Hin|Hin].
        -- inversion Hin; subst c2. destruct (min_case r2); discriminate.
        -- destruct c2; [destruct (min_case r2); discriminate|]. apply IH2; assumption.
    + apply (IH m Hm li si Hin).
Qed.

Lemma liab_check_sound : forall rows : list (bool * (Q * Q)),
  liab_sep rows = true ->
  forall ci li si cj lj sj, In (ci, (li, si)) rows -> In (cj, (lj, sj)) rows ->
  ci = true -> cj = false -> (lj <= li + si + sj)%Q.
Proof.
  intros rows H ci li si cj lj sj Hi Hj Hci Hcj. subst ci cj.
  unfold liab_sep in H. destruct (min_case rows) as [m|] eqn:Em.
  - pose proof (min_case_le rows m Em li si Hi) as H1.
    rewrite forallb_forall in H. specialize (H _ Hj). cbn in H. apply Qle_bool_iff in H.
    setoid_replace lj with ((lj - sj) + sj)%Q by ring.
    apply Qplus_le_compat; [|apply Qle_refl]. apply Qle_trans with m; assumption.
  - exfalso. clear - Em Hi. induction rows as [|[c [l s]] r IH]; [destruct Hi|].
    cbn [min_case] in Em. destruct Hi as [Hi|Hi].
    + inversion Hi; subst c. destruct (min_case r); discriminate.
    + destruct c; [destruct (min_case r); discriminate|]. apply IH; assumption.
Qed.

(* ... and it accepts exactly what the pairwise comparison accepts *)
Lemma liab_sep_complete : forall rows : list (bool * (Q * Q)),
  (forall li si lj sj, In (true, (li, si)) rows -> In (false, (lj, sj)) rows -> (lj <= li + si + sj)%Q) ->
  liab_sep rows = true.
Proof.
  intros rows H. unfold liab_sep. destruct (min_case rows) as [m|] eqn:Em; [|reflexivity].
  assert (Hw : exists li si, In (true, (li, si)) rows /\ (m == li + si)%Q).
  { clear H. revert m Em. induction rows as [|[c [l s]] r IH]; intros m Em; [discriminate|].
    cbn [min_case] in Em. destruct c.
    - destruct (min_case r) as [x|] eqn:Er.
      + destruct (Qle_bool x (l + s)) eqn:E; inversion Em; subst m.
        * destruct (IH x eq_refl) as [li [si [Hin Heq]]]. exists li, si. split; [right; exact Hin|exact Heq].
        * exists l, s. split; [left; reflexivity|reflexivity].
      + inversion Em; subst m. exists l, s. split; [left; reflexivity|reflexivity].
    - destruct (IH m Em) as [li [si [Hin Heq]]]. exists li, si. split; [right; exact Hin|exact Heq]. }
  destruct Hw as [li [si [Hin Heq]]].
  apply forallb_forall. intros [cj [lj sj]] Hj. destruct cj; [reflexivity|]. cbn [orb].
  apply Qle_bool_iff. rewrite Heq. specialize (H li si lj sj Hin Hj).
  setoid_replace (lj - sj)%Q with (lj + - sj)%Q by ring.
  setoid_replace (li + si)%Q with ((li + si + sj) + - sj)%Q by ring.
  apply Qplus_le_compat; [exact H|apply Qle_refl].
Qed.

(* ---------- replicate columns ---------------------------------------------- *)

Lemma replicate_gen {fl} (nm : name) (n : nat) : forall (cols : list (list fl)) u (t : tab fl name),
  (u = true \/ length (data t) = n) ->
  Forall (fun c => length c = n) cols ->
  exists u' t', fold_left (run_append nm) cols (Ok (u, t)) = Ok (u', t')
    /\ samples t' = samples t
    /\ names t' = names t ++ repeat nm (length cols)
    /\ (cols <> [] -> u' = false /\ length (data t') = n).
Proof.
  induction cols as [|c r IH]; intros u t Hu Hc.
  - exists u, t. cbn. rewrite app_nil_r. repeat split; try reflexivity; contradiction.
  - inversion Hc as [|? ? Hc1 Hc2]; subst. cbn [fold_left].
    assert (Hstep : exists t1, run_append nm (Ok (u, t)) c = Ok (false, t1)
              /\ samples t1 = samples t /\ names t1 = names t ++ [nm] /\ length (data t1) = length c).
    { unfold run_append. cbn [bind]. unfold append. destruct u.
      - eexists. split; [reflexivity|]. cbn [samples names data]. repeat split; try reflexivity.
        rewrite map_length. reflexivity.
      - destruct Hu as [Hu|Hu]; [discriminate|]. rewrite Hu, Nat.eqb_refl. cbn [bind].
        eexists. split; [reflexivity|]. cbn [samples names data]. repeat split; try reflexivity.
        rewrite map_length, combine_length, Hu. apply Nat.min_id. }
    destruct Hstep as [t1 [E1 [S1 [N1 L1]]]]. rewrite E1.
    destruct (IH false t1 (or_intror L1) Hc2) as [u' [t' [E' [S' [N' R']]]]].
    exists u', t'. split; [exact E'|]. split; [congruence|].
    split; [rewrite N', N1, <- app_assoc; reflexivity|].
    intros _. destruct r as [|c2 r2].
    + cbn [fold_left] in E'. inversion E'; subst u' t'. split; [reflexivity|exact L1].
    + apply R'. discriminate.
Qed.

(* R calls of run append R columns: same samples in input order, R names, and the
   names the writer emits are pairwise distinct *)
Lemma replications_columns_lemma {fl} : forall (smp : list name) (nm : name) (cols : list (list fl)),
  cols <> [] -> Forall (fun c => length c = length smp) cols ->
  exists t', replicate_columns smp nm cols = Ok (false, t')
    /\ samples t' = smp
    /\ names t' = repeat nm (length cols)
    /\ length (data t') = length smp
    /\ length (unique_names (names t')) = length cols
    /\ NoDup (unique_names (names t')).
Proof.
  intros smp nm cols Hne Hc. unfold replicate_columns.
  destruct (replicate_gen nm (length smp) cols true (mktab smp [] []) (or_introl eq_refl) Hc)
    as [u' [t' [E [S [N R]]]]].
  destruct (R Hne) as [Hu Hl]. subst u'. exists t'. split; [exact E|].
  cbn [samples names] in S, N. split; [exact S|]. split; [exact N|]. split; [exact Hl|].
  destruct (unique_names_nodup_lemma (names t')) as [Hnd [Hlen _]].
  split; [rewrite Hlen, N; apply repeat_length|exact Hnd].
Qed.

From Coq Require Import PrimFloat.
(* evaluated with the PrimFloat primitives (not axioms of this development, but Print Assumptions lists
   them, so this example is kept out of C09_Property.v) *)
(* floor(K*n) is the floor of the IEEE product: 0.35 * 100 = 35 cases, 0.29 * 100 = 28 *)
Example floor_is_ieee :
  k_of (0x1.6666666666666p-2)%float 100 = Some 35 /\ k_of (0x1.28f5c28f5c28fp-2)%float 100 = Some 28
  /\ k_of 0%float 7 = Some 0.
Proof. vm_compute. repeat split. Qed.

