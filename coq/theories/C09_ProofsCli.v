(* C09 - the `haptools simphenotype` command: how absent options become arguments of
   simulate_pt (C09_Model.cli_defaults), and why they must: the documented noise variance,
   computed from what the USER wrote, is what PhenoSimulator.run computes from the arguments
   the command passes - and a command that turns an absent --heritability into a number
   (the 0.5 of the help text) cannot have that property. *)
From HV Require Import Prelude Stats C15_Model C15_Check C15_Proofs C09_Model C09_Check C09_Proofs C09_ProofsModel.
From Coq Require Import Lqa.
Open Scope Z_scope.

(* the command passes every option through; an absent one gets its declared default *)
Theorem cli_defaults_spec : forall (F : Type) (o : cli_opts F),
  let a := cli_defaults o in
  sa_h2 a = co_h2 o /\ sa_env a = co_env o /\ sa_prev a = co_prev o
  /\ sa_seed a = co_seed o /\ sa_chunk a = co_chunk o
  /\ sa_reps a = match co_reps o with Some r => r | None => 1 end
  /\ sa_norm a = match co_norm o with Some false => false | _ => true end.
Proof.
  intros F o. cbv zeta. unfold cli_defaults, user_reps, user_norm. cbn.
  repeat split. destruct (co_norm o) as [[|]|]; reflexivity.
Qed.

(* the documented noise formula applied to the user's options = noise_var of the arguments
   the command passes (for every effect list and every variance of the genetic component) *)
Theorem cli_noise_documented : forall (o : cli_opts Q) betas v,
  (noise_var betas (sa_h2 (cli_defaults o)) (sa_env (cli_defaults o)) v
   == documented_noise betas (co_h2 o) (co_env o) v)%Q.
Proof. intros o betas v. cbn. apply noise_var_documented_lemma. Qed.

(* ... and only so.  Whatever a command hands to run in place of an absent --heritability and an
   absent --environment: if run then computes the documented variance for all betas and all
   variances v of the genetic component, it handed over None and None. *)
Lemma absent_stays_absent : forall h2' env' : option Q,
  (forall betas v, (0 <= v)%Q -> (noise_var betas h2' env' v == documented_noise betas None None v)%Q) ->
  h2' = None /\ env' = None.
Proof.
  intros h2' env' H.
  assert (D0 : (documented_noise [] None None 2 == 1)%Q) by (vm_compute; reflexivity).
  assert (D0' : (documented_noise [] None None 3 == 1)%Q) by (vm_compute; reflexivity).
  assert (D1 : (documented_noise [1%Q] None None 2 == 0)%Q) by (vm_compute; reflexivity).
  assert (P2 : (0 <= 2)%Q) by (vm_compute; discriminate).
  assert (P3 : (0 <= 3)%Q) by (vm_compute; discriminate).
  destruct h2' as [h|], env' as [e|].
  - exfalso. pose proof (H [] 2%Q P2) as A. pose proof (H [1%Q] 2%Q P2) as B.
    rewrite D0 in A. rewrite D1 in B. unfold noise_var in A, B. lra.
  - exfalso. pose proof (H [] 2%Q P2) as A. pose proof (H [] 3%Q P3) as B.
    rewrite D0 in A. rewrite D0' in B. unfold noise_var in A, B.
    change (Qeq_bool 2 0) with false in A. change (Qeq_bool 3 0) with false in B. cbv iota in A, B. lra.
  - exfalso. pose proof (H [] 2%Q P2) as A. pose proof (H [1%Q] 2%Q P2) as B.
    rewrite D0 in A. rewrite D1 in B. unfold noise_var in A, B. lra.
  - split; reflexivity.
Qed.

Theorem cli_absent_must_stay_absent : forall f : cli_opts Q -> sim_args Q,
  (forall o betas v, (0 <= v)%Q ->
     (noise_var betas (sa_h2 (f o)) (sa_env (f o)) v == documented_noise betas (co_h2 o) (co_env o) v)%Q) ->
  forall o, co_h2 o = None -> co_env o = None -> sa_h2 (f o) = None /\ sa_env (f o) = None.
Proof.
  intros f H o Hh He. apply absent_stays_absent. intros betas v Hv.
  rewrite (H o betas v Hv), Hh, He. reflexivity.
Qed.

(* the hypothesis is satisfiable: cli_defaults is such a command *)
Example cli_absent_must_stay_absent_inhabited :
  forall o betas v, (0 <= v)%Q ->
    (noise_var betas (sa_h2 (cli_defaults o)) (sa_env (cli_defaults o)) v
     == documented_noise betas (co_h2 o) (co_env o) v)%Q.
Proof. intros o betas v _. apply cli_noise_documented. Qed.

(* "absent heritability becomes 0.5 under --no-normalize": beta = 1/2 on a raw dosage column
   with variance 4.  Documented: max(0, 1 - 1/4) = 3/4; run, handed heritability 0.5, uses
   Var[sum beta Z] * (1/0.5 - 1) = 4 *)
Definition no_normalize_only : cli_opts Q := mkopts None None None None (Some false) None None.
Example cli_h2_filled_refuted :
  let a := cli_defaults_h2_filled (1 # 2)%Q no_normalize_only in
  sa_h2 a = Some (1 # 2)%Q
  /\ (documented_noise [(1 # 2)%Q] (co_h2 no_normalize_only) (co_env no_normalize_only) 4 == 3 # 4)%Q
  /\ (noise_var [(1 # 2)%Q] (sa_h2 a) (sa_env a) 4 == 4)%Q
  /\ ~ (noise_var [(1 # 2)%Q] (sa_h2 a) (sa_env a) 4
        == documented_noise [(1 # 2)%Q] (co_h2 no_normalize_only) (co_env no_normalize_only) 4)%Q.
Proof.
  cbv zeta. split; [reflexivity|]. split; [vm_compute; reflexivity|]. split; [vm_compute; reflexivity|].
  vm_compute. discriminate.
Qed.
(* with the flag absent (or --normalize) that command and cli_defaults coincide: only the
   --no-normalize default path tells them apart *)
Lemma cli_h2_filled_same_when_normalized : forall (F : Type) (half : F) (o : cli_opts F),
  user_norm o = true -> cli_defaults_h2_filled half o = cli_defaults o.
Proof.
  intros F half o Hn. unfold cli_defaults_h2_filled. rewrite Hn.
  destruct (co_h2 o), (co_env o); reflexivity.
Qed.

(* what evaluating holds on a command-line case means: the case is built from the options the
   user wrote (mkr_cli), so in the domain, on an answer, there are as many replicates as
   replications asked for (1 when -r is absent) and every replicate's draw has the variance
   documented for the USER's --heritability / --environment (absent = absent) *)
Theorem holds_cli_sound : forall gids gt eff cl refuse o,
  let c := mkr_cli gids gt eff cl refuse (Ok o) in
  in_domain c = true -> holds_run c = true ->
  cli_rejects cl = false
  /\ Z.of_nat (length (o_reps o)) = user_reps (cl_opts cl)
  /\ (user_norm (cl_opts cl) = true -> z_spec_ok c o = true /\ exists z, o_z o = Some z)
  /\ forall r, In r (o_reps o) ->
       (0 <= f2q0 (rp_scale r))%Q
       /\ (Qabs (qsq (f2q0 (rp_scale r))
                 - documented_noise (betas_of c) (oq (co_h2 (cl_opts cl))) (oq (co_env (cl_opts cl))) (gvar o))
           <= tol9 * noise_scale (betas_of c) (oq (co_h2 (cl_opts cl))) (oq (co_env (cl_opts cl))) (gvar o))%Q
       /\ pheno_ok false c o r = true.
Proof.
  intros gids gt eff cl refuse o c Hd H.
  assert (Ho : r_obs c = Ok o) by reflexivity.
  destruct (holds_run_sound c o Hd Ho H) as [Hz [_ [_ Hr]]].
  split.
  { unfold in_domain in Hd. change (r_cli c) with (Some cl) in Hd.
    repeat (apply andb_true_iff in Hd; destruct Hd as [Hd ?]).
    apply negb_true_iff. exact Hd. }
  split.
  { destruct (holds_reps_sound c o (user_reps (cl_opts cl)) Hd Ho H eq_refl) as [E _]. exact E. }
  split.
  { intro Hn. split; [exact Hz|]. unfold z_spec_ok in Hz. change (r_norm c) with (user_norm (cl_opts cl)) in Hz.
    rewrite Hn in Hz. destruct (o_z o) as [z|]; [exists z; reflexivity|discriminate]. }
  intros r Hin. destruct (Hr r Hin) as [_ [_ [S [N P]]]].
  split; [exact S|]. split; [exact N|exact P].
Qed.

(* agree on a command-line case the command accepts: simulate_pt was called, with cli_defaults of the options *)
Theorem cli_agree_sound : forall c cl, r_cli c = Some cl -> cli_rejects cl = false -> cli_agree c = true ->
  exists a, cl_args cl = Some a /\ args_same a (cli_defaults (cl_opts cl)) = true
    /\ sa_reps a = user_reps (cl_opts cl) /\ sa_norm a = user_norm (cl_opts cl)
    /\ (sa_h2 a = None <-> co_h2 (cl_opts cl) = None) /\ (sa_env a = None <-> co_env (cl_opts cl) = None).
Proof.
  intros c cl Hc Hr H. unfold cli_agree in H. rewrite Hc, Hr in H.
  destruct (cl_args cl) as [a|]; [|discriminate]. exists a. split; [reflexivity|]. split; [exact H|].
  unfold args_same in H. repeat (apply andb_true_iff in H; destruct H as [H ?]).
  apply Z.eqb_eq in H. cbn in *.
  split; [exact H|]. split; [apply Bool.eqb_prop; assumption|].
  unfold ofsame in *.
  split.
  - destruct (sa_h2 a), (co_h2 (cl_opts cl)); cbn in *; try discriminate; split; intro; try discriminate; reflexivity.
  - destruct (sa_env a), (co_env (cl_opts cl)); cbn in *; try discriminate; split; intro; try discriminate; reflexivity.
Qed.
