(* C09 - k_of K n = int(K * n) is the floor of the correctly rounded IEEE-754 binary64
   product, lies in [0, n], and composes with the threshold theorem to "exactly
   floor(K n) samples are cases".  Proved with Flocq (round, Bmult_correct,
   binary_normalize_correct) through its bridge to Coq's primitive floats, hence relative to
   the standard library's axiomatisation of PrimFloat / Uint63 against SpecFloat
   (FloatAxioms.mul_spec, of_uint63_spec, Prim2SF_valid ..., Uint63 specs) and the axioms of
   Reals; they are listed in harness/c09.py ALLOWED_AXIOMS.  These are the same facts that are
   trusted whenever k_of is evaluated by vm_compute on the implementation's inputs. *)
From Coq Require Import ZArith Reals QArith Qreals Lia Lra Floats.
From Flocq Require Import Core IEEE754.BinarySingleNaN Relative.
From Flocq Require IEEE754.PrimFloat.
From HV Require Import Prelude Stats C15_Model C15_Check C09_Model C09_Check C09_Proofs C09_ProofsModel.
Module FP := Flocq.IEEE754.PrimFloat.
Open Scope Z_scope.
Notation pfloat := Coq.Floats.PrimFloat.float.

(* round to nearest, ties to even, in binary64 (no overflow below 2^1024) *)
Definition rnd64 (x : R) : R := round radix2 (FLT_exp (-1074) 53) ZnearestE x.

Definition fval (x : pfloat) : R := B2R (FP.Prim2B x).
Definition ffin (x : pfloat) : bool := is_finite (FP.Prim2B x).

Local Instance p53 : Prec_gt_0 53 := eq_refl.

Lemma fexp64 : fexp prec emax = FLT_exp (-1074) 53.
Proof. reflexivity. Qed.

Lemma int_format n : Z.abs n < 2 ^ 53 -> generic_format radix2 (FLT_exp (-1074) 53) (IZR n).
Proof.
  intro H. apply generic_format_FLT. apply (FLT_spec _ _ _ _ (Float radix2 n 0)).
  - unfold F2R. cbn. lra.
  - exact H.
  - cbn. lia.
Qed.

Lemma rnd64_le x y : (x <= y)%R -> (rnd64 x <= rnd64 y)%R.
Proof. unfold rnd64. apply round_le; [apply FLT_exp_valid; exact p53|apply valid_rnd_N]. Qed.

Lemma rnd64_int n : Z.abs n < 2 ^ 53 -> rnd64 (IZR n) = IZR n.
Proof. intro H. apply round_generic; [apply valid_rnd_N|apply int_format; exact H]. Qed.

Lemma bpow_emax_big n : Z.abs n < 2 ^ 53 -> (Rabs (IZR n) < bpow radix2 emax)%R.
Proof.
  intro H. rewrite <- abs_IZR. apply Rlt_le_trans with (IZR (2 ^ 53)); [apply IZR_lt; exact H|].
  change (2 ^ 53) with (Zpower radix2 53). rewrite IZR_Zpower by lia. apply bpow_le. unfold emax. lia.
Qed.

(* float(n) is exact below 2^53 *)
Lemma f_of_Z_spec n : 0 <= n < 2 ^ 53 ->
  B2R (FP.Prim2B (f_of_Z n)) = IZR n /\ is_finite (FP.Prim2B (f_of_Z n)) = true.
Proof.
  intro Hn. unfold f_of_Z. rewrite FP.of_int63_equiv, Uint63.of_Z_spec.
  rewrite Z.mod_small by (change Uint63.wB with (2 ^ 63); lia).
  pose proof (binary_normalize_correct prec emax FP.Hprec FP.Hmax mode_NE n 0 false) as H.
  cbv zeta in H. rewrite fexp64 in H.
  assert (E : F2R (Float radix2 n 0) = IZR n) by (unfold F2R; cbn; lra).
  rewrite E in H. change (round radix2 (FLT_exp (-1074) 53) (round_mode mode_NE)) with rnd64 in H.
  rewrite rnd64_int in H by lia.
  rewrite Rlt_bool_true in H by (apply bpow_emax_big; lia).
  destruct H as [H1 [H2 _]]. split; assumption.
Qed.

Lemma sf_trunc_B2SF (b : binary_float prec emax) :
  is_finite b = true -> (0 <= B2R b)%R -> sf_trunc (B2SF b) = Some (Zfloor (B2R b)).
Proof.
  destruct b as [s|s| |s m e He]; cbn [is_finite B2SF sf_trunc B2R]; try discriminate; intros _ H0.
  - rewrite (Zfloor_IZR 0). reflexivity.
  - destruct s.
    + exfalso. cbn [cond_Zopp] in H0.
      pose proof (F2R_lt_0 radix2 (Float radix2 (Z.neg m) e)) as Hn. cbn [Fnum] in Hn. specialize (Hn eq_refl).
      change (- Z.pos m) with (Z.neg m) in H0. lra.
    + cbn [cond_Zopp]. f_equal. destruct (Z.leb_spec 0 e) as [E|E].
      * unfold F2R. cbn [Fnum Fexp]. rewrite <- IZR_Zpower by exact E. rewrite <- mult_IZR, Zfloor_IZR. reflexivity.
      * unfold F2R. cbn [Fnum Fexp].
        replace (bpow radix2 e) with (/ IZR (2 ^ (- e)))%R.
        -- change (IZR (Z.pos m) * / IZR (2 ^ - e))%R with (IZR (Z.pos m) / IZR (2 ^ - e))%R.
           rewrite Zfloor_div; [reflexivity|]. apply Z.pow_nonzero; lia.
        -- change (2 ^ - e) with (Zpower radix2 (- e)). rewrite IZR_Zpower by lia. rewrite <- bpow_opp. f_equal. lia.
Qed.

(* the harness's exact rational value of a float is its real value *)
Lemma sf2q_B2SF (b : binary_float prec emax) :
  match sf2q (B2SF b) with
  | Some q => is_finite b = true /\ Q2R q = B2R b
  | None => is_finite b = false
  end.
Proof.
  destruct b as [s|s| |s m e He]; cbn [is_finite B2SF sf2q B2R]; try reflexivity.
  - split; [reflexivity|]. unfold Q2R. cbn. lra.
  - split; [reflexivity|]. unfold F2R. cbn [Fnum Fexp].
    assert (En : (if s then Z.neg m else Z.pos m) = cond_Zopp s (Z.pos m)) by (destruct s; reflexivity).
    rewrite En. set (nn := cond_Zopp s (Z.pos m)).
    destruct (Z.leb_spec 0 e) as [E|E]; unfold Q2R; cbn [Qnum Qden].
    + rewrite mult_IZR. change (2 ^ e) with (Zpower radix2 e). rewrite IZR_Zpower by exact E. rewrite Rinv_1. lra.
    + rewrite Z2Pos.id by (apply Z.pow_pos_nonneg; lia).
      change (2 ^ - e) with (Zpower radix2 (- e)). rewrite IZR_Zpower by lia. rewrite <- bpow_opp.
      replace (- - e) with e by lia. reflexivity.
Qed.

Lemma ffinite_fval (x : pfloat) : ffinite x = ffin x /\ (ffinite x = true -> Q2R (f2q0 x) = fval x).
Proof.
  unfold ffinite, f2q0, f2q, ffin, fval. rewrite <- FP.B2SF_Prim2B.
  pose proof (sf2q_B2SF (FP.Prim2B x)) as H. destruct (sf2q (B2SF (FP.Prim2B x))) as [q|].
  - destruct H as [H1 H2]. split; [symmetry; exact H1|intros _; exact H2].
  - split; [symmetry; exact H|discriminate].
Qed.

(* ---------- k_of ----------------------------------------------------------------- *)

Theorem k_of_floor_R : forall (K : pfloat) (n : Z),
  ffin K = true -> (0 <= fval K < 1)%R -> 0 <= n < 2 ^ 53 ->
  let p := rnd64 (fval K * IZR n) in
  k_of K n = Some (Zfloor p) /\ 0 <= Zfloor p <= n /\ (0 <= p <= IZR n)%R.
Proof.
  intros K n HK [K0 K1] Hn p.
  destruct (f_of_Z_spec n Hn) as [Yv Yf].
  assert (Hp : (0 <= p <= IZR n)%R).
  { assert (Hn0 : (0 <= IZR n)%R) by (apply IZR_le; lia).
    split.
    - unfold p. rewrite <- (rnd64_int 0) by (cbn; lia). apply rnd64_le. apply Rmult_le_pos; assumption.
    - unfold p. rewrite <- (rnd64_int n) at 2 by lia. apply rnd64_le. nra. }
  assert (Hk : k_of K n = Some (Zfloor p)).
  { unfold k_of, ftrunc. rewrite <- FP.B2SF_Prim2B, FP.mul_equiv.
    pose proof (Bmult_correct prec emax FP.Hprec FP.Hmax mode_NE (FP.Prim2B K) (FP.Prim2B (f_of_Z n))) as H.
    rewrite fexp64, Yv in H.
    change (round radix2 (FLT_exp (-1074) 53) (round_mode mode_NE)) with rnd64 in H. fold (fval K) in H. fold p in H.
    rewrite Rlt_bool_true in H.
    - destruct H as [H1 [H2 _]]. rewrite Yf in H2. fold (ffin K) in H2. rewrite HK in H2.
      rewrite sf_trunc_B2SF; [rewrite H1; reflexivity|exact H2|rewrite H1; apply Hp].
    - rewrite Rabs_pos_eq by apply Hp. apply Rle_lt_trans with (IZR n); [apply Hp|].
      rewrite <- (Rabs_pos_eq (IZR n)) by (apply IZR_le; lia). apply bpow_emax_big. lia. }
  split; [exact Hk|]. split; [|exact Hp].
  split.
  - apply Zfloor_lub. apply Hp.
  - apply le_IZR. apply Rle_trans with p; [apply Zfloor_lb|apply Hp].
Qed.

(* the same in the harness's terms (ffinite / f2q0: the exact rational of the double), with
   the distance of the rounded product from the exact one *)
Theorem k_of_floor : forall (K : pfloat) (n : Z),
  ffinite K = true -> (0 <= f2q0 K)%Q -> (f2q0 K < 1)%Q -> 0 <= n < 2 ^ 53 ->
  let x := (Q2R (f2q0 K) * IZR n)%R in       (* the exact product K n *)
  let p := rnd64 x in                         (* what the double multiplication returns *)
  k_of K n = Some (Zfloor p)
  /\ 0 <= Zfloor p <= n
  /\ (0 <= p <= IZR n)%R
  /\ (Rabs (p - x) <= bpow radix2 (-53) * x + bpow radix2 (-1075))%R.
Proof.
  intros K n HK K0 K1 Hn x p.
  destruct (ffinite_fval K) as [F1 F2]. specialize (F2 HK). rewrite HK in F1.
  assert (R0 : (0 <= fval K < 1)%R).
  { rewrite <- F2. split.
    - replace 0%R with (Q2R 0) by (unfold Q2R; cbn; lra). apply Qle_Rle. exact K0.
    - replace 1%R with (Q2R 1) by (unfold Q2R; cbn; lra). apply Qlt_Rlt. exact K1. }
  destruct (k_of_floor_R K n (eq_sym F1) R0 Hn) as [H1 [H2 H3]].
  unfold p, x. rewrite F2. split; [exact H1|]. split; [exact H2|]. split; [exact H3|].
  set (y := (fval K * IZR n)%R).
  assert (Hy : (0 <= y)%R) by (apply Rmult_le_pos; [apply R0|apply IZR_le; lia]).
  destruct (error_N_FLT radix2 (-1074) 53 eq_refl (fun t => negb (Z.even t)) y) as [eps [eta [He [Ht [_ Hr]]]]].
  unfold rnd64. change ZnearestE with (Znearest (fun t => negb (Z.even t))). rewrite Hr.
  replace (y * (1 + eps) + eta - y)%R with (y * eps + eta)%R by ring.
  apply Rle_trans with (Rabs (y * eps) + Rabs eta)%R; [apply Rabs_triang|].
  apply Rplus_le_compat.
  - rewrite Rabs_mult, (Rabs_pos_eq y Hy), Rmult_comm. apply Rmult_le_compat_r; [exact Hy|].
    replace (bpow radix2 (-53)) with (/ 2 * bpow radix2 (-53 + 1))%R; [exact He|].
    change (/ 2)%R with (/ IZR radix2)%R. rewrite <- (bpow_opp radix2 1%Z) at 1. change (- (1))%Z with (-1)%Z.
    rewrite <- bpow_plus. f_equal.
  - replace (bpow radix2 (-1075)) with (/ 2 * bpow radix2 (-1074))%R; [exact Ht|].
    change (/ 2)%R with (/ IZR radix2)%R. rewrite <- (bpow_opp radix2 1%Z) at 1. change (- (1))%Z with (-1)%Z.
    rewrite <- bpow_plus. f_equal.
Qed.

(* From the prevalence K, the number of samples n and argpartition's contract to the count:
   exactly floor(fl(K n)) samples are cases and every case's liability is >= every control's *)
Theorem case_count_from_K : forall (liab : nat -> Q) (K : pfloat) (n : nat) (sel : list Z),
  ffinite K = true -> (0 <= f2q0 K)%Q -> (f2q0 K < 1)%Q -> Z.of_nat n < 2 ^ 53 ->
  let k := Zfloor (rnd64 (Q2R (f2q0 K) * IZR (Z.of_nat n))) in
  NoDup sel ->
  (forall i, In i sel -> 0 <= i < Z.of_nat n) ->
  (k <> Z.of_nat n -> lenZ sel = k) ->
  (forall i j, In (Z.of_nat i) sel -> ~ In (Z.of_nat j) sel -> (j < n)%nat -> (liab j <= liab i)%Q) ->
  let cc := threshold n k sel in
  k_of K (Z.of_nat n) = Some k
  /\ cases_of k (Z.of_nat n) = Ok k
  /\ length cc = n
  /\ count_true cc = k
  /\ (forall i j, (i < n)%nat -> (j < n)%nat ->
        nth i cc false = true -> nth j cc false = false -> (liab j <= liab i)%Q).
Proof.
  intros liab K n sel HK K0 K1 Hn k Hnd Hr Hl Ht cc.
  destruct (k_of_floor K (Z.of_nat n) HK K0 K1 (conj (Nat2Z.is_nonneg n) Hn)) as [H1 [H2 _]].
  fold k in H1, H2.
  destruct (threshold_spec_lemma liab n k sel Hnd Hr Hl Ht) as [T1 [T2 [T3 _]]].
  split; [exact H1|]. split; [apply cases_of_in_range; exact H2|]. split; [exact T1|].
  split; [apply T2; exact H2|exact T3].
Qed.

(* ... and what evaluating holds on the implementation's output therefore means for the
   count: in the property's domain every replicate has exactly floor(fl(K n)) cases *)
Theorem holds_case_count : forall c o K, in_domain c = true -> r_obs c = Ok o -> holds_run c = true ->
  r_prev c = Some K -> Z.of_nat (nsamp c) < 2 ^ 53 ->
  forall r, In r (o_reps o) ->
    count_true (map is_case (rp_pt r)) = Zfloor (rnd64 (Q2R (f2q0 K) * IZR (Z.of_nat (nsamp c)))).
Proof.
  intros c o K Hd Ho H HK Hn r Hin.
  destruct (holds_run_sound c o Hd Ho H) as [_ [_ [_ Hr]]].
  destruct (Hr r Hin) as [_ [_ [_ [_ Hp]]]].
  destruct (pheno_cc_sound c o r K HK Hp) as [k [E1 [E2 _]]].
  unfold in_domain in Hd. rewrite HK in Hd. apply andb_true_iff in Hd. destruct Hd as [Hd _].
  apply andb_true_iff in Hd. destruct Hd as [_ Hd].
  unfold prev_in_domain in Hd. apply andb_true_iff in Hd. destruct Hd as [Hd D3].
  apply andb_true_iff in Hd. destruct Hd as [D1 D2].
  assert (K1 : (f2q0 K < 1)%Q).
  { apply Qnot_le_lt. intro Hle. apply Qle_bool_iff in Hle. rewrite Hle in D3. discriminate. }
  apply Qle_bool_iff in D2.
  destruct (k_of_floor K (Z.of_nat (nsamp c)) D1 D2 K1 (conj (Nat2Z.is_nonneg _) Hn)) as [H1 _].
  rewrite E1 in H1. injection H1 as H1. rewrite E2. exact H1.
Qed.
