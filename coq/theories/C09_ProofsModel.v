(* C09 - the composed model of one call of run (C09_Model.run_q): the linear-model clause,
   the case/control clause from k to the count, int() = floor on the exact value of a
   float, the rational reading of floor(K n), and what the new/extended clauses of the
   boolean checker mean.  No axioms here (Print Assumptions lists Coq's float primitives for the
   statements that mention a double - the case records hold doubles - and nothing else). *)
From HV Require Import Prelude Stats C15_Model C15_Check C15_Proofs C09_Model C09_Check C09_Proofs.
From Coq Require Import SpecFloat Qround.
Open Scope Z_scope.

(* ---------- sum_j beta_j z_j ------------------------------------------------ *)

(* the plain sum (no normalisation of the representation) *)
Fixpoint lincomb (b z : list Q) : Q :=
  match b, z with
  | x :: r, y :: s => (x * y + lincomb r s)%Q
  | _, _ => 0%Q
  end.

Lemma dot_lincomb : forall b z, (dot b z == lincomb b z)%Q.
Proof.
  induction b as [|x r IH]; intros [|y s]; cbn [dot lincomb]; try reflexivity.
  rewrite Qred_correct, IH. reflexivity.
Qed.

Lemma genetic_length betas z : length (genetic betas z) = length z.
Proof. unfold genetic. apply map_length. Qed.

Lemma genetic_nth betas z i : (i < length z)%nat ->
  (nth i (genetic betas z) 0 == lincomb betas (nth i z []))%Q.
Proof.
  intro Hi. unfold genetic.
  rewrite (nth_indep _ 0%Q (dot betas [])) by (rewrite map_length; exact Hi).
  rewrite (map_nth (dot betas)). apply dot_lincomb.
Qed.

Lemma addv_length : forall a b, length a = length b -> length (addv a b) = length a.
Proof.
  induction a as [|x r IH]; intros [|y s] H; cbn in *; try reflexivity; try discriminate.
  f_equal. apply IH. lia.
Qed.

Lemma addv_nth : forall a b i, length a = length b -> (i < length a)%nat ->
  (nth i (addv a b) 0 == nth i a 0 + nth i b 0)%Q.
Proof.
  induction a as [|x r IH]; intros [|y s] i H Hi; cbn [length] in *; try lia.
  destruct i as [|i]; cbn [addv nth]; [apply Qred_correct|]. apply IH; lia.
Qed.

(* every liability is sum_j beta_j Z_ij + eps_i *)
Lemma liability_q_spec : forall betas z eps, length eps = length z ->
  length (liability_q betas z eps) = length z
  /\ forall i, (i < length z)%nat ->
       (nth i (liability_q betas z eps) 0 == lincomb betas (nth i z []) + nth i eps 0)%Q.
Proof.
  intros betas z eps H. unfold liability_q.
  assert (Hl : length (genetic betas z) = length eps) by (rewrite genetic_length; symmetry; exact H).
  split; [rewrite addv_length by exact Hl; apply genetic_length|].
  intros i Hi. rewrite addv_nth; [|exact Hl|rewrite genetic_length; exact Hi].
  rewrite genetic_nth by exact Hi. reflexivity.
Qed.

(* the raw dosage: entry (i, j) is the sum of the two alleles sample i carries in the
   column cols_j - in Z: no 8-bit wrap-around *)
Lemma dosage_nth : forall gt cols i j, (i < length gt)%nat -> (j < length cols)%nat ->
  nth j (nth i (dosage gt cols) []) 0
  = fst (nth (nth j cols 0%nat) (nth i gt []) (0, 0)) + snd (nth (nth j cols 0%nat) (nth i gt []) (0, 0)).
Proof.
  intros gt cols i j Hi Hj. unfold dosage.
  set (f := fun row : list (Z * Z) => map (fun k => let '(a, b) := nth k row (0, 0) in a + b) cols).
  rewrite (nth_indep _ [] (f [])) by (rewrite map_length; exact Hi).
  rewrite (map_nth f). unfold f.
  set (h := fun k => let '(a, b) := nth k (nth i gt []) (0, 0) in a + b).
  rewrite (nth_indep _ 0 (h 0%nat)) by (rewrite map_length; exact Hj).
  rewrite (map_nth h). unfold h. destruct (nth (nth j cols 0%nat) (nth i gt []) (0, 0)). reflexivity.
Qed.

Lemma dosage_shape gt cols :
  length (dosage gt cols) = length gt /\ Forall (fun r => length r = length cols) (dosage gt cols).
Proof.
  unfold dosage. split; [apply map_length|]. apply Forall_forall. intros r Hr.
  apply in_map_iff in Hr. destruct Hr as [row [<- _]]. apply map_length.
Qed.

(* ---------- int(x) is the floor of the exact value ---------------------------- *)

Lemma Qfloor_int (a : Z) : Qfloor (a # 1) = a.
Proof. unfold Qfloor. cbn. apply Z.div_1_r. Qed.

(* Python's int() of a finite non-negative double is the floor of its exact rational value *)
Lemma trunc_is_floor : forall (x : spec_float) (q : Q),
  sf2q x = Some q -> (0 <= q)%Q -> sf_trunc x = Some (Qfloor q).
Proof.
  intros [s|s| |s m e] q H H0; cbn [sf2q sf_trunc] in *; try discriminate.
  - inversion H; subst. reflexivity.
  - inversion H; subst q; clear H. f_equal. destruct s.
    + (* a negative value is excluded by 0 <= q *)
      exfalso. destruct (Z.leb_spec 0 e) as [E|E]; unfold Qle in H0; cbn [Qnum Qden] in H0.
      * assert (0 < 2 ^ e) by (apply Z.pow_pos_nonneg; lia). nia.
      * lia.
    + destruct (Z.leb_spec 0 e) as [E|E].
      * rewrite Qfloor_int. reflexivity.
      * unfold Qfloor. cbn [Qnum Qden].
        rewrite Z2Pos.id by (apply Z.pow_pos_nonneg; lia). reflexivity.
Qed.

(* ... and in general the truncation toward zero *)
Lemma trunc_is_trunc : forall (x : spec_float) (q : Q),
  sf2q x = Some q -> sf_trunc x = Some (if Qle_bool 0 q then Qfloor q else - Qfloor (- q)).
Proof.
  intros x q H. destruct (Qle_bool 0 q) eqn:E.
  - apply trunc_is_floor; [exact H|apply Qle_bool_iff; exact E].
  - destruct x as [s|s| |s m e]; cbn [sf2q sf_trunc] in *; try discriminate.
    + inversion H; subst. discriminate.
    + inversion H; subst q; clear H. f_equal. destruct s.
      * destruct (Z.leb_spec 0 e) as [E2|E2].
        -- unfold Qopp. cbn [Qnum Qden]. rewrite Qfloor_int. lia.
        -- unfold Qopp, Qfloor. cbn [Qnum Qden].
           rewrite Z2Pos.id by (apply Z.pow_pos_nonneg; lia). reflexivity.
      * exfalso. assert (Ht : Qle_bool 0 (if 0 <=? e then Z.pos m * 2 ^ e # 1 else Z.pos m # Z.to_pos (2 ^ - e)) = true).
        { apply Qle_bool_iff. destruct (Z.leb_spec 0 e) as [E2|E2]; unfold Qle; cbn [Qnum Qden]; [|lia].
          assert (0 < 2 ^ e) by (apply Z.pow_pos_nonneg; lia). nia. }
        congruence.
Qed.

(* ---------- floor(K n) over the rationals -------------------------------------- *)

Definition k_rat (K : Q) (n : Z) : Z := Qfloor (K * inject_Z n).

Lemma k_rat_bounds : forall K n, (0 <= K)%Q -> (K < 1)%Q -> 0 <= n ->
  0 <= k_rat K n <= n /\ (0 < n -> k_rat K n < n).
Proof.
  intros K n K0 K1 Hn. unfold k_rat.
  assert (Hn' : (0 <= inject_Z n)%Q) by (unfold Qle; cbn; lia).
  assert (H0 : (0 <= K * inject_Z n)%Q) by (apply Qmult_le_0_compat; assumption).
  assert (H1 : (K * inject_Z n <= inject_Z n)%Q).
  { setoid_replace (inject_Z n) with (1 * inject_Z n)%Q at 2 by ring.
    apply Qmult_le_compat_r; [apply Qlt_le_weak; exact K1|exact Hn']. }
  split; [split|].
  - change 0 with (Qfloor (inject_Z 0)). apply Qfloor_resp_le. exact H0.
  - apply Z.le_trans with (Qfloor (inject_Z n)); [apply Qfloor_resp_le; exact H1|rewrite Qfloor_Z; lia].
  - intro Hp. assert (Hlt : (K * inject_Z n < inject_Z n)%Q).
    { setoid_replace (inject_Z n) with (1 * inject_Z n)%Q at 2 by ring.
      apply Qmult_lt_compat_r; [unfold Qlt; cbn; lia|exact K1]. }
    apply Z.lt_nge. intro Hge.
    assert (Hc : (inject_Z n <= K * inject_Z n)%Q).
    { apply Qle_trans with (inject_Z (Qfloor (K * inject_Z n))); [rewrite <- Zle_Qle; exact Hge|apply Qfloor_le]. }
    apply (Qlt_not_le _ _ Hlt). exact Hc.
Qed.

Lemma cases_of_in_range : forall k n, 0 <= k <= n -> cases_of k n = Ok k.
Proof.
  intros k n H. unfold cases_of. destruct (Z.eqb_spec k n) as [->|Hne]; [reflexivity|].
  replace (n <? k) with false by (symmetry; apply Z.ltb_ge; lia).
  replace (k <? - n) with false by (symmetry; apply Z.ltb_ge; lia).
  replace (k <? 0) with false by (symmetry; apply Z.ltb_ge; lia). reflexivity.
Qed.

(* ---------- case/control on the model's liabilities ---------------------------- *)

Fixpoint count_ones (l : list Q) : Z :=
  match l with [] => 0 | x :: r => (if Qeq_bool x 1 then 1 else 0) + count_ones r end.

Lemma count_ones_bool_q l : count_ones (map bool_q l) = count_true l.
Proof. induction l as [|b r IH]; [reflexivity|]. cbn [map count_ones count_true]. rewrite IH. destruct b; reflexivity. Qed.

Lemma nth_bool_q l i : nth i (map bool_q l) 0%Q = bool_q (nth i l false).
Proof. change 0%Q with (bool_q false). apply map_nth. Qed.

(* With k = int(prevalence * n) cases requested and any selection meeting argpartition's
   contract on the model's liabilities: the phenotype vector is 0/1, has exactly k ones
   (0 <= k <= n) and every case's liability is >= every control's *)
Theorem case_control_model : forall betas z eps k sel,
  length eps = length z ->
  let l := liability_q betas z eps in
  let n := length z in
  NoDup sel ->
  (forall i, In i sel -> 0 <= i < Z.of_nat n) ->
  (k <> Z.of_nat n -> lenZ sel = k) ->
  (forall i j, In (Z.of_nat i) sel -> ~ In (Z.of_nat j) sel -> (j < n)%nat -> (nth j l 0 <= nth i l 0)%Q) ->
  let pt := phenotype_q betas z eps (Some k) sel in
  length pt = n
  /\ (forall i, (i < n)%nat -> nth i pt 0%Q = 1%Q \/ nth i pt 0%Q = 0%Q)
  /\ (0 <= k <= Z.of_nat n -> count_ones pt = k)
  /\ (forall i j, (i < n)%nat -> (j < n)%nat -> nth i pt 0%Q = 1%Q -> nth j pt 0%Q = 0%Q ->
        (lincomb betas (nth j z []) + nth j eps 0 <= lincomb betas (nth i z []) + nth i eps 0)%Q).
Proof.
  intros betas z eps k sel He l n Hnd Hr Hlen Htop pt.
  destruct (liability_q_spec betas z eps He) as [Hl Hv]. fold l in Hl, Hv. fold n in Hl, Hv.
  destruct (threshold_spec_lemma (fun i => nth i l 0%Q) n k sel Hnd Hr Hlen Htop) as [T1 [T2 [T3 _]]].
  unfold pt, phenotype_q. fold l. rewrite Hl.
  split; [rewrite map_length; exact T1|].
  split.
  { intros i _. rewrite nth_bool_q. destruct (nth i (threshold n k sel) false); [left|right]; reflexivity. }
  split; [intro Hk; rewrite count_ones_bool_q; apply T2; exact Hk|].
  intros i j Hi Hj Hci Hcj. rewrite nth_bool_q in Hci, Hcj.
  assert (Ci : nth i (threshold n k sel) false = true) by (destruct (nth i (threshold n k sel) false); [reflexivity|discriminate]).
  assert (Cj : nth j (threshold n k sel) false = false) by (destruct (nth j (threshold n k sel) false); [discriminate|reflexivity]).
  pose proof (T3 i j Hi Hj Ci Cj) as H. cbv beta in H.
  rewrite <- (Hv i Hi), <- (Hv j Hj). exact H.
Qed.

(* the contract is satisfiable on a model liability vector: z = [[0]; [1]; [2]], beta = 1/2,
   no noise, k = 1: the selection {2} *)
Example case_control_model_inhabited :
  let l := liability_q [(1 # 2)%Q] [[0%Q]; [1%Q]; [2%Q]] [0%Q; 0%Q; 0%Q] in
  NoDup [2] /\ (forall i, In i [2] -> 0 <= i < 3) /\ lenZ [2] = 1
  /\ (forall i j, In (Z.of_nat i) [2] -> ~ In (Z.of_nat j) [2] -> (j < 3)%nat -> (nth j l 0 <= nth i l 0)%Q)
  /\ phenotype_q [(1 # 2)%Q] [[0%Q]; [1%Q]; [2%Q]] [0%Q; 0%Q; 0%Q] (Some 1) [2] = [0%Q; 0%Q; 1%Q].
Proof.
  cbv zeta. split; [constructor; [intros []|constructor]|].
  split; [intros i [<-|[]]; lia|]. split; [reflexivity|]. split; [|reflexivity].
  intros i j [Hi|[]] _ Hj. assert (i = 2%nat) by lia. subst i.
  destruct j as [|[|[|j]]]; try lia; vm_compute; discriminate.
Qed.

(* ---------- one call of run, composed ------------------------------------------- *)

Theorem run_q_spec : forall gids gt eff zstd h2 env kk eps sel out,
  run_q gids gt eff zstd h2 env kk eps sel = Ok out ->
  let al := aligned gids eff in
  let betas := map (fun x => snd (snd x)) al in
  let z := match zstd with Some z => z | None => map (map inject_Z) (dosage gt (map fst al)) end in
  (* the effects used are those whose ID is among the genotype IDs, in the order given ... *)
  map snd al = filter (fun e => present id name_eqb gids (fst e)) eff
  (* ... each with the first column that holds its own ID *)
  /\ (forall k e, In (k, e) al -> nth_error gids k = Some (fst e))
  /\ ro_ids out = map (fun x => fst (snd x)) al
  (* Z_j (raw): the sum of the two alleles in that column *)
  /\ ro_dosage out = dosage gt (map fst al)
  (* the variance of eps is the documented one *)
  /\ (ro_noise out == documented_noise betas h2 env (qvar (genetic betas z)))%Q
  (* the phenotype *)
  /\ (length eps = length z ->
      match kk with
      | None => length (ro_pt out) = length z
                /\ forall i, (i < length z)%nat ->
                     (nth i (ro_pt out) 0 == lincomb betas (nth i z []) + nth i eps 0)%Q
      | Some k => ro_pt out = map bool_q (threshold (length z) k sel)
      end).
Proof.
  intros gids gt eff zstd h2 env kk eps sel out H al betas z.
  unfold run_q in H. destruct (run_error gids) as [e|]; [discriminate|].
  fold al in H. fold betas in H. fold z in H.
  destruct (match kk with Some k => cases_of k (lenZ gt) | None => Ok 0 end) as [m|e]; [|discriminate].
  inversion H; subst out; clear H. cbn [ro_ids ro_dosage ro_noise ro_pt].
  destruct (aligned_spec gids eff) as [A1 A2]. fold al in A1, A2.
  split; [exact A1|]. split; [intros k e Hin; apply (A2 k e Hin)|].
  split; [reflexivity|]. split; [reflexivity|].
  split; [apply noise_var_documented_lemma|].
  intro He. destruct (liability_q_spec betas z eps He) as [Hl Hv].
  destruct kk as [k|]; unfold phenotype_q.
  - rewrite Hl. reflexivity.
  - split; [exact Hl|exact Hv].
Qed.

(* run_q answers on a small instance (the hypothesis of run_q_spec is satisfiable) *)
Example run_q_inhabited :
  exists out, run_q [[118; 48]] [[(0, 1)]; [(1, 1)]] [([118; 48], (1 # 2)%Q)] None None None None [0%Q; (1 # 4)%Q] [] = Ok out
              /\ ro_pt out = [(1 # 2)%Q; (5 # 4)%Q].
Proof. eexists. split; reflexivity. Qed.

(* ---------- what the checker's clauses mean ------------------------------------ *)

(* the draw of a replicate asked for mean 0 and one value per sample *)
Lemma rng_call_holds_sound : forall c r, rng_call_holds c r = true ->
  f2q (rp_loc r) = Some (f2q0 (rp_loc r)) /\ (f2q0 (rp_loc r) == 0)%Q /\ rp_size r = Z.of_nat (nsamp c).
Proof.
  intros c r H. unfold rng_call_holds in H.
  apply andb_true_iff in H. destruct H as [H H3]. apply andb_true_iff in H. destruct H as [H1 H2].
  split; [|split].
  - unfold ffinite, f2q0 in *. destruct (f2q (rp_loc r)); [reflexivity|discriminate].
  - apply Qeq_bool_iff. exact H2.
  - apply Z.eqb_eq. exact H3.
Qed.

Lemma forallb_combine_nth {A B} (f : A * B -> bool) (da : A) (db : B) : forall (a : list A) (b : list B),
  length a = length b -> forallb f (combine a b) = true ->
  forall i, (i < length a)%nat -> f (nth i a da, nth i b db) = true.
Proof.
  induction a as [|x r IH]; intros [|y s] Hl H i Hi; cbn in *; try lia.
  apply andb_true_iff in H. destruct H as [H1 H2].
  destruct i as [|i]; [exact H1|]. apply IH; [lia|exact H2|lia].
Qed.

(* the quantitative clause of holds: every phenotype is g_i + eps_i up to 1e-9 of the
   magnitude of the operands *)
Lemma pheno_quant_sound : forall c o r, r_prev c = None -> pheno_ok false c o r = true ->
  length (o_g o) = nsamp c ->
  length (rp_eps r) = nsamp c /\ length (rp_pt r) = nsamp c
  /\ forall i, (i < nsamp c)%nat ->
       let g := f2q0 (nth i (o_g o) PrimFloat.zero) in
       let e := f2q0 (nth i (rp_eps r) PrimFloat.zero) in
       let p := f2q0 (nth i (rp_pt r) PrimFloat.zero) in
       (Qabs (p - (g + e)) <= tol9 * (Qabs g + Qabs e))%Q.
Proof.
  intros c o r Hp H Hg. unfold pheno_ok in H. rewrite Hp in H.
  apply andb_true_iff in H. destruct H as [H H3]. apply andb_true_iff in H. destruct H as [H1 H2].
  apply Nat.eqb_eq in H1. apply Nat.eqb_eq in H2.
  split; [exact H1|]. split; [exact H2|]. intros i Hi.
  assert (Hl : length (combine (o_g o) (rp_eps r)) = length (rp_pt r)).
  { rewrite combine_length, Hg, H1, H2. apply Nat.min_id. }
  pose proof (forallb_combine_nth _ (PrimFloat.zero, PrimFloat.zero) PrimFloat.zero _ _ Hl H3 i) as Hn.
  rewrite combine_length, Hg, H1, Nat.min_id in Hn. specialize (Hn Hi).
  rewrite combine_nth in Hn by (rewrite Hg, H1; reflexivity). cbv beta iota in Hn.
  cbv zeta. unfold qclose in Hn. apply Qle_bool_iff in Hn. exact Hn.
Qed.

(* the case/control clause of holds: the number of cases is exactly the k that
   int(prevalence * n) evaluates to, and no control's liability exceeds a case's by more
   than the float slack *)
Lemma pheno_cc_sound : forall c o r K, r_prev c = Some K -> pheno_ok false c o r = true ->
  exists k, k_of K (Z.of_nat (nsamp c)) = Some k
    /\ count_true (map is_case (rp_pt r)) = k
    /\ Forall (fun p => PrimFloat.eqb p PrimFloat.one = true \/ PrimFloat.eqb p PrimFloat.zero = true) (rp_pt r)
    /\ let ge := combine (o_g o) (rp_eps r) in
       let liab := map (fun '(g, e) => (f2q0 g + f2q0 e)%Q) ge in
       let slack := map (fun '(g, e) => (tol9 * (Qabs (f2q0 g) + Qabs (f2q0 e)))%Q) ge in
       forall ci li si cj lj sj,
         In (ci, (li, si)) (combine (map is_case (rp_pt r)) (combine liab slack)) ->
         In (cj, (lj, sj)) (combine (map is_case (rp_pt r)) (combine liab slack)) ->
         ci = true -> cj = false -> (lj <= li + si + sj)%Q.
Proof.
  intros c o r K Hp H. unfold pheno_ok in H. rewrite Hp in H.
  apply andb_true_iff in H. destruct H as [_ H].
  destruct (k_of K (Z.of_nat (nsamp c))) as [k|]; [|discriminate]. exists k. split; [reflexivity|].
  apply andb_true_iff in H. destruct H as [H H3]. apply andb_true_iff in H. destruct H as [H1 H2].
  cbn [negb] in H2. split; [apply Z.eqb_eq; exact H2|]. split.
  - apply Forall_forall. intros p Hin. rewrite forallb_forall in H1. specialize (H1 p Hin).
    apply orb_true_iff in H1. exact H1.
  - cbv zeta. apply liab_check_sound. exact H3.
Qed.

(* holds on an observed answer in the property's domain: every replicate's draw is
   normal(0, s, n) with s^2 the documented variance (1e-9), and the phenotype clause *)
Theorem holds_run_sound : forall c o, in_domain c = true -> r_obs c = Ok o -> holds_run c = true ->
  z_spec_ok c o = true /\ genetic_ok c o = true /\ columns_ok false c o = true
  /\ forall r, In r (o_reps o) ->
       (f2q0 (rp_loc r) == 0)%Q /\ rp_size r = Z.of_nat (nsamp c)
       /\ (0 <= f2q0 (rp_scale r))%Q
       /\ (Qabs (qsq (f2q0 (rp_scale r)) - documented_noise (betas_of c) (oq (r_h2 c)) (oq (r_env c)) (gvar o))
           <= tol9 * noise_scale (betas_of c) (oq (r_h2 c)) (oq (r_env c)) (gvar o))%Q
       /\ pheno_ok false c o r = true.
Proof.
  intros c o Hd Ho H. unfold holds_run in H. rewrite Hd, Ho in H. cbn [negb] in H.
  assert (H' : holds_obs c o = true)
    by (destruct (r_refuse c) as [[k b]|]; apply andb_true_iff in H; destruct H as [H _]; exact H). clear H.
  unfold holds_obs in H'.
  apply andb_true_iff in H'. destruct H' as [H' Hc]. apply andb_true_iff in H'. destruct H' as [H' Hr].
  apply andb_true_iff in H'. destruct H' as [Hz Hg].
  split; [exact Hz|]. split; [exact Hg|]. split; [exact Hc|].
  intros r Hin. rewrite forallb_forall in Hr. specialize (Hr r Hin).
  apply andb_true_iff in Hr. destruct Hr as [Hr Hp]. apply andb_true_iff in Hr. destruct Hr as [Hc1 Hn].
  destruct (rng_call_holds_sound c r Hc1) as [_ [L0 Ls]].
  unfold noise_ok in Hn. apply andb_true_iff in Hn. destruct Hn as [Hn N3]. apply andb_true_iff in Hn. destruct Hn as [_ N2].
  split; [exact L0|]. split; [exact Ls|]. split; [apply Qle_bool_iff; exact N2|].
  split; [unfold qclose in N3; apply Qle_bool_iff in N3; exact N3|exact Hp].
Qed.

(* ... and as many replicates (draws, columns: columns_ok) as replications were asked for *)
Theorem holds_reps_sound : forall c o R, in_domain c = true -> r_obs c = Ok o -> holds_run c = true ->
  r_reps c = Some R ->
  Z.of_nat (length (o_reps o)) = R /\ length (o_names o) = length (o_reps o) /\ length (o_header o) = length (o_reps o).
Proof.
  intros c o R Hd Ho H HR. destruct (holds_run_sound c o Hd Ho H) as [_ [_ [Hc _]]].
  unfold holds_run in H. rewrite Hd, Ho in H. cbn [negb] in H.
  assert (H' : reps_ok c o = true)
    by (destruct (r_refuse c) as [[k b]|]; apply andb_true_iff in H; destruct H as [_ H]; exact H). clear H.
  unfold reps_ok in H'. rewrite HR in H'. apply Z.eqb_eq in H'. split; [exact H'|].
  unfold columns_ok in Hc. cbn [negb orb] in Hc. rewrite andb_true_r in Hc.
  repeat (apply andb_true_iff in Hc; destruct Hc as [Hc ?]).
  split; apply Nat.eqb_eq; assumption.
Qed.
