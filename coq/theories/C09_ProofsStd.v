(* C09 - what the z-check of holds means for a whole column.
   (1) over the reals, at tolerance 0: the checked column IS the standardised column
       (mean 0, variance 1; all zeros when the dosage is constant) - uses Reals, hence the
       standard library's real-number axioms;
   (2) over Q, at the tolerance the checker really uses (1e-9): every z^2 is within
       1e-9 (s^2 + 1) of the square s^2 = dev^2 / var of the standardised value, with the
       sign of the deviation - closed under the global context. *)
From HV Require Import Prelude Stats StatsR C15_Model C15_Check C09_Model C09_Check.
From Coq Require Import Reals Qreals Lra.
Open Scope Z_scope.

(* the z-check with the tolerance as a parameter; the harness uses tol9 = 1e-9 *)
Definition zcheck_tol (tol var dev z : Q) : bool :=
  qclose tol (qsq dev + var) (qsq z * var) (qsq dev)
  && (Qle_bool (qsq dev) (tol * var) || (qsgn z =? qsgn dev)).

Lemma zcheck_is_tol9 : zcheck = zcheck_tol tol9.
Proof. reflexivity. Qed.

(* the column check of C09_Check.zcol_ok on rationals, tolerance as a parameter *)
Definition zcol_tol (tol : Q) (qd zs : list Q) : bool :=
  match qd with
  | [] => true
  | d0 :: _ =>
      Nat.eqb (length qd) (length zs) &&
      if forallb (Qeq_bool d0) qd then forallb (fun z => Qeq_bool z 0) zs
      else let v := qvar qd in forallb (fun '(d, z) => zcheck_tol tol v d z) (combine (qdev qd) zs)
  end.

Lemma forallb_map {A B} (f : A -> B) (p : B -> bool) l : forallb p (map f l) = forallb (fun x => p (f x)) l.
Proof. induction l as [|x r IH]; [reflexivity|]. cbn. rewrite IH. reflexivity. Qed.

Lemma forallb_combine_map {A B C} (f : B -> C) (p : A * C -> bool) : forall (a : list A) (b : list B),
  forallb p (combine a (map f b)) = forallb (fun '(x, y) => p (x, f y)) (combine a b).
Proof.
  induction a as [|x r IH]; intros [|y s]; try reflexivity. cbn. rewrite IH. reflexivity.
Qed.

(* the checker of holds is this check at 1e-9 on the exact rationals of the observed floats *)
Lemma zcol_ok_is_tol9 : forall ds zs, zcol_ok ds zs = true -> zcol_tol tol9 (map zq ds) (map f2q0 zs) = true.
Proof.
  intros ds zs H. unfold zcol_ok in H. unfold zcol_tol.
  destruct (map zq ds) as [|d0 qd'] eqn:E; [reflexivity|].
  assert (El : length ds = length (d0 :: qd')) by (rewrite <- E, map_length; reflexivity).
  apply andb_true_iff in H. destruct H as [H H3]. apply andb_true_iff in H. destruct H as [H1 _].
  rewrite map_length, <- El, H1. cbn [andb].
  destruct (forallb (Qeq_bool d0) (d0 :: qd')).
  - rewrite forallb_map. exact H3.
  - cbv zeta in *. rewrite forallb_combine_map. rewrite <- zcheck_is_tol9. exact H3.
Qed.

(* ---------- (2) the real tolerance, over Q --------------------------------------- *)

Lemma zcheck_tol_sound : forall tol v d z, (0 < v)%Q -> zcheck_tol tol v d z = true ->
  (Qabs (qsq z - qsq d / v) <= tol * (qsq d / v + 1))%Q
  /\ ((tol * v < qsq d)%Q -> qsgn z = qsgn d).
Proof.
  intros tol v d z Hv H. unfold zcheck_tol in H. apply andb_true_iff in H. destruct H as [H1 H2].
  unfold qclose in H1. apply Qle_bool_iff in H1.
  assert (Hv0 : ~ (v == 0)%Q) by (intro E; rewrite E in Hv; discriminate).
  split.
  - setoid_replace (qsq z - qsq d / v)%Q with ((qsq z * v - qsq d) * / v)%Q by (field; exact Hv0).
    setoid_replace (tol * (qsq d / v + 1))%Q with ((tol * (qsq d + v)) * / v)%Q by (field; exact Hv0).
    rewrite Qabs_Qmult. rewrite (Qabs_pos (/ v)) by (apply Qlt_le_weak, Qinv_lt_0_compat; exact Hv).
    apply Qmult_le_compat_r; [exact H1|apply Qlt_le_weak, Qinv_lt_0_compat; exact Hv].
  - intro Hlt. apply orb_true_iff in H2. destruct H2 as [H2|H2].
    + apply Qle_bool_iff in H2. exfalso. apply (Qlt_not_le _ _ Hlt). exact H2.
    + apply Z.eqb_eq. exact H2.
Qed.

(* ---------- (1) tolerance 0, over the reals ---------------------------------------- *)

Lemma Q2R_0 : Q2R 0 = 0%R. Proof. unfold Q2R; cbn; lra. Qed.

Lemma Q2R_qsum l : Q2R (qsum l) = rsum (map Q2R l).
Proof.
  induction l as [|a r IH]; [apply Q2R_0|].
  rewrite qsum_cons. rewrite (Qeq_eqR _ _ (Qred_correct _)), Q2R_plus, IH. reflexivity.
Qed.

Lemma Q2R_qlen {A} (l : list A) : Q2R (qlen l) = INR (length l).
Proof. unfold qlen, lenZ, Q2R. cbn. rewrite <- INR_IZR_INZ. lra. Qed.

Lemma Q2R_qmean l : l <> [] -> Q2R (qmean l) = rmean (map Q2R l).
Proof.
  intro Hne. unfold qmean, rmean, rlen. rewrite (Qeq_eqR _ _ (Qred_correct _)).
  unfold Qdiv. rewrite Q2R_mult, Q2R_inv, Q2R_qsum, Q2R_qlen, map_length; [reflexivity|].
  intro E. unfold qlen, lenZ, Qeq in E. cbn in E. destruct l; [contradiction|cbn in E; lia].
Qed.

Lemma Q2R_qdev l : l <> [] -> map Q2R (qdev l) = map (fun x => (x - rmean (map Q2R l))%R) (map Q2R l).
Proof.
  intro Hne. unfold qdev. rewrite !map_map. apply map_ext. intro x.
  rewrite (Qeq_eqR _ _ (Qred_correct _)), Q2R_minus, Q2R_qmean by exact Hne. reflexivity.
Qed.

Lemma Q2R_qvar l : l <> [] -> Q2R (qvar l) = rvar (map Q2R l).
Proof.
  intro Hne. set (m := rmean (map Q2R l)).
  assert (Hsq : map Q2R (map qsq (qdev l)) = map (fun x => ((x - m) * (x - m))%R) (map Q2R l)).
  { transitivity (map (fun r => (r * r)%R) (map Q2R (qdev l))).
    - rewrite !map_map. apply map_ext. intro y. unfold qsq. apply Q2R_mult.
    - rewrite Q2R_qdev by exact Hne. fold m. rewrite map_map. reflexivity. }
  unfold qvar, rvar. cbv zeta. fold m. unfold rmean at 1. unfold rlen. rewrite !map_length.
  rewrite (Qeq_eqR _ _ (Qred_correct _)). unfold Qdiv.
  rewrite Q2R_mult, Q2R_inv, Q2R_qsum, Q2R_qlen, Hsq; [reflexivity|].
  intro E. unfold qlen, lenZ, Qeq in E. cbn in E. destruct l; [contradiction|cbn in E; lia].
Qed.

Lemma rsum_zero_all l : (forall x, In x l -> 0 <= x)%R -> rsum l = 0%R -> forall x, In x l -> x = 0%R.
Proof.
  induction l as [|a r IH]; intros Hp Hs x Hin; [destruct Hin|].
  assert (Ha : (0 <= a)%R) by (apply Hp; left; reflexivity).
  assert (Hr : (0 <= rsum r)%R) by (apply rsum_nonneg; intros; apply Hp; right; assumption).
  change (a + rsum r = 0)%R in Hs.
  destruct Hin as [<-|Hin]; [lra|]. apply IH; [intros; apply Hp; right; assumption|lra|exact Hin].
Qed.

(* variance 0: every element is the mean *)
Lemma rvar_zero_all l : l <> [] -> rvar l = 0%R -> forall x, In x l -> x = rmean l.
Proof.
  intros Hne Hv x Hin. unfold rvar in Hv. cbv zeta in Hv. set (m := rmean l) in *.
  unfold rmean in Hv. fold m in Hv.
  assert (Hn : (0 < rlen (map (fun x => ((x - m) * (x - m))%R) l))%R).
  { unfold rlen. rewrite map_length. apply lt_0_INR. destruct l; [contradiction|cbn; lia]. }
  assert (Hs : rsum (map (fun x => ((x - m) * (x - m))%R) l) = 0%R).
  { unfold Rdiv in Hv. apply Rmult_integral in Hv. destruct Hv as [Hv|Hv]; [exact Hv|].
    exfalso. apply (Rinv_neq_0_compat _ (Rgt_not_eq _ _ Hn)). exact Hv. }
  assert (Hz : ((x - m) * (x - m) = 0)%R).
  { apply (rsum_zero_all _ (fun y Hy => ltac:(apply in_map_iff in Hy; destruct Hy as [w [<- _]]; apply Rle_0_sqr)) Hs).
    apply in_map_iff. exists x. split; [reflexivity|exact Hin]. }
  apply Rmult_integral in Hz. destruct Hz; lra.
Qed.

Lemma qsgn_nonneg q : (0 <= Q2R q)%R <-> 0 <= qsgn q.
Proof.
  unfold qsgn. split.
  - intro H. replace 0%R with (Q2R 0) in H by apply Q2R_0. apply Rle_Qle in H. unfold Qle in H. cbn in H. lia.
  - intro H. replace 0%R with (Q2R 0) by apply Q2R_0. apply Qle_Rle. unfold Qle. cbn. lia.
Qed.

(* one cell at tolerance 0 *)
Lemma zcheck0_cell : forall v d z, (0 < v)%Q -> zcheck_tol 0 v d z = true ->
  (Q2R z * Q2R z * Q2R v = Q2R d * Q2R d)%R /\ ((0 <= Q2R z)%R <-> (0 <= Q2R d)%R).
Proof.
  intros v d z Hv H. unfold zcheck_tol in H. apply andb_true_iff in H. destruct H as [H1 H2].
  unfold qclose in H1. apply Qle_bool_iff in H1.
  assert (Heq : (qsq z * v == qsq d)%Q).
  { setoid_replace (0 * (qsq d + v))%Q with 0%Q in H1 by ring.
    assert (Hz : (qsq z * v - qsq d == 0)%Q).
    { apply Qle_antisym.
      - apply Qle_trans with (Qabs (qsq z * v - qsq d)); [apply Qle_Qabs|exact H1].
      - assert (Hm : (- (qsq z * v - qsq d) <= 0)%Q).
        { apply Qle_trans with (Qabs (- (qsq z * v - qsq d))); [apply Qle_Qabs|rewrite Qabs_opp; exact H1]. }
        apply Qopp_le_compat in Hm. setoid_replace (- - (qsq z * v - qsq d))%Q with (qsq z * v - qsq d)%Q in Hm by ring.
        exact Hm. }
    setoid_replace (qsq z * v)%Q with ((qsq z * v - qsq d) + qsq d)%Q by ring. rewrite Hz. ring. }
  assert (HR : (Q2R z * Q2R z * Q2R v = Q2R d * Q2R d)%R).
  { rewrite <- !Q2R_mult. apply Qeq_eqR. exact Heq. }
  split; [exact HR|].
  assert (HvR : (0 < Q2R v)%R) by (rewrite <- Q2R_0; apply Qlt_Rlt; exact Hv).
  apply orb_true_iff in H2. destruct H2 as [H2|H2].
  - (* dev^2 <= 0: dev = 0, hence z = 0 *)
    apply Qle_bool_iff in H2. setoid_replace (0 * v)%Q with 0%Q in H2 by ring.
    apply Qle_Rle in H2. rewrite Q2R_0 in H2. unfold qsq in H2. rewrite Q2R_mult in H2.
    assert (Hd : Q2R d = 0%R) by nra.
    assert (Hz : Q2R z = 0%R).
    { rewrite Hd, Rmult_0_l in HR. apply Rmult_integral in HR. destruct HR as [HR|HR]; [|lra].
      apply Rmult_integral in HR. destruct HR; assumption. }
    rewrite Hd, Hz. tauto.
  - apply Z.eqb_eq in H2. rewrite !qsgn_nonneg, H2. tauto.
Qed.

Lemma combine_forallb_nth {A B} (p : A * B -> bool) (da : A) (db : B) : forall (a : list A) (b : list B),
  length a = length b -> forallb p (combine a b) = true ->
  forall i, (i < length a)%nat -> p (nth i a da, nth i b db) = true.
Proof.
  induction a as [|x r IH]; intros [|y s] Hl H i Hi; cbn in *; try lia.
  apply andb_true_iff in H. destruct H as [H1 H2].
  destruct i as [|i]; [exact H1|]. apply IH; [lia|exact H2|lia].
Qed.

Lemma zeros_map : forall (zs : list Q) (x : list R), length x = length zs ->
  (forall q, In q zs -> Qeq_bool q 0 = true) -> map Q2R zs = map (fun _ => 0%R) x.
Proof.
  induction zs as [|a r IH]; intros [|y x] Hl H; cbn in *; try lia; [reflexivity|].
  f_equal; [|apply IH; [lia|intros; apply H; right; assumption]].
  rewrite <- Q2R_0. apply Qeq_eqR. apply Qeq_bool_iff. apply H. left. reflexivity.
Qed.

(* The column check at tolerance 0 on a non-empty dosage column: the checked values are
   exactly the standardised column over the reals - mean 0 and variance 1 when the dosage
   varies, all zeros when it is constant. *)
Theorem zcol_exact_sound : forall (qd zs : list Q),
  qd <> [] -> zcol_tol 0 qd zs = true ->
  let x := map Q2R qd in
  let z := map Q2R zs in
  z = rstandardize x
  /\ ((0 < rvar x)%R -> rmean z = 0%R /\ rvar z = 1%R)
  /\ (rvar x = 0%R -> z = map (fun _ => 0%R) x).
Proof.
  intros qd zs Hne H x z.
  assert (Hmain : z = rstandardize x).
  { destruct qd as [|d0 qd']; [contradiction|]. unfold zcol_tol in H. set (qd := d0 :: qd') in *.
    assert (Eqd : qd = d0 :: qd') by reflexivity.
    apply andb_true_iff in H. destruct H as [Hlen H]. apply Nat.eqb_eq in Hlen.
    assert (Hxne : x <> []) by (unfold x; rewrite Eqd; discriminate).
    destruct (forallb (Qeq_bool d0) qd) eqn:Ec.
    - (* constant: variance 0, zeros *)
      assert (Hall : forall y, In y x -> y = Q2R d0).
      { intros y Hy. unfold x in Hy. apply in_map_iff in Hy. destruct Hy as [q [<- Hq]].
        rewrite forallb_forall in Ec. specialize (Ec q Hq). apply Qeq_bool_iff in Ec. symmetry. apply Qeq_eqR. exact Ec. }
      assert (Hrep : x = repeat (Q2R d0) (length x)).
      { clear - Hall. induction x as [|a r IH]; [reflexivity|]. cbn [length repeat].
        rewrite (Hall a (or_introl eq_refl)). f_equal. apply IH. intros; apply Hall; right; assumption. }
      rewrite Hrep, standardize_constant_zero_lemma, <- Hrep.
      unfold z. apply zeros_map; [unfold x; rewrite map_length; exact Hlen|]. rewrite forallb_forall in H. exact H.
    - cbv zeta in H.
      assert (Hq : qd <> []) by (rewrite Eqd; discriminate).
      pose proof (Q2R_qvar qd Hq) as Ev. fold x in Ev.
      destruct (Rle_lt_or_eq_dec 0 (rvar x) (rvar_nonneg x)) as [Hpos|Hzero].
      + (* positive variance: cell by cell *)
        assert (HvQ : (0 < qvar qd)%Q) by (apply Rlt_Qlt; rewrite Q2R_0, Ev; exact Hpos).
        unfold rstandardize. destruct (Req_EM_T (rvar x) 0) as [E0|_]; [lra|].
        apply (nth_ext _ _ 0%R 0%R); [unfold z, x; rewrite !map_length; symmetry; exact Hlen|].
        intros i Hi. unfold z in Hi. rewrite map_length in Hi.
        assert (Hl2 : length (qdev qd) = length zs) by (unfold qdev; rewrite map_length; exact Hlen).
        pose proof (combine_forallb_nth _ 0%Q 0%Q _ _ Hl2 H i) as Hc. rewrite Hl2 in Hc. specialize (Hc Hi).
        cbv beta iota in Hc. destruct (zcheck0_cell _ _ _ HvQ Hc) as [C1 C2].
        rewrite Ev in C1.
        assert (Ed : Q2R (nth i (qdev qd) 0%Q) = (nth i x 0 - rmean x)%R).
        { rewrite <- (map_nth Q2R), Q2R_0. rewrite Q2R_qdev by exact Hq. fold x.
          rewrite (nth_indep _ 0%R ((fun y => (y - rmean x)%R) 0%R)) by (rewrite map_length; unfold x; rewrite map_length, Hlen; exact Hi).
          rewrite (map_nth (fun y => (y - rmean x)%R)). reflexivity. }
        rewrite Ed in C1, C2.
        unfold z. rewrite <- Q2R_0 at 1. rewrite (map_nth Q2R).
        rewrite (nth_indep _ 0%R ((fun y => ((y - rmean x) / sqrt (rvar x))%R) 0%R)) by (rewrite map_length; unfold x; rewrite map_length, Hlen; exact Hi).
        rewrite (map_nth (fun y => ((y - rmean x) / sqrt (rvar x))%R)).
        apply zcheck_exact_sound; [exact Hpos|exact C1|exact C2].
      + (* zero variance contradicts "not constant" *)
        exfalso. symmetry in Hzero.
        assert (Hall : forall y, In y x -> y = rmean x) by (apply rvar_zero_all; assumption).
        assert (Ec' : forallb (Qeq_bool d0) qd = true).
        { apply forallb_forall. intros q Hq'. apply Qeq_bool_iff. apply eqR_Qeq.
          rewrite (Hall (Q2R q)) by (unfold x; apply in_map; exact Hq').
          rewrite (Hall (Q2R d0)); [reflexivity|]. unfold x. apply in_map. rewrite Eqd. left. reflexivity. }
        congruence. }
  split; [exact Hmain|]. split.
  - intro Hpos. rewrite Hmain. apply standardize_mean0_var1_lemma. exact Hpos.
  - intro Hz. rewrite Hmain. apply standardize_var0_lemma. exact Hz.
Qed.

(* the hypothesis is satisfiable: dosages 0, 2, 2, 0 (mean 1, variance 1) standardise to -1, 1, 1, -1 *)
Example zcol_exact_inhabited :
  zcol_tol 0 [0%Q; 2%Q; 2%Q; 0%Q] [(-1)%Q; 1%Q; 1%Q; (-1)%Q] = true
  /\ zcol_tol 0 [1%Q; 1%Q] [0%Q; 0%Q] = true
  /\ (0 < qvar [0%Q; 2%Q; 2%Q; 0%Q])%Q
  /\ forallb (fun '(d, z) => zcheck_tol tol9 (qvar [0%Q; 2%Q; 2%Q; 0%Q]) d z)
             (combine (qdev [0%Q; 2%Q; 2%Q; 0%Q]) [(-1)%Q; 1%Q; 1%Q; (-1)%Q]) = true.
Proof. repeat split; vm_compute; reflexivity. Qed.

(* ---------- (2b) the real tolerance, whole column: second moment ------------------- *)

Definition psum (l : list Q) : Q := fold_right Qplus 0%Q l.

Lemma qsum_psum l : (qsum l == psum l)%Q.
Proof. induction l as [|a r IH]; [reflexivity|]. rewrite qsum_cons, Qred_correct, IH. reflexivity. Qed.

Lemma map_fst_combine' {A B} : forall (a : list A) (b : list B), length a = length b -> map fst (combine a b) = a.
Proof. induction a as [|x r IH]; intros [|y s] H; cbn in *; try lia; [reflexivity|]. f_equal. apply IH. lia. Qed.
Lemma map_snd_combine' {A B} : forall (a : list A) (b : list B), length a = length b -> map snd (combine a b) = b.
Proof. induction a as [|x r IH]; intros [|y s] H; cbn in *; try lia; [reflexivity|]. f_equal. apply IH. lia. Qed.

Lemma cells_sum_bound : forall (l : list (Q * Q)) v tol, (0 < v)%Q ->
  (forall d z, In (d, z) l -> (Qabs (qsq z - qsq d / v) <= tol * (qsq d / v + 1))%Q) ->
  (Qabs (psum (map (fun p => qsq (snd p)) l) - psum (map (fun p => qsq (fst p)) l) / v)
   <= tol * (psum (map (fun p => qsq (fst p)) l) / v + inject_Z (Z.of_nat (length l))))%Q.
Proof.
  intros l v tol Hv. assert (Hv0 : ~ (v == 0)%Q) by (intro E; rewrite E in Hv; discriminate).
  induction l as [|[d z] r IH]; intro H.
  - cbn [map psum fold_right length]. change (inject_Z (Z.of_nat 0)) with 0%Q.
    assert (E1 : (0 - 0 / v == 0)%Q) by (field; exact Hv0).
    assert (E2 : (tol * (0 / v + 0) == 0)%Q) by (field; exact Hv0).
    rewrite E2. apply Qle_trans with (Qabs 0); [|apply Qle_refl].
    apply Qle_lteq. right. apply Qabs_wd. exact E1.
  - cbn [map psum fold_right fst snd length]. fold (psum (map (fun p => qsq (snd p)) r)). fold (psum (map (fun p => qsq (fst p)) r)).
    set (S := psum (map (fun p => qsq (snd p)) r)) in *. set (D := psum (map (fun p => qsq (fst p)) r)) in *.
    assert (H1 := H d z (or_introl eq_refl)).
    assert (H2 : (Qabs (S - D / v) <= tol * (D / v + inject_Z (Z.of_nat (length r))))%Q).
    { apply IH. intros d' z' Hin. apply H. right. exact Hin. }
    setoid_replace (qsq z + S - (qsq d + D) / v)%Q with ((qsq z - qsq d / v) + (S - D / v))%Q by (field; exact Hv0).
    eapply Qle_trans; [apply Qabs_triangle|].
    setoid_replace (tol * ((qsq d + D) / v + inject_Z (Z.of_nat (Datatypes.S (length r)))))%Q
      with (tol * (qsq d / v + 1) + tol * (D / v + inject_Z (Z.of_nat (length r))))%Q.
    + apply Qplus_le_compat; assumption.
    + rewrite Nat2Z.inj_succ. unfold Z.succ. rewrite inject_Z_plus. field. exact Hv0.
Qed.

(* The column check at the tolerance the checker uses, on a dosage column with positive
   variance: the mean of the squares of the checked values is 1 up to twice the tolerance
   (for the standardised column it is exactly the variance, 1) *)
Theorem zcol_second_moment : forall tol qd zs,
  (0 < qvar qd)%Q -> length zs = length qd ->
  forallb (fun '(d, z) => zcheck_tol tol (qvar qd) d z) (combine (qdev qd) zs) = true ->
  (Qabs (qmean (map qsq zs) - 1) <= 2 * tol)%Q.
Proof.
  intros tol qd zs Hv Hlen H.
  set (v := qvar qd) in *. set (d := qdev qd) in *.
  assert (Hv0 : ~ (v == 0)%Q) by (intro E; rewrite E in Hv; discriminate).
  assert (Hld : length d = length zs) by (unfold d, qdev; rewrite map_length; symmetry; exact Hlen).
  assert (Hne : qd <> []).
  { intro E. unfold v in Hv. rewrite E in Hv. vm_compute in Hv. discriminate. }
  set (n := inject_Z (Z.of_nat (length qd))).
  assert (Hn : (0 < n)%Q).
  { unfold n, Qlt. cbn. destruct qd; [contradiction|]. cbn [length]. lia. }
  assert (Hn0 : ~ (n == 0)%Q) by (intro E; rewrite E in Hn; discriminate).
  (* v n = sum of the squared deviations *)
  assert (HD : (psum (map qsq d) == v * n)%Q).
  { unfold v, qvar. fold d. rewrite Qred_correct, qsum_psum. unfold qlen, lenZ. fold n. field. exact Hn0. }
  pose proof (cells_sum_bound (combine d zs) v tol Hv) as Hb.
  assert (Hc : forall d' z', In (d', z') (combine d zs) -> (Qabs (qsq z' - qsq d' / v) <= tol * (qsq d' / v + 1))%Q).
  { intros d' z' Hin. rewrite forallb_forall in H. specialize (H _ Hin). cbv beta iota in H.
    apply (zcheck_tol_sound tol v d' z' Hv H). }
  specialize (Hb Hc).
  rewrite <- (map_map snd qsq), <- (map_map fst qsq) in Hb.
  rewrite map_snd_combine', map_fst_combine' in Hb by exact Hld.
  rewrite combine_length, Hld, Nat.min_id, Hlen in Hb. fold n in Hb.
  rewrite HD in Hb.
  setoid_replace (v * n / v)%Q with n in Hb by (field; exact Hv0).
  (* divide by n *)
  unfold qmean. rewrite Qred_correct, qsum_psum. unfold qlen, lenZ. rewrite map_length, Hlen. fold n.
  setoid_replace (psum (map qsq zs) / n - 1)%Q with ((psum (map qsq zs) - n) * / n)%Q by (field; exact Hn0).
  rewrite Qabs_Qmult, (Qabs_pos (/ n)) by (apply Qlt_le_weak, Qinv_lt_0_compat; exact Hn).
  setoid_replace (2 * tol)%Q with ((tol * (n + n)) * / n)%Q by (field; exact Hn0).
  apply Qmult_le_compat_r; [exact Hb|apply Qlt_le_weak, Qinv_lt_0_compat; exact Hn].
Qed.
