(* C09 - property theorems only. *)
From HV Require Import Prelude Stats StatsR C15_Model C15_Check C15_Proofs C09_Model C09_Check C09_Proofs.
From HV Require Import C09_ProofsModel C09_ProofsStd C09_ProofsFloat C09_ProofsCli.
From Coq Require Import Reals Qreals Qround SpecFloat.
Open Scope Z_scope.

(* The noise variance run() computes (nested conditionals, verbatim) is the documented
   piecewise formula: max 0 (1 - sum beta^2) when neither heritability nor environment
   is given, else v' (1/h2' - 1) with v' = environment or else the variance of the
   genetic component (1 if that is 0) and h2' defaulting to 1/2. *)
Theorem C09_noise_var_documented : forall betas h2 env v,
  (noise_var betas h2 env v == documented_noise betas h2 env v)%Q.
Proof. exact noise_var_documented_lemma. Qed.
Print Assumptions C09_noise_var_documented.

(* ... and on the CLI's domain it is non-negative, so the sqrt is defined *)
Theorem C09_noise_var_nonneg : forall betas h2 env v,
  opt_in_dom (fun h => 0 < h /\ h <= 1)%Q h2 -> opt_in_dom (fun e => 0 <= e)%Q env -> (0 <= v)%Q ->
  (0 <= documented_noise betas h2 env v)%Q.
Proof. exact noise_nonneg_lemma. Qed.
Print Assumptions C09_noise_var_nonneg.

Theorem C09_variance_nonneg : forall l, (0 <= qvar l)%Q.
Proof. exact qvar_nonneg. Qed.
Print Assumptions C09_variance_nonneg.

(* the hypotheses of C09_noise_var_nonneg are satisfiable *)
Example C09_noise_domain_inhabited :
  opt_in_dom (fun h => 0 < h /\ h <= 1)%Q (Some (1 # 2)) /\ opt_in_dom (fun e => 0 <= e)%Q (Some 1%Q)
  /\ (documented_noise [(3 # 10)%Q] (Some (1 # 2)) None 0 == 1)%Q.
Proof. repeat split; try discriminate; reflexivity. Qed.
Print Assumptions C09_noise_domain_inhabited.

(* Case/control: for every liability vector, every k and every selection satisfying
   argpartition's contract (k distinct indices below n, none left out is larger):
   exactly k cases, every case's liability >= every control's, k = n => all cases,
   k = 0 (in particular K = 0) => no case. *)
Theorem C09_threshold_spec : forall (liab : nat -> Q) (n : nat) (k : Z) (sel : list Z),
  NoDup sel ->
  (forall i, In i sel -> 0 <= i < Z.of_nat n) ->
  (k <> Z.of_nat n -> lenZ sel = k) ->
  (forall i j, In (Z.of_nat i) sel -> ~ In (Z.of_nat j) sel -> (j < n)%nat -> (liab j <= liab i)%Q) ->
  let cc := threshold n k sel in
  length cc = n
  /\ (0 <= k <= Z.of_nat n -> count_true cc = k)
  /\ (forall i j, (i < n)%nat -> (j < n)%nat ->
        nth i cc false = true -> nth j cc false = false -> (liab j <= liab i)%Q)
  /\ (k = Z.of_nat n -> cc = repeat true n)
  /\ (k = 0 -> (0 < n)%nat -> forall i, (i < n)%nat -> nth i cc false = false).
Proof. exact threshold_spec_lemma. Qed.
Print Assumptions C09_threshold_spec.

(* the contract of C09_threshold_spec is satisfiable: 3 samples with liabilities 0, 1, 2,
   k = 1, the selection {2} *)
Example C09_threshold_contract_inhabited :
  let liab := fun i : nat => inject_Z (Z.of_nat i) in
  NoDup [2] /\ (forall i, In i [2] -> 0 <= i < Z.of_nat 3) /\ lenZ [2] = 1
  /\ (forall i j, In (Z.of_nat i) [2] -> ~ In (Z.of_nat j) [2] -> (j < 3)%nat -> (liab j <= liab i)%Q)
  /\ threshold 3 1 [2] = [false; false; true].
Proof. exact threshold_contract_inhabited_lemma. Qed.
Print Assumptions C09_threshold_contract_inhabited.

(* soundness of the liability check evaluated on the implementation's output (rows = is a
   case, liability, slack): no control's liability exceeds a case's by more than the slacks;
   and the one-pass check accepts exactly what the pairwise comparison accepts *)
Theorem C09_liability_check_sound : forall rows : list (bool * (Q * Q)),
  liab_sep rows = true ->
  forall ci li si cj lj sj, In (ci, (li, si)) rows -> In (cj, (lj, sj)) rows ->
  ci = true -> cj = false -> (lj <= li + si + sj)%Q.
Proof. exact liab_check_sound. Qed.
Print Assumptions C09_liability_check_sound.

Theorem C09_liability_check_complete : forall rows : list (bool * (Q * Q)),
  (forall li si lj sj, In (true, (li, si)) rows -> In (false, (lj, sj)) rows -> (lj <= li + si + sj)%Q) ->
  liab_sep rows = true.
Proof. exact liab_sep_complete. Qed.
Print Assumptions C09_liability_check_complete.

(* R calls of run append R columns for the same samples in input order, and the names
   the writer emits for them are pairwise distinct *)
Theorem C09_replications_columns : forall (fl : Type) (smp : list name) (nm : name) (cols : list (list fl)),
  cols <> [] -> Forall (fun c => length c = length smp) cols ->
  exists t', replicate_columns smp nm cols = Ok (false, t')
    /\ samples t' = smp
    /\ names t' = repeat nm (length cols)
    /\ length (data t') = length smp
    /\ length (unique_names (names t')) = length cols
    /\ NoDup (unique_names (names t')).
Proof. exact @replications_columns_lemma. Qed.
Print Assumptions C09_replications_columns.

(* After the repair every beta multiplies the column of its own ID: the effects kept are
   those whose ID is among the genotype IDs (absent ones are dropped, order kept), each
   with the first column that holds its ID. *)
Theorem C09_effects_aligned : forall (B : Type) (gids : list C09_Model.id) (eff : list (C09_Model.id * B)),
  map snd (aligned gids eff) = filter (fun e => C15_Proofs.present C09_Model.id name_eqb gids (fst e)) eff
  /\ forall k e, In (k, e) (aligned gids eff) ->
       In e eff /\ nth_error gids k = Some (fst e)
       /\ forall j, (j < k)%nat -> nth_error gids j <> Some (fst e).
Proof. exact @aligned_spec. Qed.
Print Assumptions C09_effects_aligned.

(* the pinned code applied the beta of an absent effect to the column of another:
   two effects, the second ID absent: legacy g = (b1 + b2) z, fixed g = b1 z *)
Example C09_legacy_absent_id_refuted :
  let gids := [[118; 48]] in                                  (* "v0" *)
  let eff := [([118; 48], (1 # 2)%Q); ([122; 122], (1 # 4)%Q)] in   (* v0: 1/2, zz: 1/4 *)
  let z := [[1%Q]; [2%Q]] in
  map (fun x => fst (snd x)) (aligned gids eff) = [[118; 48]]
  /\ genetic (map (fun x => snd (snd x)) (aligned gids eff)) z = [(1 # 2)%Q; 1%Q]
  /\ legacy_genetic (map snd eff) z = Ok [(3 # 4)%Q; ((3 # 4) * 2)%Q].
Proof. vm_compute. repeat split. Qed.
Print Assumptions C09_legacy_absent_id_refuted.

(* Over the reals: a column with positive variance is standardised to mean 0 and
   variance 1; zero variance (in particular a constant column) gives all zeros.
   Depends on the standard library's real-number axioms. *)
Theorem C09_standardize_mean0_var1 : forall l : list R,
  (0 < rvar l)%R -> rmean (rstandardize l) = 0%R /\ rvar (rstandardize l) = 1%R.
Proof. exact standardize_mean0_var1_lemma. Qed.
Print Assumptions C09_standardize_mean0_var1.

Theorem C09_standardize_constant_zero : forall (c : R) (n : nat),
  rstandardize (repeat c n) = map (fun _ => 0%R) (repeat c n).
Proof. exact standardize_constant_zero_lemma. Qed.
Print Assumptions C09_standardize_constant_zero.

(* what the boolean z-check means at tolerance 0: z is the standardised value *)
Theorem C09_zcheck_exact_sound : forall v d z : R,
  (0 < v)%R -> (z * z * v = d * d)%R -> ((0 <= z)%R <-> (0 <= d)%R) -> z = (d / sqrt v)%R.
Proof. exact zcheck_exact_sound. Qed.
Print Assumptions C09_zcheck_exact_sound.

(* ------------------------------------------------------------------------------------
   The linear model, composed (C09_Model.run_q: one call of run over exact rationals; the
   standardised matrix is an input, see C09_zcol_exact_sound for what the checker demands
   of it).
   ------------------------------------------------------------------------------------ *)

(* Z_j (raw) is the per-sample dosage of the column: the sum of the two alleles, in Z -
   a repeat with 130 copies on both strands has dosage 260, not 260 mod 256 *)
Theorem C09_dosage_sum : forall gt cols i j, (i < length gt)%nat -> (j < length cols)%nat ->
  nth j (nth i (dosage gt cols) []) 0
  = fst (nth (nth j cols 0%nat) (nth i gt []) (0, 0)) + snd (nth (nth j cols 0%nat) (nth i gt []) (0, 0)).
Proof. exact dosage_nth. Qed.
Print Assumptions C09_dosage_sum.

Example C09_dosage_no_wrap : dosage [[(130, 130)]; [(253, 253)]; [(128, 128)]] [0%nat] = [[260]; [506]; [256]].
Proof. reflexivity. Qed.
Print Assumptions C09_dosage_no_wrap.

(* every liability is sum_j beta_j Z_ij + eps_i *)
Theorem C09_linear_model : forall betas z eps, length eps = length z ->
  length (liability_q betas z eps) = length z
  /\ forall i, (i < length z)%nat ->
       (nth i (liability_q betas z eps) 0 == lincomb betas (nth i z []) + nth i eps 0)%Q.
Proof. exact liability_q_spec. Qed.
Print Assumptions C09_linear_model.

(* one call of run: the effects used are those whose ID is among the genotype IDs, each
   beta with the first column of its own ID; the raw dosage is the allele sum; the noise
   variance is the documented one; the quantitative phenotype is sum beta Z + eps on the
   matrix Z the betas multiply (standardised: given; else the raw dosage); the
   case/control phenotype marks the threshold selection *)
Theorem C09_run_model_spec : forall gids gt eff zstd h2 env kk eps sel out,
  run_q gids gt eff zstd h2 env kk eps sel = Ok out ->
  let al := aligned gids eff in
  let betas := map (fun x => snd (snd x)) al in
  let z := match zstd with Some z => z | None => map (map inject_Z) (dosage gt (map fst al)) end in
  map snd al = filter (fun e => C15_Proofs.present C09_Model.id name_eqb gids (fst e)) eff
  /\ (forall k e, In (k, e) al -> nth_error gids k = Some (fst e))
  /\ ro_ids out = map (fun x => fst (snd x)) al
  /\ ro_dosage out = dosage gt (map fst al)
  /\ (ro_noise out == documented_noise betas h2 env (qvar (genetic betas z)))%Q
  /\ (length eps = length z ->
      match kk with
      | None => length (ro_pt out) = length z
                /\ forall i, (i < length z)%nat ->
                     (nth i (ro_pt out) 0 == lincomb betas (nth i z []) + nth i eps 0)%Q
      | Some k => ro_pt out = map bool_q (threshold (length z) k sel)
      end).
Proof. exact run_q_spec. Qed.
Print Assumptions C09_run_model_spec.

Example C09_run_model_inhabited :
  exists out, run_q [[118; 48]] [[(0, 1)]; [(1, 1)]] [([118; 48], (1 # 2)%Q)] None None None None [0%Q; (1 # 4)%Q] [] = Ok out
              /\ ro_pt out = [(1 # 2)%Q; (5 # 4)%Q].
Proof. exact run_q_inhabited. Qed.
Print Assumptions C09_run_model_inhabited.

(* case/control on the model's liabilities: 0/1 vector, exactly k ones, every case's
   sum beta Z + eps is >= every control's *)
Theorem C09_case_control_model : forall betas z eps k sel,
  length eps = length z ->
  let l := liability_q betas z eps in
  let n := length z in
  NoDup sel ->
  (forall i, In i sel -> 0 <= i < Z.of_nat n) ->
  (k <> Z.of_nat n -> lenZ sel = k) ->
  (forall i j, In (Z.of_nat i) sel -> ~ In (Z.of_nat j) sel -> (j < n)%nat -> (nth j l 0 <= nth i l 0)%Q) ->
  let pt := phenotype_q betas z eps (Some k) sel in
  length pt = n
  /\ (forall i, (i < n)%nat -> nth i pt 0%Q = 1%Q \/ nth i pt 0%Q = 0%Q)
  /\ (0 <= k <= Z.of_nat n -> count_ones pt = k)
  /\ (forall i j, (i < n)%nat -> (j < n)%nat -> nth i pt 0%Q = 1%Q -> nth j pt 0%Q = 0%Q ->
        (lincomb betas (nth j z []) + nth j eps 0 <= lincomb betas (nth i z []) + nth i eps 0)%Q).
Proof. exact case_control_model. Qed.
Print Assumptions C09_case_control_model.

Example C09_case_control_model_inhabited :
  let l := liability_q [(1 # 2)%Q] [[0%Q]; [1%Q]; [2%Q]] [0%Q; 0%Q; 0%Q] in
  NoDup [2] /\ (forall i, In i [2] -> 0 <= i < 3) /\ lenZ [2] = 1
  /\ (forall i j, In (Z.of_nat i) [2] -> ~ In (Z.of_nat j) [2] -> (j < 3)%nat -> (nth j l 0 <= nth i l 0)%Q)
  /\ phenotype_q [(1 # 2)%Q] [[0%Q]; [1%Q]; [2%Q]] [0%Q; 0%Q; 0%Q] (Some 1) [2] = [0%Q; 0%Q; 1%Q].
Proof. exact case_control_model_inhabited. Qed.
Print Assumptions C09_case_control_model_inhabited.

(* ------------------------------------------------------------------------------------
   k = int(prevalence * n)
   ------------------------------------------------------------------------------------ *)

(* Python's int() of a finite non-negative double is the floor of its exact rational
   value (k_of K n is by definition sf_trunc of the double product K * float(n)) *)
Theorem C09_int_is_floor : forall (x : spec_float) (q : Q),
  sf2q x = Some q -> (0 <= q)%Q -> sf_trunc x = Some (Qfloor q).
Proof. exact trunc_is_floor. Qed.
Print Assumptions C09_int_is_floor.

(* over the rationals floor(K n) is a count in [0, n] (and < n: prevalence < 1 never makes
   everybody a case) *)
Theorem C09_floor_Kn_rational : forall K n, (0 <= K)%Q -> (K < 1)%Q -> 0 <= n ->
  0 <= k_rat K n <= n /\ (0 < n -> k_rat K n < n).
Proof. exact k_rat_bounds. Qed.
Print Assumptions C09_floor_Kn_rational.

(* what run does with a k in [0, n]: k samples are marked (the other branches of cases_of
   - everybody, ValueError, counting from the end - need a prevalence outside [0,1)) *)
Theorem C09_cases_of_in_range : forall k n, 0 <= k <= n -> cases_of k n = Ok k.
Proof. exact cases_of_in_range. Qed.
Print Assumptions C09_cases_of_in_range.

(* ------------------------------------------------------------------------------------
   what the clauses of holds mean on the implementation's output
   ------------------------------------------------------------------------------------ *)

Theorem C09_rng_call_sound : forall c r, rng_call_holds c r = true ->
  f2q (rp_loc r) = Some (f2q0 (rp_loc r)) /\ (f2q0 (rp_loc r) == 0)%Q /\ rp_size r = Z.of_nat (nsamp c).
Proof. exact rng_call_holds_sound. Qed.
Print Assumptions C09_rng_call_sound.

Theorem C09_zcheck_tolerance_sound : forall tol v d z, (0 < v)%Q -> zcheck_tol tol v d z = true ->
  (Qabs (qsq z - qsq d / v) <= tol * (qsq d / v + 1))%Q
  /\ ((tol * v < qsq d)%Q -> qsgn z = qsgn d).
Proof. exact zcheck_tol_sound. Qed.
Print Assumptions C09_zcheck_tolerance_sound.

Theorem C09_zcol_checker_is_tol9 : forall ds zs,
  zcol_ok ds zs = true -> zcol_tol tol9 (map zq ds) (map f2q0 zs) = true.
Proof. exact zcol_ok_is_tol9. Qed.
Print Assumptions C09_zcol_checker_is_tol9.

(* the column check at tolerance 0 (over the reals): the checked column IS the
   standardised dosage column - mean 0 and variance 1, or all zeros when constant *)
Theorem C09_zcol_exact_sound : forall (qd zs : list Q),
  qd <> [] -> zcol_tol 0 qd zs = true ->
  let x := map Q2R qd in
  let z := map Q2R zs in
  z = rstandardize x
  /\ ((0 < rvar x)%R -> rmean z = 0%R /\ rvar z = 1%R)
  /\ (rvar x = 0%R -> z = map (fun _ => 0%R) x).
Proof. exact zcol_exact_sound. Qed.
Print Assumptions C09_zcol_exact_sound.

Example C09_zcol_exact_inhabited :
  zcol_tol 0 [0%Q; 2%Q; 2%Q; 0%Q] [(-1)%Q; 1%Q; 1%Q; (-1)%Q] = true
  /\ zcol_tol 0 [1%Q; 1%Q] [0%Q; 0%Q] = true
  /\ (0 < qvar [0%Q; 2%Q; 2%Q; 0%Q])%Q
  /\ forallb (fun '(d, z) => zcheck_tol tol9 (qvar [0%Q; 2%Q; 2%Q; 0%Q]) d z)
             (combine (qdev [0%Q; 2%Q; 2%Q; 0%Q]) [(-1)%Q; 1%Q; 1%Q; (-1)%Q]) = true.
Proof. exact zcol_exact_inhabited. Qed.
Print Assumptions C09_zcol_exact_inhabited.

(* the column check at the tolerance the checker really uses, on a dosage column with
   positive variance: the checked column's second moment is 1 up to twice the tolerance
   (the standardised column has mean 0, so this is its variance) *)
Theorem C09_zcol_second_moment : forall tol qd zs,
  (0 < qvar qd)%Q -> length zs = length qd ->
  forallb (fun '(d, z) => zcheck_tol tol (qvar qd) d z) (combine (qdev qd) zs) = true ->
  (Qabs (qmean (map qsq zs) - 1) <= 2 * tol)%Q.
Proof. exact zcol_second_moment. Qed.
Print Assumptions C09_zcol_second_moment.

(* holds on an observed answer in the property's domain: every replicate's one draw is
   normal(0, s, n) with s >= 0 and s^2 the documented variance up to 1e-9 of the operands'
   magnitude, and the phenotype clause holds *)
Theorem C09_holds_run_sound : forall c o, in_domain c = true -> r_obs c = Ok o -> holds_run c = true ->
  z_spec_ok c o = true /\ genetic_ok c o = true /\ columns_ok false c o = true
  /\ forall r, In r (o_reps o) ->
       (f2q0 (rp_loc r) == 0)%Q /\ rp_size r = Z.of_nat (nsamp c)
       /\ (0 <= f2q0 (rp_scale r))%Q
       /\ (Qabs (qsq (f2q0 (rp_scale r)) - documented_noise (betas_of c) (oq (r_h2 c)) (oq (r_env c)) (gvar o))
           <= tol9 * noise_scale (betas_of c) (oq (r_h2 c)) (oq (r_env c)) (gvar o))%Q
       /\ pheno_ok false c o r = true.
Proof. exact holds_run_sound. Qed.
Print Assumptions C09_holds_run_sound.

Theorem C09_pheno_quant_sound : forall c o r, r_prev c = None -> pheno_ok false c o r = true ->
  length (o_g o) = nsamp c ->
  length (rp_eps r) = nsamp c /\ length (rp_pt r) = nsamp c
  /\ forall i, (i < nsamp c)%nat ->
       let g := f2q0 (nth i (o_g o) PrimFloat.zero) in
       let e := f2q0 (nth i (rp_eps r) PrimFloat.zero) in
       let p := f2q0 (nth i (rp_pt r) PrimFloat.zero) in
       (Qabs (p - (g + e)) <= tol9 * (Qabs g + Qabs e))%Q.
Proof. exact pheno_quant_sound. Qed.
Print Assumptions C09_pheno_quant_sound.

Theorem C09_pheno_cc_sound : forall c o r K, r_prev c = Some K -> pheno_ok false c o r = true ->
  exists k, k_of K (Z.of_nat (nsamp c)) = Some k
    /\ count_true (map is_case (rp_pt r)) = k
    /\ Forall (fun p => PrimFloat.eqb p PrimFloat.one = true \/ PrimFloat.eqb p PrimFloat.zero = true) (rp_pt r)
    /\ let ge := combine (o_g o) (rp_eps r) in
       let liab := map (fun '(g, e) => (f2q0 g + f2q0 e)%Q) ge in
       let slack := map (fun '(g, e) => (tol9 * (Qabs (f2q0 g) + Qabs (f2q0 e)))%Q) ge in
       forall ci li si cj lj sj,
         In (ci, (li, si)) (combine (map is_case (rp_pt r)) (combine liab slack)) ->
         In (cj, (lj, sj)) (combine (map is_case (rp_pt r)) (combine liab slack)) ->
         ci = true -> cj = false -> (lj <= li + si + sj)%Q.
Proof. exact pheno_cc_sound. Qed.
Print Assumptions C09_pheno_cc_sound.

(* ------------------------------------------------------------------------------------
   The property is about `simphenotype`, the COMMAND: from the options the user wrote to the
   arguments PhenoSimulator.run computes the noise variance from
   ------------------------------------------------------------------------------------ *)

(* the command (C09_Model.cli_defaults) passes every option through; absent ones get the declared
   defaults: one replication, normalised genotypes, and None for everything else *)
Theorem C09_cli_defaults_spec : forall (F : Type) (o : cli_opts F),
  let a := cli_defaults o in
  sa_h2 a = co_h2 o /\ sa_env a = co_env o /\ sa_prev a = co_prev o
  /\ sa_seed a = co_seed o /\ sa_chunk a = co_chunk o
  /\ sa_reps a = match co_reps o with Some r => r | None => 1 end
  /\ sa_norm a = match co_norm o with Some false => false | _ => true end.
Proof. exact cli_defaults_spec. Qed.
Print Assumptions C09_cli_defaults_spec.

(* the documented noise formula applied to the USER's options is noise_var (what run computes)
   of the arguments the command passes, for all betas and variances of the genetic component *)
Theorem C09_cli_noise_documented : forall (o : cli_opts Q) betas v,
  (noise_var betas (sa_h2 (cli_defaults o)) (sa_env (cli_defaults o)) v
   == documented_noise betas (co_h2 o) (co_env o) v)%Q.
Proof. exact cli_noise_documented. Qed.
Print Assumptions C09_cli_noise_documented.

(* ... and every command with that property hands None / None to run when --heritability and
   --environment are both absent (whatever the other options, --no-normalize included) *)
Theorem C09_cli_absent_must_stay_absent : forall f : cli_opts Q -> sim_args Q,
  (forall o betas v, (0 <= v)%Q ->
     (noise_var betas (sa_h2 (f o)) (sa_env (f o)) v == documented_noise betas (co_h2 o) (co_env o) v)%Q) ->
  forall o, co_h2 o = None -> co_env o = None -> sa_h2 (f o) = None /\ sa_env (f o) = None.
Proof. exact cli_absent_must_stay_absent. Qed.
Print Assumptions C09_cli_absent_must_stay_absent.

Example C09_cli_absent_must_stay_absent_inhabited :
  forall o betas v, (0 <= v)%Q ->
    (noise_var betas (sa_h2 (cli_defaults o)) (sa_env (cli_defaults o)) v
     == documented_noise betas (co_h2 o) (co_env o) v)%Q.
Proof. exact cli_absent_must_stay_absent_inhabited. Qed.
Print Assumptions C09_cli_absent_must_stay_absent_inhabited.

(* "absent heritability becomes 0.5 (the default shown in the help) under --no-normalize":
   `--no-normalize` alone, beta = 1/2, raw dosages with variance 4: documented 3/4, computed 4 *)
Example C09_cli_h2_filled_refuted :
  let a := cli_defaults_h2_filled (1 # 2)%Q no_normalize_only in
  sa_h2 a = Some (1 # 2)%Q
  /\ (documented_noise [(1 # 2)%Q] (co_h2 no_normalize_only) (co_env no_normalize_only) 4 == 3 # 4)%Q
  /\ (noise_var [(1 # 2)%Q] (sa_h2 a) (sa_env a) 4 == 4)%Q
  /\ ~ (noise_var [(1 # 2)%Q] (sa_h2 a) (sa_env a) 4
        == documented_noise [(1 # 2)%Q] (co_h2 no_normalize_only) (co_env no_normalize_only) 4)%Q.
Proof. exact cli_h2_filled_refuted. Qed.
Print Assumptions C09_cli_h2_filled_refuted.

(* holds on a command-line case (built by mkr_cli from the options the user wrote), in the domain,
   on an answer: as many replicates as replications asked for (1 when -r is absent), genotypes
   standardised unless --no-normalize was written, and every replicate's draw has the variance
   documented for the user's --heritability / --environment - absent meaning absent *)
Theorem C09_holds_cli_sound : forall gids gt eff cl refuse o,
  let c := mkr_cli gids gt eff cl refuse (Ok o) in
  in_domain c = true -> holds_run c = true ->
  cli_rejects cl = false
  /\ Z.of_nat (length (o_reps o)) = user_reps (cl_opts cl)
  /\ (user_norm (cl_opts cl) = true -> z_spec_ok c o = true /\ exists z, o_z o = Some z)
  /\ forall r, In r (o_reps o) ->
       (0 <= f2q0 (rp_scale r))%Q
       /\ (Qabs (qsq (f2q0 (rp_scale r))
                 - documented_noise (betas_of c) (oq (co_h2 (cl_opts cl))) (oq (co_env (cl_opts cl))) (gvar o))
           <= tol9 * noise_scale (betas_of c) (oq (co_h2 (cl_opts cl))) (oq (co_env (cl_opts cl))) (gvar o))%Q
       /\ pheno_ok false c o r = true.
Proof. exact holds_cli_sound. Qed.
Print Assumptions C09_holds_cli_sound.

(* R replications yield R columns: holds demands one draw, one column and one written header
   name per replication asked for (e2e cases; `run` is called by the harness itself) *)
Theorem C09_holds_reps_sound : forall c o R, in_domain c = true -> r_obs c = Ok o -> holds_run c = true ->
  r_reps c = Some R ->
  Z.of_nat (length (o_reps o)) = R /\ length (o_names o) = length (o_reps o) /\ length (o_header o) = length (o_reps o).
Proof. exact holds_reps_sound. Qed.
Print Assumptions C09_holds_reps_sound.

(* agree on a command-line case the command accepts: simulate_pt was called with cli_defaults of the options *)
Theorem C09_cli_agree_sound : forall c cl, r_cli c = Some cl -> cli_rejects cl = false -> cli_agree c = true ->
  exists a, cl_args cl = Some a /\ args_same a (cli_defaults (cl_opts cl)) = true
    /\ sa_reps a = user_reps (cl_opts cl) /\ sa_norm a = user_norm (cl_opts cl)
    /\ (sa_h2 a = None <-> co_h2 (cl_opts cl) = None) /\ (sa_env a = None <-> co_env (cl_opts cl) = None).
Proof. exact cli_agree_sound. Qed.
Print Assumptions C09_cli_agree_sound.

(* ------------------------------------------------------------------------------------
   From K to the count (relative to the standard library's specification of the primitive
   floats and integers, through Flocq's bridge, and the axioms of Reals)
   ------------------------------------------------------------------------------------ *)
From Flocq Require Import Core.
Open Scope Z_scope.

(* k_of K n = int(K * n) for a finite double K in [0,1) and 0 <= n < 2^53: the floor of the
   correctly rounded (nearest-even, binary64) product; it lies in [0, n]; the rounded
   product is within 2^-53 K n + 2^-1075 of the exact one *)
Theorem C09_k_of_floor : forall (K : PrimFloat.float) (n : Z),
  ffinite K = true -> (0 <= f2q0 K)%Q -> (f2q0 K < 1)%Q -> 0 <= n < 2 ^ 53 ->
  let x := (Q2R (f2q0 K) * IZR n)%R in
  let p := rnd64 x in
  k_of K n = Some (Zfloor p)
  /\ 0 <= Zfloor p <= n
  /\ (0 <= p <= IZR n)%R
  /\ (Rabs (p - x) <= bpow radix2 (-53) * x + bpow radix2 (-1075))%R.
Proof. exact k_of_floor. Qed.
Print Assumptions C09_k_of_floor.

(* the hypotheses are satisfiable, and on 0.35 * 100 and 0.29 * 100 (not 29: the double
   nearest 0.29 times 100 rounds to 28.999999999999996) k_of evaluates to 35 and 28; the
   doubles 0.35 and 0.29 are written as the correctly rounded quotients 35/100 and 29/100 *)
Example C09_k_of_floor_inhabited :
  let K35 := PrimFloat.div (f_of_Z 35) (f_of_Z 100) in
  let K29 := PrimFloat.div (f_of_Z 29) (f_of_Z 100) in
  ffinite K35 = true /\ (0 <= f2q0 K35)%Q /\ (f2q0 K35 < 1)%Q
  /\ (f2q0 K35 == 3152519739159347 # 9007199254740992)%Q
  /\ k_of K35 100 = Some 35
  /\ k_of K29 100 = Some 28
  /\ k_of (f_of_Z 0) 7 = Some 0.
Proof. vm_compute. repeat split; first [reflexivity | discriminate]. Qed.
Print Assumptions C09_k_of_floor_inhabited.

(* "With prevalence K exactly floor(K n) samples are cases and every case's liability is
   >= every control's": from K, n and argpartition's contract to the count *)
Theorem C09_case_count_from_K : forall (liab : nat -> Q) (K : PrimFloat.float) (n : nat) (sel : list Z),
  ffinite K = true -> (0 <= f2q0 K)%Q -> (f2q0 K < 1)%Q -> Z.of_nat n < 2 ^ 53 ->
  let k := Zfloor (rnd64 (Q2R (f2q0 K) * IZR (Z.of_nat n))) in
  NoDup sel ->
  (forall i, In i sel -> 0 <= i < Z.of_nat n) ->
  (k <> Z.of_nat n -> lenZ sel = k) ->
  (forall i j, In (Z.of_nat i) sel -> ~ In (Z.of_nat j) sel -> (j < n)%nat -> (liab j <= liab i)%Q) ->
  let cc := threshold n k sel in
  k_of K (Z.of_nat n) = Some k
  /\ cases_of k (Z.of_nat n) = Ok k
  /\ length cc = n
  /\ count_true cc = k
  /\ (forall i j, (i < n)%nat -> (j < n)%nat ->
        nth i cc false = true -> nth j cc false = false -> (liab j <= liab i)%Q).
Proof. exact case_count_from_K. Qed.
Print Assumptions C09_case_count_from_K.

(* ... and evaluating holds on the implementation's output therefore means: every
   replicate has exactly floor(fl(K n)) cases *)
Theorem C09_holds_case_count : forall c o K, in_domain c = true -> r_obs c = Ok o -> holds_run c = true ->
  r_prev c = Some K -> Z.of_nat (nsamp c) < 2 ^ 53 ->
  forall r, In r (o_reps o) ->
    count_true (map is_case (rp_pt r)) = Zfloor (rnd64 (Q2R (f2q0 K) * IZR (Z.of_nat (nsamp c)))).
Proof. exact holds_case_count. Qed.
Print Assumptions C09_holds_case_count.
