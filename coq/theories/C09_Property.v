(* C09 - property theorems only. *)
From HV Require Import Prelude Stats StatsR C15_Model C15_Check C15_Proofs C09_Model C09_Check C09_Proofs.
From Coq Require Import Reals.

(* The noise variance run() computes (nested conditionals, verbatim) is the documented
   piecewise formula: max 0 (1 - sum beta^2) when neither heritability nor environment
   is given, else v' (1/h2' - 1) with v' = environment or else the variance of the
   genetic component (1 if that is 0) and h2' defaulting to 1/2. *)
Theorem C09_noise_var_documented : forall betas h2 env v,
  (noise_var betas h2 env v == documented_noise betas h2 env v)%Q.
Proof. exact noise_var_documented_lemma. Qed.
Print Assumptions C09_noise_var_documented.

(* ... and on the CLI's domain it is non-negative, so the sqrt is defined *)
Theorem C09_noise_var_nonneg : forall betas h2 env v,
  opt_in_dom (fun h => 0 < h /\ h <= 1)%Q h2 -> opt_in_dom (fun e => 0 <= e)%Q env -> (0 <= v)%Q ->
  (0 <= documented_noise betas h2 env v)%Q.
Proof. exact noise_nonneg_lemma. Qed.
Print Assumptions C09_noise_var_nonneg.

Theorem C09_variance_nonneg : forall l, (0 <= qvar l)%Q.
Proof. exact qvar_nonneg. Qed.
Print Assumptions C09_variance_nonneg.

(* the hypotheses of C09_noise_var_nonneg are satisfiable *)
Example C09_noise_domain_inhabited :
  opt_in_dom (fun h => 0 < h /\ h <= 1)%Q (Some (1 # 2)) /\ opt_in_dom (fun e => 0 <= e)%Q (Some 1%Q)
  /\ (documented_noise [(3 # 10)%Q] (Some (1 # 2)) None 0 == 1)%Q.
Proof. repeat split; try discriminate; reflexivity. Qed.
Print Assumptions C09_noise_domain_inhabited.

(* Case/control: for every liability vector, every k and every selection satisfying
   argpartition's contract (k distinct indices below n, none left out is larger):
   exactly k cases, every case's liability >= every control's, k = n => all cases,
   k = 0 (in particular K = 0) => no case. *)
Theorem C09_threshold_spec : forall (liab : nat -> Q) (n : nat) (k : Z) (sel : list Z),
  NoDup sel ->
  (forall i, In i sel -> 0 <= i < Z.of_nat n) ->
  (k <> Z.of_nat n -> lenZ sel = k) ->
  (forall i j, In (Z.of_nat i) sel -> ~ In (Z.of_nat j) sel -> (j < n)%nat -> (liab j <= liab i)%Q) ->
  let cc := threshold n k sel in
  length cc = n
  /\ (0 <= k <= Z.of_nat n -> count_true cc = k)
  /\ (forall i j, (i < n)%nat -> (j < n)%nat ->
        nth i cc false = true -> nth j cc false = false -> (liab j <= liab i)%Q)
  /\ (k = Z.of_nat n -> cc = repeat true n)
  /\ (k = 0 -> (0 < n)%nat -> forall i, (i < n)%nat -> nth i cc false = false).
Proof. exact threshold_spec_lemma. Qed.
Print Assumptions C09_threshold_spec.

(* the contract of C09_threshold_spec is satisfiable: 3 samples with liabilities 0, 1, 2,
   k = 1, the selection {2} *)
Example C09_threshold_contract_inhabited :
  let liab := fun i : nat => inject_Z (Z.of_nat i) in
  NoDup [2] /\ (forall i, In i [2] -> 0 <= i < Z.of_nat 3) /\ lenZ [2] = 1
  /\ (forall i j, In (Z.of_nat i) [2] -> ~ In (Z.of_nat j) [2] -> (j < 3)%nat -> (liab j <= liab i)%Q)
  /\ threshold 3 1 [2] = [false; false; true].
Proof. exact threshold_contract_inhabited_lemma. Qed.
Print Assumptions C09_threshold_contract_inhabited.

(* soundness of the pairwise liability check evaluated on the implementation's output *)
Theorem C09_liability_check_sound : forall rows : list (bool * (Q * Q)),
  forallb (fun '(ci, (li, si)) =>
     negb ci || forallb (fun '(cj, (lj, sj)) => cj || Qle_bool lj (li + si + sj)) rows) rows = true ->
  forall ci li si cj lj sj, In (ci, (li, si)) rows -> In (cj, (lj, sj)) rows ->
  ci = true -> cj = false -> (lj <= li + si + sj)%Q.
Proof. exact liab_check_sound. Qed.
Print Assumptions C09_liability_check_sound.

(* R calls of run append R columns for the same samples in input order, and the names
   the writer emits for them are pairwise distinct *)
Theorem C09_replications_columns : forall (fl : Type) (smp : list name) (nm : name) (cols : list (list fl)),
  cols <> [] -> Forall (fun c => length c = length smp) cols ->
  exists t', replicate_columns smp nm cols = Ok (false, t')
    /\ samples t' = smp
    /\ names t' = repeat nm (length cols)
    /\ length (data t') = length smp
    /\ length (unique_names (names t')) = length cols
    /\ NoDup (unique_names (names t')).
Proof. exact @replications_columns_lemma. Qed.
Print Assumptions C09_replications_columns.

(* After the repair every beta multiplies the column of its own ID: the effects kept are
   those whose ID is among the genotype IDs (absent ones are dropped, order kept), each
   with the first column that holds its ID. *)
Theorem C09_effects_aligned : forall (B : Type) (gids : list C09_Model.id) (eff : list (C09_Model.id * B)),
  map snd (aligned gids eff) = filter (fun e => C15_Proofs.present C09_Model.id name_eqb gids (fst e)) eff
  /\ forall k e, In (k, e) (aligned gids eff) ->
       In e eff /\ nth_error gids k = Some (fst e)
       /\ forall j, (j < k)%nat -> nth_error gids j <> Some (fst e).
Proof. exact @aligned_spec. Qed.
Print Assumptions C09_effects_aligned.

(* the pinned code applied the beta of an absent effect to the column of another:
   two effects, the second ID absent: legacy g = (b1 + b2) z, fixed g = b1 z *)
Example C09_legacy_absent_id_refuted :
  let gids := [[118; 48]] in                                  (* "v0" *)
  let eff := [([118; 48], (1 # 2)%Q); ([122; 122], (1 # 4)%Q)] in   (* v0: 1/2, zz: 1/4 *)
  let z := [[1%Q]; [2%Q]] in
  map (fun x => fst (snd x)) (aligned gids eff) = [[118; 48]]
  /\ genetic (map (fun x => snd (snd x)) (aligned gids eff)) z = [(1 # 2)%Q; 1%Q]
  /\ legacy_genetic (map snd eff) z = Ok [(3 # 4)%Q; ((3 # 4) * 2)%Q].
Proof. vm_compute. repeat split. Qed.
Print Assumptions C09_legacy_absent_id_refuted.

(* Over the reals: a column with positive variance is standardised to mean 0 and
   variance 1; zero variance (in particular a constant column) gives all zeros.
   Depends on the standard library's real-number axioms. *)
Theorem C09_standardize_mean0_var1 : forall l : list R,
  (0 < rvar l)%R -> rmean (rstandardize l) = 0%R /\ rvar (rstandardize l) = 1%R.
Proof. exact standardize_mean0_var1_lemma. Qed.
Print Assumptions C09_standardize_mean0_var1.

Theorem C09_standardize_constant_zero : forall (c : R) (n : nat),
  rstandardize (repeat c n) = map (fun _ => 0%R) (repeat c n).
Proof. exact standardize_constant_zero_lemma. Qed.
Print Assumptions C09_standardize_constant_zero.

(* what the boolean z-check means at tolerance 0: z is the standardised value *)
Theorem C09_zcheck_exact_sound : forall v d z : R,
  (0 < v)%R -> (z * z * v = d * d)%R -> ((0 <= z)%R <-> (0 <= d)%R) -> z = (d / sqrt v)%R.
Proof. exact zcheck_exact_sound. Qed.
Print Assumptions C09_zcheck_exact_sound.
