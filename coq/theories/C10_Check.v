(* C10 - checkers evaluated on double runs of the implementation.
   Generator states and outputs are interned by the harness (equal integers
   <=> equal states / equal bytes / equal parsed genotype content).
   [agree]: the generator state from which the run's first draw was made is
   the one the model predicts (the guard's semantics, per run), resp. the
   replicate start states are threaded as [replications] says.
   [holds]: the property - same seed => identical outputs whatever the
   history; replicate columns are not copies of each other; every replicate
   column is the run's one genetic component plus the noise vector drawn for
   THAT replicate (relation `replicates`, on the float values). *)
From HV Require Import Prelude Stats C10_Model.
From Coq Require Import PrimFloat Uint63 FloatOps SpecFloat.
Open Scope Z_scope.

(* ---------------- simgenotype *)
Record grun := mkgrun {
  r_pre : Z;          (* global generator state when the run was entered *)
  r_start : Z;        (* global generator state at the run's first draw *)
  r_trace : Z;        (* the whole sequence (np.random function, global state before the call) of the run's draws and re-seedings *)
  r_end : Z;          (* global generator state when the run returned *)
  r_gaps : Z;         (* how often the global generator was found in another state than the previous recorded call
                         (or the entry of the run) had left it, the return of the run included: 0 = every change of
                         the global generator during the run went through a recorded call *)
  r_private : Z;      (* generators created (np.random.default_rng / RandomState) and calls of the stdlib `random`
                         module during the run: randomness that does not come from the global generator *)
  r_out : list Z      (* outputs: .bp bytes, genotype content (+ annotations) *)
}.
Record gcase := mkg {
  g_seed : option Z;
  g_ref : Z;          (* the state np.random.seed(seed) produces (reference computed by the harness) *)
  g_a : grun;
  g_b : grun
}.

Definition model_start (c : gcase) (r : grun) : Z :=
  start_state Z (fun _ => g_ref c) false (g_seed c) (r_pre r).
Definition model_genotype (c : gcase) : Z * Z := (model_start c (g_a c), model_start c (g_b c)).

Definition zl_eqb := list_eqb Z.eqb.

Definition holds_genotype (c : gcase) : bool :=
  match g_seed c with
  | Some _ => zl_eqb (r_out (g_a c)) (r_out (g_b c))
  | None => true
  end.

(* a seeded run is [run (P i) (reseed k)]: every draw is made from the same state in
   both runs and the same state is left behind (C10_trace_history_independent) *)
Definition same_draws (c : gcase) : bool :=
  match g_seed c with
  | Some _ => (r_trace (g_a c) =? r_trace (g_b c)) && (r_end (g_a c) =? r_end (g_b c))
  | None => true
  end.

(* the model's simulators draw from the global generator only and every state of a run is
   linked to the previous one by a draw (C10_trace_linked) *)
Definition only_global (r : grun) : bool := (r_gaps r =? 0) && (r_private r =? 0).

Definition check_genotype (c : gcase) : bool * bool :=
  ((model_start c (g_a c) =? r_start (g_a c)) && (model_start c (g_b c) =? r_start (g_b c))
   && same_draws c && only_global (g_a c) && only_global (g_b c),
   holds_genotype c).

(* ---------------- simphenotype *)
Record prun := mkprun {
  p_start : Z;                 (* state of PhenoSimulator.rng after construction *)
  p_steps : list (Z * Z);      (* its state before / after each replicate *)
  p_out : list Z;              (* .pheno bytes *)
  p_cols : list Z;             (* the replicate columns of the written file (quantitative trait) resp. the noise vectors drawn (case/control) *)
  p_noisy : bool;              (* every replicate had noise variance > 0 and >= 2 samples *)
  p_glob : Z;                  (* calls of the legacy np.random API during the run + 1 if the global generator's
                                  state changed: simphenotype leaves the global generator alone (pheno_cmd) *)
  p_rngs : Z                   (* generators created during the run (default_rng / RandomState) + calls of the
                                  stdlib `random` module: exactly the one of PhenoSimulator.__init__ *)
}.
Record pcase := mkp {
  p_seed : option Z;
  p_ref : Z;                   (* state of default_rng(seed) (reference computed by the harness) *)
  p_a : prun;
  p_b : prun
}.

(* the observed transitions as a generator instance *)
Fixpoint lookup (s : Z) (t : list (Z * Z)) : Z :=
  match t with
  | [] => -1
  | (a, b) :: r => if a =? s then b else lookup s r
  end.
Definition table_draw (t : list (Z * Z)) (_ : unit) (s : Z) : Z * Z := (0, lookup s t).

Definition model_starts (seed : option Z) (ref : Z) (r : prun) : list Z :=
  let s0 := match seed with Some _ => ref | None => p_start r end in
  snd (fst (replications Z Z unit (table_draw (p_steps r)) (map (fun _ => tt) (p_steps r)) s0)).
Definition model_phenotype (c : pcase) : list Z * list Z :=
  (model_starts (p_seed c) (p_ref c) (p_a c), model_starts (p_seed c) (p_ref c) (p_b c)).

Fixpoint nodupb (l : list Z) : bool :=
  match l with [] => true | a :: r => negb (existsb (Z.eqb a) r) && nodupb r end.

Definition agree_prun (seed : option Z) (ref : Z) (r : prun) : bool :=
  match seed with Some _ => p_start r =? ref | None => true end
  && zl_eqb (model_starts seed ref r) (map fst (p_steps r))
  && (p_glob r =? 0) && (p_rngs r =? 1).

Definition holds_phenotype (c : pcase) : bool :=
  match p_seed c with
  | Some _ => zl_eqb (p_out (p_a c)) (p_out (p_b c))
  | None => true
  end
  && (negb (p_noisy (p_a c)) || nodupb (p_cols (p_a c)))
  && (negb (p_noisy (p_b c)) || nodupb (p_cols (p_b c))).

Definition check_phenotype (c : pcase) : bool * bool :=
  (agree_prun (p_seed c) (p_ref c) (p_a c) && agree_prun (p_seed c) (p_ref c) (p_b c),
   holds_phenotype c).

(* ---------------- the replicates of one simphenotype run, on the values.
   The public rng of the simulator is wrapped by a recorder; a second run of the same
   command with the noise forced to zero (no prevalence, one replicate) yields the
   genetic component. *)
Record rrep := mkrrep {
  rr_scale : float;            (* scale handed to rng.normal in this replicate *)
  rr_noise : list float;       (* the vector rng.normal returned in this replicate *)
  rr_ref : list float;         (* the k-th consecutive normal(0, scale_k, n) of a COPY of the simulator's
                                  generator taken right after construction *)
  rr_col : list float          (* replicate column k of the written .pheno *)
}.
Record repcase := mkrc {
  rc_R : Z;                    (* requested number of replications *)
  rc_cc : bool;                (* prevalence given: columns are 1.0 / 0.0 *)
  rc_g : list float;           (* genetic component *)
  rc_end_same : bool;          (* the simulator's generator ended in the state the copy ended in *)
  rc_reps : res (list rrep)
}.

Definition fl_eqb := list_eqb fsame.
Definition is_one (x : float) : bool := PrimFloat.eqb x 1%float.

(* the property is evaluated on the exact rational values of the floats *)
Record qrep := mkq {
  q_noisy : bool;              (* scale finite and > 0, at least two samples *)
  q_noise : list Q;
  q_col : list Q
}.
Definition noisy (r : rrep) : bool :=
  ffinite (rr_scale r) && negb (Qle_bool (f2q0 (rr_scale r)) 0) && (2 <=? lenZ (rr_noise r))
  && forallb ffinite (rr_noise r).
Definition to_q (r : rrep) : qrep := mkq (noisy r) (map f2q0 (rr_noise r)) (map f2q0 (rr_col r)).

Definition ql_eqb := list_eqb Qeq_bool.

(* c - e is the same vector for both replicates (float rounding of the two sums allowed) *)
Definition same_component (a b : qrep) : bool :=
  Nat.eqb (length (q_col a)) (length (q_noise a))
  && Nat.eqb (length (q_col b)) (length (q_noise b))
  && Nat.eqb (length (q_col a)) (length (q_col b))
  && forallb (fun '((ca, ea), (cb, eb)) =>
        qclose tol9 (Qabs ca + Qabs ea + Qabs cb + Qabs eb) (ca - ea) (cb - eb))
       (combine (combine (q_col a) (q_noise a)) (combine (q_col b) (q_noise b))).

(* case/control: the cases (column value 1) are a top set of g + (the noise of THIS replicate);
   rows = (is case, (liability, slack)) *)
Definition liab_rows (g : list Q) (r : qrep) : list (bool * (Q * Q)) :=
  map (fun '((gi, ei), ci) => (Qeq_bool ci 1, ((gi + ei)%Q, (tol9 * (Qabs gi + Qabs ei))%Q)))
      (combine (combine g (q_noise r)) (q_col r)).
Definition top_set (rows : list (bool * (Q * Q))) : bool :=
  forallb (fun '(ci, (li, si)) =>
     negb ci || forallb (fun '(cj, (lj, sj)) => cj || Qle_bool lj (li + si + sj)) rows) rows.
Definition cc_ok (g : list Q) (r : qrep) : bool :=
  Nat.eqb (length (q_col r)) (length g) && Nat.eqb (length (q_noise r)) (length g)
  && top_set (liab_rows g r).

(* no two replicates received the same noise vector *)
Fixpoint distinct_noise (l : list qrep) : bool :=
  match l with
  | [] => true
  | a :: r => forallb (fun b => negb (ql_eqb (q_noise a) (q_noise b))) r && distinct_noise r
  end.

Definition holds_qreps (cc : bool) (g : list Q) (reps : list qrep) : bool :=
  (negb (forallb q_noisy reps) || distinct_noise reps)
  && if cc then forallb (cc_ok g) reps
     else match reps with [] => true | r0 :: rest => forallb (same_component r0) rest end.

Definition holds_replicates (c : repcase) : bool :=
  match rc_reps c with
  | Err _ => true
  | Ok reps => holds_qreps (rc_cc c) (map f2q0 (rc_g c)) (map to_q reps)
  end.

(* the model's bit-exact versions: column = fl(g + noise of this replicate) *)
Definition exact_rows (g : list float) (r : rrep) : list (bool * (Q * Q)) :=
  map (fun '((gi, ei), ci) => (is_one ci, (f2q0 (PrimFloat.add gi ei), 0%Q)))
      (combine (combine g (rr_noise r)) (rr_col r)).
Definition cc_exact (g : list float) (r : rrep) : bool :=
  Nat.eqb (length (rr_col r)) (length g) && Nat.eqb (length (rr_noise r)) (length g)
  && forallb (fun x => is_one x || PrimFloat.eqb x 0%float) (rr_col r)
  && top_set (exact_rows g r).

(* the model: R calls of run() on one simulator = run_reps; the draws are the consecutive
   draws of the one generator (nothing else is drawn), every request is the same, and
   column k = pheno g (draw k) with pheno = float addition (then a top-set threshold) *)
Definition model_columns (c : repcase) : list (list float) :=
  match rc_reps c with
  | Err _ => []
  | Ok reps =>
      sim_cols _ _ (run_reps (list (list float)) (list float) unit (list float) (list float)
                      (fun _ s => match s with [] => ([], []) | d :: r => (d, r) end)
                      (fun g e => map (fun '(gi, ei) => PrimFloat.add gi ei) (combine g e))
                      (rc_g c) tt (length reps) (mksim _ _ (map rr_ref reps) []))
  end.

Definition agree_replicates (c : repcase) : bool :=
  match rc_reps c with
  | Err _ => false
  | Ok reps =>
      (lenZ reps =? rc_R c) && rc_end_same c
      && forallb (fun r => fl_eqb (rr_noise r) (rr_ref r)) reps
      && match reps with [] => true | r0 :: rest => forallb (fun r => fsame (rr_scale r) (rr_scale r0)) rest end
      && (if rc_cc c then forallb (cc_exact (rc_g c)) reps
          else list_eqb fl_eqb (model_columns c) (map rr_col reps))
  end.

Definition check_replicates (c : repcase) : bool * bool := (agree_replicates c, holds_replicates c).
Definition model_replicates (c : repcase) := if rc_cc c then [] else model_columns c.
