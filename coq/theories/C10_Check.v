(* C10 - checkers evaluated on double runs of the implementation.
   Generator states and outputs are interned by the harness (equal integers
   <=> equal states / equal bytes / equal parsed genotype content).
   [agree]: the generator state from which the run's first draw was made is
   the one the model predicts (the guard's semantics, per run), resp. the
   replicate start states are threaded as [replications] says.
   [holds]: the property - same seed => identical outputs whatever the
   history; replicate columns are not copies of each other. *)
From HV Require Import Prelude C10_Model.

(* ---------------- simgenotype *)
Record grun := mkgrun {
  r_pre : Z;          (* global generator state when the run was entered *)
  r_start : Z;        (* global generator state at the run's first draw *)
  r_out : list Z      (* outputs: .bp bytes, genotype content (+ annotations) *)
}.
Record gcase := mkg {
  g_seed : option Z;
  g_ref : Z;          (* the state np.random.seed(seed) produces (reference computed by the harness) *)
  g_a : grun;
  g_b : grun
}.

Definition model_start (c : gcase) (r : grun) : Z :=
  start_state Z (fun _ => g_ref c) false (g_seed c) (r_pre r).
Definition model_genotype (c : gcase) : Z * Z := (model_start c (g_a c), model_start c (g_b c)).

Definition zl_eqb := list_eqb Z.eqb.

Definition holds_genotype (c : gcase) : bool :=
  match g_seed c with
  | Some _ => zl_eqb (r_out (g_a c)) (r_out (g_b c))
  | None => true
  end.

Definition check_genotype (c : gcase) : bool * bool :=
  ((model_start c (g_a c) =? r_start (g_a c)) && (model_start c (g_b c) =? r_start (g_b c)),
   holds_genotype c).

(* ---------------- simphenotype *)
Record prun := mkprun {
  p_start : Z;                 (* state of PhenoSimulator.rng after construction *)
  p_steps : list (Z * Z);      (* its state before / after each replicate *)
  p_out : list Z;              (* .pheno bytes *)
  p_cols : list Z;             (* the replicate columns of the written file (quantitative trait) resp. the noise vectors drawn (case/control) *)
  p_noisy : bool               (* every replicate had noise variance > 0 and >= 2 samples *)
}.
Record pcase := mkp {
  p_seed : option Z;
  p_ref : Z;                   (* state of default_rng(seed) (reference computed by the harness) *)
  p_a : prun;
  p_b : prun
}.

(* the observed transitions as a generator instance *)
Fixpoint lookup (s : Z) (t : list (Z * Z)) : Z :=
  match t with
  | [] => -1
  | (a, b) :: r => if a =? s then b else lookup s r
  end.
Definition table_draw (t : list (Z * Z)) (_ : unit) (s : Z) : Z * Z := (0, lookup s t).

Definition model_starts (seed : option Z) (ref : Z) (r : prun) : list Z :=
  let s0 := match seed with Some _ => ref | None => p_start r end in
  snd (fst (replications Z Z unit (table_draw (p_steps r)) (map (fun _ => tt) (p_steps r)) s0)).
Definition model_phenotype (c : pcase) : list Z * list Z :=
  (model_starts (p_seed c) (p_ref c) (p_a c), model_starts (p_seed c) (p_ref c) (p_b c)).

Fixpoint nodupb (l : list Z) : bool :=
  match l with [] => true | a :: r => negb (existsb (Z.eqb a) r) && nodupb r end.

Definition agree_prun (seed : option Z) (ref : Z) (r : prun) : bool :=
  match seed with Some _ => p_start r =? ref | None => true end
  && zl_eqb (model_starts seed ref r) (map fst (p_steps r)).

Definition holds_phenotype (c : pcase) : bool :=
  match p_seed c with
  | Some _ => zl_eqb (p_out (p_a c)) (p_out (p_b c))
  | None => true
  end
  && (negb (p_noisy (p_a c)) || nodupb (p_cols (p_a c)))
  && (negb (p_noisy (p_b c)) || nodupb (p_cols (p_b c))).

Definition check_phenotype (c : pcase) : bool * bool :=
  (agree_prun (p_seed c) (p_ref c) (p_a c) && agree_prun (p_seed c) (p_ref c) (p_b c),
   holds_phenotype c).
