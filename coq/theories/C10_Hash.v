(* C10 - the string-hash seed of the interpreter (C10_Model.Section Interp): a user's two runs
   are two interpreter processes whose sets of strings iterate in different orders.  A seeded
   command is reproducible across interpreters iff its simulation is hash-blind. *)
From HV Require Import Prelude C10_Model C10_Process.
Open Scope Z_scope.

Section Interp.
  Variables (S D Rq M : Type).
  Variable reseed : Z -> S.
  Variable draw : Rq -> S -> D * S.

  Notation proc := (proc S M).
  Notation mkproc := (mkproc S M).
  Notation iproc := (iproc S M).
  Notation mkiproc := (mkiproc S M).
  Notation pprog := (pprog D Rq M).
  Notation hprog := (hprog D Rq M).
  Notation exec := (exec S D Rq M reseed draw).
  Notation iexec := (iexec S D Rq M reseed draw).
  Notation irun_hist := (irun_hist S D Rq M reseed draw).
  Notation hash_blind := (hash_blind S D Rq M reseed draw).
  Notation store_blind := (store_blind S D Rq M reseed draw).
  Notation igeno_cmd := (igeno_cmd D Rq M).
  Notation geno_cmd := (geno_cmd D Rq M).
  Notation lift := (lift D Rq M).
  Notation run := (run S D Rq draw).

  Lemma iexec_fst {R} (p : hprog R) (w : iproc) :
    fst (iexec p w) = fst (exec (p (ip_hash _ _ w)) (ip_proc _ _ w)).
  Proof. unfold C10_Model.iexec. destruct (exec (p (ip_hash _ _ w)) (ip_proc _ _ w)); reflexivity. Qed.

  Lemma iexec_snd {R} (p : hprog R) (w : iproc) :
    snd (iexec p w) = mkiproc (ip_hash _ _ w) (snd (exec (p (ip_hash _ _ w)) (ip_proc _ _ w))).
  Proof. unfold C10_Model.iexec. destruct (exec (p (ip_hash _ _ w)) (ip_proc _ _ w)); reflexivity. Qed.

  (* the hash seed is fixed when the interpreter starts: no program, no history changes it *)
  Lemma hash_seed_fixed_l {R} (p : hprog R) (hist : list (hprog unit)) (w : iproc) :
    ip_hash _ _ (snd (iexec p w)) = ip_hash _ _ w
    /\ ip_hash _ _ (irun_hist hist w) = ip_hash _ _ w.
  Proof.
    split; [rewrite iexec_snd; reflexivity|].
    revert w. induction hist as [|q hist IH]; intros w; cbn [C10_Model.irun_hist]; [reflexivity|].
    rewrite IH, iexec_snd. reflexivity.
  Qed.

  (* SUFFICIENT: a simulation that is store-blind (for every hash seed) and hash-blind, behind
     the repaired seed guard, gives the same output and leaves the same generator state in ANY
     two interpreters (any two hash seeds, any two process states) after ANY two histories of
     arbitrary earlier programs *)
  Lemma seeded_across_interpreters_l {O} (body : hprog O) k :
    (forall h, store_blind (body h)) -> hash_blind body ->
    forall (hist hist' : list (hprog unit)) (w w' : iproc),
      fst (iexec (igeno_cmd false (Some k) body) (irun_hist hist w))
      = fst (iexec (igeno_cmd false (Some k) body) (irun_hist hist' w'))
      /\ pr_gen _ _ (ip_proc _ _ (snd (iexec (igeno_cmd false (Some k) body) (irun_hist hist w))))
         = pr_gen _ _ (ip_proc _ _ (snd (iexec (igeno_cmd false (Some k) body) (irun_hist hist' w')))).
  Proof.
    intros Hs Hh hist hist' w w'.
    rewrite !iexec_fst, !iexec_snd. cbn [ip_proc]. unfold C10_Model.igeno_cmd.
    rewrite !(geno_cmd_seeded S D Rq M reseed draw).
    set (W := irun_hist hist w). set (W' := irun_hist hist' w').
    destruct (Hs (ip_hash _ _ W) (reseed k) (pr_mem _ _ (ip_proc _ _ W)) (pr_entropy _ _ (ip_proc _ _ W))
                 (pr_mem _ _ (ip_proc _ _ W')) (pr_entropy _ _ (ip_proc _ _ W'))) as [A1 A2].
    destruct (Hh (ip_hash _ _ W) (ip_hash _ _ W')
                 (mkproc (reseed k) (pr_mem _ _ (ip_proc _ _ W')) (pr_entropy _ _ (ip_proc _ _ W')))) as [B1 B2].
    split; congruence.
  Qed.

  (* NECESSARY: a command that gives the same output in every two interpreters that differ in
     nothing but the hash seed has a simulation whose output does not depend on the hash seed *)
  Lemma across_interpreters_needs_hash_blind_l {O} (body : hprog O) k :
    (forall (w w' : iproc), ip_proc _ _ w = ip_proc _ _ w' ->
        fst (iexec (igeno_cmd false (Some k) body) w) = fst (iexec (igeno_cmd false (Some k) body) w')) ->
    forall h h' m e,
      fst (exec (body h) (mkproc (reseed k) m e)) = fst (exec (body h') (mkproc (reseed k) m e)).
  Proof.
    intros H h h' m e.
    specialize (H (mkiproc h (mkproc (reseed 0) m e)) (mkiproc h' (mkproc (reseed 0) m e)) eq_refl).
    rewrite !iexec_fst in H. cbn [ip_hash ip_proc] in H. unfold C10_Model.igeno_cmd in H.
    rewrite !(geno_cmd_seeded S D Rq M reseed draw) in H. exact H.
  Qed.

  (* a program that never looks at the hash seed is hash-blind *)
  Lemma const_hash_blind_l {R} (p : pprog R) : hash_blind (fun _ => p).
  Proof. intros h h' w. split; reflexivity. Qed.

  (* every simulator of the first section (randomness through [draw] only, no other state, no
     set iteration), in any interpreter after any history: the output is [run (P i) (reseed k)] *)
  Lemma lifted_across_interpreters_l {I O} (P : I -> prog D Rq O) k i (hist : list (hprog unit)) (w : iproc) :
    fst (iexec (igeno_cmd false (Some k) (fun _ => lift (P i))) (irun_hist hist w)) = fst (run (P i) (reseed k))
    /\ pr_gen _ _ (ip_proc _ _ (snd (iexec (igeno_cmd false (Some k) (fun _ => lift (P i))) (irun_hist hist w))))
       = snd (run (P i) (reseed k)).
  Proof.
    rewrite iexec_fst, iexec_snd. cbn [ip_proc]. unfold C10_Model.igeno_cmd.
    destruct (lifted_after_any_history_l S D Rq M reseed draw P k i [] (ip_proc _ _ (irun_hist hist w))) as (H1 & H2 & _).
    cbn [C10_Model.run_hist] in H1, H2. split; assumption.
  Qed.

  (* ---- sets of strings *)
  Variable order : Z -> list Z -> list Z.
  Notation order_ok := (order_ok order).
  Notation pheno_sel_cmd := (pheno_sel_cmd S D Rq M reseed draw order).

  Lemma memb_in x l : memb x l = true <-> In x l.
  Proof.
    unfold memb. rewrite existsb_exists. split.
    - intros (y & Hy & E). apply Z.eqb_eq in E. subst; exact Hy.
    - intros H. exists x. split; [exact H|apply Z.eqb_refl].
  Qed.

  (* selection by MEMBERSHIP keeps the order of the file: it cannot see in which order the set of
     requested IDs iterates, nor in which order it was filled *)
  Lemma select_file_order_blind_l {E} (eid : E -> Z) (req req' : list Z) (effects : list E) :
    (forall x, In x req <-> In x req') ->
    select_file_order eid req effects = select_file_order eid req' effects.
  Proof.
    intros H. unfold select_file_order. apply filter_ext. intros e.
    apply Bool.eq_true_iff_eq. rewrite !memb_in. apply H.
  Qed.

  Lemma select_file_order_any_interpreter_l {E} (eid : E -> Z) (ins ins' : list Z) (effects : list E) :
    order_ok -> (forall x, In x ins <-> In x ins') ->
    forall h h', select_file_order eid (order h ins) effects = select_file_order eid (order h' ins') effects.
  Proof.
    intros Ho Hi h h'. apply select_file_order_blind_l. intros x.
    rewrite (Ho h ins x), (Ho h' ins' x). apply Hi.
  Qed.

  (* simphenotype with a seed and requested IDs, effects selected by membership: the effects (in
     the order that names the column and enters the sum) and the noise are the same in any two
     interpreters, after any two histories, for any two EQUAL sets of requested IDs however they
     were filled; and the interpreter process is returned exactly as it was found *)
  Lemma simphenotype_across_interpreters_l {E} (eid : E -> Z) k reqs (ins ins' : list Z) (effects : list E)
        (hist hist' : list (hprog unit)) (w w' : iproc) :
    order_ok -> (forall x, In x ins <-> In x ins') ->
    fst (iexec (pheno_sel_cmd (select_file_order eid) (Some k) reqs ins effects) (irun_hist hist w))
    = fst (iexec (pheno_sel_cmd (select_file_order eid) (Some k) reqs ins' effects) (irun_hist hist' w'))
    /\ snd (iexec (pheno_sel_cmd (select_file_order eid) (Some k) reqs ins effects) (irun_hist hist w))
       = irun_hist hist w.
  Proof.
    intros Ho Hi. rewrite !iexec_fst, iexec_snd. unfold C10_Model.pheno_sel_cmd. cbn [C10_Model.exec fst snd].
    split.
    - f_equal. apply select_file_order_any_interpreter_l; assumption.
    - destruct (irun_hist hist w); reflexivity.
  Qed.

  (* the noise part is the pheno_cmd of the process section *)
  Lemma pheno_sel_cmd_noise_l {E} (select : list Z -> list E -> list E) seed reqs ins effects (w : iproc) :
    snd (fst (iexec (pheno_sel_cmd select seed reqs ins effects) w))
    = fst (exec (pheno_cmd S D Rq M reseed draw seed reqs) (ip_proc _ _ w)).
  Proof. rewrite iexec_fst. unfold C10_Model.pheno_sel_cmd. destruct seed; reflexivity. Qed.
End Interp.

(* the toy order satisfies the one contract *)
Lemma toy_order_ok_l : order_ok toy_order.
Proof.
  intros h l x. unfold toy_order. destruct (Z.even h); [tauto|]. symmetry. apply in_rev.
Qed.

(* selection in SET order refuted on the toy order: same seed, same inputs, (1) two interpreters
   with different hash seeds, (2) one interpreter and two equal sets filled in different insertion
   orders - the selected effects come in another order; selection by membership is unaffected;
   (3) a simgenotype-like simulation that iterates a set gives another output in the other
   interpreter, the set-free one the same *)
Lemma set_order_refuted_l :
  let eff := [(1, 10); (2, 20); (3, 30)] in
  let w0 := mkproc Z Z 5 0 0 in
  let by_set := select_set_order (E := Z * Z) fst in
  let by_file := select_file_order (E := Z * Z) fst in
  let cmd sel ins := pheno_sel_cmd Z Z unit Z lcg_reseed lcg_draw toy_order sel (Some 1) [tt] ins eff in
  fst (iexec Z Z unit Z lcg_reseed lcg_draw (cmd by_set [1; 2]) (mkiproc Z Z 0 w0))
  <> fst (iexec Z Z unit Z lcg_reseed lcg_draw (cmd by_set [1; 2]) (mkiproc Z Z 1 w0))
  /\ fst (iexec Z Z unit Z lcg_reseed lcg_draw (cmd by_set [1; 2]) (mkiproc Z Z 0 w0))
     <> fst (iexec Z Z unit Z lcg_reseed lcg_draw (cmd by_set [2; 1]) (mkiproc Z Z 0 w0))
  /\ fst (iexec Z Z unit Z lcg_reseed lcg_draw (cmd by_file [1; 2]) (mkiproc Z Z 0 w0))
     = fst (iexec Z Z unit Z lcg_reseed lcg_draw (cmd by_file [2; 1]) (mkiproc Z Z 1 w0))
  /\ fst (iexec Z Z unit Z lcg_reseed lcg_draw (igeno_cmd Z unit Z false (Some 1) set_iter_body) (mkiproc Z Z 0 w0))
     <> fst (iexec Z Z unit Z lcg_reseed lcg_draw (igeno_cmd Z unit Z false (Some 1) set_iter_body) (mkiproc Z Z 1 w0))
  /\ fst (iexec Z Z unit Z lcg_reseed lcg_draw (igeno_cmd Z unit Z false (Some 1) (fun _ => clean_body)) (mkiproc Z Z 0 w0))
     = fst (iexec Z Z unit Z lcg_reseed lcg_draw (igeno_cmd Z unit Z false (Some 1) (fun _ => clean_body)) (mkiproc Z Z 1 w0)).
Proof. vm_compute. repeat split; try discriminate; reflexivity. Qed.

(* the hypotheses of seeded_across_interpreters_l are satisfiable and not trivial *)
Lemma hash_blind_inhabited_l :
  hash_blind Z Z unit Z lcg_reseed lcg_draw (fun _ => clean_body)
  /\ (forall h : Z, store_blind Z Z unit Z lcg_reseed lcg_draw ((fun _ => clean_body) h))
  /\ ~ hash_blind Z Z unit Z lcg_reseed lcg_draw set_iter_body
  /\ order_ok toy_order.
Proof.
  split; [|split; [|split]].
  - apply const_hash_blind_l.
  - intros _. apply gen_only_store_blind_l. repeat constructor.
  - intros H. destruct (H 0 1 (mkproc Z Z 1 0 0)) as [H1 _]. vm_compute in H1. discriminate H1.
  - exact toy_order_ok_l.
Qed.
