(* C10 - a seed makes simgenotype and simphenotype reproducible.
   numpy's generators are not modelled: a generator is ANY state machine
   (state type [S], [reseed : Z -> S], [draw : Rq -> S -> D * S] for a draw
   request Rq - distribution and parameters - and a drawn value D).  The
   simulators are programs that obtain all their randomness through [draw]:
     simgenotype  : an arbitrary program over the process-global generator
                    (the np.random functions), preceded by the seed guard of simulate_gt;
     simphenotype : a private generator default_rng(seed) created by
                    PhenoSimulator.__init__ and used by every replication.
   [legacy = true] is the pinned guard `if seed:` (seed 0 treated as no seed);
   the repaired guard is `if seed is not None:`.  No proofs here. *)
From HV Require Import Prelude.

Section Generator.
  Variables (S D Rq : Type).
  Variable reseed : Z -> S.
  Variable draw : Rq -> S -> D * S.

  (* a program that draws: the C01-C03 models of _simulate / write_breakpoints /
     output_vcf with their recorded draws are instances *)
  Inductive prog (R : Type) : Type :=
  | Ret (r : R)
  | Draw (q : Rq) (k : D -> prog R).
  Arguments Ret {R} r.
  Arguments Draw {R} q k.

  Fixpoint run {R} (p : prog R) (s : S) : R * S :=
    match p with
    | Ret r => (r, s)
    | Draw q k => let '(d, s') := draw q s in run (k d) s'
    end.

  (* sequencing: simulate_gt, then write_breakpoints, then output_vcf - each stage
     continues from the generator state the previous one left *)
  Fixpoint bindP {A B} (p : prog A) (f : A -> prog B) : prog B :=
    match p with
    | Ret a => f a
    | Draw q k => Draw q (fun d => bindP (k d) f)
    end.

  (* the draws a program makes from state s, in order, and the generator state before
     every draw followed by the state left behind: what the harness records around
     EVERY np.random.* call of a run, not only the first *)
  Fixpoint record {R} (p : prog R) (s : S) : list D :=
    match p with
    | Ret _ => []
    | Draw q k => let '(d, s') := draw q s in d :: record (k d) s'
    end.
  Fixpoint trace {R} (p : prog R) (s : S) : list S :=
    match p with
    | Ret _ => [s]
    | Draw q k => let '(d, s') := draw q s in s :: trace (k d) s'
    end.
  (* the program run on a RECORDED list of draws - the form in which the C01-C03
     models consume randomness (None: the list is shorter than the program needs) *)
  Fixpoint replay {R} (p : prog R) (ds : list D) : option R :=
    match p with
    | Ret r => Some r
    | Draw q k => match ds with [] => None | d :: r => replay (k d) r end
    end.

  (* simulate_gt: `if seed is not None: np.random.seed(seed)` (legacy: `if seed:`) *)
  Definition guard_fires (legacy : bool) (seed : option Z) : bool :=
    match seed with
    | None => false
    | Some k => if legacy then negb (k =? 0) else true
    end.

  (* the global generator state from which the simulation's first draw is made *)
  Definition start_state (legacy : bool) (seed : option Z) (g : S) : S :=
    match seed with
    | Some k => if guard_fires legacy seed then reseed k else g
    | None => g
    end.

  (* one simgenotype run in a process whose global generator is in state g:
     outputs (.bp tokens, genotype matrix, annotations) and the state left behind *)
  Definition simgenotype_run {I O} (legacy : bool) (P : I -> prog O)
             (seed : option Z) (g : S) (i : I) : O * S :=
    run (P i) (start_state legacy seed g).

  (* simphenotype: the process state is the global generator and the OS entropy
     that default_rng(None) would consume *)
  Record world := mkworld { w_global : S; w_entropy : Z }.

  Definition pheno_rng (seed : option Z) (w : world) : S :=
    match seed with Some k => reseed k | None => reseed (w_entropy w) end.

  (* the replication loop of simulate_pt: one normal(0, sqrt(noise), n) request per
     replicate, all on the same generator object; returns the noise vectors, the
     state in which each replicate started, and the final state *)
  Fixpoint replications (reqs : list Rq) (s : S) : list D * list S * S :=
    match reqs with
    | [] => ([], [], s)
    | q :: r =>
        let '(d, s') := draw q s in
        let '(ds, ss, s'') := replications r s' in
        (d :: ds, s :: ss, s'')
    end.

  Definition simphenotype_run (seed : option Z) (w : world) (reqs : list Rq) : list D :=
    fst (fst (replications reqs (pheno_rng seed w))).

  (* the mutant the property excludes: a generator re-created for every replicate *)
  Fixpoint replications_reseeded (k : Z) (reqs : list Rq) : list D :=
    match reqs with
    | [] => []
    | q :: r => fst (draw q (reseed k)) :: replications_reseeded k r
    end.
End Generator.

Arguments Ret {D Rq R} r.
Arguments Draw {D Rq R} q k.

(* ---------------- the replication loop of simulate_pt, with the simulator object
   PhenoSimulator = (its generator, the columns appended so far).  One call of run()
   makes one draw request on the simulator's generator and appends pheno g d: a
   function of the call's inputs g (genetic component, prevalence: deterministic in
   the genotypes and options) and of the noise d drawn IN THIS CALL. *)
Section Replicates.
  Variables (St D Rq G P : Type).
  Variable draw : Rq -> St -> D * St.
  Variable pheno : G -> D -> P.

  Record sim := mksim { sim_rng : St; sim_cols : list P }.

  Definition run_once (g : G) (q : Rq) (m : sim) : sim :=
    let '(d, s') := draw q (sim_rng m) in mksim s' (sim_cols m ++ [pheno g d]).

  (* several calls on ONE simulator, each with its own inputs and request *)
  Fixpoint run_calls (calls : list (G * Rq)) (m : sim) : sim :=
    match calls with
    | [] => m
    | (g, q) :: r => run_calls r (run_once g q m)
    end.

  (* simulate_pt: `for i in range(R): pt_sim.run(effects, h2, prevalence, normalize, env)` *)
  Fixpoint run_reps (g : G) (q : Rq) (R : nat) (m : sim) : sim :=
    match R with
    | O => m
    | Datatypes.S r => run_reps g q r (run_once g q m)
    end.

  (* the regression the last clause excludes: the genetic component is cached by call
     signature and `pt += noise` is done in place on the cached array, so the cache
     carries every earlier replicate's noise.  accum = the in-place addition,
     out = what is appended (a copy, thresholded when prevalence is given) *)
  Variable accum : G -> D -> G.
  Variable out : G -> P.
  Record csim := mkcsim { c_rng : St; c_cache : G; c_cols : list P }.
  Definition run_once_cached (q : Rq) (m : csim) : csim :=
    let '(d, s') := draw q (c_rng m) in
    let g' := accum (c_cache m) d in mkcsim s' g' (c_cols m ++ [out g']).
  Fixpoint run_reps_cached (q : Rq) (R : nat) (m : csim) : csim :=
    match R with
    | O => m
    | Datatypes.S r => run_reps_cached q r (run_once_cached q m)
    end.
End Replicates.

(* a scripted generator: the state is the list of values still to be returned *)
Definition script_draw (_ : unit) (s : list Z) : Z * list Z :=
  match s with [] => (0, []) | d :: r => (d, r) end.

(* a concrete toy generator for the refutation examples: a linear congruential one *)
Definition lcg_next (s : Z) : Z := (s * 1103515245 + 12345) mod 2147483648.
Definition lcg_draw (_ : unit) (s : Z) : Z * Z := (lcg_next s, lcg_next s).
Definition lcg_reseed (k : Z) : Z := k.
Definition one_draw : unit -> prog Z unit Z := fun _ => Draw tt (fun d => Ret d).
