(* C10 - a seed makes simgenotype and simphenotype reproducible.
   numpy's generators are not modelled: a generator is ANY state machine
   (state type [S], [reseed : Z -> S], [draw : Rq -> S -> D * S] for a draw
   request Rq - distribution and parameters - and a drawn value D).  The
   simulators are programs that obtain all their randomness through [draw]:
     simgenotype  : an arbitrary program over the process-global generator
                    (the np.random functions), preceded by the seed guard of simulate_gt;
     simphenotype : a private generator default_rng(seed) created by
                    PhenoSimulator.__init__ and used by every replication.
   [legacy = true] is the pinned guard `if seed:` (seed 0 treated as no seed);
   the repaired guard is `if seed is not None:`.  No proofs here. *)
From HV Require Import Prelude.

Section Generator.
  Variables (S D Rq : Type).
  Variable reseed : Z -> S.
  Variable draw : Rq -> S -> D * S.

  (* a program that draws: the C01-C03 models of _simulate / write_breakpoints /
     output_vcf with their recorded draws are instances *)
  Inductive prog (R : Type) : Type :=
  | Ret (r : R)
  | Draw (q : Rq) (k : D -> prog R).
  Arguments Ret {R} r.
  Arguments Draw {R} q k.

  Fixpoint run {R} (p : prog R) (s : S) : R * S :=
    match p with
    | Ret r => (r, s)
    | Draw q k => let '(d, s') := draw q s in run (k d) s'
    end.

  (* sequencing: simulate_gt, then write_breakpoints, then output_vcf - each stage
     continues from the generator state the previous one left *)
  Fixpoint bindP {A B} (p : prog A) (f : A -> prog B) : prog B :=
    match p with
    | Ret a => f a
    | Draw q k => Draw q (fun d => bindP (k d) f)
    end.

  (* the draws a program makes from state s, in order, and the generator state before
     every draw followed by the state left behind: what the harness records around
     EVERY np.random.* call of a run, not only the first *)
  Fixpoint record {R} (p : prog R) (s : S) : list D :=
    match p with
    | Ret _ => []
    | Draw q k => let '(d, s') := draw q s in d :: record (k d) s'
    end.
  Fixpoint trace {R} (p : prog R) (s : S) : list S :=
    match p with
    | Ret _ => [s]
    | Draw q k => let '(d, s') := draw q s in s :: trace (k d) s'
    end.
  (* the program run on a RECORDED list of draws - the form in which the C01-C03
     models consume randomness (None: the list is shorter than the program needs) *)
  Fixpoint replay {R} (p : prog R) (ds : list D) : option R :=
    match p with
    | Ret r => Some r
    | Draw q k => match ds with [] => None | d :: r => replay (k d) r end
    end.

  (* simulate_gt: `if seed is not None: np.random.seed(seed)` (legacy: `if seed:`) *)
  Definition guard_fires (legacy : bool) (seed : option Z) : bool :=
    match seed with
    | None => false
    | Some k => if legacy then negb (k =? 0) else true
    end.

  (* the global generator state from which the simulation's first draw is made *)
  Definition start_state (legacy : bool) (seed : option Z) (g : S) : S :=
    match seed with
    | Some k => if guard_fires legacy seed then reseed k else g
    | None => g
    end.

  (* one simgenotype run in a process whose global generator is in state g:
     outputs (.bp tokens, genotype matrix, annotations) and the state left behind *)
  Definition simgenotype_run {I O} (legacy : bool) (P : I -> prog O)
             (seed : option Z) (g : S) (i : I) : O * S :=
    run (P i) (start_state legacy seed g).

  (* simphenotype: the process state is the global generator and the OS entropy
     that default_rng(None) would consume *)
  Record world := mkworld { w_global : S; w_entropy : Z }.

  Definition pheno_rng (seed : option Z) (w : world) : S :=
    match seed with Some k => reseed k | None => reseed (w_entropy w) end.

  (* the replication loop of simulate_pt: one normal(0, sqrt(noise), n) request per
     replicate, all on the same generator object; returns the noise vectors, the
     state in which each replicate started, and the final state *)
  Fixpoint replications (reqs : list Rq) (s : S) : list D * list S * S :=
    match reqs with
    | [] => ([], [], s)
    | q :: r =>
        let '(d, s') := draw q s in
        let '(ds, ss, s'') := replications r s' in
        (d :: ds, s :: ss, s'')
    end.

  Definition simphenotype_run (seed : option Z) (w : world) (reqs : list Rq) : list D :=
    fst (fst (replications reqs (pheno_rng seed w))).

  (* the mutant the property excludes: a generator re-created for every replicate *)
  Fixpoint replications_reseeded (k : Z) (reqs : list Rq) : list D :=
    match reqs with
    | [] => []
    | q :: r => fst (draw q (reseed k)) :: replications_reseeded k r
    end.
End Generator.

Arguments Ret {D Rq R} r.
Arguments Draw {D Rq R} q k.

(* ---------------- the process around a command: WHATEVER RAN EARLIER.
   A process is the global generator, everything else that persists between two calls in one
   interpreter ([M]: module globals, caches, objects shared through them - the store) and the OS
   entropy an unseeded default_rng() consumes.  Earlier programs are ARBITRARY [pprog]s: they may
   draw from and re-seed the global generator, read and overwrite the store, consume entropy.
   The inputs of a command (map files, model, reference; [i] in [P i]) are not in the process:
   they are immutable - a history that rewrites the input files is outside the property.
   The command under test is a [pprog] too; "it obtains randomness only through the generator
   and has no other persistent state" is the predicate [gen_only] (structure: no PGet / PPut /
   PEntropy node) resp. [store_blind] (semantics: the store and the entropy cannot be observed
   in its result).  Nothing in Coq says that haptools satisfies it - that is what the
   correspondence runs test (two runs after different generated histories of other haptools
   calls on the same files). *)
Section Process.
  Variables (S D Rq M : Type).
  Variable reseed : Z -> S.
  Variable draw : Rq -> S -> D * S.

  Record proc := mkproc { pr_gen : S; pr_mem : M; pr_entropy : Z }.

  Inductive pprog (R : Type) : Type :=
  | PRet (r : R)
  | PDraw (q : Rq) (k : D -> pprog R)      (* np.random.<f>(...) *)
  | PSeed (z : Z) (k : pprog R)            (* np.random.seed(z) *)
  | PGet (k : M -> pprog R)                (* read persistent state other than the generator *)
  | PPut (m : M) (k : pprog R)             (* overwrite it *)
  | PEntropy (k : Z -> pprog R).           (* default_rng(None): fresh OS entropy *)
  Arguments PRet {R} r.
  Arguments PDraw {R} q k.
  Arguments PSeed {R} z k.
  Arguments PGet {R} k.
  Arguments PPut {R} m k.
  Arguments PEntropy {R} k.

  Fixpoint exec {R} (p : pprog R) (w : proc) : R * proc :=
    match p with
    | PRet r => (r, w)
    | PDraw q k => let '(d, s') := draw q (pr_gen w) in exec (k d) (mkproc s' (pr_mem w) (pr_entropy w))
    | PSeed z k => exec k (mkproc (reseed z) (pr_mem w) (pr_entropy w))
    | PGet k => exec (k (pr_mem w)) w
    | PPut m k => exec k (mkproc (pr_gen w) m (pr_entropy w))
    | PEntropy k => exec (k (pr_entropy w)) (mkproc (pr_gen w) (pr_mem w) (pr_entropy w + 1))
    end.

  (* the history of the process: earlier programs, run one after the other (their results are
     dropped; any program becomes a [pprog unit] by discarding its result) *)
  Fixpoint run_hist (h : list (pprog unit)) (w : proc) : proc :=
    match h with
    | [] => w
    | p :: r => run_hist r (snd (exec p w))
    end.

  (* a drawing program of the first section is a process program that touches the generator only *)
  Fixpoint lift {R} (p : prog D Rq R) : pprog R :=
    match p with
    | Ret r => PRet r
    | Draw q k => PDraw q (fun d => lift (k d))
    end.

  Inductive gen_only {R} : pprog R -> Prop :=
  | go_ret : forall r, gen_only (PRet r)
  | go_draw : forall q k, (forall d, gen_only (k d)) -> gen_only (PDraw q k)
  | go_seed : forall z k, gen_only k -> gen_only (PSeed z k).

  Definition store_blind {R} (p : pprog R) : Prop :=
    forall s m e m' e',
      fst (exec p (mkproc s m e)) = fst (exec p (mkproc s m' e'))
      /\ pr_gen (snd (exec p (mkproc s m e))) = pr_gen (snd (exec p (mkproc s m' e'))).

  (* simgenotype in a process: the seed guard of simulate_gt, then the simulation *)
  Definition geno_cmd {O} (legacy : bool) (seed : option Z) (body : pprog O) : pprog O :=
    match seed with
    | Some k => if guard_fires legacy seed then PSeed k body else body
    | None => body
    end.

  (* simphenotype in a process: a PRIVATE generator default_rng(seed); the global generator
     and the store are neither read nor written *)
  Definition pheno_cmd (seed : option Z) (reqs : list Rq) : pprog (list D) :=
    match seed with
    | Some k => PRet (fst (fst (replications S D Rq draw reqs (reseed k))))
    | None => PEntropy (fun e => PRet (fst (fst (replications S D Rq draw reqs (reseed e)))))
    end.
End Process.

Arguments PRet {D Rq M R} r.
Arguments PDraw {D Rq M R} q k.
Arguments PSeed {D Rq M R} z k.
Arguments PGet {D Rq M R} k.
Arguments PPut {D Rq M R} m k.
Arguments PEntropy {D Rq M R} k.

(* ---------------- the replication loop of simulate_pt, with the simulator object
   PhenoSimulator = (its generator, the columns appended so far).  One call of run()
   makes one draw request on the simulator's generator and appends pheno g d: a
   function of the call's inputs g (genetic component, prevalence: deterministic in
   the genotypes and options) and of the noise d drawn IN THIS CALL. *)
Section Replicates.
  Variables (St D Rq G P : Type).
  Variable draw : Rq -> St -> D * St.
  Variable pheno : G -> D -> P.

  Record sim := mksim { sim_rng : St; sim_cols : list P }.

  Definition run_once (g : G) (q : Rq) (m : sim) : sim :=
    let '(d, s') := draw q (sim_rng m) in mksim s' (sim_cols m ++ [pheno g d]).

  (* several calls on ONE simulator, each with its own inputs and request *)
  Fixpoint run_calls (calls : list (G * Rq)) (m : sim) : sim :=
    match calls with
    | [] => m
    | (g, q) :: r => run_calls r (run_once g q m)
    end.

  (* simulate_pt: `for i in range(R): pt_sim.run(effects, h2, prevalence, normalize, env)` *)
  Fixpoint run_reps (g : G) (q : Rq) (R : nat) (m : sim) : sim :=
    match R with
    | O => m
    | Datatypes.S r => run_reps g q r (run_once g q m)
    end.

  (* the regression the last clause excludes: the genetic component is cached by call
     signature and `pt += noise` is done in place on the cached array, so the cache
     carries every earlier replicate's noise.  accum = the in-place addition,
     out = what is appended (a copy, thresholded when prevalence is given) *)
  Variable accum : G -> D -> G.
  Variable out : G -> P.
  Record csim := mkcsim { c_rng : St; c_cache : G; c_cols : list P }.
  Definition run_once_cached (q : Rq) (m : csim) : csim :=
    let '(d, s') := draw q (c_rng m) in
    let g' := accum (c_cache m) d in mkcsim s' g' (c_cols m ++ [out g']).
  Fixpoint run_reps_cached (q : Rq) (R : nat) (m : csim) : csim :=
    match R with
    | O => m
    | Datatypes.S r => run_reps_cached q r (run_once_cached q m)
    end.
End Replicates.

(* a scripted generator: the state is the list of values still to be returned *)
Definition script_draw (_ : unit) (s : list Z) : Z * list Z :=
  match s with [] => (0, []) | d :: r => (d, r) end.

(* a concrete toy generator for the refutation examples: a linear congruential one *)
Definition lcg_next (s : Z) : Z := (s * 1103515245 + 12345) mod 2147483648.
Definition lcg_draw (_ : unit) (s : Z) : Z * Z := (lcg_next s, lcg_next s).
Definition lcg_reseed (k : Z) : Z := k.
Definition one_draw : unit -> prog Z unit Z := fun _ => Draw tt (fun d => Ret d).

(* the shape of a leak through the store (a map-file parser memoised per path whose marker
   objects the next call updates in place): the store is the bp position of one shared marker
   (0 = as parsed); an earlier run on a --region ending at that marker overwrites it with
   int32 max; the leaking simulation reads it, the repaired one does not *)
Definition region_run_before : pprog Z unit Z unit := PPut 2147483647 (PRet tt).
Definition leaky_body : pprog Z unit Z Z := PGet (fun m => PDraw tt (fun d => PRet (d + m))).
Definition clean_body : pprog Z unit Z Z := PDraw tt (fun d => PRet d).

(* ---------------- the interpreter around the process: THE STRING-HASH SEED.
   Python randomises the hashes of strings per interpreter process (PYTHONHASHSEED; random when
   unset), and with them the iteration order of every set of strings (dicts keep insertion order,
   but a dict filled while iterating a set inherits the set's).  A user's two runs are normally two interpreters, so "same seed and same inputs =>
   same bytes" quantifies over the hash seed as well.  An interpreter process [iproc] is the
   process of the previous section plus the hash seed it was started with; the seed is fixed for
   the life of the interpreter: no program can write it.  A program that can look at it is a
   family of process programs indexed by it ([hprog]).  "The output does not follow the iteration
   order of a set of strings" is the predicate [hash_blind].  Nothing in Coq says that haptools
   satisfies it - that is what the cross-interpreter stream of the correspondence runs tests
   (run A and run B in two fresh interpreters with different PYTHONHASHSEED). *)
Section Interp.
  Variables (S D Rq M : Type).
  Variable reseed : Z -> S.
  Variable draw : Rq -> S -> D * S.

  Record iproc := mkiproc { ip_hash : Z; ip_proc : proc S M }.

  Definition hprog (R : Type) : Type := Z -> pprog D Rq M R.

  Definition iexec {R} (p : hprog R) (w : iproc) : R * iproc :=
    let '(r, w') := exec S D Rq M reseed draw (p (ip_hash w)) (ip_proc w) in (r, mkiproc (ip_hash w) w').

  (* earlier programs of the same interpreter: arbitrary, and they may look at the hash seed too *)
  Fixpoint irun_hist (h : list (hprog unit)) (w : iproc) : iproc :=
    match h with
    | [] => w
    | p :: r => irun_hist r (snd (iexec p w))
    end.

  Definition hash_blind {R} (p : hprog R) : Prop :=
    forall h h' w,
      fst (exec S D Rq M reseed draw (p h) w) = fst (exec S D Rq M reseed draw (p h') w)
      /\ pr_gen _ _ (snd (exec S D Rq M reseed draw (p h) w)) = pr_gen _ _ (snd (exec S D Rq M reseed draw (p h') w)).

  Definition igeno_cmd {O} (legacy : bool) (seed : option Z) (body : hprog O) : hprog O :=
    fun h => geno_cmd D Rq M legacy seed (body h).

  (* --- a set of strings (IDs interned to Z).  [order h ins] = the order in which a set that was
     filled by inserting [ins] one after the other is iterated in an interpreter with hash seed h.
     The one thing known about it: it has the elements that were inserted ([order_ok]). *)
  Variable order : Z -> list Z -> list Z.
  Definition order_ok : Prop := forall h l x, In x (order h l) <-> In x l.

  Definition memb (x : Z) (l : list Z) : bool := existsb (Z.eqb x) l.

  (* simulate_pt, .snplist branch: `list(filter(lambda e: e.id in haplotype_ids, effects))` -
     the lines of the file, in FILE order, whose ID is requested *)
  Definition select_file_order {E} (eid : E -> Z) (req : list Z) (effects : list E) : list E :=
    filter (fun e => memb (eid e) req) effects.

  (* the excluded variant: `effects = {e.id: e for e in effects};
     [effects[ID] for ID in haplotype_ids if ID in effects]` - the same effects in the iteration
     order of the SET of requested IDs *)
  Definition select_set_order {E} (eid : E -> Z) (req : list Z) (effects : list E) : list E :=
    flat_map (fun i => match find (fun e => eid e =? i) (rev effects) with Some e => [e] | None => [] end) req.

  (* simphenotype with requested IDs: the effects in the order in which they name the column and
     enter the floating-point sum, and the noise of the replicates (pheno_cmd) *)
  Definition pheno_sel_cmd {E} (select : list Z -> list E -> list E) (seed : option Z) (reqs : list Rq)
             (ins : list Z) (effects : list E) : hprog (list E * list D) :=
    fun h =>
      let sel := select (order h ins) effects in
      match seed with
      | Some k => PRet (sel, fst (fst (replications S D Rq draw reqs (reseed k))))
      | None => PEntropy (fun e => PRet (sel, fst (fst (replications S D Rq draw reqs (reseed e)))))
      end.
End Interp.

(* a toy iteration order: interpreters with an even hash seed iterate in insertion order, the
   others in reverse (so it also depends on the insertion order, as colliding strings do) *)
Definition toy_order (h : Z) (l : list Z) : list Z := if Z.even h then l else rev l.
(* a simulation whose output follows the iteration order of a set of two strings *)
Definition set_iter_body : hprog Z unit Z Z :=
  fun h => PDraw tt (fun d => PRet (d + hd 0 (toy_order h [1; 2]))).
