(* C10 - "whatever ran earlier in the same process": proofs about the process model
   (C10_Model.Section Process).  Earlier programs are arbitrary; the command under test is
   reproducible after every history iff its result does not depend on the store. *)
From HV Require Import Prelude C10_Model.
Open Scope Z_scope.

Section Process.
  Variables (S D Rq M : Type).
  Variable reseed : Z -> S.
  Variable draw : Rq -> S -> D * S.

  Notation proc := (proc S M).
  Notation mkproc := (mkproc S M).
  Notation pprog := (pprog D Rq M).
  Notation exec := (exec S D Rq M reseed draw).
  Notation run_hist := (run_hist S D Rq M reseed draw).
  Notation lift := (lift D Rq M).
  Notation gen_only := (gen_only D Rq M).
  Notation store_blind := (store_blind S D Rq M reseed draw).
  Notation geno_cmd := (geno_cmd D Rq M).
  Notation pheno_cmd := (pheno_cmd S D Rq M reseed draw).
  Notation run := (run S D Rq draw).

  (* a lifted drawing program moves the generator exactly as [run] says and leaves the store
     and the entropy untouched *)
  Lemma prun_lift_l {R} (p : prog D Rq R) : forall w,
    exec (lift p) w =
    let '(r, s') := run p (pr_gen _ _ w) in (r, mkproc s' (pr_mem _ _ w) (pr_entropy _ _ w)).
  Proof.
    induction p as [r|q k IH]; intros w; cbn [C10_Model.lift C10_Model.exec C10_Model.run].
    - destruct w; reflexivity.
    - destruct (draw q (pr_gen _ _ w)) as [d s']. rewrite IH. cbn [pr_gen pr_mem pr_entropy]. reflexivity.
  Qed.

  Lemma lift_gen_only_l {R} (p : prog D Rq R) : gen_only (lift p).
  Proof. induction p as [r|q k IH]; cbn [C10_Model.lift]; constructor. exact IH. Qed.

  (* the structural predicate implies the semantic one, and more: the program does not write
     the store or consume entropy either *)
  Lemma gen_only_frame_l {R} (p : pprog R) : gen_only p ->
    forall s m e m' e',
      fst (exec p (mkproc s m e)) = fst (exec p (mkproc s m' e'))
      /\ pr_gen _ _ (snd (exec p (mkproc s m e))) = pr_gen _ _ (snd (exec p (mkproc s m' e')))
      /\ pr_mem _ _ (snd (exec p (mkproc s m e))) = m
      /\ pr_entropy _ _ (snd (exec p (mkproc s m e))) = e.
  Proof.
    induction 1 as [r|q k Hk IH|z k Hk IH]; intros s m e m' e'; cbn [C10_Model.exec pr_gen pr_mem pr_entropy].
    - cbn. auto.
    - destruct (draw q s) as [d s']. apply IH.
    - apply IH.
  Qed.

  Lemma gen_only_store_blind_l {R} (p : pprog R) : gen_only p -> store_blind p.
  Proof.
    intros H s m e m' e'. destruct (gen_only_frame_l p H s m e m' e') as (H1 & H2 & _). auto.
  Qed.

  Lemma geno_cmd_seeded {O} k (body : pprog O) w :
    exec (geno_cmd false (Some k) body) w
    = exec body (mkproc (reseed k) (pr_mem _ _ w) (pr_entropy _ _ w)).
  Proof. reflexivity. Qed.

  (* SUFFICIENT: a store-blind simulation behind the repaired seed guard gives the same output
     and leaves the same generator state after ANY two histories of arbitrary earlier programs,
     started in any two processes *)
  Lemma seeded_after_any_history_l {O} (body : pprog O) k :
    store_blind body ->
    forall (hist hist' : list (pprog unit)) (w w' : proc),
      fst (exec (geno_cmd false (Some k) body) (run_hist hist w))
      = fst (exec (geno_cmd false (Some k) body) (run_hist hist' w'))
      /\ pr_gen _ _ (snd (exec (geno_cmd false (Some k) body) (run_hist hist w)))
         = pr_gen _ _ (snd (exec (geno_cmd false (Some k) body) (run_hist hist' w'))).
  Proof.
    intros Hb hist hist' w w'. rewrite !geno_cmd_seeded. apply Hb.
  Qed.

  (* NECESSARY: earlier programs can leave anything in the store, so a simulation that is
     reproducible after every history (even started in one and the same fresh process) cannot
     depend on the store *)
  Lemma history_independent_needs_blind_l {O} (body : pprog O) k :
    (forall (hist hist' : list (pprog unit)) (w : proc),
        fst (exec (geno_cmd false (Some k) body) (run_hist hist w))
        = fst (exec (geno_cmd false (Some k) body) (run_hist hist' w))) ->
    forall m m' e,
      fst (exec body (mkproc (reseed k) m e)) = fst (exec body (mkproc (reseed k) m' e)).
  Proof.
    intros H m m' e.
    specialize (H [PPut m (PRet tt)] [PPut m' (PRet tt)] (mkproc (reseed 0) m e)).
    rewrite !geno_cmd_seeded in H. cbn in H. exact H.
  Qed.

  (* the simulators of the first section (every [prog]: randomness through [draw] only, no
     other state) after any history: the output is [run (P i) (reseed k)] *)
  Lemma lifted_after_any_history_l {I O} (P : I -> prog D Rq O) k i (hist : list (pprog unit)) (w : proc) :
    fst (exec (geno_cmd false (Some k) (lift (P i))) (run_hist hist w)) = fst (run (P i) (reseed k))
    /\ pr_gen _ _ (snd (exec (geno_cmd false (Some k) (lift (P i))) (run_hist hist w))) = snd (run (P i) (reseed k))
    /\ pr_mem _ _ (snd (exec (geno_cmd false (Some k) (lift (P i))) (run_hist hist w))) = pr_mem _ _ (run_hist hist w).
  Proof.
    rewrite geno_cmd_seeded, prun_lift_l. cbn [pr_gen pr_mem pr_entropy].
    destruct (run (P i) (reseed k)) as [r s']. cbn. auto.
  Qed.

  Lemma lifted_history_independent_l {I O} (P : I -> prog D Rq O) k i (hist hist' : list (pprog unit)) (w w' : proc) :
    fst (exec (geno_cmd false (Some k) (lift (P i))) (run_hist hist w))
    = fst (exec (geno_cmd false (Some k) (lift (P i))) (run_hist hist' w')).
  Proof.
    destruct (lifted_after_any_history_l P k i hist w) as (H1 & _).
    destruct (lifted_after_any_history_l P k i hist' w') as (H2 & _). congruence.
  Qed.

  (* the process view agrees with the first section's [simgenotype_run] *)
  Lemma geno_cmd_is_simgenotype_run_l {I O} legacy (P : I -> prog D Rq O) seed i (w : proc) :
    fst (exec (geno_cmd legacy seed (lift (P i))) w)
    = fst (simgenotype_run S D Rq reseed draw legacy P seed (pr_gen _ _ w) i)
    /\ pr_gen _ _ (snd (exec (geno_cmd legacy seed (lift (P i))) w))
       = snd (simgenotype_run S D Rq reseed draw legacy P seed (pr_gen _ _ w) i).
  Proof.
    unfold C10_Model.geno_cmd, simgenotype_run, start_state.
    destruct seed as [k|]; [destruct (guard_fires legacy (Some k))|];
      cbn [C10_Model.exec]; rewrite prun_lift_l; cbn [pr_gen pr_mem pr_entropy];
      match goal with |- context [run ?p ?s] => destruct (run p s) as [r s'] end; cbn; auto.
  Qed.

  (* simphenotype with a seed: same noise after any two histories, and the process - global
     generator, store, entropy - is left exactly as it was found *)
  Lemma pheno_after_any_history_l k reqs (hist hist' : list (pprog unit)) (w w' : proc) :
    fst (exec (pheno_cmd (Some k) reqs) (run_hist hist w))
    = fst (exec (pheno_cmd (Some k) reqs) (run_hist hist' w'))
    /\ snd (exec (pheno_cmd (Some k) reqs) (run_hist hist w)) = run_hist hist w.
  Proof. cbn. auto. Qed.

  Lemma pheno_cmd_is_simphenotype_run_l seed reqs (w : proc) :
    fst (exec (pheno_cmd seed reqs) w)
    = simphenotype_run S D Rq reseed draw seed (mkworld S (pr_gen _ _ w) (pr_entropy _ _ w)) reqs
    /\ pr_gen _ _ (snd (exec (pheno_cmd seed reqs) w)) = pr_gen _ _ w
    /\ pr_mem _ _ (snd (exec (pheno_cmd seed reqs) w)) = pr_mem _ _ w.
  Proof. destruct seed as [k|]; cbn; auto. Qed.

  (* histories compose *)
  Lemma run_hist_app_l (a b : list (pprog unit)) : forall w, run_hist (a ++ b) w = run_hist b (run_hist a w).
  Proof. induction a as [|p a IH]; intros w; cbn [app C10_Model.run_hist]; [reflexivity|apply IH]. Qed.

  (* ---- every state of a run is linked to the previous one by a draw: between two recorded
     states nothing else moves the generator (what r_gaps = 0 observes) *)
  Fixpoint linked (l : list S) : Prop :=
    match l with
    | a :: ((b :: _) as r) => (exists q, b = snd (draw q a)) /\ linked r
    | _ => True
    end.

  Lemma trace_linked_l {R} (p : prog D Rq R) : forall s,
    hd s (trace S D Rq draw p s) = s /\ linked (trace S D Rq draw p s).
  Proof.
    induction p as [r|q k IH]; intros s; cbn [C10_Model.trace].
    - cbn. auto.
    - destruct (draw q s) as [d s'] eqn:E. cbn [hd]. split; [reflexivity|].
      destruct (IH d s') as [Hh Hl].
      destruct (trace S D Rq draw (k d) s') as [|t ts] eqn:Et.
      + exact I.
      + cbn [hd] in Hh. subst t. cbn [linked]. split; [|exact Hl].
        exists q. rewrite E. reflexivity.
  Qed.
End Process.

(* the leak through the store, on the toy generator: after an earlier run that overwrote the
   shared marker the leaking simulation gives another output for the same seed; the store-free
   one gives the same *)
Lemma store_leak_refuted_l :
  fst (exec Z Z unit Z lcg_reseed lcg_draw (geno_cmd Z unit Z false (Some 1) leaky_body)
         (run_hist Z Z unit Z lcg_reseed lcg_draw [] (mkproc Z Z 5 0 0)))
  <> fst (exec Z Z unit Z lcg_reseed lcg_draw (geno_cmd Z unit Z false (Some 1) leaky_body)
         (run_hist Z Z unit Z lcg_reseed lcg_draw [region_run_before] (mkproc Z Z 5 0 0)))
  /\ fst (exec Z Z unit Z lcg_reseed lcg_draw (geno_cmd Z unit Z false (Some 1) clean_body)
         (run_hist Z Z unit Z lcg_reseed lcg_draw [] (mkproc Z Z 5 0 0)))
     = fst (exec Z Z unit Z lcg_reseed lcg_draw (geno_cmd Z unit Z false (Some 1) clean_body)
         (run_hist Z Z unit Z lcg_reseed lcg_draw [region_run_before] (mkproc Z Z 5 0 0))).
Proof. vm_compute. split; [discriminate|reflexivity]. Qed.

(* the hypothesis of seeded_after_any_history_l is satisfiable (and clean_body is the lift of one_draw) *)
Lemma store_blind_inhabited_l :
  store_blind Z Z unit Z lcg_reseed lcg_draw clean_body
  /\ clean_body = lift Z unit Z (one_draw tt)
  /\ ~ store_blind Z Z unit Z lcg_reseed lcg_draw leaky_body.
Proof.
  split; [|split].
  - apply gen_only_store_blind_l. repeat constructor.
  - reflexivity.
  - intros H. destruct (H 1 0 0 1 0) as [H1 _]. vm_compute in H1. discriminate H1.
Qed.
