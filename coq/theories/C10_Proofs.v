(* C10 - proofs. *)
From HV Require Import Prelude C10_Model C10_Check.

Section Generator.
  Variables (S D Rq : Type).
  Variable reseed : Z -> S.
  Variable draw : Rq -> S -> D * S.

  Notation run := (run S D Rq draw).
  Notation start_state := (start_state S reseed).
  Notation simgenotype_run := (simgenotype_run S D Rq reseed draw).
  Notation replications := (replications S D Rq draw).
  Notation simphenotype_run := (simphenotype_run S D Rq reseed draw).

  (* stages are threaded: the second stage starts in the state the first one left *)
  Lemma run_bind_l {A B} (p : prog D Rq A) (f : A -> prog D Rq B) : forall s,
    run (bindP D Rq p f) s = let '(a, s') := run p s in run (f a) s'.
  Proof.
    induction p as [a|q k IH]; intros s; cbn [C10_Model.bindP C10_Model.run].
    - reflexivity.
    - destruct (draw q s) as [d s']. apply IH.
  Qed.

  Lemma start_state_seeded k g : start_state false (Some k) g = reseed k.
  Proof. reflexivity. Qed.

  (* with the repaired guard every integer seed (0 included) fixes the state the
     simulation starts from, so outputs AND the state left behind do not depend
     on what ran earlier in the process *)
  Lemma seeded_history_independent_l {I O} (P : I -> prog D Rq O) k g g' i :
    simgenotype_run false P (Some k) g i = simgenotype_run false P (Some k) g' i.
  Proof. unfold C10_Model.simgenotype_run. rewrite !start_state_seeded. reflexivity. Qed.

  (* the whole command: breakpoints (simulate_gt), their sub-sample (write_breakpoints) and
     the genotypes (output_vcf) are a function of seed and inputs although only the first
     stage seeds the generator *)
  Lemma pipeline_history_independent_l {I A B C} (sim : I -> prog D Rq A)
        (wbp : A -> prog D Rq B) (vcf : B -> prog D Rq C) k g g' i :
    simgenotype_run false (fun i => bindP D Rq (sim i) (fun a => bindP D Rq (wbp a) vcf)) (Some k) g i
    = simgenotype_run false (fun i => bindP D Rq (sim i) (fun a => bindP D Rq (wbp a) vcf)) (Some k) g' i.
  Proof. apply seeded_history_independent_l. Qed.

  Lemma seeded_is_function_of_seed_l {I O} (P : I -> prog D Rq O) k g i :
    simgenotype_run false P (Some k) g i = run (P i) (reseed k).
  Proof. reflexivity. Qed.

  Lemma unseeded_continues_global_l {I O} (P : I -> prog D Rq O) legacy g i :
    simgenotype_run legacy P None g i = run (P i) g.
  Proof. reflexivity. Qed.

  (* the pinned guard agrees with the repaired one exactly for seeds <> 0 ... *)
  Lemma legacy_nonzero_seed_l {I O} (P : I -> prog D Rq O) k g i :
    k <> 0 -> simgenotype_run true P (Some k) g i = simgenotype_run false P (Some k) g i.
  Proof.
    intros Hk. unfold C10_Model.simgenotype_run, C10_Model.start_state, guard_fires.
    destruct (k =? 0) eqn:E; [apply Z.eqb_eq in E; contradiction|]. reflexivity.
  Qed.

  (* ... and for seed 0 it runs from whatever state the process is in *)
  Lemma legacy_seed0_is_unseeded_l {I O} (P : I -> prog D Rq O) g i :
    simgenotype_run true P (Some 0) g i = run (P i) g.
  Proof. reflexivity. Qed.

  (* simphenotype never reads the process state when a seed is given *)
  Lemma simphenotype_history_independent_l k (w w' : world S) reqs :
    simphenotype_run (Some k) w reqs = simphenotype_run (Some k) w' reqs.
  Proof. reflexivity. Qed.

  (* replicates thread one generator: running a ++ b = running a, then b from the state a left *)
  Lemma replications_app a : forall b s,
    replications (a ++ b) s =
    let '(da, sa, s1) := replications a s in
    let '(db, sb, s2) := replications b s1 in
    (da ++ db, sa ++ sb, s2).
  Proof.
    induction a as [|q a IH]; intros b s; cbn [app C10_Model.replications].
    - destruct (replications b s) as [[db sb] s2]. reflexivity.
    - destruct (draw q s) as [d s'] eqn:E. rewrite IH.
      destruct (replications a s') as [[da sa] s1].
      destruct (replications b s1) as [[db sb] s2]. reflexivity.
  Qed.

  (* the state in which replicate r+1 starts is the state replicate r left *)
  Fixpoint chained (reqs : list Rq) (starts : list S) (final : S) : Prop :=
    match reqs, starts with
    | [], [] => True
    | q :: r, s :: t =>
        snd (draw q s) = match t with s' :: _ => s' | [] => final end /\ chained r t final
    | _, _ => False
    end.

  Lemma replications_chained reqs : forall s,
    let '(ds, ss, sf) := replications reqs s in
    chained reqs ss sf /\ hd sf ss = s /\
    ds = map (fun qs : Rq * S => fst (draw (fst qs) (snd qs))) (combine reqs ss).
  Proof.
    induction reqs as [|q r IH]; intros s; cbn [C10_Model.replications].
    - cbn. auto.
    - destruct (draw q s) as [d s'] eqn:E. specialize (IH s').
      destruct (replications r s') as [[ds ss] sf]. destruct IH as (IH1 & IH2 & IH3).
      cbn [chained hd combine map fst snd]. rewrite E. cbn [fst snd]. split; [split|split].
      + destruct ss as [|s0 t]; cbn [hd] in IH2; subst; reflexivity.
      + exact IH1.
      + reflexivity.
      + rewrite IH3. reflexivity.
  Qed.

  Lemma replications_thread_state_l seed (w : world S) reqs :
    let '(ds, ss, sf) := replications reqs (pheno_rng S reseed seed w) in
    simphenotype_run seed w reqs = ds /\
    chained reqs ss sf /\ hd sf ss = pheno_rng S reseed seed w /\
    ds = map (fun qs : Rq * S => fst (draw (fst qs) (snd qs))) (combine reqs ss).
  Proof.
    unfold C10_Model.simphenotype_run.
    pose proof (replications_chained reqs (pheno_rng S reseed seed w)) as H.
    destruct (replications reqs (pheno_rng S reseed seed w)) as [[ds ss] sf].
    cbn [fst]. destruct H as (H1 & H2 & H3). auto.
  Qed.

  (* the excluded mutant: re-creating the generator per replicate makes equal
     requests return copies *)
  Lemma reseeded_mutant_copies_l k q n :
    replications_reseeded S D Rq reseed draw k (repeat q n) = repeat (fst (draw q (reseed k))) n.
  Proof. induction n as [|n IH]; cbn; [reflexivity|]. rewrite IH. reflexivity. Qed.
End Generator.

(* ---------------- the pinned guard, refuted with a toy generator *)
Lemma legacy_seed0_refuted_l :
  fst (simgenotype_run Z Z unit lcg_reseed lcg_draw true one_draw (Some 0) 1 tt)
  <> fst (simgenotype_run Z Z unit lcg_reseed lcg_draw true one_draw (Some 0) 2 tt)
  /\ fst (simgenotype_run Z Z unit lcg_reseed lcg_draw false one_draw (Some 0) 1 tt)
     = fst (simgenotype_run Z Z unit lcg_reseed lcg_draw false one_draw (Some 0) 2 tt).
Proof. vm_compute. split; [discriminate|reflexivity]. Qed.

(* threaded replicates of the toy generator differ, re-seeded ones are copies *)
Lemma threaded_vs_reseeded_example_l :
  simphenotype_run Z Z unit lcg_reseed lcg_draw (Some 0) (mkworld Z 7 9) [tt; tt; tt]
    = [12345; 1406932606; 654583775]
  /\ replications_reseeded Z Z unit lcg_reseed lcg_draw 0 [tt; tt; tt] = [12345; 12345; 12345].
Proof. vm_compute. split; reflexivity. Qed.

(* ---------------- soundness of the boolean checkers *)
Lemma zl_eqb_eq a b : zl_eqb a b = true <-> a = b.
Proof. apply list_eqb_spec. intros; apply Z.eqb_eq. Qed.

Lemma nodupb_NoDup l : nodupb l = true -> NoDup l.
Proof.
  induction l as [|a r IH]; cbn [nodupb]; intros H; constructor.
  - apply andb_true_iff in H. destruct H as [H _]. apply negb_true_iff in H.
    intros Hin. assert (existsb (Z.eqb a) r = true).
    { apply existsb_exists. exists a. split; [exact Hin|apply Z.eqb_refl]. }
    congruence.
  - apply andb_true_iff in H. destruct H as [_ H]. auto.
Qed.

Lemma holds_genotype_sound_l c :
  holds_genotype c = true -> forall k, g_seed c = Some k -> r_out (g_a c) = r_out (g_b c).
Proof. unfold holds_genotype. intros H k Hk. rewrite Hk in H. apply zl_eqb_eq. exact H. Qed.

Lemma holds_phenotype_sound_l c :
  holds_phenotype c = true ->
  (forall k, p_seed c = Some k -> p_out (p_a c) = p_out (p_b c)) /\
  (p_noisy (p_a c) = true -> NoDup (p_cols (p_a c))) /\
  (p_noisy (p_b c) = true -> NoDup (p_cols (p_b c))).
Proof.
  unfold holds_phenotype. intros H. apply andb_true_iff in H. destruct H as [H H3].
  apply andb_true_iff in H. destruct H as [H1 H2]. split; [|split].
  - intros k Hk. rewrite Hk in H1. apply zl_eqb_eq. exact H1.
  - intros Hn. rewrite Hn in H2. cbn in H2. apply nodupb_NoDup. exact H2.
  - intros Hn. rewrite Hn in H3. cbn in H3. apply nodupb_NoDup. exact H3.
Qed.

(* agree on a run means: its first draw was made from the state the model predicts *)
Lemma agree_genotype_meaning_l c :
  fst (check_genotype c) = true ->
  forall k, g_seed c = Some k -> r_start (g_a c) = g_ref c /\ r_start (g_b c) = g_ref c.
Proof.
  unfold check_genotype, model_start. cbn [fst]. intros H k Hk. rewrite Hk in H.
  cbn in H. apply andb_true_iff in H. destruct H as [H1 H2].
  apply Z.eqb_eq in H1. apply Z.eqb_eq in H2. auto.
Qed.
